(* Proofs/GCNormProofs.v -- the regenerated _normalize_path agrees with the readers' path resolution on
   every path form the writers produce, for EVERY table location. *)
From Coq Require Import ZArith String Ascii List Bool Arith Lia.
Require Import DS.Model.PyStr DS.Gen.GenNorm DS.Model.GC DS.Proofs.PyStrProofs.
Import ListNotations.
Open Scope string_scope.

Lemma resolve_idem : forall p, resolve (resolve p) = resolve p.
Proof. intro. apply lstrip_c_idem. Qed.

Lemma resolve_slash : forall p, resolve ("/" ++ p) = resolve p.
Proof. intro p. unfold resolve. cbn [append]. apply lstrip_c_cons_same. Qed.

Lemma table_relative_resolve : forall p, table_relative p -> resolve p = p.
Proof.
  intros p [H|H]; apply startswith_spec in H; destruct H as [r ->]; reflexivity.
Qed.

(* the crux: whatever the table location, a reference in writer form normalises to the key the
   readers (and the listing) use *)
Lemma norm_wf_ref : forall tp r, wf_ref r -> normalize_path tp r = resolve r.
Proof.
  intros tp r H. unfold wf_ref, table_relative, resolve, slash in H. unfold normalize_path. cbv zeta.
  unfold resolve, slash. destruct H as [H|H]; rewrite H; [|rewrite orb_true_r]; reflexivity.
Qed.

Lemma norm_table_relative : forall tp p, table_relative p -> normalize_path tp p = p.
Proof.
  intros tp p H. rewrite norm_wf_ref.
  - apply table_relative_resolve. exact H.
  - unfold wf_ref. rewrite table_relative_resolve; assumption.
Qed.

Lemma norm_agree : forall tp p, table_relative p ->
  normalize_path tp ("/" ++ p) = normalize_path tp p /\ normalize_path tp p = p.
Proof.
  intros tp p H. split.
  - rewrite (norm_table_relative tp p H). rewrite norm_wf_ref.
    + rewrite resolve_slash. apply table_relative_resolve. exact H.
    + unfold wf_ref. rewrite resolve_slash, table_relative_resolve; assumption.
  - apply norm_table_relative. exact H.
Qed.

(* consequently normalisation is injective on table-relative keys: two different files never collide *)
Lemma norm_injective : forall tp p q, table_relative p -> table_relative q ->
  normalize_path tp p = normalize_path tp q -> p = q.
Proof. intros tp p q Hp Hq H. rewrite !norm_table_relative in H by assumption. exact H. Qed.

Lemma wf_ref_resolve_relative : forall r, wf_ref r -> table_relative (resolve r).
Proof. intros r H. exact H. Qed.

(* keys returned by a directory listing are table-relative *)
Lemma listed_data_relative : forall k, startswith (DATA_PREFIX ++ "/") k = true -> table_relative k.
Proof. intros k H. left. exact H. Qed.

Lemma listed_manifests_relative : forall k, startswith (MANIFESTS_PREFIX ++ "/") k = true -> table_relative k.
Proof.
  intros k H. right. change (MANIFESTS_PREFIX ++ "/") with ("metadata/" ++ "manifests/") in H.
  eapply startswith_trans_app. exact H.
Qed.

Lemma listed_inflight_relative : forall k, startswith (INFLIGHT_PATH ++ "/") k = true -> table_relative k.
Proof.
  intros k H. right. change (INFLIGHT_PATH ++ "/") with ("metadata/" ++ "inflight/") in H.
  eapply startswith_trans_app. exact H.
Qed.

Lemma table_relative_not_escape : forall k, table_relative k -> escapes k = false.
Proof.
  intros k [H|H]; apply startswith_spec in H; destruct H as [r ->]; reflexivity.
Qed.

Lemma name_candidates_relative : forall mk k, In k (name_candidates mk) -> table_relative k.
Proof.
  intros mk k H. unfold name_candidates in H. cbv zeta in H.
  destruct (startswith "data/" _) eqn:D; cbn [orb] in H.
  { destruct H as [<-|[]]. left. exact D. }
  destruct (startswith "metadata/" _) eqn:M.
  { destruct H as [<-|[]]. right. exact M. }
  destruct H as [<-|[<-|[]]].
  - left. apply startswith_app.
  - right. change "metadata/manifests/" with ("metadata/" ++ "manifests/"). rewrite append_assoc. apply startswith_app.
Qed.

(* the regenerated fallback of _marker_targets covers every path the marker's name can denote *)
Lemma marker_fallback_covers : forall mk, marker_fallback mk (basename mk) = name_candidates mk.
Proof. intro mk. reflexivity. Qed.

(* the legacy JSON fallback of read_manifest_list_file / read_manifest_file subscripts the section it iterates (`DOC[key]`):
   a JSON document without it is refused, not read as an empty list / manifest.  Checked by computation on the constants
   REGENERATED from file_manager.py: with `DOC.get(key, [])` in the source these two lemmas -- and everything proved about
   what a successful read returned -- are unproved. *)
Lemma list_json_section_required : LIST_JSON_MISSING_SECTION_READS_EMPTY = false.
Proof. reflexivity. Qed.
Lemma manifest_json_section_required : MANIFEST_JSON_MISSING_SECTION_READS_EMPTY = false.
Proof. reflexivity. Qed.
