(* Proofs/TxMarkersProofs.v -- the marker ledger of a transaction covers everything it is going to publish, through
   any number of lost commit attempts (Model/TxMarkers.v over the regenerated Gen/GenTxMarkers.v). *)
From Coq Require Import List Bool Arith.
Require Import DS.Gen.GenTxMarkers DS.Model.TxMarkers.
Import ListNotations.

Lemma memb_In : forall f l, memb f l = true <-> In f l.
Proof.
  intros f l. unfold memb. rewrite existsb_exists. split.
  - intros [x [Hin Heq]]. apply Nat.eqb_eq in Heq. subst. exact Hin.
  - intros Hin. exists f. split; [exact Hin | apply Nat.eqb_refl].
Qed.

Lemma hold_self : forall f l, In f (hold f l).
Proof.
  intros f l. unfold hold. destruct (memb f l) eqn:E.
  - apply memb_In. exact E.
  - left. reflexivity.
Qed.

Lemma hold_incl : forall f l, incl l (hold f l).
Proof.
  intros f l x Hx. unfold hold. destruct (memb f l); [exact Hx | right; exact Hx].
Qed.

Lemma uncovered_nil : forall p m, incl p m -> uncovered p m = [].
Proof.
  induction p as [|a p IH]; intros m Hincl; [reflexivity|].
  unfold uncovered in *. cbn [filter].
  assert (Ha : memb a m = true) by (apply memb_In; apply Hincl; left; reflexivity).
  rewrite Ha. cbn [negb]. apply IH. intros x Hx. apply Hincl. right. exact Hx.
Qed.

Lemma uncovered_sound : forall p m f, In f p -> ~ In f m -> In f (uncovered p m).
Proof.
  intros p m f Hp Hm. unfold uncovered. apply filter_In. split; [exact Hp|].
  destruct (memb f m) eqn:E; [|reflexivity]. exfalso. apply Hm. apply memb_In. exact E.
Qed.

Definition live (s : xtx) : Prop := x_phase s = XOpen \/ x_phase s = XFlipped.
Definition xinv (s : xtx) : Prop := x_bare s = [] /\ (live s -> incl (x_payload s) (x_markers s)).

Lemma xinv_init : xinv xinit.
Proof. split; [reflexivity|]. intros _ x Hx. destruct Hx. Qed.

Lemma incl_cons_hold : forall f p m, incl p m -> incl (f :: p) (hold f m).
Proof.
  intros f p m Hincl x [Hx|Hx].
  - subst. apply hold_self.
  - apply hold_incl. apply Hincl. exact Hx.
Qed.

Local Opaque uncovered hold.
Lemma xstep_inv : forall k, kernels_ok k -> forall s e s', xinv s -> xstep k s e = Some s' -> xinv s'.
Proof.
  intros k [Hw [Ha [Ht Hr]]] s e s' [Hbare Hcov] Hstep.
  unfold xstep in Hstep. rewrite Hw, Ha, Ht, Hr in Hstep.
  destruct (x_phase s) eqn:Hph; [| |discriminate|discriminate].
  - assert (Hc : incl (x_payload s) (x_markers s)) by (apply Hcov; left; exact Hph).
    destruct e; try discriminate; injection Hstep as Hs'; subst s'; unfold xinv, live, x_payload, mk in *;
      cbn [x_bare x_phase x_markers x_queued x_attempt x_written x_lost x_published app].
    + (* XWrite *)
      assert (Hn : incl (f :: x_queued s ++ x_attempt s) (hold f (x_markers s))) by (apply incl_cons_hold; exact Hc).
      split; [rewrite Hbare, (uncovered_nil _ _ Hn); reflexivity | intros _; exact Hn].
    + (* XAdopt *)
      assert (Hn : incl (f :: x_queued s ++ x_attempt s) (hold f (x_markers s))) by (apply incl_cons_hold; exact Hc).
      split; [rewrite Hbare, (uncovered_nil _ _ Hn); reflexivity | intros _; exact Hn].
    + (* XRefuse *)
      split; [exact Hbare | intros _; exact Hc].
    + (* XAttempt *)
      assert (Hn : incl (m :: x_queued s ++ x_attempt s) (hold m (x_markers s))) by (apply incl_cons_hold; exact Hc).
      split.
      * rewrite Hbare, (uncovered_nil _ _ Hn). reflexivity.
      * intros _ x Hx. apply in_app_or in Hx. destruct Hx as [Hx|[Hx|Hx]].
        -- apply Hn. right. apply in_or_app. left. exact Hx.
        -- subst. apply hold_self.
        -- apply Hn. right. apply in_or_app. right. exact Hx.
    + (* XConflict *)
      assert (Hq : incl (x_queued s) (x_markers s)) by (intros x Hx; apply Hc; apply in_or_app; left; exact Hx).
      split; [rewrite Hbare, (uncovered_nil _ _ Hq); reflexivity |].
      intros _. rewrite app_nil_r. exact Hq.
    + (* XCommit *)
      split; [rewrite Hbare, (uncovered_nil _ _ Hc); reflexivity | intros _; exact Hc].
    + (* XRollback *)
      split; [exact Hbare | intros [H|H]; discriminate].
  - destruct e; try discriminate. inversion Hstep; subst s'; clear Hstep. unfold xinv, live, mk; cbn [x_bare x_phase x_markers x_queued x_attempt].
    split; [exact Hbare | intros [H|H]; discriminate].
Qed.

Local Transparent uncovered hold.
Lemma xrun_inv : forall k, kernels_ok k -> forall evs s, xinv s -> xinv (xrun k s evs).
Proof.
  intros k Hk. induction evs as [|e evs IH]; intros s Hs; [exact Hs|].
  unfold xrun in *. cbn [fold_left]. apply IH. unfold xstep_skip.
  destruct (xstep k s e) as [s'|] eqn:E; [eapply xstep_inv; eauto | exact Hs].
Qed.

(* Whatever the regenerated kernels are, as long as they protect and the retry arm drops nothing: at every point of every
   history -- any number of written and adopted files, any number of lost attempts -- the transaction holds a marker for
   every file it is going to publish, up to and including the moment it publishes them. *)
Lemma tx_markers_cover_payload_k : forall k, kernels_ok k -> forall evs,
  let s := xrun k xinit evs in
  x_bare s = [] /\ (x_phase s = XOpen \/ x_phase s = XFlipped -> forall f, In f (x_payload s) -> In f (x_markers s)).
Proof.
  intros k Hk evs s. destruct (xrun_inv k Hk evs xinit xinv_init) as [Hb Hc]. fold s in Hb, Hc.
  split; [exact Hb | intros Hl f Hf; exact (Hc Hl f Hf)].
Qed.

Lemma gen_kernels_ok : kernels_ok gen_xkernels.
Proof. unfold kernels_ok. repeat split; vm_compute; reflexivity. Qed.

Lemma tx_markers_cover_payload : forall evs,
  let s := xrun gen_xkernels xinit evs in
  x_bare s = [] /\ (x_phase s = XOpen \/ x_phase s = XFlipped -> forall f, In f (x_payload s) -> In f (x_markers s)).
Proof. exact (tx_markers_cover_payload_k gen_xkernels gen_kernels_ok). Qed.

(* ... and the published set is exactly what was payload at the flip, all of it marked then. *)
Lemma xstep_published : forall k s e s', xstep k s e = Some s' ->
  (x_phase s' = XFlipped -> x_published s' = x_payload s') /\ (x_phase s = XFlipped -> x_phase s' = XDone).
Proof.
  intros k s e s' Hstep. unfold xstep in Hstep.
  destruct (x_phase s) eqn:Hph; [| |discriminate|discriminate].
  - destruct e; inversion Hstep; subst s'; clear Hstep; unfold mk, x_payload; cbn; split; intros H; try discriminate; try congruence; reflexivity.
  - destruct e; try discriminate. inversion Hstep; subst s'. unfold mk; cbn. split; intros H; [discriminate | reflexivity].
Qed.

(* A retry arm that drops markers refutes the cover, for every file and whatever the other kernels do: a file adopted
   (or written) before the lost attempt is payload without a marker from the conflict on, and is published so. *)
Lemma dropping_retry_refuted : forall k f, k_retry_drops k = true ->
  let s := xrun k xinit [XAdopt f; XConflict; XCommit] in
  x_phase s = XFlipped /\ In f (x_published s) /\ In f (x_bare s) /\ ~ In f (x_markers s).
Proof.
  intros k f Hr s. subst s. unfold xrun, xstep_skip, xstep, xinit, mk, x_payload. cbn. rewrite Hr. cbn.
  split; [reflexivity|]. split; [left; reflexivity|]. split.
  - apply in_or_app. left. apply in_or_app. right. cbn. left. reflexivity.
  - intros H. exact H.
Qed.
