(* Proofs/StepGenProofs.v -- one step of the sequential metadata machine (Model/Meta.v step_full, over which every
   history theorem of C15 / C09 is proved) IS the composition of the kernels regenerated from the source:
   Transaction.commit's partitioning and dispatch, _commit_file_ops, create_snapshot, the expire mutator, _apply_retention,
   delete_snapshot, and MetadataManager.commit's stamp rule and metadata log (Gen/GenFileOps.v, Gen/GenMeta.v,
   Gen/GenCommit.v).  The glue below mirrors the call structure that translator/gen_fileops.py pins. *)
From Coq Require Import ZArith List Bool Arith Lia.
Require Import DS.Model.MetaBase DS.Model.Meta DS.Model.MetaPy DS.Model.CommitBase.
Require Import DS.Gen.GenMeta DS.Gen.GenFileOps DS.Gen.GenCommit.
Require Import DS.Proofs.MetaGenProofs DS.Proofs.FileOpsGenProofs.
Import ListNotations.
Open Scope Z_scope.

(* the metadata a transaction hands to MetadataManager.commit: PyOk None = empty transaction (no commit),
   PyRaise = the commit aborts before the commit point *)
Definition gen_txn_meta (m : meta) (ops : list txop) (id t : Z) : pyres (option meta) :=
  match ops with
  | [] => PyOk None
  | _ =>
    let '(adds, dels, cut) := gen_partition ops in
    if gen_is_file_txn adds dels then
      match gen_base_manifests m with
      | PyRaise => PyRaise
      | PyOk base =>
          let ml := gen_append_manifests id (gen_seq m) adds (gen_final_manifests dels base) in
          match gen_create_snapshot m id t ml (gen_parent m) (gen_seq m) cut with
          | PyRaise => PyRaise
          | PyOk m' => PyOk (Some m')
          end
      end
    else PyOk (Some (match cut with Some c => gen_expire c m | None => m end))
  end.

(* MetadataManager.commit's effect on the stored metadata: stamp + metadata log, from the regenerated kernels *)
Definition gen_md_commit (st : state) (new : meta) (tu f : Z) : state :=
  {| md := {| cur := cur new; snaps := snaps new; slog := slog new; last_seq := last_seq new;
              last_updated := gen_new_lu tu (last_updated (md st));
              retention := retention new; prevmax := prevmax new;
              mlog := gen_append_mlog (prevmax new) (mlog new) (last_updated (md st)) (curfile st) |};
     curfile := f |}.

Lemma gen_md_commit_agrees st new tu f : gen_md_commit st new tu f = md_commit st new tu f.
Proof. unfold gen_md_commit, md_commit, gen_new_lu. rewrite gen_append_mlog_agrees. reflexivity. Qed.

Lemma is_file_txn_false adds dels : gen_is_file_txn adds dels = false -> adds = [] /\ dels = [].
Proof. apply gen_is_file_txn_spec. Qed.

Theorem txn_step_regenerated st ops id t tu f :
  step_full st (Txn ops id t tu f) =
  match gen_txn_meta (md st) ops id t with
  | PyOk None => (st, NoCommit, None)
  | PyRaise => (st, Aborted, None)
  | PyOk (Some m') =>
      (gen_md_commit st m' tu f, Committed,
       if gen_is_file_txn (tx_adds ops) (tx_dels ops)
       then match base_manifests (md st) with
            | Some base => Some (new_snap (md st) id t (apply_deletes (tx_dels ops) base ++ append_manifest id (last_seq (md st) + 1) (tx_adds ops)))
            | None => None
            end
       else None)
  end.
Proof.
  unfold step_full, gen_txn_meta. destruct ops as [|o ops]; [reflexivity|].
  rewrite gen_partition_agrees. set (OPS := o :: ops).
  destruct (gen_is_file_txn (tx_adds OPS) (tx_dels OPS)) eqn:F.
  - assert (NE : ~ (tx_adds OPS = [] /\ tx_dels OPS = [])).
    { intro H. apply gen_is_file_txn_spec in H. rewrite H in F. discriminate. }
    rewrite gen_base_manifests_agrees.
    destruct (tx_adds OPS) as [|a0 adds] eqn:EA, (tx_dels OPS) as [|d0 dels] eqn:ED; try (exfalso; apply NE; split; reflexivity);
      (destruct (base_manifests (md st)) as [base|]; [|reflexivity]);
      rewrite gen_append_manifests_agrees, gen_final_manifests_agrees; unfold gen_parent, gen_seq;
      rewrite gen_create_snapshot_agrees;
      match goal with |- context [create_snapshot ?a ?b ?c ?d ?e] => destruct (create_snapshot a b c d e) end;
      rewrite ?gen_md_commit_agrees; reflexivity.
  - apply is_file_txn_false in F. destruct F as [EA ED]. rewrite EA, ED.
    destruct (tx_expire OPS); rewrite ?gen_expire_agrees, gen_md_commit_agrees; reflexivity.
Qed.

Theorem delete_step_regenerated st id tu f :
  step_full st (DeleteSnap id tu f) =
  match gen_delete_snapshot (md st) id with
  | PyOk None => (st, NoCommit, None)
  | PyOk (Some m') => (gen_md_commit st m' tu f, Committed, None)
  | PyRaise => (st, Aborted, None)
  end.
Proof.
  unfold step_full. rewrite gen_delete_snapshot_agrees. destruct (delete_snapshot (md st) id); rewrite ?gen_md_commit_agrees; reflexivity.
Qed.
