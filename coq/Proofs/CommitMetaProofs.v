(* Proofs/CommitMetaProofs.v -- the commit machine's serializability read through Model/Meta.v (C01 + C15). *)
From Coq Require Import ZArith List Bool Arith Lia Sorted.
Require Import DS.Model.CommitBase DS.Gen.GenCommit DS.Model.Commit DS.Proofs.CommitGenProofs DS.Proofs.CommitProofs.
Require Import DS.Model.CommitMeta.
Require DS.Model.Meta DS.Model.MetaSpec DS.Proofs.MetaProofs.
Import ListNotations.

Lemma meta_run_app T l1 l2 : Meta.run T (l1 ++ l2) = Meta.run (Meta.run T l1) l2.
Proof. unfold Meta.run. apply fold_left_app. Qed.

(* the table the pointer names = the initial table with the flipped commits' mutators applied in flip order *)
Lemma reach_serializable_tables c m0 kind mr evs (T0 : Meta.state) (op_of : aid -> Meta.op) :
  sound c ->
  let w := run c (init_world m0 kind mr) evs in
  table_of T0 op_of (file w (w_ptr w)) = Meta.run (table_of T0 op_of m0) (flip_ops op_of w).
Proof.
  intros S w. unfold table_of, flip_ops. unfold w. rewrite (reach_serializable c m0 kind mr evs S).
  rewrite map_app. apply meta_run_app.
Qed.

(* every committed version, not only the newest: version k of the chain holds the first k flips *)
Lemma chain_prefix_ops F p h : chain_ok F p h ->
  forall k, (k <= length h)%nat -> m_ops (nthf F (lastv p (firstn k h))) = m_ops (nthf F p) ++ map snd (firstn k h).
Proof.
  revert p. induction h as [|[u b] t IH]; intros p C k Hk.
  - rewrite firstn_nil. unfold lastv. simpl. rewrite app_nil_r. reflexivity.
  - destruct k as [|k].
    + unfold lastv. simpl. rewrite app_nil_r. reflexivity.
    + simpl in C. destruct C as [C1 [C2 [C3 C4]]]. simpl firstn. rewrite lastv_cons.
      simpl in Hk. rewrite (IH u C4 k) by lia. rewrite C1, <- app_assoc. reflexivity.
Qed.

(* ------------------------------------------------------------------ sequence numbers and the snapshot chain *)
Section Snapshots.
  Variables (c : cfg) (m0 : meta) (kind : aid -> curk) (mr : aid -> nat) (evs : list event).
  Variables (t0 f0 : Z) (ops0 : list Meta.op) (op_of : aid -> Meta.op).
  Hypothesis Snd : sound c.
  (* the initial version holds the table built by the operations ops0 on the freshly created table *)
  Hypothesis M0 : m_ops m0 = [].
  (* what uuid4 / the random file suffix provide: distinct committers draw distinct, positive snapshot ids and
     distinct metadata-file names, also distinct from those of the initial table's history *)
  Hypothesis Fresh : forall l : list aid, NoDup l -> MetaSpec.fresh_ops f0 (ops0 ++ map op_of l).
  Let w := run c (init_world m0 kind mr) evs.
  Let all_ops := ops0 ++ flip_ops op_of w.

  Lemma reach_table_is_replay :
    table_of (MetaSpec.replay t0 f0 ops0) op_of (file w (w_ptr w)) = MetaSpec.replay t0 f0 all_ops.
  Proof.
    unfold w. rewrite (reach_serializable_tables c m0 kind mr evs _ op_of Snd).
    unfold table_of. rewrite M0. simpl. unfold all_ops, MetaSpec.replay. rewrite meta_run_app. reflexivity.
  Qed.

  Lemma reach_fresh : MetaSpec.fresh_ops f0 all_ops.
  Proof. unfold all_ops, flip_ops. apply Fresh. apply (reach_once c m0 kind mr evs Snd). Qed.

  Lemma reach_snapshot_chain :
    let T := Meta.md (table_of (MetaSpec.replay t0 f0 ops0) op_of (file w (w_ptr w))) in
    let H := MetaSpec.hist_of t0 f0 all_ops in
    MetaSpec.WF H T
    /\ StronglySorted Z.lt (map Meta.seq (MetaSpec.retained_in_commit_order H T))
    /\ map snd (Meta.slog T) = map Meta.sid (MetaSpec.retained_in_commit_order H T)
    /\ (forall s, In s (Meta.snaps T) ->
          exists h, In h (MetaSpec.retained_in_commit_order H T) /\ Meta.sid h = Meta.sid s /\ Meta.seq h = Meta.seq s).
  Proof.
    cbv zeta. rewrite reach_table_is_replay.
    pose proof (MetaProofs.wf_invariant t0 f0 all_ops reach_fresh) as WFm.
    split; [exact WFm|]. exact (MetaProofs.wf_seq_in_log_order _ _ WFm).
  Qed.
End Snapshots.
