(* Proofs/ReadBlocksProofs.v -- block-wise decoding never yields a partial container (C14). *)
From Coq Require Import ZArith NArith List Bool String.
Require Import DS.Gen.GenRead DS.Model.Read DS.Model.ReadBlocks DS.Proofs.ReadProofs.
Import ListNotations.
Open Scope list_scope.

Lemma stream_none : forall A (bs : list (blk A)),
  snd (stream bs) = None -> forallb good bs = true /\ fst (stream bs) = all_records bs.
Proof.
  intros A bs. induction bs as [|[r|p0 m] tl IH]; simpl; intro H.
  - split; reflexivity.
  - destruct (IH H) as [Hg Hr]. split; [exact Hg|]. unfold all_records in *. simpl. rewrite Hr. reflexivity.
  - discriminate.
Qed.

Lemma stream_some : forall A (bs : list (blk A)) m,
  snd (stream bs) = Some m ->
  exists pre p tl, bs = pre ++ BBad p m :: tl /\ forallb good pre = true /\ fst (stream bs) = all_records pre ++ p.
Proof.
  intros A bs m. induction bs as [|[r|p0 m'] tl IH]; simpl; intro H.
  - discriminate.
  - destruct (IH H) as [pre [p [tl' [Hb [Hg Hr]]]]]. exists (BGood r :: pre), p, tl'. subst tl. simpl.
    split; [reflexivity|]. split; [exact Hg|]. unfold all_records in *. simpl. rewrite Hr. rewrite app_assoc. reflexivity.
  - inversion H; subst m'. exists [], p0, tl. simpl. auto.
Qed.

Theorem collect_all_or_nothing : forall A (bs : list (blk A)) xs,
  collect bs = AvOk xs -> forallb good bs = true /\ xs = all_records bs.
Proof.
  intros A bs xs H. unfold collect in H. destruct (snd (stream bs)) as [m|] eqn:Hs; [discriminate|].
  inversion H; subst xs. apply stream_none. exact Hs.
Qed.

Theorem collect_raises_at_first_bad_block : forall A (pre : list (blk A)) p m tl,
  forallb good pre = true -> collect (pre ++ BBad p m :: tl) = AvRaise m.
Proof.
  intros A pre p m tl Hg. unfold collect.
  assert (Hs : snd (stream (pre ++ BBad p m :: tl)) = Some m).
  { induction pre as [|[r|p0 m'] pre IH]; simpl in *; [reflexivity|apply IH; exact Hg|discriminate]. }
  rewrite Hs. reflexivity.
Qed.

Lemma bad_block_split : forall A (bs : list (blk A)),
  forallb good bs = false -> exists pre p m tl, bs = pre ++ BBad p m :: tl /\ forallb good pre = true.
Proof.
  intros A bs. induction bs as [|[r|p0 m] tl IH]; simpl; intro H.
  - discriminate.
  - destruct (IH H) as [pre [p [m [tl' [Hb Hg]]]]]. exists (BGood r :: pre), p, m, tl'. subst tl. simpl. auto.
  - exists [], p0, m, tl. simpl. auto.
Qed.

Lemma collect_bad : forall A (bs : list (blk A)), forallb good bs = false -> exists m, collect bs = AvRaise m.
Proof.
  intros A bs H. destruct (bad_block_split A bs H) as [pre [p [m [tl [Hb Hg]]]]]. exists m. subst bs.
  apply (collect_raises_at_first_bad_block A pre p m tl Hg).
Qed.

(* ---------------------------------------------------------------- through the read pipeline *)
Lemma content_raise_none : forall A (av : bytes -> avro A) (js : bytes -> option A) classes b m,
  av b = AvRaise m -> js b = None -> content av js classes b = None.
Proof. intros A av js classes b m Ha Hj. unfold content. rewrite Ha. destruct (caught classes m); [exact Hj|reflexivity]. Qed.

Theorem bad_manifest_block_fails_closed : forall E lb mb st a o k b,
  json_not_avro (with_block_decoders E lb mb) ->
  reach (with_block_decoders E lb mb) st RManifest k ->
  st k = Present b -> forallb good (mb b) = false -> json_man E b = None ->
  exists e, out (read_current (with_block_decoders E lb mb) st a o) = Err e.
Proof.
  intros E lb mb st a o k b Hj Hr Hk Hbad Hjs.
  destruct (collect_bad _ (mb b) Hbad) as [m Hm].
  apply (fail_closed (with_block_decoders E lb mb) st a o RManifest k Hj Hr).
  - apply (dmg_garbage _ _ _ _ b Hk). simpl. unfold man_content. simpl.
    apply (content_raise_none _ _ _ _ b m); [exact Hm|exact Hjs].
  - simpl. rewrite Hk. exact I.
  - intros [Hc _]. discriminate.
Qed.

Theorem bad_list_block_fails_closed : forall E lb mb st a o k b,
  json_not_avro (with_block_decoders E lb mb) ->
  reach (with_block_decoders E lb mb) st RList k ->
  st k = Present b -> forallb good (lb b) = false -> json_list E b = None ->
  exists e, out (read_current (with_block_decoders E lb mb) st a o) = Err e.
Proof.
  intros E lb mb st a o k b Hj Hr Hk Hbad Hjs.
  destruct (collect_bad _ (lb b) Hbad) as [m Hm].
  apply (fail_closed (with_block_decoders E lb mb) st a o RList k Hj Hr).
  - apply (dmg_garbage _ _ _ _ b Hk). simpl. unfold list_content. simpl.
    apply (content_raise_none _ _ _ _ b m); [exact Hm|exact Hjs].
  - simpl. rewrite Hk. exact I.
  - intros [Hc _]. discriminate.
Qed.

(* ---------------------------------------------------------------- the decode cache *)
Definition cache_sound (dec : bytes -> avro (list dfile)) (c : dcache) : Prop :=
  forall b xs, cache_find c b = Some xs -> dec b = AvOk xs.

Lemma cached_decode_spec : forall dec c b, cache_sound dec c ->
  fst (cached_decode dec c b) = dec b /\ cache_sound dec (snd (cached_decode dec c b)).
Proof.
  intros dec c b Hs. unfold cached_decode. destruct (cache_find c b) as [xs|] eqn:Hf.
  - simpl. split; [symmetry; apply Hs; exact Hf|exact Hs].
  - destruct (dec b) as [xs|m] eqn:Hd; simpl; (split; [reflexivity|]); [|exact Hs].
    intros b' xs' H'. unfold cache_find in H'. simpl in H'. destruct (N.eqb b b') eqn:Hbb.
    + apply N.eqb_eq in Hbb. subst b'. simpl in H'. inversion H'; subst xs'. exact Hd.
    + apply Hs. exact H'.
Qed.

Theorem cache_transparent_from : forall dec reads c, cache_sound dec c ->
  fst (run_decodes dec c reads) = map dec reads.
Proof.
  intros dec reads. induction reads as [|b tl IH]; intros c Hs; simpl; [reflexivity|].
  destruct (cached_decode_spec dec c b Hs) as [H1 H2]. rewrite H1, (IH _ H2). reflexivity.
Qed.

Theorem cache_transparent : forall dec reads, fst (run_decodes dec [] reads) = map dec reads.
Proof. intros dec reads. apply cache_transparent_from. intros b xs H. discriminate. Qed.

Definition eager_transparent : Prop := forall (mb : bytes -> list (blk dfile)) (reads : list bytes),
  fst (run_eager mb [] reads) = map (fun b => collect (mb b)) reads.

Definition w_df (k : N) : dfile := {| dpath := k; dcount := 1%Z; dsum := None |}.
Definition w_blocks (b : bytes) : list (blk dfile) := [BGood [w_df 8%N]; BBad [w_df 7%N] ["EOFError"; "Exception"]%string; BGood [w_df 9%N]].

Definition w_blocks_sample : list (blk dfile) := w_blocks 5%N.

Theorem eager_refuted : ~ eager_transparent.
Proof. intro H. specialize (H w_blocks [5%N; 5%N]). vm_compute in H. discriminate. Qed.
