(* Proofs/GCHistFSProofs.v -- the history invariant over a backend with several spellings of a key (Model/GCHistFS.v).

   Under the law `normpath s = s -> canon s = s`, every step of the fs machine is a step of the literal machine of
   Model/GCHist.v or a refused commit: the REGENERATED acceptance guard of append_files demands normpath rel = rel (lemma
   accepts_canonical -- it does not compile on a source tree without that conjunct), hence canon rel = rel, hence the backend's
   existence check is the literal one.  Without the law (normpath := id, the guard's canonical-spelling half erased) the
   invariant is FALSE: alias_spelling_refuted. *)
From Coq Require Import ZArith String Ascii List Bool Arith Lia.
Require Import DS.Model.PyStr DS.Gen.GenNorm DS.Model.GC DS.Model.GCHist DS.Model.GCHistFS.
Require Import DS.Proofs.GCAcceptProofs DS.Proofs.GCHistProofs.
Import ListNotations.
Open Scope string_scope.
Open Scope Z_scope.

(* the canonical-spelling half of the regenerated guard *)
Lemma accepts_canonical : forall (normpath : string -> string) (e : string),
  append_accepts_path normpath e = true -> normpath (resolve e) = resolve e.
Proof.
  intros np e H. destruct (String.eqb (np (resolve e)) (resolve e)) eqn:E; [apply String.eqb_eq in E; exact E|]. exfalso.
  unfold append_accepts_path in H. cbv zeta in H. change (lstrip_c "/"%char e) with (resolve e) in H.
  rewrite E in H. cbn [negb orb] in H. rewrite orb_true_r in H. cbn [negb andb] in H. discriminate.
Qed.

(* ... and the guard is monotone in it: what is accepted under some normpath is accepted when normpath is the identity *)
Lemma accepts_literal : forall (normpath : string -> string) (e : string),
  append_accepts_path normpath e = true -> accepts e = true.
Proof.
  intros np e H. pose proof (accepts_canonical np e H) as C. apply String.eqb_eq in C.
  unfold accepts, literal_normpath. unfold append_accepts_path in *. cbv zeta in *.
  change (lstrip_c "/"%char e) with (resolve e) in *. rewrite C in H. rewrite String.eqb_refl. exact H.
Qed.

Lemma accepts_both_halves : forall (normpath : string -> string) (e : string),
  append_accepts_path normpath e = true -> wf_data_ref e /\ normpath (resolve e) = resolve e.
Proof. intros np e H. split; [exact (accepts_under_data np e H)|exact (accepts_canonical np e H)]. Qed.

Section FS.
  Variables normpath canon : string -> string.
  Hypothesis canon_law : forall s, normpath s = s -> canon s = s.

  Lemma accepted_is_stored_key : forall e, accepts_fs normpath e = true -> canon (resolve e) = resolve e.
  Proof. intros e H. apply canon_law. apply accepts_canonical. exact H. Qed.

  Lemma valid_commit_fs_literal : forall h newdata newmans kept lname lmt,
    valid_commit_fs normpath canon h newdata newmans kept lname lmt = true -> valid_commit h newdata newmans kept lname lmt = true.
  Proof.
    intros h newdata newmans kept lname lmt V. unfold valid_commit_fs in V. unfold valid_commit. cbv zeta in *.
    apply andb_true_iff in V. destruct V as [V V4]. apply andb_true_iff in V. destruct V as [V V3].
    rewrite V, V4, andb_true_r. cbn [andb]. apply forallb_forall. intros p Hp. apply forallb_forall. intros e He.
    rewrite forallb_forall in V3. specialize (V3 p Hp). rewrite forallb_forall in V3. specialize (V3 e He).
    apply andb_true_iff in V3. destruct V3 as [A X]. rewrite (accepts_literal _ _ A). cbn [andb].
    unfold exists_fs in X. rewrite (accepted_is_stored_key e A) in X. exact X.
  Qed.

  (* a step of the fs machine is the literal machine's step, or a refused commit *)
  Lemma hstep_fs_refines : forall h op, hstep_fs normpath canon h op = hstep h op \/ hstep_fs normpath canon h op = h.
  Proof.
    intros h op. destruct op as [sid newdata newmans kept lname lmt expire|keep|sid|name mt mmt|k garbage mt|k mt|tp grace now timeout o];
      try (left; reflexivity).
    cbn [hstep_fs hstep]. destruct (valid_commit_fs normpath canon h newdata newmans kept lname lmt) eqn:V; [|right; reflexivity].
    left. rewrite (valid_commit_fs_literal _ _ _ _ _ _ V). reflexivity.
  Qed.

  Lemma hinv_step_fs : forall h op, hinv h -> hinv (hstep_fs normpath canon h op).
  Proof. intros h op I. destruct (hstep_fs_refines h op) as [-> | ->]; [apply hinv_step; exact I|exact I]. Qed.

  Theorem history_invariant_fs : forall ops, hinv (run_hist_fs normpath canon ops).
  Proof.
    intro ops. unfold run_hist_fs. generalize hinit hinv_init. induction ops as [|op r IH]; intros h I; simpl; [exact I|].
    apply IH. apply hinv_step_fs. exact I.
  Qed.

  (* the append of Table.append_records commits in the fs machine too, for every name normpath leaves alone *)
  Lemma op_append_valid_fs : forall h sid name sp mname lname mt,
    normpath (data_key name) = data_key name ->
    lookup (data_key name) (h_store h) = None -> lookup (man_key mname) (h_store h) = None -> lookup (man_key lname) (h_store h) = None ->
    mname <> lname ->
    match op_append h sid name sp mname lname mt with
    | HCommit _ nd nm kept ln lmt _ => valid_commit_fs normpath canon h nd nm kept ln lmt = true
    | _ => False
    end.
  Proof.
    intros h sid name sp mname lname mt N F1 F2 F3 NE.
    pose proof (op_append_valid h sid name sp mname lname mt F1 F2 F3 NE) as V. unfold op_append in *.
    unfold valid_commit in V. unfold valid_commit_fs. cbv zeta in *.
    apply andb_true_iff in V. destruct V as [V V4]. apply andb_true_iff in V. destruct V as [V V3].
    rewrite V, V4, andb_true_r. cbn [andb]. cbn [forallb fst snd] in *. rewrite !andb_true_r in *.
    apply andb_true_iff in V3. destruct V3 as [_ X].
    assert (A : accepts_fs normpath (spell sp (data_key name)) = true).
    { apply (accepts_data_key normpath _ name); [apply resolve_spell|exact N]. }
    rewrite A. cbn [andb]. unfold exists_fs. rewrite (accepted_is_stored_key _ A). exact X.
  Qed.
End FS.

(* ------------------------------------------------------------------ the guard's canonical-spelling half erased: FALSE.
   Location "tbl", a local filesystem (canon := squeeze).  Commit 1 writes data/a (entry "/data/a").  Commit 2 replaces the
   manifest by one naming the same file as "data//a": normpath := id accepts it, the filesystem finds the file.  Snapshot 1
   is dropped, then a grace-1000 collection compares strings: the listed key "data/a" is not the reference "data//a", so it
   is deleted -- and the retained snapshot 2 names a file the backend no longer has. *)
Definition alias_ops : list hop := [
  HCommit 1 [("a", 1000)] [("m1", ["/data/a"], 1000)] [] "l1" 1000 None;
  HCommit 2 [] [("m2", ["data//a"], 1000)] [] "l2" 1000 None;
  HDeleteSnapshot 1;
  HCollect "tbl" 1000 1000000 86400000 no_faults ].

Lemma alias_spelling_refuted :
  let h := run_hist_fs no_normpath squeeze alias_ops in
  In (man_key "l2") (h_lists h) /\ ~ snapshot_present_fs squeeze (h_store h) (man_key "l2").
Proof.
  cbv zeta. split; [vm_compute; left; reflexivity|].
  intro P. assert (B : snapshot_present_fsb squeeze (h_store (run_hist_fs no_normpath squeeze alias_ops)) (man_key "l2") = false)
    by (vm_compute; reflexivity).
  destruct (P eq_refl) as [ms [[o [L1 A1]] Q]].
  assert (L1' : lookup (resolve (man_key "l2")) (h_store (run_hist_fs no_normpath squeeze alias_ops))
                = Some (mkObj 1000 (CList FAvro ["metadata/manifests/m2"]))) by (vm_compute; reflexivity).
  rewrite L1' in L1. inversion L1; subst o. cbn in A1. inversion A1; subst ms.
  destruct (Q "metadata/manifests/m2" (or_introl eq_refl) eq_refl) as [es [[o2 [L2 A2]] R]].
  assert (L2' : lookup (resolve "metadata/manifests/m2") (h_store (run_hist_fs no_normpath squeeze alias_ops))
                = Some (mkObj 1000 (CManifest FAvro ["data//a"]))) by (vm_compute; reflexivity).
  rewrite L2' in L2. inversion L2; subst o2. cbn in A2. inversion A2; subst es.
  apply (R "data//a" (or_introl eq_refl)). vm_compute. reflexivity.
Qed.
