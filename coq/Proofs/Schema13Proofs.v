(* Proofs/Schema13Proofs.v -- C13 over the schemas the constructor ACCEPTS: the uniqueness of field ids that the pruning theorems
   need is not assumed but follows from the regenerated guards of Schema.__post_init__ (Proofs/SchemaIdsProofs.v); and the
   refutation for a constructor that only demands pairwise != ids. *)
From Coq Require Import ZArith QArith List Bool.
Require Import DS.Model.Value DS.Model.BoundPrim DS.Gen.GenBound DS.Model.Bound DS.Model.FieldKey DS.Model.ManifestPrim
               DS.Gen.GenManifest13 DS.Gen.GenPrune DS.Model.Prune DS.Model.Manifest13 DS.Gen.GenFieldKey DS.Model.SchemaIds
               DS.Proofs.PruneProofs DS.Proofs.Manifest13Proofs DS.Proofs.FieldKeyProofs DS.Proofs.SchemaIdsProofs.
Import ListNotations.
Open Scope Z_scope.

Theorem scan_equal_accepted_schema X (ps : list (Z * value)) es (added existing : list (list row)) :
  schema_ids_ok (map snd ps) = true -> (forall f, In f (added ++ existing) -> wf_file (int_schema ps) f) ->
  scan X es (prune_via_manifest (int_schema ps) es added existing) = scan X es (added ++ existing).
Proof. intros H WF. apply scan_via_manifest_equal; [apply accepted_schema_nodup; exact H | exact WF]. Qed.

Theorem prune_sound_accepted_schema X (ps : list (Z * value)) es (added existing : list (list row)) rows lo hi :
  schema_ids_ok (map snd ps) = true -> (forall f, In f (added ++ existing) -> wf_file (int_schema ps) f) ->
  In (rows, (lo, hi)) (combine (added ++ existing) (manifest_bounds (int_schema ps) added existing)) ->
  file_may_match lo hi (int_schema ps) es = false ->
  forall r, In r rows -> row_selected X es r = false.
Proof. intros H WF. apply prune_sound_via_manifest; [apply accepted_schema_nodup; exact H | exact WF]. Qed.

(* ---- pairwise != is not enough ---- *)
(* the statement for every map whose keys are merely pairwise != (all a constructor with only the duplicate test guarantees) *)
Definition keys_roundtrip_for_distinct_ids : Prop :=
  forall (A : Type) (m : list (value * A)), py_distinct (map fst m) ->
  exists zm, key_trip m = TripOk zm /\ List.length zm = List.length m.

Definition collide_ids : list value := [VInt 1; VStr [49]].                         (* 1 and "1" *)
Definition collide_map : list (value * value) := [(VInt 1, VInt 1); (VStr [49], VInt 100)].   (* column a: 1..1, column b: 100..100 *)

Lemma collide_facts :
  py_distinct (map fst collide_map) /\ key_trip collide_map = TripOk [(1, VInt 100)].
Proof. split; [cbn; auto | vm_compute; reflexivity]. Qed.

Theorem keys_roundtrip_for_distinct_ids_refuted : ~ keys_roundtrip_for_distinct_ids.
Proof.
  intro H. destruct (H value collide_map (proj1 collide_facts)) as [zm [E L]].
  rewrite (proj2 collide_facts) in E. inversion E; subst. cbn in L. discriminate L.
Qed.
