(* Proofs/FlipFaultProofs.v -- the commit machine with failing commit-point writes (Model/FlipFault.v).

   1. what the regenerated tables say about a failed commit-point write on conditional-write storage
      (flip_error_raises / flip_refusal_retries: case analysis over the generated definitions, re-checked on every run);
   2. every step of the extended machine is at most one step of the commit machine, so its invariant -- hence the
      chain / serializability / "replaced what it validated" theorems -- holds for every schedule of protocol steps AND
      failing pointer writes, applied or not, landing anywhere;
   3. an actor whose commit-point write raised is never acknowledged (XJ, induction over the schedule). *)
From Coq Require Import ZArith List Bool Arith Lia.
Require Import DS.Model.CommitBase DS.Gen.GenCommit DS.Model.Commit DS.Model.FlipFault
               DS.Proofs.CommitGenProofs DS.Proofs.CommitProofs DS.Proofs.PtrFallbackProofs.
Import ListNotations.

(* ------------------------------------------------------------------ 1. the regenerated reaction *)
(* conditional-write storage: an error of the commit-point write that is not the store's refusal is reported to the
   caller (never retried, never acknowledged) and the transaction keeps its files, on every attempt *)
Lemma flip_error_raises atomic last : flip_reaction true atomic FEError last = RRaise true.
Proof. destruct atomic, last; reflexivity. Qed.

(* ... while the store's refusal is retried against a fresh base until the attempt bound, then reported *)
Lemma flip_refusal_retries atomic :
  flip_reaction true atomic FEPrecondition false = RRetry /\ flip_reaction true atomic FEPrecondition true = RRaise false.
Proof. destruct atomic; split; reflexivity. Qed.

(* without conditional writes: clean failure where failed writes are guaranteed invisible, ambiguous otherwise *)
Lemma flip_error_plain last :
  flip_reaction false true FEError last = RRaise false /\ flip_reaction false false FEError last = RRaise true.
Proof. destruct last; split; reflexivity. Qed.

(* ------------------------------------------------------------------ 2. one extended step = at most one machine step *)
(* what the regenerated refusal arm does: it reads the pointer back, and the helper's verdict is "the pointer's content is our
   file name" (re-checked on every run against the definitions just read off the source; both fail on a source that calls a
   refused write a conflict without looking) *)
Lemma refused_reads_back : gen_refused_reads_back = true.
Proof. reflexivity. Qed.
Lemma write_landed_spec n : gen_write_landed n = n.
Proof. reflexivity. Qed.
Lemma refusal_read_back_regenerated : gen_refused_reads_back = true /\ (forall names_ours, gen_write_landed names_ours = names_ours).
Proof. split; [exact refused_reads_back | exact write_landed_spec]. Qed.

(* prompt machine: at most one read-back is pending; its actor has flipped, the pointer still names its file, no exception
   is propagating in it *)
Definition XK (X : xworld) : Prop :=
  (x_npending X = 0%nat /\ forall a, x_rb X a = false)
  \/ (x_npending X = 1%nat /\ exists a, x_rb X a = true /\ (forall b, x_rb X b = true -> b = a)
        /\ a_pc (w_actors (xw X) a) = PFlipped /\ w_ptr (xw X) = a_new (w_actors (xw X) a) /\ x_err X a = None).

Lemma set_rb_same a v f : set_rb a v f a = v.
Proof. unfold set_rb. rewrite Nat.eqb_refl. reflexivity. Qed.
Lemma set_rb_other a b v f : b <> a -> set_rb a v f b = f b.
Proof. intro NE. unfold set_rb. destruct (Nat.eqb_spec b a); [contradiction|reflexivity]. Qed.
Lemma set_err_same a v f : set_err a v f a = v.
Proof. unfold set_err. rewrite Nat.eqb_refl. reflexivity. Qed.
Lemma set_err_other a b v f : b <> a -> set_err a v f b = f b.
Proof. intro NE. unfold set_err. destruct (Nat.eqb_spec b a); [contradiction|reflexivity]. Qed.

Lemma XK_pending X a : XK X -> x_rb X a = true ->
  x_npending X = 1%nat /\ (forall b, x_rb X b = true -> b = a) /\ a_pc (w_actors (xw X) a) = PFlipped
  /\ w_ptr (xw X) = a_new (w_actors (xw X) a) /\ x_err X a = None.
Proof.
  intros [[_ F]|[N [a' [RB [U [P [W E]]]]]]] R; [rewrite F in R; discriminate|].
  assert (a = a') by (apply U; exact R). subst a'. auto.
Qed.

Lemma readback_lands X a : XK X -> x_rb X a = true ->
  gen_refused_reads_back && gen_write_landed (names_ours (xw X) (w_actors (xw X) a)) = true.
Proof.
  intros K RB. destruct (XK_pending X a K RB) as [_ [_ [_ [W _]]]]. rewrite refused_reads_back, write_landed_spec. simpl.
  unfold names_ours. apply Nat.eqb_eq. exact W.
Qed.

Lemma xstep_readback c atomic X a X' : XK X -> xstep_p true c atomic X (XReadBack a) = Some X' ->
  xw X' = xw X /\ x_err X' = x_err X /\ x_failed X' = x_failed X /\ x_misreported X' = x_misreported X
  /\ x_rb X' = set_rb a false (x_rb X) /\ x_rb X a = true /\ x_npending X' = pred (x_npending X).
Proof.
  intros K H. unfold xstep_p in H. cbv beta iota zeta in H. destruct (x_rb X a) eqn:RB; [|discriminate].
  rewrite (readback_lands X a K RB) in H. inversion H; subst X'; simpl. repeat split; reflexivity.
Qed.

Lemma xstep_world c atomic X x X' : cas c = true -> XK X -> xstep_p true c atomic X x = Some X' ->
  xw X' = xw X \/ exists e, step c (xw X) e = Some (xw X').
Proof.
  intros CAS K H. destruct x as [e|a applied|a|a|a].
  - simpl in H. destruct (x_err X (e_actor e)); [discriminate|]. destruct (x_rb X (e_actor e)); [discriminate|].
    destruct (negb (is_flip_true (e_kind e)) || may_land true X); [|discriminate].
    destruct (step c (xw X) e) as [w'|] eqn:St; [|discriminate]. inversion H; subst X'; simpl. right. exists e. exact St.
  - simpl in H. destruct (x_err X a); [discriminate|]. destruct (x_rb X a); [discriminate|].
    destruct (a_pc (w_actors (xw X) a)); try discriminate.
    destruct applied.
    + match type of H with (if ?b then _ else _) = _ => destruct b; [discriminate|] end.
      destruct (step c (xw X) (ev a (EFlip true))) as [w'|] eqn:St; [|discriminate].
      inversion H; subst X'; simpl. right. eexists. exact St.
    + inversion H; subst X'; simpl. left. reflexivity.
  - simpl in H. destruct (x_err X a); [|discriminate]. rewrite CAS, flip_error_raises in H.
    destruct (step c (xw X) (ev a EAbort)) as [w'|] eqn:St; [|discriminate].
    inversion H; subst X'; simpl. right. eexists. exact St.
  - simpl in H. destruct (x_err X a); [discriminate|]. destruct (x_rb X a); [discriminate|].
    destruct (a_pc (w_actors (xw X) a)); try discriminate.
    match type of H with (if ?b then _ else _) = _ => destruct b; [|discriminate] end.
    destruct (step c (xw X) (ev a (EFlip true))) as [w'|] eqn:St; [|discriminate].
    inversion H; subst X'; simpl. right. eexists. exact St.
  - destruct (xstep_readback _ _ _ _ _ K H) as [E _]. left. exact E.
Qed.

Lemma xrun_p_cons p c atomic X x xs : xrun_p p c atomic X (x :: xs) = xrun_p p c atomic (xstep_skip_p p c atomic X x) xs.
Proof. reflexivity. Qed.

Lemma step_flip_true c w a w' : step c w (ev a (EFlip true)) = Some w' -> a_pc (w_actors w a) = PFenced ->
  a_pc (w_actors w' a) = PFlipped /\ (forall b, b <> a -> w_actors w' b = w_actors w b)
  /\ a_new (w_actors w' a) = a_new (w_actors w a) /\ w_ptr w' = a_new (w_actors w a).
Proof.
  intros H PC. unfold step in H. simpl in H. rewrite PC in H.
  match type of H with (if ?b then _ else _) = _ => destruct b; [|discriminate] end.
  inversion H; subst w'; simpl. rewrite upd_same. split; [reflexivity|]. split.
  - intros b NE. rewrite upd_other by exact NE. reflexivity.
  - split; reflexivity.
Qed.

(* a step of another actor that is not a successful flip leaves the pending actor and the pointer alone *)
Lemma pending_frame c w e w' a : step c w e = Some w' -> e_actor e <> a -> is_flip_true (e_kind e) = false ->
  w_actors w' a = w_actors w a /\ w_ptr w' = w_ptr w.
Proof.
  intros St NE NF. destruct (step_frame _ _ _ _ St) as [Oth [_ Ptr]]. cbv zeta in *. split.
  - apply Oth. intro E. apply NE. symmetry. exact E.
  - apply Ptr. intro E. rewrite E in NF. discriminate.
Qed.

Lemma xstep_XK c atomic X x X' : cas c = true -> XK X -> xstep_p true c atomic X x = Some X' -> XK X'.
Proof.
  intros CAS K H. destruct x as [e|a applied|a|a|a].
  - simpl in H. destruct (x_err X (e_actor e)) eqn:EE; [discriminate|]. destruct (x_rb X (e_actor e)) eqn:RB0; [discriminate|].
    destruct (negb (is_flip_true (e_kind e)) || may_land true X) eqn:G; [|discriminate].
    destruct (step c (xw X) e) as [w'|] eqn:St; [|discriminate]. inversion H; subst X'; clear H.
    destruct K as [[N F]|[N [a [RB [U [P [W E]]]]]]]; [left; simpl; auto|]. right; simpl. split; [exact N|]. exists a.
    assert (NE : e_actor e <> a) by (intro; subst; congruence).
    assert (NF : is_flip_true (e_kind e) = false).
    { unfold may_land in G. rewrite N in G. simpl in G. rewrite orb_false_r in G. apply negb_true_iff in G. exact G. }
    destruct (pending_frame _ _ _ _ a St NE NF) as [SA SP]. rewrite SA, SP. auto.
  - simpl in H. destruct (x_err X a) eqn:EE; [discriminate|]. destruct (x_rb X a) eqn:RB0; [discriminate|].
    destruct (a_pc (w_actors (xw X) a)) eqn:PC; try discriminate.
    destruct applied.
    + match type of H with (if ?b then _ else _) = _ => destruct b eqn:G; [discriminate|] end.
      apply orb_false_iff in G. destruct G as [_ G]. apply negb_false_iff in G.
      destruct (step c (xw X) (ev a (EFlip true))) as [w'|] eqn:St; [|discriminate].
      inversion H; subst X'; clear H.
      destruct K as [[N F]|[N _]]; [left; simpl; auto|]. unfold may_land in G. rewrite N in G. simpl in G. discriminate.
    + inversion H; subst X'; clear H.
      destruct K as [[N F]|[N [a' [RB [U [P [W E]]]]]]]; [left; simpl; auto|]. right; simpl. split; [exact N|]. exists a'.
      assert (NE : a' <> a) by (intro; subst; congruence). rewrite set_err_other by exact NE. auto.
  - simpl in H. destruct (x_err X a) as [ap|] eqn:EE; [|discriminate]. rewrite CAS, flip_error_raises in H.
    destruct (step c (xw X) (ev a EAbort)) as [w'|] eqn:St; [|discriminate].
    inversion H; subst X'; clear H.
    destruct K as [[N F]|[N [a' [RB [U [P [W E]]]]]]]; [left; simpl; auto|]. right; simpl. split; [exact N|]. exists a'.
    assert (NE : a <> a') by (intro; subst; congruence).
    destruct (pending_frame _ _ _ _ a' St NE eq_refl) as [SA SP]. rewrite SA, SP.
    rewrite set_err_other by (intro; apply NE; congruence). auto.
  - simpl in H. destruct (x_err X a) eqn:EE; [discriminate|]. destruct (x_rb X a) eqn:RB0; [discriminate|].
    destruct (a_pc (w_actors (xw X) a)) eqn:PC; try discriminate.
    match type of H with (if ?b then _ else _) = _ => destruct b eqn:G; [|discriminate] end.
    apply andb_true_iff in G. destruct G as [_ G].
    destruct (step c (xw X) (ev a (EFlip true))) as [w'|] eqn:St; [|discriminate].
    inversion H; subst X'; clear H. destruct (step_flip_true _ _ _ _ St PC) as [P [Oth [N W]]].
    destruct K as [[N0 F]|[N0 _]]; [|unfold may_land in G; rewrite N0 in G; simpl in G; discriminate].
    right; simpl. split; [rewrite N0; reflexivity|]. exists a. split; [apply set_rb_same|]. split.
    + intros b RB. destruct (Nat.eq_dec b a) as [->|NE]; [reflexivity|]. rewrite set_rb_other in RB by exact NE. rewrite F in RB. discriminate.
    + split; [exact P|]. split; [rewrite N; exact W | exact EE].
  - destruct (xstep_readback _ _ _ _ _ K H) as [E1 [E2 [_ [_ [E5 [RB E7]]]]]].
    destruct (XK_pending X a K RB) as [N [U _]]. left. split; [rewrite E7, N; reflexivity|].
    intro b. rewrite E5. destruct (Nat.eq_dec b a) as [->|NE]; [apply set_rb_same|]. rewrite set_rb_other by exact NE.
    destruct (x_rb X b) eqn:RBb; [exfalso; apply NE; apply U; exact RBb | reflexivity].
Qed.

Lemma xinit_XK w : XK (xinit w).
Proof. left. split; reflexivity. Qed.

Lemma xstep_inv c atomic X x X' : cas c = true -> XK X -> Inv c (xw X) -> repl_ok (xw X) -> xstep_p true c atomic X x = Some X' ->
  Inv c (xw X') /\ repl_ok (xw X').
Proof.
  intros CAS K I R H. assert (Snd : sound c) by (left; exact CAS).
  destruct (xstep_world _ _ _ _ _ CAS K H) as [E|[e St]].
  - rewrite E. auto.
  - split; [eapply step_inv; eauto | eapply step_repl; eauto].
Qed.

Lemma xrun_inv c atomic X xs : cas c = true -> XK X -> Inv c (xw X) -> repl_ok (xw X) ->
  XK (xrun_p true c atomic X xs) /\ Inv c (xw (xrun_p true c atomic X xs)) /\ repl_ok (xw (xrun_p true c atomic X xs)).
Proof.
  intro CAS. revert X. induction xs as [|x xs IH]; intros X K I R; [simpl; auto|].
  rewrite xrun_p_cons. unfold xstep_skip_p. destruct (xstep_p true c atomic X x) as [X'|] eqn:St.
  - destruct (xstep_inv _ _ _ _ _ CAS K I R St). apply IH; auto. eapply xstep_XK; eauto.
  - apply IH; auto.
Qed.

Lemma xstep_file0 c atomic X x X' : cas c = true -> XK X -> Inv c (xw X) -> xstep_p true c atomic X x = Some X' ->
  nthf (w_files (xw X')) 0%nat = nthf (w_files (xw X)) 0%nat.
Proof.
  intros CAS K I H. destruct (xstep_world _ _ _ _ _ CAS K H) as [E|[e St]]; [rewrite E; reflexivity|].
  destruct (files_zero c _ _ _ St) as [E|E]; auto.
  pose proof (I_files c _ I) as L. rewrite E in L. simpl in L. lia.
Qed.

Lemma xrun_file0 c atomic X xs : cas c = true -> XK X -> Inv c (xw X) -> repl_ok (xw X) ->
  nthf (w_files (xw (xrun_p true c atomic X xs))) 0%nat = nthf (w_files (xw X)) 0%nat.
Proof.
  intro CAS. revert X. induction xs as [|x xs IH]; intros X K I R; [reflexivity|].
  rewrite xrun_p_cons. unfold xstep_skip_p. destruct (xstep_p true c atomic X x) as [X'|] eqn:St; [|apply IH; auto].
  destruct (xstep_inv _ _ _ _ _ CAS K I R St). rewrite IH by (auto; eapply xstep_XK; eauto). eapply xstep_file0; eauto.
Qed.

(* ------------------------------------------------------------------ 3. a failed commit-point write is never acknowledged *)
Definition failed_pc (p : pc) : Prop := p = PDone Aborted \/ p = PDone AbortedPost.

Definition XJ (X : xworld) : Prop := forall a,
  (x_err X a = Some false -> a_pc (w_actors (xw X) a) = PFenced /\ In a (x_failed X))
  /\ (x_err X a = Some true -> a_pc (w_actors (xw X) a) = PFlipped /\ In a (x_failed X))
  /\ (x_err X a = None -> In a (x_failed X) -> failed_pc (a_pc (w_actors (xw X) a))).

Lemma step_abort c w a w' : step c w (ev a EAbort) = Some w' ->
  (a_pc (w_actors w a) = PFenced -> a_pc (w_actors w' a) = PDone Aborted)
  /\ (a_pc (w_actors w a) = PFlipped -> a_pc (w_actors w' a) = PDone AbortedPost)
  /\ (forall b, b <> a -> w_actors w' b = w_actors w b).
Proof.
  intro H. unfold step in H. simpl in H.
  destruct (a_pc (w_actors w a)) eqn:PC; try discriminate; inversion H; subst w'; simpl; rewrite upd_same; simpl;
    (split; [intro; try discriminate; reflexivity|]); (split; [intro; try discriminate; reflexivity|]);
    intros b NE; rewrite upd_other by exact NE; reflexivity.
Qed.

Lemma step_done_stable c w e w' o : step c w e = Some w' -> a_pc (w_actors w (e_actor e)) = PDone o ->
  a_pc (w_actors w' (e_actor e)) = PDone o.
Proof.
  intros H PC. destruct (step_cases _ _ _ _ H) as [_ [[now [_ [P _]]]|[[_ [P _]]|[_ [_ [_ [_ [_ D]]]]]]]]; cbv zeta in *.
  - rewrite PC in P. discriminate.
  - rewrite PC in P. discriminate.
  - apply D. exact PC.
Qed.

(* a flip by actor a (applied write): what XJ needs *)
Lemma XJ_after_flip c X a w' (errs : aid -> option bool) (fl : list aid) rb np mis :
  XJ X -> x_err X a = None -> a_pc (w_actors (xw X) a) = PFenced -> step c (xw X) (ev a (EFlip true)) = Some w' ->
  (forall b, b <> a -> errs b = x_err X b) -> (forall b, In b (x_failed X) -> In b fl) -> (forall b, b <> a -> In b fl -> In b (x_failed X)) ->
  (errs a = Some true /\ In a fl) \/ (errs a = None /\ fl = x_failed X) ->
  XJ {| xw := w'; x_err := errs; x_failed := fl; x_rb := rb; x_npending := np; x_misreported := mis |}.
Proof.
  intros J EE PC St Oe Fsub Fsup Ha. destruct (step_flip_true _ _ _ _ St PC) as [P [Oth _]]. intro b; simpl.
  destruct (Nat.eq_dec b a) as [->|NE].
  - destruct Ha as [[E F]|[E F]]; rewrite E; repeat split; try discriminate; auto.
    intros _ Fl. subst fl. destruct (J a) as [_ [_ J3]]. destruct (J3 EE Fl) as [Q|Q]; rewrite PC in Q; discriminate.
  - rewrite (Oe b NE), (Oth b NE). destruct (J b) as [J1 [J2 J3]].
    repeat split; intros; try (apply J1; assumption); try (apply J2; assumption);
      try (apply Fsub; apply J1; assumption); try (apply Fsub; apply J2; assumption).
    apply J3; auto.
Qed.

Lemma xstep_XJ c atomic X x X' : cas c = true -> XK X -> XJ X -> xstep_p true c atomic X x = Some X' -> XJ X'.
Proof.
  intros CAS K J H. destruct x as [e|a applied|a|a|a].
  - simpl in H. destruct (x_err X (e_actor e)) eqn:EE; [discriminate|]. destruct (x_rb X (e_actor e)); [discriminate|].
    destruct (negb (is_flip_true (e_kind e)) || may_land true X); [|discriminate].
    destruct (step c (xw X) e) as [w'|] eqn:St; [|discriminate]. inversion H; subst X'; clear H. intro b; simpl.
    destruct (Nat.eq_dec b (e_actor e)) as [->|NE].
    + rewrite EE. repeat split; try discriminate. intros _ F.
      destruct (J (e_actor e)) as [_ [_ J3]]. destruct (J3 EE F) as [P|P]; [left|right]; eapply step_done_stable; eauto.
    + destruct (step_cases _ _ _ _ St) as [Oth _]. cbv zeta in Oth. rewrite (Oth b NE). apply J.
  - simpl in H. destruct (x_err X a) eqn:EE; [discriminate|]. destruct (x_rb X a); [discriminate|].
    destruct (a_pc (w_actors (xw X) a)) eqn:PC; try discriminate.
    destruct applied.
    + match type of H with (if ?b then _ else _) = _ => destruct b; [discriminate|] end.
      destruct (step c (xw X) (ev a (EFlip true))) as [w'|] eqn:St; [|discriminate].
      inversion H; subst X'; clear H. eapply XJ_after_flip; eauto.
      * intros b NE. apply set_err_other. exact NE.
      * intros b F. right. exact F.
      * intros b NE [F|F]; [congruence | exact F].
      * left. split; [apply set_err_same | left; reflexivity].
    + inversion H; subst X'; clear H. intro b; simpl. destruct (Nat.eq_dec b a) as [->|NE].
      * rewrite set_err_same. repeat split; try discriminate; auto.
      * rewrite set_err_other by exact NE. destruct (J b) as [J1 [J2 J3]].
        repeat split; intros; try (apply J1; assumption); try (apply J2; assumption); try (right; apply J1; assumption);
          try (right; apply J2; assumption).
        apply J3; auto. match goal with F : _ \/ _ |- _ => destruct F as [F|F]; [congruence|exact F] end.
  - simpl in H. destruct (x_err X a) as [ap|] eqn:EE; [|discriminate]. rewrite CAS, flip_error_raises in H.
    destruct (step c (xw X) (ev a EAbort)) as [w'|] eqn:St; [|discriminate].
    inversion H; subst X'; clear H. destruct (step_abort _ _ _ _ St) as [A1 [A2 Oth]]. intro b; simpl.
    destruct (Nat.eq_dec b a) as [->|NE].
    + rewrite set_err_same. repeat split; try discriminate. intros _ _.
      destruct (J a) as [J1 [J2 _]]. destruct ap.
      * right. apply A2. apply J2. exact EE.
      * left. apply A1. apply J1. exact EE.
    + rewrite set_err_other by exact NE. rewrite (Oth b NE). apply J.
  - simpl in H. destruct (x_err X a) eqn:EE; [discriminate|]. destruct (x_rb X a); [discriminate|].
    destruct (a_pc (w_actors (xw X) a)) eqn:PC; try discriminate.
    match type of H with (if ?b then _ else _) = _ => destruct b; [|discriminate] end.
    destruct (step c (xw X) (ev a (EFlip true))) as [w'|] eqn:St; [|discriminate].
    inversion H; subst X'; clear H. eapply XJ_after_flip; eauto.
  - destruct (xstep_readback _ _ _ _ _ K H) as [E1 [E2 [E3 _]]]. intro b. rewrite E1, E2, E3. apply J.
Qed.

Lemma xinit_XJ w : XJ (xinit w).
Proof. intro a. simpl. repeat split; try discriminate. intros _ []. Qed.

(* nobody's applied write is ever reported to them as a conflict *)
Lemma xstep_mis c atomic X x X' : XK X -> xstep_p true c atomic X x = Some X' -> x_misreported X = [] -> x_misreported X' = [].
Proof.
  intros K H M. destruct x as [e|a applied|a|a|a].
  - simpl in H. destruct (x_err X (e_actor e)); [discriminate|]. destruct (x_rb X (e_actor e)); [discriminate|].
    destruct (negb (is_flip_true (e_kind e)) || may_land true X); [|discriminate].
    destruct (step c (xw X) e); [|discriminate]. inversion H; subst X'. exact M.
  - simpl in H. destruct (x_err X a); [discriminate|]. destruct (x_rb X a); [discriminate|].
    destruct (a_pc (w_actors (xw X) a)); try discriminate. destruct applied.
    + match type of H with (if ?b then _ else _) = _ => destruct b; [discriminate|] end.
      destruct (step c (xw X) (ev a (EFlip true))); [|discriminate].
      inversion H; subst X'. exact M.
    + inversion H; subst X'. exact M.
  - simpl in H. destruct (x_err X a); [|discriminate].
    match type of H with match ?w1 with _ => _ end = _ => destruct w1; [|discriminate] end. inversion H; subst X'. exact M.
  - simpl in H. destruct (x_err X a); [discriminate|]. destruct (x_rb X a); [discriminate|].
    destruct (a_pc (w_actors (xw X) a)); try discriminate.
    match type of H with (if ?b then _ else _) = _ => destruct b; [|discriminate] end.
    destruct (step c (xw X) (ev a (EFlip true))); [|discriminate]. inversion H; subst X'. exact M.
  - destruct (xstep_readback _ _ _ _ _ K H) as [_ [_ [_ [E4 _]]]]. rewrite E4. exact M.
Qed.

Record XAll (c : cfg) (X : xworld) : Prop := {
  XA_k : XK X; XA_j : XJ X; XA_inv : Inv c (xw X); XA_repl : repl_ok (xw X); XA_mis : x_misreported X = [] }.

Lemma xstep_all c atomic X x X' : cas c = true -> XAll c X -> xstep_p true c atomic X x = Some X' -> XAll c X'.
Proof.
  intros CAS [K J I R M] H. destruct (xstep_inv _ _ _ _ _ CAS K I R H) as [I' R'].
  constructor; auto; [eapply xstep_XK | eapply xstep_XJ | eapply xstep_mis]; eauto.
Qed.

Lemma xrun_all c atomic X xs : cas c = true -> XAll c X -> XAll c (xrun_p true c atomic X xs).
Proof.
  intro CAS. revert X. induction xs as [|x xs IH]; intros X A; [exact A|].
  rewrite xrun_p_cons. unfold xstep_skip_p. destruct (xstep_p true c atomic X x) as [X'|] eqn:St; [|apply IH; exact A].
  apply IH. eapply xstep_all; eauto.
Qed.

Lemma xinit_all c m0 kind mr : XAll c (xinit (init_world m0 kind mr)).
Proof. constructor; [apply xinit_XK | apply xinit_XJ | apply init_inv | constructor | reflexivity]. Qed.

Lemma XJ_not_success X a : XJ X -> In a (x_failed X) -> a_pc (w_actors (xw X) a) <> PDone Success.
Proof.
  intros J F. destruct (J a) as [J1 [J2 J3]]. destruct (x_err X a) as [[|]|] eqn:EE.
  - destruct (J2 eq_refl) as [P _]. rewrite P. discriminate.
  - destruct (J1 eq_refl) as [P _]. rewrite P. discriminate.
  - destruct (J3 eq_refl F) as [P|P]; rewrite P; discriminate.
Qed.

(* ------------------------------------------------------------------ all reachable extended worlds *)
Section XReachable.
  Variables (c : cfg) (atomic : bool) (m0 : meta) (kind : aid -> curk) (mr : aid -> nat) (xs : list xevent).
  Hypothesis CAS : cas c = true.
  Let X := xrun_p true c atomic (xinit (init_world m0 kind mr)) xs.
  Let w := xw X.

  Lemma xreach_all : XAll c X.
  Proof. apply xrun_all; [exact CAS | apply xinit_all]. Qed.

  Lemma xreach_inv : Inv c w /\ repl_ok w.
  Proof. destruct xreach_all as [_ _ I R _]. split; assumption. Qed.

  Lemma xreach_repl : Forall (fun p => fst p = snd p) (w_repl w).
  Proof. destruct xreach_inv as [_ R]. exact R. Qed.

  Lemma xreach_serializable : m_ops (file w (w_ptr w)) = m_ops m0 ++ map snd (w_hist w).
  Proof.
    destruct xreach_inv as [I _]. rewrite file_nthf, (I_ptr c w I), (chain_ops _ _ _ (I_chain c w I)).
    unfold w, X. rewrite xrun_file0; [reflexivity | exact CAS | apply xinit_XK | apply init_inv | constructor].
  Qed.

  Lemma xreach_once : NoDup (map snd (w_hist w)).
  Proof. destruct xreach_inv as [I _]. apply I. Qed.

  Lemma xreach_acked a : flipped (a_pc (w_actors w a)) = true <-> In a (map snd (w_hist w)).
  Proof. destruct xreach_inv as [I _]. apply (AI_flip _ _ _ _ _ _ (I_actor c w I a)). Qed.

  Lemma xreach_chain : chain_ok (w_files w) 0%nat (w_hist w).
  Proof. destruct xreach_inv as [I _]. apply I. Qed.

  Lemma xreach_XJ : XJ X.
  Proof. apply xreach_all. Qed.

  Lemma xreach_failed_not_acked a : In a (x_failed X) -> a_pc (w_actors w a) <> PDone Success.
  Proof. apply XJ_not_success. apply xreach_XJ. Qed.

  (* once the exception has left commit(): the actor is finished, unacknowledged; its commit is in the table exactly
     when the store had applied the write (the ambiguity is real), and then exactly once (xreach_once) *)
  Lemma xreach_failed_outcome a : In a (x_failed X) -> x_err X a = None ->
    (a_pc (w_actors w a) = PDone Aborted /\ ~ In a (map snd (w_hist w)))
    \/ (a_pc (w_actors w a) = PDone AbortedPost /\ In a (map snd (w_hist w))).
  Proof.
    intros F E. destruct (xreach_XJ a) as [_ [_ J3]]. destruct (J3 E F) as [P|P]; [left|right]; (split; [exact P|]).
    - intro HI. apply xreach_acked in HI. fold w in P. rewrite P in HI. discriminate.
    - apply xreach_acked. fold w in P. rewrite P. reflexivity.
  Qed.
End XReachable.

(* ------------------------------------------------------------------ the statements of Props/C08.v *)
Lemma failed_flip_reaction atomic last :
  flip_reaction true atomic FEError last = RRaise true
  /\ flip_reaction true atomic FEPrecondition false = RRetry
  /\ flip_reaction true atomic FEPrecondition true = RRaise false.
Proof. split; [apply flip_error_raises | apply flip_refusal_retries]. Qed.

Lemma faulted_no_lost_update c atomic m0 kind mr xs : cas c = true ->
  let w := xw (xrun_p true c atomic (xinit (init_world m0 kind mr)) xs) in
  Forall (fun p => fst p = snd p) (w_repl w)
  /\ m_ops (file w (w_ptr w)) = m_ops m0 ++ map snd (w_hist w)
  /\ NoDup (map snd (w_hist w))
  /\ (forall a, a_pc (w_actors w a) = PDone Success -> In a (map snd (w_hist w)))
  /\ chain_ok (w_files w) 0%nat (w_hist w).
Proof.
  intros CAS w. split; [apply xreach_repl; exact CAS|]. split; [apply xreach_serializable; exact CAS|].
  split; [apply xreach_once; exact CAS|]. split; [|apply xreach_chain; exact CAS].
  intros a P. apply (xreach_acked c atomic m0 kind mr xs CAS a). fold w. rewrite P. reflexivity.
Qed.

Lemma failed_write_never_acknowledged c atomic m0 kind mr xs a : cas c = true ->
  let X := xrun_p true c atomic (xinit (init_world m0 kind mr)) xs in
  In a (x_failed X) ->
  a_pc (w_actors (xw X) a) <> PDone Success
  /\ (x_err X a = None ->
      (a_pc (w_actors (xw X) a) = PDone Aborted /\ ~ In a (map snd (w_hist (xw X))))
      \/ (a_pc (w_actors (xw X) a) = PDone AbortedPost /\ In a (map snd (w_hist (xw X))))).
Proof.
  intros CAS X F. split; [apply xreach_failed_not_acked; assumption|].
  intro E. apply xreach_failed_outcome; assumption.
Qed.

(* An attempt is at / past its commit point exactly when the store applied its pointer write -- also when the store's answer
   to the committer was a REFUSAL (the re-sent copy of an applied request): the pointer is read back, the committer is not
   told "conflict" (x_misreported stays empty: nobody discards the file the pointer names, nobody commits twice), and
   while the read-back is pending the committer sits at PFlipped.  `flipped` = PFlipped (lock not yet released), PDone Success,
   or PDone AbortedPost (an error / interrupt reached the caller AFTER the write was applied: x_failed, EAbort, ECrash).
   prompt = true: no pointer write lands between an applied-and-refused write and its read-back (the read-back compares
   the pointer's content with the committer's own file name; a successor's name tells it nothing). *)
Definition acked_iff_applied_for (prompt : bool) : Prop :=
  forall c atomic m0 kind mr xs, cas c = true ->
  let X := xrun_p prompt c atomic (xinit (init_world m0 kind mr)) xs in
  (forall a, In a (map snd (w_hist (xw X))) <-> flipped (a_pc (w_actors (xw X) a)) = true)
  /\ NoDup (map snd (w_hist (xw X)))
  /\ x_misreported X = []
  /\ (forall a, x_rb X a = true -> a_pc (w_actors (xw X) a) = PFlipped)
  /\ (forall a, a_pc (w_actors (xw X) a) = PDone Success -> In a (map snd (w_hist (xw X))))
  /\ (forall a, In a (map snd (w_hist (xw X))) -> ~ In a (x_failed X) ->
        a_pc (w_actors (xw X) a) = PFlipped \/ a_pc (w_actors (xw X) a) = PDone Success \/ a_pc (w_actors (xw X) a) = PDone AbortedPost).

Lemma acknowledged_iff_applied_prompt : acked_iff_applied_for true.
Proof.
  intros c atomic m0 kind mr xs CAS X. pose proof (xreach_all c atomic m0 kind mr xs CAS) as A. fold X in A.
  assert (AK := fun a => xreach_acked c atomic m0 kind mr xs CAS a). fold X in AK.
  split; [intro a; split; apply AK|]. split; [apply xreach_once; exact CAS|]. split; [apply A|].
  split; [intros a RB; apply (XK_pending X a (XA_k c X A) RB)|]. split.
  - intros a P. apply AK. rewrite P. reflexivity.
  - intros a HI _. apply AK in HI. destruct (a_pc (w_actors (xw X) a)) as [| | | | | | | |[| | |]]; simpl in HI; try discriminate; auto.
Qed.

(* the witness against the unrestricted statement: both actors validated version 0 under a lock that excludes nobody; actor
   0's write is applied and its re-sent copy refused; actor 1 is refused, retries, validates actor 0's version and commits
   on top of it BEFORE actor 0 reads the pointer back: actor 0 sees actor 1's file name, is told "conflict" although the store
   applied its write (x_misreported = [0]), releases and starts over *)
Definition xev a k := XE {| e_actor := a; e_kind := k |}.
Definition superseded_witness : list xevent :=
  [ xev 0 (EBegin 0); xev 1 (EBegin 0); xev 0 (ELockTry true); xev 1 (ELockTry true);
    xev 0 (EValidate 0 true); xev 1 (EValidate 0 true); xev 0 (EMetaW 100); xev 1 (EMetaW 100);
    xev 0 (EFence true); xev 1 (EFence true);
    XFlipResent 0; xev 1 (EFlip false); xev 1 ERelease;
    xev 1 (EBegin 1); xev 1 (ELockTry true); xev 1 (EValidate 1 true); xev 1 (EMetaW 100); xev 1 (EFence true);
    xev 1 (EFlip true); xev 1 ERelease;
    XReadBack 0; xev 0 ERelease ]%nat.

Lemma acknowledged_iff_applied_full_refuted : ~ (forall prompt, acked_iff_applied_for prompt).
Proof.
  intro F.
  specialize (F false {| cas := true; lockkind := GrantAll |} false {| m_ops := []; m_cur := 1; m_lu := 100%Z |} (fun _ => KFresh) (fun _ => 50%nat)
                superseded_witness eq_refl).
  cbv zeta in F. destruct F as [_ [_ [M _]]]. vm_compute in M. discriminate.
Qed.

(* the restriction does not touch schedules without refused-although-applied writes: where no read-back is pending the two
   machines take the same step *)
Lemma prompt_irrelevant_without_pending c atomic X x : x_npending X = 0%nat -> xstep_p true c atomic X x = xstep_p false c atomic X x.
Proof.
  intro N. destruct x as [e|a applied|a|a|a]; simpl; unfold may_land; rewrite N; simpl; rewrite ?orb_true_r; reflexivity.
Qed.
