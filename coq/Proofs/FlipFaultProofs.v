(* Proofs/FlipFaultProofs.v -- the commit machine with failing commit-point writes (Model/FlipFault.v).

   1. what the regenerated tables say about a failed commit-point write on conditional-write storage
      (flip_error_raises / flip_refusal_retries: case analysis over the generated definitions, re-checked on every run);
   2. every step of the extended machine is at most one step of the commit machine, so its invariant -- hence the
      chain / serializability / "replaced what it validated" theorems -- holds for every schedule of protocol steps AND
      failing pointer writes, applied or not, landing anywhere;
   3. an actor whose commit-point write raised is never acknowledged (XJ, induction over the schedule). *)
From Coq Require Import ZArith List Bool Arith Lia.
Require Import DS.Model.CommitBase DS.Gen.GenCommit DS.Model.Commit DS.Model.FlipFault
               DS.Proofs.CommitGenProofs DS.Proofs.CommitProofs.
Import ListNotations.

(* ------------------------------------------------------------------ 1. the regenerated reaction *)
(* conditional-write storage: an error of the commit-point write that is not the store's refusal is reported to the
   caller (never retried, never acknowledged) and the transaction keeps its files, on every attempt *)
Lemma flip_error_raises atomic last : flip_reaction true atomic FEError last = RRaise true.
Proof. destruct atomic, last; reflexivity. Qed.

(* ... while the store's refusal is retried against a fresh base until the attempt bound, then reported *)
Lemma flip_refusal_retries atomic :
  flip_reaction true atomic FEPrecondition false = RRetry /\ flip_reaction true atomic FEPrecondition true = RRaise false.
Proof. destruct atomic; split; reflexivity. Qed.

(* without conditional writes: clean failure where failed writes are guaranteed invisible, ambiguous otherwise *)
Lemma flip_error_plain last :
  flip_reaction false true FEError last = RRaise false /\ flip_reaction false false FEError last = RRaise true.
Proof. destruct last; split; reflexivity. Qed.

(* ------------------------------------------------------------------ 2. one extended step = at most one machine step *)
Lemma xstep_world c atomic X x X' : cas c = true -> xstep c atomic X x = Some X' ->
  xw X' = xw X \/ exists e, step c (xw X) e = Some (xw X').
Proof.
  intros CAS H. destruct x as [e|a applied|a]; simpl in H.
  - destruct (x_err X (e_actor e)); [discriminate|].
    destruct (step c (xw X) e) as [w'|] eqn:St; [|discriminate]. inversion H; subst X'; simpl. right. exists e. exact St.
  - destruct (x_err X a); [discriminate|]. destruct (a_pc (w_actors (xw X) a)); try discriminate.
    destruct applied.
    + destruct (negb (cas c) && atomic); [discriminate|].
      destruct (step c (xw X) (ev a (EFlip true))) as [w'|] eqn:St; [|discriminate].
      inversion H; subst X'; simpl. right. eexists. exact St.
    + inversion H; subst X'; simpl. left. reflexivity.
  - destruct (x_err X a); [|discriminate]. rewrite CAS, flip_error_raises in H.
    destruct (step c (xw X) (ev a EAbort)) as [w'|] eqn:St; [|discriminate].
    inversion H; subst X'; simpl. right. eexists. exact St.
Qed.

Lemma xrun_cons c atomic X x xs : xrun c atomic X (x :: xs) = xrun c atomic (xstep_skip c atomic X x) xs.
Proof. reflexivity. Qed.

Lemma xstep_inv c atomic X x X' : cas c = true -> Inv c (xw X) -> repl_ok (xw X) -> xstep c atomic X x = Some X' ->
  Inv c (xw X') /\ repl_ok (xw X').
Proof.
  intros CAS I R H. assert (Snd : sound c) by (left; exact CAS).
  destruct (xstep_world _ _ _ _ _ CAS H) as [E|[e St]].
  - rewrite E. auto.
  - split; [eapply step_inv; eauto | eapply step_repl; eauto].
Qed.

Lemma xrun_inv c atomic X xs : cas c = true -> Inv c (xw X) -> repl_ok (xw X) ->
  Inv c (xw (xrun c atomic X xs)) /\ repl_ok (xw (xrun c atomic X xs)).
Proof.
  intro CAS. revert X. induction xs as [|x xs IH]; intros X I R; [simpl; auto|].
  rewrite xrun_cons. unfold xstep_skip. destruct (xstep c atomic X x) as [X'|] eqn:St.
  - destruct (xstep_inv _ _ _ _ _ CAS I R St). apply IH; auto.
  - apply IH; auto.
Qed.

Lemma xstep_file0 c atomic X x X' : cas c = true -> Inv c (xw X) -> xstep c atomic X x = Some X' ->
  nthf (w_files (xw X')) 0%nat = nthf (w_files (xw X)) 0%nat.
Proof.
  intros CAS I H. destruct (xstep_world _ _ _ _ _ CAS H) as [E|[e St]]; [rewrite E; reflexivity|].
  destruct (files_zero c _ _ _ St) as [E|E]; auto.
  pose proof (I_files c _ I) as L. rewrite E in L. simpl in L. lia.
Qed.

Lemma xrun_file0 c atomic X xs : cas c = true -> Inv c (xw X) -> repl_ok (xw X) ->
  nthf (w_files (xw (xrun c atomic X xs))) 0%nat = nthf (w_files (xw X)) 0%nat.
Proof.
  intro CAS. revert X. induction xs as [|x xs IH]; intros X I R; [reflexivity|].
  rewrite xrun_cons. unfold xstep_skip. destruct (xstep c atomic X x) as [X'|] eqn:St; [|apply IH; auto].
  destruct (xstep_inv _ _ _ _ _ CAS I R St). rewrite IH by auto. eapply xstep_file0; eauto.
Qed.

(* ------------------------------------------------------------------ 3. a failed commit-point write is never acknowledged *)
Definition failed_pc (p : pc) : Prop := p = PDone Aborted \/ p = PDone AbortedPost.

Definition XJ (X : xworld) : Prop := forall a,
  (x_err X a = Some false -> a_pc (w_actors (xw X) a) = PFenced /\ In a (x_failed X))
  /\ (x_err X a = Some true -> a_pc (w_actors (xw X) a) = PFlipped /\ In a (x_failed X))
  /\ (x_err X a = None -> In a (x_failed X) -> failed_pc (a_pc (w_actors (xw X) a))).

Lemma set_err_same a v f : set_err a v f a = v.
Proof. unfold set_err. rewrite Nat.eqb_refl. reflexivity. Qed.
Lemma set_err_other a b v f : b <> a -> set_err a v f b = f b.
Proof. intro NE. unfold set_err. destruct (Nat.eqb_spec b a); [contradiction|reflexivity]. Qed.

Lemma step_flip_true c w a w' : step c w (ev a (EFlip true)) = Some w' -> a_pc (w_actors w a) = PFenced ->
  a_pc (w_actors w' a) = PFlipped /\ (forall b, b <> a -> w_actors w' b = w_actors w b).
Proof.
  intros H PC. unfold step in H. simpl in H. rewrite PC in H.
  match type of H with (if ?b then _ else _) = _ => destruct b; [|discriminate] end.
  inversion H; subst w'; simpl. split; [rewrite upd_same; reflexivity|].
  intros b NE. rewrite upd_other by exact NE. reflexivity.
Qed.

Lemma step_abort c w a w' : step c w (ev a EAbort) = Some w' ->
  (a_pc (w_actors w a) = PFenced -> a_pc (w_actors w' a) = PDone Aborted)
  /\ (a_pc (w_actors w a) = PFlipped -> a_pc (w_actors w' a) = PDone AbortedPost)
  /\ (forall b, b <> a -> w_actors w' b = w_actors w b).
Proof.
  intro H. unfold step in H. simpl in H.
  destruct (a_pc (w_actors w a)) eqn:PC; try discriminate; inversion H; subst w'; simpl; rewrite upd_same; simpl;
    (split; [intro; try discriminate; reflexivity|]); (split; [intro; try discriminate; reflexivity|]);
    intros b NE; rewrite upd_other by exact NE; reflexivity.
Qed.

Lemma step_done_stable c w e w' o : step c w e = Some w' -> a_pc (w_actors w (e_actor e)) = PDone o ->
  a_pc (w_actors w' (e_actor e)) = PDone o.
Proof.
  intros H PC. destruct (step_cases _ _ _ _ H) as [_ [[now [_ [P _]]]|[[_ [P _]]|[_ [_ [_ [_ [_ D]]]]]]]]; cbv zeta in *.
  - rewrite PC in P. discriminate.
  - rewrite PC in P. discriminate.
  - apply D. exact PC.
Qed.

Lemma xstep_XJ c atomic X x X' : cas c = true -> XJ X -> xstep c atomic X x = Some X' -> XJ X'.
Proof.
  intros CAS J H. destruct x as [e|a applied|a]; simpl in H.
  - destruct (x_err X (e_actor e)) eqn:EE; [discriminate|].
    destruct (step c (xw X) e) as [w'|] eqn:St; [|discriminate]. inversion H; subst X'; clear H. intro b; simpl.
    destruct (Nat.eq_dec b (e_actor e)) as [->|NE].
    + rewrite EE. repeat split; try discriminate. intros _ F.
      destruct (J (e_actor e)) as [_ [_ J3]]. destruct (J3 EE F) as [P|P]; [left|right]; eapply step_done_stable; eauto.
    + destruct (step_cases _ _ _ _ St) as [Oth _]. cbv zeta in Oth. rewrite (Oth b NE). apply J.
  - destruct (x_err X a) eqn:EE; [discriminate|]. destruct (a_pc (w_actors (xw X) a)) eqn:PC; try discriminate.
    destruct applied.
    + destruct (negb (cas c) && atomic); [discriminate|].
      destruct (step c (xw X) (ev a (EFlip true))) as [w'|] eqn:St; [|discriminate].
      inversion H; subst X'; clear H. destruct (step_flip_true _ _ _ _ St PC) as [P Oth]. intro b; simpl.
      destruct (Nat.eq_dec b a) as [->|NE].
      * rewrite set_err_same. repeat split; try discriminate; auto.
      * rewrite set_err_other by exact NE. rewrite (Oth b NE). destruct (J b) as [J1 [J2 J3]].
        repeat split; intros; try (apply J1; assumption); try (apply J2; assumption); try (right; apply J1; assumption);
          try (right; apply J2; assumption).
        apply J3; auto. match goal with F : _ \/ _ |- _ => destruct F as [F|F]; [congruence|exact F] end.
    + inversion H; subst X'; clear H. intro b; simpl. destruct (Nat.eq_dec b a) as [->|NE].
      * rewrite set_err_same. repeat split; try discriminate; auto.
      * rewrite set_err_other by exact NE. destruct (J b) as [J1 [J2 J3]].
        repeat split; intros; try (apply J1; assumption); try (apply J2; assumption); try (right; apply J1; assumption);
          try (right; apply J2; assumption).
        apply J3; auto. match goal with F : _ \/ _ |- _ => destruct F as [F|F]; [congruence|exact F] end.
  - destruct (x_err X a) as [ap|] eqn:EE; [|discriminate]. rewrite CAS, flip_error_raises in H.
    destruct (step c (xw X) (ev a EAbort)) as [w'|] eqn:St; [|discriminate].
    inversion H; subst X'; clear H. destruct (step_abort _ _ _ _ St) as [A1 [A2 Oth]]. intro b; simpl.
    destruct (Nat.eq_dec b a) as [->|NE].
    + rewrite set_err_same. repeat split; try discriminate. intros _ _.
      destruct (J a) as [J1 [J2 _]]. destruct ap.
      * right. apply A2. apply J2. exact EE.
      * left. apply A1. apply J1. exact EE.
    + rewrite set_err_other by exact NE. rewrite (Oth b NE). apply J.
Qed.

Lemma xinit_XJ w : XJ (xinit w).
Proof. intro a. simpl. repeat split; try discriminate. intros _ []. Qed.

Lemma xrun_XJ c atomic X xs : cas c = true -> XJ X -> XJ (xrun c atomic X xs).
Proof.
  intro CAS. revert X. induction xs as [|x xs IH]; intros X J; [exact J|].
  rewrite xrun_cons. unfold xstep_skip. destruct (xstep c atomic X x) as [X'|] eqn:St; [|apply IH; exact J].
  apply IH. eapply xstep_XJ; eauto.
Qed.

Lemma XJ_not_success X a : XJ X -> In a (x_failed X) -> a_pc (w_actors (xw X) a) <> PDone Success.
Proof.
  intros J F. destruct (J a) as [J1 [J2 J3]]. destruct (x_err X a) as [[|]|] eqn:EE.
  - destruct (J2 eq_refl) as [P _]. rewrite P. discriminate.
  - destruct (J1 eq_refl) as [P _]. rewrite P. discriminate.
  - destruct (J3 eq_refl F) as [P|P]; rewrite P; discriminate.
Qed.

(* ------------------------------------------------------------------ all reachable extended worlds *)
Section XReachable.
  Variables (c : cfg) (atomic : bool) (m0 : meta) (kind : aid -> curk) (mr : aid -> nat) (xs : list xevent).
  Hypothesis CAS : cas c = true.
  Let X := xrun c atomic (xinit (init_world m0 kind mr)) xs.
  Let w := xw X.

  Lemma xreach_inv : Inv c w /\ repl_ok w.
  Proof. apply xrun_inv; [exact CAS | apply init_inv | constructor]. Qed.

  Lemma xreach_repl : Forall (fun p => fst p = snd p) (w_repl w).
  Proof. destruct xreach_inv as [_ R]. exact R. Qed.

  Lemma xreach_serializable : m_ops (file w (w_ptr w)) = m_ops m0 ++ map snd (w_hist w).
  Proof.
    destruct xreach_inv as [I _]. rewrite file_nthf, (I_ptr c w I), (chain_ops _ _ _ (I_chain c w I)).
    unfold w, X. rewrite xrun_file0; [reflexivity | exact CAS | apply init_inv | constructor].
  Qed.

  Lemma xreach_once : NoDup (map snd (w_hist w)).
  Proof. destruct xreach_inv as [I _]. apply I. Qed.

  Lemma xreach_acked a : flipped (a_pc (w_actors w a)) = true <-> In a (map snd (w_hist w)).
  Proof. destruct xreach_inv as [I _]. apply (AI_flip _ _ _ _ _ _ (I_actor c w I a)). Qed.

  Lemma xreach_chain : chain_ok (w_files w) 0%nat (w_hist w).
  Proof. destruct xreach_inv as [I _]. apply I. Qed.

  Lemma xreach_XJ : XJ X.
  Proof. apply xrun_XJ; auto. apply xinit_XJ. Qed.

  Lemma xreach_failed_not_acked a : In a (x_failed X) -> a_pc (w_actors w a) <> PDone Success.
  Proof. apply XJ_not_success. apply xreach_XJ. Qed.

  (* once the exception has left commit(): the actor is finished, unacknowledged; its commit is in the table exactly
     when the store had applied the write (the ambiguity is real), and then exactly once (xreach_once) *)
  Lemma xreach_failed_outcome a : In a (x_failed X) -> x_err X a = None ->
    (a_pc (w_actors w a) = PDone Aborted /\ ~ In a (map snd (w_hist w)))
    \/ (a_pc (w_actors w a) = PDone AbortedPost /\ In a (map snd (w_hist w))).
  Proof.
    intros F E. destruct (xreach_XJ a) as [_ [_ J3]]. destruct (J3 E F) as [P|P]; [left|right]; (split; [exact P|]).
    - intro HI. apply xreach_acked in HI. fold w in P. rewrite P in HI. discriminate.
    - apply xreach_acked. fold w in P. rewrite P. reflexivity.
  Qed.
End XReachable.

(* ------------------------------------------------------------------ the statements of Props/C08.v *)
Lemma failed_flip_reaction atomic last :
  flip_reaction true atomic FEError last = RRaise true
  /\ flip_reaction true atomic FEPrecondition false = RRetry
  /\ flip_reaction true atomic FEPrecondition true = RRaise false.
Proof. split; [apply flip_error_raises | apply flip_refusal_retries]. Qed.

Lemma faulted_no_lost_update c atomic m0 kind mr xs : cas c = true ->
  let w := xw (xrun c atomic (xinit (init_world m0 kind mr)) xs) in
  Forall (fun p => fst p = snd p) (w_repl w)
  /\ m_ops (file w (w_ptr w)) = m_ops m0 ++ map snd (w_hist w)
  /\ NoDup (map snd (w_hist w))
  /\ (forall a, a_pc (w_actors w a) = PDone Success -> In a (map snd (w_hist w)))
  /\ chain_ok (w_files w) 0%nat (w_hist w).
Proof.
  intros CAS w. split; [apply xreach_repl; exact CAS|]. split; [apply xreach_serializable; exact CAS|].
  split; [apply xreach_once; exact CAS|]. split; [|apply xreach_chain; exact CAS].
  intros a P. apply (xreach_acked c atomic m0 kind mr xs CAS a). fold w. rewrite P. reflexivity.
Qed.

Lemma failed_write_never_acknowledged c atomic m0 kind mr xs a : cas c = true ->
  let X := xrun c atomic (xinit (init_world m0 kind mr)) xs in
  In a (x_failed X) ->
  a_pc (w_actors (xw X) a) <> PDone Success
  /\ (x_err X a = None ->
      (a_pc (w_actors (xw X) a) = PDone Aborted /\ ~ In a (map snd (w_hist (xw X))))
      \/ (a_pc (w_actors (xw X) a) = PDone AbortedPost /\ In a (map snd (w_hist (xw X))))).
Proof.
  intros CAS X F. split; [apply xreach_failed_not_acked; assumption|].
  intro E. apply xreach_failed_outcome; assumption.
Qed.
