(* Proofs/SchemaIdsProofs.v -- every schema the constructor accepts has pairwise different INT field ids.  Proved about the
   guards REGENERATED from Schema.__post_init__ (Gen/GenFieldKey.v): on a tree whose constructor only tests `f_id in seen_ids`
   the first lemma is false (ids 1 and "1" pass) and this file does not compile. *)
From Coq Require Import ZArith List Bool Lia.
Require Import DS.Model.Value DS.Model.BoundPrim DS.Model.FieldKey DS.Gen.GenFieldKey DS.Model.SchemaIds DS.Proofs.FieldKeyProofs.
Import ListNotations.
Open Scope Z_scope.

(* an id that passes the guards is a plain int (not a bool, not a str, not a float, not None) ... *)
Lemma accepted_id_is_int f_id seen : gen_id_rejected f_id seen = false -> is_int_id f_id = true.
Proof.
  unfold gen_id_rejected. intro H.
  destruct f_id; try reflexivity; exfalso; destruct (py_set_mem _ seen); cbn in H; discriminate H.
Qed.

(* ... that differs (==) from every id seen so far *)
Lemma accepted_id_is_new f_id seen : gen_id_rejected f_id seen = false -> py_set_mem f_id seen = false.
Proof.
  unfold gen_id_rejected. intro H. destruct (py_set_mem f_id seen); [|reflexivity].
  exfalso. destruct f_id; cbn in H; discriminate H.
Qed.

Lemma py_set_mem_app k a b : py_set_mem k (a ++ b) = py_set_mem k a || py_set_mem k b.
Proof. unfold py_set_mem. apply existsb_app. Qed.

Lemma py_eqb_int_sym a b : py_eqb (VInt a) (VInt b) = py_eqb (VInt b) (VInt a).
Proof. rewrite !py_eqb_int. apply Z.eqb_sym. Qed.

Lemma accepted_from seen ids : ids_accepted_from seen ids = true ->
  ids_are_ints ids /\ NoDup (int_ids ids) /\ forall z, In z (int_ids ids) -> py_set_mem (VInt z) seen = false.
Proof.
  revert seen. induction ids as [|k ids IH]; intros seen H; cbn [ids_accepted_from] in H.
  - split; [constructor|]. split; [constructor|]. intros z [].
  - apply andb_true_iff in H. destruct H as [G R]. apply negb_true_iff in G.
    pose proof (accepted_id_is_int _ _ G) as KI. pose proof (accepted_id_is_new _ _ G) as KN.
    destruct (IH _ R) as [I [ND FR]]. destruct k; try discriminate KI. cbn [int_ids].
    split; [constructor; [reflexivity|exact I]|]. split.
    + constructor; [|exact ND]. intro In_. specialize (FR _ In_). rewrite py_set_mem_app in FR.
      apply orb_false_iff in FR. destruct FR as [_ FR]. cbn [py_set_mem existsb] in FR. rewrite py_eqb_int, Z.eqb_refl in FR. discriminate FR.
    + intros z0 [<-|In_]; [exact KN|]. specialize (FR _ In_). rewrite py_set_mem_app in FR.
      apply orb_false_iff in FR. destruct FR as [FR _]. exact FR.
Qed.

Theorem schema_ids_are_ints ids : schema_ids_ok ids = true ->
  ids_are_ints ids /\ NoDup (int_ids ids) /\ ids = map VInt (int_ids ids).
Proof.
  intro H. destruct (accepted_from [] ids H) as [I [ND _]]. split; [exact I|]. split; [exact ND|]. apply ids_are_ints_shape. exact I.
Qed.

Lemma py_set_mem_ints_iff z zs : ~ In z zs -> py_set_mem (VInt z) (map VInt zs) = false.
Proof.
  induction zs as [|y zs IH]; cbn [py_set_mem existsb map In]; [reflexivity|]. intro NI.
  apply orb_false_iff. split; [rewrite py_eqb_int; apply Z.eqb_neq; intro E; apply NI; left; symmetry; exact E|].
  apply IH. intro I. apply NI. right. exact I.
Qed.

Lemma nodup_py_distinct zs : NoDup zs -> py_distinct (map VInt zs).
Proof. induction 1 as [|z zs NI ND IH]; cbn [map py_distinct]; [exact I|]. split; [apply py_set_mem_ints_iff; exact NI | exact IH]. Qed.

(* the planner's map for an accepted schema: the ids it looks bounds up under are the schema's ids, pairwise different *)
Lemma int_schema_ids s : ids_are_ints (map snd s) -> map snd (int_schema s) = int_ids (map snd s) /\ map fst (int_schema s) = map fst s.
Proof.
  induction s as [|[c k] s IH]; cbn [map snd fst]; intro F; [split; reflexivity|].
  inversion F as [|? ? Hk F']; subst. destruct k; try discriminate Hk. destruct (IH F') as [E1 E2].
  cbn [int_schema map snd fst int_ids]. split; f_equal; assumption.
Qed.

Theorem accepted_schema_nodup s : schema_ids_ok (map snd s) = true -> NoDup (map snd (int_schema s)).
Proof.
  intro H. destruct (schema_ids_are_ints _ H) as [I [ND _]]. destruct (int_schema_ids s I) as [E _]. rewrite E. exact ND.
Qed.

(* hence: a statistics map whose keys are ids of an accepted schema (a sub-list: the columns that have the statistic) comes
   back from the manifest unchanged *)
Theorem accepted_schema_keys_roundtrip {A} ids (m : list (value * A)) :
  schema_ids_ok ids = true -> (forall k, In k (map fst m) -> In k ids) -> py_distinct (map fst m) ->
  key_trip m = TripOk (int_keyed m) /\ m = as_py (int_keyed m).
Proof.
  intros H Sub D. destruct (schema_ids_are_ints _ H) as [I _]. apply bound_keys_roundtrip; [|exact D].
  unfold ids_are_ints in *. rewrite Forall_forall in *. intros k In_. apply I. apply Sub. exact In_.
Qed.
