(* Proofs/GCPointerProofs.v *)
From Coq Require Import List Arith Bool.
Require Import DS.Model.GCPointer.
Import ListNotations.

(* With the pointer published at p: whatever the first resolution was told (and whatever unpublished versions lie around),
   a collection whose SECOND read of the pointer is answered -- truthfully or by raising -- never works from another version. *)
Theorem pointer_consistent : forall vs p a1 x1 a2 x2 u,
  honest p a1 -> honest p a2 -> a2 <> PNone ->
  collect_resolve vs a1 x1 a2 x2 = RUse u -> u = p.
Proof.
  intros vs p a1 x1 a2 x2 u H1 H2 N H. unfold collect_resolve in H.
  destruct (refresh_resolve vs a1 x1) as [| |w] eqn:R; try discriminate.
  destruct (guard w a2 x2) eqn:G; [|discriminate]. inversion H; subst u. clear H.
  destruct H2 as [->|[->| ->]]; [|contradiction|discriminate].
  simpl in G. destruct (x2 p); try discriminate. apply Nat.eqb_eq in G. auto.
Qed.

(* a pointer read that RAISES aborts, at either resolution *)
Theorem pointer_raise_aborts : forall vs a1 x1 a2 x2,
  a1 = PRaise \/ (a2 = PRaise /\ exists u, refresh_resolve vs a1 x1 = RUse u) -> collect_resolve vs a1 x1 a2 x2 = RAbort.
Proof.
  intros vs a1 x1 a2 x2 [->|[-> [u R]]]; unfold collect_resolve; [reflexivity|]. rewrite R. reflexivity.
Qed.
