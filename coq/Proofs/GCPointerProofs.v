(* Proofs/GCPointerProofs.v -- the pointer plane (Model/GCPointer.v) tied to the collector (Model/GCDoc.v, Model/GC.v). *)
From Coq Require Import ZArith List Arith Bool String.
Require Import DS.Model.PyStr DS.Gen.GenNorm DS.Model.GC DS.Model.Doc DS.Gen.GenDoc DS.Model.GCDoc DS.Model.GCPointer.
Require Import DS.Proofs.GCProofs DS.Proofs.GCDocProofs.
Import ListNotations.
Open Scope Z_scope.

Section Resolve.
  Variable D : Type.
  Variable same : D -> D -> bool.

  Lemma load_body : forall a (fs : list (mfile D)) n f d, load D a fs n = Some (f, d) -> find_file n fs = Some f /\ mf_body f = Some d.
  Proof.
    intros a fs n f d H. unfold load in H. destruct (find_file n fs) as [g|]; [|discriminate].
    destruct (a_read_raises a n); [discriminate|]. destruct (mf_body g) as [e|] eqn:B; [|discriminate].
    inversion H; subst. auto.
  Qed.

  (* With the pointer published at the file p: whatever the first resolution was told (and whatever unpublished versions lie
     around), a collection whose SECOND read of the pointer is answered -- truthfully or by raising -- works from metadata
     that is `same` as p's. *)
  Theorem resolve_consistent : forall (fs : list (mfile D)) p dp a1 a2 f d,
    find_file (mf_name p) fs = Some p -> mf_body p = Some dp ->
    honest p a2 -> a_hint a2 <> PNone ->
    collect_resolve same a1 a2 fs = RUse f d -> same dp d = true.
  Proof.
    intros fs p dp a1 a2 f d F B H2 N H. unfold collect_resolve in H.
    destruct (refresh_resolve a1 fs) as [| |g e] eqn:R; try discriminate.
    destruct (guard same a2 fs e) eqn:G; [|discriminate]. inversion H; subst g e. clear H.
    unfold guard in G. destruct H2 as [E|[E|E]]; rewrite E in G; [|contradiction|discriminate].
    destruct (a_exists a2 (mf_name p)); try discriminate.
    destruct (load D a2 fs (mf_name p)) as [[q d']|] eqn:L; [|discriminate].
    destruct (load_body _ _ _ _ _ L) as [F' B']. rewrite F in F'. inversion F'; subst q. rewrite B in B'. inversion B'; subst d'. exact G.
  Qed.

  (* a pointer read that RAISES aborts, at either resolution *)
  Theorem resolve_raise_aborts : forall (fs : list (mfile D)) a1 a2,
    a_hint a1 = PRaise \/ a_hint a2 = PRaise -> forall f d, collect_resolve same a1 a2 fs <> RUse f d.
  Proof.
    intros fs a1 a2 H f d. unfold collect_resolve. destruct H as [H|H].
    - unfold refresh_resolve, current_info. rewrite H. discriminate.
    - destruct (refresh_resolve a1 fs) as [| |g e]; try discriminate. unfold guard. rewrite H. discriminate.
  Qed.

  (* the file a collection works from was read, by refresh(), without a failure and parsed: a file that cannot be read as
     table metadata (not JSON, refused by the reader) or whose read failed is never worked from *)
  Theorem resolve_uses_readable : forall (fs : list (mfile D)) a1 a2 f d,
    collect_resolve same a1 a2 fs = RUse f d ->
    find_file (mf_name f) fs = Some f /\ mf_body f = Some d /\ a_read_raises a1 (mf_name f) = false.
  Proof.
    intros fs a1 a2 f d H. unfold collect_resolve in H.
    destruct (refresh_resolve a1 fs) as [| |g e] eqn:R; try discriminate.
    destruct (guard same a2 fs e); [|discriminate]. inversion H; subst g e. clear H.
    unfold refresh_resolve in R. destruct (current_info D a1 fs) as [| |n]; try discriminate.
    destruct (load D a1 fs n) as [[q d']|] eqn:L; [|discriminate]. inversion R; subst q d'.
    unfold load in L. destruct (find_file n fs) as [g|] eqn:F; [|discriminate].
    destruct (a_read_raises a1 n) eqn:RR; [discriminate|]. destruct (mf_body g) as [e|] eqn:B; [|discriminate].
    inversion L; subst g e.
    assert (N: n = mf_name f).
    { clear - F. induction fs as [|x r IH]; simpl in F; [discriminate|].
      destruct (String.eqb n (mf_name x)) eqn:E; [apply String.eqb_eq in E; congruence|auto]. }
    subst n. auto.
  Qed.

  (* when the published file is the scan's choice (no unpublished higher version, no younger sibling of the same version),
     a lost pointer is harmless: the scan finds p *)
  Theorem resolve_lost_hint_scan : forall (fs : list (mfile D)) p a1 a2 f d,
    a_hint a1 = PNone -> a_hint a2 = PNone -> scan_pick a1 fs = Some p ->
    collect_resolve same a1 a2 fs = RUse f d -> mf_name f = mf_name p.
  Proof.
    intros fs p a1 a2 f d H1 H2 S H. destruct (resolve_uses_readable _ _ _ _ _ H) as [F _].
    unfold collect_resolve in H. destruct (refresh_resolve a1 fs) as [| |g e] eqn:R; try discriminate.
    destruct (guard same a2 fs e); [|discriminate]. inversion H; subst g e. clear H.
    unfold refresh_resolve, current_info in R. rewrite H1 in R. unfold scan in R. destruct (a_list_raises a1); [discriminate|].
    rewrite S in R. destruct (load D a1 fs (mf_name p)) as [[q d']|] eqn:L; [|discriminate]. inversion R; subst q d'.
    unfold load in L. destruct (find_file (mf_name p) fs) as [g|] eqn:F2; [|discriminate].
    destruct (a_read_raises a1 (mf_name p)); [discriminate|]. destruct (mf_body g); [|discriminate]. inversion L; subst g.
    clear - F2. induction fs as [|x r IH]; simpl in F2; [discriminate|].
    destruct (String.eqb (mf_name p) (mf_name x)) eqn:E; [apply String.eqb_eq in E; congruence|auto].
  Qed.
End Resolve.

(* ---------------------------------------------------------------- layer 2 *)
Lemma find_file_parse : forall ext n (fs : list (mfile jv)),
  find_file n (map (parse_file ext) fs) = option_map (parse_file ext) (find_file n fs).
Proof.
  intros ext n fs. induction fs as [|f r IH]; [reflexivity|]. simpl. destruct (String.eqb n (mf_name f)); [reflexivity|exact IH].
Qed.

Lemma parse_file_body : forall ext f d, mf_body (parse_file ext f) = Some d -> mf_body f = Some d /\ accepts ext gen_metadata_shape d = true.
Proof.
  intros ext f d H. unfold parse_file in H. cbn [mf_body] in H. destruct (mf_body f) as [e|]; [|discriminate].
  destruct (accepts ext gen_metadata_shape e) eqn:A; [|discriminate]. inversion H; subst. auto.
Qed.

(* The pointer plane feeds the collector.  Pointer published at the file p holding the document dp (which the reader accepts);
   `same` (the code's comparison of the two TableMetadata objects as dictionaries) distinguishes documents with different
   snapshot manifest lists.  Then for EVERY pair of answer sets in which the pointer reads are honest and the second one is not
   "no pointer", and every fault oracle of the collection proper: the collection aborts / finds no table / refuses the
   document having deleted nothing, or it ran on exactly the manifest lists of the PUBLISHED metadata and is safe for them
   (C07_fail_closed's specification) -- whatever unpublished versions lie on storage. *)
Theorem pointer_run_safe : forall ext same tp grace now timeout o a1 a2 (files : list (mfile jv)) st p dp,
  (forall a b, same a b = true -> doc_lists a = doc_lists b) ->
  find_file (mf_name p) files = Some p -> mf_body p = Some dp -> accepts ext gen_metadata_shape dp = true ->
  honest p a1 -> honest p a2 -> a_hint a2 <> PNone ->
  wf_store (doc_lists dp) st ->
  match collect_pointer ext same tp grace now timeout o a1 a2 files st with
  | PUse f (DocRun r) => gc_safe_spec now grace timeout (doc_lists dp) st r
  | other => pointer_deleted other = []
  end.
Proof.
  intros ext same tp grace now timeout o a1 a2 files st p dp SL F B A H1 H2 N W. unfold collect_pointer.
  destruct (collect_resolve same a1 a2 (map (parse_file ext) files)) as [| |f d] eqn:R; try reflexivity.
  assert (F': find_file (mf_name (parse_file ext p)) (map (parse_file ext) files) = Some (parse_file ext p)).
  { rewrite find_file_parse. change (mf_name (parse_file ext p)) with (mf_name p). rewrite F. reflexivity. }
  assert (B': mf_body (parse_file ext p) = Some dp).
  { unfold parse_file. cbn [mf_body]. rewrite B, A. reflexivity. }
  assert (S: same dp d = true).
  { eapply (resolve_consistent jv same _ (parse_file ext p) dp a1 a2 f d F' B'); eauto. }
  pose proof (doc_fail_closed ext tp grace now timeout o d st) as DF. rewrite <- (SL _ _ S) in DF. specialize (DF W).
  destruct (collect_doc ext tp grace now timeout o d st) as [|r]; [reflexivity|]. exact (proj2 DF).
Qed.

(* the statement WITHOUT the hypothesis on the second pointer read: false -- the residual window.  A pointer that looks absent
   at BOTH reads (a lost pointer, for the library: recovered by scanning, C10) while a dead writer's unpublished higher version
   lies on storage makes the collection work from that version: files the published metadata references are deleted. *)
Definition pointer_run_safe_full : Prop :=
  forall ext same tp grace now timeout o a1 a2 (files : list (mfile jv)) st p dp,
  (forall a b, same a b = true -> doc_lists a = doc_lists b) ->
  find_file (mf_name p) files = Some p -> mf_body p = Some dp -> accepts ext gen_metadata_shape dp = true ->
  honest p a1 -> honest p a2 ->
  wf_store (doc_lists dp) st ->
  match collect_pointer ext same tp grace now timeout o a1 a2 files st with
  | PUse f (DocRun r) => gc_safe_spec now grace timeout (doc_lists dp) st r
  | other => pointer_deleted other = []
  end.

(* ---- the witness: version 3 is published (one snapshot: list l1 -> manifest m1 -> data file a); a writer that died after
   writing version 4 -- the same table with its only snapshot deleted -- and before flipping the pointer left v4 behind.
   Both reads of the pointer find nothing (the pointer file is lost, or looks lost): the scan makes v4 the table and the
   collection deletes every file of the published snapshot. *)
Open Scope string_scope.
Definition wx_ext (_ : string) (_ : jv) : bool := true.
Definition wx_same (_ _ : jv) : bool := false.      (* never consulted in the witness: there is no pointer to compare with *)
Definition wx_doc (cur : jv) (snaps : list jv) : jv :=
  JObj [("location", JStr "data"); ("table_uuid", JStr "u"); ("format_version", JNum 2); ("last_sequence_number", JNum 2);
        ("last_updated_ms", JNum 9); ("last_column_id", JNum 1);
        ("schemas", JArr [JObj [("schema_id", JNum 1); ("fields", JArr [])]]); ("current_schema_id", JNum 1);
        ("partition_specs", JArr [JObj [("spec_id", JNum 0); ("fields", JArr [])]]); ("default_spec_id", JNum 0);
        ("sort_orders", JArr [JObj [("order_id", JNum 1); ("fields", JArr [])]]); ("default_sort_order_id", JNum 1);
        ("properties", JObj []); ("current_snapshot_id", cur); ("snapshot_log", JArr []); ("metadata_log", JArr []);
        ("snapshots", JArr snaps)].
Definition wx_published : jv :=
  wx_doc (JNum 1) [JObj [("snapshot_id", JNum 1); ("timestamp_ms", JNum 5); ("manifest_list", JStr "metadata/manifests/l1.avro")]].
Definition wx_leftover : jv := wx_doc JNull [].
Definition wx_p : mfile jv := mkMF "v3.metadata.json" 3%nat 100 (Some wx_published).
Definition wx_files : list (mfile jv) := [wx_p; mkMF "v4-0a1b2c3d.metadata.json" 4%nat 200 (Some wx_leftover)].
Definition wx_store : store := [
  ("data/a.parquet", mkObj 1000 CData);
  ("metadata/manifests/m1.avro", mkObj 1000 (CManifest FAvro ["/data/a.parquet"]));
  ("metadata/manifests/l1.avro", mkObj 1000 (CList FAvro ["metadata/manifests/m1.avro"]))].
Definition wx_lost : answers := mkA PNone (fun _ => XTrue) false (fun _ => false) (fun _ => false).
Definition wx_run : presult := collect_pointer wx_ext wx_same "data" 1000 1000000 86400000 no_faults wx_lost wx_lost wx_files wx_store.

Lemma wx_run_deletes : exists f r, wx_run = PUse f (DocRun r) /\ mf_name f = "v4-0a1b2c3d.metadata.json" /\ r_out r = Done
  /\ r_deleted r = ["metadata/manifests/l1.avro"; "metadata/manifests/m1.avro"; "data/a.parquet"].
Proof. eexists. eexists. split; [vm_compute; reflexivity|]. split; [reflexivity|]. split; vm_compute; reflexivity. Qed.

Lemma wx_referenced : doc_lists wx_published = ["metadata/manifests/l1.avro"]
  /\ referenced (doc_lists wx_published) wx_store "data/a.parquet".
Proof.
  split; [vm_compute; reflexivity|]. right. right.
  exists "metadata/manifests/l1.avro", ["metadata/manifests/m1.avro"], "metadata/manifests/m1.avro", ["/data/a.parquet"], "/data/a.parquet".
  repeat split; simpl; auto; eexists; split; reflexivity.
Qed.

Theorem pointer_run_safe_full_refuted : ~ pointer_run_safe_full.
Proof.
  intro H.
  specialize (H wx_ext wx_same "data" 1000 1000000 86400000 no_faults wx_lost wx_lost wx_files wx_store wx_p wx_published).
  fold wx_run in H. destruct wx_run_deletes as [f [r [E [_ [_ Dl]]]]]. rewrite E in H.
  assert (S: gc_safe_spec 1000000 1000 86400000 (doc_lists wx_published) wx_store r).
  { apply H.
    - intros a b C. discriminate.
    - reflexivity.
    - reflexivity.
    - vm_compute. reflexivity.
    - right. left. reflexivity.
    - right. left. reflexivity.
    - apply wf_storeb_sound. vm_compute. reflexivity. }
  destruct (gs_deleted _ _ _ _ _ _ S "data/a.parquet") as [NR _]; [rewrite Dl; simpl; auto|].
  exact (NR (proj2 wx_referenced)).
Qed.

(* ---- layer 2 corollaries *)
Theorem pointer_raise_aborts : forall ext same tp grace now timeout o a1 a2 (files : list (mfile jv)) st,
  a_hint a1 = PRaise \/ a_hint a2 = PRaise ->
  forall f res, collect_pointer ext same tp grace now timeout o a1 a2 files st <> PUse f res.
Proof.
  intros ext same tp grace now timeout o a1 a2 files st H f res. unfold collect_pointer.
  destruct (collect_resolve same a1 a2 (map (parse_file ext) files)) as [| |g d] eqn:R; try discriminate.
  exfalso. exact (resolve_raise_aborts jv same _ a1 a2 H g d R).
Qed.

(* the file a collection works from is on storage, was read by refresh() without a failure, is JSON and is accepted by the
   reader (regenerated shape): a metadata file that is missing, unparseable or failing transiently is never worked from *)
Theorem pointer_uses_readable : forall ext same tp grace now timeout o a1 a2 (files : list (mfile jv)) st f res,
  collect_pointer ext same tp grace now timeout o a1 a2 files st = PUse f res ->
  exists f0 d, find_file (mf_name f) files = Some f0 /\ mf_body f0 = Some d /\ accepts ext gen_metadata_shape d = true
               /\ a_read_raises a1 (mf_name f) = false /\ res = collect_doc ext tp grace now timeout o d st.
Proof.
  intros ext same tp grace now timeout o a1 a2 files st f res H. unfold collect_pointer in H.
  destruct (collect_resolve same a1 a2 (map (parse_file ext) files)) as [| |g d] eqn:R; try discriminate.
  inversion H; subst g res. clear H.
  destruct (resolve_uses_readable jv same _ a1 a2 f d R) as [F [B RR]].
  rewrite find_file_parse in F. destruct (find_file (mf_name f) files) as [f0|] eqn:F0; [|discriminate].
  simpl in F. inversion F as [E]. rewrite <- E in B. destruct (parse_file_body ext f0 d B) as [B0 A].
  exists f0, d. rewrite <- E in RR. repeat split; auto.
Qed.
