(* Proofs/FileOpsGenProofs.v -- Model/Meta.v's hand-written steps of a file transaction (operation partitioning,
   base manifests, delete rewrite, append manifest, the stamps of the new snapshot) are equal, for all inputs, to
   the definitions regenerated from Transaction.commit / Transaction._commit_file_ops (Gen/GenFileOps.v). *)
From Coq Require Import ZArith List Bool Arith Lia.
Require Import DS.Model.MetaBase DS.Model.Meta DS.Model.MetaPy DS.Gen.GenFileOps.
Import ListNotations.
Open Scope Z_scope.

(* ---- partition *)
Lemma gen_partition_acc ops a d e :
  fold_left (fun acc operation =>
    let '(append_files, deleted_paths, expire_cutoff) := acc in
    match operation with
    | TAppend files => (append_files ++ files, deleted_paths, expire_cutoff)
    | TDelete file_paths => (append_files, deleted_paths ++ file_paths, expire_cutoff)
    | TExpire cutoff => (append_files, deleted_paths, Some (match expire_cutoff with None => cutoff | Some x => Z.max x cutoff end))
    end) ops (a, d, e)
  = (a ++ tx_adds ops, d ++ tx_dels ops,
     fold_left (fun acc o => match o with
                             | TExpire c => Some (match acc with None => c | Some x => Z.max x c end)
                             | _ => acc end) ops e).
Proof.
  revert a d e. induction ops as [|o ops IH]; intros a d e; simpl.
  - rewrite !app_nil_r. reflexivity.
  - destruct o as [fs|ps|c]; rewrite IH; unfold tx_adds, tx_dels; simpl; rewrite ?app_assoc, ?app_nil_r; reflexivity.
Qed.

Lemma gen_partition_agrees ops : gen_partition ops = (tx_adds ops, tx_dels ops, tx_expire ops).
Proof. unfold gen_partition, tx_expire. rewrite gen_partition_acc. reflexivity. Qed.

Lemma gen_is_file_txn_spec (adds dels : list path) : gen_is_file_txn adds dels = false <-> (adds = [] /\ dels = []).
Proof. unfold gen_is_file_txn, py_empty. destruct adds, dels; simpl; split; intro H; try discriminate; try tauto; destruct H; discriminate. Qed.

(* ---- base manifests *)
Lemma gen_base_manifests_agrees m :
  gen_base_manifests m = match base_manifests m with Some l => PyOk l | None => PyRaise end.
Proof.
  unfold gen_base_manifests, base_manifests. destruct (cur m) as [c|]; [|reflexivity].
  cbn [py_is_not_none py_ne_int andb opt_eqb]. destruct (c =? -1); [reflexivity|]. cbn [negb].
  destruct (find (fun s => sid s =? c) (snaps m)); reflexivity.
Qed.

(* ---- delete rewrite *)
Lemma of_nat_eqb n k : (Z.of_nat n =? Z.of_nat k) = Nat.eqb n k.
Proof. destruct (Nat.eqb n k) eqn:E; [apply Nat.eqb_eq in E; subst; apply Z.eqb_refl | apply Nat.eqb_neq in E; apply Z.eqb_neq; lia]. Qed.

Lemma len_pos_nonempty {A} (l : list A) : (Z.of_nat (length l) >? 0) = negb (py_empty l).
Proof. destruct l; [reflexivity|]. simpl length. unfold py_empty, negb. apply Z.gtb_lt. lia. Qed.

Lemma gen_final_manifests_agrees ps mfs : gen_final_manifests ps mfs = apply_deletes ps mfs.
Proof.
  unfold gen_final_manifests, apply_deletes. destruct ps as [|p ps]; [reflexivity|]. cbn [py_empty negb].
  apply flat_map_ext. intro mf. unfold rewrite_manifest, named. cbv zeta.
  change (fun p0 : path => lstrip p0) with lstrip.
  set (surv := filter (fun f => negb (mem_path (lstrip (epath f)) (map lstrip (p :: ps)))) mf).
  rewrite of_nat_eqb. destruct (Nat.eqb (length surv) (length mf)); [reflexivity|].
  rewrite len_pos_nonempty. destruct surv; reflexivity.
Qed.

(* ---- append manifest, stamps *)
Lemma gen_append_manifests_agrees id sq adds fin : gen_append_manifests id sq adds fin = fin ++ append_manifest id sq adds.
Proof. unfold gen_append_manifests, append_manifest. destruct adds; [rewrite app_nil_r|]; reflexivity. Qed.

Lemma gen_stamps_agree m id t ml : seq (new_snap m id t ml) = gen_seq m /\ parent (new_snap m id t ml) = gen_parent m.
Proof. split; reflexivity. Qed.

(* the manifests of a file transaction's new snapshot, composed from the regenerated steps, are the model's *)
Lemma gen_txn_manifests_agree m id adds dels base :
  base_manifests m = Some base ->
  gen_append_manifests id (gen_seq m) adds (gen_final_manifests dels base)
  = apply_deletes dels base ++ append_manifest id (last_seq m + 1) adds.
Proof. intros _. rewrite gen_append_manifests_agrees, gen_final_manifests_agrees. reflexivity. Qed.
