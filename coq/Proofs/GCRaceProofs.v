(* Proofs/GCRaceProofs.v -- garbage collection is safe against concurrently committing transactions (C06). *)
From Coq Require Import ZArith List Bool Arith Lia.
Require Import DS.Model.GCRace.
Import ListNotations.
Open Scope Z_scope.

Definition live (p : tpc) : bool := match p with TWritten | TFlipped | TDone => true | _ => false end.
Definition marked (p : tpc) : bool := match p with TMarked | TWritten | TFlipped => true | _ => false end.
Definition committed (p : tpc) : bool := match p with TFlipped | TDone => true | _ => false end.

Definition covered (w : gworld) (t : tid) : Prop :=
  g_prot w t = true \/ g_start w <= g_mtime w t
  \/ (g_gpc w = GGotMarks /\ g_ref w t = true)
  \/ ((g_gpc w = GGotReach \/ g_gpc w = GListed) /\ g_reach w t = true).

Record GInv (w : gworld) : Prop := {
  GI_mark : forall t, marked (g_tpc w t) = true -> g_marker w t = true;
  GI_ref : forall t, g_ref w t = committed (g_tpc w t);
  GI_pres : forall t, g_present w t = live (g_tpc w t);
  GI_mtime : forall t, live (g_tpc w t) = true -> g_mtime w t <= g_now w;
  GI_cov : g_gpc w <> GIdle -> g_start w <= g_now w /\ forall t, live (g_tpc w t) = true -> covered w t;
  GI_cut : g_gpc w = GListed -> g_cutoff w < g_start w;
  GI_del : g_deleted w = [] }.

Lemma updf_same {A} t (v : A) f : updf t v f t = v.
Proof. unfold updf. rewrite Nat.eqb_refl. reflexivity. Qed.
Lemma updf_other {A} t u (v : A) f : u <> t -> updf t v f u = f u.
Proof. unfold updf. intro H. destruct (Nat.eqb_spec u t); [contradiction|reflexivity]. Qed.

Ltac tx_split u t := destruct (Nat.eq_dec u t) as [->|NE]; [rewrite ?updf_same | rewrite ?updf_other by exact NE].

Lemma gstep_inv w e w' : GInv w -> gstep w e = Some w' -> GInv w'.
Proof.
  intros I H. destruct e as [dt|t|t|t|t|t| | |grace|t|n| ]; simpl in H.
  - (* Tick *)
    destruct (Z.leb_spec 0 dt); [|discriminate]. inversion H; subst w'; clear H.
    constructor; simpl; try apply I.
    + intros t L. pose proof (GI_mtime w I t L). lia.
    + intro NI. destruct (GI_cov w I NI) as [S C]. split; [lia|]. intros t L. destruct (C t L) as [A|[A|[A|A]]]; unfold covered; simpl; auto.
  - (* TMarkW *)
    destruct (g_tpc w t) eqn:PC; try discriminate. inversion H; subst w'; clear H. unfold with_tx.
    constructor; simpl; try apply I.
    + intros u M. tx_split u t; [reflexivity | apply (GI_mark w I u)]; rewrite ?updf_other in M by exact NE; exact M.
    + intro u. tx_split u t; [reflexivity | apply (GI_ref w I u)].
    + intro u. tx_split u t; [reflexivity | apply (GI_pres w I u)].
    + intros u L. tx_split u t; [rewrite updf_same in L; discriminate|]. rewrite updf_other in L by exact NE. apply (GI_mtime w I u L).
    + intro NI. destruct (GI_cov w I NI) as [S C]. split; [exact S|]. intros u L.
      tx_split u t; [rewrite updf_same in L; discriminate|]. rewrite updf_other in L by exact NE.
      destruct (C u L) as [A|[A|[A|A]]]; unfold covered; simpl; rewrite ?updf_other by exact NE; auto.
  - (* TDataW: the file is written now *)
    destruct (g_tpc w t) eqn:PC; try discriminate. inversion H; subst w'; clear H. unfold with_tx.
    constructor; simpl; try apply I.
    + intros u M. tx_split u t; [reflexivity | apply (GI_mark w I u)]; rewrite ?updf_other in M by exact NE; exact M.
    + intro u. tx_split u t; [reflexivity | apply (GI_ref w I u)].
    + intro u. tx_split u t; [reflexivity | apply (GI_pres w I u)].
    + intros u L. tx_split u t; [lia|]. rewrite updf_other in L by exact NE. apply (GI_mtime w I u L).
    + intro NI. destruct (GI_cov w I NI) as [S C]. split; [exact S|]. intros u L.
      tx_split u t.
      * right. left. simpl. rewrite updf_same. exact S.
      * rewrite updf_other in L by exact NE.
        destruct (C u L) as [A|[A|[A|A]]]; unfold covered; simpl; rewrite ?updf_other by exact NE; auto.
  - (* TFlip *)
    destruct (g_tpc w t) eqn:PC; try discriminate. inversion H; subst w'; clear H. unfold with_tx.
    pose proof (GI_pres w I t) as Pt. rewrite PC in Pt. simpl in Pt.
    constructor; simpl; try apply I.
    + intros u M. tx_split u t; [reflexivity | apply (GI_mark w I u)]; rewrite ?updf_other in M by exact NE; exact M.
    + intro u. tx_split u t; [reflexivity | apply (GI_ref w I u)].
    + intro u. tx_split u t; [exact Pt | apply (GI_pres w I u)].
    + intros u L. tx_split u t; [apply (GI_mtime w I t); rewrite PC; reflexivity|]. rewrite updf_other in L by exact NE. apply (GI_mtime w I u L).
    + intro NI. destruct (GI_cov w I NI) as [S C]. split; [exact S|]. intros u L.
      tx_split u t.
      * assert (Lt : live (g_tpc w t) = true) by (rewrite PC; reflexivity).
        destruct (C t Lt) as [A|[A|[[A1 A2]|A]]]; unfold covered; simpl; rewrite ?updf_same; auto.
      * rewrite updf_other in L by exact NE.
        destruct (C u L) as [A|[A|[A|A]]]; unfold covered; simpl; rewrite ?updf_other by exact NE; auto.
  - (* TMarkD *)
    destruct (g_tpc w t) eqn:PC; try discriminate. inversion H; subst w'; clear H. unfold with_tx.
    pose proof (GI_pres w I t) as Pt. rewrite PC in Pt. simpl in Pt.
    constructor; simpl; try apply I.
    + intros u M. tx_split u t; [rewrite updf_same in M; discriminate|]. rewrite updf_other in M by exact NE. apply (GI_mark w I u M).
    + intro u. tx_split u t; [reflexivity | apply (GI_ref w I u)].
    + intro u. tx_split u t; [exact Pt | apply (GI_pres w I u)].
    + intros u L. tx_split u t; [apply (GI_mtime w I t); rewrite PC; reflexivity|]. rewrite updf_other in L by exact NE. apply (GI_mtime w I u L).
    + intro NI. destruct (GI_cov w I NI) as [S C]. split; [exact S|]. intros u L.
      tx_split u t.
      * assert (Lt : live (g_tpc w t) = true) by (rewrite PC; reflexivity).
        destruct (C t Lt) as [A|[A|[[A1 A2]|A]]]; unfold covered; simpl; rewrite ?updf_same; auto.
      * rewrite updf_other in L by exact NE.
        destruct (C u L) as [A|[A|[A|A]]]; unfold covered; simpl; rewrite ?updf_other by exact NE; auto.
  - (* TRollback *)
    assert (H' : Some (with_tx w t TRolled (g_mtime w t) false false false) = Some w' /\ (g_tpc w t = TMarked \/ g_tpc w t = TWritten)).
    { destruct (g_tpc w t); try discriminate; auto. }
    destruct H' as [H' _]. inversion H'; subst w'; clear H H'. unfold with_tx.
    constructor; simpl; try apply I.
    + intros u M. tx_split u t; [rewrite updf_same in M; discriminate|]. rewrite updf_other in M by exact NE. apply (GI_mark w I u M).
    + intro u. tx_split u t; [reflexivity | apply (GI_ref w I u)].
    + intro u. tx_split u t; [reflexivity | apply (GI_pres w I u)].
    + intros u L. tx_split u t; [rewrite updf_same in L; discriminate|]. rewrite updf_other in L by exact NE. apply (GI_mtime w I u L).
    + intro NI. destruct (GI_cov w I NI) as [S C]. split; [exact S|]. intros u L.
      tx_split u t; [rewrite updf_same in L; discriminate|]. rewrite updf_other in L by exact NE.
      destruct (C u L) as [A|[A|[A|A]]]; unfold covered; simpl; rewrite ?updf_other by exact NE; auto.
  - (* GMarks: the run starts by loading the protection markers *)
    destruct (g_gpc w) eqn:GP; try discriminate. inversion H; subst w'; clear H.
    constructor; simpl; try apply I.
    + intros _. split; [lia|]. intros t L. unfold covered. simpl.
      destruct (g_tpc w t) eqn:PC; try discriminate.
      * left. apply (GI_mark w I t). rewrite PC. reflexivity.
      * left. apply (GI_mark w I t). rewrite PC. reflexivity.
      * right. right. left. split; [reflexivity|]. rewrite (GI_ref w I t), PC. reflexivity.
    + discriminate.
  - (* GMeta *)
    destruct (g_gpc w) eqn:GP; try discriminate. inversion H; subst w'; clear H.
    assert (NI : g_gpc w <> GIdle) by (rewrite GP; discriminate).
    destruct (GI_cov w I NI) as [S C].
    constructor; simpl; try apply I.
    + intros _. split; [exact S|]. intros t L. destruct (C t L) as [A|[A|[[A1 A2]|[[A1|A1] A2]]]]; unfold covered; simpl; auto.
      * right. right. right. split; [left; reflexivity | exact A2].
      * rewrite GP in A1. discriminate.
      * rewrite GP in A1. discriminate.
    + discriminate.
  - (* GList *)
    assert (NI : g_gpc w <> GIdle) by (destruct (g_gpc w); try discriminate).
    destruct (GI_cov w I NI) as [S C].
    assert (H' : (g_gpc w = GGotReach \/ g_gpc w = GListed) /\
                 (if g_now w - g_start w <? grace then Some {| g_now := g_now w; g_tpc := g_tpc w; g_mtime := g_mtime w; g_present := g_present w;
                   g_marker := g_marker w; g_ref := g_ref w; g_orphans := g_orphans w; g_gpc := GListed; g_prot := g_prot w; g_reach := g_reach w;
                   g_start := g_start w; g_cutoff := g_now w - grace; g_listing := g_present w; g_deleted := g_deleted w |} else None) = Some w').
    { destruct (g_gpc w); try discriminate; auto. }
    destruct H' as [GP H']. destruct (Z.ltb_spec (g_now w - g_start w) grace); [|discriminate]. inversion H'; subst w'; clear H H'.
    constructor; simpl; try apply I.
    + intros _. split; [exact S|]. intros t L. destruct (C t L) as [A|[A|[[A1 A2]|[A1 A2]]]]; unfold covered; simpl; auto.
      * destruct GP as [G|G]; rewrite G in A1; discriminate.
      * right. right. right. split; [right; reflexivity | exact A2].
    + intros _. lia.
  - (* GDel: never enabled for a file a live transaction owns *)
    destruct (g_gpc w) eqn:GP; try discriminate.
    destruct (g_listing w t && negb (g_reach w t) && negb (g_prot w t) && (g_mtime w t <? g_cutoff w) && g_present w t) eqn:Guard; [|discriminate].
    exfalso. apply andb_true_iff in Guard. destruct Guard as [Guard Pr].
    apply andb_true_iff in Guard. destruct Guard as [Guard Mt]. apply andb_true_iff in Guard. destruct Guard as [Guard Np].
    apply andb_true_iff in Guard. destruct Guard as [_ Nr]. apply negb_true_iff in Np, Nr. apply Z.ltb_lt in Mt.
    rewrite (GI_pres w I t) in Pr.
    assert (NI : g_gpc w <> GIdle) by (rewrite GP; discriminate).
    destruct (GI_cov w I NI) as [S C]. pose proof (GI_cut w I GP) as Cut.
    destruct (C t Pr) as [A|[A|[[A1 A2]|[A1 A2]]]]; try congruence; try lia.
  - (* GDelOrphan *)
    destruct (g_gpc w) eqn:GP; try discriminate.
    destruct (existsb _ (g_orphans w)); [|discriminate]. inversion H; subst w'; clear H.
    constructor; simpl; try apply I.
    + intros _. assert (NI : g_gpc w <> GIdle) by (rewrite GP; discriminate).
      destruct (GI_cov w I NI) as [S C]. split; [exact S|]. intros t L. destruct (C t L) as [A|[A|[[A1 A2]|[A1 A2]]]]; unfold covered; simpl; auto.
      * rewrite GP in A1. discriminate.
      * right. right. right. split; [right; reflexivity | exact A2].
    + intros _. apply (GI_cut w I GP).
  - (* GEnd *)
    assert (H' : Some {| g_now := g_now w; g_tpc := g_tpc w; g_mtime := g_mtime w; g_present := g_present w; g_marker := g_marker w;
                   g_ref := g_ref w; g_orphans := g_orphans w; g_gpc := GIdle; g_prot := g_prot w; g_reach := g_reach w;
                   g_start := g_start w; g_cutoff := g_cutoff w; g_listing := g_listing w; g_deleted := g_deleted w |} = Some w').
    { destruct (g_gpc w); try discriminate; auto. }
    inversion H'; subst w'; clear H H'.
    constructor; simpl; try apply I.
    + intro X. contradiction.
    + discriminate.
Qed.

Lemma ginit_inv orph : GInv (ginit orph).
Proof.
  constructor; simpl; auto; try discriminate.
  intro X. contradiction.
Qed.

Lemma grun_inv w evs : GInv w -> GInv (grun w evs).
Proof.
  revert w. induction evs as [|e l IH]; intros w I; [exact I|].
  change (GInv (grun (gstep_skip w e) l)). apply IH. unfold gstep_skip.
  destruct (gstep w e) eqn:St; [eapply gstep_inv; eauto | exact I].
Qed.

(* C06: for every interleaving of collection runs (each lasting less than its grace period) with
   transactions that write, commit or roll back -- including transactions whose files are older than
   the grace period when they commit -- every file referenced by the committed table, and every file
   of a transaction still in flight, exists; the collector deleted no transaction file. *)
Theorem gc_race_safe orph evs :
  let w := grun (ginit orph) evs in
  (forall t, g_ref w t = true -> g_present w t = true)
  /\ (forall t, g_tpc w t = TWritten -> g_present w t = true)
  /\ g_deleted w = [].
Proof.
  intro w. assert (I : GInv w) by (apply grun_inv; apply ginit_inv).
  split; [|split; [|apply I]].
  - intros t R. rewrite (GI_ref w I t) in R. rewrite (GI_pres w I t). destruct (g_tpc w t); try discriminate; reflexivity.
  - intros t P. rewrite (GI_pres w I t), P. reflexivity.
Qed.
