(* Proofs/GCRaceProofs.v -- garbage collection is safe against concurrently committing transactions (C06).

   Part 1 is the INTERFACE of the regenerated collector kernels (Gen/GenGCRace.v): the invariant proof uses
   gen_marker_cutoff / gen_marker_age_ok / gen_marker_action / gen_sweep_cutoff / gen_delete_guard only through
   these lemmas, which are re-proved on every run against what the translator has just read off
   garbage_collector.py.  If the source starts treating a marker as abandoned for any other reason than its
   age against the abandonment timeout, or sweeps with another cutoff than `now - grace`, or deletes a file
   that is reachable / protected / young, a lemma here (and with it C06) no longer checks. *)
From Coq Require Import ZArith List Bool Arith Lia.
Require Import DS.Model.GCRaceBase DS.Gen.GenGCRace DS.Model.GCRace.
Import ListNotations.
Open Scope Z_scope.

(* ---- interface of the regenerated kernels *)

(* a marker is deleted as abandoned only if it is older than the cutoff ... *)
Lemma marker_sweep_old c mt : gen_marker_action (gen_marker_age_ok c (Some mt)) = MSweep -> mt < c.
Proof.
  unfold gen_marker_action, gen_marker_age_ok. destruct (Z.leb_spec c mt); [discriminate | intros _; assumption].
Qed.

(* ... and the cutoff lies the whole abandonment timeout before the clock reading *)
Lemma marker_cutoff_le now timeout : gen_marker_cutoff now timeout <= now - timeout.
Proof. unfold gen_marker_cutoff. lia. Qed.

(* a marker that cannot be stat'ed keeps protecting; so does one whose deletion fails *)
Lemma marker_unstatable_protects c : gen_marker_action (gen_marker_age_ok c None) = MProtect.
Proof. reflexivity. Qed.
Lemma marker_sweep_failure_protects : gen_sweep_failure_protects = true.
Proof. reflexivity. Qed.

(* the sweep's cutoff lies the whole grace period before the clock reading *)
Lemma sweep_cutoff_le now grace : gen_sweep_cutoff now grace <= now - grace.
Proof. unfold gen_sweep_cutoff. lia. Qed.

(* the deletion guard: not covered (reachable or protected) and older than the cutoff *)
Lemma delete_guard_spec cov mt c : gen_delete_guard cov mt c = true -> cov = false /\ mt < c.
Proof.
  unfold gen_delete_guard. rewrite andb_true_iff, negb_true_iff, Z.ltb_lt. tauto.
Qed.

Lemma collect_arguments_checked : gen_collect_marker_arg_ok = true /\ gen_collect_sweeps_ok = true.
Proof. split; reflexivity. Qed.

(* the two kernels composed, as statements about the clock reading, the period and the modification time *)
Lemma marker_kernel now timeout mt :
  (gen_marker_action (gen_marker_age_ok (gen_marker_cutoff now timeout) (Some mt)) = MSweep -> mt + timeout < now)
  /\ gen_marker_action (gen_marker_age_ok (gen_marker_cutoff now timeout) None) = MProtect
  /\ gen_sweep_failure_protects = true.
Proof.
  split; [|split; [apply marker_unstatable_protects | apply marker_sweep_failure_protects]].
  intro H. apply marker_sweep_old in H. pose proof (marker_cutoff_le now timeout). lia.
Qed.

Lemma delete_kernel now grace cov mt :
  gen_delete_guard cov mt (gen_sweep_cutoff now grace) = true -> cov = false /\ mt + grace < now.
Proof.
  intro H. apply delete_guard_spec in H. destruct H as [C M]. pose proof (sweep_cutoff_le now grace). split; [exact C | lia].
Qed.

Local Opaque gen_marker_cutoff gen_marker_age_ok gen_marker_action gen_sweep_cutoff gen_delete_guard.

(* ---- the invariant *)

Definition live (p : tpc) : bool := match p with TWritten | TFlipped | TDone => true | _ => false end.
Definition marked (p : tpc) : bool := match p with TMarked | TWritten | TFlipped | TAdoptM => true | _ => false end.
Definition committed (p : tpc) : bool := match p with TFlipped | TDone => true | _ => false end.
(* states in which the file may be in place *)
Definition may_exist (p : tpc) : bool := match p with TWritten | TFlipped | TDone | TOrphaned | TPre | TAdoptM => true | _ => false end.
(* states a file never returns from to TNew / TMarked *)
Definition past_mark (p : tpc) : bool := match p with TNew | TMarked => false | _ => true end.
(* the collector holds its protection snapshot *)
Definition has_prot (p : gpc) : bool := match p with GGotMarks | GGotReach | GListed => true | _ => false end.

(* why the running collection will not delete file t *)
Definition covered (w : gworld) (t : tid) : Prop :=
  (has_prot (g_gpc w) = true /\ g_prot w t = true)                                (* in the protection snapshot *)
  \/ g_start w <= g_mtime w t                                                      (* written after the run started *)
  \/ (g_gpc w = GGotMarks /\ g_ref w t = true)                                     (* will be in the reachability snapshot *)
  \/ ((g_gpc w = GGotReach \/ g_gpc w = GListed) /\ g_reach w t = true)            (* is in it *)
  \/ (g_gpc w = GAnnounced /\ (g_marker w t = true \/ g_ref w t = true)).         (* will be in one of the two *)

(* Everything is stated for files whose marker no run has treated as abandoned (g_swept = false): a
   transaction that outlives the abandonment timeout has given up its protection, by design. *)
Record GInv (w : gworld) : Prop := {
  GI_mark : forall t, marked (g_tpc w t) = true -> g_swept w t = false -> g_marker w t = true;
  GI_ref : forall t, g_ref w t = committed (g_tpc w t);
  GI_pres : forall t, live (g_tpc w t) = true -> g_swept w t = false -> g_present w t = true;
  GI_only : forall t, g_present w t = true -> may_exist (g_tpc w t) = true;
  GI_cov : g_gpc w <> GIdle -> g_start w <= g_now w /\ forall t, live (g_tpc w t) = true -> g_swept w t = false -> covered w t;
  GI_cut : g_gpc w = GListed -> g_cutoff w < g_start w;
  GI_del : forall t, In t (g_deleted w) ->
             g_present w t = false /\ past_mark (g_tpc w t) = true /\ (g_swept w t = true \/ live (g_tpc w t) = false) }.

Lemma updf_same {A} t (v : A) f : updf t v f t = v.
Proof. unfold updf. rewrite Nat.eqb_refl. reflexivity. Qed.
Lemma updf_other {A} t u (v : A) f : u <> t -> updf t v f u = f u.
Proof. unfold updf. intro H. destruct (Nat.eqb_spec u t); [contradiction|reflexivity]. Qed.

Ltac tx_split u t := destruct (Nat.eq_dec u t) as [->|NE]; [rewrite ?updf_same in * | rewrite ?updf_other in * by exact NE].

(* a transaction's step on file t leaves the coverage of every other file alone *)
Lemma covered_other w t u p mt pres mk rf mkmt :
  u <> t -> covered w u -> covered (with_tx w t p mt pres mk rf mkmt) u.
Proof.
  intros NE C. unfold covered, with_tx in *. simpl. rewrite !updf_other by exact NE. exact C.
Qed.

(* the invariant's clauses for a transaction step on t: the files u <> t are dealt with, the clause for t remains *)
Ltac t_mark I t := let u := fresh "u" in let M := fresh "M" in let SW := fresh "SW" in
  intros u M SW; tx_split u t; [ | apply (GI_mark _ I u M SW)].
Ltac t_ref I t := let u := fresh "u" in intro u; tx_split u t; [ | apply (GI_ref _ I u)].
Ltac t_pres I t := let u := fresh "u" in let L := fresh "L" in let SW := fresh "SW" in
  intros u L SW; tx_split u t; [ | apply (GI_pres _ I u L SW)].
Ltac t_only I t := let u := fresh "u" in let P := fresh "P" in intros u P; tx_split u t; [ | apply (GI_only _ I u P)].
Ltac t_del I t := let u := fresh "u" in let D := fresh "D" in let DP := fresh "DP" in let DM := fresh "DM" in let DS := fresh "DS" in
  intros u D; destruct (GI_del _ I u D) as [DP [DM DS]]; tx_split u t; [ | auto].

Lemma gstep_inv w e w' : GInv w -> gstep w e = Some w' -> GInv w'.
Proof.
  intros I H. destruct e as [dt|t|t|t|t|t|t|t mt|t|t|t| |timeout|t| |grace|t|n| ]; simpl in H.
  - (* Tick *)
    destruct (Z.leb_spec 0 dt); [|discriminate]. inversion H; subst w'; clear H.
    constructor; simpl; try apply I.
    intro NI. destruct (GI_cov w I NI) as [S C]. split; [lia|]. intros t L SW. exact (C t L SW).
  - (* TMarkW *)
    destruct (g_tpc w t) eqn:PC; try discriminate. inversion H; subst w'; clear H. unfold with_tx.
    constructor; simpl; try apply I.
    + t_mark I t. reflexivity.
    + t_ref I t. reflexivity.
    + t_pres I t. discriminate.
    + t_only I t. discriminate.
    + intro NI. destruct (GI_cov w I NI) as [S C]. split; [exact S|]. intros u L SW.
      tx_split u t; [discriminate|]. apply (covered_other w t u); auto.
    + t_del I t. rewrite PC in DM. discriminate.
  - (* TDataW: the file is in place now *)
    destruct (g_tpc w t) eqn:PC; try discriminate. inversion H; subst w'; clear H. unfold with_tx.
    constructor; simpl; try apply I.
    + t_mark I t. apply (GI_mark w I t); [rewrite PC; reflexivity | exact SW].
    + t_ref I t. reflexivity.
    + t_pres I t. reflexivity.
    + t_only I t. reflexivity.
    + intro NI. destruct (GI_cov w I NI) as [S C]. split; [exact S|]. intros u L SW.
      tx_split u t; [right; left; simpl; rewrite updf_same; exact S | apply (covered_other w t u); auto].
    + t_del I t. rewrite PC in DM. discriminate.
  - (* TFlip *)
    destruct (g_tpc w t) eqn:PC; try discriminate. inversion H; subst w'; clear H. unfold with_tx.
    assert (Lt : live (g_tpc w t) = true) by (rewrite PC; reflexivity).
    constructor; simpl; try apply I.
    + t_mark I t. apply (GI_mark w I t); [rewrite PC; reflexivity | exact SW].
    + t_ref I t. reflexivity.
    + t_pres I t. apply (GI_pres w I t Lt SW).
    + t_only I t. reflexivity.
    + intro NI. destruct (GI_cov w I NI) as [S C]. split; [exact S|]. intros u L SW.
      tx_split u t; [|apply (covered_other w t u); auto].
      destruct (C t Lt SW) as [A|[A|[[A1 A2]|[A|[A1 A2]]]]]; unfold covered; simpl; rewrite ?updf_same; auto.
      * right. right. right. right. split; [exact A1|]. right. reflexivity.
    + t_del I t. repeat split; auto. destruct DS as [DS|DS]; [left; exact DS | rewrite Lt in DS; discriminate].
  - (* TMarkD *)
    destruct (g_tpc w t) eqn:PC; try discriminate. inversion H; subst w'; clear H. unfold with_tx.
    assert (Lt : live (g_tpc w t) = true) by (rewrite PC; reflexivity).
    pose proof (GI_ref w I t) as Rt. rewrite PC in Rt. simpl in Rt.
    constructor; simpl; try apply I.
    + t_mark I t. discriminate.
    + t_ref I t. reflexivity.
    + t_pres I t. apply (GI_pres w I t Lt SW).
    + t_only I t. reflexivity.
    + intro NI. destruct (GI_cov w I NI) as [S C]. split; [exact S|]. intros u L SW.
      tx_split u t; [|apply (covered_other w t u); auto].
      destruct (C t Lt SW) as [A|[A|[[A1 A2]|[A|[A1 A2]]]]]; unfold covered; simpl; rewrite ?updf_same; auto.
      * right. right. right. right. split; [exact A1|]. right. reflexivity.
    + t_del I t. repeat split; auto. destruct DS as [DS|DS]; [left; exact DS | rewrite Lt in DS; discriminate].
  - (* TRollback *)
    assert (H' : Some (with_tx w t TRolled (g_mtime w t) false false false (g_mkmtime w t)) = Some w' /\ (g_tpc w t = TMarked \/ g_tpc w t = TWritten)).
    { destruct (g_tpc w t); try discriminate; auto. }
    destruct H' as [H' PC]. inversion H'; subst w'; clear H H'. unfold with_tx.
    constructor; simpl; try apply I.
    + t_mark I t. discriminate.
    + t_ref I t. reflexivity.
    + t_pres I t. discriminate.
    + t_only I t. discriminate.
    + intro NI. destruct (GI_cov w I NI) as [S C]. split; [exact S|]. intros u L SW.
      tx_split u t; [discriminate | apply (covered_other w t u); auto].
    + t_del I t. repeat split; auto.
  - (* TAbandon: the owner drops the marker of a file it will never publish *)
    assert (H' : Some (with_tx w t TOrphaned (g_mtime w t) (g_present w t) false false (g_mkmtime w t)) = Some w' /\ (g_tpc w t = TWritten \/ g_tpc w t = TAdoptM)).
    { destruct (g_tpc w t); try discriminate; auto. }
    destruct H' as [H' PC]. inversion H'; subst w'; clear H H'. unfold with_tx.
    constructor; simpl; try apply I.
    + t_mark I t. discriminate.
    + t_ref I t. reflexivity.
    + t_pres I t. discriminate.
    + t_only I t. reflexivity.
    + intro NI. destruct (GI_cov w I NI) as [S C]. split; [exact S|]. intros u L SW.
      tx_split u t; [discriminate | apply (covered_other w t u); auto].
    + t_del I t. repeat split; auto.
  - (* TStage: a pre-built file appears, of any age *)
    destruct (g_tpc w t) eqn:PC; try discriminate. destruct (mt <=? g_now w); [|discriminate].
    inversion H; subst w'; clear H. unfold with_tx.
    constructor; simpl; try apply I.
    + t_mark I t. discriminate.
    + t_ref I t. reflexivity.
    + t_pres I t. discriminate.
    + t_only I t. reflexivity.
    + intro NI. destruct (GI_cov w I NI) as [S C]. split; [exact S|]. intros u L SW.
      tx_split u t; [discriminate | apply (covered_other w t u); auto].
    + t_del I t. rewrite PC in DM. discriminate.
  - (* TAdoptMark *)
    destruct (g_tpc w t) eqn:PC; try discriminate. inversion H; subst w'; clear H. unfold with_tx.
    constructor; simpl; try apply I.
    + t_mark I t. reflexivity.
    + t_ref I t. reflexivity.
    + t_pres I t. discriminate.
    + t_only I t. reflexivity.
    + intro NI. destruct (GI_cov w I NI) as [S C]. split; [exact S|]. intros u L SW.
      tx_split u t; [discriminate | apply (covered_other w t u); auto].
    + t_del I t. repeat split; auto.
  - (* TAdopt: only while no collection run is announced, and only a file that is still in place *)
    destruct (g_tpc w t) eqn:PC; try discriminate. destruct (g_gpc w) eqn:GP; try discriminate.
    destruct (g_present w t) eqn:Pt; [|discriminate]. inversion H; subst w'; clear H. unfold with_tx.
    constructor; simpl; try apply I.
    + t_mark I t. apply (GI_mark w I t); [rewrite PC; reflexivity | exact SW].
    + t_ref I t. reflexivity.
    + t_pres I t. reflexivity.
    + t_only I t. reflexivity.
    + intro X. exfalso. apply X. exact GP.
    + t_del I t. congruence.
  - (* TAdoptBare: not a step of the repaired code *)
    discriminate.
  - (* GAnnounce: the run is announced before anything else *)
    destruct (g_gpc w) eqn:GP; try discriminate. inversion H; subst w'; clear H. unfold with_gc.
    constructor; simpl; try apply I.
    + intros _. split; [lia|]. intros t L SW. unfold covered. simpl. right. right. right. right. split; [reflexivity|].
      destruct (g_tpc w t) eqn:PC; try discriminate.
      * left. apply (GI_mark w I t); [rewrite PC; reflexivity | exact SW].
      * left. apply (GI_mark w I t); [rewrite PC; reflexivity | exact SW].
      * right. rewrite (GI_ref w I t), PC. reflexivity.
    + discriminate.
  - (* GMarks: the protection markers are loaded *)
    destruct (g_gpc w) eqn:GP; try discriminate. inversion H; subst w'; clear H. unfold with_gc.
    assert (NI : g_gpc w <> GIdle) by (rewrite GP; discriminate).
    destruct (GI_cov w I NI) as [S C].
    constructor; simpl; try apply I.
    + intros _. split; [exact S|]. intros t L SW.
      destruct (C t L SW) as [[A1 A2]|[A|[[A1 A2]|[[[A1|A1] A2]|[A1 [A2|A2]]]]]]; rewrite ?GP in *; try discriminate; unfold covered; simpl; auto 6.
    + discriminate.
  - (* GSweep: a marker older than the abandonment timeout is deleted; its file is on its own from now on *)
    destruct (g_gpc w) eqn:GP; try discriminate.
    destruct (g_prot w t) eqn:PT; [|discriminate].
    destruct (gen_marker_action _) eqn:ACT; [discriminate|]. inversion H; subst w'; clear H.
    assert (NI : g_gpc w <> GIdle) by (rewrite GP; discriminate).
    destruct (GI_cov w I NI) as [S C].
    constructor; simpl; try apply I.
    + intros u M SW. tx_split u t; [discriminate | apply (GI_mark w I u M SW)].
    + intros u L SW. tx_split u t; [discriminate | apply (GI_pres w I u L SW)].
    + intros _. split; [exact S|]. intros u L SW. tx_split u t; [discriminate|].
      destruct (C u L SW) as [[A1 A2]|[A|[[A1 A2]|[[[A1|A1] A2]|[A1 A2]]]]]; rewrite ?GP in *; try discriminate; unfold covered; simpl;
        rewrite ?updf_other by exact NE; auto 6.
    + discriminate.
    + intros u D. destruct (GI_del w I u D) as [DP [DM DS]]. repeat split; auto.
      destruct DS as [DS|DS]; [left|right; exact DS]. tx_split u t; [reflexivity | exact DS].
  - (* GMeta *)
    destruct (g_gpc w) eqn:GP; try discriminate. inversion H; subst w'; clear H. unfold with_gc.
    assert (NI : g_gpc w <> GIdle) by (rewrite GP; discriminate).
    destruct (GI_cov w I NI) as [S C].
    constructor; simpl; try apply I.
    + intros _. split; [exact S|]. intros t L SW.
      destruct (C t L SW) as [[A1 A2]|[A|[[A1 A2]|[[[A1|A1] A2]|[A1 A2]]]]]; rewrite ?GP in *; try discriminate; unfold covered; simpl; auto 7.
    + discriminate.
  - (* GList *)
    assert (NI : g_gpc w <> GIdle) by (destruct (g_gpc w); try discriminate).
    destruct (GI_cov w I NI) as [S C].
    assert (H' : (g_gpc w = GGotReach \/ g_gpc w = GListed) /\
                 (if g_now w - g_start w <? grace
                  then Some (with_gc w GListed (g_prot w) (g_reach w) (g_start w) (gen_sweep_cutoff (g_now w) grace) (g_present w) (g_mcut w) (g_orphans w))
                  else None) = Some w').
    { destruct (g_gpc w); try discriminate; auto. }
    destruct H' as [GP H']. destruct (Z.ltb_spec (g_now w - g_start w) grace); [|discriminate]. inversion H'; subst w'; clear H H'.
    unfold with_gc.
    constructor; simpl; try apply I.
    + intros _. split; [exact S|]. intros t L SW.
      destruct (C t L SW) as [[A1 A2]|[A|[[A1 A2]|[[A1 A2]|[A1 A2]]]]]; unfold covered; simpl.
      * left. split; [reflexivity | exact A2].
      * right. left. exact A.
      * destruct GP as [G|G]; rewrite G in A1; discriminate.
      * right. right. right. left. split; [right; reflexivity | exact A2].
      * destruct GP as [G|G]; rewrite G in A1; discriminate.
    + intros _. pose proof (sweep_cutoff_le (g_now w) grace). lia.
  - (* GDel: never enabled for a file a live transaction owns, unless its marker was abandoned *)
    destruct (g_gpc w) eqn:GP; try discriminate.
    destruct (g_listing w t && gen_delete_guard (g_reach w t || g_prot w t) (g_mtime w t) (g_cutoff w) && g_present w t) eqn:Guard; [|discriminate].
    inversion H; subst w'; clear H.
    apply andb_true_iff in Guard. destruct Guard as [Guard Pr].
    apply andb_true_iff in Guard. destruct Guard as [_ DG]. apply delete_guard_spec in DG. destruct DG as [Cov Mt].
    apply orb_false_iff in Cov. destruct Cov as [Nr Np].
    assert (NI : g_gpc w <> GIdle) by (rewrite GP; discriminate).
    destruct (GI_cov w I NI) as [S C]. pose proof (GI_cut w I GP) as Cut.
    assert (OK : g_swept w t = true \/ live (g_tpc w t) = false).
    { destruct (live (g_tpc w t)) eqn:L; [|right; reflexivity].
      destruct (g_swept w t) eqn:SW; [left; reflexivity|]. exfalso.
      destruct (C t L SW) as [[A1 A2]|[A|[[A1 A2]|[[A1 A2]|[A1 A2]]]]]; try congruence; try lia. }
    clear NI.
    assert (PM : past_mark (g_tpc w t) = true).
    { pose proof (GI_only w I t Pr) as ME. destruct (g_tpc w t); try discriminate; reflexivity. }
    constructor; simpl; try apply I.
    + intros u L SW. tx_split u t; [destruct OK as [A|A]; congruence | apply (GI_pres w I u L SW)].
    + intros u P. tx_split u t; [discriminate | apply (GI_only w I u P)].
    + intros _. split; [exact S|]. intros u L SW. pose proof (C u L SW) as CU. unfold covered in *. simpl. rewrite GP in CU. exact CU.
    + intros _. exact Cut.
    + intros u [E|D].
      * subst u. rewrite updf_same. auto.
      * destruct (GI_del w I u D) as [DP [DM DS]]. tx_split u t; auto.
  - (* GDelOrphan *)
    destruct (g_gpc w) eqn:GP; try discriminate.
    destruct (existsb _ (g_orphans w)); [|discriminate]. inversion H; subst w'; clear H. unfold with_gc.
    assert (NI : g_gpc w <> GIdle) by (rewrite GP; discriminate).
    destruct (GI_cov w I NI) as [S C].
    constructor; simpl; try apply I.
    + intros _. split; [exact S|]. intros t L SW. pose proof (C t L SW) as CU. unfold covered in *. simpl. rewrite GP in CU. exact CU.
    + intros _. apply (GI_cut w I GP).
  - (* GEnd *)
    assert (H' : Some (with_gc w GIdle (g_prot w) (g_reach w) (g_start w) (g_cutoff w) (g_listing w) (g_mcut w) (g_orphans w)) = Some w').
    { destruct (g_gpc w); try discriminate; auto. }
    inversion H'; subst w'; clear H H'. unfold with_gc.
    constructor; simpl; try apply I.
    + intro X. contradiction.
    + discriminate.
Qed.

Lemma ginit_inv orph : GInv (ginit orph).
Proof.
  constructor; simpl; auto; try discriminate.
  intro X. contradiction.
Qed.

Lemma grun_inv w evs : GInv w -> GInv (grun w evs).
Proof.
  revert w. induction evs as [|e l IH]; intros w I; [exact I|].
  change (GInv (grun (gstep_skip w e) l)). apply IH. unfold gstep_skip.
  destruct (gstep w e) eqn:St; [eapply gstep_inv; eauto | exact I].
Qed.

(* C06: for every interleaving of collection runs (each announced, each lasting less than its grace period)
   with transactions that write (however slowly: any time may pass between a marker and its file), adopt
   pre-built files of any age, commit, retry (abandoning the manifests of the lost attempt) or roll back --
   including transactions whose files are older than the grace period when they commit -- every file
   referenced by the committed table, and every file of a transaction still in flight, exists, and what the
   collector deleted is neither; for every file whose marker no run treated as older than the abandonment
   timeout. *)
Theorem gc_race_safe orph evs :
  let w := grun (ginit orph) evs in
  forall f, g_swept w f = false ->
    (g_ref w f = true -> g_present w f = true)
    /\ (g_tpc w f = TWritten -> g_present w f = true)
    /\ (In f (g_deleted w) -> g_present w f = false /\ g_ref w f = false /\ g_tpc w f <> TWritten).
Proof.
  intros w f SW. assert (I : GInv w) by (apply grun_inv; apply ginit_inv).
  split; [|split].
  - intros R. rewrite (GI_ref w I f) in R. apply (GI_pres w I f); [|exact SW]. destruct (g_tpc w f); try discriminate; reflexivity.
  - intros P. apply (GI_pres w I f); [rewrite P; reflexivity | exact SW].
  - intros D. destruct (GI_del w I f D) as [DP [_ [DS|DS]]]; [congruence|].
    split; [exact DP|]. split.
    + rewrite (GI_ref w I f). destruct (g_tpc w f); try discriminate; reflexivity.
    + intro E. rewrite E in DS. discriminate.
Qed.

(* ---- a marker is treated as abandoned only when it is older than the abandonment timeout *)

Definition unmarked_yet (p : tpc) : bool := match p with TNew | TPre => true | _ => false end.

Record SInv (T : Z) (w : gworld) : Prop := {
  SI_new : forall t, unmarked_yet (g_tpc w t) = true -> g_marker w t = false /\ g_prot w t = false /\ g_swept w t = false;
  SI_run : has_prot (g_gpc w) = true -> g_mcut w <= g_now w - T;
  SI_old : forall t, g_swept w t = true -> g_mkmtime w t + T < g_now w }.

Definition timeout_ok (T : Z) (e : gevent) : Prop := match e with GMarks timeout => T <= timeout | _ => True end.

Ltac s_tx I T t :=
  constructor; simpl; try apply I;
  [ intros u N; tx_split u t; [try discriminate | apply (SI_new T _ I u N)]
  | intros u SW; tx_split u t; try apply (SI_old T _ I _ SW) ].

Lemma gstep_sinv T w e w' : SInv T w -> timeout_ok T e -> gstep w e = Some w' -> SInv T w'.
Proof.
  intros I TO H. destruct e as [dt|t|t|t|t|t|t|t mt|t|t|t| |timeout|t| |grace|t|n| ]; simpl in H.
  - destruct (Z.leb_spec 0 dt); [|discriminate]. inversion H; subst w'; clear H.
    constructor; simpl; try apply I.
    + intro HP. pose proof (SI_run T w I HP). lia.
    + intros t SW. pose proof (SI_old T w I t SW). lia.
  - (* TMarkW: the marker's time is set; the file was never swept before *)
    destruct (g_tpc w t) eqn:PC; try discriminate. inversion H; subst w'; clear H. unfold with_tx.
    assert (U : unmarked_yet (g_tpc w t) = true) by (rewrite PC; reflexivity).
    destruct (SI_new T w I t U) as [_ [_ NS]].
    s_tx I T t. congruence.
  - destruct (g_tpc w t) eqn:PC; try discriminate. inversion H; subst w'; clear H. unfold with_tx. s_tx I T t.
  - destruct (g_tpc w t) eqn:PC; try discriminate. inversion H; subst w'; clear H. unfold with_tx. s_tx I T t.
  - destruct (g_tpc w t) eqn:PC; try discriminate. inversion H; subst w'; clear H. unfold with_tx. s_tx I T t.
  - assert (H' : Some (with_tx w t TRolled (g_mtime w t) false false false (g_mkmtime w t)) = Some w').
    { destruct (g_tpc w t); try discriminate; auto. }
    inversion H'; subst w'; clear H H'. unfold with_tx. s_tx I T t.
  - assert (H' : Some (with_tx w t TOrphaned (g_mtime w t) (g_present w t) false false (g_mkmtime w t)) = Some w').
    { destruct (g_tpc w t); try discriminate; auto. }
    inversion H'; subst w'; clear H H'. unfold with_tx. s_tx I T t.
  - (* TStage *)
    destruct (g_tpc w t) eqn:PC; try discriminate. destruct (mt <=? g_now w); [|discriminate].
    inversion H; subst w'; clear H. unfold with_tx.
    assert (U : unmarked_yet (g_tpc w t) = true) by (rewrite PC; reflexivity).
    destruct (SI_new T w I t U) as [_ [NP NS]].
    s_tx I T t. auto.
  - (* TAdoptMark: the marker's time is set; the file was never swept before *)
    destruct (g_tpc w t) eqn:PC; try discriminate. inversion H; subst w'; clear H. unfold with_tx.
    assert (U : unmarked_yet (g_tpc w t) = true) by (rewrite PC; reflexivity).
    destruct (SI_new T w I t U) as [_ [_ NS]].
    s_tx I T t. congruence.
  - destruct (g_tpc w t) eqn:PC; try discriminate. destruct (g_gpc w) eqn:GP; try discriminate.
    destruct (g_present w t); [|discriminate]. inversion H; subst w'; clear H. unfold with_tx.
    constructor; simpl; try apply I.
    + intros u N; tx_split u t; [discriminate | apply (SI_new T _ I u N)].
    + intros u SW; tx_split u t; apply (SI_old T _ I _ SW).
  - discriminate.
  - (* GAnnounce *)
    destruct (g_gpc w) eqn:GP; try discriminate. inversion H; subst w'; clear H. unfold with_gc.
    constructor; simpl; try apply I. discriminate.
  - (* GMarks *)
    destruct (g_gpc w) eqn:GP; try discriminate. inversion H; subst w'; clear H. unfold with_gc.
    constructor; simpl; try apply I.
    + intros u N. destruct (SI_new T w I u N) as [A [_ B]]. auto.
    + intros _. simpl in TO. pose proof (marker_cutoff_le (g_now w) timeout). lia.
  - (* GSweep *)
    destruct (g_gpc w) eqn:GP; try discriminate.
    destruct (g_prot w t) eqn:PT; [|discriminate].
    destruct (gen_marker_action _) eqn:ACT; [discriminate|]. inversion H; subst w'; clear H.
    apply marker_sweep_old in ACT.
    assert (M : g_mcut w <= g_now w - T) by (apply (SI_run T w I); rewrite GP; reflexivity).
    constructor; simpl; try apply I.
    + intros u N. tx_split u t; [destruct (SI_new T w I t N) as [_ [A _]]; congruence | apply (SI_new T w I u N)].
    + intros _. exact M.
    + intros u SW. tx_split u t; [lia | apply (SI_old T w I u SW)].
  - (* GMeta *)
    destruct (g_gpc w) eqn:GP; try discriminate. inversion H; subst w'; clear H. unfold with_gc.
    constructor; simpl; try apply I. intros _. apply (SI_run T w I). rewrite GP. reflexivity.
  - (* GList *)
    assert (HP : has_prot (g_gpc w) = true) by (destruct (g_gpc w); try discriminate; reflexivity).
    assert (H' : (if g_now w - g_start w <? grace
                  then Some (with_gc w GListed (g_prot w) (g_reach w) (g_start w) (gen_sweep_cutoff (g_now w) grace) (g_present w) (g_mcut w) (g_orphans w))
                  else None) = Some w').
    { destruct (g_gpc w); try discriminate; auto. }
    destruct (g_now w - g_start w <? grace); [|discriminate]. inversion H'; subst w'; clear H H'. unfold with_gc.
    constructor; simpl; try apply I. intros _. apply (SI_run T w I HP).
  - (* GDel *)
    destruct (g_gpc w) eqn:GP; try discriminate.
    destruct (_ && _ && _); [|discriminate]. inversion H; subst w'; clear H.
    constructor; simpl; try apply I. intros _. apply (SI_run T w I). rewrite GP. reflexivity.
  - (* GDelOrphan *)
    destruct (g_gpc w) eqn:GP; try discriminate.
    destruct (existsb _ (g_orphans w)); [|discriminate]. inversion H; subst w'; clear H. unfold with_gc.
    constructor; simpl; try apply I. intros _. apply (SI_run T w I). rewrite GP. reflexivity.
  - (* GEnd *)
    assert (H' : Some (with_gc w GIdle (g_prot w) (g_reach w) (g_start w) (g_cutoff w) (g_listing w) (g_mcut w) (g_orphans w)) = Some w').
    { destruct (g_gpc w); try discriminate; auto. }
    inversion H'; subst w'; clear H H'. unfold with_gc.
    constructor; simpl; try apply I. discriminate.
Qed.

Lemma ginit_sinv T orph : SInv T (ginit orph).
Proof.
  constructor; simpl; auto; try discriminate.
Qed.

Lemma grun_sinv T w evs : SInv T w -> Forall (timeout_ok T) evs -> SInv T (grun w evs).
Proof.
  revert w. induction evs as [|e l IH]; intros w I F; [exact I|].
  inversion F as [|x y TO F']; subst.
  change (SInv T (grun (gstep_skip w e) l)). apply IH; [|exact F']. unfold gstep_skip.
  destruct (gstep w e) eqn:St; [eapply gstep_sinv; eauto | exact I].
Qed.

(* For every interleaving whose collection runs all use an abandonment timeout of at least T: a file whose
   marker some run deleted as abandoned had a marker older than T -- its transaction was in flight for
   longer than T.  (So no marker of a transaction shorter than the abandonment timeout is ever swept,
   however long the write of its file takes and whatever the grace period is.) *)
Theorem swept_only_abandoned orph evs T :
  Forall (timeout_ok T) evs ->
  let w := grun (ginit orph) evs in
  forall f, g_swept w f = true -> g_mkmtime w f + T < g_now w.
Proof.
  intros F w f SW. apply (SI_old T w); [|exact SW]. apply grun_sinv; [apply ginit_sinv | exact F].
Qed.

(* ... and until then the marker of a file in flight is in place, whatever the collector does: *)
Theorem unswept_marker_kept orph evs :
  let w := grun (ginit orph) evs in
  forall f, g_swept w f = false ->
    (g_tpc w f = TMarked \/ g_tpc w f = TWritten \/ g_tpc w f = TFlipped \/ g_tpc w f = TAdoptM) -> g_marker w f = true.
Proof.
  intros w f SW P. assert (I : GInv w) by (apply grun_inv; apply ginit_inv).
  apply (GI_mark w I f); [|exact SW]. destruct P as [P|[P|[P|P]]]; rewrite P; reflexivity.
Qed.

(* ---- adoption of a pre-built file WITHOUT marker and handshake (the code before the repair) is unsafe *)

(* A pre-built file ten hours old is staged; a collection run (grace 1 h) is announced, loads the markers and
   reads the metadata; the transaction adopts the file and commits; the run, 4 ms old, lists and deletes the
   file: unreferenced in its snapshot, unprotected, old.  The committed table references a deleted file. *)
Definition unrepaired_counterexample : list gevent :=
  [TStage 0%nat (-36000000); Tick 1; GAnnounce; Tick 1; GMarks 86400000; Tick 1; GMeta; Tick 1; TAdoptBare 0%nat; TFlip 0%nat; Tick 1;
   GList 3600000; GDel 0%nat; GEnd].

Lemma unmarked_adoption_refuted :
  exists evs w, grun_strict_unrepaired (ginit []) evs = Some w
    /\ g_swept w 0%nat = false /\ g_ref w 0%nat = true /\ g_present w 0%nat = false.
Proof.
  exists unrepaired_counterexample. eexists. split; [vm_compute; reflexivity|]. vm_compute. repeat split; reflexivity.
Qed.

(* the same events with the repaired adoption: the marker is written, but the run is announced: Adopt is refused *)
Lemma repaired_adoption_refused :
  let w := grun (ginit []) [TStage 0%nat (-36000000); Tick 1; GAnnounce; Tick 1; GMarks 86400000; Tick 1; GMeta; Tick 1; TAdoptMark 0%nat] in
  gstep w (TAdopt 0%nat) = None /\ g_marker w 0%nat = true.
Proof. vm_compute. split; reflexivity. Qed.
