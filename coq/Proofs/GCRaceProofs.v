(* Proofs/GCRaceProofs.v -- garbage collection is safe against concurrently committing transactions (C06).

   Part 1 is the INTERFACE of the regenerated collector kernels (Gen/GenGCRace.v): the invariant proof uses
   gen_marker_cutoff / gen_marker_age_ok / gen_marker_action / gen_sweep_cutoff / gen_delete_guard only through
   these lemmas, which are re-proved on every run against what the translator has just read off
   garbage_collector.py.  If the source starts treating a marker as abandoned for any other reason than its
   age against the abandonment timeout, or sweeps with another cutoff than `now - grace`, or deletes a file
   that is reachable / protected / young, a lemma here (and with it C06) no longer checks. *)
From Coq Require Import ZArith List Bool Arith Lia.
Require Import DS.Model.GCRaceBase DS.Gen.GenGCRace DS.Model.GCRace.
Import ListNotations.
Open Scope Z_scope.

(* ---- interface of the regenerated kernels *)

(* a marker is deleted as abandoned only if it is older than the cutoff ... *)
Lemma marker_sweep_old c mt : gen_marker_action (gen_marker_age_ok c (Some mt)) = MSweep -> mt < c.
Proof.
  unfold gen_marker_action, gen_marker_age_ok. destruct (Z.leb_spec c mt); [discriminate | intros _; assumption].
Qed.

(* ... and the cutoff lies the whole abandonment timeout before the clock reading *)
Lemma marker_cutoff_le now timeout : gen_marker_cutoff now timeout <= now - timeout.
Proof. unfold gen_marker_cutoff. lia. Qed.

(* a marker that cannot be stat'ed keeps protecting; so does one whose deletion fails *)
Lemma marker_unstatable_protects c : gen_marker_action (gen_marker_age_ok c None) = MProtect.
Proof. reflexivity. Qed.
Lemma marker_sweep_failure_protects : gen_sweep_failure_protects = true.
Proof. reflexivity. Qed.

(* the sweep's cutoff lies the whole grace period before the clock reading *)
Lemma sweep_cutoff_le now grace : gen_sweep_cutoff now grace <= now - grace.
Proof. unfold gen_sweep_cutoff. lia. Qed.

(* the deletion guard: not covered (reachable or protected) and older than the cutoff *)
Lemma delete_guard_spec cov mt c : gen_delete_guard cov mt c = true -> cov = false /\ mt < c.
Proof.
  unfold gen_delete_guard. rewrite andb_true_iff, negb_true_iff, Z.ltb_lt. tauto.
Qed.

Lemma collect_arguments_checked : gen_collect_marker_arg_ok = true /\ gen_collect_sweeps_ok = true.
Proof. split; reflexivity. Qed.

(* the two kernels composed, as statements about the clock reading, the period and the modification time *)
Lemma marker_kernel now timeout mt :
  (gen_marker_action (gen_marker_age_ok (gen_marker_cutoff now timeout) (Some mt)) = MSweep -> mt + timeout < now)
  /\ gen_marker_action (gen_marker_age_ok (gen_marker_cutoff now timeout) None) = MProtect
  /\ gen_sweep_failure_protects = true.
Proof.
  split; [|split; [apply marker_unstatable_protects | apply marker_sweep_failure_protects]].
  intro H. apply marker_sweep_old in H. pose proof (marker_cutoff_le now timeout). lia.
Qed.

Lemma delete_kernel now grace cov mt :
  gen_delete_guard cov mt (gen_sweep_cutoff now grace) = true -> cov = false /\ mt + grace < now.
Proof.
  intro H. apply delete_guard_spec in H. destruct H as [C M]. pose proof (sweep_cutoff_le now grace). split; [exact C | lia].
Qed.

Local Opaque gen_marker_cutoff gen_marker_age_ok gen_marker_action gen_sweep_cutoff gen_delete_guard.

(* ---- the invariant *)

Definition live (p : tpc) : bool := match p with TWritten | TFlipped | TDone => true | _ => false end.
Definition marked (p : tpc) : bool := match p with TMarked | TWritten | TFlipped => true | _ => false end.
Definition committed (p : tpc) : bool := match p with TFlipped | TDone => true | _ => false end.

Definition covered (w : gworld) (t : tid) : Prop :=
  g_prot w t = true \/ g_start w <= g_mtime w t
  \/ (g_gpc w = GGotMarks /\ g_ref w t = true)
  \/ ((g_gpc w = GGotReach \/ g_gpc w = GListed) /\ g_reach w t = true).

(* Everything is stated for files whose marker no run has treated as abandoned (g_swept = false): a
   transaction that outlives the abandonment timeout has given up its protection, by design. *)
Record GInv (w : gworld) : Prop := {
  GI_mark : forall t, marked (g_tpc w t) = true -> g_swept w t = false -> g_marker w t = true;
  GI_ref : forall t, g_ref w t = committed (g_tpc w t);
  GI_pres : forall t, live (g_tpc w t) = true -> g_swept w t = false -> g_present w t = true;
  GI_only : forall t, g_present w t = true -> live (g_tpc w t) = true \/ g_tpc w t = TOrphaned;
  GI_cov : g_gpc w <> GIdle -> g_start w <= g_now w /\ forall t, live (g_tpc w t) = true -> g_swept w t = false -> covered w t;
  GI_cut : g_gpc w = GListed -> g_cutoff w < g_start w;
  GI_del : forall t, In t (g_deleted w) -> g_swept w t = true \/ g_tpc w t = TOrphaned }.

Lemma updf_same {A} t (v : A) f : updf t v f t = v.
Proof. unfold updf. rewrite Nat.eqb_refl. reflexivity. Qed.
Lemma updf_other {A} t u (v : A) f : u <> t -> updf t v f u = f u.
Proof. unfold updf. intro H. destruct (Nat.eqb_spec u t); [contradiction|reflexivity]. Qed.

Ltac tx_split u t := destruct (Nat.eq_dec u t) as [->|NE]; [rewrite ?updf_same in * | rewrite ?updf_other in * by exact NE].

(* a transaction step on file t that keeps the collector's fields: the invariant's clauses for the other files *)
Ltac other_cov C u NE :=
  match goal with L : live _ = true, SW : _ = false |- _ =>
    destruct (C u L SW) as [A|[A|[A|A]]]; unfold covered; simpl; rewrite ?updf_other by exact NE; auto
  end.

Lemma gstep_inv w e w' : GInv w -> gstep w e = Some w' -> GInv w'.
Proof.
  intros I H. destruct e as [dt|t|t|t|t|t|t|timeout|t| |grace|t|n| ]; simpl in H.
  - (* Tick *)
    destruct (Z.leb_spec 0 dt); [|discriminate]. inversion H; subst w'; clear H.
    constructor; simpl; try apply I.
    intro NI. destruct (GI_cov w I NI) as [S C]. split; [lia|]. intros t L SW. destruct (C t L SW) as [A|[A|[A|A]]]; unfold covered; simpl; auto.
  - (* TMarkW *)
    destruct (g_tpc w t) eqn:PC; try discriminate. inversion H; subst w'; clear H. unfold with_tx.
    constructor; simpl; try apply I.
    + intros u M SW. tx_split u t; [reflexivity | apply (GI_mark w I u M SW)].
    + intro u. tx_split u t; [reflexivity | apply (GI_ref w I u)].
    + intros u L SW. tx_split u t; [discriminate | apply (GI_pres w I u L SW)].
    + intros u P. tx_split u t; [discriminate | apply (GI_only w I u P)].
    + intro NI. destruct (GI_cov w I NI) as [S C]. split; [exact S|]. intros u L SW.
      tx_split u t; [discriminate|]. other_cov C u NE.
    + intros u D. destruct (GI_del w I u D) as [A|A]; [left; exact A|]. tx_split u t; [congruence | right; exact A].
  - (* TDataW: the file is in place now *)
    destruct (g_tpc w t) eqn:PC; try discriminate. inversion H; subst w'; clear H. unfold with_tx.
    constructor; simpl; try apply I.
    + intros u M SW. tx_split u t; [apply (GI_mark w I t); [rewrite PC; reflexivity | exact SW] | apply (GI_mark w I u M SW)].
    + intro u. tx_split u t; [reflexivity | apply (GI_ref w I u)].
    + intros u L SW. tx_split u t; [reflexivity | apply (GI_pres w I u L SW)].
    + intros u P. tx_split u t; [left; reflexivity | apply (GI_only w I u P)].
    + intro NI. destruct (GI_cov w I NI) as [S C]. split; [exact S|]. intros u L SW.
      tx_split u t.
      * right. left. simpl. rewrite updf_same. exact S.
      * other_cov C u NE.
    + intros u D. destruct (GI_del w I u D) as [A|A]; [left; exact A|]. tx_split u t; [congruence | right; exact A].
  - (* TFlip *)
    destruct (g_tpc w t) eqn:PC; try discriminate. inversion H; subst w'; clear H. unfold with_tx.
    assert (Lt : live (g_tpc w t) = true) by (rewrite PC; reflexivity).
    constructor; simpl; try apply I.
    + intros u M SW. tx_split u t; [apply (GI_mark w I t); [rewrite PC; reflexivity | exact SW] | apply (GI_mark w I u M SW)].
    + intro u. tx_split u t; [reflexivity | apply (GI_ref w I u)].
    + intros u L SW. tx_split u t; [apply (GI_pres w I t Lt SW) | apply (GI_pres w I u L SW)].
    + intros u P. tx_split u t; [left; reflexivity | apply (GI_only w I u P)].
    + intro NI. destruct (GI_cov w I NI) as [S C]. split; [exact S|]. intros u L SW.
      tx_split u t.
      * destruct (C t Lt SW) as [A|[A|[[A1 A2]|A]]]; unfold covered; simpl; rewrite ?updf_same; auto.
      * other_cov C u NE.
    + intros u D. destruct (GI_del w I u D) as [A|A]; [left; exact A|]. tx_split u t; [congruence | right; exact A].
  - (* TMarkD *)
    destruct (g_tpc w t) eqn:PC; try discriminate. inversion H; subst w'; clear H. unfold with_tx.
    assert (Lt : live (g_tpc w t) = true) by (rewrite PC; reflexivity).
    constructor; simpl; try apply I.
    + intros u M SW. tx_split u t; [discriminate | apply (GI_mark w I u M SW)].
    + intro u. tx_split u t; [reflexivity | apply (GI_ref w I u)].
    + intros u L SW. tx_split u t; [apply (GI_pres w I t Lt SW) | apply (GI_pres w I u L SW)].
    + intros u P. tx_split u t; [left; reflexivity | apply (GI_only w I u P)].
    + intro NI. destruct (GI_cov w I NI) as [S C]. split; [exact S|]. intros u L SW.
      tx_split u t.
      * destruct (C t Lt SW) as [A|[A|[[A1 A2]|A]]]; unfold covered; simpl; rewrite ?updf_same; auto.
      * other_cov C u NE.
    + intros u D. destruct (GI_del w I u D) as [A|A]; [left; exact A|]. tx_split u t; [congruence | right; exact A].
  - (* TRollback *)
    assert (H' : Some (with_tx w t TRolled (g_mtime w t) false false false (g_mkmtime w t)) = Some w' /\ (g_tpc w t = TMarked \/ g_tpc w t = TWritten)).
    { destruct (g_tpc w t); try discriminate; auto. }
    destruct H' as [H' PC]. inversion H'; subst w'; clear H H'. unfold with_tx.
    constructor; simpl; try apply I.
    + intros u M SW. tx_split u t; [discriminate | apply (GI_mark w I u M SW)].
    + intro u. tx_split u t; [reflexivity | apply (GI_ref w I u)].
    + intros u L SW. tx_split u t; [discriminate | apply (GI_pres w I u L SW)].
    + intros u P. tx_split u t; [discriminate | apply (GI_only w I u P)].
    + intro NI. destruct (GI_cov w I NI) as [S C]. split; [exact S|]. intros u L SW.
      tx_split u t; [discriminate|]. other_cov C u NE.
    + intros u D. destruct (GI_del w I u D) as [A|A]; [left; exact A|]. tx_split u t; [destruct PC; congruence | right; exact A].
  - (* TAbandon: the owner drops the marker of a file it will never publish *)
    destruct (g_tpc w t) eqn:PC; try discriminate. inversion H; subst w'; clear H. unfold with_tx.
    constructor; simpl; try apply I.
    + intros u M SW. tx_split u t; [discriminate | apply (GI_mark w I u M SW)].
    + intro u. tx_split u t; [reflexivity | apply (GI_ref w I u)].
    + intros u L SW. tx_split u t; [discriminate | apply (GI_pres w I u L SW)].
    + intros u P. tx_split u t; [right; reflexivity | apply (GI_only w I u P)].
    + intro NI. destruct (GI_cov w I NI) as [S C]. split; [exact S|]. intros u L SW.
      tx_split u t; [discriminate|]. other_cov C u NE.
    + intros u D. tx_split u t; [right; reflexivity | apply (GI_del w I u D)].
  - (* GMarks: the run starts by loading the protection markers *)
    destruct (g_gpc w) eqn:GP; try discriminate. inversion H; subst w'; clear H. unfold with_gc.
    constructor; simpl; try apply I.
    + intros _. split; [lia|]. intros t L SW. unfold covered. simpl.
      destruct (g_tpc w t) eqn:PC; try discriminate.
      * left. apply (GI_mark w I t); [rewrite PC; reflexivity | exact SW].
      * left. apply (GI_mark w I t); [rewrite PC; reflexivity | exact SW].
      * right. right. left. split; [reflexivity|]. rewrite (GI_ref w I t), PC. reflexivity.
    + discriminate.
  - (* GSweep: a marker older than the abandonment timeout is deleted; its file is on its own from now on *)
    destruct (g_gpc w) eqn:GP; try discriminate.
    destruct (g_prot w t) eqn:PT; [|discriminate].
    destruct (gen_marker_action _) eqn:ACT; [discriminate|]. inversion H; subst w'; clear H.
    assert (NI : g_gpc w <> GIdle) by (rewrite GP; discriminate).
    destruct (GI_cov w I NI) as [S C].
    constructor; simpl; try apply I.
    + intros u M SW. tx_split u t; [discriminate | apply (GI_mark w I u M SW)].
    + intros u L SW. tx_split u t; [discriminate | apply (GI_pres w I u L SW)].
    + intros _. split; [exact S|]. intros u L SW. tx_split u t; [discriminate|].
      destruct (C u L SW) as [A|[A|[A|A]]]; rewrite ?GP in A; unfold covered; simpl; rewrite ?updf_other by exact NE; auto.
    + discriminate.
    + intros u D. destruct (GI_del w I u D) as [A|A]; [left|right; exact A]. tx_split u t; [reflexivity | exact A].
  - (* GMeta *)
    destruct (g_gpc w) eqn:GP; try discriminate. inversion H; subst w'; clear H. unfold with_gc.
    assert (NI : g_gpc w <> GIdle) by (rewrite GP; discriminate).
    destruct (GI_cov w I NI) as [S C].
    constructor; simpl; try apply I.
    + intros _. split; [exact S|]. intros t L SW. destruct (C t L SW) as [A|[A|[[A1 A2]|[[A1|A1] A2]]]]; unfold covered; simpl; auto.
      * right. right. right. split; [left; reflexivity | exact A2].
      * rewrite GP in A1. discriminate.
      * rewrite GP in A1. discriminate.
    + discriminate.
  - (* GList *)
    assert (NI : g_gpc w <> GIdle) by (destruct (g_gpc w); try discriminate).
    destruct (GI_cov w I NI) as [S C].
    assert (H' : (g_gpc w = GGotReach \/ g_gpc w = GListed) /\
                 (if g_now w - g_start w <? grace
                  then Some (with_gc w GListed (g_prot w) (g_reach w) (g_start w) (gen_sweep_cutoff (g_now w) grace) (g_present w) (g_mcut w) (g_orphans w))
                  else None) = Some w').
    { destruct (g_gpc w); try discriminate; auto. }
    destruct H' as [GP H']. destruct (Z.ltb_spec (g_now w - g_start w) grace); [|discriminate]. inversion H'; subst w'; clear H H'.
    unfold with_gc.
    constructor; simpl; try apply I.
    + intros _. split; [exact S|]. intros t L SW. destruct (C t L SW) as [A|[A|[[A1 A2]|[A1 A2]]]]; unfold covered; simpl; auto.
      * destruct GP as [G|G]; rewrite G in A1; discriminate.
      * right. right. right. split; [right; reflexivity | exact A2].
    + intros _. pose proof (sweep_cutoff_le (g_now w) grace). lia.
  - (* GDel: never enabled for a file a live transaction owns, unless its marker was abandoned *)
    destruct (g_gpc w) eqn:GP; try discriminate.
    destruct (g_listing w t && gen_delete_guard (g_reach w t || g_prot w t) (g_mtime w t) (g_cutoff w) && g_present w t) eqn:Guard; [|discriminate].
    inversion H; subst w'; clear H.
    apply andb_true_iff in Guard. destruct Guard as [Guard Pr].
    apply andb_true_iff in Guard. destruct Guard as [_ DG]. apply delete_guard_spec in DG. destruct DG as [Cov Mt].
    apply orb_false_iff in Cov. destruct Cov as [Nr Np].
    assert (NI : g_gpc w <> GIdle) by (rewrite GP; discriminate).
    destruct (GI_cov w I NI) as [S C]. pose proof (GI_cut w I GP) as Cut.
    assert (OK : g_swept w t = true \/ g_tpc w t = TOrphaned).
    { destruct (GI_only w I t Pr) as [L|O]; [|right; exact O].
      destruct (g_swept w t) eqn:SW; [left; reflexivity|]. exfalso.
      destruct (C t L SW) as [A|[A|[[A1 A2]|[A1 A2]]]]; try congruence; try lia. }
    constructor; simpl; try apply I.
    + intros u L SW. tx_split u t; [destruct OK as [A|A]; [congruence | rewrite A in L; discriminate] | apply (GI_pres w I u L SW)].
    + intros u P. tx_split u t; [discriminate | apply (GI_only w I u P)].
    + intros _. split; [exact S|]. intros u L SW. destruct (C u L SW) as [A|[A|[[A1 A2]|[A1 A2]]]]; unfold covered; simpl; auto.
      * rewrite GP in A1. discriminate.
      * right. right. right. split; [right; reflexivity | exact A2].
    + intros _. exact Cut.
    + intros u [E|D]; [subst u; exact OK | apply (GI_del w I u D)].
  - (* GDelOrphan *)
    destruct (g_gpc w) eqn:GP; try discriminate.
    destruct (existsb _ (g_orphans w)); [|discriminate]. inversion H; subst w'; clear H. unfold with_gc.
    constructor; simpl; try apply I.
    + intros _. assert (NI : g_gpc w <> GIdle) by (rewrite GP; discriminate).
      destruct (GI_cov w I NI) as [S C]. split; [exact S|]. intros t L SW. destruct (C t L SW) as [A|[A|[[A1 A2]|[A1 A2]]]]; unfold covered; simpl; auto.
      * rewrite GP in A1. discriminate.
      * right. right. right. split; [right; reflexivity | exact A2].
    + intros _. apply (GI_cut w I GP).
  - (* GEnd *)
    assert (H' : Some (with_gc w GIdle (g_prot w) (g_reach w) (g_start w) (g_cutoff w) (g_listing w) (g_mcut w) (g_orphans w)) = Some w').
    { destruct (g_gpc w); try discriminate; auto. }
    inversion H'; subst w'; clear H H'. unfold with_gc.
    constructor; simpl; try apply I.
    + intro X. contradiction.
    + discriminate.
Qed.

Lemma ginit_inv orph : GInv (ginit orph).
Proof.
  constructor; simpl; auto; try discriminate.
  intro X. contradiction.
Qed.

Lemma grun_inv w evs : GInv w -> GInv (grun w evs).
Proof.
  revert w. induction evs as [|e l IH]; intros w I; [exact I|].
  change (GInv (grun (gstep_skip w e) l)). apply IH. unfold gstep_skip.
  destruct (gstep w e) eqn:St; [eapply gstep_inv; eauto | exact I].
Qed.

(* C06: for every interleaving of collection runs (each lasting less than its grace period) with
   transactions that write (however slowly: any time may pass between a marker and its file), commit,
   retry (abandoning the manifests of the lost attempt) or roll back -- including transactions whose files
   are older than the grace period when they commit -- every file referenced by the committed table, and
   every file of a transaction still in flight, exists, and the collector deleted only files their owner
   had abandoned; for every file whose marker no run treated as older than the abandonment timeout. *)
Theorem gc_race_safe orph evs :
  let w := grun (ginit orph) evs in
  forall f, g_swept w f = false ->
    (g_ref w f = true -> g_present w f = true)
    /\ (g_tpc w f = TWritten -> g_present w f = true)
    /\ (In f (g_deleted w) -> g_tpc w f = TOrphaned).
Proof.
  intros w f SW. assert (I : GInv w) by (apply grun_inv; apply ginit_inv).
  split; [|split].
  - intros R. rewrite (GI_ref w I f) in R. apply (GI_pres w I f); [|exact SW]. destruct (g_tpc w f); try discriminate; reflexivity.
  - intros P. apply (GI_pres w I f); [rewrite P; reflexivity | exact SW].
  - intros D. destruct (GI_del w I f D) as [A|A]; [congruence | exact A].
Qed.

(* ---- a marker is treated as abandoned only when it is older than the abandonment timeout *)

Record SInv (T : Z) (w : gworld) : Prop := {
  SI_new : forall t, g_tpc w t = TNew -> g_marker w t = false /\ g_prot w t = false /\ g_swept w t = false;
  SI_run : g_gpc w <> GIdle -> g_start w <= g_now w /\ g_mcut w <= g_start w - T;
  SI_old : forall t, g_swept w t = true -> g_mkmtime w t + T < g_now w }.

Definition timeout_ok (T : Z) (e : gevent) : Prop := match e with GMarks timeout => T <= timeout | _ => True end.

Lemma gstep_sinv T w e w' : SInv T w -> timeout_ok T e -> gstep w e = Some w' -> SInv T w'.
Proof.
  intros I TO H. destruct e as [dt|t|t|t|t|t|t|timeout|t| |grace|t|n| ]; simpl in H.
  - destruct (Z.leb_spec 0 dt); [|discriminate]. inversion H; subst w'; clear H.
    constructor; simpl; try apply I.
    + intro NI. destruct (SI_run T w I NI). split; lia.
    + intros t SW. pose proof (SI_old T w I t SW). lia.
  - destruct (g_tpc w t) eqn:PC; try discriminate. inversion H; subst w'; clear H. unfold with_tx.
    destruct (SI_new T w I t PC) as [_ [_ NS]].
    constructor; simpl; try apply I.
    + intros u N. tx_split u t; [discriminate | apply (SI_new T w I u N)].
    + intros u SW. tx_split u t; [congruence | apply (SI_old T w I u SW)].
  - destruct (g_tpc w t) eqn:PC; try discriminate. inversion H; subst w'; clear H. unfold with_tx.
    constructor; simpl; try apply I.
    + intros u N. tx_split u t; [discriminate | apply (SI_new T w I u N)].
    + intros u SW. tx_split u t; apply (SI_old T w I _ SW).
  - destruct (g_tpc w t) eqn:PC; try discriminate. inversion H; subst w'; clear H. unfold with_tx.
    constructor; simpl; try apply I.
    + intros u N. tx_split u t; [discriminate | apply (SI_new T w I u N)].
    + intros u SW. tx_split u t; apply (SI_old T w I _ SW).
  - destruct (g_tpc w t) eqn:PC; try discriminate. inversion H; subst w'; clear H. unfold with_tx.
    constructor; simpl; try apply I.
    + intros u N. tx_split u t; [discriminate | apply (SI_new T w I u N)].
    + intros u SW. tx_split u t; apply (SI_old T w I _ SW).
  - assert (H' : Some (with_tx w t TRolled (g_mtime w t) false false false (g_mkmtime w t)) = Some w').
    { destruct (g_tpc w t); try discriminate; auto. }
    inversion H'; subst w'; clear H H'. unfold with_tx.
    constructor; simpl; try apply I.
    + intros u N. tx_split u t; [discriminate | apply (SI_new T w I u N)].
    + intros u SW. tx_split u t; apply (SI_old T w I _ SW).
  - destruct (g_tpc w t) eqn:PC; try discriminate. inversion H; subst w'; clear H. unfold with_tx.
    constructor; simpl; try apply I.
    + intros u N. tx_split u t; [discriminate | apply (SI_new T w I u N)].
    + intros u SW. tx_split u t; apply (SI_old T w I _ SW).
  - destruct (g_gpc w) eqn:GP; try discriminate. inversion H; subst w'; clear H. unfold with_gc.
    constructor; simpl; try apply I.
    + intros u N. destruct (SI_new T w I u N) as [A [_ B]]. auto.
    + intros _. simpl in TO. pose proof (marker_cutoff_le (g_now w) timeout). split; lia.
  - destruct (g_gpc w) eqn:GP; try discriminate.
    destruct (g_prot w t) eqn:PT; [|discriminate].
    destruct (gen_marker_action _) eqn:ACT; [discriminate|]. inversion H; subst w'; clear H.
    apply marker_sweep_old in ACT.
    assert (NI : g_gpc w <> GIdle) by (rewrite GP; discriminate).
    destruct (SI_run T w I NI) as [S M].
    constructor; simpl; try apply I.
    + intros u N. tx_split u t; [destruct (SI_new T w I t N) as [_ [A _]]; congruence | apply (SI_new T w I u N)].
    + intros _. split; assumption.
    + intros u SW. tx_split u t; [lia | apply (SI_old T w I u SW)].
  - destruct (g_gpc w) eqn:GP; try discriminate. inversion H; subst w'; clear H. unfold with_gc.
    assert (NI : g_gpc w <> GIdle) by (rewrite GP; discriminate).
    constructor; simpl; try apply I. intros _. apply (SI_run T w I NI).
  - assert (NI : g_gpc w <> GIdle) by (destruct (g_gpc w); try discriminate).
    assert (H' : (if g_now w - g_start w <? grace
                  then Some (with_gc w GListed (g_prot w) (g_reach w) (g_start w) (gen_sweep_cutoff (g_now w) grace) (g_present w) (g_mcut w) (g_orphans w))
                  else None) = Some w').
    { destruct (g_gpc w); try discriminate; auto. }
    destruct (g_now w - g_start w <? grace); [|discriminate]. inversion H'; subst w'; clear H H'. unfold with_gc.
    constructor; simpl; try apply I. intros _. apply (SI_run T w I NI).
  - destruct (g_gpc w) eqn:GP; try discriminate.
    destruct (_ && _ && _); [|discriminate]. inversion H; subst w'; clear H.
    assert (NI : g_gpc w <> GIdle) by (rewrite GP; discriminate).
    constructor; simpl; try apply I. intros _. apply (SI_run T w I NI).
  - destruct (g_gpc w) eqn:GP; try discriminate.
    destruct (existsb _ (g_orphans w)); [|discriminate]. inversion H; subst w'; clear H. unfold with_gc.
    assert (NI : g_gpc w <> GIdle) by (rewrite GP; discriminate).
    constructor; simpl; try apply I. intros _. apply (SI_run T w I NI).
  - assert (H' : Some (with_gc w GIdle (g_prot w) (g_reach w) (g_start w) (g_cutoff w) (g_listing w) (g_mcut w) (g_orphans w)) = Some w').
    { destruct (g_gpc w); try discriminate; auto. }
    inversion H'; subst w'; clear H H'. unfold with_gc.
    constructor; simpl; try apply I. intro X. contradiction.
Qed.

Lemma ginit_sinv T orph : SInv T (ginit orph).
Proof.
  constructor; simpl; auto; try discriminate. intro X. contradiction.
Qed.

Lemma grun_sinv T w evs : SInv T w -> Forall (timeout_ok T) evs -> SInv T (grun w evs).
Proof.
  revert w. induction evs as [|e l IH]; intros w I F; [exact I|].
  inversion F as [|x y TO F']; subst.
  change (SInv T (grun (gstep_skip w e) l)). apply IH; [|exact F']. unfold gstep_skip.
  destruct (gstep w e) eqn:St; [eapply gstep_sinv; eauto | exact I].
Qed.

(* For every interleaving whose collection runs all use an abandonment timeout of at least T: a file whose
   marker some run deleted as abandoned had a marker older than T -- its transaction was in flight for
   longer than T.  (So no marker of a transaction shorter than the abandonment timeout is ever swept,
   however long the write of its file takes and whatever the grace period is.) *)
Theorem swept_only_abandoned orph evs T :
  Forall (timeout_ok T) evs ->
  let w := grun (ginit orph) evs in
  forall f, g_swept w f = true -> g_mkmtime w f + T < g_now w.
Proof.
  intros F w f SW. apply (SI_old T w); [|exact SW]. apply grun_sinv; [apply ginit_sinv | exact F].
Qed.

(* ... and until then the marker of a file in flight is in place, whatever the collector does: *)
Theorem unswept_marker_kept orph evs :
  let w := grun (ginit orph) evs in
  forall f, g_swept w f = false -> (g_tpc w f = TMarked \/ g_tpc w f = TWritten \/ g_tpc w f = TFlipped) -> g_marker w f = true.
Proof.
  intros w f SW P. assert (I : GInv w) by (apply grun_inv; apply ginit_inv).
  apply (GI_mark w I f); [|exact SW]. destruct P as [P|[P|P]]; rewrite P; reflexivity.
Qed.
