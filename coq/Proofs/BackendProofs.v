(* Proofs/BackendProofs.v -- both backends refine the abstract store (Model/Backend.v). *)
From Coq Require Import List Bool Ascii String Arith ZArith Lia.
Require Import DS.Model.Str DS.Gen.GenS3 DS.Gen.GenRange DS.Model.Range DS.Model.Backend DS.Model.BackendTrace DS.Proofs.StrProofs DS.Proofs.RangeProofs.
Import ListNotations.
Local Arguments Ascii.eqb : simpl never.
Local Open Scope nat_scope.

(* ================================================================ generic list facts *)
Lemma filter_all_false : forall {A} (p : A -> bool) l, (forall x, In x l -> p x = false) -> filter p l = [].
Proof.
  induction l as [|a l IH]; intro H; simpl; [reflexivity|].
  rewrite (H a (or_introl eq_refl)). apply IH. intros x Hx. apply H. right. exact Hx.
Qed.

Lemma filter_all_true : forall {A} (p : A -> bool) l, (forall x, In x l -> p x = true) -> filter p l = l.
Proof.
  induction l as [|a l IH]; intro H; simpl; [reflexivity|].
  rewrite (H a (or_introl eq_refl)). f_equal. apply IH. intros x Hx. apply H. right. exact Hx.
Qed.

(* ================================================================ keys *)
Lemma key_eqb_eq : forall a b, key_eqb a b = true <-> a = b.
Proof.
  induction a as [|x a IH]; destruct b as [|y b]; simpl; split; intro H; try reflexivity; try discriminate.
  - apply andb_true_iff in H. destruct H as [H1 H2]. apply str_eqb_eq in H1. apply IH in H2. subst. reflexivity.
  - inversion H; subst. rewrite str_eqb_refl. simpl. apply IH. reflexivity.
Qed.

Lemma key_eqb_refl : forall a, key_eqb a a = true.
Proof. intro a. apply key_eqb_eq. reflexivity. Qed.

Lemma kmem_In : forall k l, kmem k l = true <-> In k l.
Proof.
  induction l as [|a l IH]; simpl; [split; [discriminate|tauto]|].
  rewrite orb_true_iff, IH, key_eqb_eq. split; intros [H|H]; auto.
Qed.

Lemma wf_seg_nonempty : forall s, wf_seg s -> s <> [].
Proof. intros s H E. subst. discriminate H. Qed.

Lemma wf_seg_noslash : forall s, wf_seg s -> noslash s.
Proof.
  intros s H Hin. unfold wf_seg, wf_segb in H. repeat (apply andb_true_iff in H; destruct H as [H ?]).
  assert (existsb (Ascii.eqb slash) s = true) as E.
  { apply existsb_exists. exists slash. split; [exact Hin|apply ascii_eqb_refl]. }
  rewrite E in *. discriminate.
Qed.

Lemma seg_head : forall s, wf_seg s -> exists c y, s = c :: y /\ c <> slash.
Proof.
  intros s H. pose proof (wf_seg_noslash s H) as Hn. destruct s as [|c y]; [discriminate H|].
  exists c, y. split; [reflexivity|]. intro E. apply Hn. left. congruence.
Qed.

Lemma seg_last : forall s, wf_seg s -> exists y c, s = y ++ [c] /\ c <> slash.
Proof.
  intros s H. pose proof (wf_seg_noslash s H) as Hn. destruct (exists_last (wf_seg_nonempty s H)) as [y [c E]].
  exists y, c. split; [exact E|]. intro Ec. apply Hn. rewrite E. apply in_or_app. right. left. congruence.
Qed.

Lemma join_head : forall k, Forall wf_seg k -> k <> [] -> exists c y, join k = c :: y /\ c <> slash.
Proof.
  intros k Hk Hne. destruct k as [|a k]; [contradiction|]. inversion Hk as [|? ? Ha Hk']; subst.
  destruct (seg_head a Ha) as [c [y [E Hc]]]. destruct k as [|b k].
  - exists c, y. split; [exact E|exact Hc].
  - rewrite join_cons2, E. exists c, (y ++ slash :: join (b :: k)). split; [reflexivity|exact Hc].
Qed.

Lemma join_last : forall k, Forall wf_seg k -> k <> [] -> exists y c, join k = y ++ [c] /\ c <> slash.
Proof.
  induction k as [|a k IH]; intros Hk Hne; [contradiction|]. inversion Hk as [|? ? Ha Hk']; subst.
  destruct k as [|b k].
  - apply seg_last. exact Ha.
  - destruct (IH Hk' ltac:(discriminate)) as [y [c [E Hc]]]. rewrite join_cons2, E.
    exists (a ++ slash :: y), c. split; [rewrite <- app_assoc; reflexivity|exact Hc].
Qed.

Lemma join_not_dirlike : forall k, wf_key k -> ends_with (join k) (lit "/") = false.
Proof.
  intros k [Hne Hk]. destruct (join_last k Hk Hne) as [y [c [E Hc]]]. rewrite E. change (lit "/") with [slash]. rewrite ends_with_snoc.
  destruct (Ascii.eqb slash c) eqn:Ec; [apply Ascii.eqb_eq in Ec; subst; contradiction|reflexivity].
Qed.

Lemma lstrip_join : forall k, Forall wf_seg k -> lstrip_slash (join k) = join k.
Proof.
  intros k Hk. destruct k as [|a k]; [reflexivity|].
  destruct (join_head (a :: k) Hk ltac:(discriminate)) as [c [y [E Hc]]]. rewrite E. apply lstrip_noslash. exact Hc.
Qed.

Lemma components_join : forall k, Forall wf_seg k -> components (join k) = k.
Proof.
  unfold components. induction k as [|a k IH]; intro Hk; [reflexivity|]. inversion Hk as [|? ? Ha Hk']; subst.
  destruct k as [|b k].
  - simpl. rewrite (split_acc_last a [] (wf_seg_noslash a Ha)). simpl.
    destruct a; [exfalso; exact (wf_seg_nonempty [] Ha eq_refl)|reflexivity].
  - rewrite join_cons2. rewrite (split_acc_seg a [] _ (wf_seg_noslash a Ha)). simpl rev. simpl app.
    rewrite (IH Hk'). destruct a; [exfalso; exact (wf_seg_nonempty [] Ha eq_refl)|reflexivity].
Qed.

Lemma join_inj : forall a b, Forall wf_seg a -> Forall wf_seg b -> join a = join b -> a = b.
Proof. intros a b Ha Hb E. rewrite <- (components_join a Ha), <- (components_join b Hb), E. reflexivity. Qed.

(* ---------------------------------------------------------------- directory confinement on strings *)
Lemma ltb_SS : forall n m, (S n <? S m)%nat = (n <? m)%nat.
Proof. reflexivity. Qed.

Lemma dir_prefix_under : forall d, Forall wf_seg d -> d <> [] -> forall k, Forall wf_seg k ->
  starts_with (join k) (join d ++ [slash]) = under d k.
Proof.
  induction d as [|a d IH]; intros Hd Hne k Hk; [contradiction|].
  inversion Hd as [|? ? Ha Hd']; subst. pose proof (wf_seg_noslash a Ha) as Na.
  destruct d as [|a2 d].
  - (* d = [a] *)
    change (join [a] ++ [slash]) with (a ++ slash :: []).
    destruct k as [|b k].
    + simpl join. rewrite starts_with_seg_short; [reflexivity|intros []].
    + inversion Hk as [|? ? Hb Hk']; subst. pose proof (wf_seg_noslash b Hb) as Nb. destruct k as [|c k].
      * simpl join. rewrite starts_with_seg_short by exact Nb. unfold under. simpl. rewrite andb_false_r. reflexivity.
      * rewrite join_cons2. rewrite starts_with_seg by assumption. unfold under. simpl.
        rewrite !andb_true_r. reflexivity.
  - (* d = a :: a2 :: d *)
    rewrite join_cons2. rewrite <- app_assoc. rewrite <- app_comm_cons.
    destruct k as [|b k].
    + simpl join. rewrite starts_with_seg_short; [reflexivity|intros []].
    + inversion Hk as [|? ? Hb Hk']; subst. pose proof (wf_seg_noslash b Hb) as Nb. destruct k as [|c k].
      * simpl join. rewrite starts_with_seg_short by exact Nb. unfold under. simpl. rewrite !andb_false_r. reflexivity.
      * rewrite join_cons2. rewrite starts_with_seg by assumption.
        rewrite (IH Hd' ltac:(discriminate) (c :: k) Hk'). unfold under.
        cbn [kprefix Datatypes.length]. rewrite ltb_SS. rewrite andb_assoc. reflexivity.
Qed.

(* ================================================================ the generated kernels *)
Definition root (pfx : str) : str := if nonempty pfx then pfx ++ [slash] else [].

Lemma lit_slash : lit "/" = [slash].
Proof. reflexivity. Qed.

Lemma get_key_join : forall pfx k, Forall wf_seg k -> gen_get_s3_key pfx (join k) = root pfx ++ join k.
Proof.
  intros pfx k Hk. unfold gen_get_s3_key, root. cbv zeta. rewrite (lstrip_join k Hk), lit_slash.
  destruct (nonempty pfx); [rewrite <- app_assoc; reflexivity|reflexivity].
Qed.

Lemma table_root_eq : forall pfx, table_root pfx = root pfx.
Proof. intro pfx. unfold table_root. change (@nil ascii) with (join []) at 1. rewrite (get_key_join pfx [] (Forall_nil _)). simpl. apply app_nil_r. Qed.

Lemma nonempty_snoc : forall (x : str) c, nonempty (x ++ [c]) = true.
Proof. destruct x; reflexivity. Qed.

Lemma list_prefix_join : forall pfx d, Forall wf_seg d ->
  gen_list_prefix pfx (join d) = match d with [] => root pfx | _ => root pfx ++ join d ++ [slash] end.
Proof.
  intros pfx d Hd. unfold gen_list_prefix. cbv zeta. rewrite (get_key_join pfx d Hd), lit_slash.
  destruct d as [|a d].
  - simpl join. rewrite app_nil_r. unfold root. destruct pfx as [|c p]; [reflexivity|].
    cbn [nonempty]. rewrite nonempty_snoc, ends_with_snoc, ascii_eqb_refl. reflexivity.
  - destruct (join_last (a :: d) Hd ltac:(discriminate)) as [y [c [E Hc]]]. rewrite E.
    rewrite (app_assoc (root pfx) y [c]). rewrite nonempty_snoc, ends_with_snoc.
    destruct (Ascii.eqb slash c) eqn:Ec; [apply Ascii.eqb_eq in Ec; subst; contradiction|].
    simpl. rewrite <- !app_assoc. reflexivity.
Qed.

Lemma strip_root : forall pfx x, gen_strip_prefix pfx (root pfx ++ x) = x.
Proof.
  intros pfx x. unfold gen_strip_prefix, root. rewrite lit_slash. destruct (nonempty pfx) eqn:E; [|reflexivity].
  rewrite starts_with_app. cbn [andb]. unfold drop.
  replace (Datatypes.length pfx + 1) with (Datatypes.length (pfx ++ [slash])) by (rewrite app_length; reflexivity).
  rewrite skipn_app, skipn_all, Nat.sub_diag. reflexivity.
Qed.

(* ================================================================ association lists under a key map *)
Section MapAssoc.
  Context {K K' V : Type} (eqb : K -> K -> bool) (eqb' : K' -> K' -> bool) (f : K -> K').
  Definition fm (kv : K * V) : K' * V := (f (fst kv), snd kv).

  Lemma lookup_map : forall k l, (forall k2, In k2 (map fst l) -> eqb' (f k) (f k2) = eqb k k2) ->
    lookup eqb' (f k) (map fm l) = lookup eqb k l.
  Proof.
    induction l as [|[k2 v] l IH]; intro H; simpl; [reflexivity|].
    rewrite (H k2 (or_introl eq_refl)). destruct (eqb k k2); [reflexivity|]. apply IH. intros k3 H3. apply H. right. exact H3.
  Qed.

  Lemma upsert_map : forall k v l, (forall k2, In k2 (map fst l) -> eqb' (f k) (f k2) = eqb k k2) ->
    upsert eqb' (f k) v (map fm l) = map fm (upsert eqb k v l).
  Proof.
    induction l as [|[k2 v2] l IH]; intro H; simpl; [reflexivity|].
    rewrite (H k2 (or_introl eq_refl)). destruct (eqb k k2); [reflexivity|]. simpl. f_equal. apply IH.
    intros k3 H3. apply H. right. exact H3.
  Qed.

  Lemma remove_map : forall k l, (forall k2, In k2 (map fst l) -> eqb' (f k) (f k2) = eqb k k2) ->
    remove eqb' (f k) (map fm l) = map fm (remove eqb k l).
  Proof.
    unfold remove. induction l as [|[k2 v2] l IH]; intro H; simpl; [reflexivity|].
    rewrite (H k2 (or_introl eq_refl)). destruct (eqb k k2); simpl.
    - apply IH. intros k3 H3. apply H. right. exact H3.
    - f_equal. apply IH. intros k3 H3. apply H. right. exact H3.
  Qed.
End MapAssoc.

Section AppAssoc.
  Context {K V : Type} (eqb : K -> K -> bool).

  Lemma lookup_app_foreign : forall k (F M : list (K * V)), (forall k2, In k2 (map fst F) -> eqb k k2 = false) ->
    lookup eqb k (F ++ M) = lookup eqb k M.
  Proof.
    induction F as [|[k2 v] F IH]; intros M H; simpl; [reflexivity|].
    rewrite (H k2 (or_introl eq_refl)). apply IH. intros k3 H3. apply H. right. exact H3.
  Qed.

  Lemma upsert_app_foreign : forall k v (F M : list (K * V)), (forall k2, In k2 (map fst F) -> eqb k k2 = false) ->
    upsert eqb k v (F ++ M) = F ++ upsert eqb k v M.
  Proof.
    induction F as [|[k2 v2] F IH]; intros M H; simpl; [reflexivity|].
    rewrite (H k2 (or_introl eq_refl)). f_equal. apply IH. intros k3 H3. apply H. right. exact H3.
  Qed.

  Lemma remove_app_foreign : forall k (F M : list (K * V)), (forall k2, In k2 (map fst F) -> eqb k k2 = false) ->
    remove eqb k (F ++ M) = F ++ remove eqb k M.
  Proof.
    intros k F M H. unfold remove. rewrite filter_app. f_equal. apply filter_all_true.
    intros [k2 v] Hin. simpl. rewrite (H k2); [reflexivity|]. apply in_map_iff. exists (k2, v). split; [reflexivity|exact Hin].
  Qed.

  Lemma remove_absent : forall k (l : list (K * V)), lookup eqb k l = None -> remove eqb k l = l.
  Proof.
    unfold remove. induction l as [|[k2 v] l IH]; intro H; simpl in *; [reflexivity|].
    destruct (eqb k k2); [discriminate|]. simpl. f_equal. apply IH. exact H.
  Qed.

  Lemma upsert_keys : forall k v (l : list (K * V)) x, In x (map fst (upsert eqb k v l)) -> x = k \/ In x (map fst l).
  Proof.
    induction l as [|[k2 v2] l IH]; intros x H; simpl in *.
    - destruct H as [H|[]]; left; congruence.
    - destruct (eqb k k2); simpl in H.
      + destruct H as [H|H]; [left; congruence|right; right; exact H].
      + destruct H as [H|H]; [right; left; exact H|]. destruct (IH x H) as [E|E]; [left; exact E|right; right; exact E].
  Qed.

  Lemma remove_keys : forall k (l : list (K * V)) x, In x (map fst (remove eqb k l)) -> In x (map fst l).
  Proof.
    intros k l x H. unfold remove in H. apply in_map_iff in H. destruct H as [[k2 v] [E H]]. apply filter_In in H.
    apply in_map_iff. exists (k2, v). tauto.
  Qed.
End AppAssoc.

Lemma has_In : forall k (l : store), has key_eqb k l = true -> In k (map fst l).
Proof.
  unfold has. induction l as [|[k2 v] l IH]; simpl; [discriminate|].
  destruct (key_eqb k k2) eqn:E; [intros _; left; apply key_eqb_eq in E; congruence|intro H; right; apply IH; exact H].
Qed.

(* ================================================================ S3 refines the spec *)
Section S3.
  Variable pfx : str.
  Variable F : bucket.
  Hypothesis HF : foreign_ok pfx F.

  Definition s3k (k : key) : str := root pfx ++ join k.
  Definition km : key * bytes -> str * bytes := fm s3k.
  Definition wf_store (st : store) : Prop := Forall (fun k => Forall wf_seg k) (map fst st).

  Lemma s3k_eqb : forall a b, Forall wf_seg a -> Forall wf_seg b -> str_eqb (s3k a) (s3k b) = key_eqb a b.
  Proof.
    intros a b Ha Hb. unfold s3k. destruct (key_eqb a b) eqn:E.
    - apply key_eqb_eq in E. subst. apply str_eqb_refl.
    - apply str_eqb_neq. intro H. apply app_inv_head in H. apply (join_inj a b Ha Hb) in H. subst.
      rewrite key_eqb_refl in E. discriminate.
  Qed.

  Lemma s3k_foreign : forall a k2, In k2 (map fst F) -> str_eqb (s3k a) k2 = false.
  Proof.
    intros a k2 Hin. apply str_eqb_neq. intro E. pose proof (HF k2 Hin) as H. rewrite table_root_eq in H.
    rewrite <- E in H. unfold s3k in H. rewrite starts_with_app in H. discriminate.
  Qed.

  Lemma eqb_on_store : forall st k, wf_store st -> Forall wf_seg k ->
    forall k2, In k2 (map fst st) -> str_eqb (s3k k) (s3k k2) = key_eqb k k2.
  Proof.
    intros st k Hst Hk k2 Hin. apply s3k_eqb; [exact Hk|]. unfold wf_store in Hst. rewrite Forall_forall in Hst. apply Hst. exact Hin.
  Qed.

  Lemma s3_lookup : forall st k, wf_store st -> Forall wf_seg k ->
    lookup str_eqb (s3k k) (F ++ map km st) = lookup key_eqb k st.
  Proof.
    intros st k Hst Hk. rewrite lookup_app_foreign by (intros; apply s3k_foreign; assumption).
    apply lookup_map. apply eqb_on_store; assumption.
  Qed.

  Lemma s3_upsert : forall st k v, wf_store st -> Forall wf_seg k ->
    upsert str_eqb (s3k k) v (F ++ map km st) = F ++ map km (upsert key_eqb k v st).
  Proof.
    intros st k v Hst Hk. rewrite upsert_app_foreign by (intros; apply s3k_foreign; assumption).
    f_equal. apply upsert_map. apply eqb_on_store; assumption.
  Qed.

  Lemma s3_remove : forall st k, wf_store st -> Forall wf_seg k ->
    remove str_eqb (s3k k) (F ++ map km st) = F ++ map km (remove key_eqb k st).
  Proof.
    intros st k Hst Hk. rewrite remove_app_foreign by (intros; apply s3k_foreign; assumption).
    f_equal. apply remove_map. apply eqb_on_store; assumption.
  Qed.

  (* the Prefix sent for list_files(d) selects exactly the keys strictly below d *)
  Lemma list_prefix_selects : forall d k, Forall wf_seg d -> Forall wf_seg k -> k <> [] ->
    starts_with (s3k k) (gen_list_prefix pfx (join d)) = under d k.
  Proof.
    intros d k Hd Hk Hne. rewrite (list_prefix_join pfx d Hd). unfold s3k. destruct d as [|a d].
    - rewrite starts_with_app. unfold under. destruct k; [contradiction|reflexivity].
    - rewrite starts_with_app_cancel. apply dir_prefix_under; [exact Hd|discriminate|exact Hk].
  Qed.

  Lemma list_prefix_foreign : forall d k2, Forall wf_seg d -> In k2 (map fst F) ->
    starts_with k2 (gen_list_prefix pfx (join d)) = false.
  Proof.
    intros d k2 Hd Hin. pose proof (HF k2 Hin) as H. rewrite table_root_eq in H.
    rewrite (list_prefix_join pfx d Hd). destruct d as [|a d]; [exact H|].
    destruct (starts_with k2 (root pfx ++ join (a :: d) ++ [slash])) eqn:E; [|reflexivity].
    apply starts_with_weaken in E. congruence.
  Qed.

  Definition wf_keys (st : store) : Prop := Forall wf_key (map fst st).

  Lemma wf_keys_store : forall st, wf_keys st -> wf_store st.
  Proof. intros st H. unfold wf_keys, wf_store in *. eapply Forall_impl; [|exact H]. intros k [_ Hk]. exact Hk. Qed.

  Lemma s3_listing : forall st d, wf_keys st -> Forall wf_seg d ->
    map (gen_strip_prefix pfx) (s3_list_objects (F ++ map km st) (gen_list_prefix pfx (join d)))
    = map join (filter (under d) (map fst st)).
  Proof.
    intros st d Hst Hd. unfold s3_list_objects. rewrite map_app, filter_app.
    rewrite (filter_all_false _ (map fst F)) by (intros; apply list_prefix_foreign; assumption).
    simpl. induction st as [|[k v] st IH]; [reflexivity|].
    inversion Hst as [|? ? [Hne Hk] Hst']; subst. cbn [map fst km fm snd filter].
    rewrite (list_prefix_selects d k Hd Hk Hne). destruct (under d k).
    - cbn [map]. unfold s3k at 1. rewrite strip_root. f_equal. apply IH. exact Hst'.
    - apply IH. exact Hst'.
  Qed.

  Lemma key_not_dirlike : forall k, wf_key k -> ends_with (s3k k) (lit "/") = false.
  Proof.
    intros k [Hne Hk]. destruct (join_last k Hk Hne) as [y [c [E Hc]]]. unfold s3k. rewrite E, app_assoc, lit_slash, ends_with_snoc.
    destruct (Ascii.eqb slash c) eqn:Ec; [apply Ascii.eqb_eq in Ec; subst; contradiction|reflexivity].
  Qed.

  Lemma code_read : str_eqb (lit "NoSuchKey") gen_code_read_notfound = true.
  Proof. reflexivity. Qed.
  Lemma code_exists : str_eqb (lit "404") gen_code_exists_notfound = true.
  Proof. reflexivity. Qed.
  Lemma code_size : str_eqb (lit "404") gen_code_size_notfound = true.
  Proof. reflexivity. Qed.
  Lemma code_mtime : str_eqb (lit "404") gen_code_mtime_notfound = true.
  Proof. reflexivity. Qed.

  Lemma code_open : str_eqb (lit "NoSuchKey") gen_code_open_notfound = true.
  Proof. reflexivity. Qed.
  Lemma code_readtag : str_eqb (lit "NoSuchKey") gen_code_readtag_notfound = true.
  Proof. reflexivity. Qed.

  (* open_seekable on a key that holds v: one HEAD answers v's size, the reader gets that size and the key's own
     S3 key, and every ranged GET is answered from v -- the reader over v itself.  (gen_open_size_path /
     gen_open_key are open_seekable's wiring as the source has it now.) *)
  Lemma s3_open_some : forall st k prog v, wf_store st -> Forall wf_seg k -> lookup key_eqb k st = Some v ->
    s3_open pfx (F ++ map km st) (join k) prog =
    (let '(os, final, rs) := run_rf v 0 prog in (OOpened os final, rs)).
  Proof.
    intros st k prog v Hs Hk El. unfold s3_open, s3_get_size, gen_open_size_path, gen_open_key.
    rewrite (get_key_join pfx k Hk). fold (s3k k). unfold s3_head_object. rewrite (s3_lookup st k Hs Hk), El.
    change (size_of v) with (zlen v). unfold run_rf.
    rewrite (run_rf_on_ext (zlen v) (s3_get_range (F ++ map km st) (s3k k)) (server_range v)); [reflexivity|].
    intros a b. unfold s3_get_range, s3_get_object. rewrite (s3_lookup st k Hs Hk), El. reflexivity.
  Qed.

  Lemma s3_open_none : forall st k prog, wf_store st -> Forall wf_seg k -> lookup key_eqb k st = None ->
    s3_open pfx (F ++ map km st) (join k) prog = (OErr NotFound, []).
  Proof.
    intros st k prog Hs Hk El. unfold s3_open, s3_get_size, gen_open_size_path.
    rewrite (get_key_join pfx k Hk). fold (s3k k). unfold s3_head_object. rewrite (s3_lookup st k Hs Hk), El.
    rewrite code_size. reflexivity.
  Qed.

  Lemma s3_sim_step : forall st o, wf_keys st -> wf_op o ->
    s3_step pfx (F ++ map km st) (map_op join o) = (F ++ map km (fst (spec_step st o)), snd (spec_step st o))
    /\ wf_keys (fst (spec_step st o)).
  Proof.
    intros st o Hst Ho. pose proof (wf_keys_store st Hst) as Hs.
    destruct o as [k v|k|k|d|k|k|k|k prog|k|k v|k]; cbn [map_op s3_step spec_step fst snd wf_op] in *;
      try (destruct Ho as [Hne Hk]; rewrite (get_key_join pfx k Hk); fold (s3k k)).
    - (* Write *)
      unfold s3_put_object. rewrite (s3_upsert st k v Hs Hk). split; [reflexivity|].
      unfold wf_keys. rewrite Forall_forall. intros x Hx. apply upsert_keys in Hx. destruct Hx as [->|Hx]; [split; assumption|].
      unfold wf_keys in Hst. rewrite Forall_forall in Hst. apply Hst. exact Hx.
    - (* Read *)
      unfold s3_get_object. rewrite (s3_lookup st k Hs Hk). split; [|exact Hst].
      destruct (lookup key_eqb k st); [reflexivity|]. rewrite code_read. reflexivity.
    - (* Exists *)
      unfold s3_head_object, has. rewrite (s3_lookup st k Hs Hk). split; [|exact Hst].
      destruct (lookup key_eqb k st); [reflexivity|]. rewrite code_exists. cbn [negb].
      rewrite (key_not_dirlike k (conj Hne Hk)). reflexivity.
    - (* ListDir *)
      rewrite (s3_listing st d Hst Ho). split; [reflexivity|exact Hst].
    - (* Delete *)
      unfold s3_delete_object. rewrite (s3_remove st k Hs Hk). split; [reflexivity|].
      unfold wf_keys. rewrite Forall_forall. intros x Hx. apply remove_keys in Hx.
      unfold wf_keys in Hst. rewrite Forall_forall in Hst. apply Hst. exact Hx.
    - (* Size *)
      destruct Ho as [Hne Hk]. unfold s3_get_size. rewrite (get_key_join pfx k Hk). fold (s3k k).
      unfold s3_head_object. rewrite (s3_lookup st k Hs Hk). split; [|exact Hst].
      destruct (lookup key_eqb k st); [reflexivity|]. rewrite code_size. reflexivity.
    - (* Mtime *)
      unfold s3_head_object. rewrite (s3_lookup st k Hs Hk). split; [|exact Hst].
      destruct (lookup key_eqb k st); [reflexivity|]. rewrite code_mtime. reflexivity.
    - (* Open *)
      destruct Ho as [[Hne Hk] Hprog]. split; [|exact Hst]. f_equal.
      destruct (lookup key_eqb k st) as [v|] eqn:El.
      + rewrite (s3_open_some st k prog v Hs Hk El). unfold file_obs.
        pose proof (range_equiv v prog Hprog) as Hr. destruct (run_rf v 0 prog) as [[os final] rs].
        destruct Hr as [Hf _]. rewrite Hf. reflexivity.
      + rewrite (s3_open_none st k prog Hs Hk El). reflexivity.
    - (* Stream *)
      unfold s3_get_object. rewrite (s3_lookup st k Hs Hk). split; [|exact Hst].
      destruct (lookup key_eqb k st); [reflexivity|]. rewrite code_open. reflexivity.
    - (* WriteCas: the tag just read matches, so the conditional PUT lands like a plain one *)
      cbv zeta. unfold s3_put_if, s3_get_object.
      replace (tag_matches _ _) with true
        by (destruct (lookup str_eqb (s3k k) (F ++ map km st)); cbn [tag_matches]; [rewrite str_eqb_refl|]; reflexivity).
      rewrite (s3_upsert st k v Hs Hk). split; [reflexivity|].
      unfold wf_keys. rewrite Forall_forall. intros x Hx. apply upsert_keys in Hx. destruct Hx as [->|Hx]; [split; assumption|].
      unfold wf_keys in Hst. rewrite Forall_forall in Hst. apply Hst. exact Hx.
    - (* ReadTag *)
      unfold s3_get_object. rewrite (s3_lookup st k Hs Hk). split; [|exact Hst].
      destruct (lookup key_eqb k st); [reflexivity|]. rewrite code_readtag. reflexivity.
  Qed.

  Lemma s3_sim_run : forall ops st, wf_keys st -> Forall wf_op ops ->
    snd (run (s3_step pfx) (F ++ map km st) (map (map_op join) ops)) = snd (run spec_step st ops).
  Proof.
    induction ops as [|o ops IH]; intros st Hst Hops; [reflexivity|].
    inversion Hops as [|? ? Ho Hops']; subst. cbn [map run].
    destruct (s3_sim_step st o Hst Ho) as [E Hst']. rewrite E.
    destruct (spec_step st o) as [st' ob] eqn:Es. cbn [fst snd] in *.
    specialize (IH st' Hst' Hops').
    destruct (run (s3_step pfx) (F ++ map km st') (map (map_op join) ops)) as [b2 os2].
    destruct (run spec_step st' ops) as [st2 os3]. cbn [snd] in *. congruence.
  Qed.
  (* ---- "requesting only in-range bytes": every ranged GET of every operation of every history names an object
     that exists in the bucket at that moment, within its size *)
  Lemma Forall_repeat : forall {X} (P : X -> Prop) x n, P x -> Forall P (repeat x n).
  Proof. intros X P x n H. apply Forall_forall. intros y Hy. apply repeat_spec in Hy. subst. exact H. Qed.

  Lemma s3_trace_ranges : forall page st o, wf_keys st -> wf_op o ->
    Forall (ranged_ok (F ++ map km st)) (s3_trace page pfx (F ++ map km st) (map_op join o)).
  Proof.
    intros page st o Hst Ho. pose proof (wf_keys_store st Hst) as Hs.
    destruct o as [k v|k|k|d|k|k|k|k prog|k|k v|k]; cbn [map_op s3_trace];
      try (apply Forall_repeat; exact I); try (repeat constructor; exact I).
    - (* Exists *)
      constructor; [exact I|]. destruct (has str_eqb _ _); [constructor|]. destruct (ends_with _ _); repeat constructor.
    - (* Open *)
      destruct Ho as [[Hne Hk] Hprog]. apply Forall_app. split; [apply Forall_repeat; exact I|].
      destruct (lookup key_eqb k st) as [v|] eqn:El.
      + rewrite (s3_open_some st k prog v Hs Hk El).
        pose proof (range_equiv v prog Hprog) as Hr. destruct (run_rf v 0 prog) as [[os final] rs].
        destruct Hr as [_ [Hr _]]. cbn [snd]. apply Forall_forall. intros r Hin. apply in_map_iff in Hin.
        destruct Hin as [[a b] [<- Hin]]. cbn [ranged_ok fst snd]. exists v. split.
        * unfold gen_open_key. rewrite (get_key_join pfx k Hk). fold (s3k k). rewrite (s3_lookup st k Hs Hk). exact El.
        * rewrite Forall_forall in Hr. exact (Hr (a, b) Hin).
      + rewrite (s3_open_none st k prog Hs Hk El). constructor.
    - (* WriteCas *)
      apply Forall_app. split; [apply Forall_repeat; exact I|repeat constructor].
  Qed.

  Lemma s3_ranges_run : forall page ops st, wf_keys st -> Forall wf_op ops ->
    ranges_in_objects page pfx (F ++ map km st) (map (map_op join) ops).
  Proof.
    intros page. induction ops as [|o ops IH]; intros st Hst Hops; [exact I|].
    inversion Hops as [|? ? Ho Hops']; subst. cbn [map ranges_in_objects]. split; [apply s3_trace_ranges; assumption|].
    destruct (s3_sim_step st o Hst Ho) as [E Hst']. rewrite E. cbn [fst]. apply IH; assumption.
  Qed.
End S3.

Theorem ranges_in_objects_all : forall (page : nat) (raw_prefix : str) (F : bucket) (ops : list (op key)),
  foreign_ok (gen_init_prefix raw_prefix) F -> Forall wf_op ops ->
  ranges_in_objects page (gen_init_prefix raw_prefix) F (map (map_op join) ops).
Proof.
  intros page raw F ops HF Hops.
  pose proof (s3_ranges_run (gen_init_prefix raw) F HF page ops [] (Forall_nil _) Hops) as H.
  simpl in H. rewrite app_nil_r in H. exact H.
Qed.

Theorem refine_s3 : forall (raw_prefix : str) (F : bucket) (ops : list (op key)),
  foreign_ok (gen_init_prefix raw_prefix) F -> Forall wf_op ops ->
  run_s3 raw_prefix F ops = run_spec ops.
Proof.
  intros raw F ops HF Hops. unfold run_s3, run_spec.
  pose proof (s3_sim_run (gen_init_prefix raw) F HF ops [] (Forall_nil _) Hops) as H.
  simpl in H. rewrite app_nil_r in H. exact H.
Qed.

(* ================================================================ local refines the spec *)
Lemma pp_under : forall k p, In p (proper_prefixes k) -> under p k = true.
Proof.
  induction k as [|a k IH]; intros p H; [destruct H|]. simpl in H. destruct k as [|b k]; [destruct H|].
  destruct H as [<-|H].
  - unfold under. simpl. rewrite str_eqb_refl. reflexivity.
  - apply in_map_iff in H. destruct H as [p' [<- Hp']]. specialize (IH p' Hp'). unfold under in *.
    cbn [kprefix Datatypes.length]. rewrite str_eqb_refl, ltb_SS. exact IH.
Qed.

Lemma under_pp : forall k d, under d k = true -> d = [] \/ In d (proper_prefixes k).
Proof.
  induction k as [|b k IH]; intros d H.
  - unfold under in H. destruct d; [left; reflexivity|discriminate].
  - destruct d as [|a d]; [left; reflexivity|]. right. unfold under in H. cbn [kprefix Datatypes.length] in H. rewrite ltb_SS in H.
    apply andb_true_iff in H. destruct H as [H Hl]. apply andb_true_iff in H. destruct H as [Hab Hp].
    apply str_eqb_eq in Hab. subst b.
    destruct (IH d) as [->|Hin]; [unfold under; rewrite Hp, Hl; reflexivity| |].
    + destruct k as [|c k]; [discriminate|]. left. reflexivity.
    + destruct k as [|c k]; [destruct Hin|]. right. apply in_map. exact Hin.
Qed.

Lemma add_dirs_In : forall ps dirs p, In p (add_dirs ps dirs) <-> In p ps \/ In p dirs.
Proof.
  induction ps as [|q ps IH]; intros dirs p; simpl; [tauto|]. rewrite IH.
  destruct (kmem q dirs) eqn:E.
  - apply kmem_In in E. split; [tauto|]. intros [[<-|H]|H]; auto.
  - rewrite in_app_iff. simpl. tauto.
Qed.

Definition dirs_ok (KS : list key) (dirs : list key) : Prop :=
  forall p, In p dirs -> exists k, In k KS /\ under p k = true.

Definition linv (KS : list key) (s : lstate) : Prop :=
  (forall k, In k (map fst (lfiles s)) -> In k KS)
  /\ dirs_ok KS (ldirs s)
  /\ (forall k p, In k (map fst (lfiles s)) -> In p (proper_prefixes k) -> In p (ldirs s)).

Section Local.
  Variable KS : list key.
  Hypothesis Hpf : prefix_free KS.

  Lemma no_dir : forall dirs k, dirs_ok KS dirs -> In k KS -> kmem k dirs = false.
  Proof.
    intros dirs k Hd Hk. destruct (kmem k dirs) eqn:E; [|reflexivity]. apply kmem_In in E.
    destruct (Hd k E) as [k' [Hk' Hu]]. rewrite (Hpf k k' Hk Hk') in Hu. discriminate.
  Qed.

  Lemma not_below_file : forall s k, linv KS s -> In k KS -> below_file s k = false.
  Proof.
    intros s k [Hf _] Hk. unfold below_file. destruct (existsb (is_file s) (proper_prefixes k)) eqn:E; [|reflexivity].
    apply existsb_exists in E. destruct E as [p [Hp Hfile]]. apply has_In in Hfile.
    pose proof (pp_under k p Hp) as Hu. rewrite (Hpf p k (Hf p Hfile) Hk) in Hu. discriminate.
  Qed.

  (* a probe may name ANY well-formed key: a written key, a directory of one, a path below one, or nothing *)
  Lemma local_sim_step : forall s o, linv KS s -> wf_op o -> (forall k, In k (op_written o) -> In k KS) ->
    exists dirs', local_step s o = ({| lfiles := fst (spec_step (lfiles s) o); ldirs := dirs' |}, snd (spec_step (lfiles s) o))
                  /\ linv KS {| lfiles := fst (spec_step (lfiles s) o); ldirs := dirs' |}.
  Proof.
    intros s o Hi Ho Hin. pose proof Hi as [Hf [Hd Hp]].
    destruct o as [k v|k|k|d|k|k|k|k prog|k|k v|k]; cbn [local_step spec_step fst snd wf_op op_written missing] in *;
      try (destruct Ho as [[Hne Hk] Hprog]);
      try (destruct Ho as [Hne Hk]).
    - (* Write *)
      pose proof (Hin k (or_introl eq_refl)) as HkKS.
      unfold local_write. rewrite (not_below_file s k Hi HkKS).
      set (dirs' := add_dirs (proper_prefixes k) (ldirs s)).
      assert (dirs_ok KS dirs') as Hd'.
      { intros p Hp'. apply add_dirs_In in Hp'. destruct Hp' as [Hp'|Hp']; [|apply Hd; exact Hp'].
        exists k. split; [exact HkKS|apply pp_under; exact Hp']. }
      assert (is_dir {| lfiles := lfiles s; ldirs := dirs' |} k = false) as E.
      { unfold is_dir. cbn [ldirs]. destruct k; [contradiction|]. apply no_dir; assumption. }
      rewrite E. exists dirs'. split; [reflexivity|]. split; [|split]; cbn [lfiles ldirs].
      + intros x Hx. apply upsert_keys in Hx. destruct Hx as [->|Hx]; [exact HkKS|apply Hf; exact Hx].
      + exact Hd'.
      + intros x p Hx Hpp. apply add_dirs_In. apply upsert_keys in Hx. destruct Hx as [->|Hx]; [left; exact Hpp|right; eapply Hp; eassumption].
    - (* Read *)
      exists (ldirs s). split; [|destruct s; exact Hi]. destruct s as [fs ds]. cbn [lfiles ldirs] in *.
      destruct (lookup key_eqb k fs); reflexivity.
    - (* Exists *)
      exists (ldirs s). split; [|destruct s; exact Hi]. destruct s; reflexivity.
    - (* ListDir *)
      exists (ldirs s). split; [|destruct s; exact Hi]. destruct (is_dir s d) eqn:E; [destruct s; reflexivity|].
      rewrite (filter_all_false (under d) (map fst (lfiles s))); [destruct s; reflexivity|].
      intros x Hx. destruct (under d x) eqn:Eu; [|reflexivity]. apply under_pp in Eu. destruct Eu as [->|Hpp]; [discriminate E|].
      pose proof (Hp x d Hx Hpp) as Hdir. unfold is_dir in E. destruct d; [discriminate|]. apply kmem_In in Hdir. congruence.
    - (* Delete *)
      unfold is_file, has. destruct (lookup key_eqb k (lfiles s)) eqn:El.
      + exists (ldirs s). split; [reflexivity|]. split; [|split]; cbn [lfiles ldirs].
        * intros x Hx. apply remove_keys in Hx. apply Hf. exact Hx.
        * exact Hd.
        * intros x p Hx Hpp. apply remove_keys in Hx. eapply Hp; eassumption.
      + rewrite (remove_absent key_eqb k (lfiles s) El).
        exists (ldirs s). split; [destruct s; reflexivity|destruct s; exact Hi].
    - (* Size *)
      exists (ldirs s). split; [|destruct s; exact Hi]. destruct s as [fs ds]. cbn [lfiles ldirs] in *.
      destruct (lookup key_eqb k fs); reflexivity.
    - (* Mtime *)
      exists (ldirs s). split; [|destruct s; exact Hi]. destruct s as [fs ds]. cbn [lfiles ldirs] in *.
      destruct (lookup key_eqb k fs); reflexivity.
    - (* Open *)
      exists (ldirs s). split; [|destruct s; exact Hi]. destruct s as [fs ds]. cbn [lfiles ldirs] in *.
      destruct (lookup key_eqb k fs); reflexivity.
    - (* Stream *)
      exists (ldirs s). split; [|destruct s; exact Hi]. destruct s as [fs ds]. cbn [lfiles ldirs] in *.
      destruct (lookup key_eqb k fs); reflexivity.
    - (* WriteCas: a plain write on a backend without CAS *)
      pose proof (Hin k (or_introl eq_refl)) as HkKS.
      unfold local_write. rewrite (not_below_file s k Hi HkKS).
      set (dirs' := add_dirs (proper_prefixes k) (ldirs s)).
      assert (dirs_ok KS dirs') as Hd'.
      { intros p Hp'. apply add_dirs_In in Hp'. destruct Hp' as [Hp'|Hp']; [|apply Hd; exact Hp'].
        exists k. split; [exact HkKS|apply pp_under; exact Hp']. }
      assert (is_dir {| lfiles := lfiles s; ldirs := dirs' |} k = false) as E.
      { unfold is_dir. cbn [ldirs]. destruct k; [contradiction|]. apply no_dir; assumption. }
      rewrite E. exists dirs'. split; [reflexivity|]. split; [|split]; cbn [lfiles ldirs].
      + intros x Hx. apply upsert_keys in Hx. destruct Hx as [->|Hx]; [exact HkKS|apply Hf; exact Hx].
      + exact Hd'.
      + intros x p Hx Hpp. apply add_dirs_In. apply upsert_keys in Hx. destruct Hx as [->|Hx]; [left; exact Hpp|right; eapply Hp; eassumption].
    - (* ReadTag *)
      exists (ldirs s). split; [|destruct s; exact Hi]. destruct s as [fs ds]. cbn [lfiles ldirs] in *.
      destruct (lookup key_eqb k fs); reflexivity.
  Qed.

  Lemma map_op_components_join : forall o, wf_op o -> map_op components (map_op join o) = o.
  Proof.
    intros o Ho. destruct o; cbn [map_op wf_op] in *; try (destruct Ho as [[_ Ho] _]); try destruct Ho as [_ Ho];
      rewrite (components_join _ Ho); reflexivity.
  Qed.

  Lemma local_step_str_join : forall s o, wf_op o -> local_step_str s (map_op join o) = local_step s o.
  Proof.
    intros s o Ho. unfold local_step_str. pose proof (map_op_components_join o Ho) as E.
    destruct o; cbn [map_op] in *; try (rewrite E; reflexivity).
    (* Exists: a canonical key is never spelled as a directory *)
    cbn [wf_op] in Ho. rewrite (join_not_dirlike _ Ho). injection E as E. rewrite E. reflexivity.
  Qed.

  Lemma local_sim_run : forall ops s, linv KS s -> Forall wf_op ops -> (forall o k, In o ops -> In k (op_written o) -> In k KS) ->
    snd (run local_step_str s (map (map_op join) ops)) = snd (run spec_step (lfiles s) ops).
  Proof.
    induction ops as [|o ops IH]; intros s Hi Hops Hks; [reflexivity|].
    inversion Hops as [|? ? Ho Hops']; subst. cbn [map run].
    rewrite (local_step_str_join s o Ho).
    destruct (local_sim_step s o Hi Ho (fun k Hk => Hks o k (or_introl eq_refl) Hk)) as [dirs' [E Hi']]. rewrite E.
    destruct (spec_step (lfiles s) o) as [st' ob] eqn:Es. cbn [fst snd] in *.
    specialize (IH _ Hi' Hops' (fun o' k Ho' Hk => Hks o' k (or_intror Ho') Hk)). cbn [lfiles] in IH.
    destruct (run local_step_str {| lfiles := st'; ldirs := dirs' |} (map (map_op join) ops)) as [s2 os2].
    destruct (run spec_step st' ops) as [st2 os3]. cbn [snd] in *. congruence.
  Qed.
End Local.

Theorem refine_local : forall (ops : list (op key)),
  Forall wf_op ops -> prefix_free (written_keys ops) -> run_local ops = run_spec ops.
Proof.
  intros ops Hops Hpf. unfold run_local, run_spec.
  apply (local_sim_run (written_keys ops) Hpf ops linit).
  - split; [intros k []|split; [intros p []|intros k p []]].
  - exact Hops.
  - intros o k Ho Hk. unfold written_keys. apply in_flat_map. exists o. split; assumption.
Qed.

(* ================================================================ open_seekable after any history *)
Lemma run_app : forall {S E} (step : S -> E -> S * obs) es1 es2 s,
  run step s (es1 ++ es2) =
  (fst (run step (fst (run step s es1)) es2), snd (run step s es1) ++ snd (run step (fst (run step s es1)) es2)).
Proof.
  intros S E step. induction es1 as [|e es1 IH]; intros es2 s; cbn [app run].
  - cbn [fst snd app]. destruct (run step s es2); reflexivity.
  - destruct (step s e) as [s' o]. rewrite IH. destruct (run step s' es1) as [s1 os1]. cbn [fst snd].
    destruct (run step s1 es2) as [s2 os2]. reflexivity.
Qed.

(* the store the contract holds after a history *)
Definition spec_store (ops : list (op key)) : store := fst (run spec_step [] ops).

(* open_seekable(k) on the S3 backend after ANY history on it (writes, overwrites, deletes, earlier opens, ...):
   a reader indistinguishable from a plain file over the content k holds NOW, and FileNotFoundError exactly when
   k holds nothing now -- nothing the backend saw earlier (a previous size, a previous existence) shows through *)
Theorem open_after_history : forall (raw_prefix : str) (F : bucket) (ops : list (op key)) (k : key) (prog : list rop),
  foreign_ok (gen_init_prefix raw_prefix) F -> Forall wf_op ops -> wf_key k -> Forall wf_rop prog ->
  run_s3 raw_prefix F (ops ++ [Open k prog]) =
  run_spec ops ++ [match lookup key_eqb k (spec_store ops) with Some v => file_obs v prog | None => OErr NotFound end].
Proof.
  intros raw F ops k prog HF Hops Hk Hprog. rewrite refine_s3; [|exact HF|].
  - unfold run_spec, spec_store. rewrite run_app. reflexivity.
  - apply Forall_app. split; [exact Hops|]. constructor; [split; assumption|constructor].
Qed.

Theorem backends_agree : forall (raw_prefix : str) (F : bucket) (ops : list (op key)),
  foreign_ok (gen_init_prefix raw_prefix) F -> Forall wf_op ops -> prefix_free (written_keys ops) ->
  run_s3 raw_prefix F ops = run_local ops.
Proof. intros. rewrite refine_s3, refine_local by assumption. reflexivity. Qed.

(* ================================================================ decidable hypotheses *)
Lemma wf_keyb_sound : forall k, wf_keyb k = true -> wf_key k.
Proof.
  intros k H. destruct k as [|a k]; [discriminate|]. split; [discriminate|].
  unfold wf_keyb in H. rewrite forallb_forall in H. apply Forall_forall. exact H.
Qed.

Lemma wf_opb_sound : forall o, wf_opb o = true -> wf_op o.
Proof.
  intros o H. destruct o; cbn [wf_opb wf_op] in *; try (apply wf_keyb_sound; exact H).
  - rewrite forallb_forall in H. apply Forall_forall. exact H.
  - apply andb_true_iff in H. destruct H as [Hk Hp]. split; [apply wf_keyb_sound; exact Hk|].
    rewrite forallb_forall in Hp. apply Forall_forall. intros x Hx. specialize (Hp x Hx).
    destruct x; cbn [wf_ropb wf_rop] in *; try exact I. apply Z.leb_le. exact Hp.
Qed.

Lemma wf_opsb_sound : forall ops, forallb wf_opb ops = true -> Forall wf_op ops.
Proof. intros ops H. rewrite forallb_forall in H. apply Forall_forall. intros o Ho. apply wf_opb_sound. apply H. exact Ho. Qed.

Lemma prefix_freeb_sound : forall ks, prefix_freeb ks = true -> prefix_free ks.
Proof.
  intros ks H a b Ha Hb. unfold prefix_freeb in H. rewrite forallb_forall in H. specialize (H a Ha).
  rewrite forallb_forall in H. specialize (H b Hb). apply negb_true_iff in H. exact H.
Qed.

Lemma foreign_okb_sound : forall pfx F, foreign_okb pfx F = true -> foreign_ok pfx F.
Proof.
  intros pfx F H k Hk. unfold foreign_okb in H. rewrite forallb_forall in H. specialize (H k Hk).
  apply negb_true_iff in H. exact H.
Qed.

(* ================================================================ table-absolute spelling ("/data/x") *)
Definition abs_join (n : nat) (k : key) : str := repeat slash n ++ join k.

Definition op_segs (o : op key) : key :=
  match o with Write k _ | Read k | Exists k | ListDir k | Delete k | Size k | Mtime k | Open k _ | Stream k | WriteCas k _ | ReadTag k => k end.

Lemma lstrip_abs : forall n k, Forall wf_seg k -> lstrip_slash (abs_join n k) = join k.
Proof.
  unfold abs_join. induction n as [|n IH]; intros k Hk; [apply lstrip_join; exact Hk|].
  cbn [repeat app lstrip_slash]. rewrite ascii_eqb_refl. apply IH. exact Hk.
Qed.

Lemma get_key_abs : forall pfx n k, Forall wf_seg k -> gen_get_s3_key pfx (abs_join n k) = gen_get_s3_key pfx (join k).
Proof. intros pfx n k Hk. unfold gen_get_s3_key. cbv zeta. rewrite (lstrip_abs n k Hk), (lstrip_join k Hk). reflexivity. Qed.

Lemma components_abs : forall n k, Forall wf_seg k -> components (abs_join n k) = k.
Proof.
  unfold abs_join, components. induction n as [|n IH]; intros k Hk; [apply components_join; exact Hk|].
  cbn [repeat app split_acc]. rewrite ascii_eqb_refl. apply IH. exact Hk.
Qed.

Lemma abs_join_not_dirlike : forall n k, wf_key k -> ends_with (abs_join n k) (lit "/") = false.
Proof.
  intros n k [Hne Hk]. destruct (join_last k Hk Hne) as [y [c [E Hc]]]. unfold abs_join. rewrite E, app_assoc. change (lit "/") with [slash].
  rewrite ends_with_snoc. destruct (Ascii.eqb slash c) eqn:Ec; [apply Ascii.eqb_eq in Ec; subst; contradiction|reflexivity].
Qed.

Lemma wf_op_segs : forall o, wf_op o -> Forall wf_seg (op_segs o).
Proof. intros o Ho. destruct o; cbn [wf_op op_segs] in *; try exact Ho; try (destruct Ho as [_ Ho]; exact Ho). destruct Ho as [[_ Ho] _]. exact Ho. Qed.

(* both backends treat any number of leading slashes as the same key, for every operation *)
Theorem leading_slash_same : forall pfx (b : bucket) (s : lstate) (n : nat) (o : op key), wf_op o ->
  s3_step pfx b (map_op (abs_join n) o) = s3_step pfx b (map_op join o)
  /\ local_step_str s (map_op (abs_join n) o) = local_step_str s (map_op join o).
Proof.
  intros pfx b s n o Hw. pose proof (wf_op_segs o Hw) as Ho. split.
  - destruct o; cbn [map_op s3_step op_segs] in *; unfold gen_list_prefix, s3_open, s3_get_size, gen_open_key, gen_open_size_path;
      rewrite ?(get_key_abs pfx n _ Ho); reflexivity.
  - unfold local_step_str. destruct o; cbn [map_op op_segs wf_op] in *;
      rewrite ?(abs_join_not_dirlike n _ Hw), ?(join_not_dirlike _ Hw), (components_abs n _ Ho), (components_join _ Ho); reflexivity.
Qed.
