(* Proofs/FLockProofs.v -- invariants of the FileLock/flock model (C19, local lock). *)
From Coq Require Import ZArith NArith Lia List Bool.
Require Import DS.Model.FLock.
Import ListNotations.
Open Scope Z_scope.

Lemma upd_same {A} (f : N -> A) k v : upd f k v k = v.
Proof. unfold upd. rewrite N.eqb_refl. reflexivity. Qed.

Lemma upd_other {A} (f : N -> A) k v x : x <> k -> upd f k v x = f x.
Proof. unfold upd. intro H. destruct (N.eqb_spec x k); [contradiction|reflexivity]. Qed.

Lemma option_eq_dec_cid (a : option cid) (c : cid) : {a = Some c} + {a <> Some c}.
Proof.
  destruct a as [c'|]; [|right; discriminate].
  destruct (N.eq_dec c' c); [left; congruence|right; congruence].
Qed.

Definition pc_fd (p : fpc) : option ofd :=
  match p with PFlock fd | PCloseFail fd => Some fd | _ => None end.

Definition releasing (p : fpc) : bool :=
  match p with PRelUnlock | PRelClose => true | _ => false end.

Definition in_loop (p : fpc) : bool :=
  match p with POpen | PFlock _ | PCloseFail _ | PCheck | PSleep _ => true | _ => false end.

(* the kernel assumption: an exclusive flock is granted on an inode only if nobody else holds it *)
Definition flock_excl (grant : option ofd -> ofd -> bool) : Prop :=
  forall h o, grant h o = true -> h = None \/ h = Some o.
(* ... and a free inode is granted (used only for the death/liveness theorem) *)
Definition flock_free (grant : option ofd -> ofd -> bool) : Prop :=
  forall o, grant None o = true.

Lemma kernel_grant_excl : flock_excl kernel_grant.
Proof.
  intros [o'|] o H; simpl in H; [|auto]. right. apply N.eqb_eq in H. subst. reflexivity.
Qed.

Lemma kernel_grant_free : flock_free kernel_grant.
Proof. intro o. reflexivity. Qed.

Record inv (s : fstate) : Prop := {
  I_ofd : forall o c i, ofdt s o = Some (c, i) -> (o < next_fd s)%N /\ names s = Some i;
  I_holder : forall i o, holder s i = Some o -> exists c, ofdt s o = Some (c, i);
  I_lock : forall c, alive (cl s c) = true -> locked (cl s c) = true ->
           exists fd i, lock_fd (cl s c) = Some fd /\ ofdt s fd = Some (c, i)
                        /\ (pc (cl s c) <> PRelClose -> holder s i = Some fd);
  I_pcfd : forall c fd, alive (cl s c) = true -> pc_fd (pc (cl s c)) = Some fd ->
           (exists i, ofdt s fd = Some (c, i)) /\ forall i, holder s i <> Some fd;
  I_rel : forall c, releasing (pc (cl s c)) = true -> locked (cl s c) = true
}.

Lemma inv_init : inv finit.
Proof.
  constructor; simpl; intros; try discriminate.
Qed.

Section Step.
Variable grant : option ofd -> ofd -> bool.
Variable poll : Z.
Hypothesis Hexcl : flock_excl grant.

Ltac eqc c0 c := destruct (N.eq_dec c0 c) as [->|?]; [rewrite ?upd_same in *|rewrite ?upd_other in * by assumption].

Lemma drop_holder_id s fd i : (forall j, holder s j <> Some fd) -> drop_holder s fd i = holder s i.
Proof.
  intro H. unfold drop_holder. destruct (holder s i) as [o|] eqn:E; [|reflexivity].
  destruct (N.eqb_spec o fd); [subst; exfalso; eapply H; eauto|reflexivity].
Qed.

Lemma drop_holder_some s fd i o : drop_holder s fd i = Some o -> holder s i = Some o /\ o <> fd.
Proof.
  unfold drop_holder. destruct (holder s i) as [o'|]; [|discriminate].
  destruct (N.eqb_spec o' fd); [discriminate|]. intro H; inversion H; subst; auto.
Qed.

(* a step of a client that only changes its own record, leaving lock/pc-fd facts intact *)
Lemma inv_client_only s c x o r :
  inv s ->
  alive x = alive (cl s c) -> locked x = locked (cl s c) -> lock_fd x = lock_fd (cl s c) ->
  (pc (cl s c) = PRelClose -> pc x = PRelClose) ->
  (forall fd, pc_fd (pc x) = Some fd -> pc_fd (pc (cl s c)) = Some fd) ->
  (releasing (pc x) = true -> locked x = true) ->
  inv (with_client s c x o r).
Proof.
  intros [I1 I2 I3 I4 I5] Ha Hl Hf Hp Hq Hr. constructor; simpl.
  - exact I1.
  - exact I2.
  - intros c0 A L. eqc c0 c.
    + rewrite Ha in A. rewrite Hl in L. destruct (I3 c A L) as [fd [i [F [O Hh]]]].
      exists fd, i. rewrite Hf. repeat split; auto.
    + apply I3; auto.
  - intros c0 fd A P. eqc c0 c.
    + rewrite Ha in A. apply I4; auto.
    + apply I4; auto.
  - intros c0 R. eqc c0 c; auto.
Qed.

Lemma inv_logged s o : inv s -> inv (logged s o).
Proof. intros [I1 I2 I3 I4 I5]. constructor; simpl; auto. Qed.

Lemma inv_with_now s t : inv s -> inv (with_now s t).
Proof. intros [I1 I2 I3 I4 I5]. constructor; simpl; auto. Qed.

Lemma inv_step s ev : ev <> EUnlink -> inv s -> inv (fstep grant poll s ev).
Proof.
  intros Hne I. destruct ev as [c b tmo|c|c|c|d|cs|]; simpl; try congruence.
  - (* ECallAcquire *)
    destruct (alive (cl s c)) eqn:A; [|apply inv_logged; auto].
    destruct (pc (cl s c)) eqn:P; try (apply inv_logged; auto).
    apply inv_client_only; simpl; auto; try discriminate; try congruence.
  - (* ECallRelease *)
    destruct (alive (cl s c)) eqn:A; [|apply inv_logged; auto].
    destruct (pc (cl s c)) eqn:P; try (apply inv_logged; auto).
    destruct (locked (cl s c)) eqn:L; [|apply inv_logged; auto].
    destruct (lock_fd (cl s c)) eqn:F; [|apply inv_logged; auto].
    apply inv_client_only; simpl; auto; try discriminate; try congruence.
  - (* EStep *)
    destruct (alive (cl s c)) eqn:A; [|apply inv_logged; auto].
    destruct (pc (cl s c)) as [| | |fd|fd| |u| |] eqn:P.
    + apply inv_logged; auto.
    + (* PStart *) apply inv_client_only; simpl; auto; try discriminate; try congruence.
    + (* POpen *)
      unfold k_open. destruct I as [I1 I2 I3 I4 I5].
      assert (Hfresh : forall j, holder s j <> Some (next_fd s)).
      { intros j Hj. destruct (I2 _ _ Hj) as [c' Hc']. apply I1 in Hc'. lia. }
      assert (Hnone : ofdt s (next_fd s) = None).
      { destruct (ofdt s (next_fd s)) as [[c' i']|] eqn:E; [|reflexivity]. apply I1 in E. lia. }
      destruct (names s) as [i|] eqn:Nm; constructor; simpl.
      * intros o c0 i0 H. unfold upd in H. destruct (N.eqb_spec o (next_fd s)).
        -- inversion H; subst. split; [lia|reflexivity].
        -- apply I1 in H. split; [lia|tauto].
      * intros i0 o H. destruct (I2 _ _ H) as [c' Hc']. exists c'. rewrite upd_other; auto.
        intro; subst. rewrite Hnone in Hc'. discriminate.
      * intros c0 A0 L0. eqc c0 c; simpl in *.
        -- destruct (I3 c A0 L0) as [fd [i0 [F [O Hh]]]]. exists fd, i0. repeat split; auto.
           ++ rewrite upd_other; auto. intro; subst. rewrite Hnone in O. discriminate.
           ++ intros _. apply Hh. rewrite P. discriminate.
        -- destruct (I3 c0 A0 L0) as [fd [i0 [F [O Hh]]]]. exists fd, i0. repeat split; auto.
           rewrite upd_other; auto. intro; subst. rewrite Hnone in O. discriminate.
      * intros c0 fd A0 P0. eqc c0 c; simpl in *.
        -- inversion P0; subst. split; [exists i; apply upd_same|apply Hfresh].
        -- destruct (I4 c0 fd A0 P0) as [[i0 O] Hh]. split; auto. exists i0. rewrite upd_other; auto.
           intro; subst. rewrite Hnone in O. discriminate.
      * intros c0 R. eqc c0 c; simpl in *; [discriminate|auto].
      * intros o c0 i0 H. unfold upd in H. destruct (N.eqb_spec o (next_fd s)).
        -- inversion H; subst. split; [lia|reflexivity].
        -- apply I1 in H. destruct H as [_ H]. congruence.
      * intros i0 o H. destruct (I2 _ _ H) as [c' Hc']. exists c'. rewrite upd_other; auto.
        intro; subst. rewrite Hnone in Hc'. discriminate.
      * intros c0 A0 L0. destruct (I3 c0) as [fd [i0 [F [O Hh]]]].
        { eqc c0 c; auto. } { eqc c0 c; auto. }
        apply I1 in O. destruct O as [_ O]. congruence.
      * intros c0 fd A0 P0. eqc c0 c; simpl in *.
        -- inversion P0; subst. split; [eexists; apply upd_same|apply Hfresh].
        -- destruct (I4 c0 fd A0 P0) as [[i0 O] Hh]. apply I1 in O. destruct O as [_ O]. congruence.
      * intros c0 R. eqc c0 c; simpl in *; [discriminate|auto].
    + (* PFlock fd *)
      pose proof I as [I1 I2 I3 I4 I5].
      destruct (I4 c fd A) as [[i Oi] Hnh]; [rewrite P; reflexivity|].
      unfold k_flock. rewrite Oi.
      destruct (grant (holder s i) fd) eqn:G.
      * (* granted *)
        destruct (Hexcl _ _ G) as [Hfree|Hmine]; [|exfalso; eapply Hnh; eauto].
        assert (Hnames : names s = Some i) by (apply I1 in Oi; tauto).
        constructor; simpl.
        -- exact I1.
        -- intros i0 o H. unfold upd in H. destruct (N.eqb_spec i0 i).
           ++ inversion H; subst. eauto.
           ++ apply I2; auto.
        -- intros c0 A0 L0. eqc c0 c; simpl in *.
           ++ exists fd, i. repeat split; auto. intros _. apply upd_same.
           ++ destruct (I3 c0 A0 L0) as [fd0 [i0 [F [O Hh]]]].
              exists fd0, i0. repeat split; auto. intro Hp. specialize (Hh Hp).
              assert (i0 = i) by (apply I1 in O; destruct O as [_ O]; congruence). subst.
              congruence.
        -- intros c0 fd0 A0 P0. eqc c0 c; simpl in *; [discriminate|].
           destruct (I4 c0 fd0 A0 P0) as [[i0 O] Hh]. split; eauto.
           intros j Hj. unfold upd in Hj. destruct (N.eqb_spec j i).
           ++ inversion Hj; subst. rewrite Oi in O. inversion O; subst. contradiction.
           ++ eapply Hh; eauto.
        -- intros c0 R. eqc c0 c; simpl in *; [discriminate|auto].
      * (* refused *)
        apply inv_client_only; simpl; auto; try discriminate; try congruence.
        -- intros fd0 H. inversion H; subst. rewrite P. reflexivity.
    + (* PCloseFail fd *)
      pose proof I as [I1 I2 I3 I4 I5].
      destruct (I4 c fd A) as [[i Oi] Hnh]; [rewrite P; reflexivity|].
      assert (Hlk : locked (cl s c) = true -> lock_fd (cl s c) <> Some fd).
      { intros L F. destruct (I3 c A L) as [fd0 [i0 [F0 [O Hh]]]]. rewrite F in F0. inversion F0; subst.
        eapply Hnh. apply Hh. rewrite P. discriminate. }
      assert (Hinv : forall x, alive x = true -> locked x = locked (cl s c) -> lock_fd x = lock_fd (cl s c) ->
                               pc x = PCheck \/ pc x = PIdle ->
                               forall o r, inv (with_client (k_close s fd) c x o r)).
      { intros x Ax Lx Fx Px o r. constructor; simpl.
        - intros o0 c0 i0 H. unfold upd in H. destruct (N.eqb_spec o0 fd); [discriminate|]. eapply I1; eauto.
        - intros i0 o0 H. rewrite drop_holder_id in H by assumption.
          destruct (I2 _ _ H) as [c' Hc']. exists c'. rewrite upd_other; auto.
          intro; subst. eapply Hnh; eauto.
        - intros c0 A0 L0. eqc c0 c.
          + rewrite Lx in L0. destruct (I3 c A L0) as [fd0 [i0 [F [O Hh]]]]. exists fd0, i0.
            rewrite Fx. repeat split; auto.
            * rewrite upd_other; auto. intro; subst. apply (Hlk L0). assumption.
            * intros _. rewrite drop_holder_id by assumption. apply Hh. rewrite P. discriminate.
          + destruct (I3 c0 A0 L0) as [fd0 [i0 [F [O Hh]]]]. exists fd0, i0. repeat split; auto.
            * rewrite upd_other; auto. intro; subst. rewrite Oi in O. inversion O. congruence.
            * intros Hp. rewrite drop_holder_id by assumption. auto.
        - intros c0 fd0 A0 P0. eqc c0 c.
          + destruct Px as [Px|Px]; rewrite Px in P0; discriminate.
          + destruct (I4 c0 fd0 A0 P0) as [[i0 O] Hh]. split.
            * exists i0. rewrite upd_other; auto. intro; subst. rewrite Oi in O. inversion O. congruence.
            * intros j. rewrite drop_holder_id by assumption. apply Hh.
        - intros c0 R. eqc c0 c; auto. destruct Px as [Px|Px]; rewrite Px in R; discriminate. }
      unfold after_failed_attempt. destruct (blocking (cl s c)); apply Hinv; simpl; auto.
    + (* PCheck *)
      destruct (now s >=? deadline (cl s c)); apply inv_client_only; simpl; auto; try discriminate; try congruence.
    + (* PSleep *)
      apply inv_client_only; simpl; auto; try discriminate; try congruence. apply inv_with_now; auto.
    + (* PRelUnlock *)
      pose proof I as [I1 I2 I3 I4 I5].
      assert (L : locked (cl s c) = true) by (apply I5; rewrite P; reflexivity).
      destruct (I3 c A L) as [fd [i [F [O Hh]]]]. rewrite F.
      constructor; simpl.
      * exact I1.
      * intros i0 o H. apply drop_holder_some in H. destruct H as [H _]. apply I2; auto.
      * intros c0 A0 L0. eqc c0 c; simpl in *.
        -- exists fd, i. repeat split; auto. intros Hc; congruence.
        -- destruct (I3 c0 A0 L0) as [fd0 [i0 [F0 [O0 Hh0]]]]. exists fd0, i0. repeat split; auto.
           intro Hp. specialize (Hh0 Hp). unfold drop_holder. rewrite Hh0.
           destruct (N.eqb_spec fd0 fd); [subst; rewrite O in O0; inversion O0; congruence|reflexivity].
      * intros c0 fd0 A0 P0. eqc c0 c; simpl in *; [discriminate|].
        destruct (I4 c0 fd0 A0 P0) as [[i0 O0] Hh0]. split; eauto.
        intros j Hj. apply drop_holder_some in Hj. destruct Hj as [Hj _]. eapply Hh0; eauto.
      * intros c0 R. eqc c0 c; simpl in *; auto.
    + (* PRelClose *)
      pose proof I as [I1 I2 I3 I4 I5].
      assert (L : locked (cl s c) = true) by (apply I5; rewrite P; reflexivity).
      destruct (I3 c A L) as [fd [i [F [O Hh]]]]. rewrite F.
      constructor; simpl.
      * intros o0 c0 i0 H. unfold upd in H. destruct (N.eqb_spec o0 fd); [discriminate|]. eapply I1; eauto.
      * intros i0 o H. apply drop_holder_some in H. destruct H as [H Hn].
        destruct (I2 _ _ H) as [c' Hc']. exists c'. rewrite upd_other; auto.
      * intros c0 A0 L0. eqc c0 c; simpl in *; [discriminate|].
        destruct (I3 c0 A0 L0) as [fd0 [i0 [F0 [O0 Hh0]]]].
        assert (fd0 <> fd) by (intro; subst; rewrite O in O0; inversion O0; congruence).
        exists fd0, i0. repeat split; auto.
        -- rewrite upd_other; auto.
        -- intro Hp. specialize (Hh0 Hp). unfold drop_holder. rewrite Hh0.
           destruct (N.eqb_spec fd0 fd); [contradiction|reflexivity].
      * intros c0 fd0 A0 P0. eqc c0 c; simpl in *; [discriminate|].
        destruct (I4 c0 fd0 A0 P0) as [[i0 O0] Hh0]. split.
        -- exists i0. rewrite upd_other; auto. intro; subst. rewrite O in O0. inversion O0; congruence.
        -- intros j Hj. apply drop_holder_some in Hj. destruct Hj as [Hj _]. eapply Hh0; eauto.
      * intros c0 R. eqc c0 c; simpl in *; [discriminate|auto].
  - (* EOpenErr *)
    destruct (alive (cl s c)) eqn:A; [|apply inv_logged; auto].
    destruct (pc (cl s c)) eqn:P; try (apply inv_logged; auto).
    unfold after_failed_attempt. destruct (blocking (cl s c));
      apply inv_client_only; simpl; auto; try discriminate; try congruence.
  - (* ETick *)
    apply inv_logged. apply inv_with_now. auto.
  - (* EDie *)
    destruct I as [I1 I2 I3 I4 I5]. unfold k_die. constructor; simpl.
    + intros o c0 i0 H. destruct (ofdt s o) as [[c' i']|] eqn:E; [|discriminate].
      destruct (memN c' cs); [discriminate|]. inversion H; subst. eapply I1; eauto.
    + intros i0 o H. destruct (holder s i0) as [o'|] eqn:E; [|discriminate].
      destruct (I2 _ _ E) as [c' Hc']. rewrite Hc' in H.
      destruct (memN c' cs) eqn:M; [discriminate|]. inversion H; subst.
      exists c'. rewrite Hc', M. reflexivity.
    + intros c0 A0 L0. destruct (memN c0 cs) eqn:M; [simpl in A0; discriminate|].
      destruct (I3 c0 A0 L0) as [fd [i [F [O Hh]]]]. exists fd, i. rewrite O, M. repeat split; auto.
      intro Hp. rewrite (Hh Hp), O, M. reflexivity.
    + intros c0 fd A0 P0. destruct (memN c0 cs) eqn:M; [simpl in A0; discriminate|].
      destruct (I4 c0 fd A0 P0) as [[i O] Hh]. split.
      * exists i. rewrite O, M. reflexivity.
      * intros j Hj. destruct (holder s j) as [o'|] eqn:E; [|discriminate].
        destruct (ofdt s o') as [[c' i']|]; [destruct (memN c' cs); [discriminate|]|];
          inversion Hj; subst; eapply Hh; eauto.
    + intros c0 R. destruct (memN c0 cs); simpl in *; auto.
Qed.

Lemma inv_run evs : forall s, no_unlink evs -> inv s -> inv (frun grant poll s evs).
Proof.
  induction evs as [|ev evs IH]; intros s Hn I; simpl; auto.
  apply IH.
  - intro H. apply Hn. right. exact H.
  - apply inv_step; auto. intro; subst. apply Hn. left. reflexivity.
Qed.

(* ---- C19_flock_mutex ---- *)
Lemma holding_owns s c : inv s -> holding s c ->
  exists fd i, names s = Some i /\ lock_fd (cl s c) = Some fd /\ ofdt s fd = Some (c, i) /\ holder s i = Some fd.
Proof.
  intros I [A [L P]]. destruct (I_lock s I c A L) as [fd [i [F [O Hh]]]].
  exists fd, i. repeat split; auto. apply (I_ofd s I) in O. tauto.
Qed.

Lemma mutex_of_inv s c1 c2 : inv s -> holding s c1 -> holding s c2 -> c1 = c2.
Proof.
  intros I H1 H2.
  destruct (holding_owns s c1 I H1) as [fd1 [i1 [N1 [_ [O1 Hh1]]]]].
  destruct (holding_owns s c2 I H2) as [fd2 [i2 [N2 [_ [O2 Hh2]]]]].
  rewrite N1 in N2. inversion N2; subst. rewrite Hh1 in Hh2. inversion Hh2; subst.
  rewrite O1 in O2. inversion O2. reflexivity.
Qed.

Theorem flock_mutex : forall evs, no_unlink evs ->
  let s := frun grant poll finit evs in
  (forall c1 c2, holding s c1 -> holding s c2 -> c1 = c2)
  /\ (forall c, holding s c -> exists fd i, names s = Some i /\ lock_fd (cl s c) = Some fd
                                         /\ ofdt s fd = Some (c, i) /\ holder s i = Some fd).
Proof.
  intros evs Hn s. assert (I : inv s) by (apply inv_run; [assumption|apply inv_init]).
  split.
  - intros c1 c2. apply mutex_of_inv; auto.
  - intros c. apply holding_owns; auto.
Qed.

(* ---- C19_flock_same_inode ---- *)
(* only EUnlink removes the directory entry *)
Lemma names_stable s ev i : ev <> EUnlink -> names s = Some i -> names (fstep grant poll s ev) = Some i.
Proof.
  intros Hne Hn. destruct ev as [c b tmo|c|c|c|d|cs|]; simpl; try congruence;
    repeat match goal with
           | |- context [if ?b then _ else _] => destruct b
           | |- context [match ?x with _ => _ end] => destruct x eqn:?
           end; simpl; auto;
    try (unfold k_open in *; rewrite Hn in *; repeat match goal with H : (_, _) = (_, _) |- _ => inversion H; clear H; subst end; simpl; auto; fail);
    try (unfold k_flock in *; repeat match goal with
           | H : context [match ?x with _ => _ end] |- _ => destruct x eqn:?
           | H : context [if ?b then _ else _] |- _ => destruct b
           | H : (_, _) = (_, _) |- _ => inversion H; clear H; subst end; simpl; auto; fail).
Qed.

Theorem flock_same_inode : forall evs, no_unlink evs ->
  let s := frun grant poll finit evs in
  forall o1 o2 c1 c2 i1 i2, ofdt s o1 = Some (c1, i1) -> ofdt s o2 = Some (c2, i2) ->
    i1 = i2 /\ names s = Some i1.
Proof.
  intros evs Hn s o1 o2 c1 c2 i1 i2 H1 H2.
  assert (I : inv s) by (apply inv_run; [assumption|apply inv_init]).
  apply (I_ofd s I) in H1. apply (I_ofd s I) in H2. destruct H1 as [_ H1]. destruct H2 as [_ H2].
  split; [congruence|assumption].
Qed.

(* ---- C19_flock_death ---- *)
Theorem flock_death : flock_free grant -> forall evs cs c w fd, no_unlink evs ->
  let s := frun grant poll finit evs in
  holding s c -> In c cs ->
  let s' := fstep grant poll s (EDie cs) in
  (forall i, names s' = Some i -> holder s' i = None)
  /\ (alive (cl s' w) = true -> pc (cl s' w) = PFlock fd ->
      let s'' := fstep grant poll s' (EStep w) in
      holding s'' w /\ res (cl s'' w) = ROk /\ forall w', holding s'' w' -> w' = w).
Proof.
  intros Hfree evs cs c w fd Hn s Hc Hin s'.
  assert (I : inv s) by (apply inv_run; [assumption|apply inv_init]).
  assert (I' : inv s') by (apply inv_step; [discriminate|assumption]).
  destruct (holding_owns s c I Hc) as [fdc [i [Nm [F [O Hh]]]]].
  assert (M : memN c cs = true).
  { unfold memN. apply existsb_exists. exists c. split; auto. apply N.eqb_refl. }
  assert (Hnone : forall j, names s' = Some j -> holder s' j = None).
  { intros j Hj. simpl in Hj. rewrite Nm in Hj. inversion Hj; subst j. simpl. rewrite Hh, O, M. reflexivity. }
  split; [exact Hnone|].
  intros Aw Pw s''.
  destruct (I_pcfd s' I' w fd Aw) as [[j Oj] Hnh]; [rewrite Pw; reflexivity|].
  assert (Nj : names s' = Some j) by (apply (I_ofd s' I') in Oj; tauto).
  assert (I'' : inv s'') by (apply inv_step; [discriminate|assumption]).
  assert (Hw : holding s'' w /\ res (cl s'' w) = ROk).
  { unfold s''. clearbody s'. simpl fstep. rewrite Aw, Pw. unfold k_flock. rewrite Oj, (Hnone j Nj), Hfree.
    unfold holding. simpl. rewrite upd_same. simpl. repeat split; auto. discriminate. }
  destruct Hw as [Hw Hr]. split; [exact Hw|split; [exact Hr|]].
  intros w' Hw'. eapply mutex_of_inv; eauto.
Qed.

(* ---- C19_flock_timeout ---- *)
Lemma now_mono s ev : now s <= now (fstep grant poll s ev).
Proof.
  destruct ev as [c b tmo|c|c|c|d|cs|]; simpl;
    repeat match goal with
           | |- context [if ?b then _ else _] => destruct b
           | |- context [match ?x with _ => _ end] => destruct x eqn:?
           end; simpl; try lia;
    try (unfold k_open in *; repeat match goal with
           | H : context [match ?x with _ => _ end] |- _ => destruct x eqn:?
           | H : (_, _) = (_, _) |- _ => inversion H; clear H; subst end; simpl; lia);
    try (unfold k_flock in *; repeat match goal with
           | H : context [match ?x with _ => _ end] |- _ => destruct x eqn:?
           | H : context [if ?b then _ else _] |- _ => destruct b
           | H : (_, _) = (_, _) |- _ => inversion H; clear H; subst end; simpl; lia).
Qed.

(* everything of a client record except `alive` *)
Definition same_prog (x y : fclient) : Prop :=
  pc x = pc y /\ locked x = locked y /\ timeout x = timeout y /\ deadline x = deadline y /\ res x = res y
  /\ start x = start y /\ last_read x = last_read y /\ prev_read x = prev_read y
  /\ ret_time x = ret_time y /\ maxgap x = maxgap y /\ iters x = iters y.

Lemma same_prog_refl x : same_prog x x.
Proof. repeat split. Qed.

Definition actor (ev : fevent) : option cid :=
  match ev with
  | ECallAcquire c _ _ | ECallRelease c | EStep c | EOpenErr c => Some c
  | _ => None
  end.

Lemma cl_logged s o c : cl (logged s o) c = cl s c.
Proof. reflexivity. Qed.

Lemma step_other s ev c : actor ev <> Some c -> same_prog (cl (fstep grant poll s ev) c) (cl s c).
Proof.
  intro Ha. destruct ev as [c0 b tmo|c0|c0|c0|d|cs|]; simpl in *;
    try (assert (Hc : c <> c0) by congruence);
    try apply same_prog_refl.
  - destruct (alive (cl s c0)); [|apply same_prog_refl].
    destruct (pc (cl s c0)); simpl; rewrite ?upd_other by assumption; apply same_prog_refl.
  - destruct (alive (cl s c0)); [|apply same_prog_refl].
    destruct (pc (cl s c0)); simpl; try apply same_prog_refl.
    destruct (locked (cl s c0)); [|apply same_prog_refl].
    destruct (lock_fd (cl s c0)); simpl; rewrite ?upd_other by assumption; apply same_prog_refl.
  - destruct (alive (cl s c0)); [|apply same_prog_refl].
    destruct (pc (cl s c0)); simpl; try apply same_prog_refl.
    + rewrite upd_other by assumption. apply same_prog_refl.
    + unfold k_open. destruct (names s); simpl; rewrite upd_other by assumption; apply same_prog_refl.
    + unfold k_flock. destruct (ofdt s fd) as [[? ?]|]; [destruct (grant _ _)|]; simpl;
        rewrite upd_other by assumption; apply same_prog_refl.
    + unfold after_failed_attempt. destruct (blocking _); simpl; rewrite upd_other by assumption; apply same_prog_refl.
    + destruct (_ >=? _); simpl; rewrite upd_other by assumption; apply same_prog_refl.
    + rewrite upd_other by assumption. apply same_prog_refl.
    + destruct (lock_fd _); simpl; rewrite ?upd_other by assumption; apply same_prog_refl.
    + destruct (lock_fd _); simpl; rewrite ?upd_other by assumption; apply same_prog_refl.
  - destruct (alive (cl s c0)); [|apply same_prog_refl].
    destruct (pc (cl s c0)); simpl; try apply same_prog_refl.
    unfold after_failed_attempt. destruct (blocking _); simpl; rewrite upd_other by assumption; apply same_prog_refl.
  - destruct (memN c cs); [|apply same_prog_refl]. repeat split.
Qed.

Record tinv (s : fstate) (c : cid) : Prop := {
  T_dead : in_loop (pc (cl s c)) = true -> deadline (cl s c) = start (cl s c) + timeout (cl s c);
  T_last : in_loop (pc (cl s c)) = true -> last_read (cl s c) <= Z.max (start (cl s c)) (deadline (cl s c));
  T_iter : in_loop (pc (cl s c)) = true -> start (cl s c) + iters (cl s c) * poll <= now s;
  T_sleep : forall u, pc (cl s c) = PSleep u ->
            start (cl s c) + iters (cl s c) * poll + poll <= u /\ iters (cl s c) * poll < timeout (cl s c);
  T_bound : 0 < iters (cl s c) -> (iters (cl s c) - 1) * poll < timeout (cl s c);
  T_ret : res (cl s c) = RTimeout ->
          deadline (cl s c) = start (cl s c) + timeout (cl s c)
          /\ deadline (cl s c) <= ret_time (cl s c)
          /\ ret_time (cl s c) <= Z.max (start (cl s c)) (deadline (cl s c)) + maxgap (cl s c)
}.

Lemma tinv_init c : tinv finit c.
Proof. constructor; simpl; intros; try discriminate; lia. Qed.

Lemma tinv_same s s' c : same_prog (cl s' c) (cl s c) -> now s <= now s' -> tinv s c -> tinv s' c.
Proof.
  intros (E1 & E2 & E3 & E4 & E5 & E6 & E7 & E8 & E9 & E10 & E11) Hm [T1 T2 T3 T4 T5 T6].
  constructor; rewrite ?E1, ?E3, ?E4, ?E5, ?E6, ?E7, ?E8, ?E9, ?E10, ?E11; auto.
  intro H. specialize (T3 H). lia.
Qed.

Lemma tinv_step s ev c : tinv s c -> tinv (fstep grant poll s ev) c.
Proof.
  intro T. pose proof (now_mono s ev) as Hm.
  destruct (option_eq_dec_cid (actor ev) c) as [Ha|Ha];
    [|apply (tinv_same s); auto; apply step_other; auto].
  destruct T as [T1 T2 T3 T4 T5 T6].
  destruct ev as [c0 b tmo|c0|c0|c0|d|cs|]; simpl in Ha; try discriminate; inversion Ha; subst c0; clear Ha.
  - (* ECallAcquire *)
    simpl. destruct (alive (cl s c)); [|constructor; simpl; auto].
    destruct (pc (cl s c)) eqn:P; try (constructor; simpl; rewrite ?P; auto; fail).
    constructor; simpl; rewrite ?upd_same; simpl; intros; try discriminate; lia.
  - (* ECallRelease *)
    simpl. destruct (alive (cl s c)); [|constructor; simpl; auto].
    destruct (pc (cl s c)) eqn:P; try (constructor; simpl; rewrite ?P; auto; fail).
    destruct (locked (cl s c)); [|constructor; simpl; rewrite ?P; auto].
    destruct (lock_fd (cl s c)); [|constructor; simpl; rewrite ?P; auto].
    constructor; simpl; rewrite ?upd_same; simpl; intros; try discriminate; auto.
  - (* EStep *)
    simpl in *. destruct (alive (cl s c)); [|constructor; simpl; auto].
    destruct (pc (cl s c)) as [| | |fd|fd| |u| |] eqn:P; simpl in *.
    + constructor; simpl; rewrite ?P; auto.
    + constructor; simpl; rewrite ?upd_same; simpl; intros; try discriminate; try lia.
    + unfold k_open. destruct (names s); simpl;
        (constructor; simpl; rewrite ?upd_same; simpl; intros; try discriminate; auto).
    + unfold k_flock. destruct (ofdt s fd) as [[? ?]|]; [destruct (grant _ _)|]; simpl;
        (constructor; simpl; rewrite ?upd_same; simpl; intros; try discriminate; auto).
    + unfold after_failed_attempt. destruct (blocking _); simpl;
        (constructor; simpl; rewrite ?upd_same; simpl; intros; try discriminate; auto).
    + specialize (T1 eq_refl). specialize (T2 eq_refl). specialize (T3 eq_refl).
      destruct (Z.geb_spec (now s) (deadline (cl s c))) as [Hge|Hlt]; simpl;
        (constructor; simpl; rewrite ?upd_same; simpl; intros; try discriminate; auto; try lia).
      inversion H; subst. lia.
    + destruct (T4 u eq_refl) as [Hu Hb]. specialize (T1 eq_refl). specialize (T2 eq_refl).
      constructor; simpl; rewrite ?upd_same; simpl; intros; try discriminate; auto; try lia.
    + destruct (lock_fd _); simpl;
        (constructor; simpl; rewrite ?upd_same, ?P; simpl; intros; try discriminate; auto).
    + destruct (lock_fd _); simpl;
        (constructor; simpl; rewrite ?upd_same, ?P; simpl; intros; try discriminate; auto).
  - (* EOpenErr *)
    simpl. destruct (alive (cl s c)); [|constructor; simpl; auto].
    destruct (pc (cl s c)) eqn:P; try (constructor; simpl; rewrite ?P; auto; fail).
    simpl in *. unfold after_failed_attempt. destruct (blocking _); simpl;
      (constructor; simpl; rewrite ?upd_same; simpl; intros; try discriminate; auto).
Qed.

Lemma tinv_run evs : forall s c, tinv s c -> tinv (frun grant poll s evs) c.
Proof. induction evs as [|ev evs IH]; intros s c T; simpl; auto. apply IH. apply tinv_step. exact T. Qed.

Theorem flock_timeout : forall evs c,
  let s := frun grant poll finit evs in
  let x := cl s c in
  (res x = RTimeout ->
     deadline x = start x + timeout x /\ deadline x <= ret_time x
     /\ ret_time x <= Z.max (start x) (start x + timeout x) + maxgap x)
  /\ (0 < iters x -> (iters x - 1) * poll < timeout x)
  /\ (forall u, pc x = PSleep u -> start x + (iters x + 1) * poll <= u /\ iters x * poll < timeout x).
Proof.
  intros evs c s x. assert (T : tinv s c) by (apply tinv_run; apply tinv_init).
  destruct T as [T1 T2 T3 T4 T5 T6]. repeat split.
  - apply T6; auto.
  - apply T6; auto.
  - destruct (T6 H) as (E & _ & R). fold x in E, R. rewrite <- E. exact R.
  - exact T5.
  - destruct (T4 u H) as [A _]. fold x in A. lia.
  - destruct (T4 u H) as [_ B]. exact B.
Qed.

(* acquire() returns True only through a granted flock, and then nobody was holding *)
Theorem flock_ok_only_when_free : forall evs c, no_unlink evs ->
  let s := frun grant poll finit evs in
  let s' := fstep grant poll s (EStep c) in
  res (cl s c) <> ROk -> res (cl s' c) = ROk ->
  (forall c', ~ holding s c') /\ holding s' c.
Proof.
  intros evs c Hn s s' Hr Hr'.
  assert (I : inv s) by (apply inv_run; [assumption|apply inv_init]).
  clearbody s. unfold s' in *. clear s'. simpl in *.
  destruct (alive (cl s c)) eqn:A; [|simpl in Hr'; contradiction].
  destruct (pc (cl s c)) as [| | |fd|fd| |u| |] eqn:P; simpl in Hr'; try contradiction;
    try (rewrite upd_same in Hr'; simpl in Hr'; try contradiction; try discriminate).
  - unfold k_open in Hr'. destruct (names s); simpl in Hr'; rewrite upd_same in Hr'; simpl in Hr'; contradiction.
  - destruct (I_pcfd s I c fd A) as [[i Oi] Hnh]; [rewrite P; reflexivity|].
    unfold k_flock in *. rewrite Oi in *.
    destruct (grant (holder s i) fd) eqn:G; simpl in *.
    + destruct (Hexcl _ _ G) as [Hfree|Hmine]; [|exfalso; eapply Hnh; eauto].
      split.
      * intros c' Hc'. destruct (holding_owns s c' I Hc') as [fd' [i' [N' [_ [O' Hh']]]]].
        apply (I_ofd s I) in Oi. destruct Oi as [_ Oi]. rewrite Oi in N'. inversion N'; subst. congruence.
      * unfold holding. simpl. rewrite upd_same. simpl. repeat split; auto. discriminate.
    + rewrite upd_same in Hr'. simpl in Hr'. contradiction.
  - unfold after_failed_attempt in Hr'. destruct (blocking _); simpl in Hr'; rewrite upd_same in Hr'; simpl in Hr'; try contradiction; discriminate.
  - destruct (_ >=? _); simpl in Hr'; rewrite upd_same in Hr'; simpl in Hr'; try contradiction; discriminate.
  - destruct (lock_fd _); simpl in Hr'; rewrite ?upd_same in Hr'; simpl in Hr'; contradiction.
  - destruct (lock_fd _); simpl in Hr'; rewrite ?upd_same in Hr'; simpl in Hr'; contradiction.
Qed.

End Step.

(* without the "never unlink" discipline mutual exclusion is lost: a concrete schedule in which the
   lock file is deleted while client 0 holds it, after which client 1 locks a NEW inode *)
Definition unlink_witness : list fevent :=
  [ECallAcquire 0%N true 1000; EStep 0%N; EStep 0%N; EStep 0%N; EUnlink;
   ECallAcquire 1%N true 1000; EStep 1%N; EStep 1%N; EStep 1%N].

Lemma flock_mutex_needs_no_unlink :
  let s := frun kernel_grant 10 finit unlink_witness in
  holding s 0%N /\ holding s 1%N.
Proof. vm_compute. repeat split; discriminate. Qed.
