(* Proofs/Manifest13Proofs.v -- column bounds survive the manifest-level round trip (several entries,
   several columns, ADDED and EXISTING entries) type-faithfully, hence pruning on the DataFiles read
   back from a manifest is pruning on the bounds the writer computed, hence sound (C13). *)
From Coq Require Import ZArith List Bool String.
Require Import DS.Model.Value DS.Model.BoundPrim DS.Gen.GenBound DS.Model.Bound DS.Model.FieldKey DS.Model.ManifestPrim
               DS.Gen.GenManifest13 DS.Gen.GenPrune DS.Model.Prune DS.Model.Manifest13
               DS.Proofs.BoundProofs DS.Proofs.PruneProofs DS.Proofs.FieldKeyProofs.
Import ListNotations.
Open Scope Z_scope.

(* ---- the key of a bound: int(str(k)) = k on int field ids (Proofs/FieldKeyProofs.v: the decimal rendering and Python's int()
   parser are inverse) ---- *)
Lemma py_int_of_str_of_id k : py_int_of_key (py_str_of_id k) = k.
Proof. unfold py_int_of_key, py_str_of_id. rewrite kdec_str_of_Z. reflexivity. Qed.

(* ---- one bound map ---- *)
Lemma map_roundtrip (l : bmap) :
  (forall k v, In (k, v) l -> boundable v = true) ->
  map (fun kv : akey * ebound => (py_int_of_key (fst kv), dec (snd kv)))
      (map (fun kv : Z * value => (py_str_of_id (fst kv), enc (snd kv))) l) = l.
Proof.
  induction l as [|[k v] l IH]; intro B; [reflexivity|].
  cbn [map fst snd]. rewrite py_int_of_str_of_id.
  rewrite (bound_roundtrip v (B k v (or_introl eq_refl))).
  f_equal. apply IH. intros k' v' I. apply (B k' v'). right; exact I.
Qed.

Lemma bounds_field_roundtrip (b : option bmap) :
  boundable_map b ->
  (let e := if truthy b then Some (map (fun kv => let k := fst kv in let v := snd kv in (py_str_of_id k, enc v)) (items b)) else None in
   if truthy e then Some (map (fun kv => let k := fst kv in let v := snd kv in (py_int_of_key k, dec v)) (items e)) else keep_falsy e)
  = norm_b b.
Proof.
  intro B. destruct b as [[|x l]|]; cbn [truthy items keep_falsy norm_b]; try reflexivity.
  cbn [map truthy items]. f_equal.
  exact (map_roundtrip (x :: l) B).
Qed.

(* ---- one entry ---- *)
Lemma entry_roundtrip (d : dfb) (status : Z) :
  boundable_df d -> gen_read_entry (gen_record d status) = norm_df d.
Proof.
  intros [BL BU]. unfold gen_read_entry, gen_record, norm_df. cbn [r_lower r_upper].
  f_equal; [exact (bounds_field_roundtrip (df_lower d) BL) | exact (bounds_field_roundtrip (df_upper d) BU)].
Qed.

(* ---- a whole manifest: any number of ADDED and EXISTING entries, any columns ---- *)
Theorem via_manifest_roundtrip (added existing : list dfb) :
  (forall d, In d (added ++ existing) -> boundable_df d) ->
  via_manifest added existing = map norm_df (added ++ existing).
Proof.
  intro B. unfold via_manifest, read_manifest, write_manifest, gen_entries.
  rewrite !map_app, !map_map. f_equal; apply map_ext_in; intros d I; cbn [fst snd];
    apply entry_roundtrip; apply B; apply in_or_app; [left|right]; exact I.
Qed.

(* same number of files, in the same order, each with its own bounds: nothing is shared between entries *)
Corollary via_manifest_length (added existing : list dfb) :
  List.length (via_manifest added existing) = (List.length added + List.length existing)%nat.
Proof.
  unfold via_manifest, read_manifest, write_manifest, gen_entries.
  rewrite !map_length, app_length, !map_length. reflexivity.
Qed.

Lemma bview_norm (b : option bmap) : bview (norm_b b) = bview b.
Proof. destruct b as [[|x l]|]; reflexivity. Qed.

Lemma df_view_norm (d : dfb) : df_view (norm_df d) = df_view d.
Proof. unfold df_view, norm_df. cbn [df_lower df_upper]. rewrite !bview_norm. reflexivity. Qed.

(* the pruning decision on the DataFile read back = the decision on the DataFile that was written *)
Theorem prune_decision_via_manifest (added existing : list dfb) (ids : list (Z * Z)) (es : list fexpr) :
  (forall d, In d (added ++ existing) -> boundable_df d) ->
  map (fun d => file_may_match (fst (df_view d)) (snd (df_view d)) ids es) (via_manifest added existing)
  = map (fun d => file_may_match (fst (df_view d)) (snd (df_view d)) ids es) (added ++ existing).
Proof.
  intro B. rewrite (via_manifest_roundtrip added existing B), map_map.
  apply map_ext. intro d. rewrite df_view_norm. reflexivity.
Qed.

(* ---- the bounds the writer computes are boundable ---- *)
Lemma vmin_cases a b : vmin a b = a \/ vmin a b = b.
Proof. unfold vmin. destruct (py_lt b a) as [[]|]; auto. Qed.
Lemma vmax_cases a b : vmax a b = a \/ vmax a b = b.
Proof. unfold vmax. destruct (py_lt a b) as [[]|]; auto. Qed.

Lemma fold_pick_in (f : value -> value -> value) :
  (forall a b, f a b = a \/ f a b = b) -> forall os o, In (fold_left f os o) (o :: os).
Proof.
  intros Hf os. induction os as [|x os IH]; intro o; cbn [fold_left]; [left; reflexivity|].
  destruct (IH (f o x)) as [E|I].
  - destruct (Hf o x) as [E'|E']; [left | right; left]; congruence.
  - right; right; exact I.
Qed.

Lemma bounds_of_nonnull vs lo hi : bounds_of vs = Some (lo, hi) -> is_null lo = false /\ is_null hi = false.
Proof.
  unfold bounds_of. destruct (filter ordinary vs) as [|o os] eqn:F.
  - destruct (existsb is_nan vs); intro E; inversion E; subst; split; reflexivity.
  - intro E; inversion E; subst; clear E.
    assert (O : forall v, In v (o :: os) -> is_null v = false).
    { intros v I. rewrite <- F in I. apply filter_In in I. destruct I as [_ I]. unfold ordinary in I.
      apply andb_true_iff in I. destruct I as [I _]. apply negb_true_iff in I. exact I. }
    split; apply O; [apply (fold_pick_in vmin vmin_cases) | apply (fold_pick_in vmax vmax_cases)].
Qed.

Lemma file_bounds_boundable schema rows k v :
  In (k, v) (fst (file_bounds schema rows)) \/ In (k, v) (snd (file_bounds schema rows)) -> boundable v = true.
Proof.
  induction schema as [|[c i] sch IH]; cbn [file_bounds].
  - cbn. intros [[]|[]].
  - destruct (file_bounds sch rows) as [lo hi] eqn:FB. cbn [fst snd] in IH.
    destruct (bounds_of (column rows c)) as [[mn mx]|] eqn:B; cbn [fst snd]; [|exact IH].
    destruct (bounds_of_nonnull _ _ _ B) as [N1 N2].
    intros [[E|I]|[E|I]]; try (inversion E; subst; unfold boundable; rewrite ?N1, ?N2; reflexivity);
      apply IH; [left|right]; exact I.
Qed.

Lemma bview_opt_of l : bview (opt_of l) = l.
Proof. destruct l; reflexivity. Qed.

Lemma df_of_file_boundable schema rows : boundable_df (df_of_file schema rows).
Proof.
  split; intros k v I; unfold df_of_file in I; cbn [df_lower df_upper] in I; rewrite bview_opt_of in I;
    apply (file_bounds_boundable schema rows k v); [left|right]; exact I.
Qed.

Lemma df_view_of_file schema rows : df_view (df_of_file schema rows) = file_bounds schema rows.
Proof.
  unfold df_view, df_of_file. cbn [df_lower df_upper]. rewrite !bview_opt_of.
  destruct (file_bounds schema rows); reflexivity.
Qed.

(* the planner sees, for every file of the manifest, exactly the bounds computed from that file's rows *)
Theorem manifest_bounds_exact schema (added existing : list (list row)) :
  manifest_bounds schema added existing = map (file_bounds schema) (added ++ existing).
Proof.
  unfold manifest_bounds. rewrite via_manifest_roundtrip.
  - rewrite <- map_app, !map_map. apply map_ext. intro rows. rewrite df_view_norm. apply df_view_of_file.
  - intros d I. rewrite <- map_app in I. apply in_map_iff in I. destruct I as [rows [<- _]]. apply df_of_file_boundable.
Qed.

(* ---- pruning over (file, bounds) pairs ---- *)
Lemma prune_as_filter {F} (bounds : F -> bmap * bmap) ids es (files : list F) :
  prune bounds ids es files =
  match es with [] => files | _ => filter (fun f => file_may_match (fst (bounds f)) (snd (bounds f)) ids es) files end.
Proof. unfold prune. destruct es; [reflexivity|]. destruct files; reflexivity. Qed.

Lemma prune_combine {F} (g : F -> bmap * bmap) ids es (fs : list F) :
  map fst (prune (fun fb : F * (bmap * bmap) => snd fb) ids es (combine fs (map g fs))) = prune g ids es fs.
Proof.
  rewrite !prune_as_filter. destruct es as [|e es'].
  - induction fs as [|f fs IH]; cbn [map combine fst]; [reflexivity|]. f_equal. exact IH.
  - induction fs as [|f fs IH]; cbn [map combine filter fst snd]; [reflexivity|].
    destruct (file_may_match (fst (g f)) (snd (g f)) ids (e :: es')); cbn [map fst]; rewrite IH; reflexivity.
Qed.

(* C13 with the manifest in the loop: the scan over the files kept by pruning on the bounds READ BACK
   from the manifest returns exactly the rows of the scan over all files *)
Theorem scan_via_manifest_equal X schema es (added existing : list (list row)) :
  NoDup (map snd schema) -> (forall f, In f (added ++ existing) -> wf_file schema f) ->
  scan X es (prune_via_manifest schema es added existing) = scan X es (added ++ existing).
Proof.
  intros ND WF. unfold prune_via_manifest. rewrite manifest_bounds_exact, prune_combine.
  apply scan_pruned_equal; assumption.
Qed.

Lemma in_combine_map {A B} (g : A -> B) (l : list A) a b : In (a, b) (combine l (map g l)) -> In a l /\ b = g a.
Proof.
  induction l as [|x l IH]; cbn [map combine]; [intros []|].
  intros [E|I]; [inversion E; subst; split; [left|]; reflexivity|].
  destruct (IH I) as [I' E]. split; [right; exact I' | exact E].
Qed.

(* a file of a manifest is skipped only when no row in it can satisfy the predicate *)
Theorem prune_sound_via_manifest X schema es (added existing : list (list row)) rows lo hi :
  NoDup (map snd schema) -> (forall f, In f (added ++ existing) -> wf_file schema f) ->
  In (rows, (lo, hi)) (combine (added ++ existing) (manifest_bounds schema added existing)) ->
  file_may_match lo hi schema es = false ->
  forall r, In r rows -> row_selected X es r = false.
Proof.
  intros ND WF I M r Hr. rewrite manifest_bounds_exact in I.
  destruct (in_combine_map _ _ _ _ I) as [If E].
  eapply (prune_sound X schema rows es ND (WF rows If)); [|exact Hr].
  rewrite <- E. exact M.
Qed.
