(* Proofs/ManifestProofs.v -- manifest rewrites are invisible: after ANY history of committed transactions (appends of
   several files, deletes that keep / rewrite / drop manifests, both at once) the data files a scan finds, WITH the column
   bounds pruning reads, are those of the flat list specification -- and therefore every scan API returns the SQL answer
   on the rows of the live files (C12 on tables with a history).

   Part 1 is the INTERFACE of the regenerated kernels (Gen/GenManifest.v): the rest uses gen_store_* / gen_load_* /
   gen_survives / gen_rewrite_decision only through these lemmas.  They are re-proved on every run against what the
   translator has just read off create_manifest_file / read_manifest_file / _commit_file_ops: if an entry's bounds stop
   going through a codec pair that round-trips, or the decision keeps a manifest from which a file was deleted, the lemma
   (and with it C12_history_... theorems) no longer checks. *)
From Coq Require Import String Ascii.
From Coq Require Import ZArith QArith List Bool Arith Lia.
Require Import DS.Model.Value DS.Model.BoundPrim DS.Gen.GenBound DS.Model.Bound DS.Proofs.BoundProofs.
Require Import DS.Model.ManifestBase DS.Gen.GenManifest.
Require Import DS.Model.FilterExpr DS.Gen.GenPrune DS.Model.Prune DS.Proofs.ValueOrder DS.Proofs.PruneProofs.
Require Import DS.Gen.GenFilterConst DS.Gen.GenFilter DS.Model.Filter DS.Proofs.FilterProofs DS.Model.Manifest.
Import ListNotations.
Open Scope Z_scope.

(* ------------------------------------------------------------------ 1. interface of the regenerated kernels *)

(* bounds a writer can produce: no NULL (an all-NULL column has no entry at all) *)
Definition nonnull_bounds (bs : list (Z * value)) : Prop := forall k v, In (k, v) bs -> is_null v = false.

(* whatever is stored, decoding never yields None *)
Lemma dec_nonnull e : is_null (dec e) = false.
Proof.
  destruct e as [t p]. unfold dec, gen_decode_tag. simpl.
  repeat match goal with |- context [String.eqb t ?s] => destruct (String.eqb t s) end;
    destruct p as [b|z|f|s|us|d|us|v|]; try destruct f as [q| | |]; reflexivity.
Qed.

Lemma codec_roundtrip_map (bs : list (Z * value)) :
  nonnull_bounds bs ->
  map (fun kv => (fst kv, dec (snd kv))) (map (fun kv : Z * value => (fst kv, enc (snd kv))) bs) = bs.
Proof.
  induction bs as [|[k v] bs IH]; simpl; intro NN; auto.
  rewrite bound_roundtrip by (unfold boundable; rewrite (NN k v (or_introl eq_refl)); reflexivity).
  f_equal. apply IH. intros k' v' I. apply (NN k' v'). right; auto.
Qed.

(* what is written for an entry and read back is the entry's bounds: on BOTH sides, for added and carried-over entries *)
Lemma load_store_lower bs : nonnull_bounds bs -> gen_load_lower (gen_store_lower bs) = bs.
Proof. unfold gen_load_lower, gen_store_lower. apply codec_roundtrip_map. Qed.

Lemma load_store_upper bs : nonnull_bounds bs -> gen_load_upper (gen_store_upper bs) = bs.
Proof. unfold gen_load_upper, gen_store_upper. apply codec_roundtrip_map. Qed.

Lemma load_lower_nonnull sb : nonnull_bounds (gen_load_lower sb).
Proof.
  unfold gen_load_lower. intros k v I. apply in_map_iff in I. destruct I as [[k' e] [Q _]]. simpl in Q.
  inversion Q; subst. apply dec_nonnull.
Qed.

Lemma load_upper_nonnull sb : nonnull_bounds (gen_load_upper sb).
Proof.
  unfold gen_load_upper. intros k v I. apply in_map_iff in I. destruct I as [[k' e] [Q _]]. simpl in Q.
  inversion Q; subst. apply dec_nonnull.
Qed.

(* a manifest is referenced again as it is only when nothing was deleted from it; left out only when nothing survives *)
Lemma decision_keep s n : gen_rewrite_decision s n = RKeep -> s = n.
Proof.
  unfold gen_rewrite_decision. destruct (Nat.eqb_spec s n); auto. destruct (Nat.ltb 0 s); discriminate.
Qed.

Lemma decision_drop s n : gen_rewrite_decision s n = RDrop -> s = 0%nat.
Proof.
  unfold gen_rewrite_decision. destruct (Nat.eqb_spec s n); [discriminate|].
  destruct (Nat.ltb_spec 0 s); [discriminate|]. lia.
Qed.

Lemma survives_spec del p : gen_survives del p = negb (zmem p del).
Proof. reflexivity. Qed.

(* ------------------------------------------------------------------ 2. entries *)
Definition clean (d : dfile) : Prop := nonnull_bounds (dlo d) /\ nonnull_bounds (dhi d).

Lemma load_store d : clean d -> load (store d) = d.
Proof.
  intros [L H]. destruct d as [p f lo hi]. unfold load, store. simpl in *.
  rewrite load_store_lower, load_store_upper; auto.
Qed.

Lemma load_clean e : clean (load e).
Proof. split; [apply load_lower_nonnull | apply load_upper_nonnull]. Qed.

(* a second trip through a manifest changes nothing any more: what a rewrite carries over is what a reader saw before *)
Lemma load_store_load e : load (store (load e)) = load e.
Proof. apply load_store. apply load_clean. Qed.

(* ------------------------------------------------------------------ 3. lists *)
Lemma filter_len_le {A} (p : A -> bool) l : (length (filter p l) <= length l)%nat.
Proof. induction l as [|a l IH]; simpl; auto. destruct (p a); simpl; lia. Qed.

Lemma filter_length_eq {A} (p : A -> bool) l : length (filter p l) = length l -> filter p l = l.
Proof.
  induction l as [|a l IH]; simpl; auto. destruct (p a); simpl; intro H.
  - f_equal. apply IH. lia.
  - pose proof (filter_len_le p l). lia.
Qed.

Lemma filter_all {A} (p : A -> bool) l : (forall x, p x = true) -> filter p l = l.
Proof. intro T. induction l as [|a l IH]; simpl; auto. rewrite T, IH. reflexivity. Qed.

Lemma zmem_false c l : ~ In c l -> zmem c l = false.
Proof. intro N. destruct (zmem c l) eqn:Z; auto. apply zmem_in in Z. contradiction. Qed.

(* ------------------------------------------------------------------ 4. one commit *)
Definition alive (del : list Z) (d : dfile) : bool := negb (zmem (dpath d) del).

Lemma view_rewrite del m :
  map load (concat (rewrite_manifest del m)) = filter (alive del) (map load m).
Proof.
  unfold rewrite_manifest.
  change (fun d : dfile => gen_survives del (dpath d)) with (alive del).
  destruct (gen_rewrite_decision (length (filter (alive del) (map load m))) (length (map load m))) eqn:D; simpl.
  - rewrite app_nil_r. apply decision_keep in D. symmetry. apply filter_length_eq. exact D.
  - rewrite app_nil_r, map_map.
    transitivity (map (fun d => d) (filter (alive del) (map load m))); [|apply map_id].
    apply map_ext_in. intros d I. apply filter_In in I. destruct I as [I _].
    apply in_map_iff in I. destruct I as [e [<- _]]. apply load_store_load.
  - apply decision_drop in D. destruct (filter (alive del) (map load m)); [reflexivity|discriminate].
Qed.

Lemma rewrite_decision_sound (del : list Z) (m : manifest) :
  let surviving := filter (fun d => gen_survives del (dpath d)) (map load m) in
  (gen_rewrite_decision (length surviving) (length m) = RKeep -> surviving = map load m)
  /\ (gen_rewrite_decision (length surviving) (length m) = RDrop -> surviving = []).
Proof.
  cbv zeta. split; intro D.
  - apply decision_keep in D. apply filter_length_eq. rewrite map_length. exact D.
  - apply decision_drop in D. destruct (filter _ (map load m)); [reflexivity|discriminate].
Qed.

Lemma view_deletes del st :
  map load (concat (flat_map (rewrite_manifest del) st)) = filter (alive del) (map load (concat st)).
Proof.
  induction st as [|m st IH]; simpl; auto.
  rewrite concat_app, !map_app, filter_app, IH, view_rewrite. reflexivity.
Qed.

Lemma view_commit st t :
  Forall clean (tx_app t) -> map load (concat (commit_tx st t)) = spec_tx (map load (concat st)) t.
Proof.
  intro C. unfold commit_tx, spec_tx. rewrite concat_app, map_app. f_equal.
  - change (fun d : dfile => negb (zmem (dpath d) (tx_del t))) with (alive (tx_del t)).
    destruct (tx_del t) as [|p del] eqn:Del.
    + symmetry. apply filter_all. reflexivity.
    + apply view_deletes.
  - destruct (tx_app t) as [|a l] eqn:App; [reflexivity|].
    change (concat [map store (a :: l)]) with (map store (a :: l) ++ []). rewrite app_nil_r, map_map.
    transitivity (map (fun d => d) (a :: l)); [|apply map_id].
    apply map_ext_in. intros d I. apply load_store. rewrite Forall_forall in C. auto.
Qed.

(* ------------------------------------------------------------------ 5. any history *)
Theorem view_run txs : forall st,
  (forall t, In t txs -> Forall clean (tx_app t)) ->
  map load (concat (run txs st)) = spec_run txs (map load (concat st)).
Proof.
  induction txs as [|t txs IH]; intros st C; [reflexivity|].
  unfold run, spec_run in *. simpl. rewrite IH by (intros; apply C; right; auto).
  rewrite view_commit by (apply C; left; auto). reflexivity.
Qed.

Definition paths (ds : list dfile) : list Z := map dpath ds.

Lemma dedup_id ds : forall seen,
  NoDup (paths ds) -> (forall d, In d ds -> ~ In (dpath d) seen) -> dedup seen ds = ds.
Proof.
  induction ds as [|a ds IH]; intros seen ND Fr; [reflexivity|].
  simpl. rewrite zmem_false by (apply Fr; left; auto). f_equal.
  inversion ND as [|? ? NI ND']; subst. apply IH; auto.
  intros d I [Q|S].
  - apply NI. rewrite Q. unfold paths. apply in_map. exact I.
  - apply (Fr d (or_intror I) S).
Qed.

Lemma nodup_filter_app {A} (p : A -> bool) (f : A -> Z) l R :
  NoDup (map f l ++ R) -> NoDup (map f (filter p l) ++ R).
Proof.
  induction l as [|a l IH]; simpl; auto. intro ND. inversion ND as [|? ? NI ND']; subst.
  destruct (p a); simpl; [|auto]. constructor; [|auto].
  intro I. apply NI. apply in_app_or in I. apply in_or_app. destruct I as [I|I]; [left|right; auto].
  apply in_map_iff in I. destruct I as [x [Q I]]. apply filter_In in I. destruct I as [I _].
  rewrite <- Q. apply in_map. exact I.
Qed.

Lemma spec_run_nodup txs : forall fs,
  NoDup (paths fs ++ paths (concat (map tx_app txs))) -> NoDup (paths (spec_run txs fs)).
Proof.
  induction txs as [|t txs IH]; intros fs ND.
  - simpl in *. rewrite app_nil_r in ND. exact ND.
  - unfold spec_run in *. simpl. apply IH. unfold spec_tx, paths in *. simpl in ND.
    rewrite map_app in ND. rewrite map_app, <- app_assoc. apply nodup_filter_app. exact ND.
Qed.

Lemma spec_run_in txs : forall fs d,
  In d (spec_run txs fs) -> In d fs \/ exists t, In t txs /\ In d (tx_app t).
Proof.
  induction txs as [|t txs IH]; intros fs d I; [left; exact I|].
  unfold spec_run in *. simpl in I. apply IH in I. destruct I as [I|[t' [I1 I2]]].
  - unfold spec_tx in I. apply in_app_or in I. destruct I as [I|I].
    + apply filter_In in I. left; tauto.
    + right. exists t. split; [left|]; auto.
  - right. exists t'. split; [right|]; auto.
Qed.

(* The files a scan finds after ANY history from the empty table -- histories that register the same path again
   included --, with the bounds pruning reads, are the flat list semantics applied to the files as they were appended,
   each path once (its first entry: Table._get_all_data_files). *)
Theorem history_files txs :
  (forall t, In t txs -> Forall clean (tx_app t)) ->
  table_files (run txs []) = dedup [] (spec_run txs []).
Proof. intros C. unfold table_files. rewrite view_run by exact C. reflexivity. Qed.

(* ... which is the list itself when every appended file has its own path *)
Theorem history_files_distinct txs :
  (forall t, In t txs -> Forall clean (tx_app t)) ->
  NoDup (paths (concat (map tx_app txs))) ->
  table_files (run txs []) = spec_run txs [].
Proof.
  intros C ND. rewrite history_files by exact C.
  apply dedup_id; [|intros d _ []].
  apply spec_run_nodup. exact ND.
Qed.

Lemma dedup_in ds : forall seen d, In d (dedup seen ds) -> In d ds.
Proof.
  induction ds as [|a ds IH]; intros seen d I; [exact I|].
  simpl in I. destruct (zmem (dpath a) seen).
  - right. eapply IH; eauto.
  - destruct I as [Q|I]; [left; exact Q|right; eapply IH; eauto].
Qed.

(* ------------------------------------------------------------------ 6. the bounds a writer computes *)
Lemma ordinary_nonnull v : ordinary v = true -> is_null v = false.
Proof. unfold ordinary. destruct (is_null v); simpl; [discriminate|reflexivity]. Qed.

Lemma file_bounds_nonnull ids rows :
  wf_file ids rows -> nonnull_bounds (fst (file_bounds ids rows)) /\ nonnull_bounds (snd (file_bounds ids rows)).
Proof.
  intro WF0. assert (WF : forall c, homogeneous (column rows c)) by exact WF0. clear WF0.
  induction ids as [|[c id] sch IH]; simpl.
  - split; intros k v [].
  - destruct (file_bounds sch rows) as [lo hi]. simpl in IH. destruct IH as [IL IH].
    destruct (bounds_of (column rows c)) as [[mn mx]|] eqn:B; simpl; [|split; auto].
    destruct (bounds_true _ _ _ (WF c) B) as [_ [[_ [_ [O1 O2]]]|[-> [-> _]]]].
    + split; intros k v [Q|I]; try (inversion Q; subst; apply ordinary_nonnull; assumption); eauto.
    + split; intros k v [Q|I]; try (inversion Q; subst; reflexivity); eauto.
Qed.

Lemma written_clean ids p f : wf_file ids (frows f) -> clean (written ids p f).
Proof. intro WF. unfold clean, written. simpl. apply file_bounds_nonnull. exact WF. Qed.

(* ------------------------------------------------------------------ 7. scans depend on the bounds of the scanned files only *)
Section Ext.
  Variable X : value -> value -> bool.
  Variable E : cexpr -> row -> bool.
  Variable B : cexpr -> bool.
  Variable PA : parg -> bool.
  Variable sch : list Z.
  Variable ids : list (Z * Z).
  Variables b1 b2 : file -> list (Z * value) * list (Z * value).

  Lemma prune_p_ext es files : (forall f, In f files -> b1 f = b2 f) -> prune_p ids b1 es files = prune_p ids b2 es files.
  Proof.
    intro H. unfold prune_p. destruct es as [|e es]; auto. destruct files as [|f0 fs]; auto.
    apply filter_ext_in. intros f I. rewrite (H f I). reflexivity.
  Qed.

  Lemma scan_table_ext v cols flt files :
    (forall f, In f files -> b1 f = b2 f) ->
    scan_table X E B PA sch ids b1 v cols flt files = scan_table X E B PA sch ids b2 v cols flt files.
  Proof.
    intro H. unfold scan_table. destruct (prepare PA flt) as [ec|k]; simpl; [|reflexivity].
    rewrite (prune_p_ext (fst ec) files H). reflexivity.
  Qed.

  Lemma scan_batches_ext split cols flt files :
    (forall f, In f files -> b1 f = b2 f) ->
    scan_batches X E B PA sch ids b1 split cols flt files = scan_batches X E B PA sch ids b2 split cols flt files.
  Proof.
    intro H. unfold scan_batches. destruct (prepare PA flt) as [ec|k]; simpl; [|reflexivity].
    rewrite (prune_p_ext (fst ec) files H). reflexivity.
  Qed.

  Lemma iter_records_ext cols flt files :
    (forall f, In f files -> b1 f = b2 f) ->
    iter_records X E B PA sch ids b1 cols flt files = iter_records X E B PA sch ids b2 cols flt files.
  Proof. intro H. unfold iter_records. rewrite (scan_batches_ext _ cols flt files H). reflexivity. Qed.
End Ext.

(* ------------------------------------------------------------------ 8. C12 on a table with a history *)
(* every transaction appends files as the writer produces them: exact bounds, one kind per column *)
Definition appends_written (ids : list (Z * Z)) (txs : list tx) : Prop :=
  forall t d, In t txs -> In d (tx_app t) -> wf_file ids (frows (dfile_ d)) /\ d = written ids (dpath d) (dfile_ d).

Theorem history_sql
        (X : value -> value -> bool) (E : cexpr -> row -> bool) (B : cexpr -> bool) (PA : parg -> bool)
        (sch : list Z) (ids : list (Z * Z)) (bounds : file -> list (Z * value) * list (Z * value))
        (split : list row -> list (list row)) (v : bool)
        (cols : option (list Z)) (flt : pyfilter) (txs : list tx)
        (ps : list pexpr) (ce : option cexpr) (es : list fexpr) :
  prepare PA flt = Ok (ps, ce) ->
  map to_fexpr ps = map Some es ->
  valid_cols sch cols -> (forall l, concat (split l) = l) ->
  NoDup (map snd ids) ->
  appends_written ids txs ->
  (forall d, In d (table_files (run txs [])) -> bounds (dfile_ d) = manifest_bounds d) ->
  let files := map dfile_ (table_files (run txs [])) in
  refused B ce = false ->
  (forall e f r, ce = Some e -> In f files -> In r (frows f) -> eval3 X E e r <> None) ->
  let answer := Ok (sel cols (filter (row_selected X es) (concat (map frows (map dfile_ (dedup [] (spec_run txs []))))))) in
  scan_table X E B PA sch ids bounds v cols flt files = answer
  /\ flat (scan_batches X E B PA sch ids bounds split cols flt files) = answer
  /\ iter_records X E B PA sch ids bounds cols flt files = answer.
Proof.
  intros P Sh V S ND AW Bo files NB NR answer.
  assert (C : forall t, In t txs -> Forall clean (tx_app t)).
  { intros t I. apply Forall_forall. intros d Id. destruct (AW t d I Id) as [WF Q]. rewrite Q. apply written_clean. exact WF. }
  assert (HF : table_files (run txs []) = dedup [] (spec_run txs [])) by (apply history_files; auto).
  assert (W : forall d, In d (dedup [] (spec_run txs [])) -> wf_file ids (frows (dfile_ d)) /\ d = written ids (dpath d) (dfile_ d)).
  { intros d I. apply dedup_in in I. apply spec_run_in in I. destruct I as [[]|[t [I1 I2]]]. apply (AW t d I1 I2). }
  assert (BE : forall f, In f files -> bounds f = stored_bounds ids f).
  { intros f I. unfold files in I. apply in_map_iff in I. destruct I as [d [<- I]].
    rewrite (Bo d I). rewrite HF in I. destruct (W d I) as [_ Q]. rewrite Q at 1 2. unfold manifest_bounds, written, stored_bounds. simpl.
    destruct (file_bounds ids (frows (dfile_ d))); reflexivity. }
  assert (WFf : forall f, In f files -> wf_file ids (frows f)).
  { intros f I. unfold files in I. apply in_map_iff in I. destruct I as [d [<- I]]. rewrite HF in I. apply (W d I). }
  rewrite (scan_table_ext X E B PA sch ids bounds (stored_bounds ids) v cols flt files BE).
  rewrite (scan_batches_ext X E B PA sch ids bounds (stored_bounds ids) split cols flt files BE).
  rewrite (iter_records_ext X E B PA sch ids bounds (stored_bounds ids) cols flt files BE).
  unfold answer. rewrite <- HF. fold files.
  exact (api_sql X E B PA sch ids split v cols flt files ps ce es P Sh V S ND WFf NB NR).
Qed.
