(* Proofs/GCFaultProofs.v -- damage classes and transient failures of the reachability phase. *)
From Coq Require Import ZArith String Ascii List Bool Arith Lia.
Require Import DS.Model.PyStr DS.Gen.GenNorm DS.Model.GC DS.Proofs.PyStrProofs DS.Proofs.GCNormProofs DS.Proofs.GCProofs.
Import ListNotations.
Open Scope string_scope.
Open Scope Z_scope.

(* a reachable file is damaged when it is missing or does not parse as what it must be *)
Definition damaged_list (st : store) (k : key) : Prop :=
  match lookup k st with None => True | Some ob => as_list (body ob) = None end.
Definition damaged_manifest (st : store) (k : key) : Prop :=
  match lookup k st with None => True | Some ob => as_manifest (body ob) = None end.

Lemma outcome_eq_dec : forall a b : outcome, {a = b} + {a <> b}.
Proof. decide equality. decide equality. Qed.

Lemma aborted_before_sweep_dec : forall r, {aborted_before_sweep r} + {~ aborted_before_sweep r}.
Proof.
  intro r. unfold aborted_before_sweep.
  destruct (outcome_eq_dec (r_out r) (Aborted PhLists)); [left; auto|].
  destruct (outcome_eq_dec (r_out r) (Aborted PhManifests)); [left; auto|].
  destruct (outcome_eq_dec (r_out r) (Aborted PhMarkers)); [left; auto|]. right. tauto.
Qed.

Lemma sweeps_not_early : forall tp grace now o rl rm rd prot g, ~ aborted_before_sweep (sweeps tp grace now o rl rm rd prot g).
Proof.
  intros. unfold sweeps.
  destruct (sweep tp grace now (rd ++ prot) o g DATA_PREFIX []) as [[b1 d1] g4]. destruct b1; [intros [H|[H|H]]; discriminate|].
  destruct (sweep tp grace now ((rm ++ rl) ++ prot) o g4 MANIFESTS_PREFIX d1) as [[b2 d2] g5]. destruct b2; intros [H|[H|H]]; discriminate.
Qed.

Lemma reach_abort_phase : forall tp o snaps g ph rl rm g', reach tp o snaps g = (RAbort ph rl rm, g') -> ph = PhLists \/ ph = PhManifests.
Proof.
  intros tp o snaps g ph rl rm g' H. unfold reach in H.
  destruct (read_all WList o g (norm_set tp snaps)) as [[mp|] g1]; [|inversion H; auto].
  destruct (read_all WManifest o g1 (norm_set tp mp)) as [[es|] g2]; inversion H; auto.
Qed.

(* a run that gets to the sweeps completed the reachability phase, on a store that lost at most abandoned markers *)
Lemma run_reached : forall mf tp grace now timeout o snaps g0,
  markers_wf (g_store g0) ->
  ~ aborted_before_sweep (gc_run_from mf tp grace now timeout o snaps g0) ->
  exists g g' rl rm rd, reach tp o snaps g = (ROk rl rm rd, g') /\ only_markers_removed now timeout (g_store g0) (g_store g)
                        /\ sub_store (g_store g) (g_store g0).
Proof.
  intros mf tp grace now timeout o snaps g0 MW H. unfold gc_run_from in H. destruct mf.
  - destruct (load_protection tp timeout now o g0) as [[prot|] g1] eqn:LP.
    2:{ exfalso. apply H. right. right. reflexivity. }
    destruct (reach tp o snaps g1) as [[ph rl rm|rl rm rd] g2] eqn:RE.
    + exfalso. apply H. destruct (reach_abort_phase _ _ _ _ _ _ _ _ RE) as [-> | ->]; [left|right; left]; reflexivity.
    + exists g1, g2, rl, rm, rd. split; [exact RE|]. split; [eapply load_protection_omr; eauto|eapply load_protection_sub; eauto].
  - destruct (reach tp o snaps g0) as [[ph rl rm|rl rm rd] g1] eqn:RE.
    + exfalso. apply H. destruct (reach_abort_phase _ _ _ _ _ _ _ _ RE) as [-> | ->]; [left|right; left]; reflexivity.
    + exists g0, g1, rl, rm, rd. split; [exact RE|]. split; [apply omr_refl|apply sub_refl].
Qed.

Lemma reach_ok_reads : forall tp o snaps g rl rm rd g', reach tp o snaps g = (ROk rl rm rd, g') ->
  exists mpaths g1 entries, rl = norm_set tp snaps /\ rm = norm_set tp mpaths
    /\ read_all WList o g rl = (Some mpaths, g1) /\ read_all WManifest o g1 rm = (Some entries, g').
Proof.
  intros tp o snaps g rl rm rd g' H. unfold reach in H.
  destruct (read_all WList o g (norm_set tp snaps)) as [[mp|] g1] eqn:RL; [|discriminate].
  destruct (read_all WManifest o g1 (norm_set tp mp)) as [[es|] g2] eqn:RM; [|discriminate].
  inversion H; subst. exists mp, g1, es. auto.
Qed.

(* every damage class of a reachable manifest list or manifest aborts before the sweeps, whatever else fails *)
Theorem damaged_aborts_from : forall mf tp grace now timeout o snaps g0 k,
  wf_store snaps (g_store g0) ->
  (ref_list snaps k /\ damaged_list (g_store g0) k) \/ (ref_manifest snaps (g_store g0) k /\ damaged_manifest (g_store g0) k) ->
  aborted_before_sweep (gc_run_from mf tp grace now timeout o snaps g0) /\ r_deleted (gc_run_from mf tp grace now timeout o snaps g0) = [].
Proof.
  intros mf tp grace now timeout o snaps g0 k WF D. set (st := g_store g0) in *.
  assert (A: aborted_before_sweep (gc_run_from mf tp grace now timeout o snaps g0)).
  { destruct (aborted_before_sweep_dec (gc_run_from mf tp grace now timeout o snaps g0)) as [A|NA]; [exact A|exfalso].
    destruct (run_reached mf tp grace now timeout o snaps g0 (wf_store_markers _ _ WF) NA) as [g [g' [rl [rm [rd [RE [O SUB]]]]]]]. fold st in O, SUB.
    assert (WF1: wf_store snaps (g_store g)) by (destruct O; eapply wf_store_le; eauto; eapply sub_nodup; eauto; exact (wf_nodup _ _ WF)).
    pose proof (reach_ok _ _ _ _ _ _ _ _ WF1 RE) as RC.
    destruct (reach_ok_reads _ _ _ _ _ _ _ _ RE) as [mp [g1 [es [-> [-> [RL RM]]]]]].
    pose proof O as [LE _]. destruct (referenced_transfer now timeout snaps st (g_store g) WF O) as [TM _]. destruct D as [[R Dm]|[R Dm]].
    - destruct (read_all_sound _ _ _ _ _ _ RL) as [S _]. destruct (S k (rc_lists _ _ _ _ _ RC k R)) as [xs [[ob [L B]] _]].
      apply LE in L. unfold damaged_list in Dm. rewrite L in Dm. congruence.
    - destruct (read_all_sound _ _ _ _ _ _ RM) as [S _]. rewrite (read_all_store _ _ _ _ _ _ RL) in S.
      destruct (S k (rc_manifests _ _ _ _ _ RC k (TM k R))) as [xs [[ob [L B]] _]].
      apply LE in L. unfold damaged_manifest in Dm. rewrite L in Dm. congruence. }
  split; [exact A|]. exact (gs_abort_clean _ _ _ _ _ _ (gc_safe_from mf tp grace now timeout o snaps g0 WF) A).
Qed.

(* ------------------------------------------------------------------ transient failures *)
(* the only fault a successful read can have absorbed: an OSError-class failure or garbage on open_file of a file
   that is in the legacy JSON format anyway (the Avro attempt fails either way; the JSON read was fault-free) *)
Definition absorbed_open (st : store) (w : want) (c : call) (f : fault) : Prop :=
  exists k ob xs, c = KOpen k /\ f <> FRaiseX /\ lookup k st = Some ob /\ json_parse w (body ob) = Some xs.

Definition trace_ext (st : store) (w : want) (g g' : gst) : Prop :=
  exists delta, g_trace g' = (delta ++ g_trace g)%list /\ forall c f, In (c, Some f) delta -> absorbed_open st w c f.

Lemma trace_ext_refl : forall st w g, trace_ext st w g g.
Proof. intros. exists []. split; [reflexivity|intros c f []]. Qed.

Lemma trace_ext_trans : forall st w a b c, trace_ext st w a b -> trace_ext st w b c -> trace_ext st w a c.
Proof.
  intros st w a b c [d1 [E1 H1]] [d2 [E2 H2]]. exists (d2 ++ d1)%list. split.
  - rewrite E2, E1. apply app_assoc.
  - intros x f Hin. apply in_app_or in Hin. destruct Hin; auto.
Qed.

Lemma tick_clean : forall st w o g c g', tick o g c = (None, g') -> trace_ext st w g g' /\ g_store g' = g_store g.
Proof.
  intros st w o g c g' H. unfold tick in H. inversion H; subst. split; [|reflexivity].
  exists [(c, o (g_calls g))]. split; [reflexivity|]. intros c' f [E|[]]. inversion E. congruence.
Qed.

Lemma read_one_transient : forall w o g k xs g', read_one w o g k = (Some xs, g') -> trace_ext (g_store g) w g g'.
Proof.
  intros w o g k xs g' H. unfold read_one in H.
  (* first exists *)
  unfold do_exists at 1 in H. destruct (tick o g (KExists k)) as [f1 g1] eqn:T1.
  destruct f1 as [[| |]|]; try discriminate.
  destruct (tick_clean (g_store g) w _ _ _ _ T1) as [X1 S1].
  destruct (is_some (lookup k (g_store g))); [|discriminate].
  unfold do_exists at 1 in H. destruct (tick o g1 (KExists k)) as [f2 g2] eqn:T2.
  destruct f2 as [[| |]|]; try discriminate.
  destruct (tick_clean (g_store g) w _ _ _ _ T2) as [X2 S2].
  destruct (is_some (lookup k (g_store g1))); [|discriminate].
  assert (X12: trace_ext (g_store g) w g g2) by (eapply trace_ext_trans; eauto).
  assert (FB: forall g3 g4, g_store g3 = g_store g -> read_fallback w o g3 k = (Some xs, g4) ->
             trace_ext (g_store g) w g3 g4 /\ exists ob, lookup k (g_store g) = Some ob /\ json_parse w (body ob) = Some xs).
  { intros g3 g4 S3 HF. unfold read_fallback, do_read in HF. destruct (tick o g3 (KRead k)) as [f3 g3'] eqn:T3.
    destruct f3 as [[| |]|]; try discriminate.
    - simpl in HF. destruct w; discriminate.
    - destruct (tick_clean (g_store g) w _ _ _ _ T3) as [X3 _]. rewrite S3 in HF.
      destruct (lookup k (g_store g)) as [ob|] eqn:L; simpl in HF; [|discriminate]. inversion HF; subst. split; [exact X3|eauto]. }
  unfold do_open in H. destruct (tick o g2 (KOpen k)) as [f3 g3] eqn:T3.
  assert (S3: g_store g3 = g_store g) by (unfold tick in T3; inversion T3; subst; simpl; congruence).
  assert (TR3: g_trace g3 = ((KOpen k, f3) :: g_trace g2)%list) by (unfold tick in T3; inversion T3; subst; reflexivity).
  assert (ABS: forall f g4, f3 = Some f -> f <> FRaiseX -> read_fallback w o g3 k = (Some xs, g4) -> trace_ext (g_store g) w g g4).
  { intros f g4 -> NX HF. destruct (FB g3 g4 S3 HF) as [X4 [ob [L J]]].
    eapply trace_ext_trans; [exact X12|]. eapply trace_ext_trans; [|exact X4].
    exists [(KOpen k, Some f)]. split; [exact TR3|]. intros c f' [E|[]]. inversion E; subst. exists k, ob, xs. auto. }
  destruct f3 as [[| |]|].
  - eapply ABS; eauto. discriminate.
  - discriminate.
  - simpl in H. destruct w; simpl in H; eapply ABS; eauto; discriminate.
  - assert (X3: trace_ext (g_store g) w g g3).
    { eapply trace_ext_trans; [exact X12|]. exists [(KOpen k, None)]. split; [exact TR3|]. intros c f [E|[]]. inversion E. }
    destruct (lookup k (g_store g2)) as [ob|].
    + destruct (avro_parse w (body ob)).
      * inversion H; subst. exact X3.
      * destruct (FB g3 g' S3 H) as [X4 _]. eapply trace_ext_trans; eauto.
      * discriminate.
    + destruct (FB g3 g' S3 H) as [X4 _]. eapply trace_ext_trans; eauto.
Qed.

Lemma read_all_transient : forall w o ks g ys g', read_all w o g ks = (Some ys, g') -> trace_ext (g_store g) w g g'.
Proof.
  intros w o ks. induction ks as [|k r IH]; intros g ys g' H; simpl in H.
  - inversion H; subst. apply trace_ext_refl.
  - destruct (read_one w o g k) as [[xs|] g1] eqn:E1; [|discriminate].
    destruct (read_all w o g1 r) as [[zs|] g2] eqn:E2; [|discriminate]. inversion H; subst.
    pose proof (read_one_store _ _ _ _ _ _ E1) as S1. apply read_one_transient in E1. apply IH in E2. rewrite S1 in E2.
    eapply trace_ext_trans; eauto.
Qed.

(* a collection that gets to the sweeps read every list and manifest without an effective fault *)
Theorem reach_phase_fault_free_from : forall mf tp grace now timeout o snaps g0,
  markers_wf (g_store g0) ->
  ~ aborted_before_sweep (gc_run_from mf tp grace now timeout o snaps g0) ->
  exists g mpaths g1 entries g2,
    only_markers_removed now timeout (g_store g0) (g_store g)
    /\ read_all WList o g (norm_set tp snaps) = (Some mpaths, g1)
    /\ read_all WManifest o g1 (norm_set tp mpaths) = (Some entries, g2)
    /\ trace_ext (g_store g) WList g g1 /\ trace_ext (g_store g) WManifest g1 g2.
Proof.
  intros mf tp grace now timeout o snaps g0 MW NA.
  destruct (run_reached mf tp grace now timeout o snaps g0 MW NA) as [g [g' [rl [rm [rd [RE [O _]]]]]]].
  destruct (reach_ok_reads _ _ _ _ _ _ _ _ RE) as [mp [g1 [es [-> [-> [RL RM]]]]]].
  exists g, mp, g1, es, g'. split; [exact O|]. split; [exact RL|]. split; [exact RM|].
  pose proof (read_all_store _ _ _ _ _ _ RL) as S1. split.
  - eapply read_all_transient; eauto.
  - rewrite <- S1. eapply read_all_transient; eauto.
Qed.

Theorem reach_phase_fault_free : forall tp grace now timeout o snaps st,
  wf_store snaps st ->
  ~ aborted_before_sweep (gc_run tp grace now timeout o snaps st) ->
  exists g mpaths g1 entries g2,
    only_markers_removed now timeout st (g_store g)
    /\ read_all WList o g (norm_set tp snaps) = (Some mpaths, g1)
    /\ read_all WManifest o g1 (norm_set tp mpaths) = (Some entries, g2)
    /\ trace_ext (g_store g) WList g g1 /\ trace_ext (g_store g) WManifest g1 g2.
Proof.
  intros tp grace now timeout o snaps st WF NA. unfold gc_run in NA.
  exact (reach_phase_fault_free_from MARKERS_FIRST tp grace now timeout o snaps (mkG 0 st []) (wf_store_markers _ _ WF) NA).
Qed.

(* deleted keys were listed under data/ or metadata/manifests/ (or are the "../x" entry): never marker keys *)
Lemma sweeps_deleted_not_marker : forall tp grace now o rl rm rd prot g k,
  In k (r_deleted (sweeps tp grace now o rl rm rd prot g)) -> is_marker_key k -> False.
Proof.
  intros tp grace now o rl rm rd prot g k. unfold sweeps.
  destruct (sweep tp grace now (rd ++ prot) o g DATA_PREFIX []) as [[b1 d1] g4] eqn:SW1.
  apply sweep_spec in SW1. destruct SW1 as [_ [A2 _]].
  assert (D1: forall k0, In k0 d1 -> is_marker_key k0 -> False).
  { intros k0 Hk [M _]. destruct (A2 k0 Hk) as [[]|[[Hp| ->] _]].
    - rewrite (marker_not_data k0 M) in Hp. discriminate.
    - discriminate. }
  destruct b1; [exact (D1 k)|].
  destruct (sweep tp grace now ((rm ++ rl) ++ prot) o g4 MANIFESTS_PREFIX d1) as [[b2 d2] g5] eqn:SW2.
  apply sweep_spec in SW2. destruct SW2 as [_ [B2 _]].
  assert (D2: forall k0, In k0 d2 -> is_marker_key k0 -> False).
  { intros k0 Hk M. destruct (B2 k0 Hk) as [Hk1|[[Hp| ->] _]]; [exact (D1 k0 Hk1 M)| |].
    - destruct M as [M _]. rewrite (marker_not_manifests k0 M) in Hp. discriminate.
    - destruct M as [M _]. discriminate. }
  destruct b2; exact (D2 k).
Qed.

Lemma deleted_not_marker_from : forall mf tp grace now timeout o snaps g0 k,
  In k (r_deleted (gc_run_from mf tp grace now timeout o snaps g0)) -> is_marker_key k -> False.
Proof.
  intros mf tp grace now timeout o snaps g0 k. unfold gc_run_from. destruct mf.
  - destruct (load_protection tp timeout now o g0) as [[prot|] g1]; [|intros []].
    destruct (reach tp o snaps g1) as [[ph rl rm|rl rm rd] g2]; [intros []|apply sweeps_deleted_not_marker].
  - destruct (reach tp o snaps g0) as [[ph rl rm|rl rm rd] g1]; [intros []|].
    destruct (load_protection tp timeout now o g1) as [[prot|] g2]; [apply sweeps_deleted_not_marker|intros []].
Qed.

Theorem damage_aborts : forall (tp : string) (grace now timeout : Z) (o : oracle) (snaps : list string) (st : store) (k : key),
  wf_store snaps st ->
  (ref_list snaps k /\ damaged_list st k) \/ (ref_manifest snaps st k /\ damaged_manifest st k) ->
  aborted_before_sweep (gc_run tp grace now timeout o snaps st) /\ r_deleted (gc_run tp grace now timeout o snaps st) = [].
Proof.
  intros tp grace now timeout o snaps st k W D. unfold gc_run.
  exact (damaged_aborts_from MARKERS_FIRST tp grace now timeout o snaps (mkG 0 st []) k W D).
Qed.

Theorem marker_keep : forall (tp : string) (grace now timeout : Z) (o : oracle) (snaps : list string) (st : store),
  wf_store snaps st ->
  let r := gc_run tp grace now timeout o snaps st in
  (forall mk ob, lookup mk (g_store (r_final r)) = Some ob -> is_marker_key mk ->
     forall k, marker_denotes mk ob k -> ~ In k (r_deleted r)) /\
  (forall mk ob, lookup mk st = Some ob -> is_marker_key mk -> lookup mk (g_store (r_final r)) = None -> mtime ob < now - timeout).
Proof.
  intros tp grace now timeout o snaps st W r. pose proof (gc_safe_all_faults tp grace now timeout o snaps st W) as S. split.
  - exact (gs_marker_keep _ _ _ _ _ _ S).
  - intros mk ob L M N. destruct (gs_store _ _ _ _ _ _ S mk ob L N) as [D|[Old _]]; [|exact Old].
    exfalso. exact (deleted_not_marker_from MARKERS_FIRST tp grace now timeout o snaps (mkG 0 st []) mk D M).
Qed.

(* ------------------------------------------------------------------ partial decodes are never trusted *)
(* a file whose Avro stream yields some records and then fails (damaged later record / block / sync marker, or a read
   error mid-stream) is never read as the records decoded so far, whatever else the oracle does *)
Lemma read_one_partial : forall w o g k ob decoded caught,
  lookup k (g_store g) = Some ob -> body ob = CPartialAvro decoded caught -> fst (read_one w o g k) = None.
Proof.
  intros w o g k ob decoded caught L B. destruct (read_one w o g k) as [[xs|] g'] eqn:E; [|reflexivity].
  exfalso. apply read_one_sound in E. destruct E as [H _].
  assert (X: exists ob', lookup k (g_store g) = Some ob' /\ as_w w (body ob') = Some xs) by (destruct w; exact H).
  destruct X as [ob' [L' B']]. rewrite L in L'. inversion L'; subst ob'. rewrite B in B'. destruct w; discriminate.
Qed.

Theorem partial_decode_aborts : forall (tp : string) (grace now timeout : Z) (o : oracle) (snaps : list string) (st : store)
    (k : key) (ob : obj) (decoded : list string) (caught : bool),
  wf_store snaps st -> lookup k st = Some ob -> body ob = CPartialAvro decoded caught ->
  ref_list snaps k \/ ref_manifest snaps st k ->
  (forall w o' g, g_store g = st -> fst (read_one w o' g k) = None)
  /\ aborted_before_sweep (gc_run tp grace now timeout o snaps st) /\ r_deleted (gc_run tp grace now timeout o snaps st) = [].
Proof.
  intros tp grace now timeout o snaps st k ob decoded caught W L B R. split.
  - intros w o' g S. eapply read_one_partial; eauto. rewrite S. exact L.
  - apply (damage_aborts tp grace now timeout o snaps st k W). destruct R as [R|R]; [left|right]; (split; [exact R|]).
    + unfold damaged_list. rewrite L, B. reflexivity.
    + unfold damaged_manifest. rewrite L, B. reflexivity.
Qed.
