(* Proofs/GCFaultProofs.v -- damage classes and transient failures of the reachability phase. *)
From Coq Require Import ZArith String Ascii List Bool Arith Lia.
Require Import DS.Model.PyStr DS.Gen.GenNorm DS.Model.GC DS.Proofs.PyStrProofs DS.Proofs.GCNormProofs DS.Proofs.GCProofs.
Import ListNotations.
Open Scope string_scope.
Open Scope Z_scope.

(* a reachable file is damaged when it is missing or does not parse as what it must be *)
Definition damaged_list (st : store) (k : key) : Prop :=
  match lookup k st with None => True | Some ob => as_list (body ob) = None end.
Definition damaged_manifest (st : store) (k : key) : Prop :=
  match lookup k st with None => True | Some ob => as_manifest (body ob) = None end.

Lemma outcome_eq_dec : forall a b : outcome, {a = b} + {a <> b}.
Proof. decide equality. decide equality. Qed.

Lemma gc_run_lists_ok : forall tp grace now timeout o snaps st,
  r_out (gc_run tp grace now timeout o snaps st) <> Aborted PhLists ->
  exists mpaths g1, read_all WList o (mkG 0 st []) (norm_set tp snaps) = (Some mpaths, g1).
Proof.
  intros tp grace now timeout o snaps st H. unfold gc_run, gc_run_from in H.
  destruct (read_all WList o (mkG 0 st []) (norm_set tp snaps)) as [[mp|] g1] eqn:E; [exists mp, g1; reflexivity|]. exfalso. apply H. reflexivity.
Qed.

Lemma gc_run_manifests_ok : forall tp grace now timeout o snaps st,
  r_out (gc_run tp grace now timeout o snaps st) <> Aborted PhLists ->
  r_out (gc_run tp grace now timeout o snaps st) <> Aborted PhManifests ->
  exists mpaths g1 entries g2, read_all WList o (mkG 0 st []) (norm_set tp snaps) = (Some mpaths, g1)
     /\ read_all WManifest o g1 (norm_set tp mpaths) = (Some entries, g2).
Proof.
  intros tp grace now timeout o snaps st H1 H2. unfold gc_run, gc_run_from in *.
  destruct (read_all WList o (mkG 0 st []) (norm_set tp snaps)) as [[mp|] g1] eqn:E1; [|exfalso; apply H1; reflexivity].
  destruct (read_all WManifest o g1 (norm_set tp mp)) as [[es|] g2] eqn:E2; [exists mp, g1, es, g2; auto|]. exfalso. apply H2. reflexivity.
Qed.

(* every damage class of a reachable manifest list aborts, whatever else fails *)
Theorem damaged_list_aborts : forall tp grace now timeout o snaps st k,
  wf_store snaps st -> ref_list snaps k -> damaged_list st k ->
  r_out (gc_run tp grace now timeout o snaps st) = Aborted PhLists /\ r_deleted (gc_run tp grace now timeout o snaps st) = [].
Proof.
  intros tp grace now timeout o snaps st k WF R D.
  assert (A: r_out (gc_run tp grace now timeout o snaps st) = Aborted PhLists).
  { destruct (outcome_eq_dec (r_out (gc_run tp grace now timeout o snaps st)) (Aborted PhLists)) as [E|NE]; [exact E|exfalso].
    destruct (gc_run_lists_ok _ _ _ _ _ _ _ NE) as [mp [g1 RL]].
    destruct (read_all_sound _ _ _ _ _ _ RL) as [A _]. cbn [g_store] in A.
    destruct (A k (lists_complete tp snaps st WF k R)) as [xs [[ob [L B]] _]].
    unfold damaged_list in D. rewrite L in D. congruence. }
  split; [exact A|]. apply (gs_abort_clean _ _ _ _ _ _ (gc_safe_all_faults tp grace now timeout o snaps st WF)). left. exact A.
Qed.

Theorem damaged_manifest_aborts : forall tp grace now timeout o snaps st k,
  wf_store snaps st -> ref_manifest snaps st k -> damaged_manifest st k ->
  (r_out (gc_run tp grace now timeout o snaps st) = Aborted PhLists \/ r_out (gc_run tp grace now timeout o snaps st) = Aborted PhManifests)
  /\ r_deleted (gc_run tp grace now timeout o snaps st) = [].
Proof.
  intros tp grace now timeout o snaps st k WF R D.
  assert (A: r_out (gc_run tp grace now timeout o snaps st) = Aborted PhLists \/ r_out (gc_run tp grace now timeout o snaps st) = Aborted PhManifests).
  { destruct (outcome_eq_dec (r_out (gc_run tp grace now timeout o snaps st)) (Aborted PhLists)) as [E|NE]; [left; exact E|].
    destruct (outcome_eq_dec (r_out (gc_run tp grace now timeout o snaps st)) (Aborted PhManifests)) as [E|NE2]; [right; exact E|exfalso].
    destruct (gc_run_manifests_ok _ _ _ _ _ _ _ NE NE2) as [mp [g1 [es [g2 [RL RM]]]]].
    destruct (read_all_sound _ _ _ _ _ _ RM) as [A _].
    rewrite (g1_store tp snaps st o (mkG 0 st []) g1 mp eq_refl RL) in A.
    destruct (A k (manifests_complete tp snaps st WF o (mkG 0 st []) g1 mp eq_refl RL k R)) as [xs [[ob [L B]] _]].
    unfold damaged_manifest in D. rewrite L in D. congruence. }
  split; [exact A|]. apply (gs_abort_clean _ _ _ _ _ _ (gc_safe_all_faults tp grace now timeout o snaps st WF)).
  destruct A as [A|A]; [left|right; left]; exact A.
Qed.

(* ------------------------------------------------------------------ transient failures *)
(* the only fault a successful read can have absorbed: an OSError-class failure or garbage on open_file of a file
   that is in the legacy JSON format anyway (the Avro attempt fails either way; the JSON read was fault-free) *)
Definition absorbed_open (st : store) (w : want) (c : call) (f : fault) : Prop :=
  exists k ob xs, c = KOpen k /\ f <> FRaiseX /\ lookup k st = Some ob /\ json_parse w (body ob) = Some xs.

Definition trace_ext (st : store) (w : want) (g g' : gst) : Prop :=
  exists delta, g_trace g' = (delta ++ g_trace g)%list /\ forall c f, In (c, Some f) delta -> absorbed_open st w c f.

Lemma trace_ext_refl : forall st w g, trace_ext st w g g.
Proof. intros. exists []. split; [reflexivity|intros c f []]. Qed.

Lemma trace_ext_trans : forall st w a b c, trace_ext st w a b -> trace_ext st w b c -> trace_ext st w a c.
Proof.
  intros st w a b c [d1 [E1 H1]] [d2 [E2 H2]]. exists (d2 ++ d1)%list. split.
  - rewrite E2, E1. apply app_assoc.
  - intros x f Hin. apply in_app_or in Hin. destruct Hin; auto.
Qed.

Lemma tick_clean : forall st w o g c g', tick o g c = (None, g') -> trace_ext st w g g' /\ g_store g' = g_store g.
Proof.
  intros st w o g c g' H. unfold tick in H. inversion H; subst. split; [|reflexivity].
  exists [(c, o (g_calls g))]. split; [reflexivity|]. intros c' f [E|[]]. inversion E. congruence.
Qed.

Lemma read_one_transient : forall w o g k xs g', read_one w o g k = (Some xs, g') -> trace_ext (g_store g) w g g'.
Proof.
  intros w o g k xs g' H. unfold read_one in H.
  (* first exists *)
  unfold do_exists at 1 in H. destruct (tick o g (KExists k)) as [f1 g1] eqn:T1.
  destruct f1 as [[| |]|]; try discriminate.
  destruct (tick_clean (g_store g) w _ _ _ _ T1) as [X1 S1].
  destruct (is_some (lookup k (g_store g))); [|discriminate].
  unfold do_exists at 1 in H. destruct (tick o g1 (KExists k)) as [f2 g2] eqn:T2.
  destruct f2 as [[| |]|]; try discriminate.
  destruct (tick_clean (g_store g) w _ _ _ _ T2) as [X2 S2].
  destruct (is_some (lookup k (g_store g1))); [|discriminate].
  assert (X12: trace_ext (g_store g) w g g2) by (eapply trace_ext_trans; eauto).
  assert (FB: forall g3 g4, g_store g3 = g_store g -> read_fallback w o g3 k = (Some xs, g4) ->
             trace_ext (g_store g) w g3 g4 /\ exists ob, lookup k (g_store g) = Some ob /\ json_parse w (body ob) = Some xs).
  { intros g3 g4 S3 HF. unfold read_fallback, do_read in HF. destruct (tick o g3 (KRead k)) as [f3 g3'] eqn:T3.
    destruct f3 as [[| |]|]; try discriminate.
    - simpl in HF. destruct w; discriminate.
    - destruct (tick_clean (g_store g) w _ _ _ _ T3) as [X3 _]. rewrite S3 in HF.
      destruct (lookup k (g_store g)) as [ob|] eqn:L; simpl in HF; [|discriminate]. inversion HF; subst. split; [exact X3|eauto]. }
  unfold do_open in H. destruct (tick o g2 (KOpen k)) as [f3 g3] eqn:T3.
  assert (S3: g_store g3 = g_store g) by (unfold tick in T3; inversion T3; subst; simpl; congruence).
  assert (TR3: g_trace g3 = ((KOpen k, f3) :: g_trace g2)%list) by (unfold tick in T3; inversion T3; subst; reflexivity).
  assert (ABS: forall f g4, f3 = Some f -> f <> FRaiseX -> read_fallback w o g3 k = (Some xs, g4) -> trace_ext (g_store g) w g g4).
  { intros f g4 -> NX HF. destruct (FB g3 g4 S3 HF) as [X4 [ob [L J]]].
    eapply trace_ext_trans; [exact X12|]. eapply trace_ext_trans; [|exact X4].
    exists [(KOpen k, Some f)]. split; [exact TR3|]. intros c f' [E|[]]. inversion E; subst. exists k, ob, xs. auto. }
  destruct f3 as [[| |]|].
  - eapply ABS; eauto. discriminate.
  - discriminate.
  - simpl in H. destruct w; simpl in H; eapply ABS; eauto; discriminate.
  - assert (X3: trace_ext (g_store g) w g g3).
    { eapply trace_ext_trans; [exact X12|]. exists [(KOpen k, None)]. split; [exact TR3|]. intros c f [E|[]]. inversion E. }
    destruct (lookup k (g_store g2)) as [ob|].
    + destruct (avro_parse w (body ob)).
      * inversion H; subst. exact X3.
      * destruct (FB g3 g' S3 H) as [X4 _]. eapply trace_ext_trans; eauto.
      * discriminate.
    + destruct (FB g3 g' S3 H) as [X4 _]. eapply trace_ext_trans; eauto.
Qed.

Lemma read_all_transient : forall w o ks g ys g', read_all w o g ks = (Some ys, g') -> trace_ext (g_store g) w g g'.
Proof.
  intros w o ks. induction ks as [|k r IH]; intros g ys g' H; simpl in H.
  - inversion H; subst. apply trace_ext_refl.
  - destruct (read_one w o g k) as [[xs|] g1] eqn:E1; [|discriminate].
    destruct (read_all w o g1 r) as [[zs|] g2] eqn:E2; [|discriminate]. inversion H; subst.
    pose proof (read_one_store _ _ _ _ _ _ E1) as S1. apply read_one_transient in E1. apply IH in E2. rewrite S1 in E2.
    eapply trace_ext_trans; eauto.
Qed.

(* a collection that gets past the reachability phase read every list and manifest without an effective fault *)
Theorem reach_phase_fault_free : forall tp grace now timeout o snaps st,
  r_out (gc_run tp grace now timeout o snaps st) <> Aborted PhLists ->
  r_out (gc_run tp grace now timeout o snaps st) <> Aborted PhManifests ->
  exists mpaths g1 entries g2,
    read_all WList o (mkG 0 st []) (norm_set tp snaps) = (Some mpaths, g1)
    /\ read_all WManifest o g1 (norm_set tp mpaths) = (Some entries, g2)
    /\ (forall c f, In (c, Some f) (g_trace g1) -> absorbed_open st WList c f)
    /\ (forall c f, In (c, Some f) (g_trace g2) -> absorbed_open st WList c f \/ absorbed_open st WManifest c f).
Proof.
  intros tp grace now timeout o snaps st H1 H2.
  destruct (gc_run_manifests_ok _ _ _ _ _ _ _ H1 H2) as [mp [g1 [es [g2 [RL RM]]]]].
  exists mp, g1, es, g2. split; [exact RL|]. split; [exact RM|].
  pose proof (read_all_store _ _ _ _ _ _ RL) as S1. cbn [g_store] in S1.
  apply read_all_transient in RL. apply read_all_transient in RM. rewrite S1 in RM. cbn [g_store] in RL.
  destruct RL as [d1 [E1 A1]]. destruct RM as [d2 [E2 A2]]. cbn [g_trace] in E1. rewrite app_nil_r in E1.
  split.
  - intros c f Hin. rewrite E1 in Hin. auto.
  - intros c f Hin. rewrite E2, E1 in Hin. apply in_app_or in Hin. destruct Hin; auto.
Qed.

(* deleted keys were listed under data/ or metadata/manifests/ (or are the "../x" entry): never marker keys *)
Lemma deleted_not_marker : forall tp grace now timeout o snaps st,
  wf_store snaps st -> forall k, In k (r_deleted (gc_run tp grace now timeout o snaps st)) -> is_marker_key k -> False.
Proof.
  intros tp grace now timeout o snaps st WF k. unfold gc_run, gc_run_from.
  destruct (read_all WList o (mkG 0 st []) (norm_set tp snaps)) as [[mp|] g1]; [|intros []].
  destruct (read_all WManifest o g1 (norm_set tp mp)) as [[es|] g2]; [|intros []].
  destruct (load_protection tp timeout now o g2) as [[prot|] g3]; [|intros []].
  destruct (sweep tp grace now (map (normalize_path tp) es ++ prot) o g3 DATA_PREFIX []) as [[b1 d1] g4] eqn:SW1.
  apply sweep_spec in SW1. destruct SW1 as [_ [A2 _]].
  assert (D1: forall k0, In k0 d1 -> is_marker_key k0 -> False).
  { intros k0 Hk [M _]. destruct (A2 k0 Hk) as [[]|[[Hp| ->] _]].
    - rewrite (marker_not_data k0 M) in Hp. discriminate.
    - discriminate. }
  destruct b1; [exact (D1 k)|].
  destruct (sweep tp grace now ((norm_set tp mp ++ norm_set tp snaps) ++ prot) o g4 MANIFESTS_PREFIX d1) as [[b2 d2] g5] eqn:SW2.
  apply sweep_spec in SW2. destruct SW2 as [_ [B2 _]].
  assert (D2: forall k0, In k0 d2 -> is_marker_key k0 -> False).
  { intros k0 Hk M. destruct (B2 k0 Hk) as [Hk1|[[Hp| ->] _]]; [exact (D1 k0 Hk1 M)| |].
    - destruct M as [M _]. rewrite (marker_not_manifests k0 M) in Hp. discriminate.
    - destruct M as [M _]. discriminate. }
  destruct b2; exact (D2 k).
Qed.

Theorem damage_aborts : forall (tp : string) (grace now timeout : Z) (o : oracle) (snaps : list string) (st : store) (k : key),
  wf_store snaps st ->
  (ref_list snaps k -> damaged_list st k ->
     r_out (gc_run tp grace now timeout o snaps st) = Aborted PhLists /\ r_deleted (gc_run tp grace now timeout o snaps st) = []) /\
  (ref_manifest snaps st k -> damaged_manifest st k ->
     (r_out (gc_run tp grace now timeout o snaps st) = Aborted PhLists \/ r_out (gc_run tp grace now timeout o snaps st) = Aborted PhManifests)
     /\ r_deleted (gc_run tp grace now timeout o snaps st) = []).
Proof.
  intros tp grace now timeout o snaps st k W. split; intros R D.
  - exact (damaged_list_aborts tp grace now timeout o snaps st k W R D).
  - exact (damaged_manifest_aborts tp grace now timeout o snaps st k W R D).
Qed.

Theorem marker_keep : forall (tp : string) (grace now timeout : Z) (o : oracle) (snaps : list string) (st : store),
  wf_store snaps st ->
  let r := gc_run tp grace now timeout o snaps st in
  (forall mk ob, lookup mk (g_store (r_final r)) = Some ob -> is_marker_key mk ->
     forall k, marker_denotes mk ob k -> ~ In k (r_deleted r)) /\
  (forall mk ob, lookup mk st = Some ob -> is_marker_key mk -> lookup mk (g_store (r_final r)) = None -> mtime ob < now - timeout).
Proof.
  intros tp grace now timeout o snaps st W r. pose proof (gc_safe_all_faults tp grace now timeout o snaps st W) as S. split.
  - exact (gs_marker_keep _ _ _ _ _ _ S).
  - intros mk ob L M N. destruct (gs_store _ _ _ _ _ _ S mk ob L N) as [D|[Old _]]; [|exact Old].
    exfalso. exact (deleted_not_marker tp grace now timeout o snaps st W mk D M).
Qed.
