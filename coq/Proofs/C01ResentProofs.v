(* Proofs/C01ResentProofs.v -- C01, "a commit that reported a conflict is not reflected" on conditional-write storage when the
   store's refusal can be the answer to a write it APPLIED (the SDK re-sent a conditional PUT whose first copy landed).
   Stated over Model/FlipFault.v, the machine that HAS the read-back of the repaired library (XFlipResent / XReadBack, driven
   by the regenerated gen_refused_reads_back / gen_write_landed) -- not over a machine without it.
     * prompt machine (no pointer write lands between an applied-and-refused write and its read-back): holds;
     * every schedule: FALSE -- a second committer commits on top of the applied version before the read-back, the read-back
       sees the successor's name, the first committer is told "conflict", its retry budget is used up (delete_snapshot: 1),
       it reports the conflict to its caller, and its commit is in the version chain.
   Also: what the regenerated settle policy really shows (it never asserts anything), and the lock layer's exclusivity
   without the fork hypothesis (refuted). *)
From Coq Require Import ZArith List Bool Arith Lia.
Require Import DS.Model.CommitBase DS.Gen.GenCommit DS.Model.Commit DS.Model.FlipFault DS.Model.TxSettle.
Require Import DS.Proofs.CommitProofs DS.Proofs.FlipFaultProofs DS.Proofs.TxSettleProofs.
Require Import DS.Model.ProcLockBase DS.Gen.GenFileLock DS.Model.ProcLock.
Import ListNotations.

Definition conflict_not_reflected_for (prompt : bool) : Prop :=
  forall c atomic m0 kind mr xs, cas c = true ->
    let X := xrun_p prompt c atomic (xinit (init_world m0 kind mr)) xs in
    forall a, a_pc (w_actors (xw X) a) = PDone Conflict -> ~ In a (map snd (w_hist (xw X))).

Lemma conflict_not_reflected_prompt : conflict_not_reflected_for true.
Proof.
  intros c atomic m0 kind mr xs CAS X a P HI.
  destruct (acknowledged_iff_applied_prompt c atomic m0 kind mr xs CAS) as [AK _]. fold X in AK.
  apply AK in HI. rewrite P in HI. discriminate.
Qed.

(* the two-committer superseded schedule of FlipFaultProofs (C08), committer 0 with retry budget 1 *)
Definition resent_cfg := {| cas := true; lockkind := GrantAll |}.
Definition resent_m0 := {| m_ops := []; m_cur := 1; m_lu := 100%Z |}.
Definition resent_budget (a : aid) : nat := match a with O => 1%nat | _ => 50%nat end.

Lemma resent_witness_accepted :
  match xrun_strict_p false resent_cfg false (xinit (init_world resent_m0 (fun _ => KKeep) resent_budget)) superseded_witness 0 with
  | inl X => a_pc (w_actors (xw X) 0%nat) = PDone Conflict /\ a_pc (w_actors (xw X) 1%nat) = PDone Success
             /\ map snd (w_hist (xw X)) = [0%nat; 1%nat] /\ m_ops (file (xw X) (w_ptr (xw X))) = [0%nat; 1%nat]
             /\ x_misreported X = [0%nat]
  | inr _ => False
  end.
Proof. vm_compute. repeat split; reflexivity. Qed.

Lemma conflict_not_reflected_full_refuted : ~ (forall prompt, conflict_not_reflected_for prompt).
Proof.
  intro F. apply (F false resent_cfg false resent_m0 (fun _ => KKeep) resent_budget superseded_witness eq_refl 0%nat).
  - vm_compute. reflexivity.
  - vm_compute. auto.
Qed.

(* ------------------------------------------------------------------ the regenerated settle policy asserts nothing *)
Lemma gen_trun_never_definite c atomic last ts : forall T0,
  (forall a, t_rep T0 a = None \/ t_rep T0 a = Some RepAmbiguous) ->
  forall a, t_rep (trun (gen_policy true atomic last) c atomic T0 ts) a = None
            \/ t_rep (trun (gen_policy true atomic last) c atomic T0 ts) a = Some RepAmbiguous.
Proof.
  induction ts as [|t ts IH]; intros T0 D; [exact D|].
  rewrite trun_cons. apply IH. unfold tstep_skip. destruct (tstep _ c atomic T0 t) as [T'|] eqn:St; [|exact D].
  destruct t as [x|b]; simpl in St.
  - destruct (xstep_p true c atomic (t_x T0) x); [|discriminate]. inversion St; subst T'. exact D.
  - destruct (memb b (x_failed (t_x T0)) && unset (x_err (t_x T0) b) && unset (t_rep T0 b)); [|discriminate].
    rewrite gen_policy_cas_unknown in St. inversion St; subst T'. simpl. intro a. unfold set_rep.
    destruct (Nat.eqb a b); [right; reflexivity | apply D].
Qed.

Lemma regenerated_settle_never_definite c atomic last m0 kind mr ts : cas c = true ->
  let T := trun (gen_policy (cas c) atomic last) c atomic (tinit (init_world m0 kind mr)) ts in
  (forall a, t_rep T a = None \/ t_rep T a = Some RepAmbiguous) /\ t_deleted T = [].
Proof.
  intros CAS T. subst T. rewrite CAS. split.
  - apply gen_trun_never_definite. intro a. left. reflexivity.
  - apply gen_trun_deletes_nothing. reflexivity.
Qed.

(* ------------------------------------------------------------------ the lock layer without the fork hypothesis *)
Definition lock_exclusive_any_events : Prop :=
  forall (proc : hid -> pid) evs h1 h2,
    let s := lrun gen_lock_disc proc linit evs in lholds s h1 -> lholds s h2 -> h1 = h2.

Lemma lock_exclusive_any_events_refuted : ~ lock_exclusive_any_events.
Proof.
  intro F.
  assert (E : 0%nat = 1%nat); [|discriminate E].
  apply (F (fun h => h) [LStep 0 KOpen; LStep 0 (KTry true); LFork 0 1]%nat 0%nat 1%nat); eexists; vm_compute; reflexivity.
Qed.
