(* Proofs/CreateProofs.v -- creating a table is idempotent and race-safe (C18). *)
From Coq Require Import List Bool Arith Lia.
Require Import DS.Model.CommitBase DS.Gen.GenCommit DS.Model.Commit DS.Model.Create DS.Proofs.CommitProofs.
Import ListNotations.

(* what the SOURCE does on a refused create-if-absent (regenerated): resolve again, remove the own v0 when another
   table is in effect.  Every proof below that concerns the files a race leaves behind depends on this equation. *)
Lemma conflict_class_eq : conflict_class = CFTableExistsDiscardForeign.
Proof. reflexivity. Qed.

Lemma updc_same a p g : updc a p g a = p.
Proof. unfold updc. rewrite Nat.eqb_refl. reflexivity. Qed.
Lemma updc_other a b p g : b <> a -> updc a p g b = g b.
Proof. unfold updc. intro H. destruct (Nat.eqb_spec b a); [contradiction|reflexivity]. Qed.

(* ------------------------------------------------------------------ recovery, deletion *)
Lemma recover_live l j : recover l = Some j -> exists m, nth_error l j = Some m /\ f_live m = true.
Proof.
  revert j. induction l as [|m t IH]; intros j H; simpl in H; [discriminate|].
  destruct (recover t) as [k|] eqn:R.
  - destruct (f_live m && (ver_at t k <? f_ver m)) eqn:B; inversion H; subst j.
    + apply andb_true_iff in B. exists m. simpl. tauto.
    + simpl. apply IH. reflexivity.
  - destruct (f_live m) eqn:B; inversion H; subst j. exists m. simpl. auto.
Qed.

Lemma recover_none l : recover l = None -> forall j m, nth_error l j = Some m -> f_live m = false.
Proof.
  induction l as [|m t IH]; intros H j x N; [destruct j; discriminate|]. simpl in H.
  destruct (recover t) as [k|] eqn:R.
  - destruct (f_live m && (ver_at t k <? f_ver m)); discriminate.
  - destruct (f_live m) eqn:B; [discriminate|]. destruct j; simpl in N; [inversion N; subst; exact B | eapply IH; eauto].
Qed.

Lemma recover_only l f : (forall j m, nth_error l j = Some m -> f_live m = true -> j = f) ->
  (exists m, nth_error l f = Some m /\ f_live m = true) -> recover l = Some f.
Proof.
  intros U [m [N L]]. destruct (recover l) as [j|] eqn:R.
  - destruct (recover_live l j R) as [x [Nx Lx]]. f_equal. eapply U; eauto.
  - rewrite (recover_none l R f m N) in L. discriminate.
Qed.

Lemma kill_length f l : length (kill f l) = length l.
Proof. revert f. induction l as [|m t IH]; intros [|f]; simpl; auto. Qed.

Lemma kill_nth_other f l g : g <> f -> nth_error (kill f l) g = nth_error l g.
Proof.
  revert f g. induction l as [|m t IH]; intros [|f] [|g] NE; simpl; auto; try congruence; try (apply IH; congruence).
Qed.

Lemma kill_nth_same f l m : nth_error l f = Some m ->
  nth_error (kill f l) f = Some {| f_id := f_id m; f_ver := f_ver m; f_live := false |}.
Proof.
  revert f. induction l as [|x t IH]; intros [|f] N; simpl in *; try discriminate; [inversion N; reflexivity | apply IH; exact N].
Qed.

Lemma kill_nth f l g m : nth_error (kill f l) g = Some m ->
  exists m0, nth_error l g = Some m0 /\ f_id m = f_id m0 /\ f_ver m = f_ver m0 /\ (f_live m = true -> g <> f /\ m = m0).
Proof.
  intro N. destruct (Nat.eq_dec g f) as [->|NE].
  - destruct (nth_error l f) as [m0|] eqn:N0.
    + rewrite (kill_nth_same f l m0 N0) in N. inversion N; subst m. exists m0. simpl. repeat split; auto; discriminate.
    + exfalso. assert (L : nth_error (kill f l) f <> None) by congruence. apply nth_error_Some in L.
      rewrite kill_length in L. apply nth_error_None in N0. lia.
  - rewrite kill_nth_other in N by exact NE. exists m. repeat split; auto.
Qed.

Lemma nth_error_app_old {A} (l : list A) x f a : nth_error l f = Some a -> nth_error (l ++ [x]) f = Some a.
Proof. intro H. rewrite nth_error_app1; auto. apply nth_error_Some. congruence. Qed.

Lemma nth_error_app_inv {A} (l : list A) x f a : nth_error (l ++ [x]) f = Some a ->
  nth_error l f = Some a \/ (f = length l /\ a = x).
Proof.
  intro H. destruct (Nat.lt_ge_cases f (length l)) as [L|G].
  - rewrite nth_error_app1 in H by exact L. auto.
  - rewrite nth_error_app2 in H by exact G. destruct (f - length l) as [|k] eqn:D; simpl in H.
    + inversion H. right. split; [lia|reflexivity].
    + destruct k; discriminate.
Qed.

(* ------------------------------------------------------------------ the invariant *)
Definition own_of (p : cpc) : option nat :=
  match p with CWritten f | CConflict f | CForeign f => Some f | _ => None end.

Definition inLS (p : cpc) : bool :=
  match p with CLocked | CChecked | CWritten _ | CPointed | CConflict _ | CForeign _ | CExists => true | _ => false end.

Definition v0 (a : aid) : mfile := {| f_id := a; f_ver := 0; f_live := true |}.

Record CInv (c : cfg) (w : cworld) : Prop := {
  CI_own : forall a f, own_of (c_pc w a) = Some f -> nth_error (c_files w) f = Some (v0 a);
  CI_ptr : forall f, c_ptr w = Some f -> live w f = true /\ forall a, own_of (c_pc w a) <> Some f;
  CI_creates : (c_ptr w = None -> c_creates w = []) /\ (length (c_creates w) <= 1)%nat;
  CI_conf : forall a f, c_pc w a = CConflict f \/ c_pc w a = CForeign f -> c_ptr w <> None;
  CI_lock : lockkind c = Excl -> forall a, inLS (c_pc w a) = true -> c_lock w = Some a;
  CI_held : forall a, c_lock w = Some a -> inLS (c_pc w a) = true;
  CI_excl : lockkind c = Excl -> forall a,
            (c_pc w a = CChecked -> c_ptr w = None /\ c_files w = [])
            /\ (forall f, c_pc w a = CWritten f -> c_ptr w = None /\ c_files w = [v0 a])
            /\ (forall f, c_pc w a <> CConflict f /\ c_pc w a <> CForeign f);
  CI_alllive : lockkind c = Excl -> forall g m, nth_error (c_files w) g = Some m -> f_live m = true }.

Ltac upd b a := destruct (Nat.eq_dec b a) as [?EQ|?NE]; [first [subst b | rewrite EQ in *]; rewrite ?updc_same in * | rewrite ?updc_other in * by assumption].

(* every enabled step, opened up: the goal is left with one case per transition, H consumed *)
Ltac open_step H :=
  unfold cstep in H; cbv zeta in H; rewrite ?conflict_class_eq in H;
  match type of H with context [ce_kind ?e] =>
    destruct (ce_kind e) as [found|ok|found| |ok|same| | | ]; [ | destruct ok | | | | | | | ];
    match type of H with context [c_pc ?w (ce_actor e)] => destruct (c_pc w (ce_actor e)) eqn:PC end; try discriminate
  end;
  repeat match type of H with
         | (if ?b then _ else _) = Some _ => let B := fresh "B" in destruct b eqn:B; try discriminate
         end;
  inversion H; subst; clear H.
Lemma set_inv c w a p : CInv c w ->
  (forall f, own_of p = Some f -> nth_error (c_files w) f = Some (v0 a) /\ c_ptr w <> Some f) ->
  (forall f, p = CConflict f \/ p = CForeign f -> c_ptr w <> None) ->
  (lockkind c = Excl -> inLS p = true -> c_lock w = Some a) ->
  (c_lock w = Some a -> inLS p = true) ->
  (lockkind c = Excl -> (p = CChecked -> c_ptr w = None /\ c_files w = [])
                        /\ (forall f, p = CWritten f -> c_ptr w = None /\ c_files w = [v0 a])
                        /\ (forall f, p <> CConflict f /\ p <> CForeign f)) ->
  CInv c (set w a p).
Proof.
  intros I Ho Hc Hl Hh He. constructor; simpl.
  - intros b f O. upd b a; [apply Ho; exact O | apply (CI_own c w I b f O)].
  - intros f P. destruct (CI_ptr c w I f P) as [L N]. split; [exact L|]. intros b O. upd b a.
    + destruct (Ho f O) as [_ X]. contradiction.
    + apply (N b O).
  - apply I.
  - intros b f X. upd b a; [apply (Hc f X) | apply (CI_conf c w I b f X)].
  - intros LK b X. upd b a; [apply Hl; assumption | apply (CI_lock c w I LK b X)].
  - intros b X. upd b a; [apply Hh; exact X | apply (CI_held c w I b X)].
  - intros LK b. upd b a; [apply He; exact LK | apply (CI_excl c w I LK b)].
  - apply I.
Qed.
Lemma resolve_none_excl c w : CInv c w -> lockkind c = Excl -> resolve w = None -> c_ptr w = None /\ c_files w = [].
Proof.
  intros I LK R. unfold resolve in R. destruct (c_ptr w) as [f|] eqn:P.
  - destruct (CI_ptr c w I f P) as [L _]. rewrite L in R. discriminate.
  - split; [reflexivity|]. destruct (c_files w) as [|m t] eqn:F; [reflexivity|].
    pose proof (recover_none _ R 0 m eq_refl) as D. pose proof (CI_alllive c w I LK 0 m) as A. rewrite F in A.
    specialize (A eq_refl). congruence.
Qed.

Lemma notLS_fields p (A : Prop) (B : nat -> Prop) : inLS p = false ->
  (p = CChecked -> A) /\ (forall f, p = CWritten f -> B f) /\ (forall f, p <> CConflict f /\ p <> CForeign f).
Proof. intro X. destruct p; try discriminate; repeat split; intros; discriminate. Qed.

Lemma cstep_inv c w e w' : sound c -> CInv c w -> cstep c w e = Some w' -> CInv c w'.
Proof.
  intros Snd I H. open_step H.
  - (* Probe *)
    apply set_inv; auto.
    + intros f O. destruct found; discriminate.
    + intros f [X|X]; destruct found; discriminate.
    + intros _ X. destruct found; discriminate.
    + intro L. pose proof (CI_held c w I _ L) as X. rewrite PC in X. discriminate.
    + intros _. repeat split; try (destruct found; discriminate).
  - (* LockTry true *)
    set (a := ce_actor e) in *.
    constructor; simpl.
    + intros b f O. upd b a; [discriminate | apply (CI_own c w I b f O)].
    + intros f P. destruct (CI_ptr c w I f P) as [L N]. split; [exact L|]. intros b O. upd b a; [discriminate | apply (N b O)].
    + apply I.
    + intros b f X. upd b a; [destruct X; discriminate | apply (CI_conf c w I b f X)].
    + intros LK b X. rewrite LK. upd b a; [reflexivity|].
      pose proof (CI_lock c w I LK b X) as L. unfold cfree in B. rewrite LK, L in B. discriminate.
    + intros b X. unfold cfree in B. destruct (lockkind c).
      * destruct (c_lock w); [discriminate|]. inversion X; subst b. rewrite updc_same. reflexivity.
      * destruct (c_lock w); [discriminate|]. inversion X; subst b. rewrite updc_same. reflexivity.
      * upd b a; [reflexivity | apply (CI_held c w I b X)].
    + intros LK b. upd b a; [repeat split; discriminate | apply (CI_excl c w I LK b)].
    + apply I.
  - (* LockTry false *) exact I.
  - (* Check *)
    set (a := ce_actor e) in *. apply eqb_prop in B.
    apply set_inv; auto.
    + intros f O. destruct found; discriminate.
    + intros f [X|X]; destruct found; discriminate.
    + intros LK _. apply (CI_lock c w I LK a). rewrite PC. reflexivity.
    + intros _. destruct found; reflexivity.
    + intros LK. repeat split; try (destruct found; discriminate).
      * destruct found; [discriminate|]. destruct (resolve w) eqn:R; [discriminate|]. apply (resolve_none_excl c w I LK R).
      * destruct found; [discriminate|]. destruct (resolve w) eqn:R; [discriminate|]. apply (resolve_none_excl c w I LK R).
  - (* MetaW *)
    set (a := ce_actor e) in *.
    assert (Others : lockkind c = Excl -> forall b, b <> a -> inLS (c_pc w b) = false).
    { intros LK b NE. destruct (inLS (c_pc w b)) eqn:X; [|reflexivity].
      pose proof (CI_lock c w I LK a) as La. rewrite PC in La. specialize (La eq_refl).
      pose proof (CI_lock c w I LK b X). congruence. }
    constructor; simpl.
    + intros b f O. upd b a.
      * inversion O; subst f. rewrite nth_error_app2 by lia. rewrite Nat.sub_diag. reflexivity.
      * apply nth_error_app_old. apply (CI_own c w I b f O).
    + intros f P. destruct (CI_ptr c w I f P) as [L N]. split.
      * unfold live in *. simpl. destruct (nth_error (c_files w) f) eqn:X; [|discriminate].
        rewrite (nth_error_app_old _ _ _ _ X). exact L.
      * intros b O. upd b a; [|apply (N b O)]. inversion O; subst f. unfold live in L.
        destruct (nth_error (c_files w) (length (c_files w))) eqn:X; [|discriminate].
        assert (Y : nth_error (c_files w) (length (c_files w)) <> None) by congruence. apply nth_error_Some in Y. lia.
    + apply I.
    + intros b f X. upd b a; [destruct X; discriminate | apply (CI_conf c w I b f X)].
    + intros LK b X. upd b a; [apply (CI_lock c w I LK a); rewrite PC; reflexivity | apply (CI_lock c w I LK b X)].
    + intros b X. upd b a; [reflexivity | apply (CI_held c w I b X)].
    + intros LK b. upd b a.
      * split; [discriminate|]. split; [|split; discriminate]. intros f _.
        destruct (proj1 (CI_excl c w I LK a) PC) as [E1 E2]. rewrite E2. simpl. auto.
      * apply notLS_fields. apply (Others LK b NE).
    + intros LK g m N. apply nth_error_app_inv in N. destruct N as [N|[_ ->]]; [apply (CI_alllive c w I LK g m N) | reflexivity].
  - (* PtrCreate true *)
    set (a := ce_actor e) in *. apply eqb_prop in B.
    assert (PN : c_ptr w = None).
    { destruct Snd as [CAS|EX].
      - rewrite CAS in B. destruct (c_ptr w); [discriminate|reflexivity].
      - apply (proj1 (proj2 (CI_excl c w I EX a)) f PC). }
    pose proof (CI_own c w I a f) as Of. rewrite PC in Of. specialize (Of eq_refl).
    constructor; simpl.
    + intros b g O. upd b a; [discriminate | apply (CI_own c w I b g O)].
    + intros g P. inversion P; subst g. split; [unfold live; simpl; rewrite Of; reflexivity|].
      intros b O. upd b a; [discriminate|]. pose proof (CI_own c w I b f O) as Ob. rewrite Of in Ob. inversion Ob. congruence.
    + split; [discriminate|]. rewrite app_length, (proj1 (CI_creates c w I) PN). simpl. lia.
    + intros b g X. discriminate.
    + intros LK b X. upd b a; [apply (CI_lock c w I LK a); rewrite PC; reflexivity | apply (CI_lock c w I LK b X)].
    + intros b X. upd b a; [reflexivity | apply (CI_held c w I b X)].
    + intros LK b. upd b a; [repeat split; discriminate|].
      pose proof (CI_lock c w I LK a) as La. rewrite PC in La. specialize (La eq_refl).
      assert (X : inLS (c_pc w b) = false).
      { destruct (inLS (c_pc w b)) eqn:X; [|reflexivity]. pose proof (CI_lock c w I LK b X). congruence. }
      apply notLS_fields. exact X.
    + apply I.
  - (* PtrCreate refused *)
    set (a := ce_actor e) in *. apply eqb_prop in B.
    assert (PS : c_ptr w <> None /\ lockkind c <> Excl).
    { split.
      - destruct (cas c); [|discriminate]. destruct (c_ptr w); [discriminate|discriminate].
      - intro EX. destruct (proj1 (proj2 (CI_excl c w I EX a)) f PC) as [N _]. rewrite N in B. destruct (cas c); discriminate. }
    destruct PS as [PS NEX].
    apply set_inv; auto.
    + intros g O. inversion O; subst g. split.
      * apply (CI_own c w I a f). rewrite PC. reflexivity.
      * intro P. apply (proj2 (CI_ptr c w I f P) a). rewrite PC. reflexivity.
    + intros LK. contradiction.
    + intros LK. contradiction.
  - (* Recheck *)
    set (a := ce_actor e) in *.
    assert (NEX : lockkind c <> Excl).
    { intro EX. apply (proj1 (proj2 (proj2 (CI_excl c w I EX a)) f) PC). }
    apply set_inv; auto.
    + intros g O. destruct same; [discriminate|]. inversion O; subst g. split.
      * apply (CI_own c w I a f). rewrite PC. reflexivity.
      * intro P. apply (proj2 (CI_ptr c w I f P) a). rewrite PC. reflexivity.
    + intros g _. apply (CI_conf c w I a f). auto.
    + intros LK. contradiction.
    + intros _. destruct same; reflexivity.
    + intros LK. contradiction.
  - (* Discard *)
    set (a := ce_actor e) in *.
    assert (NEX : lockkind c <> Excl).
    { intro EX. apply (proj2 (proj2 (proj2 (CI_excl c w I EX a)) f) PC). }
    constructor; simpl.
    + intros b g O. upd b a; [discriminate|].
      assert (g <> f).
      { intro E. subst g. pose proof (CI_own c w I b f O) as Ob. pose proof (CI_own c w I a f) as Oa. rewrite PC in Oa.
        specialize (Oa eq_refl). rewrite Oa in Ob. inversion Ob. congruence. }
      rewrite kill_nth_other by assumption. apply (CI_own c w I b g O).
    + intros g P. destruct (CI_ptr c w I g P) as [L N]. 
      assert (g <> f) by (intro E; subst g; apply (N a); rewrite PC; reflexivity).
      split; [unfold live in *; simpl; rewrite kill_nth_other by assumption; exact L|].
      intros b O. upd b a; [discriminate | apply (N b O)].
    + apply I.
    + intros b g X. upd b a; [destruct X; discriminate | apply (CI_conf c w I b g X)].
    + intros LK. contradiction.
    + intros b X. upd b a; [reflexivity | apply (CI_held c w I b X)].
    + intros LK. contradiction.
    + intros LK. contradiction.
  - (* Release from CPointed *)
    set (a := ce_actor e) in *.
    constructor; simpl; try apply I.
    + intros b g O. upd b a; [discriminate | apply (CI_own c w I b g O)].
    + intros g P. destruct (CI_ptr c w I g P) as [L N]. split; [exact L|]. intros b O. upd b a; [discriminate | apply (N b O)].
    + intros b g X. upd b a; [destruct X; discriminate | apply (CI_conf c w I b g X)].
    + intros LK b X. upd b a; [discriminate|].
      pose proof (CI_lock c w I LK a) as La. rewrite PC in La. specialize (La eq_refl).
      pose proof (CI_lock c w I LK b X). congruence.
    + intros b X. unfold release in X. destruct (c_lock w) as [l|] eqn:L; [|discriminate].
      destruct (Nat.eqb_spec a l); [discriminate|]. inversion X; subst l. upd b a; [congruence | apply (CI_held c w I b L)].
    + intros LK b. upd b a; [repeat split; discriminate | apply (CI_excl c w I LK b)].
  - (* Release from CExists *)
    set (a := ce_actor e) in *.
    constructor; simpl; try apply I.
    + intros b g O. upd b a; [discriminate | apply (CI_own c w I b g O)].
    + intros g P. destruct (CI_ptr c w I g P) as [L N]. split; [exact L|]. intros b O. upd b a; [discriminate | apply (N b O)].
    + intros b g X. upd b a; [destruct X; discriminate | apply (CI_conf c w I b g X)].
    + intros LK b X. upd b a; [discriminate|].
      pose proof (CI_lock c w I LK a) as La. rewrite PC in La. specialize (La eq_refl).
      pose proof (CI_lock c w I LK b X). congruence.
    + intros b X. unfold release in X. destruct (c_lock w) as [l|] eqn:L; [|discriminate].
      destruct (Nat.eqb_spec a l); [discriminate|]. inversion X; subst l. upd b a; [congruence | apply (CI_held c w I b L)].
    + intros LK b. upd b a; [repeat split; discriminate | apply (CI_excl c w I LK b)].
  - (* Adopt *)
    apply set_inv; auto; try discriminate.
    + intros f [X|X]; discriminate.
    + intro L. pose proof (CI_held c w I _ L) as X. rewrite PC in X. discriminate.
    + intros _. repeat split; discriminate.
Qed.

Lemma crun_cons c w e evs : crun c w (e :: evs) = crun c (cstep_skip c w e) evs.
Proof. reflexivity. Qed.

Lemma crun_app c w l1 l2 : crun c w (l1 ++ l2) = crun c (crun c w l1) l2.
Proof. unfold crun. apply fold_left_app. Qed.

(* an invariant of single steps is an invariant of runs *)
Lemma crun_ind c (P : cworld -> Prop) : (forall w e w', P w -> cstep c w e = Some w' -> P w') ->
  forall evs w, P w -> P (crun c w evs).
Proof.
  intros St. induction evs as [|e l IH]; intros w Pw; [exact Pw|]. rewrite crun_cons. apply IH. unfold cstep_skip.
  destruct (cstep c w e) eqn:S; [eapply St; eauto | exact Pw].
Qed.

Lemma crun_inv c w evs : sound c -> CInv c w -> CInv c (crun c w evs).
Proof. intros Snd. apply crun_ind. intros w0 e w1 I S. eapply cstep_inv; eauto. Qed.

Lemma absent_inv c : CInv c absent.
Proof.
  constructor; simpl; try discriminate.
  - split; [auto|lia].
  - intros a f [X|X]; discriminate.
  - intros _ a. repeat split; discriminate.
  - intros _ [|g] m; discriminate.
Qed.

Lemma chain_nth owner n g m : nth_error (chain owner n) g = Some m -> m = {| f_id := owner; f_ver := g; f_live := true |} /\ (g <= n)%nat.
Proof.
  unfold chain. intro N. destruct (nth_error (seq 0 (S n)) g) as [v|] eqn:X.
  - rewrite (map_nth_error _ _ _ X) in N. inversion N.
    assert (L : (g < length (seq 0 (S n)))%nat) by (apply nth_error_Some; congruence). rewrite seq_length in L.
    assert (V : nth g (seq 0 (S n)) 0 = v) by (apply nth_error_nth; exact X). rewrite seq_nth in V by exact L. simpl in V. subst v.
    split; [reflexivity | lia].
  - apply nth_error_None in X. rewrite seq_length in X. assert (Y : nth_error (map (fun v : nat => {| f_id := owner; f_ver := v; f_live := true |}) (seq 0 (S n))) g <> None) by congruence.
    apply nth_error_Some in Y. rewrite map_length, seq_length in Y. lia.
Qed.

Lemma chain_last owner n : nth_error (chain owner n) n = Some {| f_id := owner; f_ver := n; f_live := true |}.
Proof.
  unfold chain. assert (X : nth_error (seq 0 (S n)) n = Some n).
  { rewrite (nth_error_nth' _ 0) by (rewrite seq_length; lia). rewrite seq_nth by lia. reflexivity. }
  rewrite (map_nth_error _ _ _ X). reflexivity.
Qed.

Lemma existing_inv c owner n lost : CInv c (existing_n owner n lost).
Proof.
  constructor; simpl; try discriminate.
  - intros f P. split; [|discriminate]. destruct lost; inversion P; subst f. unfold live. simpl. rewrite chain_last. reflexivity.
  - split; [auto|lia].
  - intros a f [X|X]; discriminate.
  - intros _ a. repeat split; discriminate.
  - intros _ g m N. apply chain_nth in N. destruct N as [-> _]. reflexivity.
Qed.

(* exactly one initialisation takes effect: at most one pointer creation ever succeeds *)
Theorem single_init c evs : sound c -> (length (c_creates (crun c absent evs)) <= 1)%nat.
Proof. intro Snd. apply (CI_creates c _ (crun_inv c absent evs Snd (absent_inv c))). Qed.

(* once the pointer names a table it never names another one (within creation / opening) *)
Lemma cstep_ptr_stable c w e w' f : sound c -> CInv c w -> cstep c w e = Some w' -> c_ptr w = Some f -> c_ptr w' = Some f.
Proof.
  intros Snd I H P. open_step H; simpl; auto.
  (* PtrCreate true with a pointer already present: impossible *)
  exfalso. apply eqb_prop in B. destruct Snd as [CAS|EX].
  - rewrite CAS, P in B. discriminate.
  - destruct (proj1 (proj2 (CI_excl c w I EX (ce_actor e))) _ PC) as [N _]. congruence.
Qed.

Theorem pointer_stable c w evs f : sound c -> CInv c w -> c_ptr w = Some f -> c_ptr (crun c w evs) = Some f.
Proof.
  intros Snd I P.
  assert (G : CInv c (crun c w evs) /\ c_ptr (crun c w evs) = Some f); [|apply G].
  apply (crun_ind c (fun x => CInv c x /\ c_ptr x = Some f)); [|auto].
  intros w0 e w1 [I0 P0] S. split; [eapply cstep_inv; eauto | eapply cstep_ptr_stable; eauto].
Qed.

(* a file's identity never changes, files are never forgotten *)
Lemma cstep_identity c w e w' g u : cstep c w e = Some w' -> identity w g = Some u -> identity w' g = Some u.
Proof.
  intros H X. unfold identity in *. open_step H; simpl; auto.
  - destruct (nth_error (c_files w) g) eqn:N; [|discriminate]. rewrite (nth_error_app_old _ _ _ _ N). exact X.
  - destruct (nth_error (c_files w) g) as [m|] eqn:N; [|discriminate]. destruct (Nat.eq_dec g f) as [->|NE].
    + rewrite (kill_nth_same _ _ _ N). exact X.
    + rewrite kill_nth_other by exact NE. rewrite N. exact X.
Qed.

(* ------------------------------------------------------------------ an existing table is never re-initialised *)
Definition settled (w : cworld) : Prop := forall a, at_rest (c_pc w a) = true.
Definition one_identity (owner : aid) (l : list mfile) : Prop :=
  (forall g m, nth_error l g = Some m -> f_live m = true -> f_id m = owner)
  /\ (exists g m, nth_error l g = Some m /\ f_live m = true).

Lemma table_id_owner owner w : one_identity owner (c_files w) -> exists f, resolve w = Some f /\ table_id w = Some owner.
Proof.
  intros [A [g [m [N L]]]].
  assert (R : exists j, recover (c_files w) = Some j).
  { destruct (recover (c_files w)) as [j|] eqn:R; [eauto|]. rewrite (recover_none _ R g m N) in L. discriminate. }
  destruct R as [j R]. destruct (recover_live _ _ R) as [mj [Nj Lj]].
  unfold table_id, resolve, identity, live. destruct (c_ptr w) as [f|].
  - destruct (nth_error (c_files w) f) as [mf|] eqn:Nf.
    + destruct (f_live mf) eqn:Lf.
      * exists f. split; [reflexivity|]. rewrite Nf. simpl. f_equal. eapply A; eauto.
      * exists j. rewrite R. split; [reflexivity|]. rewrite Nj. simpl. f_equal. eapply A; eauto.
    + exists j. rewrite R. split; [reflexivity|]. rewrite Nj. simpl. f_equal. eapply A; eauto.
  - exists j. rewrite R. split; [reflexivity|]. rewrite Nj. simpl. f_equal. eapply A; eauto.
Qed.

Definition EInv (owner : aid) (w0 w : cworld) : Prop :=
  c_files w = c_files w0 /\ c_ptr w = c_ptr w0 /\ c_creates w = c_creates w0 /\ c_lock w = None /\ settled w
  /\ forall a u, c_pc w a = CDone u -> c_pc w0 a = CDone u \/ u = Some owner.

Lemma cstep_einv c owner w0 w e w' : one_identity owner (c_files w0) -> EInv owner w0 w -> cstep c w e = Some w' -> EInv owner w0 w'.
Proof.
  intros OI [F [P [C [L [S A]]]]] H.
  assert (OI' : one_identity owner (c_files w)) by (rewrite F; exact OI).
  destruct (table_id_owner owner w OI') as [f [R T]].
  pose proof (S (ce_actor e)) as Rest.
  open_step H; try discriminate.
  rewrite R in B. destruct found; [|discriminate]. rewrite T.
  unfold EInv, settled. simpl. repeat split; auto.
  - intro b. upd b (ce_actor e); [reflexivity | apply S].
  - intros b u D. upd b (ce_actor e); [inversion D; auto | apply (A b u D)].
Qed.

Theorem existing_never_reinitialised_gen c owner w0 evs :
  one_identity owner (c_files w0) -> c_lock w0 = None -> settled w0 ->
  let w := crun c w0 evs in
  c_files w = c_files w0 /\ c_ptr w = c_ptr w0 /\ c_creates w = c_creates w0
  /\ forall a u, c_pc w a = CDone u -> c_pc w0 a = CDone u \/ u = Some owner.
Proof.
  intros OI L S. cbv zeta.
  assert (E : EInv owner w0 (crun c w0 evs)).
  { apply (crun_ind c (EInv owner w0)).
    - intros w e w' E H. eapply cstep_einv; eauto.
    - unfold EInv. repeat split; auto. }
  destruct E as [F [P [C [_ [_ A]]]]]. auto.
Qed.

Lemma chain_one_identity owner n : one_identity owner (chain owner n).
Proof.
  split.
  - intros g m N _. apply chain_nth in N. destruct N as [-> _]. reflexivity.
  - exists n. eexists. split; [apply chain_last | reflexivity].
Qed.

Theorem existing_never_reinitialised c owner n lost evs :
  let w := crun c (existing_n owner n lost) evs in
  c_files w = chain owner n /\ c_ptr w = (if lost then None else Some n) /\ c_creates w = []
  /\ forall a u, c_pc w a = CDone u -> u = Some owner.
Proof.
  cbv zeta.
  destruct (existing_never_reinitialised_gen c owner (existing_n owner n lost) evs) as [F [P [C A]]].
  - apply chain_one_identity.
  - reflexivity.
  - intro a. reflexivity.
  - repeat split; auto. intros a u D. destruct (A a u D) as [X|X]; [discriminate | exact X].
Qed.

(* ------------------------------------------------------------------ what a creation race leaves behind *)
Definition wrote (p : cpc) : bool :=
  match p with CIdle | CProbedNone | CLocked | CChecked => false | _ => true end.

Record RInv (w : cworld) : Prop := {
  R_orphan : forall g m, nth_error (c_files w) g = Some m -> f_live m = true ->
             c_ptr w = Some g \/ own_of (c_pc w (f_id m)) = Some g;
  R_one : c_ptr w <> None -> length (c_creates w) = 1%nat;
  R_creator : forall f, c_ptr w = Some f -> exists m, nth_error (c_files w) f = Some m /\ c_creates w = [f_id m];
  R_nodead : c_ptr w = None -> forall g m, nth_error (c_files w) g = Some m -> f_live m = true;
  R_uniq : forall g h m m', nth_error (c_files w) g = Some m -> nth_error (c_files w) h = Some m' -> f_id m = f_id m' -> g = h;
  R_fresh : forall g m, nth_error (c_files w) g = Some m -> wrote (c_pc w (f_id m)) = true;
  R_adopt : forall a u, c_pc w a = CDone (Some u) -> c_files w <> [] }.

Lemma absent_rinv : RInv absent.
Proof.
  constructor; simpl; try (intros; destruct g; discriminate); try discriminate.
  - intro X. contradiction.
Qed.

(* steps that change one actor's program counter only *)
Lemma set_rinv w a p : RInv w ->
  own_of p = own_of (c_pc w a) -> (wrote (c_pc w a) = true -> wrote p = true) ->
  (forall u, p = CDone (Some u) -> c_files w <> []) -> RInv (set w a p).
Proof.
  intros R Ho Hw Ha. constructor; simpl; try apply R.
  - intros g m N L. destruct (R_orphan w R g m N L) as [X|X]; [auto|]. right. upd (f_id m) a; [congruence | exact X].
  - intros g m N. pose proof (R_fresh w R g m N) as X. upd (f_id m) a; [auto | exact X].
  - intros b u D. upd b a; [apply (Ha u D) | apply (R_adopt w R b u D)].
Qed.

Lemma table_id_files w u : table_id w = Some u -> c_files w <> [].
Proof.
  unfold table_id, identity. destruct (resolve w) as [f|]; [|discriminate]. destruct (c_files w); [destruct f; discriminate | discriminate].
Qed.

Lemma cstep_rinv c w e w' : sound c -> CInv c w -> RInv w -> cstep c w e = Some w' -> RInv w'.
Proof.
  intros Snd I R H. open_step H.
  - (* Probe *)
    apply set_rinv; auto; rewrite ?PC.
    + destruct found; reflexivity.
    + discriminate.
    + intros u D. destruct found; [|discriminate]. inversion D. eapply table_id_files; eauto.
  - (* LockTry true *)
    set (a := ce_actor e) in *.
    constructor; simpl; try apply R.
    + intros g m N L. destruct (R_orphan w R g m N L) as [X|X]; [auto|]. right. upd (f_id m) a; [rewrite PC in X; discriminate | exact X].
    + intros g m N. pose proof (R_fresh w R g m N) as X. upd (f_id m) a; [rewrite PC in X; discriminate | exact X].
    + intros b u D. upd b a; [discriminate | apply (R_adopt w R b u D)].
  - (* LockTry false *) exact R.
  - (* Check *)
    apply set_rinv; auto; rewrite ?PC.
    + destruct found; reflexivity.
    + discriminate.
    + intros u D. destruct found; discriminate.
  - (* MetaW *)
    set (a := ce_actor e) in *.
    assert (NoFile : forall g m, nth_error (c_files w) g = Some m -> f_id m <> a).
    { intros g m N E. pose proof (R_fresh w R g m N) as X. rewrite E, PC in X. discriminate. }
    constructor; simpl.
    + intros g m N L. apply nth_error_app_inv in N. destruct N as [N|[-> ->]].
      * destruct (R_orphan w R g m N L) as [X|X]; [auto|]. right. upd (f_id m) a; [exfalso; eapply NoFile; eauto | exact X].
      * right. simpl. rewrite updc_same. reflexivity.
    + apply R.
    + intros g P. destruct (R_creator w R g P) as [m [N C]]. exists m. split; [apply nth_error_app_old; exact N | exact C].
    + intros P g m N. apply nth_error_app_inv in N. destruct N as [N|[_ ->]]; [apply (R_nodead w R P g m N) | reflexivity].
    + intros g h m m' N N' E. apply nth_error_app_inv in N. apply nth_error_app_inv in N'.
      destruct N as [N|[-> ->]], N' as [N'|[-> ->]]; simpl in *.
      * eapply R_uniq; eauto.
      * exfalso. eapply NoFile; eauto.
      * exfalso. eapply NoFile; eauto.
      * reflexivity.
    + intros g m N. apply nth_error_app_inv in N. destruct N as [N|[_ ->]]; simpl.
      * pose proof (R_fresh w R g m N) as X. upd (f_id m) a; [reflexivity | exact X].
      * rewrite updc_same. reflexivity.
    + intros b u D. destruct (c_files w); discriminate.
  - (* PtrCreate true *)
    set (a := ce_actor e) in *. apply eqb_prop in B.
    assert (PN : c_ptr w = None).
    { destruct Snd as [CAS|EX].
      - rewrite CAS in B. destruct (c_ptr w); [discriminate|reflexivity].
      - apply (proj1 (proj2 (CI_excl c w I EX a)) f PC). }
    constructor; simpl; try apply R.
    + intros g m N L. destruct (R_orphan w R g m N L) as [X|X]; [congruence|].
      upd (f_id m) a; [rewrite PC in X; inversion X; auto | auto].
    + intros _. rewrite app_length, (proj1 (CI_creates c w I) PN). reflexivity.
    + intros g P. inversion P; subst g. pose proof (CI_own c w I a f) as Of. rewrite PC in Of. specialize (Of eq_refl).
      exists (v0 a). split; [exact Of|]. rewrite (proj1 (CI_creates c w I) PN). reflexivity.
    + discriminate.
    + intros g m N. pose proof (R_fresh w R g m N) as X. upd (f_id m) a; [reflexivity | exact X].
    + intros b u D. upd b a; [discriminate | apply (R_adopt w R b u D)].
  - (* PtrCreate refused *)
    apply set_rinv; auto; rewrite ?PC; try reflexivity. discriminate.
  - (* Recheck: in a race from nothing the table in effect is never the loser's *)
    set (a := ce_actor e) in *. apply eqb_prop in B.
    assert (NS : same = false).
    { subst same. unfold in_effect, table_id, resolve.
      destruct (c_ptr w) as [g|] eqn:P; [|exfalso; apply (CI_conf c w I a f); auto].
      destruct (CI_ptr c w I g P) as [L N]. rewrite L. unfold identity. unfold live in L.
      destruct (nth_error (c_files w) g) as [m|] eqn:Ng; [|discriminate]. simpl.
      destruct (Nat.eqb_spec (f_id m) a) as [E|NE]; [|reflexivity]. exfalso.
      pose proof (CI_own c w I a f) as Of. rewrite PC in Of. specialize (Of eq_refl).
      assert (g = f) by (eapply (R_uniq w R g f); eauto). subst g. apply (N a). rewrite PC. reflexivity. }
    subst same. rewrite NS. apply set_rinv; auto; rewrite ?PC; try reflexivity. discriminate.
  - (* Discard *)
    set (a := ce_actor e) in *.
    pose proof (CI_own c w I a f) as Of. rewrite PC in Of. specialize (Of eq_refl).
    constructor; simpl; try apply R.
    + intros g m N L. destruct (kill_nth _ _ _ _ N) as [m0 [N0 [Ei [_ K]]]]. destruct (K L) as [NE ->].
      destruct (R_orphan w R g m0 N0 L) as [X|X]; [auto|]. right.
      upd (f_id m0) a; [rewrite PC in X; inversion X; congruence | exact X].
    + intros g P. destruct (R_creator w R g P) as [m [N C]]. destruct (Nat.eq_dec g f) as [->|NE].
      * rewrite (kill_nth_same _ _ _ N). eexists. split; [reflexivity | exact C].
      * rewrite kill_nth_other by exact NE. eauto.
    + intro P. exfalso. apply (CI_conf c w I a f); auto.
    + intros g h m m' N N' E. destruct (kill_nth _ _ _ _ N) as [m0 [N0 [Ei _]]]. destruct (kill_nth _ _ _ _ N') as [m1 [N1 [Ei' _]]].
      eapply (R_uniq w R g h); eauto. congruence.
    + intros g m N. destruct (kill_nth _ _ _ _ N) as [m0 [N0 [Ei _]]]. rewrite Ei.
      pose proof (R_fresh w R g m0 N0) as X. upd (f_id m0) a; [reflexivity | exact X].
    + intros b u D. upd b a; [discriminate|]. pose proof (R_adopt w R b u D) as X.
      intro K. apply X. destruct (c_files w); [reflexivity | destruct f; discriminate].
  - (* Release from CPointed *)
    set (a := ce_actor e) in *.
    constructor; simpl; try apply R.
    + intros g m N L. destruct (R_orphan w R g m N L) as [X|X]; [auto|]. right. upd (f_id m) a; [rewrite PC in X; discriminate | exact X].
    + intros g m N. pose proof (R_fresh w R g m N) as X. upd (f_id m) a; [reflexivity | exact X].
    + intros b u D. upd b a; [discriminate | apply (R_adopt w R b u D)].
  - (* Release from CExists *)
    set (a := ce_actor e) in *.
    constructor; simpl; try apply R.
    + intros g m N L. destruct (R_orphan w R g m N L) as [X|X]; [auto|]. right. upd (f_id m) a; [rewrite PC in X; discriminate | exact X].
    + intros g m N. pose proof (R_fresh w R g m N) as X. upd (f_id m) a; [reflexivity | exact X].
    + intros b u D. upd b a; [discriminate | apply (R_adopt w R b u D)].
  - (* Adopt *)
    apply set_rinv; auto; rewrite ?PC; try reflexivity.
    intros u D. inversion D. eapply table_id_files; eauto.
Qed.

Lemma crun_rinv c evs : sound c -> CInv c (crun c absent evs) /\ RInv (crun c absent evs).
Proof.
  intro Snd. apply (crun_ind c (fun w => CInv c w /\ RInv w)).
  - intros w e w' [I R] H. split; [eapply cstep_inv; eauto | eapply cstep_rinv; eauto].
  - split; [apply absent_inv | apply absent_rinv].
Qed.

Lemma settled_own w a : settled w -> own_of (c_pc w a) = None.
Proof. intro S. specialize (S a). destruct (c_pc w a); try discriminate; reflexivity. Qed.

Lemma settled_unlocked c w : CInv c w -> settled w -> c_lock w = None.
Proof.
  intros I S. destruct (c_lock w) as [a|] eqn:L; [|reflexivity]. pose proof (CI_held c w I a L) as X. specialize (S a).
  destruct (c_pc w a); discriminate.
Qed.

(* Once every caller of a creation race on an absent table has returned, the only metadata file left on storage is
   the one the pointer names: recovery after a loss of the pointer finds the same table. *)
Theorem race_leaves_one_table c evs f : sound c ->
  let w := crun c absent evs in
  settled w -> c_ptr w = Some f ->
  live w f = true /\ (forall g, live w g = true -> g = f)
  /\ resolve (lose_ptr w) = Some f /\ table_id (lose_ptr w) = table_id w.
Proof.
  intros Snd w S P. destruct (crun_rinv c evs Snd) as [I R]. fold w in I, R.
  destruct (CI_ptr c w I f P) as [L _].
  assert (U : forall g m, nth_error (c_files w) g = Some m -> f_live m = true -> g = f).
  { intros g m N Lm. destruct (R_orphan w R g m N Lm) as [X|X]; [congruence|]. rewrite settled_own in X by exact S. discriminate. }
  assert (Rv : recover (c_files w) = Some f).
  { apply recover_only; [exact U|]. unfold live in L. destruct (nth_error (c_files w) f) as [m|]; [eauto | discriminate]. }
  split; [exact L|]. split.
  - intros g Lg. unfold live in Lg. destruct (nth_error (c_files w) g) as [m|] eqn:N; [eapply U; eauto | discriminate].
  - unfold table_id, resolve. simpl. rewrite Rv, P, L. split; reflexivity.
Qed.

(* exactly one initialisation: once every caller has returned and anybody got as far as writing metadata (or ended on a
   table at all), exactly one pointer creation has succeeded and the pointer names the table *)
Theorem exactly_one_init c evs : sound c ->
  let w := crun c absent evs in
  settled w -> (c_files w <> [] \/ exists a u, c_pc w a = CDone (Some u)) ->
  exists f u, c_creates w = [u] /\ c_ptr w = Some f /\ identity w f = Some u /\ table_id w = Some u.
Proof.
  intros Snd w S NE. destruct (crun_rinv c evs Snd) as [I R]. fold w in I, R.
  assert (F : c_files w <> []) by (destruct NE as [X|[a [u D]]]; [exact X | apply (R_adopt w R a u D)]).
  destruct (c_ptr w) as [f|] eqn:P.
  - destruct (R_creator w R f P) as [m [N C]]. exists f, (f_id m). destruct (CI_ptr c w I f P) as [L _].
    unfold table_id, resolve, identity. rewrite P, L, N. auto.
  - exfalso. destruct (c_files w) as [|m t] eqn:Fl; [contradiction|].
    assert (N : nth_error (c_files w) 0 = Some m) by (rewrite Fl; reflexivity).
    pose proof (R_nodead w R P 0 m N) as L. destruct (R_orphan w R 0 m N L) as [X|X]; [congruence|].
    rewrite settled_own in X by exact S. discriminate.
Qed.

(* ... and that state, with its pointer then lost, is an existing table that nobody re-initialises: every later caller
   (creator or opener, any interleaving) ends on the identity the pointer named *)
Theorem race_then_pointer_loss c evs1 evs2 f u : sound c ->
  let w1 := crun c absent evs1 in
  settled w1 -> c_ptr w1 = Some f -> identity w1 f = Some u ->
  let w2 := crun c (lose_ptr w1) evs2 in
  c_files w2 = c_files w1 /\ c_ptr w2 = None /\ c_creates w2 = c_creates w1
  /\ forall a x, c_pc w2 a = CDone x -> c_pc w1 a = CDone x \/ x = Some u.
Proof.
  intros Snd w1 S P Id w2. destruct (crun_rinv c evs1 Snd) as [I R]. fold w1 in I, R.
  destruct (race_leaves_one_table c evs1 f Snd S P) as [L [U _]]. fold w1 in L, U.
  apply (existing_never_reinitialised_gen c u (lose_ptr w1) evs2).
  - split.
    + intros g m N Lm. simpl in N. assert (g = f) by (apply U; unfold live; rewrite N; exact Lm). subst g.
      unfold identity in Id. rewrite N in Id. inversion Id. reflexivity.
    + simpl. unfold live in L. destruct (nth_error (c_files w1) f) as [m|] eqn:N; [|discriminate]. exists f, m. auto.
  - simpl. apply (settled_unlocked c w1 I S).
  - exact S.
Qed.

(* ------------------------------------------------------------------ every caller on the same table *)
(* (a) once the table is published, every call that returns afterwards is on it -- any storage with real mutual
   exclusion, any interleaving *)
Theorem same_table_published c w1 evs f u : sound c -> CInv c w1 -> c_ptr w1 = Some f -> identity w1 f = Some u ->
  let w2 := crun c w1 evs in
  table_id w2 = Some u /\ forall a x, c_pc w2 a = CDone x -> c_pc w1 a = CDone x \/ x = Some u.
Proof.
  intros Snd I1 P1 Id1. cbv zeta.
  set (K := fun w => CInv c w /\ c_ptr w = Some f /\ identity w f = Some u
                     /\ forall a x, c_pc w a = CDone x -> c_pc w1 a = CDone x \/ x = Some u).
  assert (T : forall w, K w -> table_id w = Some u).
  { intros w [I [P [Id _]]]. destruct (CI_ptr c w I f P) as [L _]. unfold table_id, resolve. rewrite P, L. exact Id. }
  assert (G : K (crun c w1 evs)).
  { apply (crun_ind c K).
    - intros w e w' Kw H. pose proof (T w Kw) as Tw. destruct Kw as [I [P [Id A]]].
      split; [eapply cstep_inv; eauto|]. split; [eapply cstep_ptr_stable; eauto|]. split; [eapply cstep_identity; eauto|].
      clear T. open_step H; simpl; auto; intros b x D; upd b (ce_actor e); try discriminate; try (apply (A b x D)).
      + destruct found; [|discriminate]. inversion D. right. congruence.
      + destruct found; discriminate.
      + destruct same; discriminate.
      + inversion D. right. congruence.
    - unfold K. split; [exact I1|]. split; [exact P1|]. split; [exact Id1|]. intros; auto. }
  split; [apply T; exact G | apply G].
Qed.

(* (b) with the exclusive lock also before publication: at most one metadata file is ever written, so every caller
   that returned is on the table now in effect *)
Definition AdoptOne (w : cworld) : Prop :=
  (length (c_files w) <= 1)%nat /\ forall a u, c_pc w a = CDone (Some u) -> map f_id (c_files w) = [u].

Lemma one_file_table_id w u : (length (c_files w) <= 1)%nat -> table_id w = Some u -> map f_id (c_files w) = [u].
Proof.
  unfold table_id, identity. intros L T. destruct (resolve w) as [f|]; [|discriminate].
  destruct (c_files w) as [|m [|m' t]]; simpl in *; try lia.
  - destruct f; discriminate.
  - destruct f as [|f]; simpl in T; [inversion T; reflexivity | destruct f; discriminate].
Qed.

Lemma cstep_adopt_one c w e w' : lockkind c = Excl -> CInv c w -> AdoptOne w -> cstep c w e = Some w' -> AdoptOne w'.
Proof.
  intros LK I [L A] H. unfold AdoptOne. open_step H; simpl.
  - split; [exact L|]. intros b u D. upd b (ce_actor e); [|apply (A b u D)].
    destruct found; [|discriminate]. inversion D as [T]. apply one_file_table_id; auto.
  - split; [exact L|]. intros b u D. upd b (ce_actor e); [discriminate | apply (A b u D)].
  - auto.
  - split; [exact L|]. intros b u D. upd b (ce_actor e); [destruct found; discriminate | apply (A b u D)].
  - destruct (proj1 (CI_excl c w I LK (ce_actor e)) PC) as [_ F]. rewrite F in *. simpl. split; [lia|].
    intros b u D. upd b (ce_actor e); [discriminate|]. specialize (A b u D). discriminate.
  - split; [exact L|]. intros b u D. upd b (ce_actor e); [discriminate | apply (A b u D)].
  - split; [exact L|]. intros b u D. upd b (ce_actor e); [discriminate | apply (A b u D)].
  - split; [exact L|]. intros b u D. upd b (ce_actor e); [destruct same; discriminate | apply (A b u D)].
  - exfalso. apply (proj2 (proj2 (proj2 (CI_excl c w I LK (ce_actor e))) f) PC).
  - split; [exact L|]. intros b u D. upd b (ce_actor e); [discriminate | apply (A b u D)].
  - split; [exact L|]. intros b u D. upd b (ce_actor e); [discriminate | apply (A b u D)].
  - split; [exact L|]. intros b u D. upd b (ce_actor e); [|apply (A b u D)].
    inversion D as [T]. apply one_file_table_id; auto.
Qed.

Theorem same_table_excl c evs : sound c -> lockkind c = Excl ->
  let w := crun c absent evs in
  forall a u, c_pc w a = CDone (Some u) -> table_id w = Some u.
Proof.
  intros Snd LK w a u D.
  assert (G : CInv c w /\ AdoptOne w).
  { apply (crun_ind c (fun x => CInv c x /\ AdoptOne x)).
    - intros x e x' [I A] H. split; [eapply cstep_inv; eauto | eapply cstep_adopt_one; eauto].
    - split; [apply absent_inv|]. split; [simpl; lia | intros b v X; discriminate]. }
  destruct G as [I [L A]]. pose proof (A a u D) as F.
  destruct (c_files w) as [|m [|m' t]] eqn:Fl; simpl in *; try discriminate; try lia. inversion F; subst u.
  assert (Lm : f_live m = true) by (apply (CI_alllive c w I LK 0 m); rewrite Fl; reflexivity).
  unfold table_id, resolve, identity, live. rewrite Fl. destruct (c_ptr w) as [[|[|f]]|]; simpl; rewrite ?Lm; simpl; reflexivity.
Qed.

(* (c) the identity a call saw WHEN IT RETURNED is not always the table's: on conditional-write storage whose lock gives no
   exclusion an opener can return while two unpublished v0 files exist and see the one that then loses.  (A Table handle
   holds no identity: it resolves the table again on every use, so the caller is on the winner's table from then on.) *)
Definition same_table_full : Prop := forall c evs, sound c ->
  let w := crun c absent evs in
  forall a b u u', c_pc w a = CDone (Some u) -> c_pc w b = CDone (Some u') -> u = u'.

Definition cev a k := {| ce_actor := a; ce_kind := k |}.
Definition refute_cfg : cfg := {| cas := true; lockkind := GrantAll |}.
Definition refute_evs : list cevent :=
  [cev 0 (CProbe false); cev 1 (CProbe false); cev 0 (CLockTry true); cev 1 (CLockTry true);
   cev 0 (CCheck false); cev 1 (CCheck false); cev 0 CMetaW; cev 1 CMetaW;
   cev 2 (CProbe true);                          (* opener: no pointer yet, recovery picks the newer v0 = 1's *)
   cev 0 (CPtrCreate true); cev 1 (CPtrCreate false); cev 1 (CRecheck false); cev 1 CDiscard;
   cev 0 CRelease; cev 1 CRelease; cev 0 CAdopt; cev 1 CAdopt].

Theorem same_table_full_refuted : ~ same_table_full.
Proof.
  intro H. specialize (H refute_cfg refute_evs (or_introl eq_refl) 2 0 1 0).
  assert (X : 1 = 0); [apply H; vm_compute; reflexivity | discriminate].
Qed.

(* ------------------------------------------------------------------ the machine is the protocol the source performs *)
Definition solo_events (a : aid) : list cevent :=
  {| ce_actor := a; ce_kind := CProbe false |}
  :: map (fun k => {| ce_actor := a; ce_kind := k |}) creator_events ++ [{| ce_actor := a; ce_kind := CAdopt |}].

Theorem skeleton_regenerated :
  create_model_path = gen_create_path_cas /\ create_model_path = gen_create_path_plain
  /\ (forall atomic, gen_create_fail true atomic FEPrecondition = conflict_class)
  /\ conflict_class = CFTableExistsDiscardForeign
  /\ (forall casb atomic, (casb = true \/ atomic = false) -> gen_create_fail casb atomic FEError = CFKeepRaise)
  /\ gen_create_fail false true FEError = CFDiscardRaise
  /\ (forall c (a : aid),
        exists w', crun_strict c absent (solo_events a) 0 = inl w' /\ c_creates w' = [a] /\ c_pc w' a = CDone (Some a)
                   /\ c_ptr w' = Some 0 /\ map f_id (c_files w') = [a]).
Proof.
  split; [reflexivity|]. split; [reflexivity|]. split; [intros []; reflexivity|]. split; [reflexivity|]. split.
  - intros casb atomic [H|H]; subst; [destruct atomic | destruct casb]; reflexivity.
  - split; [reflexivity|]. intros [casb lk] a. unfold solo_events. eexists.
    destruct casb, lk; repeat (cbn; unfold updc, release, set, table_id, resolve, identity, live; cbn; rewrite ?Nat.eqb_refl);
      (split; [reflexivity|]); repeat (cbn; unfold updc; rewrite ?Nat.eqb_refl); repeat split; reflexivity.
Qed.
