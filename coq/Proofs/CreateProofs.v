(* Proofs/CreateProofs.v -- creating a table is idempotent and race-safe (C18). *)
From Coq Require Import List Bool Arith Lia.
Require Import DS.Model.Commit DS.Model.Create DS.Proofs.CommitProofs.
Import ListNotations.

Lemma updc_same a p g : updc a p g a = p.
Proof. unfold updc. rewrite Nat.eqb_refl. reflexivity. Qed.
Lemma updc_other a b p g : b <> a -> updc a p g b = g b.
Proof. unfold updc. intro H. destruct (Nat.eqb_spec b a); [contradiction|reflexivity]. Qed.

Definition inLS (p : cpc) : bool :=
  match p with CLocked | CChecked | CWritten _ | CPointed | CExists => true | _ => false end.

Record CInv (c : cfg) (w : cworld) : Prop := {
  CI_written : forall a f, c_pc w a = CWritten f -> nth_error (c_files w) f = Some a;
  CI_ptr : (c_ptr w = None -> c_creates w = []) /\ (length (c_creates w) <= 1)%nat
           /\ (forall f, c_ptr w = Some f -> (f < length (c_files w))%nat);
  CI_lock : lockkind c = Excl -> forall a, inLS (c_pc w a) = true -> c_lock w = Some a;
  CI_excl : lockkind c = Excl -> forall a,
            (c_pc w a = CChecked -> c_ptr w = None /\ c_files w = [])
            /\ (forall f, c_pc w a = CWritten f -> c_ptr w = None /\ c_files w = [a]) }.

Lemma nth_error_app_old {A} (l : list A) x f a : nth_error l f = Some a -> nth_error (l ++ [x]) f = Some a.
Proof. intro H. rewrite nth_error_app1; auto. apply nth_error_Some. congruence. Qed.

Lemma cstep_inv c w e w' : sound c -> CInv c w -> cstep c w e = Some w' -> CInv c w'.
Proof.
  intros Snd I H. unfold cstep in H. cbv zeta in H. set (a := ce_actor e) in *.
  destruct (ce_kind e) as [found|ok|found| |ok| | ]; [ | destruct ok | | | | | ]; destruct (c_pc w a) eqn:PC; try discriminate.
  - (* CProbe *)
    destruct (Bool.eqb found (isSome (resolve w))); [|discriminate]. inversion H; subst w'; clear H.
    constructor; simpl; try apply I.
    + intros b f P. destruct (Nat.eq_dec b a) as [->|NE]; [rewrite updc_same in P; destruct found; discriminate|].
      rewrite updc_other in P by exact NE. apply (CI_written c w I b f P).
    + intros LK b P. destruct (Nat.eq_dec b a) as [->|NE]; [rewrite updc_same in P; destruct found; discriminate|].
      rewrite updc_other in P by exact NE. apply (CI_lock c w I LK b P).
    + intros LK b. destruct (Nat.eq_dec b a) as [->|NE].
      * rewrite updc_same. split; [intro P; destruct found; discriminate | intros f P; destruct found; discriminate].
      * rewrite updc_other by exact NE. apply (CI_excl c w I LK b).
  - (* CLockTry true *)
    destruct (cfree c w) eqn:Fr; [|discriminate]. inversion H; subst w'; clear H.
    constructor; simpl; try apply I.
    + intros b f P. destruct (Nat.eq_dec b a) as [->|NE]; [rewrite updc_same in P; discriminate|].
      rewrite updc_other in P by exact NE. apply (CI_written c w I b f P).
    + intros LK b P. rewrite LK. destruct (Nat.eq_dec b a) as [->|NE]; [reflexivity|].
      rewrite updc_other in P by exact NE. pose proof (CI_lock c w I LK b P) as L.
      unfold cfree in Fr. rewrite LK, L in Fr. discriminate.
    + intros LK b. destruct (Nat.eq_dec b a) as [->|NE].
      * rewrite updc_same. split; [discriminate | intros f P; discriminate].
      * rewrite updc_other by exact NE. apply (CI_excl c w I LK b).
  - (* CLockTry false *)
    destruct (cfree c w); [discriminate|]. inversion H; subst w'. exact I.
  - (* CCheck *)
    destruct (Bool.eqb found (isSome (resolve w))) eqn:EQ; [|discriminate]. apply eqb_prop in EQ.
    inversion H; subst w'; clear H.
    constructor; simpl; try apply I.
    + intros b f P. destruct (Nat.eq_dec b a) as [->|NE]; [rewrite updc_same in P; destruct found; discriminate|].
      rewrite updc_other in P by exact NE. apply (CI_written c w I b f P).
    + intros LK b P. destruct (Nat.eq_dec b a) as [->|NE].
      * apply (CI_lock c w I LK a). rewrite PC. reflexivity.
      * rewrite updc_other in P by exact NE. apply (CI_lock c w I LK b P).
    + intros LK b. destruct (Nat.eq_dec b a) as [->|NE].
      * rewrite updc_same. split; [|intros f P; destruct found; discriminate].
        intro P. destruct found; [discriminate|]. unfold resolve in EQ.
        destruct (c_ptr w); [discriminate|]. destruct (c_files w); [auto|discriminate].
      * rewrite updc_other by exact NE. apply (CI_excl c w I LK b).
  - (* CMetaW *)
    inversion H; subst w'; clear H.
    assert (Others : lockkind c = Excl -> forall b, b <> a -> c_pc w b <> CChecked /\ forall f, c_pc w b <> CWritten f).
    { intros LK b NE. pose proof (CI_lock c w I LK a) as La. rewrite PC in La. specialize (La eq_refl).
      split; [intro P | intros f P]; pose proof (CI_lock c w I LK b) as Lb; rewrite P in Lb; specialize (Lb eq_refl); congruence. }
    constructor; simpl.
    + intros b f P. destruct (Nat.eq_dec b a) as [->|NE].
      * rewrite updc_same in P. inversion P; subst f. rewrite nth_error_app2 by lia. rewrite Nat.sub_diag. reflexivity.
      * rewrite updc_other in P by exact NE. apply nth_error_app_old. apply (CI_written c w I b f P).
    + destruct (CI_ptr c w I) as [P1 [P2 P3]]. split; [exact P1|]. split; [exact P2|].
      intros f Hf. specialize (P3 f Hf). rewrite app_length. simpl. lia.
    + intros LK b P. destruct (Nat.eq_dec b a) as [->|NE].
      * apply (CI_lock c w I LK a). rewrite PC. reflexivity.
      * rewrite updc_other in P by exact NE. apply (CI_lock c w I LK b P).
    + intros LK b. destruct (Nat.eq_dec b a) as [->|NE].
      * rewrite updc_same. split; [discriminate|]. intros f P.
        destruct (proj1 (CI_excl c w I LK a) PC) as [E1 E2]. rewrite E2. simpl. auto.
      * rewrite updc_other by exact NE. destruct (Others LK b NE) as [O1 O2].
        split; [intro P; contradiction | intros f P; exfalso; apply (O2 f P)].
  - (* CPtrCreate *)
    assert (PN : ok = true -> c_ptr w = None).
    { intro E. subst ok. destruct Snd as [CAS|EX].
      - rewrite CAS in H. destruct (c_ptr w); simpl in H; [discriminate|reflexivity].
      - apply (proj2 (CI_excl c w I EX a) f PC). }
    destruct (Bool.eqb ok (if cas c then negb (isSome (c_ptr w)) else true)); [|discriminate].
    destruct ok; inversion H; subst w'; clear H.
    + specialize (PN eq_refl). destruct (CI_ptr c w I) as [P1 [P2 P3]].
      constructor; simpl.
      * intros b g P. destruct (Nat.eq_dec b a) as [->|NE]; [rewrite updc_same in P; discriminate|].
        rewrite updc_other in P by exact NE. apply (CI_written c w I b g P).
      * split; [discriminate|].
        split; [rewrite app_length, (P1 PN); simpl; lia|].
        intros g Hg. inversion Hg; subst g. pose proof (CI_written c w I a f PC) as N.
        apply nth_error_Some. congruence.
      * intros LK b P. destruct (Nat.eq_dec b a) as [->|NE].
        -- apply (CI_lock c w I LK a). rewrite PC. reflexivity.
        -- rewrite updc_other in P by exact NE. apply (CI_lock c w I LK b P).
      * intros LK b. destruct (Nat.eq_dec b a) as [->|NE].
        -- rewrite updc_same. split; [discriminate | intros g P; discriminate].
        -- rewrite updc_other by exact NE.
           pose proof (CI_lock c w I LK a) as La. rewrite PC in La. specialize (La eq_refl).
           split; [intro P | intros g P]; exfalso; pose proof (CI_lock c w I LK b) as Lb; rewrite P in Lb; specialize (Lb eq_refl); congruence.
    + constructor; simpl; try apply I.
      * intros b g P. destruct (Nat.eq_dec b a) as [->|NE]; [rewrite updc_same in P; discriminate|].
        rewrite updc_other in P by exact NE. apply (CI_written c w I b g P).
      * intros LK b P. destruct (Nat.eq_dec b a) as [->|NE].
        -- apply (CI_lock c w I LK a). rewrite PC. reflexivity.
        -- rewrite updc_other in P by exact NE. apply (CI_lock c w I LK b P).
      * intros LK b. destruct (Nat.eq_dec b a) as [->|NE].
        -- rewrite updc_same. split; [discriminate | intros g P; discriminate].
        -- rewrite updc_other by exact NE. apply (CI_excl c w I LK b).
  - (* CRelease from CPointed *)
    inversion H; subst w'; clear H.
    constructor; simpl; try apply I.
    + intros b g P. destruct (Nat.eq_dec b a) as [->|NE]; [rewrite updc_same in P; discriminate|].
      rewrite updc_other in P by exact NE. apply (CI_written c w I b g P).
    + intros LK b P. destruct (Nat.eq_dec b a) as [->|NE]; [rewrite updc_same in P; discriminate|].
      rewrite updc_other in P by exact NE.
      pose proof (CI_lock c w I LK a) as La. rewrite PC in La. specialize (La eq_refl).
      pose proof (CI_lock c w I LK b P). congruence.
    + intros LK b. destruct (Nat.eq_dec b a) as [->|NE].
      * rewrite updc_same. split; [discriminate | intros g P; discriminate].
      * rewrite updc_other by exact NE. apply (CI_excl c w I LK b).
  - (* CRelease from CExists *)
    inversion H; subst w'; clear H.
    constructor; simpl; try apply I.
    + intros b g P. destruct (Nat.eq_dec b a) as [->|NE]; [rewrite updc_same in P; discriminate|].
      rewrite updc_other in P by exact NE. apply (CI_written c w I b g P).
    + intros LK b P. destruct (Nat.eq_dec b a) as [->|NE]; [rewrite updc_same in P; discriminate|].
      rewrite updc_other in P by exact NE.
      pose proof (CI_lock c w I LK a) as La. rewrite PC in La. specialize (La eq_refl).
      pose proof (CI_lock c w I LK b P). congruence.
    + intros LK b. destruct (Nat.eq_dec b a) as [->|NE].
      * rewrite updc_same. split; [discriminate | intros g P; discriminate].
      * rewrite updc_other by exact NE. apply (CI_excl c w I LK b).
  - (* CAdopt *)
    inversion H; subst w'; clear H.
    constructor; simpl; try apply I.
    + intros b g P. destruct (Nat.eq_dec b a) as [->|NE]; [rewrite updc_same in P; discriminate|].
      rewrite updc_other in P by exact NE. apply (CI_written c w I b g P).
    + intros LK b P. destruct (Nat.eq_dec b a) as [->|NE]; [rewrite updc_same in P; discriminate|].
      rewrite updc_other in P by exact NE. apply (CI_lock c w I LK b P).
    + intros LK b. destruct (Nat.eq_dec b a) as [->|NE].
      * rewrite updc_same. split; [discriminate | intros g P; discriminate].
      * rewrite updc_other by exact NE. apply (CI_excl c w I LK b).
Qed.

Lemma crun_cons c w e evs : crun c w (e :: evs) = crun c (cstep_skip c w e) evs.
Proof. reflexivity. Qed.

Lemma crun_inv c w evs : sound c -> CInv c w -> CInv c (crun c w evs).
Proof.
  intro Snd. revert w. induction evs as [|e l IH]; intros w I; [exact I|]. rewrite crun_cons. apply IH.
  unfold cstep_skip. destruct (cstep c w e) eqn:St; [eapply cstep_inv; eauto | exact I].
Qed.

Lemma absent_inv c : CInv c absent.
Proof.
  constructor; simpl; try discriminate.
  - split; [auto|]. split; [lia | discriminate].
  - intros _ a. split; discriminate.
Qed.

Lemma existing_inv c owner lost : CInv c (existing owner lost).
Proof.
  constructor; simpl; try discriminate.
  - split; [auto|]. split; [lia|]. destruct lost; intros f H; inversion H; simpl; lia.
  - intros _ a. split; discriminate.
Qed.

(* exactly one initialisation takes effect: at most one pointer creation ever succeeds *)
Theorem single_init c evs : sound c -> (length (c_creates (crun c absent evs)) <= 1)%nat.
Proof. intro Snd. apply (CI_ptr c _ (crun_inv c absent evs Snd (absent_inv c))). Qed.

(* once the pointer names a table it never names another one (within creation / opening) *)
Lemma cstep_ptr_stable c w e w' f : sound c -> CInv c w -> cstep c w e = Some w' -> c_ptr w = Some f -> c_ptr w' = Some f.
Proof.
  intros Snd I H P. unfold cstep in H. cbv zeta in H.
  destruct (ce_kind e) as [found|ok|found| |ok| | ]; [ | destruct ok | | | | | ];
    destruct (c_pc w (ce_actor e)) eqn:PC; try discriminate;
    repeat match goal with
           | H : (if ?b then _ else _) = Some _ |- _ => destruct b eqn:?; try discriminate
           end; inversion H; subst w'; simpl; auto.
  (* PtrCreate true with a pointer already present: impossible *)
  exfalso. destruct Snd as [CAS|EX].
  - rewrite CAS, P in *. simpl in *. destruct ok; discriminate.
  - destruct (proj2 (CI_excl c w I EX (ce_actor e)) _ PC) as [N _]. congruence.
Qed.

Theorem pointer_stable c w evs f : sound c -> CInv c w -> c_ptr w = Some f -> c_ptr (crun c w evs) = Some f.
Proof.
  intro Snd. revert w. induction evs as [|e l IH]; intros w I P; [exact P|]. rewrite crun_cons. unfold cstep_skip.
  destruct (cstep c w e) as [w'|] eqn:St; [|apply IH; auto].
  apply IH; [eapply cstep_inv; eauto | eapply cstep_ptr_stable; eauto].
Qed.

(* an existing table -- pointer intact or lost -- is never re-initialised: no metadata file is written,
   no pointer is created, and every caller adopts the existing identity *)
Definition EInv (owner : aid) (p0 : option nat) (w : cworld) : Prop :=
  c_files w = [owner] /\ c_ptr w = p0 /\ c_creates w = [] /\ c_lock w = None
  /\ forall a, c_pc w a = CIdle \/ c_pc w a = CDone (Some owner).

Lemma cstep_einv c owner p0 w e w' : (p0 = None \/ p0 = Some 0) -> EInv owner p0 w -> cstep c w e = Some w' -> EInv owner p0 w'.
Proof.
  intros HP [F [P [C [L A]]]] H. unfold cstep in H. cbv zeta in H.
  assert (R : resolve w = Some 0). { unfold resolve. rewrite P, F. destruct HP as [->| ->]; reflexivity. }
  destruct (A (ce_actor e)) as [PC|PC]; rewrite PC in H;
    destruct (ce_kind e) as [found|ok|found| |ok| | ]; try discriminate; try (destruct ok; discriminate).
  rewrite R in H. simpl in H. destruct found; simpl in H; [|discriminate]. inversion H; subst w'; clear H.
  unfold EInv. simpl. repeat split; auto. intro b. unfold updc. destruct (Nat.eqb_spec b (ce_actor e)); [|apply A].
  right. unfold identity. rewrite F. reflexivity.
Qed.

Theorem existing_never_reinitialised c owner lost evs :
  let w := crun c (existing owner lost) evs in
  c_files w = [owner] /\ c_ptr w = (if lost then None else Some 0) /\ c_creates w = []
  /\ forall a u, c_pc w a = CDone u -> u = Some owner.
Proof.
  set (p0 := if lost then None else Some 0).
  assert (HP : p0 = None \/ p0 = Some 0) by (unfold p0; destruct lost; auto).
  assert (G : forall l w0, EInv owner p0 w0 -> EInv owner p0 (crun c w0 l)).
  { induction l as [|e l IH]; intros w0 E; [exact E|]. rewrite crun_cons. apply IH. unfold cstep_skip.
    destruct (cstep c w0 e) eqn:St; [eapply cstep_einv; eauto | exact E]. }
  assert (E0 : EInv owner p0 (existing owner lost)).
  { unfold EInv, existing. simpl. repeat split; auto. }
  destruct (G evs _ E0) as [F [P [C [_ A]]]]. cbv zeta. repeat split; auto.
  intros a u D. destruct (A a) as [X|X]; rewrite X in D; [discriminate | inversion D; reflexivity].
Qed.

(* with the exclusive lock at most one metadata file is ever written, so every caller that finishes
   ends up on the same table identity *)
Lemma excl_one_file c w : lockkind c = Excl -> CInv c w -> (length (c_files w) <= 1)%nat ->
  forall e w', cstep c w e = Some w' -> (length (c_files w') <= 1)%nat /\ (forall x, c_files w = [x] -> c_files w' = [x]).
Proof.
  intros LK I L e w' H. unfold cstep in H. cbv zeta in H.
  destruct (ce_kind e) as [found|ok|found| |ok| | ]; [ | destruct ok | | | | | ];
    destruct (c_pc w (ce_actor e)) eqn:PC; try discriminate;
    repeat match goal with
           | H : (if ?b then _ else _) = Some _ |- _ => destruct b eqn:?; try discriminate
           end; inversion H; subst w'; simpl; auto.
  destruct (proj1 (CI_excl c w I LK (ce_actor e)) PC) as [_ F]. rewrite F. simpl. split; [lia | intros x X; discriminate].
Qed.

Definition AdoptOne (w : cworld) : Prop :=
  (length (c_files w) <= 1)%nat /\ forall a u, c_pc w a = CDone (Some u) -> c_files w = [u].

Lemma cstep_done_shape c w e w' b u : cstep c w e = Some w' -> c_pc w' b = CDone (Some u) ->
  c_pc w b = CDone (Some u) \/ match resolve w with Some f => identity w f | None => None end = Some u.
Proof.
  intros H D. unfold cstep in H. cbv zeta in H.
  destruct (ce_kind e) as [found|ok|found| |ok| | ]; [ | destruct ok | | | | | ];
    destruct (c_pc w (ce_actor e)) eqn:PC; try discriminate;
    repeat match goal with
           | H : (if ?b then _ else _) = Some _ |- _ => destruct b eqn:?; try discriminate
           end; inversion H; subst w'; simpl in D;
    try (destruct (Nat.eq_dec b (ce_actor e)) as [E|NE];
         [subst b; rewrite updc_same in D | rewrite updc_other in D by exact NE; left; exact D]);
    try (left; exact D); try discriminate;
    try (destruct found; try discriminate);
    try (right; inversion D; reflexivity).
Qed.

Lemma cstep_adopt_one c w e w' : sound c -> lockkind c = Excl -> CInv c w -> AdoptOne w -> cstep c w e = Some w' -> AdoptOne w'.
Proof.
  intros Snd LK I [L A] H. destruct (excl_one_file c w LK I L e w' H) as [L' Keep]. split; [exact L'|].
  intros b u D. destruct (cstep_done_shape c w e w' b u H D) as [Old|New].
  - apply Keep. apply (A b u Old).
  - apply Keep. unfold resolve, identity in New.
    destruct (c_ptr w) as [f|].
    + destruct (c_files w) as [|x [|y t]]; simpl in *; try lia.
      * destruct f; discriminate.
      * destruct f as [|f]; simpl in New; [inversion New; reflexivity | destruct f; discriminate].
    + destruct (c_files w) as [|x [|y t]]; simpl in *; try discriminate; try lia. inversion New; reflexivity.
Qed.

Theorem same_table_excl c evs : sound c -> lockkind c = Excl ->
  let w := crun c absent evs in
  forall a b u u', c_pc w a = CDone (Some u) -> c_pc w b = CDone (Some u') -> u = u'.
Proof.
  intros Snd LK.
  assert (G : forall l w0, CInv c w0 -> AdoptOne w0 -> AdoptOne (crun c w0 l)).
  { induction l as [|e l IH]; intros w0 I0 A0; [exact A0|]. rewrite crun_cons. unfold cstep_skip.
    destruct (cstep c w0 e) as [w1|] eqn:St; [|apply IH; auto].
    apply IH; [eapply cstep_inv; eauto | eapply cstep_adopt_one; eauto]. }
  assert (A0 : AdoptOne absent) by (split; [simpl; lia | intros a u D; discriminate]).
  destruct (G evs absent (absent_inv c) A0) as [_ A]. cbv zeta. intros a b u u' Da Db.
  pose proof (A a u Da) as X. pose proof (A b u' Db) as Y. congruence.
Qed.
