(* Proofs/DurableBurstsProofs.v -- the ops-level theorems of C16 lifted to burst-written files (second audit, C16
   MEDIUM: "C16_chunked_disciplined does not connect to the headline theorem").

   gsim                     simulation between ghost states: same final-name states, same referenced set, same open
                            temps with the same content, the refined side at least as synced
   gsim_check / burst_refines   the discipline accepts every burst refinement (Model/DurableChunks.v burst_of) of a
                            trace it accepts, ending in a similar ghost state
   durable_prefix_tr        durable_prefix for ANY trace whose final ghost state knows exactly the history's files
   durable_prefix_bursts    C16_durable_prefix over every burst refinement of trace_of ops
   acked_durable_bursts     C16_acked_durable over every burst refinement
   chunked_is_burst_of      publish_data_chunked p chs refines publish_data p (chunks_content chs) *)
From Coq Require Import NArith List Bool Arith Lia.
Require Import DS.Model.Durable DS.Model.DurableChunks DS.Proofs.DurableProofs DS.Proofs.DurablePrograms
               DS.Proofs.DurableChunksProofs.
Import ListNotations.
Open Scope N_scope.

Definition tsim (o' o : option (content * bool)) : Prop :=
  match o with
  | None => o' = None
  | Some (c, b) => exists b', o' = Some (c, b') /\ (b = true -> b' = true)
  end.

Definition gsim (g' g : ghost) : Prop :=
  (forall x, st g' x = st g x) /\ (forall x, refd g' x = refd g x) /\ (forall t, tsim (tmps g' t) (tmps g t)).

Lemma tsim_refl : forall o, tsim o o.
Proof. intros [[c b]|]; simpl; eauto. Qed.

Lemma gsim_refl : forall g, gsim g g.
Proof. intro g. split; [|split]; auto. intro t. apply tsim_refl. Qed.

Lemma forallb_ref_ok_sim : forall g' g l, (forall x, st g' x = st g x) -> forallb (ref_ok g') l = forallb (ref_ok g) l.
Proof. intros g' g l H. induction l as [|r l IH]; simpl; [reflexivity|]. rewrite IH. unfold ref_ok. now rewrite H. Qed.

Lemma gsim_check : forall g' g c g1, gsim g' g -> check g c = Some g1 ->
  exists g1', check g' c = Some g1' /\ gsim g1' g1.
Proof.
  intros g' g c g1 [Hs [Hr Ht]] H. destruct c as [p|p w|p|p q|dd|p|dd]; simpl in H.
  - destruct p as [d n|d n]; [discriminate|]. pose proof (Ht (T d n)) as Hx.
    destruct (tmps g (T d n)) eqn:E; [discriminate|]. simpl in Hx. inversion H; subst g1. simpl. rewrite Hx.
    eexists. split; [reflexivity|]. split; [exact Hs|]. split; [exact Hr|]. intro t0. simpl. unfold upd_t.
    destruct (path_eqb t0 (T d n)); [simpl; eauto|apply Ht].
  - destruct p as [d n|d n]; [discriminate|]. pose proof (Ht (T d n)) as Hx.
    destruct (tmps g (T d n)) as [[c0 fl]|] eqn:E; [|discriminate]. simpl in Hx. destruct Hx as [b' [Hx _]].
    inversion H; subst g1. simpl. rewrite Hx.
    eexists. split; [reflexivity|]. split; [exact Hs|]. split; [exact Hr|]. intro t0. simpl. unfold upd_t.
    destruct (path_eqb t0 (T d n)); [simpl; exists false; split; [reflexivity|auto]|apply Ht].
  - destruct p as [d n|d n]; [discriminate|]. pose proof (Ht (T d n)) as Hx.
    destruct (tmps g (T d n)) as [[c0 fl]|] eqn:E; [|discriminate]. simpl in Hx. destruct Hx as [b' [Hx _]].
    inversion H; subst g1. simpl. rewrite Hx.
    eexists. split; [reflexivity|]. split; [exact Hs|]. split; [exact Hr|]. intro t0. simpl. unfold upd_t.
    destruct (path_eqb t0 (T d n)); [simpl; exists true; split; [reflexivity|auto]|apply Ht].
  - destruct p as [d n|d n]; [discriminate|]. destruct q as [d' n'|]; [|discriminate]. pose proof (Ht (T d n)) as Hx.
    destruct (tmps g (T d n)) as [[c0 [|]]|] eqn:E; try discriminate. simpl in Hx. destruct Hx as [b' [Hx Hb]].
    rewrite (Hb eq_refl) in Hx.
    destruct (forallb (ref_ok g) (refs c0) && _) eqn:E2; [|discriminate]. inversion H; subst g1. simpl. rewrite Hx.
    rewrite (forallb_ref_ok_sim g' g _ Hs), Hs, E2.
    eexists. split; [reflexivity|]. split; [|split]; simpl.
    + intro x. unfold upd_s. destruct (path_eqb x (P d' n')); auto.
    + intro x. now rewrite Hr.
    + intro t0. unfold upd_t. destruct (path_eqb t0 (T d n)); [reflexivity|apply Ht].
  - inversion H; subst g1. simpl. eexists. split; [reflexivity|]. split; [|split]; simpl; auto.
    intro x. rewrite Hs. reflexivity.
  - destruct p as [d n|d n].
    + match type of H with (if ?x then _ else _) = _ => destruct x eqn:E2; [|discriminate] end.
      inversion H; subst g1. simpl. rewrite Hr, Hs, E2.
      eexists. split; [reflexivity|]. split; [|split]; simpl; auto.
      intro x. unfold upd_s. destruct (path_eqb x (P d n)); auto.
    + pose proof (Ht (T d n)) as Hx. destruct (tmps g (T d n)) as [[c0 fl]|] eqn:E; [|discriminate].
      simpl in Hx. destruct Hx as [b' [Hx _]]. inversion H; subst g1. simpl. rewrite Hx.
      eexists. split; [reflexivity|]. split; [exact Hs|]. split; [exact Hr|]. intro t0. simpl. unfold upd_t.
      destruct (path_eqb t0 (T d n)); [reflexivity|apply Ht].
  - inversion H; subst g1. exists g'. split; [reflexivity|]. split; [|split]; auto.
Qed.

Lemma bursts_sim : forall d n chs g' w b0, tmps g' (T d n) = Some (w, b0) ->
  exists g2 b2, checks g' (bursts (T d n) chs) = Some g2 /\ tmps g2 (T d n) = Some (w ++ chunks_content chs, b2)
    /\ (forall t, path_eqb t (T d n) = false -> tmps g2 t = tmps g' t)
    /\ (forall x, st g2 x = st g' x) /\ (forall x, refd g2 x = refd g' x).
Proof.
  intros d n chs. induction chs as [|ch chs IH]; intros g' w b0 H.
  - exists g', b0. simpl. unfold chunks_content. simpl. rewrite app_nil_r. auto.
  - unfold bursts. cbn [flat_map]. fold (bursts (T d n) chs). rewrite chunk_calls_shape.
    simpl app. cbn [checks check]. rewrite H.
    set (gA := mkGhost (upd_t (tmps g') (T d n) (Some (w ++ ch_bytes ch, false))) (st g') (refd g')).
    assert (HA : tmps gA (T d n) = Some (w ++ ch_bytes ch, false)) by (simpl; apply upd_t_same).
    assert (FA : forall t, path_eqb t (T d n) = false -> tmps gA t = tmps g' t).
    { intros t Ht. simpl. unfold upd_t. now rewrite Ht. }
    destruct (ch_sync ch); simpl app.
    + cbn [checks check]. rewrite HA.
      set (gB := mkGhost (upd_t (tmps gA) (T d n) (Some (w ++ ch_bytes ch, true))) (st gA) (refd gA)).
      assert (HB : tmps gB (T d n) = Some (w ++ ch_bytes ch, true)) by (simpl; apply upd_t_same).
      destruct (IH gB _ _ HB) as [g2 [b2 [C [D [F [S R]]]]]].
      exists g2, b2. split; [exact C|]. split; [|split; [|split]].
      * rewrite D. unfold chunks_content. simpl. now rewrite app_assoc.
      * intros t Ht. rewrite (F t Ht). simpl. unfold upd_t. rewrite Ht. reflexivity.
      * intro x. rewrite S. reflexivity.
      * intro x. rewrite R. reflexivity.
    + destruct (IH gA _ _ HA) as [g2 [b2 [C [D [F [S R]]]]]].
      exists g2, b2. split; [exact C|]. split; [|split; [|split]].
      * rewrite D. unfold chunks_content. simpl. now rewrite app_assoc.
      * intros t Ht. rewrite (F t Ht). apply FA. exact Ht.
      * intro x. rewrite S. reflexivity.
      * intro x. rewrite R. reflexivity.
Qed.

Lemma gsim_bursts : forall g' g t chs g1, gsim g' g -> check g (Write t (chunks_content chs)) = Some g1 ->
  exists g1', checks g' (bursts t chs) = Some g1' /\ gsim g1' g1.
Proof.
  intros g' g t chs g1 [Hs [Hr Ht]] H. destruct t as [d n|d n]; simpl in H; [discriminate|].
  pose proof (Ht (T d n)) as Hx. destruct (tmps g (T d n)) as [[c0 fl]|] eqn:E; [|discriminate].
  simpl in Hx. destruct Hx as [b' [Hx _]]. inversion H; subst g1.
  destruct (bursts_sim d n chs g' c0 b' Hx) as [g2 [b2 [C [D [F [S R]]]]]].
  exists g2. split; [exact C|]. split; [|split]; simpl.
  - intro x. rewrite S. apply Hs.
  - intro x. rewrite R. apply Hr.
  - intro t0. unfold upd_t. destruct (path_eqb_spec t0 (T d n)) as [->|Hne].
    + rewrite D. simpl. exists b2. split; [reflexivity|discriminate].
    + rewrite F by (now apply path_eqb_neq). apply Ht.
Qed.

(* the discipline accepts every burst refinement of a trace it accepts *)
Theorem burst_refines : forall tr' tr, burst_of tr' tr -> forall g' g g1, gsim g' g -> checks g tr = Some g1 ->
  exists g1', checks g' tr' = Some g1' /\ gsim g1' g1.
Proof.
  intros tr' tr Hb. induction Hb as [|c tr' tr Hb IH|t chs tr' tr Hb IH]; intros g' g g1 Hg H.
  - simpl in H. inversion H; subst. exists g'. split; [reflexivity|exact Hg].
  - simpl in H. destruct (check g c) as [g2|] eqn:E; [|discriminate].
    destruct (gsim_check _ _ _ _ Hg E) as [g2' [C2 S2]]. simpl. rewrite C2. eapply IH; eauto.
  - cbn [checks] in H. destruct (check g (Write t (chunks_content chs))) as [g2|] eqn:E; [|discriminate].
    destruct (gsim_bursts _ _ _ _ _ Hg E) as [g2' [C2 S2]]. rewrite checks_app, C2. eapply IH; eauto.
Qed.

Theorem burst_disciplined : forall tr' tr, burst_of tr' tr -> disciplined tr = true -> disciplined tr' = true.
Proof.
  intros tr' tr Hb H. unfold disciplined in *. destruct (checks g0 tr) as [g1|] eqn:E; [|discriminate].
  destruct (burst_refines _ _ Hb g0 g0 g1 (gsim_refl g0) E) as [g1' [C _]]. now rewrite C.
Qed.

Lemma burst_of_refl : forall tr, burst_of tr tr.
Proof. induction tr; constructor; auto. Qed.

Lemma burst_of_app : forall a' a b' b, burst_of a' a -> burst_of b' b -> burst_of (a' ++ b') (a ++ b).
Proof.
  intros a' a b' b Ha Hb. induction Ha as [|c tr' tr Ha IH|t chs tr' tr Ha IH]; simpl; auto.
  - now constructor.
  - rewrite <- app_assoc. now constructor.
Qed.

(* the chunked data writer of Model/DurableChunks.v is a burst refinement of the one-Write data writer *)
Theorem chunked_is_burst_of : forall p chs, burst_of (publish_data_chunked p chs) (publish_data p (chunks_content chs)).
Proof.
  intros p chs. rewrite chunked_shape. unfold publish_data, gen_data_writer.
  apply bo_keep. apply bo_split. apply burst_of_refl.
Qed.

Theorem chunked_disciplined_frame : forall g p chs g1,
  checks g (publish_data p (chunks_content chs)) = Some g1 ->
  exists g1', checks g (publish_data_chunked p chs) = Some g1' /\ gsim g1' g1.
Proof. intros g p chs g1. exact (burst_refines _ _ (chunked_is_burst_of p chs) g g g1 (gsim_refl g)). Qed.

Lemma G_sim : forall used F M g g', G used F M g -> gsim g' g -> G used F M g'.
Proof.
  intros used F M g g' H [Hs [Hr Ht]]. destruct H as [A1 A2 A3 A4 A5 A6 A7]. constructor.
  - intro t. specialize (Ht t). rewrite A1 in Ht. exact Ht.
  - intros q H1 H2. rewrite Hs. auto.
  - intros f Hf. rewrite Hs. auto.
  - intros m Hm. rewrite Hs, Hr. auto.
  - intros r H. rewrite Hr in H. auto.
  - intros c b H. rewrite Hs in H. eauto.
  - rewrite Hs. exact A7.
Qed.

(* durable_prefix for ANY trace the discipline accepts with a final ghost state that knows exactly the history's files *)
Theorem durable_prefix_tr : forall ops tr g' u' F', checks g0 tr = Some g' -> G u' F' [] g' ->
  incl (files_of ops) F' -> incl F' (files_of ops) ->
  forall n es, calls_of es = firstn n tr ->
  exists s', run fs0 es = Some s' /\ safe_state s' /\
    forall v, pointer (power_loss s') = Some v ->
    forall k, reachable_from ops v k ->
      exists c, intended ops k = Some c /\ content_at (power_loss s') k = Some c /\ content_at (vol s') k = Some c.
Proof.
  intros ops tr g' u' F' Hc HG I1 I2 n es Hes.
  rewrite <- (firstn_skipn n tr) in Hc. rewrite checks_app in Hc.
  destruct (checks g0 (firstn n tr)) as [g1|] eqn:H1; [|discriminate].
  rewrite <- Hes in H1. destruct (Inv_run es g0 fs0 g1 H1 Inv_init) as [s' [Hr I]].
  exists s'. split; auto. split; [eapply Inv_safe; eauto|].
  intros v Hv k Hk. unfold pointer, content_at, power_loss in Hv.
  destruct (entry (dur s') PTR) as [i|] eqn:Hi; [|discriminate].
  destruct (refs (data (dur s') i)) as [|v0 [|? ?]] eqn:Hrf; try discriminate. inversion Hv; subst v0.
  assert (Hrv : refd g1 v = true). { eapply (i_ptr _ _ I); eauto. rewrite Hrf. now left. }
  assert (Hall : refd g1 k = true /\ exists c, intended ops k = Some c /\ st g1 k = Linked c true).
  { induction Hk as [v|v k k' Hk IH [c [Hic Hin]]].
    - split; auto. destruct (refd_durable _ _ _ I Hrv) as [c [j [A [B _]]]]. exists c. split; auto.
      eapply intended_tie; eauto.
    - destruct (IH Hv Hrf Hrv) as [Rk [c0 [Ic Sk]]]. rewrite Ic in Hic. inversion Hic; subst c0.
      assert (Rk' : refd g1 k' = true).
      { destruct (i_refd _ _ I _ Rk) as [Hf _]. destruct k; [|discriminate]. eapply (i_refs _ _ I); eauto. }
      split; auto. destruct (refd_durable _ _ _ I Rk') as [c' [j [A [B _]]]]. exists c'. split; auto.
      eapply intended_tie; eauto. }
  destruct Hall as [Rk [c [Ic Sk]]]. exists c. split; auto.
  destruct (refd_durable _ _ _ I Rk) as [c' [j [A [B [C [D [E F]]]]]]].
  assert (Ec : c' = c) by congruence. rewrite Ec in *. unfold content_at, power_loss. rewrite C, E, D, F. auto.
Qed.

Theorem durable_prefix_bursts : forall ops, wf ops = true ->
  forall tr', burst_of tr' (trace_of ops) ->
  forall n es, calls_of es = firstn n tr' ->
  exists s', run fs0 es = Some s' /\ safe_state s' /\
    forall v, pointer (power_loss s') = Some v ->
    forall k, reachable_from ops v k ->
      exists c, intended ops k = Some c /\ content_at (power_loss s') k = Some c /\ content_at (vol s') k = Some c.
Proof.
  intros ops Hwf tr' Hb n es Hes.
  destruct (wf_checks ops Hwf) as [g' [u' [F' [Hc [HG [I1 I2]]]]]].
  destruct (burst_refines _ _ Hb g0 g0 g' (gsim_refl g0) Hc) as [g2 [C2 S2]].
  eapply durable_prefix_tr; eauto. eapply G_sim; eauto.
Qed.

Lemma burst_no_ptr : forall tr' tr, burst_of tr' tr -> Forall no_ptr_rename tr -> Forall no_ptr_rename tr'.
Proof.
  intros tr' tr Hb. induction Hb as [|c tr' tr Hb IH|t chs tr' tr Hb IH]; intro H.
  - constructor.
  - inversion H; subst. constructor; auto.
  - inversion H; subst. apply Forall_app. split; [|auto].
    apply Forall_forall. intros x Hx. unfold bursts in Hx. apply in_flat_map in Hx as [ch [_ Hx]].
    rewrite chunk_calls_shape in Hx. destruct Hx as [<-|Hx]; [intros t0 E; discriminate|].
    destruct (ch_sync ch); [destruct Hx as [<-|[]]; intros t0 E; discriminate|destruct Hx].
Qed.

Theorem acked_durable_bursts : forall ops c rest, forallb is_abort rest = true ->
  wf (ops ++ OCommit c :: rest) = true ->
  forall A' B', burst_of A' (trace_of ops ++ commit_body c) -> burst_of B' (commit_cleanup c ++ trace_of rest) ->
  forall n es, (length A' <= n)%nat -> calls_of es = firstn n (A' ++ B') ->
  exists s', run fs0 es = Some s' /\ pointer (power_loss s') = Some (pf_path (c_meta c)) /\ pointer (vol s') = Some (pf_path (c_meta c)).
Proof.
  intros ops c rest Hab Hwf A' B' HA HB n es Hn Hes.
  pose proof Hwf as Hwf0.
  unfold wf in Hwf. rewrite wf_from_app in Hwf. apply andb_prop in Hwf as [W1 W2].
  destruct (history_ok ops [] [] [] [] g0 W1 G_init (incl_refl _) (incl_refl _))
    as [g1 [u1 [F1 [C1 [G1 [J1 [J2 _]]]]]]].
  cbn [wf_from wf_op] in W2. apply andb_prop in W2 as [W2 W3].
  destruct (commit_ok c _ _ u1 F1 g1 W2 G1 J1 J2) as [g2 [g3 [u3 [F3 [M3 [C2 [C3 [G2 [G3 [S2 _]]]]]]]]]].
  set (A := trace_of ops ++ commit_body c) in *.
  set (B := commit_cleanup c ++ trace_of rest) in *.
  assert (Htr : trace_of (ops ++ OCommit c :: rest) = A ++ B).
  { rewrite trace_of_app. cbn [trace_of flat_map trace_of_op]. unfold trace_of_commit, A, B. now rewrite <- !app_assoc. }
  destruct (wf_checks _ Hwf0) as [gF [uF [FF [CF _]]]]. rewrite Htr, checks_app in CF.
  assert (CA : checks g0 A = Some g2) by (unfold A; rewrite checks_app, C1; exact C2).
  rewrite CA in CF.
  destruct (burst_refines _ _ HA g0 g0 g2 (gsim_refl g0) CA) as [g2' [CA' SA]].
  destruct (burst_refines _ _ HB g2' g2 gF SA CF) as [gF' [CF' _]].
  rewrite firstn_app, (firstn_all2 A') in Hes by exact Hn.
  set (k := (n - length A')%nat) in *.
  destruct (checks_prefix B' k g2' gF' CF') as [gk Ck].
  assert (Hck : checks g0 (calls_of es) = Some gk) by (rewrite Hes, checks_app, CA'; exact Ck).
  destruct (Inv_run es g0 fs0 gk Hck Inv_init) as [s' [Hr I]]. exists s'. split; auto.
  assert (S2' : st g2' PTR = Linked (c_ptr c) true) by (destruct SA as [Hs _]; rewrite Hs; exact S2).
  assert (Sk : st gk PTR = Linked (c_ptr c) true).
  { eapply checks_ptr_stable; [exact Ck| |exact S2']. apply Forall_firstn'. eapply burst_no_ptr; [exact HB|].
    unfold B. apply Forall_app. split.
    - unfold commit_cleanup. apply Forall_forall. intros x Hx. apply in_map_iff in Hx as [it [<- _]]. intros t E. discriminate.
    - eapply aborts_no_ptr; eauto. }
  destruct (i_linked _ _ I 0 0 _ _ Sk) as [i [V1 V2]]. specialize (V2 eq_refl).
  destruct (i_vol _ _ I 0 0 i V1) as [c' [b' [E1 [E2 E3]]]]. fold PTR in E1. rewrite Sk in E1. inversion E1 as [[Ec Eb]]. rewrite <- Ec in E2, E3.
  unfold wf_commit in W2. apply andb_prop in W2 as [_ W6].
  unfold pointer, content_at, power_loss. fold PTR in V1, V2. rewrite V1, V2, E2, E3.
  destruct (refs (c_ptr c)) as [|v [|? ?]]; try discriminate.
  destruct (path_eqb_spec v (pf_path (c_meta c))); [subst; auto|discriminate].
Qed.

(* ---- second audit, LOW: the unsynced-tail rejection with ANY calls between the last Write and the Rename ---------- *)
Lemma unsynced_stays : forall mid g d n c0, tmps g (T d n) = Some (c0, false) ->
  Forall (fun c => c <> Fsync (T d n) /\ c <> Unlink (T d n)) mid ->
  forall g', checks g mid = Some g' -> exists c1, tmps g' (T d n) = Some (c1, false).
Proof.
  induction mid as [|a mid IH]; intros g d n c0 H HF g' Hc.
  - simpl in Hc. inversion Hc; subst. eauto.
  - inversion HF as [|x l [Hx1 Hx2] HF']; subst. simpl in Hc. destruct (check g a) as [g2|] eqn:E; [|discriminate].
    assert (H2 : exists c1, tmps g2 (T d n) = Some (c1, false)).
    { destruct a as [p|p w|p|p q|dd|p|dd]; simpl in E.
      - destruct p as [d1 n1|d1 n1]; [discriminate|]. destruct (tmps g (T d1 n1)) eqn:E1; [discriminate|].
        inversion E; subst g2; simpl. exists c0. rewrite upd_t_other; auto. intro X. rewrite <- X in E1. congruence.
      - destruct p as [d1 n1|d1 n1]; [discriminate|]. destruct (tmps g (T d1 n1)) as [[c2 f2]|] eqn:E1; [|discriminate].
        inversion E; subst g2; simpl. destruct (path_eq_dec (T d n) (T d1 n1)) as [X|X].
        + rewrite <- X. rewrite upd_t_same. eauto.
        + rewrite upd_t_other by auto. eauto.
      - destruct p as [d1 n1|d1 n1]; [discriminate|]. destruct (tmps g (T d1 n1)) as [[c2 f2]|] eqn:E1; [|discriminate].
        inversion E; subst g2; simpl. rewrite upd_t_other by congruence. eauto.
      - destruct p as [d1 n1|d1 n1]; [discriminate|]. destruct q as [d2 n2|]; [|discriminate].
        destruct (tmps g (T d1 n1)) as [[c2 [|]]|] eqn:E1; try discriminate.
        match type of E with (if ?x then _ else _) = _ => destruct x; [|discriminate] end.
        inversion E; subst g2; simpl. rewrite upd_t_other; eauto. intro X. rewrite <- X in E1. congruence.
      - inversion E; subst g2; simpl. eauto.
      - destruct p as [d1 n1|d1 n1].
        + match type of E with (if ?x then _ else _) = _ => destruct x; [|discriminate] end. inversion E; subst g2; simpl. eauto.
        + destruct (tmps g (T d1 n1)) eqn:E1; [|discriminate]. inversion E; subst g2; simpl.
          rewrite upd_t_other by congruence. eauto.
      - inversion E; subst g2. eauto. }
    destruct H2 as [c1 H1]. eapply IH; eauto.
Qed.

Theorem unsynced_tail_rejected_gen : forall g pre f b mid q post,
  Forall (fun c => c <> Fsync f /\ c <> Unlink f) mid ->
  checks g (pre ++ Write f b :: mid ++ Rename f q :: post) = None.
Proof.
  intros g pre f b mid q post HF. rewrite checks_app. destruct (checks g pre) as [g1|]; [|reflexivity].
  destruct f as [d n|d n]; [reflexivity|]. cbn [checks check].
  destruct (tmps g1 (T d n)) as [[c0 fl]|] eqn:E; [|reflexivity]. rewrite checks_app.
  match goal with |- match checks ?gA mid with _ => _ end = _ => destruct (checks gA mid) as [g2|] eqn:E2; [|reflexivity];
    destruct (unsynced_stays mid gA d n (c0 ++ b) (upd_t_same _ _ _) HF g2 E2) as [c1 H1] end.
  cbn [checks check]. destruct q as [d' n'|d' n']; [|reflexivity]. rewrite H1. reflexivity.
Qed.
