(* Proofs/PtrFallbackProofs.v -- the commit machine with an unusable pointer and commit()'s fallback (Model/PtrFallback.v).

   1. UNCONDITIONALLY (any damage events, any scan results, any lock): every applied pointer write replaced exactly the
      pointer object whose ETag its committer had read under the lock; when that object named a version, it is the version
      validated (read from the very bytes that came with the ETag); when it was unusable, the version validated is the one
      the fallback recovered by scanning -- a committer that found the pointer repaired at the re-read is refused by the
      store (RI, rreach_repl).
   2. When every scan returns the version named by the last successful pointer write (`exact = true`: recovery is right,
      C10's subject) each step is at most one step of the commit machine, so its invariant -- chain, serializability,
      acknowledged-exactly-once -- holds for every schedule with damage events and fallbacks (RX and the rreach lemmas).
   3. Without that hypothesis the chain theorem is FALSE: a scan that returns another committer's unpublished file of the
      same version number loses an acknowledged commit (fallback_full_refuted, by computation). *)
From Coq Require Import ZArith List Bool Arith Lia.
Require Import DS.Model.CommitBase DS.Gen.GenCommit DS.Model.Commit DS.Model.PtrFallback
               DS.Proofs.CommitGenProofs DS.Proofs.CommitProofs.
Import ListNotations.

(* ------------------------------------------------------------------ what one step of the commit machine leaves alone *)
Lemma step_frame c w e w' : step c w e = Some w' ->
  let a := e_actor e in let s := w_actors w a in let s' := w_actors w' a in
  (forall b, b <> a -> w_actors w' b = w_actors w b)
  /\ ((forall v ok, e_kind e <> EValidate v ok) ->
      a_cur s' = a_cur s /\ a_etag s' = a_etag s /\ (inV (a_pc s') = true -> inV (a_pc s) = true))
  /\ (e_kind e <> EFlip true -> w_ptr w' = w_ptr w).
Proof.
  intro H. unfold step in H. cbv zeta.
  destruct (e_kind e) as [v|ok| |v ok|now|ok|ok| | | ] eqn:EK; destruct (a_pc (w_actors w (e_actor e))) eqn:PC; try discriminate;
    try (destruct ok);
    repeat match goal with
           | H : (if ?b then _ else _) = Some _ |- _ => destruct b eqn:?; try discriminate
           | H : match lockkind c with _ => _ end = Some _ |- _ => destruct (lockkind c); try discriminate
           end;
    inversion H; subst w'; clear H; simpl;
    (split; [intros b NE; rewrite ?upd_other by exact NE; reflexivity|]);
    rewrite ?upd_same; simpl;
    (split; [intro NV; try (exfalso; eapply NV; reflexivity);
             repeat split; auto; try discriminate; try (rewrite PC; auto; fail);
             try (destruct (Nat.ltb _ _); simpl; auto; discriminate)
            | intro NF; try reflexivity; try (exfalso; apply NF; reflexivity)]).
Qed.

Lemma step_validate c w a v ok w' : step c w {| e_actor := a; e_kind := EValidate v ok |} = Some w' ->
  a_cur (w_actors w' a) = v /\ a_etag (w_actors w' a) = v.
Proof.
  intro H. unfold step in H. simpl in H. destruct (a_pc (w_actors w a)); try discriminate.
  match type of H with (if ?b then _ else _) = _ => destruct b; [|discriminate] end.
  inversion H; subst w'; simpl. rewrite upd_same. split; reflexivity.
Qed.

Lemma step_locktry c w a w' : step c w {| e_actor := a; e_kind := ELockTry true |} = Some w' ->
  a_pc (w_actors w' a) = PLocked.
Proof.
  intro H. unfold step in H. simpl in H. destruct (a_pc (w_actors w a)); try discriminate.
  match type of H with (if ?b then _ else _) = _ => destruct b; [|discriminate] end.
  inversion H; subst w'; simpl. rewrite upd_same. reflexivity.
Qed.

Lemma setf_same {A} a (v : A) f : setf a v f a = v.
Proof. unfold setf. rewrite Nat.eqb_refl. reflexivity. Qed.
Lemma setf_other {A} a b (v : A) f : b <> a -> setf a v f b = f b.
Proof. intro NE. unfold setf. destruct (Nat.eqb_spec b a); [contradiction|reflexivity]. Qed.

(* ------------------------------------------------------------------ 1. provenance of the ETag and of the validated version *)
Definition val_ok (X : rworld) (a : aid) : Prop :=
  let s := w_actors (rw X) a in
  match r_tag X a with
  | None => a_etag s = a_cur s /\ r_how X a = HDirect
  | Some g => r_how X a = HScan \/ (r_how X a = HRepaired /\ r_bad X <> Some g)
  end.

Record RI (X : rworld) : Prop := {
  RI_bad : forall g, r_bad X = Some g -> (g < r_next X)%nat;
  RI_tag : forall a g, r_tag X a = Some g -> (g < r_next X)%nat;
  RI_val : forall a, inV (a_pc (w_actors (rw X) a)) = true -> val_ok X a;
  RI_repl : Forall entry_ok (r_repl X) }.

Lemma rinit_RI w : (forall a, inV (a_pc (w_actors w a)) = false) -> RI (rinit w).
Proof.
  intro Idle. constructor; simpl; try discriminate.
  - intros a V. rewrite Idle in V. discriminate.
  - constructor.
Qed.

(* a step of the commit machine that is neither a validation nor touches the fallback bookkeeping *)
Lemma RI_pass c X e w' : (forall v ok, e_kind e <> EValidate v ok) -> step c (rw X) e = Some w' -> RI X -> RI (with_world X w').
Proof.
  intros NV St [B T V R]. destruct (step_frame _ _ _ _ St) as [Oth [Same _]]. cbv zeta in *.
  destruct (Same NV) as [C [E IV]].
  constructor; simpl; auto. intros b Vb. unfold val_ok; simpl.
  destruct (Nat.eq_dec b (e_actor e)) as [->|NE].
  - specialize (V (e_actor e) (IV Vb)). unfold val_ok in V. rewrite C, E. exact V.
  - rewrite (Oth b NE) in *. apply (V b Vb).
Qed.

Lemma rstep_RI c exact X x X' : cas c = true -> RI X -> rstep c exact X x = Some X' -> RI X'.
Proof.
  intros CAS I H. destruct x as [e| |a r|a g|a rc ok|a ok]; simpl in H.
  - (* RE e *)
    destruct (e_kind e) as [v|ok| |v ok|now|ok|ok| | | ] eqn:EK.
    + (* EBegin *)
      destruct (is_some (r_bad X)); [discriminate|]. destruct (step c (rw X) e) as [w'|] eqn:St; [|discriminate].
      inversion H; subst X'. eapply RI_pass; eauto. intros; rewrite EK; discriminate.
    + (* ELockTry *)
      destruct ok.
      * destruct (step c (rw X) e) as [w'|] eqn:St; [|discriminate]. inversion H; subst X'; clear H.
        assert (P : RI (with_world X w')) by (eapply RI_pass; eauto; intros; rewrite EK; discriminate).
        destruct P as [B T V R]. simpl in *.
        assert (PL : a_pc (w_actors w' (e_actor e)) = PLocked).
        { apply (step_locktry c (rw X)). destruct e as [ea ek]. simpl in *. subst ek. exact St. }
        constructor; simpl; auto.
        -- intros b g. destruct (Nat.eq_dec b (e_actor e)) as [->|NE]; [rewrite setf_same; discriminate | rewrite setf_other by exact NE; apply T].
        -- intros b Vb. destruct (Nat.eq_dec b (e_actor e)) as [->|NE]; [rewrite PL in Vb; discriminate|].
           specialize (V b Vb). unfold val_ok in *; simpl in *. rewrite !setf_other by exact NE. exact V.
      * destruct (step c (rw X) e) as [w'|] eqn:St; [|discriminate]. inversion H; subst X'.
        eapply RI_pass; eauto. intros; rewrite EK; discriminate.
    + (* ESteal *)
      destruct (step c (rw X) e) as [w'|] eqn:St; [|discriminate]. inversion H; subst X'.
      eapply RI_pass; eauto. intros; rewrite EK; discriminate.
    + (* EValidate: the bytes read with the ETag name the version *)
      destruct (r_bad X) eqn:RB; [discriminate|]. destruct (r_tag X (e_actor e)) eqn:RT; [discriminate|]. simpl in H.
      destruct (step c (rw X) e) as [w'|] eqn:St; [|discriminate]. inversion H; subst X'; clear H.
      destruct I as [B T V R]. destruct (step_frame _ _ _ _ St) as [Oth _]. cbv zeta in Oth.
      assert (VA : a_cur (w_actors w' (e_actor e)) = v /\ a_etag (w_actors w' (e_actor e)) = v).
      { apply (step_validate c (rw X) (e_actor e) v ok). destruct e as [ea ek]. simpl in *. subst ek. exact St. }
      constructor; simpl; auto; try discriminate.
      * intros b Vb. unfold val_ok; simpl. destruct (Nat.eq_dec b (e_actor e)) as [->|NE].
        -- rewrite RT, setf_same. destruct VA as [-> ->]. auto.
        -- rewrite setf_other by exact NE. rewrite (Oth b NE) in *. specialize (V b Vb). unfold val_ok in V.
           rewrite RB in V. exact V.
    + (* EMetaW *)
      destruct (step c (rw X) e) as [w'|] eqn:St; [|discriminate]. inversion H; subst X'.
      eapply RI_pass; eauto. intros; rewrite EK; discriminate.
    + (* EFence *)
      destruct (step c (rw X) e) as [w'|] eqn:St; [|discriminate]. inversion H; subst X'.
      eapply RI_pass; eauto. intros; rewrite EK; discriminate.
    + (* EFlip *)
      destruct (r_tag X (e_actor e)) eqn:RT; [discriminate|]. destruct (r_bad X) eqn:RB.
      * (* the pointer is unusable: refused *)
        destruct (negb ok && cas c); [|discriminate].
        destruct (a_pc (w_actors (rw X) (e_actor e))) eqn:PC; try discriminate.
        inversion H; subst X'; clear H. destruct I as [B T V R].
        constructor; simpl; auto. intros b Vb. unfold val_ok; simpl.
        destruct (Nat.eq_dec b (e_actor e)) as [->|NE]; [rewrite upd_same in Vb; discriminate|].
        rewrite upd_other in * by exact NE. apply (V b Vb).
      * destruct (step c (rw X) e) as [w'|] eqn:St; [|discriminate]. inversion H; subst X'; clear H.
        assert (P : RI (with_world X w')) by (eapply RI_pass; eauto; intros; rewrite EK; discriminate).
        destruct P as [B' T' V' R']. simpl in *.
        constructor; simpl; auto.
        -- discriminate.
        -- intros b Vb. specialize (V' b Vb). unfold val_ok in *; simpl in *. destruct (r_tag X b); auto.
           destruct V' as [S|[S _]]; [left; exact S | right; split; [exact S | discriminate]].
        -- destruct ok; [|exact R']. apply Forall_app. split; [exact R'|]. constructor; [|constructor].
           destruct (step_repl_shape _ _ _ _ St) as [E|[PC [E G]]].
           ++ (* a successful flip always extends w_repl *)
              exfalso. unfold step in St. rewrite EK in St.
              destruct (a_pc (w_actors (rw X) (e_actor e))); try discriminate.
              match type of St with (if ?b then _ else _) = _ => destruct b; [|discriminate] end.
              inversion St; subst w'. simpl in E. symmetry in E. rewrite <- app_nil_r in E at 1. apply app_inv_head in E. discriminate.
           ++ rewrite CAS in G. apply Nat.eqb_eq in G.
              destruct I as [_ _ V _]. assert (IVa : inV (a_pc (w_actors (rw X) (e_actor e))) = true) by (rewrite PC; reflexivity).
              specialize (V _ IVa). unfold val_ok in V. rewrite RT in V. destruct V as [EC HD].
              unfold entry_ok; simpl. rewrite G. split; [reflexivity|]. split; [symmetry; exact EC | exact HD].
    + (* ERelease *)
      destruct (step c (rw X) e) as [w'|] eqn:St; [|discriminate]. inversion H; subst X'.
      eapply RI_pass; eauto. intros; rewrite EK; discriminate.
    + (* EAbort *)
      destruct (step c (rw X) e) as [w'|] eqn:St; [|discriminate]. inversion H; subst X'.
      eapply RI_pass; eauto. intros; rewrite EK; discriminate.
    + (* ECrash *)
      destruct (step c (rw X) e) as [w'|] eqn:St; [|discriminate]. inversion H; subst X'.
      eapply RI_pass; eauto. intros; rewrite EK; discriminate.
  - (* RDamage *)
    inversion H; subst X'; clear H. destruct I as [B T V R]. constructor; simpl; auto.
    + intros g E. inversion E; subst. lia.
    + intros a g E. specialize (T a g E). lia.
    + intros a Va. specialize (V a Va). unfold val_ok in *; simpl in *. destruct (r_tag X a) as [g|] eqn:RT; auto.
      destruct V as [S|[S _]]; [left; exact S | right; split; [exact S|]].
      intro E. inversion E; subst. specialize (T a _ RT). lia.
  - (* RBegin *)
    destruct (r_bad X) eqn:RB; [|discriminate]. destruct (a_pc (w_actors (rw X) a)) eqn:PC; try discriminate.
    match type of H with (if ?b then _ else _) = _ => destruct b; [|discriminate] end.
    inversion H; subst X'; clear H. destruct I as [B T V R]. constructor; simpl; auto.
    + rewrite RB in B. exact B.
    + intros b Vb. unfold val_ok; simpl.
      destruct (Nat.eq_dec b a) as [->|NE]; [rewrite upd_same in Vb; discriminate|].
      rewrite upd_other in * by exact NE. specialize (V b Vb). unfold val_ok in V. rewrite RB in V. exact V.
  - (* RReadBad *)
    destruct (r_bad X) as [g'|] eqn:RB; [|discriminate]. destruct (r_tag X a) eqn:RT; [discriminate|].
    destruct (a_pc (w_actors (rw X) a)) eqn:PC; try discriminate.
    destruct (Nat.eqb_spec g g') as [->|]; [|discriminate].
    inversion H; subst X'; clear H. destruct I as [B T V R]. constructor; simpl; auto.
    + rewrite RB in B. exact B.
    + intros b g. destruct (Nat.eq_dec b a) as [->|NE].
      * rewrite setf_same. intro E. inversion E; subst. apply B. exact RB.
      * rewrite setf_other by exact NE. apply T.
    + intros b Vb. destruct (Nat.eq_dec b a) as [->|NE]; [rewrite PC in Vb; discriminate|].
      specialize (V b Vb). unfold val_ok in *; simpl in *. rewrite setf_other by exact NE. rewrite RB in V. exact V.
  - (* RRefresh *)
    destruct (r_tag X a) as [g|] eqn:RT; [|discriminate]. destruct (a_pc (w_actors (rw X) a)) eqn:PC; try discriminate.
    match type of H with match ?sel with _ => _ end = _ => destruct sel as [[v h]|] eqn:SEL; [|discriminate] end.
    destruct (Bool.eqb ok (stamp_eqb (file (rw X) v) (file (rw X) (a_base (w_actors (rw X) a))))); [|discriminate].
    inversion H; subst X'; clear H. destruct I as [B T V R]. constructor; simpl; auto.
    intros b Vb. unfold val_ok; simpl. destruct (Nat.eq_dec b a) as [->|NE].
    + rewrite RT, setf_same. destruct rc as [r|v']; destruct (r_bad X) eqn:RB; try discriminate.
      * match type of SEL with (if ?b then _ else _) = _ => destruct b; [|discriminate] end. inversion SEL; subst. left. reflexivity.
      * match type of SEL with (if ?b then _ else _) = _ => destruct b; [|discriminate] end. inversion SEL; subst. right. split; [reflexivity|discriminate].
    + rewrite setf_other by exact NE. rewrite upd_other in * by exact NE. apply (V b Vb).
  - (* RFlip *)
    destruct (r_tag X a) as [g|] eqn:RT; [|discriminate]. destruct (a_pc (w_actors (rw X) a)) eqn:PC; try discriminate.
    match type of H with (if ?b then _ else _) = _ => destruct b eqn:G; [|discriminate] end.
    apply andb_true_iff in G. destruct G as [G _]. apply eqb_prop in G.
    destruct ok.
    + inversion H; subst X'; clear H. destruct I as [B T V R].
      assert (RB : r_bad X = Some g).
      { destruct (r_bad X) as [g'|]; [|discriminate]. symmetry in G. apply Nat.eqb_eq in G. subst. reflexivity. }
      constructor; simpl; auto.
      * discriminate.
      * intros b Vb. unfold val_ok; simpl. destruct (Nat.eq_dec b a) as [->|NE]; [rewrite upd_same in Vb; discriminate|].
        rewrite upd_other in * by exact NE. specialize (V b Vb). unfold val_ok in V. destruct (r_tag X b); auto.
        destruct V as [S|[S _]]; [left; exact S | right; split; [exact S | discriminate]].
      * apply Forall_app. split; [exact R|]. constructor; [|constructor].
        assert (IVa : inV (a_pc (w_actors (rw X) a)) = true) by (rewrite PC; reflexivity).
        specialize (V a IVa). unfold val_ok in V. rewrite RT in V.
        unfold entry_ok; simpl. split; [reflexivity|]. destruct V as [S|[_ N]]; [exact S | contradiction].
    + inversion H; subst X'; clear H. destruct I as [B T V R]. constructor; simpl; auto.
      intros b Vb. unfold val_ok; simpl. destruct (Nat.eq_dec b a) as [->|NE]; [rewrite upd_same in Vb; discriminate|].
      rewrite upd_other in * by exact NE. apply (V b Vb).
Qed.

Lemma rrun_cons c exact X x xs : rrun c exact X (x :: xs) = rrun c exact (rstep_skip c exact X x) xs.
Proof. reflexivity. Qed.

Lemma rrun_RI c exact X xs : cas c = true -> RI X -> RI (rrun c exact X xs).
Proof.
  intro CAS. revert X. induction xs as [|x xs IH]; intros X I; [exact I|].
  rewrite rrun_cons. apply IH. unfold rstep_skip. destruct (rstep c exact X x) eqn:St; [eapply rstep_RI; eauto | exact I].
Qed.

Lemma rreach_repl c exact m0 kind mr xs : cas c = true ->
  Forall entry_ok (r_repl (rrun c exact (rinit (init_world m0 kind mr)) xs)).
Proof. intro CAS. apply RI_repl. apply rrun_RI; [exact CAS|]. apply rinit_RI. reflexivity. Qed.

(* ------------------------------------------------------------------ 2. exact recovery: every step is at most one machine step *)
(* a committer holding the ETag of the CURRENT unusable object has validated the version named by the last successful
   pointer write: nothing was written to the pointer since (identities are fresh) *)
Definition R4 (X : rworld) : Prop := forall a g,
  r_tag X a = Some g -> r_bad X = Some g -> inV (a_pc (w_actors (rw X) a)) = true ->
  a_etag (w_actors (rw X) a) = w_ptr (rw X).

Definition refused (w w' : world) : Prop :=
  exists a, a_pc (w_actors w a) = PFenced /\ w' = with_actor w a (set_pc (w_actors w a) PConflict).

Lemma rstep_world c X x X' : cas c = true -> R4 X -> rstep c true X x = Some X' ->
  rw X' = rw X \/ (exists e, step c (rw X) e = Some (rw X')) \/ refused (rw X) (rw X').
Proof.
  intros CAS Q H. destruct x as [e| |a r|a g|a rc ok|a ok]; simpl in H.
  - destruct (e_kind e) as [v|ok| |v ok|now|ok|ok| | | ] eqn:EK;
      try (destruct (step c (rw X) e) as [w'|] eqn:St; [|discriminate]; inversion H; subst X'; right; left; exists e; exact St).
    + destruct (is_some (r_bad X)); [discriminate|].
      destruct (step c (rw X) e) as [w'|] eqn:St; [|discriminate]. inversion H; subst X'. right; left; exists e; exact St.
    + destruct ok; destruct (step c (rw X) e) as [w'|] eqn:St; try discriminate; inversion H; subst X'; right; left; exists e; exact St.
    + destruct (is_some (r_bad X) || is_some (r_tag X (e_actor e))); [discriminate|].
      destruct (step c (rw X) e) as [w'|] eqn:St; [|discriminate]. inversion H; subst X'. right; left; exists e; exact St.
    + destruct (r_tag X (e_actor e)); [discriminate|]. destruct (r_bad X).
      * destruct (negb ok && cas c); [|discriminate].
        destruct (a_pc (w_actors (rw X) (e_actor e))) eqn:PC; try discriminate.
        inversion H; subst X'. right; right. exists (e_actor e). split; [exact PC | reflexivity].
      * destruct (step c (rw X) e) as [w'|] eqn:St; [|discriminate]. inversion H; subst X'. right; left; exists e; exact St.
  - inversion H; subst X'. left. reflexivity.
  - destruct (r_bad X); [|discriminate]. destruct (a_pc (w_actors (rw X) a)) eqn:PC; try discriminate.
    destruct (Nat.ltb r (length (w_files (rw X)))); [|discriminate]. simpl in H.
    destruct (Nat.eqb_spec r (w_ptr (rw X))) as [->|]; [|discriminate].
    inversion H; subst X'; simpl. right; left. exists {| e_actor := a; e_kind := EBegin (w_ptr (rw X)) |}.
    unfold step; simpl. rewrite PC, Nat.eqb_refl. reflexivity.
  - destruct (r_bad X); [|discriminate]. destruct (r_tag X a); [discriminate|].
    destruct (a_pc (w_actors (rw X) a)); try discriminate. destruct (Nat.eqb g n); [|discriminate].
    inversion H; subst X'. left. reflexivity.
  - destruct (r_tag X a); [|discriminate]. destruct (a_pc (w_actors (rw X) a)) eqn:PC; try discriminate.
    match type of H with match ?sel with _ => _ end = _ => destruct sel as [[v h]|] eqn:SEL; [|discriminate] end.
    destruct (Bool.eqb ok (stamp_eqb (file (rw X) v) (file (rw X) (a_base (w_actors (rw X) a))))) eqn:EQ; [|discriminate].
    assert (VP : v = w_ptr (rw X)).
    { destruct rc as [r|v']; destruct (r_bad X); try discriminate.
      - destruct (Nat.ltb r (length (w_files (rw X)))); [|discriminate]. simpl in SEL.
        destruct (Nat.eqb_spec r (w_ptr (rw X))); [|discriminate]. inversion SEL; subst. reflexivity.
      - destruct (Nat.eqb_spec v' (w_ptr (rw X))); [|discriminate]. inversion SEL; subst. reflexivity. }
    inversion H; subst X'; simpl. right; left. exists {| e_actor := a; e_kind := EValidate v ok |}.
    unfold step; simpl. rewrite PC. subst v. rewrite Nat.eqb_refl. simpl. rewrite EQ. reflexivity.
  - destruct (r_tag X a) as [g|] eqn:RT; [|discriminate]. destruct (a_pc (w_actors (rw X) a)) eqn:PC; try discriminate.
    match type of H with (if ?b then _ else _) = _ => destruct b eqn:G; [|discriminate] end.
    apply andb_true_iff in G. destruct G as [G _]. apply eqb_prop in G. destruct ok.
    + inversion H; subst X'; simpl. right; left. exists {| e_actor := a; e_kind := EFlip true |}.
      assert (RB : r_bad X = Some g).
      { destruct (r_bad X) as [g'|]; [|discriminate]. symmetry in G. apply Nat.eqb_eq in G. subst. reflexivity. }
      assert (E : a_etag (w_actors (rw X) a) = w_ptr (rw X)) by (apply (Q a g RT RB); rewrite PC; reflexivity).
      unfold step; simpl. rewrite PC, CAS, E, Nat.eqb_refl. reflexivity.
    + inversion H; subst X'; simpl. right; right. exists a. split; [exact PC | reflexivity].
Qed.

(* a refused conditional write changes nothing but the committer's program counter *)
Lemma refused_inv c w w' : Inv c w -> refused w w' -> Inv c w'.
Proof.
  intros I [a [PC ->]]. unfold with_actor. apply inv_frame; auto.
  - eapply ainv_pc; [apply (I_actor c w I a)| | | | | | | |]; simpl; rewrite ?PC; auto; discriminate.
  - simpl. discriminate.
  - intros LK b Hb. destruct (Nat.eq_dec b a) as [->|NE]; [rewrite upd_same in Hb; simpl in Hb; discriminate|].
    rewrite upd_other in Hb by exact NE. apply (I_lock c w I LK b Hb).
Qed.

Record RX (c : cfg) (X : rworld) : Prop := {
  RX_inv : Inv c (rw X);
  RX_repl : repl_ok (rw X);
  RX_ri : RI X;
  RX_r4 : R4 X }.

Lemma rstep_R4 c X x X' : cas c = true -> RI X -> R4 X -> rstep c true X x = Some X' -> R4 X'.
Proof.
  intros CAS I Q H. destruct x as [e| |a r|a g|a rc ok|a ok]; simpl in H.
  - (* RE e *)
    assert (PASS : forall w', (forall v ok, e_kind e <> EValidate v ok) -> e_kind e <> EFlip true ->
                   step c (rw X) e = Some w' -> R4 (with_world X w')).
    { intros w' NV NF St b g RT RB Vb. simpl in *. destruct (step_frame _ _ _ _ St) as [Oth [Same Ptr]]. cbv zeta in *.
      destruct (Same NV) as [_ [E IV]]. rewrite (Ptr NF).
      destruct (Nat.eq_dec b (e_actor e)) as [->|NE]; [rewrite E; apply (Q _ g RT RB); apply IV; exact Vb|].
      rewrite (Oth b NE) in *. apply (Q b g RT RB Vb). }
    destruct (e_kind e) as [v|ok| |v ok|now|ok|ok| | | ] eqn:EK;
      try (destruct (step c (rw X) e) as [w'|] eqn:St; [|discriminate]; inversion H; subst X'; apply PASS; auto; intros; discriminate).
    + destruct (is_some (r_bad X)); [discriminate|].
      destruct (step c (rw X) e) as [w'|] eqn:St; [|discriminate]. inversion H; subst X'. apply PASS; auto; intros; discriminate.
    + destruct ok; destruct (step c (rw X) e) as [w'|] eqn:St; try discriminate; inversion H; subst X'; clear H.
      * assert (P : R4 (with_world X w')) by (apply PASS; auto; intros; discriminate).
        intros b g RT RB Vb. simpl in *. destruct (Nat.eq_dec b (e_actor e)) as [->|NE]; [rewrite setf_same in RT; discriminate|].
        rewrite setf_other in RT by exact NE. apply (P b g RT RB Vb).
      * apply PASS; auto; intros; discriminate.
    + destruct (r_bad X) eqn:RB0; [discriminate|]. simpl in H. destruct (r_tag X (e_actor e)); [discriminate|]. simpl in H.
      destruct (step c (rw X) e) as [w'|] eqn:St; [|discriminate]. inversion H; subst X'. intros b g RT RB. simpl in RB. discriminate.
    + destruct (r_tag X (e_actor e)) eqn:RT0; [discriminate|]. destruct (r_bad X) eqn:RB0.
      * destruct (negb ok && cas c); [|discriminate].
        destruct (a_pc (w_actors (rw X) (e_actor e))) eqn:PC; try discriminate.
        inversion H; subst X'; clear H. intros b g RT RB Vb. simpl in *.
        destruct (Nat.eq_dec b (e_actor e)) as [->|NE]; [rewrite RT0 in RT; discriminate|].
        rewrite upd_other in * by exact NE. apply (Q b g RT); [first [exact RB | rewrite RB0; exact RB] | exact Vb].
      * destruct (step c (rw X) e) as [w'|] eqn:St; [|discriminate]. inversion H; subst X'. intros b g RT RB. simpl in RB. discriminate.
  - (* RDamage *)
    inversion H; subst X'; clear H. intros b g RT RB Vb. simpl in *. inversion RB; subst.
    pose proof (RI_tag X I b _ RT). lia.
  - (* RBegin *)
    destruct (r_bad X) eqn:RB0; [|discriminate]. destruct (a_pc (w_actors (rw X) a)) eqn:PC; try discriminate.
    match type of H with (if ?b then _ else _) = _ => destruct b; [|discriminate] end.
    inversion H; subst X'; clear H. intros b g RT RB Vb. simpl in *.
    destruct (Nat.eq_dec b a) as [->|NE]; [rewrite upd_same in Vb; discriminate|].
    rewrite upd_other in * by exact NE. apply (Q b g RT); [first [exact RB | rewrite RB0; exact RB] | exact Vb].
  - (* RReadBad *)
    destruct (r_bad X) as [g'|] eqn:RB0; [|discriminate]. destruct (r_tag X a) eqn:RT0; [discriminate|].
    destruct (a_pc (w_actors (rw X) a)) eqn:PC; try discriminate. destruct (Nat.eqb g g'); [|discriminate].
    inversion H; subst X'; clear H. intros b g0 RT RB Vb. simpl in *.
    destruct (Nat.eq_dec b a) as [->|NE]; [rewrite PC in Vb; discriminate|].
    rewrite setf_other in RT by exact NE. apply (Q b g0 RT); [first [exact RB | rewrite RB0; exact RB] | exact Vb].
  - (* RRefresh *)
    destruct (r_tag X a) as [g0|] eqn:RT0; [|discriminate]. destruct (a_pc (w_actors (rw X) a)) eqn:PC; try discriminate.
    match type of H with match ?sel with _ => _ end = _ => destruct sel as [[v h]|] eqn:SEL; [|discriminate] end.
    destruct (Bool.eqb ok (stamp_eqb (file (rw X) v) (file (rw X) (a_base (w_actors (rw X) a))))) eqn:EQ; [|discriminate].
    assert (VP : v = w_ptr (rw X)).
    { destruct rc as [r|v']; destruct (r_bad X); try discriminate.
      - destruct (Nat.ltb r (length (w_files (rw X)))); [|discriminate]. simpl in SEL.
        destruct (Nat.eqb_spec r (w_ptr (rw X))); [|discriminate]. inversion SEL; subst. reflexivity.
      - destruct (Nat.eqb_spec v' (w_ptr (rw X))); [|discriminate]. inversion SEL; subst. reflexivity. }
    inversion H; subst X'; clear H. intros b g RT RB Vb. simpl in *.
    destruct (Nat.eq_dec b a) as [->|NE]; [rewrite upd_same; simpl; exact VP|].
    rewrite upd_other in * by exact NE. apply (Q b g RT RB Vb).
  - (* RFlip *)
    destruct (r_tag X a) as [g0|] eqn:RT0; [|discriminate]. destruct (a_pc (w_actors (rw X) a)) eqn:PC; try discriminate.
    match type of H with (if ?b then _ else _) = _ => destruct b; [|discriminate] end. destruct ok.
    + inversion H; subst X'. intros b g RT RB. simpl in RB. discriminate.
    + inversion H; subst X'; clear H. intros b g RT RB Vb. simpl in *.
      destruct (Nat.eq_dec b a) as [->|NE]; [rewrite upd_same in Vb; discriminate|].
      rewrite upd_other in * by exact NE. apply (Q b g RT RB Vb).
Qed.

Lemma rstep_RX c X x X' : cas c = true -> RX c X -> rstep c true X x = Some X' -> RX c X'.
Proof.
  intros CAS [I R RIx Q] H. assert (Snd : sound c) by (left; exact CAS).
  constructor; [| |eapply rstep_RI; eauto|eapply rstep_R4; eauto];
    destruct (rstep_world _ _ _ _ CAS Q H) as [E|[[e St]|Rf]].
  - rewrite E. exact I.
  - eapply step_inv; eauto.
  - eapply refused_inv; eauto.
  - rewrite E. exact R.
  - eapply step_repl; eauto.
  - destruct Rf as [a [_ ->]]. exact R.
Qed.

Lemma rrun_RX c X xs : cas c = true -> RX c X -> RX c (rrun c true X xs).
Proof.
  intro CAS. revert X. induction xs as [|x xs IH]; intros X I; [exact I|].
  rewrite rrun_cons. apply IH. unfold rstep_skip. destruct (rstep c true X x) eqn:St; [eapply rstep_RX; eauto | exact I].
Qed.

Lemma rrun_file0 c X xs : cas c = true -> RX c X ->
  nthf (w_files (rw (rrun c true X xs))) 0%nat = nthf (w_files (rw X)) 0%nat.
Proof.
  intro CAS. revert X. induction xs as [|x xs IH]; intros X I; [reflexivity|].
  rewrite rrun_cons. unfold rstep_skip. destruct (rstep c true X x) as [X'|] eqn:St; [|apply IH; exact I].
  rewrite IH by (eapply rstep_RX; eauto).
  destruct (rstep_world _ _ _ _ CAS (RX_r4 c X I) St) as [E|[[e S1]|[a [_ E]]]].
  - rewrite E. reflexivity.
  - destruct (files_zero c _ _ _ S1) as [E|E]; auto.
    pose proof (I_files c _ (RX_inv c X I)) as L. rewrite E in L. simpl in L. lia.
  - rewrite E. reflexivity.
Qed.

Lemma rinit_RX c m0 kind mr : RX c (rinit (init_world m0 kind mr)).
Proof.
  constructor; simpl.
  - apply init_inv.
  - constructor.
  - apply rinit_RI. reflexivity.
  - intros a g RT. simpl in RT. discriminate.
Qed.

Section RReachable.
  Variables (c : cfg) (m0 : meta) (kind : aid -> curk) (mr : aid -> nat) (xs : list revent).
  Hypothesis CAS : cas c = true.
  Let X := rrun c true (rinit (init_world m0 kind mr)) xs.
  Let w := rw X.

  Lemma rreach_RX : RX c X.
  Proof. apply rrun_RX; [exact CAS | apply rinit_RX]. Qed.

  Lemma rreach_serializable : m_ops (file w (w_ptr w)) = m_ops m0 ++ map snd (w_hist w).
  Proof.
    destruct rreach_RX as [I _ _ _]. rewrite file_nthf, (I_ptr c w I), (chain_ops _ _ _ (I_chain c w I)).
    unfold w, X. rewrite rrun_file0; [reflexivity | exact CAS | apply rinit_RX].
  Qed.

  Lemma rreach_once : NoDup (map snd (w_hist w)).
  Proof. destruct rreach_RX as [I _ _ _]. apply I. Qed.

  Lemma rreach_acked a : flipped (a_pc (w_actors w a)) = true <-> In a (map snd (w_hist w)).
  Proof. destruct rreach_RX as [I _ _ _]. apply (AI_flip _ _ _ _ _ _ (I_actor c w I a)). Qed.

  Lemma rreach_chain : chain_ok (w_files w) 0%nat (w_hist w).
  Proof. destruct rreach_RX as [I _ _ _]. apply I. Qed.
End RReachable.

(* ------------------------------------------------------------------ the statements of Props/C08.v *)
Lemma fallback_replaced_what_it_read c exact m0 kind mr xs : cas c = true ->
  Forall entry_ok (r_repl (rrun c exact (rinit (init_world m0 kind mr)) xs)).
Proof. apply rreach_repl. Qed.

(* ---- the store that compares only what it can see (rstep_s): it is the ideal store exactly when no two damage events leave
   the same store-visible object *)
Definition distinguishable (idn : nat -> ident) : Prop := forall g g', idn g = idn g' -> g = g'.

Lemma ident_eqb_eq i j : ident_eqb i j = true <-> i = j.
Proof.
  destruct i as [|a], j as [|b]; simpl; split; intro H; try reflexivity; try discriminate.
  - apply Nat.eqb_eq in H. subst. reflexivity.
  - inversion H. apply Nat.eqb_refl.
Qed.

Lemma ident_eqb_inj idn g g' : distinguishable idn -> ident_eqb (idn g) (idn g') = Nat.eqb g g'.
Proof.
  intro D. destruct (Nat.eqb_spec g g') as [->|NE].
  - apply ident_eqb_eq. reflexivity.
  - destruct (ident_eqb (idn g) (idn g')) eqn:E; [|reflexivity]. apply ident_eqb_eq in E. elim NE. apply D. exact E.
Qed.

Lemma rstep_s_ideal idn c exact X x : distinguishable idn -> rstep_s idn c exact X x = rstep c exact X x.
Proof.
  intro D. destruct x as [e| |a r|a g|a rc ok|a ok]; try reflexivity.
  unfold rstep_s, rstep. destruct (r_tag X a) as [g|]; [|reflexivity].
  destruct (a_pc (w_actors (rw X) a)); try reflexivity.
  destruct (r_bad X) as [g'|]; [|reflexivity].
  rewrite (ident_eqb_inj idn g g' D). destruct (Nat.eqb_spec g g') as [->|NE]; [reflexivity|]. destruct ok; reflexivity.
Qed.

Lemma rrun_s_ideal idn c exact xs : distinguishable idn -> forall X, rrun_s idn c exact X xs = rrun c exact X xs.
Proof.
  intro D. induction xs as [|x xs IH]; intro X; [reflexivity|].
  unfold rrun_s, rrun in *. simpl. unfold rstep_s_skip at 2, rstep_skip at 2. rewrite (rstep_s_ideal idn c exact X x D). apply IH.
Qed.

(* every applied pointer write replaced exactly the object STATE its committer had read, for the store `idn` *)
Definition fallback_replaced_for (idn : nat -> ident) : Prop :=
  forall c exact m0 kind mr xs, cas c = true ->
  Forall entry_ok (r_repl (rrun_s idn c exact (rinit (init_world m0 kind mr)) xs)).

Lemma fallback_replaced_distinguishable idn : distinguishable idn -> fallback_replaced_for idn.
Proof. intros D c exact m0 kind mr xs CAS. rewrite (rrun_s_ideal idn c exact xs D). apply rreach_repl. exact CAS. Qed.

(* the witness (ABA on an unusable pointer): the pointer is damaged (incarnation 0); actors 0 and 1 both read it under a lock
   that excludes nobody and recover version 0 by (exact) scans; actor 1's conditional write keyed to that object lands -- the
   pointer is repaired and 1 is acknowledged; the pointer is then damaged AGAIN (incarnation 1) in a way the store cannot
   tell from the first (deleted again: create-if-absent; or the same garbage: same MD5); actor 0's conditional write, keyed
   to incarnation 0, is applied on top of it: acknowledged, and 1's acknowledged operation is no longer in the table. *)
Definition rx a k := RE {| e_actor := a; e_kind := k |}.
Definition double_damage_witness : list revent :=
  [ RDamage; RBegin 0 0; RBegin 1 0;
    rx 0 (ELockTry true); RReadBad 0 0; RRefresh 0 (RScan 0) true; rx 0 (EMetaW 100); rx 0 (EFence true);
    rx 1 (ELockTry true); RReadBad 1 0; RRefresh 1 (RScan 0) true; rx 1 (EMetaW 100); rx 1 (EFence true); RFlip 1 true; rx 1 ERelease;
    RDamage;
    RFlip 0 true; rx 0 ERelease ]%nat.

Ltac double_damage_refutation :=
  let F := fresh "F" in
  intro F;
  specialize (F {| cas := true; lockkind := GrantAll |} true {| m_ops := []; m_cur := 1; m_lu := 100 |} (fun _ => KFresh) (fun _ => 50%nat)
                double_damage_witness eq_refl);
  vm_compute in F;
  match type of F with Forall _ (_ :: _ :: nil) => idtac end;
  inversion F as [|? ? _ F2]; inversion F2 as [|? ? [E _] _]; discriminate E.

Lemma fallback_replaced_absent_refuted : ~ fallback_replaced_for (fun _ => IAbsent).
Proof. double_damage_refutation. Qed.
Lemma fallback_replaced_same_garbage_refuted : ~ fallback_replaced_for (fun _ => IGarbled 0).
Proof. double_damage_refutation. Qed.
Lemma fallback_replaced_full_refuted : ~ (forall idn, fallback_replaced_for idn).
Proof. intro F. exact (fallback_replaced_absent_refuted (F _)). Qed.

(* "an acknowledged commit is in the table named by the pointer, the table is the serial application of the pointer
   writes, each once, one chain" -- for the machine whose scans may return anything (exact) or only the right version *)
Definition fallback_no_lost_update_for (exact : bool) : Prop :=
  forall c m0 kind mr xs, cas c = true ->
  let w := rw (rrun c exact (rinit (init_world m0 kind mr)) xs) in
  m_ops (file w (w_ptr w)) = m_ops m0 ++ map snd (w_hist w)
  /\ NoDup (map snd (w_hist w))
  /\ (forall a, a_pc (w_actors w a) = PDone Success -> In a (map snd (w_hist w)) /\ In a (m_ops (file w (w_ptr w))))
  /\ chain_ok (w_files w) 0%nat (w_hist w).

Lemma fallback_no_lost_update_exact : fallback_no_lost_update_for true.
Proof.
  intros c m0 kind mr xs CAS w.
  assert (S1 := rreach_serializable c m0 kind mr xs CAS). fold w in S1.
  split; [exact S1|]. split; [apply rreach_once; exact CAS|]. split; [|apply rreach_chain; exact CAS].
  intros a P. assert (HI : In a (map snd (w_hist w))).
  { apply (rreach_acked c m0 kind mr xs CAS a). fold w. rewrite P. reflexivity. }
  split; [exact HI|]. rewrite S1. apply in_or_app. right. exact HI.
Qed.

(* the witness: actors 0 and 1 validate version 0 under a lock that excludes nobody; 1 writes its file (vid 1), 0 writes
   its file (vid 2, same version number, written later); 1's conditional write lands and 1 is acknowledged; the pointer
   is then damaged; actor 2's scan returns 0's unpublished file (the highest number, the latest of the two) and 2 commits
   on top of it: acknowledged -- and 1's acknowledged operation is no longer in the table, 0's unacknowledged one is. *)
Definition lost_update_witness : list revent :=
  [ rx 0 (EBegin 0); rx 1 (EBegin 0); rx 0 (ELockTry true); rx 1 (ELockTry true); rx 0 (EValidate 0 true); rx 1 (EValidate 0 true);
    rx 1 (EMetaW 100); rx 0 (EMetaW 100); rx 1 (EFence true); rx 1 (EFlip true); rx 1 ERelease;
    RDamage;
    RBegin 2 2; rx 2 (ELockTry true); RReadBad 2 0; RRefresh 2 (RScan 2) true; rx 2 (EMetaW 200); rx 2 (EFence true); RFlip 2 true;
    rx 2 ERelease ]%nat.

Lemma fallback_full_refuted : ~ fallback_no_lost_update_for false.
Proof.
  intro F.
  specialize (F {| cas := true; lockkind := GrantAll |} {| m_ops := []; m_cur := 1; m_lu := 100 |} (fun _ => KFresh) (fun _ => 50%nat)
                lost_update_witness eq_refl).
  cbv zeta in F. destruct F as [_ [_ [A _]]]. specialize (A 1%nat).
  vm_compute in A. destruct (A eq_refl) as [_ [E|[E|[]]]]; discriminate.
Qed.

Lemma fallback_no_lost_update_full_refuted : ~ (forall exact, fallback_no_lost_update_for exact).
Proof. intro F. exact (fallback_full_refuted (F false)). Qed.

(* ---- the same statements for the store that compares only what it can see *)
Definition fallback_no_lost_update_s (idn : nat -> ident) (exact : bool) : Prop :=
  forall c m0 kind mr xs, cas c = true ->
  let w := rw (rrun_s idn c exact (rinit (init_world m0 kind mr)) xs) in
  m_ops (file w (w_ptr w)) = m_ops m0 ++ map snd (w_hist w)
  /\ NoDup (map snd (w_hist w))
  /\ (forall a, a_pc (w_actors w a) = PDone Success -> In a (map snd (w_hist w)) /\ In a (m_ops (file w (w_ptr w))))
  /\ chain_ok (w_files w) 0%nat (w_hist w).

Lemma fallback_no_lost_update_s_exact idn : distinguishable idn -> fallback_no_lost_update_s idn true.
Proof.
  intros D c m0 kind mr xs CAS. cbv zeta. rewrite (rrun_s_ideal idn c true xs D).
  exact (fallback_no_lost_update_exact c m0 kind mr xs CAS).
Qed.

(* exact scans do not help when the pointer is deleted twice within one attempt: actor 1 is acknowledged and overwritten *)
Lemma fallback_no_lost_update_s_double_damage_refuted : ~ fallback_no_lost_update_s (fun _ => IAbsent) true.
Proof.
  intro F.
  specialize (F {| cas := true; lockkind := GrantAll |} {| m_ops := []; m_cur := 1; m_lu := 100 |} (fun _ => KFresh) (fun _ => 50%nat)
                double_damage_witness eq_refl).
  cbv zeta in F. destruct F as [_ [_ [A _]]]. specialize (A 1%nat).
  vm_compute in A. destruct (A eq_refl) as [_ [E|[]]]; discriminate.
Qed.

Lemma fallback_no_lost_update_s_inexact_refuted : ~ fallback_no_lost_update_s (fun g => IGarbled g) false.
Proof.
  intro F. apply fallback_full_refuted. intros c m0 kind mr xs CAS.
  assert (D : distinguishable (fun g => IGarbled g)) by (intros g g' E; inversion E; reflexivity).
  specialize (F c m0 kind mr xs CAS). cbv zeta in F. rewrite (rrun_s_ideal _ c false xs D) in F. exact F.
Qed.

Lemma fallback_no_lost_update_s_full_refuted : ~ (forall idn exact, fallback_no_lost_update_s idn exact).
Proof. intro F. exact (fallback_no_lost_update_s_double_damage_refuted (F _ true)). Qed.
