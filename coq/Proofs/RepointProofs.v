(* Proofs/RepointProofs.v -- the regenerated repointing walk (Gen/GenRepoint.v):
     - it terminates within the fuel `gen_repoint_one` gives it, on EVERY parent map (cyclic, dangling,
       duplicated keys), and yields nothing (None / -1) or a kept id reachable by parent links;
     - on every ACYCLIC parent map it computes exactly the nearest surviving ancestor (relation `nsa`). *)
From Coq Require Import ZArith List Bool Lia.
Require Import DS.Model.MetaBase DS.Gen.GenRepoint.
Import ListNotations.
Open Scope Z_scope.

(* ------------------------------------------------------------------ specification vocabulary *)
(* b is the parent the dict records for a *)
Definition pstep (po : list (Z * option Z)) (a b : Z) : Prop := py_dict_get po (Some a) = Some b.

(* one or more parent links *)
Inductive reach (po : list (Z * option Z)) : Z -> Z -> Prop :=
| reach_one : forall a b, pstep po a b -> reach po a b
| reach_step : forall a b c, pstep po a b -> reach po b c -> reach po a c.

Definition acyclic (po : list (Z * option Z)) : Prop := forall x, ~ reach po x x.

(* starting from the link value `start`, k is start itself or reachable from it *)
Definition reaches (po : list (Z * option Z)) (start : option Z) (k : Z) : Prop :=
  start = Some k \/ exists p, start = Some p /\ reach po p k.

Definition nil_id (o : option Z) : Prop := o = None \/ o = Some (-1).

(* nearest surviving ancestor, as a relation: follow parent links from `start` until nothing, -1, or a kept id *)
Inductive nsa (po : list (Z * option Z)) (kept : list Z) : option Z -> option Z -> Prop :=
| nsa_none : nsa po kept None None
| nsa_root : nsa po kept (Some (-1)) (Some (-1))
| nsa_kept : forall p, p <> -1 -> In p kept -> nsa po kept (Some p) (Some p)
| nsa_next : forall p r, p <> -1 -> ~ In p kept -> nsa po kept (py_dict_get po (Some p)) r -> nsa po kept (Some p) r.

(* ------------------------------------------------------------------ basic facts *)
Lemma memZ_In : forall x l, memZ x l = true <-> In x l.
Proof.
  intros x l. unfold memZ. rewrite existsb_exists. split.
  - intros [y [Hy He]]. apply Z.eqb_eq in He. subst. exact Hy.
  - intros H. exists x. split; [exact H|apply Z.eqb_refl].
Qed.

Lemma memZ_false : forall x l, memZ x l = false <-> ~ In x l.
Proof.
  intros x l. rewrite <- memZ_In. destruct (memZ x l).
  - split; intros H; [discriminate|exfalso; apply H; reflexivity].
  - split; intros H; [intro; discriminate|reflexivity].
Qed.

Lemma opt_eqb_eq : forall a b, opt_eqb a b = true <-> a = b.
Proof.
  intros [a|] [b|]; simpl; split; intros H; try congruence; try reflexivity.
  - apply Z.eqb_eq in H. congruence.
  - inversion H. apply Z.eqb_refl.
Qed.

Lemma py_in_seen_In : forall x seen, py_in_seen x seen = true <-> In x seen.
Proof.
  intros x seen. unfold py_in_seen. rewrite existsb_exists. split.
  - intros [y [Hy He]]. apply opt_eqb_eq in He. subst. exact Hy.
  - intros H. exists x. split; [exact H|]. apply opt_eqb_eq. reflexivity.
Qed.

Lemma dict_get_In : forall (V : Type) (d : list (Z * V)) k v, dict_get d k = Some v -> In (k, v) d.
Proof.
  intros V d k v. induction d as [|[k' v'] d IH]; simpl; [discriminate|].
  destruct (dict_get d k) as [w|] eqn:E.
  - intros H. inversion H. subst. right. apply IH. reflexivity.
  - destruct (Z.eqb_spec k' k); [|discriminate]. intros H. inversion H. subst. left. reflexivity.
Qed.

Lemma dict_get_key : forall (V : Type) (d : list (Z * V)) k v, dict_get d k = Some v -> In k (map fst d).
Proof. intros V d k v H. apply dict_get_In in H. apply in_map_iff. exists (k, v). split; [reflexivity|exact H]. Qed.

Lemma pstep_In : forall po a b, pstep po a b -> In (a, Some b) po.
Proof.
  unfold pstep, py_dict_get. intros po a b H. destruct (dict_get po a) as [v|] eqn:E; [|discriminate].
  subst. apply dict_get_In. exact E.
Qed.

Lemma reach_trans : forall po a b c, reach po a b -> reach po b c -> reach po a c.
Proof. intros po a b c H. induction H; intros Hc; [eapply reach_step; eauto|eapply reach_step; eauto]. Qed.

(* ------------------------------------------------------------------ the generated walk, characterised *)
(* One unfolding of the generated Fixpoint, as the Python loop reads.  Everything below uses only this
   equation: if the regenerated text changes meaning, this lemma is where the development breaks. *)
Lemma gen_walk_unfold : forall fuel po kept seen parent,
  gen_walk (S fuel) po kept seen parent =
  match parent with
  | None => Some None
  | Some p =>
      if p =? -1 then Some (Some p)
      else if memZ p kept then Some (Some p)
      else if py_in_seen (Some p) seen then Some None
      else gen_walk fuel po kept (Some p :: seen) (py_dict_get po (Some p))
  end.
Proof.
  intros fuel po kept seen [p|]; [|reflexivity].
  cbn [gen_walk py_is_not_none py_ne_int py_in_ints py_seen_add andb].
  destruct (p =? -1); cbn [negb andb]; [reflexivity|].
  destruct (memZ p kept); cbn [negb andb]; reflexivity.
Qed.

(* ------------------------------------------------------------------ termination + shape of the result, all maps *)
Definition key_opts (po : list (Z * option Z)) : list (option Z) := map (fun kv => Some (fst kv)) po.
Definition keys_in (po : list (Z * option Z)) (seen : list (option Z)) : Prop := incl seen (key_opts po).

Lemma keys_in_length : forall po seen, NoDup seen -> keys_in po seen -> (length seen <= length po)%nat.
Proof.
  intros po seen Hnd Hin. unfold keys_in, key_opts in Hin.
  pose proof (NoDup_incl_length Hnd Hin) as H. rewrite map_length in H. exact H.
Qed.

Lemma next_is_key : forall po p, py_dict_get po (Some p) <> None -> In (Some p) (key_opts po).
Proof.
  intros po p H. unfold py_dict_get in H. destruct (dict_get po p) as [v|] eqn:E; [|congruence].
  apply dict_get_In in E. unfold key_opts. apply in_map_iff. exists (p, v). split; [reflexivity|exact E].
Qed.

Definition walk_post (po : list (Z * option Z)) (kept : list Z) (start r : option Z) : Prop :=
  nil_id r \/ exists k, r = Some k /\ In k kept /\ reaches po start k.

Lemma reaches_next : forall po p k, reaches po (py_dict_get po (Some p)) k -> reaches po (Some p) k.
Proof.
  intros po p k [H|[q [H Hr]]]; right; exists p; split; try reflexivity.
  - apply reach_one. exact H.
  - eapply reach_step; [exact H|exact Hr].
Qed.

Lemma gen_walk_total : forall po kept fuel seen parent,
  (length po + 2 <= fuel + length seen)%nat ->
  NoDup seen -> keys_in po (tl seen) -> (parent <> None -> keys_in po seen) ->
  exists r, gen_walk fuel po kept seen parent = Some r /\ walk_post po kept parent r.
Proof.
  intros po kept fuel. induction fuel as [|fuel IH]; intros seen parent Hf Hnd Htl Hk.
  - exfalso. destruct seen as [|x seen]; simpl in *; [lia|].
    inversion Hnd; subst. pose proof (keys_in_length po seen H2 Htl). lia.
  - rewrite gen_walk_unfold. destruct parent as [p|].
    + assert (Hks : keys_in po seen) by (apply Hk; discriminate).
      destruct (Z.eqb_spec p (-1)) as [->|Hp1].
      { eexists. split; [reflexivity|]. left. right. reflexivity. }
      destruct (memZ p kept) eqn:Hm.
      { eexists. split; [reflexivity|]. right. exists p. split; [reflexivity|]. split; [apply memZ_In; exact Hm|]. left. reflexivity. }
      destruct (py_in_seen (Some p) seen) eqn:Hs.
      { eexists. split; [reflexivity|]. left. left. reflexivity. }
      assert (Hns : ~ In (Some p) seen).
      { intro Hin. apply py_in_seen_In in Hin. congruence. }
      destruct (IH (Some p :: seen) (py_dict_get po (Some p))) as [r [Hr Hpost]].
      * pose proof (keys_in_length po seen Hnd Hks). simpl. lia.
      * constructor; assumption.
      * exact Hks.
      * intros Hnn x [<-|Hx]; [apply next_is_key; exact Hnn|apply Hks; exact Hx].
      * exists r. split; [exact Hr|]. destruct Hpost as [Hn|[k [-> [Hk1 Hk2]]]]; [left; exact Hn|].
        right. exists k. split; [reflexivity|]. split; [exact Hk1|]. apply reaches_next. exact Hk2.
    + eexists. split; [reflexivity|]. left. left. reflexivity.
Qed.

(* C15_repoint_cycle: for EVERY parent map (cycles, dangling links, duplicated ids) and every kept set the walk
   terminates within its fuel and leaves nothing, -1, or a kept id reachable by parent links from the old parent. *)
Theorem gen_repoint_one_total : forall po kept start,
  exists r, gen_repoint_one po kept start = Some r /\ walk_post po kept start r.
Proof.
  intros po kept start. unfold gen_repoint_one. apply gen_walk_total.
  - simpl. lia.
  - constructor.
  - intros x Hx. destruct Hx.
  - intros _ x Hx. destruct Hx.
Qed.

(* ------------------------------------------------------------------ acyclic maps: nearest surviving ancestor *)
Lemma gen_walk_nsa : forall po kept, acyclic po -> forall fuel seen parent,
  (length po + 2 <= fuel + length seen)%nat ->
  NoDup seen -> keys_in po (tl seen) -> (parent <> None -> keys_in po seen) ->
  (forall x q, In (Some x) seen -> parent = Some q -> reach po x q) ->
  exists r, gen_walk fuel po kept seen parent = Some r /\ nsa po kept parent r.
Proof.
  intros po kept Hac fuel. induction fuel as [|fuel IH]; intros seen parent Hf Hnd Htl Hk Hre.
  - exfalso. destruct seen as [|x seen]; simpl in *; [lia|].
    inversion Hnd; subst. pose proof (keys_in_length po seen H2 Htl). lia.
  - rewrite gen_walk_unfold. destruct parent as [p|].
    + assert (Hks : keys_in po seen) by (apply Hk; discriminate).
      destruct (Z.eqb_spec p (-1)) as [->|Hp1].
      { eexists. split; [reflexivity|]. constructor. }
      destruct (memZ p kept) eqn:Hm.
      { eexists. split; [reflexivity|]. apply nsa_kept; [exact Hp1|apply memZ_In; exact Hm]. }
      destruct (py_in_seen (Some p) seen) eqn:Hs.
      { exfalso. apply py_in_seen_In in Hs. apply (Hac p). apply (Hre p p Hs). reflexivity. }
      assert (Hns : ~ In (Some p) seen).
      { intro Hin. apply py_in_seen_In in Hin. congruence. }
      destruct (IH (Some p :: seen) (py_dict_get po (Some p))) as [r [Hr Hn]].
      * pose proof (keys_in_length po seen Hnd Hks). simpl. lia.
      * constructor; assumption.
      * exact Hks.
      * intros Hnn x [<-|Hx]; [apply next_is_key; exact Hnn|apply Hks; exact Hx].
      * intros x q [Hx|Hx] Hq.
        -- inversion Hx; subst. apply reach_one. exact Hq.
        -- eapply reach_trans; [apply (Hre x p Hx); reflexivity|]. apply reach_one. exact Hq.
      * exists r. split; [exact Hr|]. apply nsa_next; [exact Hp1|apply memZ_false; exact Hm|exact Hn].
    + eexists. split; [reflexivity|]. constructor.
Qed.

Lemma nsa_fun : forall po kept start r1 r2, nsa po kept start r1 -> nsa po kept start r2 -> r1 = r2.
Proof.
  intros po kept start r1 r2 H1. revert r2. induction H1; intros r2 H2; inversion H2; subst; try reflexivity; try congruence; try contradiction.
  apply IHnsa. assumption.
Qed.

(* C15_repoint_nearest: on every acyclic parent map (any size, any shape, dangling links allowed), for every kept
   set and every starting link, the generated walk returns r  iff  r is the nearest surviving ancestor. *)
Theorem gen_repoint_one_nearest : forall po kept start r, acyclic po ->
  (gen_repoint_one po kept start = Some r <-> nsa po kept start r).
Proof.
  intros po kept start r Hac.
  destruct (gen_walk_nsa po kept Hac (S (S (length po))) [] start) as [r0 [Hr0 Hn0]].
  - simpl. lia.
  - constructor.
  - intros x Hx. destruct Hx.
  - intros _ x Hx. destruct Hx.
  - intros x q Hx. destruct Hx.
  - unfold gen_repoint_one. split.
    + intros H. rewrite Hr0 in H. inversion H. subst. exact Hn0.
    + intros H. rewrite Hr0. f_equal. eapply nsa_fun; eassumption.
Qed.

(* the nearest surviving ancestor really is one: nothing, or a kept id reachable by links whose intermediate
   nodes were all removed *)
Inductive chain_removed (po : list (Z * option Z)) (kept : list Z) : Z -> Z -> Prop :=
| cr_one : forall a b, pstep po a b -> chain_removed po kept a b
| cr_step : forall a b c, pstep po a b -> ~ In b kept -> b <> -1 -> chain_removed po kept b c -> chain_removed po kept a c.

Lemma nsa_sound : forall po kept start r, nsa po kept start r ->
  nil_id r \/ exists k, r = Some k /\ In k kept /\
     (start = Some k \/ exists p, start = Some p /\ ~ In p kept /\ p <> -1 /\ chain_removed po kept p k).
Proof.
  intros po kept start r H. induction H.
  - left. left. reflexivity.
  - left. right. reflexivity.
  - right. exists p. split; [reflexivity|]. split; [assumption|]. left. reflexivity.
  - destruct IHnsa as [Hn|[k [-> [Hk Hc]]]]; [left; exact Hn|].
    right. exists k. split; [reflexivity|]. split; [exact Hk|]. right. exists p. split; [reflexivity|].
    split; [assumption|]. split; [assumption|].
    destruct Hc as [Hc|[q [Hq [Hqk [Hq1 Hc]]]]].
    + apply cr_one. exact Hc.
    + eapply cr_step; [exact Hq|exact Hqk|exact Hq1|exact Hc].
Qed.
