(* Proofs/ProcForkProofs.v -- property C19 for the local lock over the machine of Model/ProcFork.v: FileLock handles
   in OS processes, and fork() copying the WHOLE descriptor table of the forking process (`PFork p p' tw`, enabled only
   when every reference of p is copied).  The invariant is ProcLockProofs.inv; a fork preserves it when NO handle of
   the forking process is inside an acquisition (`pfork_quiescent`), because such a process has no descriptor of the
   lock file at all.  Without the hypothesis the statements are false (bottom of the file): a fork while the copied
   handle holds, and a fork while ANOTHER handle of the process holds -- the child then keeps the owning description
   open, and the parent's death does not free the lock. *)
From Coq Require Import List Bool Arith Lia.
Require Import DS.Model.ProcLockBase DS.Gen.GenFileLock DS.Model.ProcLock DS.Model.ProcFork
               DS.Proofs.ProcLockProofs DS.Proofs.ProcLockC19Proofs.
Import ListNotations.

Lemma orig_of_in tw : forall k k0, orig_of tw k = Some k0 -> In (k0, k) tw.
Proof.
  induction tw as [|[a b] tw IH]; simpl; intros k k0 H; [discriminate|].
  destruct (Nat.eqb b k) eqn:E.
  - apply Nat.eqb_eq in E. inversion H; subst. left. reflexivity.
  - right. apply IH. exact H.
Qed.

Lemma flat_map_nil {A B} (f : A -> list B) (l : list A) : (forall x, In x l -> f x = []) -> flat_map f l = [].
Proof.
  induction l as [|x l IH]; simpl; intro H; [reflexivity|].
  rewrite (H x) by (left; reflexivity). simpl. apply IH. intros y Hy. apply H. right. exact Hy.
Qed.

Definition pends_holding (proc : hid -> pid) (k : hid) (e : pevent) : Prop :=
  e = PEv (LStep k KUnlock) \/ e = PEv (LKill (proc k)).

Lemma prun_app dc proc evs1 : forall s evs2, prun dc proc s (evs1 ++ evs2) = prun dc proc (prun dc proc s evs1) evs2.
Proof. intros s evs2. unfold prun. apply fold_left_app. Qed.

Lemma pforks_quiescent_split dc proc evs1 : forall s evs2,
  pforks_quiescent dc proc s (evs1 ++ evs2) ->
  pforks_quiescent dc proc s evs1 /\ pforks_quiescent dc proc (prun dc proc s evs1) evs2.
Proof.
  induction evs1 as [|e evs1 IH]; intros s evs2 Q; simpl in *; [split; [exact I | exact Q]|].
  destruct Q as [Qe Q]. destruct (IH _ _ Q) as [A B]. split; [split; assumption | exact B].
Qed.

Section Topology.
Variable proc : hid -> pid.

Notation step := (pstep ByDescription proc).
Notation run := (prun ByDescription proc).

Lemma pstep_ev s e : not_fork e -> step s (PEv e) = lstep ByDescription proc s e.
Proof. destruct e; simpl; intro H; [reflexivity | reflexivity | contradiction]. Qed.

Lemma pfork_twin_facts s p p' tw a b :
  pfork_enabled proc s p p' tw = true -> In (a, b) tw ->
  proc a = p /\ proc b = p' /\ l_h s b = HIdle /\ l_h s a <> HDead.
Proof.
  unfold pfork_enabled. rewrite !andb_true_iff. intros [[[[_ F] _] _] _] Hin.
  rewrite forallb_forall in F. specialize (F (a, b) Hin). unfold twin_ok in F. simpl in F.
  rewrite !andb_true_iff in F. destruct F as [[[[Pa Pb] Nd] Ib] _].
  apply Nat.eqb_eq in Pa. apply Nat.eqb_eq in Pb.
  split; [exact Pa|]. split; [exact Pb|]. split.
  - destruct (l_h s b); simpl in Ib; try discriminate. reflexivity.
  - intro D. rewrite D in Nd. simpl in Nd. discriminate.
Qed.

(* a process none of whose handles is inside an acquisition has no descriptor of the lock file: nothing to inherit *)
Lemma inherited_all_quiescent s p tw :
  inv s -> (forall k, proc k = p -> l_h s k = HIdle) -> inherited_all proc p tw (l_open s) = [].
Proof.
  intros I Q. unfold inherited_all. apply flat_map_nil. intros [d k] Hin. unfold inherit_ref. simpl.
  destruct (in_proc proc p k) eqn:Ep; [|reflexivity]. exfalso.
  unfold in_proc in Ep. apply Nat.eqb_eq in Ep.
  pose proof (i_ref s I d k Hin) as R. rewrite (Q k Ep) in R. discriminate.
Qed.

Lemma quiescent_pfork_inherits_nothing s p p' tw s' :
  inv s -> (forall k, proc k = p -> l_h s k = HIdle) -> step s (PFork p p' tw) = Some s' ->
  l_open s' = l_open s /\ l_next s' = l_next s /\ l_owner s' = l_owner s /\ forall k, l_h s' k = l_h s k.
Proof.
  intros I Q St. simpl in St. destruct (pfork_enabled proc s p p' tw) eqn:En; [|discriminate].
  inversion St; subst s'; clear St. simpl. rewrite (inherited_all_quiescent s p tw I Q), app_nil_r.
  repeat split. intro k. destruct (orig_of tw k) as [k0|] eqn:Eo; [|reflexivity].
  apply orig_of_in in Eo. destruct (pfork_twin_facts s p p' tw k0 k En Eo) as [Pa [_ [Ib _]]].
  rewrite (Q k0 Pa), Ib. reflexivity.
Qed.

Lemma pinv_step s e s' : inv s -> pfork_quiescent proc s e -> step s e = Some s' -> inv s'.
Proof.
  intros I Q St. destruct e as [e|p p' tw].
  - destruct e as [h k|p|h h']; simpl in St; [| |discriminate].
    + apply (inv_step proc s (LStep h k) s' I Logic.I St).
    + apply (inv_step proc s (LKill p) s' I Logic.I St).
  - simpl in Q. destruct (quiescent_pfork_inherits_nothing s p p' tw s' I Q St) as [E1 [E2 [E3 E4]]].
    exact (inv_ext s s' I E1 E2 E3 E4).
Qed.

Lemma pinv_step_skip s e : inv s -> pfork_quiescent proc s e -> inv (pstep_skip ByDescription proc s e).
Proof.
  intros I Q. unfold pstep_skip. destruct (step s e) as [s'|] eqn:E; [exact (pinv_step s e s' I Q E) | exact I].
Qed.

Lemma pinv_run evs : forall s, inv s -> pforks_quiescent ByDescription proc s evs -> inv (run s evs).
Proof.
  induction evs as [|e evs IH]; intros s I Q; simpl; [exact I|]. destruct Q as [Q1 Q2].
  apply IH; [apply pinv_step_skip; assumption | exact Q2].
Qed.

Lemma preach_inv evs : pforks_quiescent ByDescription proc linit evs -> inv (run linit evs).
Proof. apply pinv_run. apply inv_init. Qed.

(* a holder stays the holder through every event -- forks included, quiescent or not -- but its own unlock and the
   death of its own process *)
Lemma pstep_keeps_holder s e s' h :
  step s e = Some s' -> lholds s h -> e <> PEv (LStep h KUnlock) -> e <> PEv (LKill (proc h)) -> lholds s' h.
Proof.
  intros St Hh N1 N2. destruct e as [e|p p' tw].
  - assert (St' : lstep ByDescription proc s e = Some s') by (destruct e; simpl in St; [exact St | exact St | discriminate]).
    apply (step_keeps_holder proc s e s' h St' Hh); intro Eq; subst e; [apply N1 | apply N2]; reflexivity.
  - simpl in St. destruct (pfork_enabled proc s p p' tw) eqn:En; [|discriminate].
    inversion St; subst s'; clear St. destruct Hh as [d Hd]. exists d. simpl.
    destruct (orig_of tw h) as [k0|] eqn:Eo; [|exact Hd]. exfalso.
    apply orig_of_in in Eo. destruct (pfork_twin_facts s p p' tw k0 h En Eo) as [_ [_ [Ib _]]].
    rewrite Hd in Ib. discriminate.
Qed.

Lemma pholder_persists evs : forall s k,
  inv s -> lholds s k -> pforks_quiescent ByDescription proc s evs ->
  Forall (fun e => ~ pends_holding proc k e) evs ->
  inv (run s evs) /\ lholds (run s evs) k.
Proof.
  induction evs as [|e evs IH]; intros s k I Hk Q F; simpl; [split; assumption|].
  destruct Q as [Qe Q]. inversion F as [|e0 l0 Fe Fl]; subst.
  apply IH; [apply pinv_step_skip; assumption | | exact Q | exact Fl].
  unfold pstep_skip. destruct (step s e) as [s1|] eqn:E; [|exact Hk].
  apply (pstep_keeps_holder s e s1 k E Hk).
  - intro Eq. apply Fe. left. exact Eq.
  - intro Eq. apply Fe. right. exact Eq.
Qed.

Lemma prun_strict_evs evs : forall s i, Forall not_fork evs ->
  prun_strict ByDescription proc s (map PEv evs) i = lrun_strict ByDescription proc s evs i.
Proof.
  induction evs as [|e evs IH]; intros s i F; [reflexivity|].
  inversion F as [|e0 l0 Fe Fl]; subst. cbn [map prun_strict lrun_strict]. rewrite (pstep_ev s e Fe).
  destruct (lstep ByDescription proc s e) as [s1|]; [apply IH; exact Fl | reflexivity].
Qed.

(* the flag (what is_held() returns) of a handle the kernel does not name as owner: only inside that handle's own
   release(), between the unlock and the end of release() *)
Lemma flag_is_owner_or_in_release s h : inv s -> (lflag s h <-> (lock_view s = Some h \/ in_release s h)).
Proof.
  intro I. split.
  - intros [d [Hd|Hd]]; [left; apply (inv_flag_iff_view s h I); exists d; exact Hd | right; exists d; exact Hd].
  - intros [V|[d Hd]].
    + apply (inv_flag_iff_view s h I) in V. destruct V as [d Hd]. exists d. left. exact Hd.
    + exists d. right. exact Hd.
Qed.

Lemma in_release_not_owner s h : inv s -> in_release s h -> lock_view s <> Some h /\ ~ lholds s h.
Proof.
  intros I [d Hd]. assert (N : ~ lholds s h) by (intros [d' Hd']; rewrite Hd in Hd'; discriminate).
  split; [|exact N]. intro V. apply N. apply (inv_flag_iff_view s h I). exact V.
Qed.

End Topology.

(* ---- over the regenerated discipline, from the initial state, forks copying whole descriptor tables *)
Lemma pgen_mutex_and_flag : forall (proc : hid -> pid) evs,
  pforks_quiescent gen_lock_disc proc linit evs ->
  let s := prun gen_lock_disc proc linit evs in
  (forall h1 h2, lholds s h1 -> lholds s h2 -> h1 = h2)
  /\ (forall h, lholds s h <-> lock_view s = Some h)
  /\ (forall h, lflag s h <-> (lock_view s = Some h \/ in_release s h))
  /\ (forall h, in_release s h -> lock_view s <> Some h /\ ~ lholds s h).
Proof.
  intros proc evs. rewrite gen_disc_is_by_description. intros Q s.
  pose proof (preach_inv proc evs Q) as I. fold s in I.
  split; [intros h1 h2; apply (inv_exclusive s h1 h2 I)|].
  split; [intro h; apply (inv_flag_iff_view s h I)|].
  split; [intro h; apply (flag_is_owner_or_in_release s h I) | intro h; apply (in_release_not_owner s h I)].
Qed.

Lemma pgen_death_frees : forall (proc : hid -> pid) evs h, pforks_quiescent gen_lock_disc proc linit evs ->
  let s := prun gen_lock_disc proc linit evs in
  lholds s h ->
  exists s', pstep gen_lock_disc proc s (PEv (LKill (proc h))) = Some s' /\ lock_view s' = None /\ (forall k, ~ lholds s' k)
    /\ (forall w, l_h s w = HIdle -> proc w <> proc h ->
          exists s'', prun_strict gen_lock_disc proc s' (map PEv (map (LStep w) attempt_granted_events)) 0 = inl s''
                      /\ lholds s'' w /\ lock_view s'' = Some w /\ (forall k, lholds s'' k -> k = w)).
Proof.
  intros proc evs h. rewrite gen_disc_is_by_description. intros Q s Hh.
  pose proof (preach_inv proc evs Q) as I. fold s in I.
  destruct (kill_frees proc s h I Hh) as [s' [E [_ [V Nh]]]].
  exists s'. split; [exact E|]. split; [exact V|]. split; [exact Nh|].
  intros w Hw Np. destruct (kill_then_granted proc s h w I Hh Hw Np) as [s1 [s'' [E1 R]]].
  rewrite E in E1. inversion E1; subst s1. exists s''.
  rewrite prun_strict_evs by (simpl; repeat constructor). exact R.
Qed.

Lemma pgen_granted_only_when_free : forall (proc : hid -> pid) evs h s', pforks_quiescent gen_lock_disc proc linit evs ->
  let s := prun gen_lock_disc proc linit evs in
  pstep gen_lock_disc proc s (PEv (LStep h (KTry true))) = Some s' ->
  (forall k, ~ lholds s k) /\ lholds s' h /\ (forall k, lholds s' k -> k = h).
Proof.
  intros proc evs h s'. rewrite gen_disc_is_by_description. intros Q s E.
  apply (granted_only_when_free proc s h s'); [apply preach_inv; exact Q | exact E].
Qed.

Lemma pgen_blocked_never_succeeds : forall (proc : hid -> pid) evs evs2 k h,
  pforks_quiescent gen_lock_disc proc linit (evs ++ evs2) ->
  lholds (prun gen_lock_disc proc linit evs) k ->
  Forall (fun e => ~ pends_holding proc k e) evs2 -> h <> k ->
  let s := prun gen_lock_disc proc linit (evs ++ evs2) in
  lholds s k /\ ~ lholds s h /\ pstep gen_lock_disc proc s (PEv (LStep h (KTry true))) = None
  /\ (forall d, l_h s h = HOpened d ->
        exists s', pstep gen_lock_disc proc s (PEv (LStep h (KTry false))) = Some s' /\ lholds s' k /\ l_h s' h = HRefused d).
Proof.
  intros proc evs evs2 k h. rewrite gen_disc_is_by_description. intros Q Hk F N s.
  pose proof (preach_inv proc (evs ++ evs2) Q) as I. fold s in I.
  destruct (pforks_quiescent_split ByDescription proc evs linit evs2 Q) as [Q1 Q2].
  assert (Hk' : lholds s k).
  { unfold s. rewrite prun_app.
    apply (pholder_persists proc evs2 (prun ByDescription proc linit evs) k); [apply preach_inv; exact Q1 | exact Hk | exact Q2 | exact F]. }
  split; [exact Hk'|].
  assert (Nkh : k <> h) by (intro Eq; apply N; symmetry; exact Eq).
  split; [intro Hh; apply N; apply (inv_exclusive s h k I Hh Hk')|].
  split; [apply (refused_while_held proc s h k 0 I Hk' Nkh)|].
  intros d Ho. apply (refused_while_held proc s h k d I Hk' Nkh). exact Ho.
Qed.

(* WHY: an idle handle has no descriptor; a process whose handles are all idle has none at all, and its fork -- the
   whole table -- copies nothing *)
Lemma pgen_fork_inherits_nothing : forall (proc : hid -> pid) evs, pforks_quiescent gen_lock_disc proc linit evs ->
  let s := prun gen_lock_disc proc linit evs in
  (forall h d, l_h s h = HIdle -> ~ In (d, h) (l_open s))
  /\ (forall p p' tw s', (forall k, proc k = p -> l_h s k = HIdle) -> pstep gen_lock_disc proc s (PFork p p' tw) = Some s' ->
        l_open s' = l_open s /\ l_next s' = l_next s /\ l_owner s' = l_owner s /\ forall k, l_h s' k = l_h s k).
Proof.
  intros proc evs. rewrite gen_disc_is_by_description. intros Q s.
  pose proof (preach_inv proc evs Q) as I. fold s in I. split.
  - intros h d Hi Hin. pose proof (i_ref s I d h Hin) as R. rewrite Hi in R. discriminate.
  - intros p p' tw s' Hq St. exact (quiescent_pfork_inherits_nothing proc s p p' tw s' I Hq St).
Qed.

(* ---- the statements WITHOUT the hypothesis on forks, and why they are false *)
Definition proc_mutex_full : Prop := forall (proc : hid -> pid) evs,
  let s := prun gen_lock_disc proc linit evs in forall h1 h2, lholds s h1 -> lholds s h2 -> h1 = h2.

Definition proc_death_frees_full : Prop := forall (proc : hid -> pid) evs h,
  let s := prun gen_lock_disc proc linit evs in
  lholds s h -> exists s', pstep gen_lock_disc proc s (PEv (LKill (proc h))) = Some s' /\ lock_view s' = None.

Definition proc_flag_is_owner_full : Prop := forall (proc : hid -> pid) evs,
  pforks_quiescent gen_lock_disc proc linit evs ->
  let s := prun gen_lock_disc proc linit evs in
  (forall h, lflag s h -> lock_view s = Some h) /\ (forall h1 h2, lflag s h1 -> lflag s h2 -> h1 = h2).

(* handles 0 and 1 in process 0, their copies 2 and 3 in process 1, handle 4 in process 2 *)
Definition two_in_one (h : hid) : pid := match h with 0 | 1 => 0 | 2 | 3 => 1 | _ => 2 end.
Definition fork_while_other_holds : list pevent :=
  [PEv (LStep 1 KOpen); PEv (LStep 1 (KTry true)); PFork 0 1 [(0, 2); (1, 3)]].

(* fork while the handle holds: parent and child both report the lock *)
Lemma proc_mutex_full_refuted : ~ proc_mutex_full.
Proof.
  intro H. specialize (H (fun h : hid => h) [PEv (LStep 0 KOpen); PEv (LStep 0 (KTry true)); PFork 0 1 [(0, 1)]] 0 1).
  assert (E : 0 = 1); [|discriminate E].
  apply H; eexists; vm_compute; reflexivity.
Qed.

(* fork of a process whose OTHER handle holds: the schedule cannot leave that handle's descriptor out; the child keeps
   the owning description open, and after the death of the holder's process the kernel still refuses an outsider *)
Lemma proc_death_frees_full_refuted :
  ~ proc_death_frees_full
  /\ pstep gen_lock_disc two_in_one (prun gen_lock_disc two_in_one linit [PEv (LStep 1 KOpen); PEv (LStep 1 (KTry true))])
       (PFork 0 1 [(0, 2)]) = None
  /\ (exists s, prun_strict gen_lock_disc two_in_one linit
                  (fork_while_other_holds ++ [PEv (LKill 0); PEv (LStep 4 KOpen); PEv (LStep 4 (KTry false))]) 0 = inl s
                /\ l_owner s <> None /\ l_h s 1 = HDead /\ l_h s 3 = HHeld 0 /\ l_h s 4 = HRefused 1)
  /\ (exists s, prun_strict gen_lock_disc two_in_one linit
                  (fork_while_other_holds ++ [PEv (LKill 0); PEv (LKill 1); PEv (LStep 4 KOpen); PEv (LStep 4 (KTry true))]) 0 = inl s
                /\ lholds s 4).
Proof.
  split.
  - intro H. specialize (H two_in_one fork_while_other_holds 1).
    destruct H as [s' [E V]]; [eexists; vm_compute; reflexivity|].
    vm_compute in E. inversion E; subst s'. vm_compute in V. discriminate.
  - split; [vm_compute; reflexivity|]. split.
    + eexists. split; [vm_compute; reflexivity|]. split; [vm_compute; discriminate|]. repeat split.
    + eexists. split; [vm_compute; reflexivity | eexists; vm_compute; reflexivity].
Qed.

(* inside release() -- unlocked, flag not yet cleared -- the flag says held, the kernel lock is gone, and another
   handle can be granted: two flags *)
Lemma proc_flag_is_owner_full_refuted : ~ proc_flag_is_owner_full.
Proof.
  intro H.
  specialize (H (fun h : hid => h) [PEv (LStep 0 KOpen); PEv (LStep 0 (KTry true)); PEv (LStep 0 KUnlock);
                                   PEv (LStep 1 KOpen); PEv (LStep 1 (KTry true))]).
  destruct H as [_ H]; [vm_compute; repeat split|].
  assert (E : 0 = 1); [|discriminate E].
  apply H; eexists; vm_compute; [right | left]; reflexivity.
Qed.
