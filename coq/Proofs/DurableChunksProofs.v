(* Proofs/DurableChunksProofs.v -- C16 over data files written in bursts (Model/DurableChunks.v).

   chunked_shape            the chunked writer = Create; bursts; Fsync; Rename; FsyncDir (unfolds gen_data_writer)
   chunked_each_publish     for EVERY list of bursts (any sizes, any incremental fsyncs), from any prior state, at every
                            prefix and under every schedule: the final name never holds a partial file, and is durable and
                            whole after the last call
   chunked_disciplined      the chunked publish is accepted by the publish discipline (so disciplined_safe applies)
   unsynced_tail_rejected   ANY trace in which a Write to a file is directly followed by its Rename is rejected
   nofinal_rejected         the chunked writer without close()'s fsync is rejected whenever the last burst was not synced
   unsynced_tail_torn       ... and rightly: the drop-all power loss leaves the final name with a proper prefix *)
From Coq Require Import NArith List Bool Arith Lia.
Require Import DS.Model.Durable DS.Model.DurableChunks DS.Proofs.DurableProofs DS.Proofs.DurablePublish.
Import ListNotations.
Open Scope N_scope.

Lemma chunked_shape : forall p chs, publish_data_chunked p chs =
  Create (tmp_of p) :: bursts (tmp_of p) chs ++ [Fsync (tmp_of p); Rename (tmp_of p) p; FsyncDir (dir_of p)].
Proof.
  intros p chs. unfold publish_data_chunked, chunked_of, gen_data_writer. simpl. reflexivity.
Qed.

Lemma chunk_calls_shape : forall t ch, chunk_calls t ch =
  Write t (ch_bytes ch) :: (if ch_sync ch then [Fsync t] else []).
Proof. reflexivity. Qed.

Section Chunked.
Variables (s0 : fs) (d n : N).
Let p := P d n.
Let t := T d n.
Let i := next s0.

Definition tail3 : list call := [Fsync t; Rename t p; FsyncDir d].

(* burst phase: the temp holds w, the final name is untouched *)
Definition PhB (w : content) (s : fs) : Prop :=
  vE s t = Some i /\ vE s p = vE s0 p /\ vD s i = w /\ old_or s0 d n s false.

(* R c rest s: s is a state the publish of total content c can be in when `rest` remains to be issued *)
Definition R (c : content) (rest : list call) (s : fs) : Prop :=
  (exists chs, rest = Create t :: bursts t chs ++ tail3 /\ chunks_content chs = c /\ Ph s0 d n c 0 s)
  \/ (exists pre chs w, rest = pre ++ bursts t chs ++ tail3 /\ (pre = [] \/ pre = [Fsync t])
                        /\ w ++ chunks_content chs = c /\ PhB w s)
  \/ (rest = [Rename t p; FsyncDir d] /\ Ph s0 d n c 3 s)
  \/ (rest = [FsyncDir d] /\ Ph s0 d n c 4 s)
  \/ (rest = [] /\ Ph s0 d n c 5 s).

Lemma PhB_bg : forall w s b, PhB w s -> PhB w (bg_step s b).
Proof.
  intros w s b [A [B [C D]]]. destruct (vol_bg s b) as [Hv Hn]. unfold PhB. rewrite Hv.
  repeat split; auto. apply old_or_bg; auto; discriminate.
Qed.

Lemma R_bg : forall c rest s b, R c rest s -> R c rest (bg_step s b).
Proof.
  intros c rest s b [[chs [E [Hc H]]]|[[pre [chs [w [E [Hp [Hc H]]]]]]|[[E H]|[[E H]|[E H]]]]].
  - left. exists chs. split; [|split]; auto. now apply Ph_bg.
  - right; left. exists pre, chs, w. split; [|split; [|split]]; auto. now apply PhB_bg.
  - right; right; left. split; auto. now apply Ph_bg.
  - right; right; right; left. split; auto. now apply Ph_bg.
  - right; right; right; right. split; auto. now apply Ph_bg.
Qed.

Hypothesis Htmp : vE s0 t = None.

Lemma PhB_fsync : forall w s, PhB w s -> exists s', step s (Fsync t) = Some s' /\ PhB w s' /\ dD s' i = w.
Proof.
  intros w s [A [B [C D]]]. simpl. rewrite A. eexists. split; [reflexivity|].
  unfold PhB. simpl. rewrite upd_d_same. repeat split; auto.
Qed.

Lemma PhB_write : forall w s b, PhB w s -> exists s', step s (Write t b) = Some s' /\ PhB (w ++ b) s'.
Proof.
  intros w s b [A [B [C D]]]. simpl. rewrite A. eexists. split; [reflexivity|].
  unfold PhB. simpl. rewrite upd_d_same, C. repeat split; auto.
Qed.

Lemma R_call : forall c call rest s, R c (call :: rest) s -> exists s', step s call = Some s' /\ R c rest s'.
Proof.
  intros c call rest s [[chs [E [Hc H]]]|[[pre [chs [w [E [Hp [Hc H]]]]]]|[[E H]|[[E H]|[E H]]]]].
  - (* Create *)
    inversion E; subst call rest; clear E. simpl in H. destruct H as [A [B C]].
    simpl. rewrite A. fold t. rewrite Htmp. eexists. split; [reflexivity|].
    right; left. exists [], chs, []. repeat split; auto; simpl.
    + rewrite B. fold i. now rewrite upd_e_same.
    + rewrite upd_e_other by discriminate. apply A.
    + rewrite B. fold i. now rewrite upd_d_same.
  - destruct Hp as [Hp|Hp]; subst pre; simpl in E.
    + destruct chs as [|ch chs]; simpl in E.
      * (* the final Fsync *)
        inversion E; subst call rest; clear E. simpl in Hc. rewrite app_nil_r in Hc. subst w.
        destruct (PhB_fsync c s H) as [s' [S1 [[A [B [C D]]] E']]]. exists s'. split; auto.
        right; right; left. split; auto. simpl. repeat split; auto.
      * (* the Write of a burst *)
        inversion E; subst call rest; clear E.
        destruct (PhB_write w s (ch_bytes ch) H) as [s' [S1 H']]. exists s'. split; auto.
        right; left. exists (if ch_sync ch then [Fsync t] else []), chs, (w ++ ch_bytes ch).
        split; [now rewrite <- app_assoc|]. split; [destruct (ch_sync ch); auto|]. split; auto.
        unfold chunks_content in *. simpl in Hc. now rewrite <- app_assoc.
    + (* the incremental Fsync of a burst *)
      inversion E; subst call rest; clear E.
      destruct (PhB_fsync w s H) as [s' [S1 [H' _]]]. exists s'. split; auto.
      right; left. exists [], chs, w. split; [|split; [|split]]; auto.
  - (* Rename *)
    inversion E; subst call rest; clear E. simpl in H. destruct H as [A [B [C [D E']]]].
    unfold t, p. simpl. rewrite A. eexists. split; [reflexivity|].
    right; right; right; left. split; auto. simpl. rewrite upd_e_same. repeat split; auto.
    unfold old_or in *. tauto.
  - (* FsyncDir *)
    inversion E; subst call rest; clear E. simpl in H. destruct H as [A [B [C D]]].
    simpl. eexists. split; [reflexivity|]. right; right; right; right. split; auto.
    simpl. rewrite N.eqb_refl. repeat split; auto.
  - discriminate.
Qed.

Lemma R_run : forall c es prog s k, R c prog s -> calls_of es = firstn k prog ->
  exists s', run s es = Some s' /\ R c (skipn (length (calls_of es)) prog) s'.
Proof.
  induction es as [|[call|b] es IH]; intros prog s k H Hes; simpl in *.
  - exists s. auto.
  - destruct k as [|k]; [discriminate|]. destruct prog as [|call' rest]; [discriminate|].
    simpl in Hes. inversion Hes; subst call'.
    destruct (R_call c call rest s H) as [s1 [S1 R1]]. rewrite S1.
    destruct (IH rest s1 k R1) as [s' [Hr Hp]]; auto. exists s'. auto.
  - eapply IH; eauto. now apply R_bg.
Qed.

(* what R says about the final name, whatever remains *)
Lemma R_safe : forall c rest s, R c rest s ->
  (dE s p = dE s0 p \/ dE s p = vE s0 p \/ (dE s p = Some i /\ dD s i = c))
  /\ (vE s p = vE s0 p \/ (vE s p = Some i /\ vD s i = c /\ dD s i = c))
  /\ (rest = [] -> dE s p = Some i /\ dD s i = c /\ vE s p = Some i /\ vD s i = c).
Proof.
  intros c rest s [[chs [E [Hc H]]]|[[pre [chs [w [E [Hp [Hc H]]]]]]|[[E H]|[[E H]|[E H]]]]]; simpl in H; unfold old_or in H.
  - destruct H as [A [B C]]. split; [|split].
    + destruct C as [C|[C|[C _]]]; [auto|auto|discriminate].
    + left. apply A.
    + intro Hn. rewrite Hn in E. discriminate.
  - destruct H as [A [B [C D]]]. unfold old_or in D. split; [|split].
    + destruct D as [D|[D|[D _]]]; [auto|auto|discriminate].
    + left. exact B.
    + intro Hn. rewrite Hn in E. destruct pre; [destruct (bursts t chs)|]; discriminate.
  - destruct H as [A [B [C [D E']]]]. split; [|split].
    + destruct E' as [E'|[E'|[E' _]]]; [auto|auto|discriminate].
    + left. exact B.
    + intro Hn. rewrite Hn in E. discriminate.
  - destruct H as [A [B [C D]]]. split; [|split].
    + destruct D as [D|[D|[_ D]]]; auto.
    + right. auto.
    + intro Hn. rewrite Hn in E. discriminate.
  - destruct H as [A [B [C D]]]. split; [|split]; auto.
Qed.

Theorem chunked_each_publish_sec : forall chs k es, calls_of es = firstn k (publish_data_chunked p chs) ->
  exists s', run s0 es = Some s'
    /\ (dE s' p = dE s0 p \/ dE s' p = vE s0 p \/ (dE s' p = Some i /\ dD s' i = chunks_content chs))
    /\ (vE s' p = vE s0 p \/ (vE s' p = Some i /\ vD s' i = chunks_content chs /\ dD s' i = chunks_content chs))
    /\ ((length (publish_data_chunked p chs) <= k)%nat ->
        dE s' p = Some i /\ dD s' i = chunks_content chs /\ vE s' p = Some i /\ vD s' i = chunks_content chs).
Proof.
  intros chs k es Hes. rewrite chunked_shape in *. cbn [tmp_of dir_of p] in *. fold t in Hes |- *.
  set (prog := Create t :: bursts t chs ++ [Fsync t; Rename t (P d n); FsyncDir d]) in *.
  assert (H0 : R (chunks_content chs) prog s0).
  { left. exists chs. repeat split; auto. simpl. unfold old_or; auto. }
  destruct (R_run _ es prog s0 k H0 Hes) as [s' [Hr HR]]. exists s'. split; auto.
  destruct (R_safe _ _ _ HR) as [A [B C]]. split; auto. split; auto.
  intro Hk. apply C. rewrite Hes, firstn_length. rewrite Nat.min_r by exact Hk. apply skipn_all.
Qed.
End Chunked.

Theorem chunked_each_publish : forall (s0 : fs) (d n : N) (chs : list chunk),
  entry (vol s0) (T d n) = None ->
  forall k es, calls_of es = firstn k (publish_data_chunked (P d n) chs) ->
  exists s', run s0 es = Some s'
    /\ (entry (dur s') (P d n) = entry (dur s0) (P d n) \/ entry (dur s') (P d n) = entry (vol s0) (P d n)
        \/ (entry (dur s') (P d n) = Some (next s0) /\ data (dur s') (next s0) = chunks_content chs))
    /\ (entry (vol s') (P d n) = entry (vol s0) (P d n)
        \/ (entry (vol s') (P d n) = Some (next s0) /\ data (vol s') (next s0) = chunks_content chs
            /\ data (dur s') (next s0) = chunks_content chs))
    /\ ((length (publish_data_chunked (P d n) chs) <= k)%nat ->
        entry (dur s') (P d n) = Some (next s0) /\ data (dur s') (next s0) = chunks_content chs
        /\ entry (vol s') (P d n) = Some (next s0) /\ data (vol s') (next s0) = chunks_content chs).
Proof. intros s0 d n chs H k es Hes. exact (chunked_each_publish_sec s0 d n H chs k es Hes). Qed.

(* ---------------------------------------------------------------- the discipline *)

(* ANY trace in which a Write to a file is directly followed by the Rename of that file -- no fsync after the LAST
   write -- is rejected by the publish discipline, whatever came before (incremental fsyncs included) and after. *)
Theorem unsynced_tail_rejected : forall g pre f b q post,
  checks g (pre ++ Write f b :: Rename f q :: post) = None.
Proof.
  intros g pre f b q post. rewrite checks_app. destruct (checks g pre) as [g1|]; [|reflexivity].
  destruct f as [d n|d n]; [reflexivity|]. simpl.
  destruct (tmps g1 (T d n)) as [[c0 fl]|]; [|reflexivity].
  destruct q as [d' n'|d' n']; simpl; [|reflexivity]. rewrite upd_t_same. reflexivity.
Qed.

Lemma bursts_app : forall t a b, bursts t (a ++ b) = bursts t a ++ bursts t b.
Proof. intros. unfold bursts. apply flat_map_app. Qed.

(* the data writer WITHOUT close()'s fsync is rejected whenever the last burst was not followed by an fsync of its
   own: for every number and size of bursts, synced incrementally or not *)
Theorem nofinal_rejected : forall g d n chs b,
  checks g (publish_data_chunked_nofinal (P d n) (chs ++ [mkChunk b false])) = None.
Proof.
  intros g d n chs b. unfold publish_data_chunked_nofinal. cbn [tmp_of dir_of]. rewrite bursts_app.
  change (bursts (T d n) [mkChunk b false]) with [Write (T d n) b].
  rewrite <- app_assoc. simpl app.
  change (Create (T d n) :: bursts (T d n) chs ++ Write (T d n) b :: Rename (T d n) (P d n) :: [FsyncDir d])
    with ((Create (T d n) :: bursts (T d n) chs) ++ Write (T d n) b :: Rename (T d n) (P d n) :: [FsyncDir d]).
  apply unsynced_tail_rejected.
Qed.

(* ... and rightly so: one burst synced incrementally, a second one (the tail: e.g. the parquet footer) not, then the
   rename and its directory fsync -- from ANY prior state, the plain drop-all power loss leaves the final name durably
   linked to the first burst only, while running processes see the whole file *)
Theorem unsynced_tail_torn : forall s0 d n a b, entry (vol s0) (T d n) = None ->
  exists s', exec s0 [Create (T d n); Write (T d n) a; Fsync (T d n); Write (T d n) b; Rename (T d n) (P d n); FsyncDir d] = Some s'
    /\ content_at (power_loss s') (P d n) = Some a /\ content_at (vol s') (P d n) = Some (a ++ b).
Proof.
  intros s0 d n a b H. unfold exec. simpl. rewrite H. simpl.
  repeat (progress (rewrite ?upd_e_same, ?upd_d_same; simpl)).
  eexists. split; [reflexivity|]. unfold content_at, power_loss. simpl.
  repeat (progress (rewrite ?N.eqb_refl, ?upd_e_same, ?upd_d_same; simpl)). auto.
Qed.

Lemma bursts_checks : forall t chs g1 w fl, (exists d n, t = T d n) -> tmps g1 t = Some (w, fl) ->
  exists g2 fl', checks g1 (bursts t chs) = Some g2 /\ tmps g2 t = Some (w ++ chunks_content chs, fl')
                 /\ st g2 = st g1 /\ refd g2 = refd g1.
Proof.
  intros t chs. induction chs as [|ch chs IH]; intros g1 w fl Ht H.
  - exists g1, fl. simpl. unfold chunks_content. simpl. rewrite app_nil_r. auto.
  - destruct Ht as [d [n Ht]]. subst t. unfold bursts. cbn [flat_map]. fold (bursts (T d n) chs). rewrite chunk_calls_shape.
    simpl app. cbn [checks check]. rewrite H.
    set (gA := mkGhost (upd_t (tmps g1) (T d n) (Some (w ++ ch_bytes ch, false))) (st g1) (refd g1)).
    assert (HA : tmps gA (T d n) = Some (w ++ ch_bytes ch, false)) by (simpl; apply upd_t_same).
    destruct (ch_sync ch); simpl app.
    + cbn [checks check]. rewrite HA.
      set (gB := mkGhost (upd_t (tmps gA) (T d n) (Some (w ++ ch_bytes ch, true))) (st gA) (refd gA)).
      assert (HB : tmps gB (T d n) = Some (w ++ ch_bytes ch, true)) by (simpl; apply upd_t_same).
      destruct (IH gB _ _ (ex_intro _ d (ex_intro _ n eq_refl)) HB) as [g2 [fl' [C [D [E F]]]]].
      exists g2, fl'. split; [exact C|]. split; [|auto].
      rewrite D. unfold chunks_content. simpl. now rewrite app_assoc.
    + destruct (IH gA _ _ (ex_intro _ d (ex_intro _ n eq_refl)) HA) as [g2 [fl' [C [D [E F]]]]].
      exists g2, fl'. split; [exact C|]. split; [|auto].
      rewrite D. unfold chunks_content. simpl. now rewrite app_assoc.
Qed.

(* the chunked publish is accepted by the discipline from every ghost state in which the temp name is unused, the final
   name is fresh and the content's references are durable -- for every list of bursts; the final name ends up linked to
   the whole content with a durable entry *)
Theorem chunked_disciplined : forall g d n chs,
  tmps g (T d n) = None -> st g (P d n) = Fresh -> forallb (ref_ok g) (refs (chunks_content chs)) = true ->
  exists g', checks g (publish_data_chunked (P d n) chs) = Some g'
             /\ st g' (P d n) = Linked (chunks_content chs) true.
Proof.
  intros g d n chs Ht Hs Hr. rewrite chunked_shape. cbn [tmp_of dir_of]. cbn [checks check]. rewrite Ht.
  set (gA := mkGhost (upd_t (tmps g) (T d n) (Some ([], true))) (st g) (refd g)).
  assert (HA : tmps gA (T d n) = Some ([], true)) by (simpl; apply upd_t_same).
  rewrite checks_app.
  destruct (bursts_checks (T d n) chs gA _ _ (ex_intro _ d (ex_intro _ n eq_refl)) HA) as [g2 [fl' [C [D [E F]]]]].
  rewrite C. simpl app in D. cbn [checks check]. rewrite D.
  set (g3 := mkGhost (upd_t (tmps g2) (T d n) (Some (chunks_content chs, true))) (st g2) (refd g2)).
  assert (H3 : tmps g3 (T d n) = Some (chunks_content chs, true)) by (simpl; apply upd_t_same).
  rewrite H3.
  assert (Hst : st g3 = st g) by (simpl; rewrite E; reflexivity).
  assert (Hro : forallb (ref_ok g3) (refs (chunks_content chs)) = true).
  { rewrite <- Hr. unfold ref_ok. rewrite Hst. reflexivity. }
  rewrite Hro, Hst, Hs. simpl. eexists. split; [reflexivity|]. simpl.
  rewrite N.eqb_refl, upd_s_same. reflexivity.
Qed.
