(* Proofs/ProcLockC19Proofs.v -- what property C19 says about the LOCAL lock, over the process-topology layer
   Model/ProcLock.v (FileLock handles in OS processes, open file descriptions, fork inheritance, deaths), from the
   invariant `inv` of Proofs/ProcLockProofs.v:

     kill_frees / kill_then_granted      a holder's death frees the lock, and a live idle handle of another process is
                                         then granted on its next attempt and is the only holder
     granted_only_when_free              an attempt is granted only when no handle holds; afterwards exactly the
                                         acquirer holds
     refused_while_held                  while another handle holds, the kernel's answer to an attempt is `refused`
                                         (the granted answer is not enabled, the refused one is)
     holder_persists / no_success_while_held
                                         through ANY event list (any interleaving, any topology, quiescent forks) that
                                         contains neither the holder's unlock nor the death of its process, the holder
                                         still holds and no other handle's attempt is granted at the end: however long a
                                         blocked acquirer polls, it never reports success while the holder is live

   These are per-state lemmas from `inv`; Proofs/ProcForkProofs.v lifts them to every schedule of the machine with
   whole-process forks (Model/ProcFork.v), over the REGENERATED discipline gen_lock_disc (Gen/GenFileLock.v). *)
From Coq Require Import List Bool Arith Lia.
Require Import DS.Model.ProcLockBase DS.Gen.GenFileLock DS.Model.ProcLock DS.Model.ProcLockKeep DS.Proofs.ProcLockProofs.
Import ListNotations.

Definition not_fork (e : levent) : Prop := match e with LFork _ _ => False | _ => True end.

Lemma not_fork_quiescent s e : not_fork e -> fork_quiescent s e.
Proof. destruct e; simpl; intro H; [exact I | exact I | contradiction]. Qed.

(* the holder's own unlock and the death of its process are the only events that end a holding *)
Definition ends_holding (proc : hid -> pid) (k : hid) (e : levent) : Prop := e = LStep k KUnlock \/ e = LKill (proc k).

Lemma forks_quiescent_app dc proc evs1 : forall s evs2,
  forks_quiescent dc proc s evs1 -> forks_quiescent dc proc (lrun dc proc s evs1) evs2 ->
  forks_quiescent dc proc s (evs1 ++ evs2).
Proof.
  induction evs1 as [|e evs1 IH]; intros s evs2 Q1 Q2; simpl in *; [exact Q2|].
  destruct Q1 as [Qe Q1]. split; [exact Qe|]. apply IH; assumption.
Qed.

Lemma lrun_app dc proc evs1 : forall s evs2, lrun dc proc s (evs1 ++ evs2) = lrun dc proc (lrun dc proc s evs1) evs2.
Proof. intros s evs2. unfold lrun. apply fold_left_app. Qed.

Section Topology.
Variable proc : hid -> pid.

Notation step := (lstep ByDescription proc).
Notation run := (lrun ByDescription proc).

Lemma strict_inv evs : forall s i s', inv s -> Forall not_fork evs ->
  lrun_strict ByDescription proc s evs i = inl s' -> inv s'.
Proof.
  induction evs as [|e evs IH]; intros s i s' I F R; simpl in R.
  - inversion R; subst s'. exact I.
  - inversion F as [|e0 l0 Fe Fl]; subst.
    destruct (step s e) as [s1|] eqn:E; [|discriminate].
    apply (IH s1 (S i) s'); [|exact Fl|exact R].
    apply (inv_step proc s e s1 I); [apply not_fork_quiescent; exact Fe | exact E].
Qed.

(* ---- a holder's death frees the lock *)
Lemma kill_frees s h :
  inv s -> lholds s h ->
  exists s', step s (LKill (proc h)) = Some s' /\ inv s' /\ lock_view s' = None /\ (forall k, ~ lholds s' k).
Proof.
  intros I Hh.
  destruct (step s (LKill (proc h))) as [s'|] eqn:E; [|simpl in E; discriminate].
  assert (I' : inv s') by (apply (inv_step proc s (LKill (proc h)) s' I); [exact Logic.I | exact E]).
  pose proof (step_view_effect proc s (LKill (proc h)) s' I Logic.I E) as V. simpl in V.
  assert (Vh : lock_view s = Some h) by (apply (inv_flag_iff_view s h I); exact Hh).
  rewrite Vh in V. unfold in_proc in V. rewrite Nat.eqb_refl in V.
  exists s'. split; [reflexivity|]. split; [exact I'|]. split; [exact V|].
  apply (view_none s' I'). exact V.
Qed.

Lemma kill_then_granted s h w :
  inv s -> lholds s h -> l_h s w = HIdle -> proc w <> proc h ->
  exists s' s'', step s (LKill (proc h)) = Some s'
    /\ lrun_strict ByDescription proc s' (map (LStep w) attempt_granted_events) 0 = inl s''
    /\ lholds s'' w /\ lock_view s'' = Some w /\ (forall k, lholds s'' k -> k = w).
Proof.
  intros I Hh Hw Np.
  destruct (kill_frees s h I Hh) as [s' [E [I' [V _]]]].
  assert (Hw' : l_h s' w = HIdle).
  { simpl in E. inversion E; subst s'. simpl. unfold in_proc.
    destruct (Nat.eqb (proc w) (proc h)) eqn:Eq; [apply Nat.eqb_eq in Eq; contradiction | exact Hw]. }
  destruct (free_lock_is_granted proc s' w I' Hw' V) as [s'' [R [Hh'' V'']]].
  exists s', s''. split; [exact E|]. split; [exact R|]. split; [exact Hh''|]. split; [exact V''|].
  intros k Hk.
  assert (I'' : inv s'').
  { apply (strict_inv (map (LStep w) attempt_granted_events) s' 0 s'' I'); [|exact R].
    simpl. repeat constructor. }
  apply (inv_exclusive s'' k w I'' Hk Hh'').
Qed.

(* ---- success only from a free lock *)
Lemma granted_only_when_free s h s' :
  inv s -> step s (LStep h (KTry true)) = Some s' ->
  (forall k, ~ lholds s k) /\ lholds s' h /\ (forall k, lholds s' k -> k = h).
Proof.
  intros I E.
  assert (I' : inv s') by (apply (inv_step proc s (LStep h (KTry true)) s' I); [exact Logic.I | exact E]).
  pose proof (step_view_effect proc s (LStep h (KTry true)) s' I Logic.I E) as V. simpl in V. destruct V as [V V'].
  assert (Hh : lholds s' h) by (apply (inv_flag_iff_view s' h I'); exact V').
  split; [apply (view_none s I); exact V|]. split; [exact Hh|].
  intros k Hk. apply (inv_exclusive s' k h I' Hk Hh).
Qed.

Lemma refused_while_held s h k d :
  inv s -> lholds s k -> k <> h ->
  step s (LStep h (KTry true)) = None
  /\ (l_h s h = HOpened d -> exists s', step s (LStep h (KTry false)) = Some s' /\ lholds s' k /\ l_h s' h = HRefused d).
Proof.
  intros I Hk N. split.
  - destruct (step s (LStep h (KTry true))) as [s'|] eqn:E; [|reflexivity]. exfalso.
    destruct (granted_only_when_free s h s' I E) as [Nh _]. exact (Nh k Hk).
  - intro Ho. destruct Hk as [dk Hdk].
    pose proof (i_held s I k dk Hdk) as Ow.
    assert (Nd : dk <> d).
    { intro Eq. subst dk. apply N. apply (fd_unique s k h d I); [rewrite Hdk | rewrite Ho]; reflexivity. }
    simpl. rewrite Ho. rewrite Ow. simpl.
    apply Nat.eqb_neq in Nd. rewrite Nd. simpl. eexists. split; [reflexivity|]. split.
    + exists dk. simpl. rewrite lupd_other by (exact N). exact Hdk.
    + simpl. apply lupd_same.
Qed.

(* ---- nothing but the holder's own unlock or the death of its process ends a holding, whatever everybody else does *)
Lemma holder_persists evs : forall s k,
  inv s -> lholds s k -> forks_quiescent ByDescription proc s evs ->
  Forall (fun e => ~ ends_holding proc k e) evs ->
  inv (run s evs) /\ lholds (run s evs) k.
Proof.
  induction evs as [|e evs IH]; intros s k I Hk Q F; simpl; [split; assumption|].
  destruct Q as [Qe Q]. inversion F as [|e0 l0 Fe Fl]; subst.
  apply IH; [apply inv_step_skip; assumption | | exact Q | exact Fl].
  unfold lstep_skip. destruct (step s e) as [s1|] eqn:E; [|exact Hk].
  apply (step_keeps_holder proc s e s1 k E Hk).
  - intro Eq. apply Fe. left. exact Eq.
  - intro Eq. apply Fe. right. exact Eq.
Qed.

Lemma no_success_while_held evs s k h :
  inv s -> lholds s k -> forks_quiescent ByDescription proc s evs ->
  Forall (fun e => ~ ends_holding proc k e) evs -> h <> k ->
  step (run s evs) (LStep h (KTry true)) = None /\ ~ lholds (run s evs) h.
Proof.
  intros I Hk Q F N.
  destruct (holder_persists evs s k I Hk Q F) as [I' Hk'].
  split.
  - apply (refused_while_held (run s evs) h k 0 I' Hk'). intro Eq. apply N. symmetry. exact Eq.
  - intro Hh. apply N. apply (inv_exclusive (run s evs) h k I' Hh Hk').
Qed.

End Topology.

(* The statements over the regenerated discipline from the initial state live in Proofs/ProcForkProofs.v: they are
   over the machine of Model/ProcFork.v, whose fork copies the WHOLE descriptor table of the forking process (the
   single-handle `LFork` of Model/ProcLock.v let a process fork "only its idle handle" while another of its handles
   held, which no kernel does). *)

(* ---- the handle program FileLock does NOT perform (Model/ProcLockKeep.v): refutation witnesses *)
Lemma kept_descriptor_refuted :
  (exists s, krun_strict gen_lock_disc (fun h : hid => h) linit
               [KEv (LStep 0 KOpen); KEv (LStep 0 (KTry true)); KUnlockKeep 0; KForkKeep 0 1;
                KEv (LStep 0 (KTry true)); KEv (LStep 1 (KTry true))] 0 = inl s
             /\ lholds s 0 /\ lholds s 1 /\ 0 <> 1)
  /\ (exists s, krun_strict gen_lock_disc (fun h : hid => h) linit
               [KEv (LStep 0 KOpen); KEv (LStep 0 (KTry true)); KUnlockKeep 0; KForkKeep 0 1;
                KEv (LStep 1 (KTry true)); KEv (LKill 1); KEv (LStep 2 KOpen); KEv (LStep 2 (KTry false))] 0 = inl s
             /\ (forall h, ~ lholds s h) /\ l_owner s <> None /\ l_h s 1 = HDead).
Proof.
  split.
  - eexists. split; [vm_compute; reflexivity|]. split; [eexists; vm_compute; reflexivity|].
    split; [eexists; vm_compute; reflexivity | discriminate].
  - eexists. split; [vm_compute; reflexivity|]. split.
    + intros h [d Hd]. vm_compute in Hd. destruct h as [|[|[|h]]]; discriminate.
    + split; [vm_compute; discriminate | vm_compute; reflexivity].
Qed.
