(* Proofs/DurablePublish.v -- C16_each_publish: one temp+fsync+rename+dirfsync sequence, started in
   ANY prior file-system state, under every schedule of background persistence. *)
From Coq Require Import NArith List Bool Arith Lia.
Require Import DS.Model.Durable DS.Proofs.DurableProofs.
Import ListNotations.
Open Scope N_scope.

Section Publish.
Variables (s0 : fs) (d n : N) (c : content).
Let p := P d n.
Let t := T d n.
Let i := next s0.

Definition old_or (s : fs) (allow_new : bool) : Prop :=
  dE s p = dE s0 p \/ dE s p = vE s0 p \/ (allow_new = true /\ dE s p = Some i).

(* the state after m of the five calls (and any background events) *)
Definition Ph (m : nat) (s : fs) : Prop :=
  match m with
  | 0%nat => (forall x, vE s x = vE s0 x) /\ next s = next s0 /\ old_or s false
  | 1%nat => vE s t = Some i /\ vE s p = vE s0 p /\ vD s i = [] /\ old_or s false
  | 2%nat => vE s t = Some i /\ vE s p = vE s0 p /\ vD s i = c /\ old_or s false
  | 3%nat => vE s t = Some i /\ vE s p = vE s0 p /\ vD s i = c /\ dD s i = c /\ old_or s false
  | 4%nat => vE s p = Some i /\ vD s i = c /\ dD s i = c /\ old_or s true
  | _ => vE s p = Some i /\ vD s i = c /\ dD s i = c /\ dE s p = Some i
  end.

Lemma old_or_bg : forall s b a, (a = true -> vE s p = Some i) -> (a = false -> vE s p = vE s0 p) ->
  old_or s a -> old_or (bg_step s b) a.
Proof.
  intros s [j k|x] a Ht Hf H; unfold old_or in *; simpl.
  - destruct (Nat.leb (length (dD s j)) k); simpl; auto.
  - unfold upd_e. destruct (path_eqb_spec p x) as [<-|]; auto.
    destruct a; [right; right; auto|right; left; auto].
Qed.

Lemma vol_bg : forall s b, vol (bg_step s b) = vol s /\ next (bg_step s b) = next s.
Proof. intros s [j k|x]; simpl; [destruct (Nat.leb (length (dD s j)) k)|]; auto. Qed.

Lemma dD_bg_sealed : forall s b j, vD s j = dD s j -> dD (bg_step s b) j = dD s j.
Proof. intros s [j' k|x] j H; [apply pdata_sealed; auto|reflexivity]. Qed.

Lemma Ph_bg : forall m s b, Ph m s -> Ph m (bg_step s b).
Proof.
  intros m s b H. destruct (vol_bg s b) as [Hv Hn].
  destruct m as [|[|[|[|[|m]]]]]; simpl in *; rewrite ?Hv, ?Hn.
  - destruct H as [A [B C]]. repeat split; auto. apply old_or_bg; auto; discriminate.
  - destruct H as [A [B [C D]]]. repeat split; auto. apply old_or_bg; auto; discriminate.
  - destruct H as [A [B [C D]]]. repeat split; auto. apply old_or_bg; auto; discriminate.
  - destruct H as [A [B [C [D E]]]]. repeat split; auto.
    + rewrite dD_bg_sealed; congruence.
    + apply old_or_bg; auto; discriminate.
  - destruct H as [A [B [C D]]]. repeat split; auto.
    + rewrite dD_bg_sealed; congruence.
    + apply old_or_bg; auto; discriminate.
  - destruct H as [A [B [C D]]]. repeat split; auto.
    + rewrite dD_bg_sealed; congruence.
    + destruct b as [j k|x]; simpl.
      * destruct (Nat.leb (length (dD s j)) k); auto.
      * unfold upd_e. destruct (path_eqb_spec p x) as [<-|]; auto.
Qed.

Hypothesis Htmp : vE s0 t = None.

Lemma Ph_call : forall m s call rest, skipn m (publish_meta p c) = call :: rest -> Ph m s ->
  exists s', step s call = Some s' /\ Ph (S m) s' /\ skipn (S m) (publish_meta p c) = rest.
Proof.
  intros m s call rest Hs H. unfold publish_meta, gen_write_file in *. cbn [tmp_of dir_of] in *.
  destruct m as [|[|[|[|[|m]]]]]; simpl in Hs; try (destruct m; discriminate); inversion Hs; subst; clear Hs; simpl in H.
  - destruct H as [A [B C]]. simpl. rewrite A. fold t. rewrite Htmp. eexists. split; [reflexivity|]. split; [|reflexivity].
    simpl. rewrite B. fold i. rewrite upd_e_same, upd_d_same. repeat split; auto.
    rewrite upd_e_other by discriminate. apply A.
  - destruct H as [A [B [C D]]]. simpl. fold t. rewrite A. eexists. split; [reflexivity|]. split; [|reflexivity].
    simpl. rewrite upd_d_same, C. repeat split; auto.
  - destruct H as [A [B [C D]]]. simpl. fold t. rewrite A. eexists. split; [reflexivity|]. split; [|reflexivity].
    simpl. rewrite upd_d_same. repeat split; auto.
  - destruct H as [A [B [C [D E]]]]. simpl. fold t. rewrite A. eexists. split; [reflexivity|]. split; [|reflexivity].
    simpl. fold p. rewrite upd_e_same. repeat split; auto. unfold old_or in *. tauto.
  - destruct H as [A [B [C D]]]. simpl. eexists. split; [reflexivity|]. split; [|reflexivity].
    simpl. rewrite N.eqb_refl. repeat split; auto.
Qed.

Lemma Ph_run : forall es m s k, Ph m s -> calls_of es = firstn k (skipn m (publish_meta p c)) ->
  exists s', run s es = Some s' /\ Ph (m + length (calls_of es)) s'.
Proof.
  induction es as [|[call|b] es IH]; intros m s k H Hes; simpl in *.
  - exists s. rewrite Nat.add_0_r. auto.
  - destruct k as [|k]; [discriminate|]. destruct (skipn m (publish_meta p c)) as [|call' rest] eqn:E; [discriminate|].
    simpl in Hes. inversion Hes; subst call'.
    destruct (Ph_call m s call rest E H) as [s1 [S1 [P1 R1]]]. rewrite S1.
    destruct (IH (S m) s1 k P1) as [s' [Hr Hp]]. { rewrite R1. auto. }
    exists s'. split; auto. now rewrite Nat.add_succ_r.
  - eapply IH; eauto. now apply Ph_bg.
Qed.

Theorem each_publish : forall k es, calls_of es = firstn k (publish_meta p c) ->
  exists s', run s0 es = Some s'
    /\ (dE s' p = dE s0 p \/ dE s' p = vE s0 p \/ (dE s' p = Some i /\ dD s' i = c))
    /\ (vE s' p = vE s0 p \/ (vE s' p = Some i /\ vD s' i = c /\ dD s' i = c))
    /\ ((5 <= k)%nat -> dE s' p = Some i /\ dD s' i = c /\ vE s' p = Some i /\ vD s' i = c).
Proof.
  intros k es Hes.
  assert (H0 : Ph 0 s0) by (simpl; unfold old_or; auto).
  destruct (Ph_run es 0%nat s0 k H0 Hes) as [s' [Hr Hp]]. exists s'. split; auto.
  simpl in Hp. rewrite Hes in Hp. rewrite firstn_length in Hp. simpl length in Hp.
  assert (Hk : (5 <= k)%nat -> Nat.min k 5 = 5%nat) by lia.
  destruct (Nat.min k 5) as [|[|[|[|[|m]]]]] eqn:Em; simpl in Hp; unfold old_or in Hp.
  - destruct Hp as [A [B C]]. split; [|split].
    + destruct C as [C|[C|[C _]]]; [auto|auto|discriminate].
    + left. apply A.
    + intro H5. specialize (Hk H5). discriminate.
  - destruct Hp as [A [B [C D]]]. split; [|split].
    + destruct D as [D|[D|[D _]]]; [auto|auto|discriminate].
    + left. exact B.
    + intro H5. specialize (Hk H5). discriminate.
  - destruct Hp as [A [B [C D]]]. split; [|split].
    + destruct D as [D|[D|[D _]]]; [auto|auto|discriminate].
    + left. exact B.
    + intro H5. specialize (Hk H5). discriminate.
  - destruct Hp as [A [B [C [D E]]]]. split; [|split].
    + destruct E as [E|[E|[E _]]]; [auto|auto|discriminate].
    + left. exact B.
    + intro H5. specialize (Hk H5). discriminate.
  - destruct Hp as [A [B [C D]]]. split; [|split].
    + destruct D as [D|[D|[_ D]]]; auto.
    + right. auto.
    + intro H5. specialize (Hk H5). discriminate.
  - destruct Hp as [A [B [C D]]]. split; [|split]; auto.
Qed.
End Publish.
