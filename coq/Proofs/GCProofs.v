(* Proofs/GCProofs.v -- safety of the collector model (Model/GC.v) for EVERY fault oracle. *)
From Coq Require Import ZArith String Ascii List Bool Arith Lia.
Require Import DS.Model.PyStr DS.Gen.GenNorm DS.Model.GC DS.Proofs.PyStrProofs DS.Proofs.GCNormProofs.
Import ListNotations.
Open Scope string_scope.
Open Scope Z_scope.

(* ------------------------------------------------------------------ stores *)
Definition store_le (a b : store) : Prop := forall k ob, lookup k a = Some ob -> lookup k b = Some ob.

Lemma store_le_refl : forall a, store_le a a.
Proof. intros a k ob H. exact H. Qed.

Lemma store_le_trans : forall a b c, store_le a b -> store_le b c -> store_le a c.
Proof. intros a b c H1 H2 k ob H. apply H2, H1, H. Qed.

Lemma store_le_none : forall a b k, store_le a b -> lookup k b = None -> lookup k a = None.
Proof. intros a b k H Hn. destruct (lookup k a) eqn:E; [|reflexivity]. apply H in E. congruence. Qed.

Lemma lookup_remove_same : forall k st, lookup k (remove_key k st) = None.
Proof.
  intros k st. induction st as [|[k' o] r IH]; simpl; [reflexivity|].
  destruct (String.eqb k k') eqn:E; simpl; [exact IH|]. rewrite E. exact IH.
Qed.

Lemma lookup_remove_other : forall k k' st, k <> k' -> lookup k (remove_key k' st) = lookup k st.
Proof.
  intros k k' st N. induction st as [|[k2 o] r IH]; simpl; [reflexivity|].
  destruct (String.eqb k' k2) eqn:E; simpl.
  - apply String.eqb_eq in E. subst k2. destruct (String.eqb k k') eqn:E2; [apply String.eqb_eq in E2; contradiction|exact IH].
  - destruct (String.eqb k k2); [reflexivity|exact IH].
Qed.

Lemma store_le_remove : forall k st, store_le (remove_key k st) st.
Proof.
  intros k st k2 ob H. destruct (string_dec k2 k) as [->|N].
  - rewrite lookup_remove_same in H. discriminate.
  - rewrite lookup_remove_other in H by exact N. exact H.
Qed.

Lemma lookup_In_keys : forall k st ob, lookup k st = Some ob -> In k (map fst st).
Proof.
  intros k st ob. induction st as [|[k' o] r IH]; simpl; [discriminate|].
  destruct (String.eqb k k') eqn:E; intro H.
  - left. apply String.eqb_eq in E. auto.
  - right. apply IH. exact H.
Qed.

Lemma In_keys_lookup : forall k st, In k (map fst st) -> exists ob, lookup k st = Some ob.
Proof.
  intros k st. induction st as [|[k' o] r IH]; simpl; [contradiction|].
  intros [H|H].
  - subst. rewrite string_eqb_refl. eauto.
  - destruct (String.eqb k k'); eauto.
Qed.

Lemma in_list_dir : forall p st k, In k (list_dir p st) <-> In k (map fst st) /\ startswith (p ++ "/") k = true.
Proof. intros. unfold list_dir. rewrite filter_In. tauto. Qed.

(* ------------------------------------------------------------------ primitives *)
Ltac prim_unfold := unfold do_exists, do_listdir, do_stat, do_delete, do_read, do_open, tick in *; cbn [fst snd] in *.

Lemma do_exists_store : forall o g k r g', do_exists o g k = (r, g') -> g_store g' = g_store g.
Proof. intros o g k r g' H. prim_unfold. destruct (o (g_calls g)) as [[| |]|]; inversion H; reflexivity. Qed.

Lemma do_exists_true : forall o g k g', do_exists o g k = (Some true, g') -> exists ob, lookup k (g_store g) = Some ob.
Proof.
  intros o g k g' H. prim_unfold. destruct (o (g_calls g)) as [[| |]|]; inversion H.
  destruct (lookup k (g_store g)); [eauto|discriminate].
Qed.

Lemma do_open_store : forall o g k r g', do_open o g k = (r, g') -> g_store g' = g_store g.
Proof. intros o g k r g' H. prim_unfold. destruct (o (g_calls g)) as [[| |]|]; inversion H; reflexivity. Qed.

Lemma do_read_store : forall o g k r g', do_read o g k = (r, g') -> g_store g' = g_store g.
Proof. intros o g k r g' H. prim_unfold. destruct (o (g_calls g)) as [[| |]|]; inversion H; reflexivity. Qed.

Lemma do_stat_store : forall o g k r g', do_stat o g k = (r, g') -> g_store g' = g_store g.
Proof. intros o g k r g' H. prim_unfold. destruct (o (g_calls g)) as [[| |]|]; inversion H; reflexivity. Qed.

Lemma do_listdir_store : forall o g p r g', do_listdir o g p = (r, g') -> g_store g' = g_store g.
Proof. intros o g p r g' H. prim_unfold. destruct (o (g_calls g)) as [[| |]|]; inversion H; reflexivity. Qed.

Lemma do_open_some : forall o g k c g', do_open o g k = (OContent c, g') ->
  c = CGarbage \/ exists ob, lookup k (g_store g) = Some ob /\ body ob = c.
Proof.
  intros o g k c g' H. prim_unfold. destruct (o (g_calls g)) as [[| |]|]; inversion H; auto.
  destruct (lookup k (g_store g)) as [ob|]; simpl in *; [|discriminate]. right. exists ob. split; congruence.
Qed.

Lemma do_read_some : forall o g k c g', do_read o g k = (Some c, g') ->
  c = CGarbage \/ exists ob, lookup k (g_store g) = Some ob /\ body ob = c.
Proof.
  intros o g k c g' H. prim_unfold. destruct (o (g_calls g)) as [[| |]|]; inversion H; auto.
  destruct (lookup k (g_store g)) as [ob|]; simpl in *; [|discriminate]. right. exists ob. split; congruence.
Qed.

Lemma do_stat_some : forall o g k t g', do_stat o g k = (Some t, g') ->
  exists ob, lookup k (g_store g) = Some ob /\ mtime ob = t.
Proof.
  intros o g k t g' H. prim_unfold. destruct (o (g_calls g)) as [[| |]|]; inversion H.
  destruct (lookup k (g_store g)) as [ob|]; simpl in *; [|discriminate]. exists ob. split; congruence.
Qed.

Lemma do_delete_none : forall o g k g', do_delete o g k = (None, g') -> g_store g' = g_store g.
Proof. intros o g k g' H. prim_unfold. destruct (o (g_calls g)) as [[| |]|]; inversion H; reflexivity. Qed.

Lemma do_delete_some : forall o g k u g', do_delete o g k = (Some u, g') -> g_store g' = remove_key k (g_store g).
Proof. intros o g k u g' H. prim_unfold. destruct (o (g_calls g)) as [[| |]|]; inversion H; reflexivity. Qed.

Lemma do_listdir_some : forall o g p ks g', do_listdir o g p = (Some ks, g') ->
  forall k, In k ks -> In k (list_dir p (g_store g)) \/ k = "../x".
Proof.
  intros o g p ks g' H k Hk. prim_unfold. destruct (o (g_calls g)) as [[| |]|]; inversion H; subst; auto.
  apply in_app_or in Hk. destruct Hk as [Hk|[Hk|[]]]; auto.
Qed.

Lemma do_listdir_nofault_or_bad : forall o g p ks g', do_listdir o g p = (Some ks, g') ->
  forall k, In k (list_dir p (g_store g)) -> In k ks.
Proof.
  intros o g p ks g' H k Hk. prim_unfold. destruct (o (g_calls g)) as [[| |]|]; inversion H; subst; auto.
  apply in_or_app. auto.
Qed.

(* ------------------------------------------------------------------ reading lists / manifests *)
Definition holds (w : want) (st : store) (k : key) (xs : list string) : Prop :=
  match w with WList => list_at st k xs | WManifest => manifest_at st k xs end.

Definition as_w (w : want) : content -> option (list string) := match w with WList => as_list | WManifest => as_manifest end.

Lemma avro_parse_ok : forall w c xs, avro_parse w c = AvOk xs -> as_w w c = Some xs.
Proof. intros w c xs H. destruct w, c as [|[|] ?|[|] ?|?| | | |? [|]]; simpl in H; inversion H; reflexivity. Qed.

Lemma json_parse_ok : forall w c xs, json_parse w c = Some xs -> as_w w c = Some xs.
Proof.
  intros w c xs H. destruct w, c as [|[|] ?|[|] ?|?| | | |? [|]]; simpl in H;
    try rewrite list_json_section_required in H; try rewrite manifest_json_section_required in H; inversion H; reflexivity.
Qed.

Lemma holds_intro : forall w st k ob xs, lookup k st = Some ob -> as_w w (body ob) = Some xs -> holds w st k xs.
Proof. intros w st k ob xs H1 H2. destruct w; exists ob; auto. Qed.

Lemma read_fallback_sound : forall w o g k xs g', read_fallback w o g k = (Some xs, g') ->
  holds w (g_store g) k xs /\ g_store g' = g_store g.
Proof.
  intros w o g k xs g' H. unfold read_fallback in H. destruct (do_read o g k) as [[c|] g1] eqn:E; [|discriminate].
  inversion H; subst. split; [|eapply do_read_store; eauto].
  apply do_read_some in E. destruct E as [->|[ob [E1 E2]]].
  - destruct w; discriminate.
  - subst c. eapply holds_intro; eauto. apply json_parse_ok. assumption.
Qed.

Lemma read_one_sound : forall w o g k xs g', read_one w o g k = (Some xs, g') ->
  holds w (g_store g) k xs /\ g_store g' = g_store g.
Proof.
  intros w o g k xs g' H. unfold read_one in H.
  destruct (do_exists o g k) as [[[|]|] g1] eqn:E1; try discriminate.
  destruct (do_exists o g1 k) as [[[|]|] g2] eqn:E2; try discriminate.
  pose proof (do_exists_store _ _ _ _ _ E1) as S1. pose proof (do_exists_store _ _ _ _ _ E2) as S2.
  destruct (do_open o g2 k) as [[| |c] g3] eqn:E3.
  3:{ pose proof (do_open_store _ _ _ _ _ E3) as S3.
    destruct (avro_parse w c) as [ys| |] eqn:EA; try discriminate.
    + inversion H; subst. split; [|congruence].
      apply do_open_some in E3. destruct E3 as [->|[ob [L B]]].
      * destruct w; discriminate.
      * subst c. rewrite S2, S1 in L. eapply holds_intro; eauto. apply avro_parse_ok. assumption.
    + apply read_fallback_sound in H. destruct H as [H1 H2]. rewrite S3, S2, S1 in *. auto. }
  - pose proof (do_open_store _ _ _ _ _ E3) as S3.
    apply read_fallback_sound in H. destruct H as [H1 H2]. rewrite S3, S2, S1 in *. auto.
  - discriminate.
Qed.

Lemma read_one_store : forall w o g k r g', read_one w o g k = (r, g') -> g_store g' = g_store g.
Proof.
  intros w o g k r g' H. unfold read_one, read_fallback in H.
  repeat match type of H with
  | context [do_exists ?o ?g ?k] => let E := fresh "E" in destruct (do_exists o g k) as [[[|]|] ?] eqn:E; apply do_exists_store in E
  | context [do_open ?o ?g ?k] => let E := fresh "E" in destruct (do_open o g k) as [[| |?] ?] eqn:E; apply do_open_store in E
  | context [do_read ?o ?g ?k] => let E := fresh "E" in destruct (do_read o g k) as [[?|] ?] eqn:E; apply do_read_store in E
  | context [avro_parse ?w ?c] => destruct (avro_parse w c)
  end; inversion H; subst; congruence.
Qed.

Lemma read_all_store : forall w o ks g r g', read_all w o g ks = (r, g') -> g_store g' = g_store g.
Proof.
  intros w o ks. induction ks as [|k ks IH]; intros g r g' H; simpl in H.
  - inversion H; reflexivity.
  - destruct (read_one w o g k) as [[xs|] g1] eqn:E1.
    + apply read_one_store in E1. destruct (read_all w o g1 ks) as [[ys|] g2] eqn:E2; apply IH in E2; inversion H; subst; congruence.
    + apply read_one_store in E1. inversion H; subst; congruence.
Qed.

(* success means: every key was read, and what was read is what the store holds *)
Lemma read_all_sound : forall w o ks g ys g', read_all w o g ks = (Some ys, g') ->
  (forall k, In k ks -> exists xs, holds w (g_store g) k xs /\ incl xs ys) /\
  (forall y, In y ys -> exists k xs, In k ks /\ holds w (g_store g) k xs /\ In y xs).
Proof.
  intros w o ks. induction ks as [|k ks IH]; intros g ys g' H; simpl in H.
  - inversion H; subst. split; [intros k []|intros y []].
  - destruct (read_one w o g k) as [[xs|] g1] eqn:E1; [|discriminate].
    destruct (read_all w o g1 ks) as [[zs|] g2] eqn:E2; [|discriminate].
    inversion H; subst. apply read_one_sound in E1. destruct E1 as [H1 S1]. apply IH in E2. rewrite S1 in E2.
    destruct E2 as [A B]. split.
    + intros k2 [<-|Hk].
      * exists xs. split; [exact H1|apply incl_appl, incl_refl].
      * destruct (A k2 Hk) as [xs2 [P Q]]. exists xs2. split; [exact P|apply incl_appr, Q].
    + intros y Hy. apply in_app_or in Hy. destruct Hy as [Hy|Hy].
      * exists k, xs. auto with datatypes.
      * destruct (B y Hy) as [k2 [xs2 [P [Q R]]]]. exists k2, xs2. auto with datatypes.
Qed.

Lemma holds_fun : forall w st k xs ys, holds w st k xs -> holds w st k ys -> xs = ys.
Proof.
  intros w st k xs ys H1 H2. destruct w; destruct H1 as [o1 [L1 B1]], H2 as [o2 [L2 B2]]; congruence.
Qed.

Lemma in_norm_set : forall tp ps r, In r ps -> nonempty r = true -> In (normalize_path tp r) (norm_set tp ps).
Proof.
  intros tp ps r H1 H2. unfold norm_set. apply nodup_In. apply in_map. apply filter_In. auto.
Qed.

Lemma norm_set_inv : forall tp ps k, In k (norm_set tp ps) -> exists r, In r ps /\ nonempty r = true /\ k = normalize_path tp r.
Proof.
  intros tp ps k H. unfold norm_set in H. apply nodup_In in H. apply in_map_iff in H. destruct H as [r [E H]].
  apply filter_In in H. exists r. intuition.
Qed.

(* ------------------------------------------------------------------ reachability is complete and exact *)
Section Reach.
Variables (tp : string) (snaps : list string) (st : store).
Hypothesis WF : wf_store snaps st.

Lemma meta_ref_meta : forall r, wf_meta_ref r -> startswith "metadata/" (resolve r) = true.
Proof. intros r H. unfold wf_meta_ref in H. change "metadata/manifests/" with ("metadata/" ++ "manifests/") in H. eapply startswith_trans_app; exact H. Qed.
Lemma meta_ref_wf : forall r, wf_meta_ref r -> wf_ref r.
Proof. intros r H. right. apply meta_ref_meta. exact H. Qed.
Lemma data_ref_wf : forall r, wf_data_ref r -> wf_ref r.
Proof. intros r H. left. exact H. Qed.

Lemma lists_complete : forall k, ref_list snaps k -> In k (norm_set tp snaps).
Proof.
  intros k [l [H1 [H2 ->]]]. rewrite <- (norm_wf_ref tp l).
  - apply in_norm_set; assumption.
  - apply meta_ref_wf. eapply wf_snaps; eauto.
Qed.

Lemma lists_exact : forall k, In k (norm_set tp snaps) -> ref_list snaps k.
Proof.
  intros k H. apply norm_set_inv in H. destruct H as [l [H1 [H2 ->]]]. exists l. repeat split; auto.
  apply norm_wf_ref. apply meta_ref_wf. eapply wf_snaps; eauto.
Qed.

Variables (o : oracle) (g g1 : gst) (mpaths : list string).
Hypothesis Hg : g_store g = st.
Hypothesis RL : read_all WList o g (norm_set tp snaps) = (Some mpaths, g1).

Lemma manifests_complete : forall k, ref_manifest snaps st k -> In k (norm_set tp mpaths).
Proof.
  intros k [l [ms [m [H1 [H2 [H3 [H4 [H5 ->]]]]]]]].
  destruct (read_all_sound _ _ _ _ _ _ RL) as [A _]. rewrite Hg in A.
  destruct (A (resolve l)) as [xs [P Q]].
  { apply lists_complete. exists l. auto. }
  assert (xs = ms) by (eapply (holds_fun WList); eauto). subst xs.
  rewrite <- (norm_wf_ref tp m).
  - apply in_norm_set; auto.
  - apply meta_ref_wf. destruct H3 as [ob [L B]]. eapply wf_lists; eauto.
Qed.

Lemma manifests_exact : forall k, In k (norm_set tp mpaths) -> ref_manifest snaps st k.
Proof.
  intros k H. apply norm_set_inv in H. destruct H as [m [H1 [H2 ->]]].
  destruct (read_all_sound _ _ _ _ _ _ RL) as [_ B]. rewrite Hg in B.
  destruct (B m H1) as [kl [xs [P [Q R]]]]. apply lists_exact in P. destruct P as [l [P1 [P2 ->]]].
  exists l, xs, m. repeat split; auto.
  apply norm_wf_ref. apply meta_ref_wf. destruct Q as [ob [L Bd]]. eapply wf_lists; eauto.
Qed.

Variables (g2 : gst) (entries : list string).
Hypothesis RM : read_all WManifest o g1 (norm_set tp mpaths) = (Some entries, g2).

Lemma g1_store : g_store g1 = st.
Proof. rewrite (read_all_store _ _ _ _ _ _ RL). exact Hg. Qed.

Lemma g2_store : g_store g2 = st.
Proof. rewrite (read_all_store _ _ _ _ _ _ RM). exact g1_store. Qed.

Lemma data_complete : forall k, ref_data snaps st k -> In k (map (normalize_path tp) entries).
Proof.
  intros k [l [ms [m [es [e [H1 [H2 [H3 [H4 [H5 [H6 [H7 ->]]]]]]]]]]]].
  destruct (read_all_sound _ _ _ _ _ _ RM) as [A _]. rewrite g1_store in A.
  destruct (A (resolve m)) as [xs [P Q]].
  { apply manifests_complete. exists l, ms, m. auto 10. }
  assert (xs = es) by (eapply (holds_fun WManifest); eauto). subst xs.
  rewrite <- (norm_wf_ref tp e).
  - apply in_map. auto.
  - apply data_ref_wf. destruct H6 as [ob [L B]]. eapply wf_manifests; eauto.
Qed.

Lemma data_exact : forall k, In k (map (normalize_path tp) entries) -> ref_data snaps st k.
Proof.
  intros k H. apply in_map_iff in H. destruct H as [e [<- H1]].
  destruct (read_all_sound _ _ _ _ _ _ RM) as [_ B]. rewrite g1_store in B.
  destruct (B e H1) as [km [xs [P [Q R]]]]. apply manifests_exact in P.
  destruct P as [l [ms [m [P1 [P2 [P3 [P4 [P5 ->]]]]]]]].
  exists l, ms, m, xs, e. repeat split; auto.
  apply norm_wf_ref. apply data_ref_wf. destruct Q as [ob [L Bd]]. eapply wf_manifests; eauto.
Qed.

(* referenced keys by class, and where they live *)
Lemma ref_list_meta : forall k, ref_list snaps k -> startswith "metadata/" k = true.
Proof. intros k [l [H1 [H2 ->]]]. apply meta_ref_meta. eapply wf_snaps; eauto. Qed.
Lemma ref_manifest_meta : forall k, ref_manifest snaps st k -> startswith "metadata/" k = true.
Proof. intros k [l [ms [m [H1 [H2 [[ob [L B]] [H4 [H5 ->]]]]]]]]. apply meta_ref_meta. eapply wf_lists; eauto. Qed.
Lemma ref_data_data : forall k, ref_data snaps st k -> startswith "data/" k = true.
Proof. intros k [l [ms [m [es [e [H1 [H2 [H3 [H4 [H5 [[ob [L B]] [H7 ->]]]]]]]]]]]]. eapply wf_manifests; eauto. Qed.
End Reach.

Lemma data_meta_disjoint : forall k, startswith "data/" k = true -> startswith "metadata/" k = true -> False.
Proof.
  intros k H1 H2. apply startswith_spec in H1. destruct H1 as [r ->]. discriminate.
Qed.

Ltac split4 := split; [|split; [|split]].

(* ------------------------------------------------------------------ in-flight protection *)
Definition markers_wf (st : store) : Prop :=
  forall mk ob t, lookup mk st = Some ob -> is_marker_key mk -> body ob = CMarker (Some t) -> nonempty t = true ->
                  In (resolve t) (name_candidates mk).

Lemma markers_wf_le : forall a b, store_le a b -> markers_wf b -> markers_wf a.
Proof. intros a b L H mk ob t H1. apply L in H1. eapply H; eauto. Qed.

Lemma marker_denotes_relative : forall st mk ob k, markers_wf st -> lookup mk st = Some ob -> is_marker_key mk ->
  marker_denotes mk ob k -> table_relative k.
Proof.
  intros st mk ob k W L M D. unfold marker_denotes in D. destruct (body ob) as [| | |[t|]| | | |? ?] eqn:B;
    try (eapply name_candidates_relative; eauto; fail).
  destruct (nonempty t) eqn:N; [|eapply name_candidates_relative; eauto].
  subst k. eapply name_candidates_relative. eapply W; eauto.
Qed.

(* whatever the read of the payload does, the targets cover everything the marker denotes *)
Lemma marker_targets_cover : forall tp o g mk ob T g',
  markers_wf (g_store g) -> lookup mk (g_store g) = Some ob -> is_marker_key mk ->
  marker_targets tp o g mk (basename mk) = (T, g') ->
  g_store g' = g_store g /\ forall k, marker_denotes mk ob k -> In k T.
Proof.
  intros tp o g mk ob T g' W L M H. unfold marker_targets in H.
  destruct (do_read o g mk) as [[c|] g1] eqn:E.
  - pose proof (do_read_store _ _ _ _ _ E) as S. apply do_read_some in E.
    assert (FB: forall k, marker_denotes mk ob k -> In k (marker_fallback mk (basename mk))).
    { intros k D. rewrite marker_fallback_covers. unfold marker_denotes in D.
      destruct (body ob) as [| | |[t|]| | | |? ?] eqn:B; auto. destruct (nonempty t) eqn:N; auto. subst k. eapply W; eauto. }
    destruct E as [->|[ob' [L' B']]].
    + inversion H; subst. auto.
    + rewrite L in L'. inversion L'; subst ob'. subst c.
      destruct (body ob) as [| | |[t|]| | | |? ?] eqn:B; try (inversion H; subst; auto; fail).
      destruct (nonempty t) eqn:N; inversion H; subst; auto. split; [exact S|].
      intros k D. unfold marker_denotes in D. rewrite B, N in D. subst k. left.
      apply norm_wf_ref. unfold wf_ref. eapply name_candidates_relative. eapply W; eauto.
  - pose proof (do_read_store _ _ _ _ _ E) as S. inversion H; subst. split; [exact S|].
    intros k D. rewrite marker_fallback_covers. unfold marker_denotes in D.
    destruct (body ob) as [| | |[t|]| | | |? ?] eqn:B; auto. destruct (nonempty t) eqn:N; auto. subst k. eapply W; eauto.
Qed.

Lemma marker_targets_store : forall tp o g nm bn T g', marker_targets tp o g nm bn = (T, g') -> g_store g' = g_store g.
Proof.
  intros tp o g nm bn T g' H. unfold marker_targets in H.
  destruct (do_read o g nm) as [[c|] g1] eqn:E; apply do_read_store in E.
  - destruct c as [| | |[t|]| | | |? ?]; try (inversion H; subst; exact E). destruct (nonempty t); inversion H; subst; exact E.
  - inversion H; subst; exact E.
Qed.

Lemma markers_loop_spec : forall tp cutoff o ms g prot prot' g',
  markers_loop tp cutoff o g ms prot = (prot', g') ->
  markers_wf (g_store g) ->
  incl prot prot'
  /\ store_le (g_store g') (g_store g)
  (* a marker that is still there afterwards protects everything it denotes *)
  /\ (forall mk ob, In mk ms -> table_relative mk -> lookup mk (g_store g) = Some ob -> is_marker_key mk ->
        lookup mk (g_store g') = None \/ forall k, marker_denotes mk ob k -> In k prot')
  (* only abandoned markers are removed *)
  /\ (forall k ob, lookup k (g_store g) = Some ob -> lookup k (g_store g') = None ->
        mtime ob < cutoff /\ endswith INFLIGHT_SUFFIX (basename k) = true).
Proof.
  intros tp cutoff o ms. induction ms as [|mp r IH]; intros g prot prot' g' H W.
  - simpl in H. inversion H; subst. split4.
    + apply incl_refl.
    + apply store_le_refl.
    + intros mk ob [].
    + intros k ob H1 H2. congruence.
  - simpl in H.
    destruct (do_stat o g (normalize_path tp mp)) as [st_ g1] eqn:ES.
    pose proof (do_stat_store _ _ _ _ _ ES) as S1.
    destruct (negb (endswith INFLIGHT_SUFFIX (basename (normalize_path tp mp)))) eqn:EE.
    { (* not a marker name: skipped *)
      assert (W1: markers_wf (g_store g1)) by (rewrite S1; exact W).
      destruct (IH _ _ _ _ H W1) as [I1 [I2 [I3 I4]]]. rewrite S1 in *. split4; auto.
      intros mk ob [<-|Hin] TR L M; [|eauto].
      exfalso. rewrite norm_table_relative in EE by exact TR. destruct M as [_ M]. rewrite M in EE. discriminate. }
    apply negb_false_iff in EE.
    destruct (marker_targets tp o g1 (normalize_path tp mp) (basename (normalize_path tp mp))) as [T g2] eqn:ET.
    pose proof (marker_targets_store _ _ _ _ _ _ _ ET) as S2.
    assert (HEAD: forall ob, table_relative mp -> lookup mp (g_store g) = Some ob -> is_marker_key mp ->
                  forall k, marker_denotes mp ob k -> In k T).
    { intros ob TR L M. rewrite norm_table_relative in ET by exact TR.
      eapply marker_targets_cover in ET; eauto; try (rewrite S1; eauto). destruct ET as [_ ET]. exact ET. }
    set (age_ok := match st_ with Some t => cutoff <=? t | None => true end) in H.
    destruct age_ok eqn:EA.
    { (* fresh (or un-stat-able): protected *)
      assert (W2: markers_wf (g_store g2)) by (rewrite S2, S1; exact W).
      destruct (IH _ _ _ _ H W2) as [I1 [I2 [I3 I4]]]. rewrite S2, S1 in *. split4; auto.
      - eapply incl_tran; [|exact I1]. apply incl_appr, incl_refl.
      - intros mk ob [<-|Hin] TR L M; [|eauto]. right. intros k D. apply I1. apply in_or_app. left. eapply HEAD; eauto. }
    destruct (do_delete o g2 (normalize_path tp mp)) as [[u|] g3] eqn:ED.
    + (* abandoned marker removed *)
      pose proof (do_delete_some _ _ _ _ _ ED) as S3. rewrite S2, S1 in S3.
      assert (L3: store_le (g_store g3) (g_store g)) by (rewrite S3; apply store_le_remove).
      assert (W3: markers_wf (g_store g3)) by (eapply markers_wf_le; eauto).
      destruct (IH _ _ _ _ H W3) as [I1 [I2 [I3 I4]]]. split4; auto.
      * eapply store_le_trans; eauto.
      * intros mk ob [<-|Hin] TR L M.
        -- left. eapply store_le_none; [exact I2|]. rewrite S3. rewrite norm_table_relative by exact TR. apply lookup_remove_same.
        -- destruct (lookup mk (g_store g3)) as [ob3|] eqn:L3'.
           ++ assert (ob3 = ob) by (apply L3 in L3'; congruence). subst ob3. eauto.
           ++ left. eapply store_le_none; eauto.
      * intros k ob L N. destruct (lookup k (g_store g3)) as [ob3|] eqn:L3'.
        -- assert (ob3 = ob) by (apply L3 in L3'; congruence). subst ob3. eauto.
        -- (* removed right here: it is the abandoned marker *)
           destruct (string_dec k (normalize_path tp mp)) as [->|NE].
           ++ split; [|exact EE]. subst age_ok. destruct st_ as [t|]; [|discriminate].
              apply do_stat_some in ES. destruct ES as [ob' [L' <-]]. rewrite L in L'. inversion L'; subst ob'.
              apply Z.leb_gt in EA. exact EA.
           ++ rewrite S3, lookup_remove_other in L3' by exact NE. congruence.
    + (* delete failed: keep protecting *)
      pose proof (do_delete_none _ _ _ _ ED) as S3.
      assert (W3: markers_wf (g_store g3)) by (rewrite S3, S2, S1; exact W).
      destruct (IH _ _ _ _ H W3) as [I1 [I2 [I3 I4]]]. rewrite S3, S2, S1 in *. split4; auto.
      * eapply incl_tran; [|exact I1]. apply incl_appr, incl_refl.
      * intros mk ob [<-|Hin] TR L M; [|eauto]. right. intros k D. apply I1. apply in_or_app. left. eapply HEAD; eauto.
Qed.

(* the extra "../x" entry of a corrupted marker listing is never taken for a marker, whatever the table location *)
Lemma dotdot_suffixes : forall n, endswith INFLIGHT_SUFFIX (basename (lstrip_c "/"%char (py_drop n "../x"))) = false.
Proof. intro n. do 5 (destruct n as [|n]; [reflexivity|]). reflexivity. Qed.

Lemma norm_dotdot_not_marker : forall tp, endswith INFLIGHT_SUFFIX (basename (normalize_path tp "../x")) = false.
Proof.
  intro tp. unfold normalize_path. cbv zeta.
  change (lstrip_c "/"%char "../x") with "../x".
  change (startswith "data/" "../x" || startswith "metadata/" "../x") with false. cbv iota.
  match goal with |- context [if ?c then _ else _] => destruct c end.
  - apply dotdot_suffixes.
  - reflexivity.
Qed.

Lemma markers_loop_removed : forall tp cutoff o ms g prot prot' g',
  markers_loop tp cutoff o g ms prot = (prot', g') ->
  (forall mp, In mp ms -> startswith (INFLIGHT_PATH ++ "/") mp = true \/ mp = "../x") ->
  forall k ob, lookup k (g_store g) = Some ob -> lookup k (g_store g') = None -> startswith (INFLIGHT_PATH ++ "/") k = true.
Proof.
  intros tp cutoff o ms. induction ms as [|mp r IH]; intros g prot prot' g' H HM k ob L N.
  - simpl in H. inversion H; subst. congruence.
  - simpl in H.
    assert (HM': forall mp0, In mp0 r -> startswith (INFLIGHT_PATH ++ "/") mp0 = true \/ mp0 = "../x") by (intros; apply HM; right; assumption).
    destruct (do_stat o g (normalize_path tp mp)) as [st_ g1] eqn:ES. pose proof (do_stat_store _ _ _ _ _ ES) as S1.
    destruct (negb (endswith INFLIGHT_SUFFIX (basename (normalize_path tp mp)))) eqn:EE.
    { eapply IH; eauto. rewrite S1. exact L. }
    apply negb_false_iff in EE.
    destruct (marker_targets tp o g1 (normalize_path tp mp) (basename (normalize_path tp mp))) as [T g2] eqn:ET.
    pose proof (marker_targets_store _ _ _ _ _ _ _ ET) as S2.
    destruct (match st_ with Some t => cutoff <=? t | None => true end).
    { eapply IH; eauto. rewrite S2, S1. exact L. }
    destruct (do_delete o g2 (normalize_path tp mp)) as [[u|] g3] eqn:ED.
    + pose proof (do_delete_some _ _ _ _ _ ED) as S3. rewrite S2, S1 in S3.
      destruct (string_dec k (normalize_path tp mp)) as [->|NE].
      * destruct (HM mp (or_introl eq_refl)) as [Hp| ->].
        -- rewrite norm_table_relative by (apply listed_inflight_relative; exact Hp). exact Hp.
        -- rewrite norm_dotdot_not_marker in EE. discriminate.
      * eapply IH; eauto. rewrite S3, lookup_remove_other by exact NE. exact L.
    + pose proof (do_delete_none _ _ _ _ ED) as S3. eapply IH; eauto. rewrite S3, S2, S1. exact L.
Qed.

(* ------------------------------------------------------------------ sweep *)
Lemma sweep_loop_spec : forall tp cutoff keep o ks g dels b dels' g',
  sweep_loop tp cutoff keep o g ks dels = (b, dels', g') ->
  store_le (g_store g') (g_store g)
  /\ (forall k, In k dels' -> In k dels \/
        (In k ks /\ str_mem (normalize_path tp k) keep = false /\ escapes (normalize_path tp k) = false
         /\ exists ob, lookup k (g_store g) = Some ob /\ mtime ob < cutoff))
  /\ (forall k ob, lookup k (g_store g) = Some ob -> lookup k (g_store g') = None -> In k dels' /\ In k ks)
  /\ incl dels dels'.
Proof.
  intros tp cutoff keep o ks. induction ks as [|k r IH]; intros g dels b dels' g' H.
  - simpl in H. inversion H; subst. split4; auto using store_le_refl, incl_refl. intros; congruence.
  - simpl in H. destruct (escapes (normalize_path tp k)) eqn:EX.
    { inversion H; subst. split4; auto using store_le_refl, incl_refl. intros; congruence. }
    destruct (str_mem (normalize_path tp k) keep) eqn:EK.
    { destruct (IH _ _ _ _ _ H) as [I1 [I2 [I3 I4]]]. split4; auto.
      - intros k2 Hk. destruct (I2 k2 Hk) as [?|[? ?]]; auto with datatypes.
      - intros k2 ob L N. destruct (I3 k2 ob L N); auto with datatypes. }
    destruct (do_stat o g k) as [[t|] g1] eqn:ES; pose proof (do_stat_store _ _ _ _ _ ES) as S1.
    2:{ destruct (IH _ _ _ _ _ H) as [I1 [I2 [I3 I4]]]. rewrite S1 in *. split4; auto.
        - intros k2 Hk. destruct (I2 k2 Hk) as [?|[? ?]]; auto with datatypes.
        - intros k2 ob L N. destruct (I3 k2 ob L N); auto with datatypes. }
    destruct (t <? cutoff) eqn:EO.
    2:{ destruct (IH _ _ _ _ _ H) as [I1 [I2 [I3 I4]]]. rewrite S1 in *. split4; auto.
        - intros k2 Hk. destruct (I2 k2 Hk) as [?|[? ?]]; auto with datatypes.
        - intros k2 ob L N. destruct (I3 k2 ob L N); auto with datatypes. }
    destruct (do_delete o g1 k) as [[u|] g2] eqn:ED.
    + pose proof (do_delete_some _ _ _ _ _ ED) as S2. rewrite S1 in S2.
      assert (L2: store_le (g_store g2) (g_store g)) by (rewrite S2; apply store_le_remove).
      destruct (IH _ _ _ _ _ H) as [I1 [I2 [I3 I4]]]. split4.
      * eapply store_le_trans; eauto.
      * intros k2 Hk. destruct (I2 k2 Hk) as [[<-|?]|[? [? [? [ob [L ?]]]]]]; auto.
        -- right. split; [left; reflexivity|]. split; [exact EK|]. split; [exact EX|].
           apply do_stat_some in ES. destruct ES as [ob [L <-]]. exists ob. split; [exact L|]. apply Z.ltb_lt. exact EO.
        -- right. split; [right; assumption|]. split; [assumption|]. split; [assumption|]. exists ob. split; [apply L2; exact L|assumption].
      * intros k2 ob L N. destruct (lookup k2 (g_store g2)) as [ob2|] eqn:L2'.
        -- assert (ob2 = ob) by (apply L2 in L2'; congruence). subst. destruct (I3 k2 ob L2' N); auto with datatypes.
        -- destruct (string_dec k2 k) as [->|NE].
           ++ split; [apply I4; left; reflexivity|left; reflexivity].
           ++ rewrite S2, lookup_remove_other in L2' by exact NE. congruence.
      * eapply incl_tran; [|exact I4]. apply incl_tl, incl_refl.
    + pose proof (do_delete_none _ _ _ _ ED) as S2.
      destruct (IH _ _ _ _ _ H) as [I1 [I2 [I3 I4]]]. rewrite S2, S1 in *. split4; auto.
      * intros k2 Hk. destruct (I2 k2 Hk) as [?|[? ?]]; auto with datatypes.
      * intros k2 ob L N. destruct (I3 k2 ob L N); auto with datatypes.
Qed.

Lemma sweep_spec : forall tp grace now keep o g prefix dels b dels' g',
  sweep tp grace now keep o g prefix dels = (b, dels', g') ->
  store_le (g_store g') (g_store g)
  /\ (forall k, In k dels' -> In k dels \/
        ((startswith (prefix ++ "/") k = true \/ k = "../x") /\ str_mem (normalize_path tp k) keep = false
         /\ exists ob, lookup k (g_store g) = Some ob /\ mtime ob < now - grace))
  /\ (forall k ob, lookup k (g_store g) = Some ob -> lookup k (g_store g') = None ->
        In k dels' /\ (startswith (prefix ++ "/") k = true \/ k = "../x"))
  /\ incl dels dels'.
Proof.
  intros tp grace now keep o g prefix dels b dels' g' H. unfold sweep in H.
  destruct (do_listdir o g prefix) as [[ks|] g1] eqn:EL; pose proof (do_listdir_store _ _ _ _ _ EL) as S1.
  - assert (LS: forall k, In k ks -> startswith (prefix ++ "/") k = true \/ k = "../x").
    { intros k Hk. destruct (do_listdir_some _ _ _ _ _ EL k Hk) as [Hd|Hd]; auto. apply in_list_dir in Hd. tauto. }
    apply sweep_loop_spec in H. rewrite S1 in H. destruct H as [I1 [I2 [I3 I4]]]. split4; auto.
    + intros k Hk. destruct (I2 k Hk) as [?|[Hin [Hm [_ Hob]]]]; auto.
    + intros k ob L N. destruct (I3 k ob L N). auto.
  - inversion H; subst. rewrite S1. split4; auto using store_le_refl, incl_refl. intros; congruence.
Qed.

Lemma marker_not_data : forall k, startswith (INFLIGHT_PATH ++ "/") k = true -> startswith (DATA_PREFIX ++ "/") k = false.
Proof. intros k H. apply startswith_spec in H. destruct H as [r ->]. reflexivity. Qed.
Lemma marker_not_manifests : forall k, startswith (INFLIGHT_PATH ++ "/") k = true -> startswith (MANIFESTS_PREFIX ++ "/") k = false.
Proof. intros k H. apply startswith_spec in H. destruct H as [r ->]. reflexivity. Qed.
Lemma marker_not_dotdot : forall k, startswith (INFLIGHT_PATH ++ "/") k = true -> k <> "../x".
Proof. intros k H ->. discriminate. Qed.

Lemma load_protection_spec : forall tp timeout now o g prot g',
  load_protection tp timeout now o g = (Some prot, g') ->
  markers_wf (g_store g) ->
  store_le (g_store g') (g_store g)
  /\ (forall mk ob, lookup mk (g_store g') = Some ob -> is_marker_key mk -> forall k, marker_denotes mk ob k -> In k prot)
  /\ (forall k ob, lookup k (g_store g) = Some ob -> lookup k (g_store g') = None ->
        mtime ob < now - timeout /\ is_marker_key k)
  /\ (forall k, live_target now timeout (g_store g) k -> In k prot).
Proof.
  intros tp timeout now o g prot g' H W. unfold load_protection in H.
  destruct (do_listdir o g INFLIGHT_PATH) as [[ms|] g1] eqn:EL; [|discriminate].
  pose proof (do_listdir_store _ _ _ _ _ EL) as S1.
  destruct (markers_loop tp (now - timeout) o g1 ms []) as [p g2] eqn:EM. inversion H; subst p g2. clear H.
  assert (RM: forall k ob, lookup k (g_store g) = Some ob -> lookup k (g_store g') = None -> startswith (INFLIGHT_PATH ++ "/") k = true).
  { intros k ob L N. eapply markers_loop_removed; eauto; [|rewrite S1; exact L].
    intros mp Hmp. destruct (do_listdir_some _ _ _ _ _ EL mp Hmp) as [Hd|Hd]; auto. apply in_list_dir in Hd. tauto. }
  apply markers_loop_spec in EM; [|rewrite S1; exact W]. rewrite S1 in EM. destruct EM as [I1 [I2 [I3 I4]]].
  assert (C: forall mk ob, lookup mk (g_store g') = Some ob -> is_marker_key mk -> forall k, marker_denotes mk ob k -> In k prot).
  { intros mk ob L M k D. pose proof (I2 _ _ L) as L0.
    destruct (I3 mk ob) as [N|P]; auto; try congruence.
    - eapply do_listdir_nofault_or_bad; eauto. apply in_list_dir. split; [eapply lookup_In_keys; eauto|apply M].
    - apply listed_inflight_relative. apply M. }
  split4; auto.
  { intros k ob L N. destruct (I4 k ob L N) as [A B]. split; [exact A|]. split; [eapply RM; eauto|exact B]. }
  intros k [mk [ob [L [M [F D]]]]].
  destruct (lookup mk (g_store g')) as [ob'|] eqn:L'.
  - assert (ob' = ob) by (apply I2 in L'; congruence). subst. eapply C; eauto.
  - destruct (I4 _ _ L L') as [Old _]. lia.
Qed.

(* ------------------------------------------------------------------ the collector is safe under every fault oracle *)
Definition aborted_before_sweep (r : result) : Prop :=
  r_out r = Aborted PhLists \/ r_out r = Aborted PhManifests \/ r_out r = Aborted PhMarkers.

Record gc_safe_spec (now grace timeout : Z) (snaps : list string) (st : store) (r : result) : Prop := {
  (* an abort while reachability / protection is being established happens before the first delete *)
  gs_abort_clean : aborted_before_sweep r -> r_deleted r = [];
  (* every deleted file is unreferenced, not registered by a live transaction, and older than the grace period *)
  gs_deleted : forall k, In k (r_deleted r) ->
      ~ referenced snaps st k /\ ~ live_target now timeout st k /\ exists ob, lookup k st = Some ob /\ mtime ob < now - grace;
  (* nothing else disappears, except markers older than the abandonment timeout *)
  gs_store : forall k ob, lookup k st = Some ob -> lookup k (g_store (r_final r)) = None ->
      In k (r_deleted r) \/ (mtime ob < now - timeout /\ is_marker_key k);
  gs_store_le : store_le (g_store (r_final r)) st;
  (* a marker that is still there after the run (fresh, or its stat / delete failed) protected everything it denotes *)
  gs_marker_keep : forall mk ob, lookup mk (g_store (r_final r)) = Some ob -> is_marker_key mk ->
      forall k, marker_denotes mk ob k -> ~ In k (r_deleted r)
}.

Lemma wf_store_markers : forall snaps st, wf_store snaps st -> markers_wf st.
Proof. intros snaps st W mk ob t. apply (wf_markers _ _ W). Qed.

(* ---- reachability phase, as a unit *)
Lemma reach_store : forall tp o snaps g res g', reach tp o snaps g = (res, g') -> g_store g' = g_store g.
Proof.
  intros tp o snaps g res g' H. unfold reach in H.
  destruct (read_all WList o g (norm_set tp snaps)) as [[mp|] g1] eqn:RL; pose proof (read_all_store _ _ _ _ _ _ RL) as S1.
  - destruct (read_all WManifest o g1 (norm_set tp mp)) as [[es|] g2] eqn:RM; pose proof (read_all_store _ _ _ _ _ _ RM) as S2;
      inversion H; subst; congruence.
  - inversion H; subst; congruence.
Qed.

Record reach_ok_spec (snaps : list string) (st : store) (rl rm rd : list key) : Prop := {
  rc_lists : forall k, ref_list snaps k -> In k rl;
  rc_manifests : forall k, ref_manifest snaps st k -> In k rm;
  rc_data : forall k, ref_data snaps st k -> In k rd;
  rx_lists : forall k, In k rl -> ref_list snaps k;
  rx_manifests : forall k, In k rm -> ref_manifest snaps st k;
  rx_data : forall k, In k rd -> ref_data snaps st k
}.

Lemma reach_ok : forall tp o snaps g rl rm rd g',
  wf_store snaps (g_store g) -> reach tp o snaps g = (ROk rl rm rd, g') -> reach_ok_spec snaps (g_store g) rl rm rd.
Proof.
  intros tp o snaps g rl rm rd g' WF H. unfold reach in H.
  destruct (read_all WList o g (norm_set tp snaps)) as [[mp|] g1] eqn:RL; [|discriminate].
  destruct (read_all WManifest o g1 (norm_set tp mp)) as [[es|] g2] eqn:RM; [|discriminate].
  inversion H; subst. constructor.
  - exact (lists_complete tp snaps (g_store g) WF).
  - exact (manifests_complete tp snaps (g_store g) WF o g g1 mp eq_refl RL).
  - exact (data_complete tp snaps (g_store g) WF o g g1 mp eq_refl RL g' es RM).
  - exact (lists_exact tp snaps (g_store g) WF).
  - exact (manifests_exact tp snaps (g_store g) WF o g g1 mp eq_refl RL).
  - exact (data_exact tp snaps (g_store g) WF o g g1 mp eq_refl RL g' es RM).
Qed.

(* ---- what the marker phase may have removed does not matter to reachability *)
Definition only_markers_removed (now timeout : Z) (st st1 : store) : Prop :=
  store_le st1 st /\ forall k ob, lookup k st = Some ob -> lookup k st1 = None -> mtime ob < now - timeout /\ is_marker_key k.

Lemma omr_refl : forall now timeout st, only_markers_removed now timeout st st.
Proof. intros. split; [apply store_le_refl|intros; congruence]. Qed.

Lemma marker_key_not_manifests : forall k, is_marker_key k -> startswith "metadata/manifests/" k = true -> False.
Proof. intros k [M _] H. pose proof (marker_not_manifests k M) as N. change (MANIFESTS_PREFIX ++ "/") with "metadata/manifests/" in N. congruence. Qed.

Lemma omr_keeps_meta : forall now timeout st st1 k ob, only_markers_removed now timeout st st1 ->
  lookup k st = Some ob -> startswith "metadata/manifests/" k = true -> lookup k st1 = Some ob.
Proof.
  intros now timeout st st1 k ob [LE RM] L H. destruct (lookup k st1) as [ob1|] eqn:E.
  - apply LE in E. congruence.
  - exfalso. destruct (RM k ob L E) as [_ M]. eapply marker_key_not_manifests; eauto.
Qed.

Lemma referenced_transfer : forall now timeout snaps st st1, wf_store snaps st -> only_markers_removed now timeout st st1 ->
  (forall k, ref_manifest snaps st k -> ref_manifest snaps st1 k) /\ (forall k, ref_data snaps st k -> ref_data snaps st1 k).
Proof.
  intros now timeout snaps st st1 WF O.
  assert (LA: forall l ms, In l snaps -> nonempty l = true -> list_at st (resolve l) ms -> list_at st1 (resolve l) ms).
  { intros l ms H1 H2 [ob [L B]]. exists ob. split; [|exact B]. eapply omr_keeps_meta; eauto. exact (wf_snaps _ _ WF l H1 H2). }
  split.
  - intros k [l [ms [m [H1 [H2 [H3 [H4 [H5 E]]]]]]]]. exists l, ms, m. repeat split; auto.
  - intros k [l [ms [m [es [e [H1 [H2 [H3 [H4 [H5 [H6 [H7 E]]]]]]]]]]]]. exists l, ms, m, es, e. repeat split; auto.
    destruct H3 as [ob [L B]]. destruct H6 as [ob2 [L2 B2]]. exists ob2. split; [|exact B2].
    eapply omr_keeps_meta; eauto. exact (wf_lists _ _ WF _ _ _ _ L B H4 H5).
Qed.

Lemma wf_store_le : forall snaps st st1, wf_store snaps st -> store_le st1 st -> NoDup (map fst st1) -> wf_store snaps st1.
Proof.
  intros snaps st st1 [W1 W2 W3 W4 W5] LE ND. constructor; auto.
  - intros k ob ms m L. apply LE in L. eauto.
  - intros k ob es e L. apply LE in L. eauto.
  - intros mk ob t L. apply LE in L. eauto.
Qed.

(* ---- the store after any phase is a filter of the store before (keys stay distinct) *)
Definition sub_store (a b : store) : Prop := exists f, a = filter f b.
Lemma sub_refl : forall a, sub_store a a.
Proof. intro a. exists (fun _ => true). induction a; simpl; congruence. Qed.
Lemma sub_trans : forall a b c, sub_store a b -> sub_store b c -> sub_store a c.
Proof.
  intros a b c [f ->] [g ->]. exists (fun x => g x && f x). induction c as [|x r IH]; simpl; [reflexivity|].
  destruct (g x); simpl; [destruct (f x); simpl; congruence|exact IH].
Qed.
Lemma sub_remove : forall k st, sub_store (remove_key k st) st.
Proof. intros. eexists. reflexivity. Qed.
Lemma sub_eq : forall a b, a = b -> sub_store a b.
Proof. intros a b ->. apply sub_refl. Qed.

Lemma NoDup_map_filter : forall (st : store) f, NoDup (map fst st) -> NoDup (map fst (filter f st)).
Proof.
  intros st f. induction st as [|p r IH]; simpl; intro H; [constructor|]. inversion H; subst.
  destruct (f p); simpl; [constructor|]; auto.
  intro Hin. apply H2. apply in_map_iff in Hin. destruct Hin as [q [E Hq]]. apply filter_In in Hq. apply in_map_iff. exists q. tauto.
Qed.

Lemma sub_nodup : forall a b, sub_store a b -> NoDup (map fst b) -> NoDup (map fst a).
Proof. intros a b [f ->] H. apply NoDup_map_filter. exact H. Qed.

Lemma do_delete_sub : forall o g k r g', do_delete o g k = (r, g') -> sub_store (g_store g') (g_store g).
Proof.
  intros o g k [u|] g' H.
  - rewrite (do_delete_some _ _ _ _ _ H). apply sub_remove.
  - rewrite (do_delete_none _ _ _ _ H). apply sub_refl.
Qed.

Lemma markers_loop_sub : forall tp cutoff o ms g prot prot' g',
  markers_loop tp cutoff o g ms prot = (prot', g') -> sub_store (g_store g') (g_store g).
Proof.
  intros tp cutoff o ms. induction ms as [|mp r IH]; intros g prot prot' g' H; simpl in H.
  - inversion H; subst. apply sub_refl.
  - destruct (do_stat o g (normalize_path tp mp)) as [st_ g1] eqn:ES. pose proof (do_stat_store _ _ _ _ _ ES) as S1.
    destruct (negb (endswith INFLIGHT_SUFFIX (basename (normalize_path tp mp)))).
    { apply IH in H. rewrite S1 in H. exact H. }
    destruct (marker_targets tp o g1 (normalize_path tp mp) (basename (normalize_path tp mp))) as [T g2] eqn:ET.
    pose proof (marker_targets_store _ _ _ _ _ _ _ ET) as S2.
    destruct (match st_ with Some t => cutoff <=? t | None => true end).
    { apply IH in H. rewrite S2, S1 in H. exact H. }
    destruct (do_delete o g2 (normalize_path tp mp)) as [[u|] g3] eqn:ED; apply do_delete_sub in ED; apply IH in H;
      rewrite S2, S1 in ED; eapply sub_trans; eauto.
Qed.

Lemma load_protection_sub : forall tp timeout now o g r g', load_protection tp timeout now o g = (r, g') -> sub_store (g_store g') (g_store g).
Proof.
  intros tp timeout now o g r g' H. unfold load_protection in H.
  destruct (do_listdir o g INFLIGHT_PATH) as [[ms|] gx] eqn:EL; pose proof (do_listdir_store _ _ _ _ _ EL) as S1.
  - destruct (markers_loop tp (now - timeout) o gx ms []) as [p gy] eqn:EM. injection H as _ Eg. rewrite <- Eg.
    apply markers_loop_sub in EM. rewrite S1 in EM. exact EM.
  - injection H as _ Eg. rewrite <- Eg. apply sub_eq. exact S1.
Qed.

Lemma sweep_loop_sub : forall tp cutoff keep o ks g dels b dels' g',
  sweep_loop tp cutoff keep o g ks dels = (b, dels', g') -> sub_store (g_store g') (g_store g).
Proof.
  intros tp cutoff keep o ks. induction ks as [|k r IH]; intros g dels b dels' g' H; simpl in H.
  - inversion H; subst. apply sub_refl.
  - destruct (escapes (normalize_path tp k)); [inversion H; subst; apply sub_refl|].
    destruct (str_mem (normalize_path tp k) keep); [eapply IH; eauto|].
    destruct (do_stat o g k) as [[t|] g1] eqn:ES; pose proof (do_stat_store _ _ _ _ _ ES) as S1.
    2:{ apply IH in H. rewrite S1 in H. exact H. }
    destruct (t <? cutoff).
    2:{ apply IH in H. rewrite S1 in H. exact H. }
    destruct (do_delete o g1 k) as [[u|] g2] eqn:ED; apply do_delete_sub in ED; apply IH in H; rewrite S1 in ED; eapply sub_trans; eauto.
Qed.

Lemma sweep_sub : forall tp grace now keep o g prefix dels b dels' g',
  sweep tp grace now keep o g prefix dels = (b, dels', g') -> sub_store (g_store g') (g_store g).
Proof.
  intros tp grace now keep o g prefix dels b dels' g' H. unfold sweep in H.
  destruct (do_listdir o g prefix) as [[ks|] g1] eqn:EL; pose proof (do_listdir_store _ _ _ _ _ EL) as S1.
  - apply sweep_loop_sub in H. rewrite S1 in H. exact H.
  - inversion H; subst. rewrite S1. apply sub_refl.
Qed.

Lemma sweeps_sub : forall tp grace now o rl rm rd prot g, sub_store (g_store (r_final (sweeps tp grace now o rl rm rd prot g))) (g_store g).
Proof.
  intros. unfold sweeps.
  destruct (sweep tp grace now (rd ++ prot) o g DATA_PREFIX []) as [[b1 d1] g4] eqn:SW1. apply sweep_sub in SW1.
  destruct b1; [exact SW1|].
  destruct (sweep tp grace now ((rm ++ rl) ++ prot) o g4 MANIFESTS_PREFIX d1) as [[b2 d2] g5] eqn:SW2. apply sweep_sub in SW2.
  destruct b2; cbn [r_final]; eapply sub_trans; eauto.
Qed.

Lemma gc_run_from_sub : forall mf tp grace now timeout o snaps g0,
  sub_store (g_store (r_final (gc_run_from mf tp grace now timeout o snaps g0))) (g_store g0).
Proof.
  intros. unfold gc_run_from. destruct mf.
  - destruct (load_protection tp timeout now o g0) as [[prot|] g1] eqn:LP; pose proof (load_protection_sub _ _ _ _ _ _ _ LP) as S1; [|exact S1].
    destruct (reach tp o snaps g1) as [[ph rl rm|rl rm rd] g2] eqn:RE; pose proof (reach_store _ _ _ _ _ _ RE) as S2.
    + cbn [r_final]. rewrite S2. exact S1.
    + eapply sub_trans; [apply sweeps_sub|]. rewrite S2. exact S1.
  - destruct (reach tp o snaps g0) as [[ph rl rm|rl rm rd] g1] eqn:RE; pose proof (reach_store _ _ _ _ _ _ RE) as S1.
    + cbn [r_final]. apply sub_eq. exact S1.
    + destruct (load_protection tp timeout now o g1) as [[prot|] g2] eqn:LP; pose proof (load_protection_sub _ _ _ _ _ _ _ LP) as S2.
      * eapply sub_trans; [apply sweeps_sub|]. rewrite <- S1. exact S2.
      * cbn [r_final]. rewrite <- S1. exact S2.
Qed.

(* ---- the sweeps delete only what is safe, given complete reachability and protection *)
Lemma sweeps_safe : forall tp grace now timeout o snaps st rl rm rd prot g,
  wf_store snaps st ->
  only_markers_removed now timeout st (g_store g) ->
  (forall k, ref_list snaps k -> In k rl) -> (forall k, ref_manifest snaps st k -> In k rm) -> (forall k, ref_data snaps st k -> In k rd) ->
  (forall mk ob, lookup mk (g_store g) = Some ob -> is_marker_key mk -> forall k, marker_denotes mk ob k -> In k prot) ->
  (forall k, live_target now timeout st k -> In k prot) ->
  gc_safe_spec now grace timeout snaps st (sweeps tp grace now o rl rm rd prot g).
Proof.
  intros tp grace now timeout o snaps st rl rm rd prot g3 WF [P1 P3] CL CM CD P2 P4. unfold sweeps.
  assert (MW: markers_wf st) by (eapply wf_store_markers; eauto).
  assert (LIVE: forall k, live_target now timeout st k -> table_relative k /\ In k prot).
  { intros k Hl. split; [|auto]. destruct Hl as [mk [ob [L [M [F D]]]]]. eapply marker_denotes_relative; eauto. }
  assert (KEEPM: forall g mk ob k, store_le (g_store g) (g_store g3) -> lookup mk (g_store g) = Some ob -> is_marker_key mk ->
            marker_denotes mk ob k -> table_relative k /\ In k prot).
  { intros g mk ob k Lg L M D. apply Lg in L. split; [|eapply P2; eauto]. eapply marker_denotes_relative; eauto. }
  assert (NOKEEP: forall k keep, table_relative k -> In k keep -> str_mem (normalize_path tp k) keep = false -> False).
  { intros k keep TR Hin Hm. rewrite norm_table_relative in Hm by exact TR. apply str_mem_false in Hm. contradiction. }
  destruct (sweep tp grace now (rd ++ prot) o g3 DATA_PREFIX []) as [[b1 d1] g4] eqn:SW1.
  apply sweep_spec in SW1. destruct SW1 as [A1 [A2 [A3 A4]]].
  assert (D1: forall k, In k d1 ->
      ~ referenced snaps st k /\ ~ live_target now timeout st k /\ exists ob, lookup k st = Some ob /\ mtime ob < now - grace).
  { intros k Hk. destruct (A2 k Hk) as [[]|[Hpre [Hm [ob [L Old]]]]]. split; [|split].
    - intros [R|[R|R]].
      + apply (ref_list_meta snaps st WF) in R. destruct Hpre as [Hp| ->]; [eapply data_meta_disjoint; eauto|discriminate].
      + apply (ref_manifest_meta snaps st WF) in R. destruct Hpre as [Hp| ->]; [eapply data_meta_disjoint; eauto|discriminate].
      + apply (NOKEEP k (rd ++ prot)%list); [left; eapply ref_data_data; eauto|apply in_or_app; auto|exact Hm].
    - intro Hl. destruct (LIVE k Hl) as [TR Hin]. apply (NOKEEP k (rd ++ prot)%list); [exact TR|apply in_or_app; auto|exact Hm].
    - exists ob. split; [apply P1; exact L|exact Old]. }
  assert (MK1: forall g mk ob k, store_le (g_store g) (g_store g3) -> lookup mk (g_store g) = Some ob -> is_marker_key mk ->
            marker_denotes mk ob k -> ~ In k d1).
  { intros g mk ob k Lg L M D Hk. destruct (KEEPM g mk ob k Lg L M D) as [TR Hin].
    destruct (A2 k Hk) as [[]|[_ [Hm _]]]. apply (NOKEEP k (rd ++ prot)%list); [exact TR|apply in_or_app; auto|exact Hm]. }
  assert (ST1: forall k ob, lookup k st = Some ob -> lookup k (g_store g4) = None ->
      In k d1 \/ (mtime ob < now - timeout /\ is_marker_key k)).
  { intros k ob L N. destruct (lookup k (g_store g3)) as [ob3|] eqn:L3.
    - assert (ob3 = ob) by (apply P1 in L3; congruence). subst. left. eapply A3; eauto.
    - right. eapply P3; eauto. }
  destruct b1.
  { constructor; cbn [r_deleted r_final r_out]; auto.
    - intros [H|[H|H]]; discriminate.
    - eapply store_le_trans; eauto.
    - intros mk ob L M k D. eapply (MK1 g4); eauto. }
  destruct (sweep tp grace now ((rm ++ rl) ++ prot) o g4 MANIFESTS_PREFIX d1) as [[b2 d2] g5] eqn:SW2.
  apply sweep_spec in SW2. destruct SW2 as [B1 [B2 [B3 B4]]].
  assert (L43: store_le (g_store g4) st) by (eapply store_le_trans; eauto).
  assert (D2: forall k, In k d2 ->
      ~ referenced snaps st k /\ ~ live_target now timeout st k /\ exists ob, lookup k st = Some ob /\ mtime ob < now - grace).
  { intros k Hk. destruct (B2 k Hk) as [Hin1|[Hpre [Hm [ob [L Old]]]]]; [auto|]. split; [|split].
    - intros [R|[R|R]].
      + apply (NOKEEP k ((rm ++ rl) ++ prot)%list); [right; eapply ref_list_meta; eauto|apply in_or_app; left; apply in_or_app; auto|exact Hm].
      + apply (NOKEEP k ((rm ++ rl) ++ prot)%list); [right; eapply ref_manifest_meta; eauto|apply in_or_app; left; apply in_or_app; auto|exact Hm].
      + apply (ref_data_data snaps st WF) in R. destruct Hpre as [Hp| ->]; [|discriminate].
        eapply data_meta_disjoint; [exact R|].
        change (MANIFESTS_PREFIX ++ "/") with ("metadata/" ++ "manifests/") in Hp. eapply startswith_trans_app; exact Hp.
    - intro Hl. destruct (LIVE k Hl) as [TR Hin]. apply (NOKEEP k ((rm ++ rl) ++ prot)%list); [exact TR|apply in_or_app; auto|exact Hm].
    - exists ob. split; [apply L43; exact L|exact Old]. }
  assert (FIN: gc_safe_spec now grace timeout snaps st (mkR (if b2 then Aborted PhSweepManifests else Done) d2 rl rm rd prot g5)).
  { constructor; cbn [r_deleted r_final r_out]; auto.
    - intros [H|[H|H]]; destruct b2; discriminate.
    - intros k ob L N. destruct (lookup k (g_store g4)) as [ob4|] eqn:L4.
      + assert (ob4 = ob) by (apply L43 in L4; congruence). subst. left. eapply B3; eauto.
      + destruct (ST1 k ob L L4); auto.
    - eapply store_le_trans; eauto.
    - intros mk ob L M k D Hk.
      assert (L5: store_le (g_store g5) (g_store g3)) by (eapply store_le_trans; eauto).
      destruct (B2 k Hk) as [Hin1|[_ [Hm _]]].
      + eapply (MK1 g5); eauto.
      + destruct (KEEPM g5 mk ob k L5 L M D) as [TR Hin]. apply (NOKEEP k ((rm ++ rl) ++ prot)%list); [exact TR|apply in_or_app; auto|exact Hm]. }
  destruct b2; exact FIN.
Qed.

(* a result that deleted nothing, whose store lost at most abandoned markers *)
Lemma nothing_deleted_safe : forall now grace timeout snaps st out rl rm rd pr g,
  only_markers_removed now timeout st (g_store g) -> gc_safe_spec now grace timeout snaps st (mkR out [] rl rm rd pr g).
Proof.
  intros now grace timeout snaps st out rl rm rd pr g [LE RM]. constructor; cbn [r_deleted r_final r_out].
  - intros _. reflexivity.
  - intros k [].
  - intros k ob L N. right. eauto.
  - exact LE.
  - intros mk ob L M k D [].
Qed.

Lemma load_protection_omr : forall tp timeout now o g prot g', load_protection tp timeout now o g = (Some prot, g') ->
  markers_wf (g_store g) -> only_markers_removed now timeout (g_store g) (g_store g').
Proof. intros tp timeout now o g prot g' H W. apply load_protection_spec in H; [|exact W]. destruct H as [P1 [_ [P3 _]]]. split; assumption. Qed.

Lemma load_protection_none_store : forall tp timeout now o g g', load_protection tp timeout now o g = (None, g') -> g_store g' = g_store g.
Proof.
  intros tp timeout now o g g' LP. unfold load_protection in LP. destruct (do_listdir o g INFLIGHT_PATH) as [[ms|] gx] eqn:EL.
  - destruct (markers_loop tp (now - timeout) o gx ms []); discriminate.
  - inversion LP; subst. exact (do_listdir_store _ _ _ _ _ EL).
Qed.

Theorem gc_safe_from : forall mf tp grace now timeout o snaps g0,
  wf_store snaps (g_store g0) -> gc_safe_spec now grace timeout snaps (g_store g0) (gc_run_from mf tp grace now timeout o snaps g0).
Proof.
  intros mf tp grace now timeout o snaps g0 WF. set (st := g_store g0) in *.
  assert (MW: markers_wf st) by (eapply wf_store_markers; eauto).
  unfold gc_run_from. destruct mf.
  - (* in-flight protection first *)
    destruct (load_protection tp timeout now o g0) as [[prot|] g1] eqn:LP.
    2:{ apply nothing_deleted_safe. rewrite (load_protection_none_store _ _ _ _ _ _ LP). apply omr_refl. }
    pose proof (load_protection_omr _ _ _ _ _ _ _ LP MW) as O1. fold st in O1.
    pose proof (load_protection_sub _ _ _ _ _ _ _ LP) as SUB1.
    apply load_protection_spec in LP; [|exact MW]. fold st in LP. destruct LP as [P1 [P2 [P3 P4]]].
    destruct (reach tp o snaps g1) as [[ph rl rm|rl rm rd] g2] eqn:RE; pose proof (reach_store _ _ _ _ _ _ RE) as S2.
    + apply nothing_deleted_safe. rewrite S2. exact O1.
    + assert (WF1: wf_store snaps (g_store g1)) by (eapply wf_store_le; eauto; eapply sub_nodup; eauto; exact (wf_nodup _ _ WF)).
      pose proof (reach_ok _ _ _ _ _ _ _ _ WF1 RE) as RC. destruct (referenced_transfer now timeout snaps st (g_store g1) WF O1) as [TM TD].
      apply sweeps_safe with (timeout := timeout); auto.
      * rewrite S2. exact O1.
      * exact (rc_lists _ _ _ _ _ RC).
      * intros k R. apply (rc_manifests _ _ _ _ _ RC). auto.
      * intros k R. apply (rc_data _ _ _ _ _ RC). auto.
      * rewrite S2. exact P2.
  - (* reachability first *)
    destruct (reach tp o snaps g0) as [[ph rl rm|rl rm rd] g1] eqn:RE; pose proof (reach_store _ _ _ _ _ _ RE) as S1.
    + apply nothing_deleted_safe. rewrite S1. apply omr_refl.
    + pose proof (reach_ok _ _ _ _ _ _ _ _ WF RE) as RC. fold st in RC.
      destruct (load_protection tp timeout now o g1) as [[prot|] g2] eqn:LP.
      2:{ apply nothing_deleted_safe. rewrite (load_protection_none_store _ _ _ _ _ _ LP), S1. apply omr_refl. }
      assert (MW1: markers_wf (g_store g1)) by (rewrite S1; exact MW).
      pose proof (load_protection_omr _ _ _ _ _ _ _ LP MW1) as O2. rewrite S1 in O2.
      apply load_protection_spec in LP; [|exact MW1]. rewrite S1 in LP. destruct LP as [P1 [P2 [P3 P4]]].
      apply sweeps_safe with (timeout := timeout); auto.
      * exact (rc_lists _ _ _ _ _ RC).
      * exact (rc_manifests _ _ _ _ _ RC).
      * exact (rc_data _ _ _ _ _ RC).
Qed.

Theorem gc_safe_all_faults : forall tp grace now timeout o snaps st,
  wf_store snaps st -> gc_safe_spec now grace timeout snaps st (gc_run tp grace now timeout o snaps st).
Proof. intros tp grace now timeout o snaps st WF. unfold gc_run. exact (gc_safe_from MARKERS_FIRST tp grace now timeout o snaps (mkG 0 st []) WF). Qed.

Theorem gc_safe_nofault : forall (tp : string) (grace now timeout : Z) (snaps : list string) (st : store),
  wf_store snaps st ->
  forall k, In k (r_deleted (gc_run tp grace now timeout no_faults snaps st)) ->
    ~ referenced snaps st k /\ ~ live_target now timeout st k /\ exists ob, lookup k st = Some ob /\ mtime ob < now - grace.
Proof. intros tp grace now timeout snaps st W. exact (gs_deleted _ _ _ _ _ _ (gc_safe_all_faults tp grace now timeout no_faults snaps st W)). Qed.

(* ------------------------------------------------------------------ decidable well-formedness *)
Lemma nodupb_sound : forall l, nodupb l = true -> NoDup l.
Proof.
  induction l as [|x r IH]; simpl; intro H; [constructor|].
  apply andb_true_iff in H. destruct H as [H1 H2]. constructor; [|auto].
  apply negb_true_iff in H1. apply str_mem_false in H1. exact H1.
Qed.

Lemma lookup_In : forall k st ob, lookup k st = Some ob -> In (k, ob) st.
Proof.
  intros k st ob. induction st as [|[k' o] r IH]; simpl; [discriminate|].
  destruct (String.eqb k k') eqn:E; intro H.
  - apply String.eqb_eq in E. inversion H; subst. left. reflexivity.
  - right. auto.
Qed.

Lemma is_marker_keyb_iff : forall mk, is_marker_keyb mk = true <-> is_marker_key mk.
Proof. intro mk. unfold is_marker_keyb, is_marker_key. rewrite andb_true_iff. tauto. Qed.

Lemma wf_storeb_sound : forall snaps st, wf_storeb snaps st = true -> wf_store snaps st.
Proof.
  intros snaps st H. unfold wf_storeb in H. apply andb_true_iff in H. destruct H as [H H3].
  apply andb_true_iff in H. destruct H as [H1 H2].
  rewrite forallb_forall in H2, H3.
  assert (OBJ: forall k ob, lookup k st = Some ob -> wf_objb k ob = true).
  { intros k ob L. apply lookup_In in L. apply (H3 (k, ob) L). }
  constructor.
  - apply nodupb_sound. exact H1.
  - intros l Hl Hn. specialize (H2 l Hl). rewrite Hn in H2. exact H2.
  - intros k ob ms m L B Hm Hn. specialize (OBJ k ob L). unfold wf_objb in OBJ.
    destruct (body ob); simpl in B; inversion B; subst.
    rewrite forallb_forall in OBJ. specialize (OBJ m Hm). rewrite Hn in OBJ. exact OBJ.
  - intros k ob es e L B He. specialize (OBJ k ob L). unfold wf_objb in OBJ.
    destruct (body ob); simpl in B; inversion B; subst.
    rewrite forallb_forall in OBJ. exact (OBJ e He).
  - intros mk ob t L M B Hn. specialize (OBJ mk ob L). unfold wf_objb in OBJ. rewrite B in OBJ.
    apply is_marker_keyb_iff in M. rewrite M, Hn in OBJ. simpl in OBJ. apply str_mem_In. exact OBJ.
Qed.
