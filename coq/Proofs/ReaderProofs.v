(* Proofs/ReaderProofs.v -- readers observe only whole committed snapshots (C02). *)
From Coq Require Import ZArith List Bool Arith Lia.
Require Import DS.Model.Commit DS.Model.Fault DS.Model.Reader DS.Proofs.CommitProofs DS.Proofs.FaultProofs.
Require Import DS.Gen.GenReadRes DS.Proofs.ReadResProofs.
Import ListNotations.

Definition hist (z : rworld) := w_hist (fw (rx z)).

(* the invariant of a world whose read calls resolve the pointer ONCE (budget 1) *)
Record RInv (c : cfg) (z : rworld) : Prop := {
  RI_f : FInv c (rx z);
  RI_r : forall r,
    let s := r_readers z r in
    (forall st, r_start s = Some st -> (st <= length (hist z))%nat)
    /\ (forall v, r_vid s = Some v ->
          exists i st, r_idx s = Some i /\ r_start s = Some st /\ (st <= i <= length (hist z))%nat
                       /\ v = version_at (hist z) i /\ In v (committed (fw (rx z)))
                       /\ r_got s ++ r_todo s = refs (rx z) v /\ (1 <= r_nres s)%nat)
    /\ (r_vid s = None -> r_idx s = None /\ r_got s = [])
    /\ r_ok s = true
    /\ (forall e, r_end s = Some e -> exists i, r_idx s = Some i /\ (i <= e <= length (hist z))%nat /\ r_todo s = []) }.

Lemma hist_grows c x fe x' : fstep c x fe = Some x' -> exists t, w_hist (fw x') = w_hist (fw x) ++ t.
Proof.
  destruct fe as [e|a|a]; simpl.
  - destruct (step c (fw x) e) as [w'|] eqn:St; [|discriminate]. intro H; inversion H; subst x'; simpl.
    destruct (step_cases c _ _ _ St) as [_ [[now [_ [_ [_ [Hi _]]]]]|[[_ [_ [_ [Hi _]]]]|[_ [Hi _]]]]]; rewrite Hi.
    + exists []. rewrite app_nil_r. reflexivity.
    + eexists. reflexivity.
    + exists []. rewrite app_nil_r. reflexivity.
  - destruct (can_write _); [|discriminate]. intro H; inversion H; simpl. exists []. rewrite app_nil_r. reflexivity.
  - destruct (can_rollback _); [|discriminate]. intro H; inversion H; simpl. exists []. rewrite app_nil_r. reflexivity.
Qed.

Lemma version_at_stable h t i : (i <= length h)%nat -> version_at (h ++ t) i = version_at h i.
Proof. intro L. unfold version_at. rewrite firstn_app. replace (i - length h)%nat with 0%nat by lia. simpl. rewrite app_nil_r. reflexivity. Qed.

Lemma version_at_full h : version_at h (length h) = lastv 0%nat h.
Proof. unfold version_at, lastv. rewrite firstn_all. reflexivity. Qed.

Lemma committed_grows h t v : In v (comm h) -> In v (comm (h ++ t)).
Proof. unfold comm. rewrite map_app. simpl. intros [E|H]; [left; exact E | right; apply in_or_app; left; exact H]. Qed.

Lemma existsb_eqb_in f l : existsb (Nat.eqb f) l = true <-> In f l.
Proof.
  rewrite existsb_exists. split.
  - intros [g [G E]]. apply Nat.eqb_eq in E. subst. exact G.
  - intro H. exists f. split; [exact H | apply Nat.eqb_refl].
Qed.

(* the files a committed version references never change *)
Lemma refs_stable c x fe x' v : FInv c x -> fstep c x fe = Some x' -> In v (committed (fw x)) -> refs x' v = refs x v.
Proof.
  intros I St Hv. apply (fstep_refs_stable c x fe x' v I St).
  rewrite (FI_len c x I). eapply committed_valid; [apply I | exact Hv].
Qed.

Lemma rstep_inv c z e z' : sound c -> RInv c z -> rstep c 1 z e = Some z' -> RInv c z'.
Proof.
  intros Snd I H. destruct e as [fe|r|r|r|r]; simpl in H.
  - (* writer-side event *)
    destruct (fstep c (rx z) fe) as [x'|] eqn:St; [|discriminate]. inversion H; subst z'; clear H.
    destruct (hist_grows c _ _ _ St) as [t Ht].
    constructor; simpl; [eapply fstep_inv; eauto; apply I|].
    intro r. destruct (RI_r c z I r) as [A [B [C [D E]]]]. unfold hist in *. simpl. rewrite Ht.
    repeat split; auto.
    + intros st Hs. specialize (A st Hs). rewrite app_length. lia.
    + intros v Hv. destruct (B v Hv) as [i [st [B1 [B2 [B3 [B4 [B5 [B6 B7]]]]]]]]. exists i, st.
      repeat split; auto; try lia.
      * rewrite app_length. lia.
      * rewrite version_at_stable by lia. exact B4.
      * apply (committed_grows _ t v B5).
      * rewrite (refs_stable c _ _ _ v (RI_f c z I) St B5). exact B6.
    + apply C; assumption.
    + apply C; assumption.
    + intros e0 He. destruct (E e0 He) as [i [E1 [E2 E3]]]. exists i. split; auto. split; auto. rewrite app_length. lia.
  - (* RStart *)
    destruct (r_start (r_readers z r)) eqn:S0; [discriminate|]. inversion H; subst z'; clear H.
    constructor; simpl; [apply I|]. intro q. unfold updr. destruct (Nat.eqb_spec q r) as [->|NE]; [|apply (RI_r c z I q)].
    simpl. unfold hist, nflips. simpl. repeat split; auto; try discriminate.
    intros st E. inversion E. lia.
  - (* RPtr *)
    destruct (r_start (r_readers z r)) as [st|] eqn:S0; [|discriminate].
    destruct (r_end (r_readers z r)) eqn:E0; [discriminate|].
    destruct (Nat.ltb (r_nres (r_readers z r)) 1) eqn:Bud; [|discriminate]. inversion H; subst z'; clear H.
    apply Nat.ltb_lt in Bud.
    pose proof (RI_r c z I r) as R. cbv zeta in R. destruct R as [A [B [C [D E]]]].
    assert (V0 : r_vid (r_readers z r) = None).
    { destruct (r_vid (r_readers z r)) as [v|] eqn:V; [|reflexivity].
      destruct (B v eq_refl) as [_ [_ [_ [_ [_ [_ [_ [_ N]]]]]]]]. lia. }
    destruct (C V0) as [_ G0].
    constructor; simpl; [apply I|]. intro q. unfold updr. destruct (Nat.eqb_spec q r) as [->|NE]; [|apply (RI_r c z I q)].
    simpl. unfold hist, nflips in *. simpl. repeat split; auto; try discriminate.
    + intros st0 E1. inversion E1; subst st0. apply (A st S0).
    + intros v Hv. inversion Hv; subst v. exists (length (w_hist (fw (rx z)))), st. specialize (A st S0).
      repeat split; auto; try lia.
      * rewrite version_at_full. apply (I_ptr c _ (FI_inv c _ (RI_f c z I))).
      * apply (ptr_committed c _ (FI_inv c _ (RI_f c z I))).
      * rewrite G0. reflexivity.
  - (* RFile *)
    destruct (r_vid (r_readers z r)) as [v|] eqn:V0; [|discriminate].
    destruct (r_end (r_readers z r)) eqn:E0; [discriminate|].
    destruct (r_todo (r_readers z r)) as [|f tl] eqn:T0; [discriminate|]. inversion H; subst z'; clear H.
    pose proof (RI_r c z I r) as R. cbv zeta in R. rewrite V0, E0, T0 in R. destruct R as [A [B [C [D E]]]].
    destruct (B v eq_refl) as [i [st [B1 [B2 [B3 [B4 [B5 [B6 B7]]]]]]]].
    assert (Pf : existsb (Nat.eqb f) (f_present (rx z)) = true).
    { apply existsb_eqb_in. apply (finv_present c _ (RI_f c z I) v B5). rewrite <- B6. apply in_or_app. right. left. reflexivity. }
    constructor; simpl; [apply I|]. intro q. cbv zeta. unfold updr. destruct (Nat.eqb_spec q r) as [->|NE]; [|apply (RI_r c z I q)].
    simpl. unfold hist in *. simpl. rewrite Pf. split; [exact A|]. split.
    { intros v' Hv'. inversion Hv'; subst v'. exists i, st. repeat split; auto; try lia.
      rewrite <- app_assoc. simpl. exact B6. }
    split; [discriminate|]. split; [rewrite D; reflexivity | discriminate].
  - (* REnd *)
    destruct (r_vid (r_readers z r)) as [v|] eqn:V0; [|discriminate].
    destruct (r_end (r_readers z r)) eqn:E0; [discriminate|].
    destruct (r_todo (r_readers z r)) as [|f tl] eqn:T0; [|discriminate]. inversion H; subst z'; clear H.
    pose proof (RI_r c z I r) as R. cbv zeta in R. rewrite V0, E0, T0 in R. destruct R as [A [B [C [D E]]]].
    constructor; simpl; [apply I|]. intro q. cbv zeta. unfold updr. destruct (Nat.eqb_spec q r) as [->|NE]; [|apply (RI_r c z I q)].
    simpl. unfold hist, nflips in *. simpl. split; [exact A|]. split; [exact B|]. split; [discriminate|]. split; [exact D|].
    intros e0 He. inversion He; subst e0. destruct (B v eq_refl) as [i [st [B1 [_ [B3 _]]]]]. exists i. split; auto. split; [lia | reflexivity].
Qed.

Lemma rinit_inv c x : FInv c x -> RInv c (rinit x).
Proof.
  intro I. constructor; simpl; auto. intro r. simpl. repeat split; auto; discriminate.
Qed.

Lemma rrun_inv c z evs : sound c -> RInv c z -> RInv c (rrun c 1 z evs).
Proof.
  intro Snd. revert z. induction evs as [|e l IH]; intros z I; [exact I|].
  change (RInv c (rrun c 1 (rstep_skip c 1 z e) l)). apply IH. unfold rstep_skip.
  destruct (rstep c 1 z e) eqn:St; [eapply rstep_inv; eauto | exact I].
Qed.

(* A read call that has returned: it resolved the pointer at an instant i between its start and its end, no file read
   failed, and the files it read are EXACTLY the files of the version current after i flips -- so, whatever the
   (immutable) contents of the files, the rows it hands out are the rows of that one snapshot. *)
Theorem reader_snapshot c m0 kind mr r0 next evs :
  sound c -> (forall f, In f r0 -> (f < next)%nat) ->
  let z := rrun c 1 (rinit (finit m0 kind mr r0 next)) evs in
  forall r e, r_end (r_readers z r) = Some e ->
    exists i st, r_idx (r_readers z r) = Some i /\ r_start (r_readers z r) = Some st
      /\ (st <= i <= e)%nat /\ (e <= length (hist z))%nat
      /\ r_ok (r_readers z r) = true
      /\ r_got (r_readers z r) = refs (rx z) (version_at (hist z) i)
      /\ (forall f, In f (r_got (r_readers z r)) -> In f (f_present (rx z)))
      /\ (forall (row : Type) (content : fid -> list row),
            result_rows content (r_readers z r) = snapshot_rows content (rx z) (version_at (hist z) i)).
Proof.
  intros Snd A z r e He.
  assert (I : RInv c z) by (apply rrun_inv; [exact Snd | apply rinit_inv; apply finit_inv; exact A]).
  destruct (RI_r c z I r) as [_ [B [C [D E]]]]. destruct (E e He) as [i [E1 [E2 E3]]].
  destruct (r_vid (r_readers z r)) as [v|] eqn:V; [|destruct (C eq_refl) as [C1 _]; congruence].
  destruct (B v eq_refl) as [i' [st [B1 [B2 [B3 [B4 [B5 [B6 B7]]]]]]]].
  rewrite B1 in E1. inversion E1; subst i'. rewrite E3, app_nil_r in B6.
  exists i, st. repeat split; auto; try lia.
  - rewrite <- B4. exact B6.
  - intros f Hf. apply (finv_present c _ (RI_f c z I) v B5). rewrite <- B6. exact Hf.
  - intros row content. unfold result_rows, snapshot_rows. rewrite <- B4, B6. reflexivity.
Qed.

(* ... and while it is still running: no read has failed, and what it has read so far is a prefix of the file list of
   the one version it resolved *)
Theorem reader_in_progress c m0 kind mr r0 next evs :
  sound c -> (forall f, In f r0 -> (f < next)%nat) ->
  let z := rrun c 1 (rinit (finit m0 kind mr r0 next)) evs in
  forall r, r_ok (r_readers z r) = true
    /\ forall v, r_vid (r_readers z r) = Some v ->
         exists i, r_idx (r_readers z r) = Some i /\ v = version_at (hist z) i
                   /\ r_got (r_readers z r) ++ r_todo (r_readers z r) = refs (rx z) v
                   /\ (forall f, In f (refs (rx z) v) -> In f (f_present (rx z))).
Proof.
  intros Snd A z r.
  assert (I : RInv c z) by (apply rrun_inv; [exact Snd | apply rinit_inv; apply finit_inv; exact A]).
  destruct (RI_r c z I r) as [_ [B [_ [D _]]]]. split; [exact D|].
  intros v Hv. destruct (B v Hv) as [i [st [B1 [_ [_ [B4 [B5 [B6 _]]]]]]]]. exists i. repeat split; auto.
  intros f Hf. apply (finv_present c _ (RI_f c z I) v B5 f Hf).
Qed.

(* Successive reads never move backwards in commit order: a call that had returned (after e1 flips) when another one
   started (after s2 flips, e1 <= s2 -- in particular two successive calls through one handle) resolved the pointer no
   later in the pointer history than the second one. *)
Theorem reads_monotone c m0 kind mr r0 next evs :
  sound c -> (forall f, In f r0 -> (f < next)%nat) ->
  let z := rrun c 1 (rinit (finit m0 kind mr r0 next)) evs in
  forall r1 r2 e1 s2 i2,
    r_end (r_readers z r1) = Some e1 -> r_start (r_readers z r2) = Some s2 -> (e1 <= s2)%nat ->
    r_idx (r_readers z r2) = Some i2 ->
    exists i1, r_idx (r_readers z r1) = Some i1 /\ (i1 <= i2)%nat
      /\ firstn i1 (hist z) = firstn i1 (firstn i2 (hist z)).      (* the flips r1 had seen are a prefix of those r2 saw *)
Proof.
  intros Snd A z r1 r2 e1 s2 i2 H1 H2 L H3.
  assert (I : RInv c z) by (apply rrun_inv; [exact Snd | apply rinit_inv; apply finit_inv; exact A]).
  destruct (RI_r c z I r1) as [_ [_ [_ [_ E]]]]. destruct (E e1 H1) as [i1 [E1 [E2 _]]].
  destruct (RI_r c z I r2) as [_ [B [C _]]].
  destruct (r_vid (r_readers z r2)) as [v|] eqn:V; [|destruct (C eq_refl) as [C1 _]; congruence].
  destruct (B v eq_refl) as [i' [st [B1 [B2 [B3 _]]]]]. rewrite H3 in B1. inversion B1; subst i'. rewrite H2 in B2. inversion B2; subst st.
  exists i1. split; [exact E1|]. split; [lia|].
  rewrite firstn_firstn. replace (Nat.min i1 i2) with i1 by lia. reflexivity.
Qed.

Theorem hist_monotone c b z evs : exists t, hist (rrun c b z evs) = hist z ++ t.
Proof.
  revert z. induction evs as [|e l IH]; intro z; [exists []; rewrite app_nil_r; reflexivity|].
  change (exists t, hist (rrun c b (rstep_skip c b z e) l) = hist z ++ t).
  destruct (IH (rstep_skip c b z e)) as [t Ht]. rewrite Ht. unfold rstep_skip.
  destruct (rstep c b z e) as [z'|] eqn:St; [|eexists; reflexivity].
  destruct e as [fe|r|r|r|r]; simpl in St.
  - destruct (fstep c (rx z) fe) as [x'|] eqn:Sf; [|discriminate]. inversion St; subst z'.
    destruct (hist_grows c _ _ _ Sf) as [t2 Ht2]. unfold hist. simpl. rewrite Ht2, <- app_assoc. eexists. reflexivity.
  - destruct (r_start _); [discriminate|]. inversion St; subst z'. eexists; reflexivity.
  - destruct (r_start _); [|discriminate]. destruct (r_end _); [discriminate|]. destruct (Nat.ltb _ _); [|discriminate].
    inversion St; subst z'. eexists; reflexivity.
  - destruct (r_vid _); [|discriminate]. destruct (r_end _); [discriminate|]. destruct (r_todo _); [discriminate|].
    inversion St; subst z'. eexists; reflexivity.
  - destruct (r_vid _); [|discriminate]. destruct (r_end _); [discriminate|]. destruct (r_todo _); [|discriminate].
    inversion St; subst z'. eexists; reflexivity.
Qed.

(* ------------------------------------------------------------------------------------------------------------
   A multi-operation transaction is ONE operation identifier with ONE pointer flip (that the code does this is
   Proofs/ReadResProofs.v txn_one_commit_per_attempt + GenCommit's single flip per MetadataManager.commit).  In the
   model: after the first i flips the visible operations are exactly the initial ones followed by the transactions of
   those i flips, each of them once -- a transaction is in no version before its own flip and in every version from it
   on (until a later operation removes what it added, which is that operation's own flip). *)
Lemma chain_ok_firstn F p h i : chain_ok F p h -> chain_ok F p (firstn i h).
Proof.
  revert p i. induction h as [|[v a] t IH]; intros p i C; destruct i; simpl in *; auto.
  destruct C as [C1 [C2 [C3 C4]]]. repeat split; auto.
Qed.

Theorem txn_visible_whole c m0 kind mr r0 next evs :
  sound c -> (forall f, In f r0 -> (f < next)%nat) ->
  let w := fw (frun c (finit m0 kind mr r0 next) evs) in
  NoDup (map snd (w_hist w))
  /\ forall i, m_ops (nthf (w_files w) (version_at (w_hist w) i)) = m_ops (nthf (w_files w) 0%nat) ++ map snd (firstn i (w_hist w)).
Proof.
  intros Snd A w.
  pose proof (faults_keep_inv c m0 kind mr r0 next evs Snd A) as I. split; [apply I|].
  intro i. unfold version_at. change (last (map fst (firstn i (w_hist w))) 0%nat) with (lastv 0%nat (firstn i (w_hist w))).
  apply chain_ops. apply chain_ok_firstn. apply I.
Qed.

(* ------------------------------------------------------------------------------------------------------------
   The single resolution is what the property rests on.  The same statement for read calls that may resolve the
   pointer TWICE (what Table._get_all_data_files did on a table without current snapshot, and the filtered scans did
   for the schema) is false: the call below reads file 0 of version 0, resolves again after a commit and reads the
   files of version 1 -- what it returns is the file list of no version. *)
Definition snapshot_read_full (budget : nat) : Prop :=
  forall c m0 kind mr r0 next evs,
  sound c -> (forall f, In f r0 -> (f < next)%nat) ->
  let z := rrun c budget (rinit (finit m0 kind mr r0 next)) evs in
  forall r e, r_end (r_readers z r) = Some e ->
    exists i, r_got (r_readers z r) = refs (rx z) (version_at (hist z) i).

Definition two_res_cfg := {| cas := false; lockkind := Excl |}.
Definition two_res_events : list revent :=
  ([RStart 0; RPtr 0; RFile 0; RSys (FWrite 0)] ++ map (fun e => RSys (FProto e)) (commit_script 0 0 100)
   ++ [RPtr 0; RFile 0; RFile 0; REnd 0])%nat.

Theorem snapshot_read_refuted_for_two_resolutions : ~ snapshot_read_full 2.
Proof.
  intro H.
  specialize (H two_res_cfg {| m_ops := []; m_cur := 1; m_lu := 50 |} (fun _ => KFresh) (fun _ => 50%nat) [0%nat] 1%nat two_res_events).
  assert (S : sound two_res_cfg) by (right; reflexivity).
  assert (A : forall f, In f [0%nat] -> (f < 1)%nat) by (intros f [<-|[]]; lia).
  specialize (H S A 0%nat 1%nat eq_refl). destruct H as [i H].
  destruct i as [|[|i]]; vm_compute in H; discriminate.
Qed.

Theorem snapshot_read_holds_for_one_resolution : snapshot_read_full 1.
Proof.
  intros c m0 kind mr r0 next evs Snd A z r e He.
  destruct (reader_snapshot c m0 kind mr r0 next evs Snd A r e He) as [i [st [_ [_ [_ [_ [_ [G _]]]]]]]].
  exists i. exact G.
Qed.

Theorem snapshot_read_needs_single_resolution : ~ snapshot_read_full 2 /\ snapshot_read_full 1.
Proof. exact (conj snapshot_read_refuted_for_two_resolutions snapshot_read_holds_for_one_resolution). Qed.

(* the code facts (regenerated counts) together with the model statement *)
Theorem txn_atomic :
  txn_commits_per_attempt = (1, 1)%nat /\ snd delete_snapshot_commits = 1%nat
  /\ forall c m0 kind mr r0 next evs,
       sound c -> (forall f, In f r0 -> (f < next)%nat) ->
       let w := fw (frun c (finit m0 kind mr r0 next) evs) in
       NoDup (map snd (w_hist w))
       /\ forall i, m_ops (nthf (w_files w) (version_at (w_hist w) i))
                    = m_ops (nthf (w_files w) 0%nat) ++ map snd (firstn i (w_hist w)).
Proof. exact (conj txn_one_commit_per_attempt (conj delete_snapshot_at_most_one_commit txn_visible_whole)). Qed.
