(* Proofs/ReaderProofs.v -- readers observe only whole committed snapshots (C02). *)
From Coq Require Import ZArith List Bool Arith Lia.
Require Import DS.Model.Commit DS.Model.Fault DS.Model.Reader DS.Proofs.CommitProofs DS.Proofs.FaultProofs.
Import ListNotations.

Definition hist (z : rworld) := w_hist (fw (rx z)).

Record RInv (c : cfg) (z : rworld) : Prop := {
  RI_f : FInv c (rx z);
  RI_r : forall r,
    let s := r_readers z r in
    (forall st, r_start s = Some st -> (st <= length (hist z))%nat)
    /\ (forall v, r_vid s = Some v ->
          exists i st, r_idx s = Some i /\ r_start s = Some st /\ (st <= i <= length (hist z))%nat
                       /\ v = version_at (hist z) i /\ In v (committed (fw (rx z))))
    /\ (r_vid s = None -> r_idx s = None)
    /\ r_ok s = true
    /\ (forall e, r_end s = Some e -> exists i, r_idx s = Some i /\ (i <= e <= length (hist z))%nat) }.

Lemma hist_grows c x fe x' : fstep c x fe = Some x' -> exists t, w_hist (fw x') = w_hist (fw x) ++ t.
Proof.
  destruct fe as [e|a|a]; simpl.
  - destruct (step c (fw x) e) as [w'|] eqn:St; [|discriminate]. intro H; inversion H; subst x'; simpl.
    destruct (step_cases c _ _ _ St) as [_ [[now [_ [_ [_ [Hi _]]]]]|[[_ [_ [_ [Hi _]]]]|[_ [Hi _]]]]]; rewrite Hi.
    + exists []. rewrite app_nil_r. reflexivity.
    + eexists. reflexivity.
    + exists []. rewrite app_nil_r. reflexivity.
  - destruct (can_write _); [|discriminate]. intro H; inversion H; simpl. exists []. rewrite app_nil_r. reflexivity.
  - destruct (can_rollback _); [|discriminate]. intro H; inversion H; simpl. exists []. rewrite app_nil_r. reflexivity.
Qed.

Lemma version_at_stable h t i : (i <= length h)%nat -> version_at (h ++ t) i = version_at h i.
Proof. intro L. unfold version_at. rewrite firstn_app. replace (i - length h)%nat with 0%nat by lia. simpl. rewrite app_nil_r. reflexivity. Qed.

Lemma version_at_full h : version_at h (length h) = lastv 0%nat h.
Proof. unfold version_at, lastv. rewrite firstn_all. reflexivity. Qed.

Lemma committed_grows h t v : In v (comm h) -> In v (comm (h ++ t)).
Proof. unfold comm. rewrite map_app. simpl. intros [E|H]; [left; exact E | right; apply in_or_app; left; exact H]. Qed.

Lemma existsb_eqb_in f l : existsb (Nat.eqb f) l = true <-> In f l.
Proof.
  rewrite existsb_exists. split.
  - intros [g [G E]]. apply Nat.eqb_eq in E. subst. exact G.
  - intro H. exists f. split; [exact H | apply Nat.eqb_refl].
Qed.

Lemma rstep_inv c z e z' : sound c -> RInv c z -> rstep c z e = Some z' -> RInv c z'.
Proof.
  intros Snd I H. destruct e as [fe|r|r|r f|r]; simpl in H.
  - (* writer-side event *)
    destruct (fstep c (rx z) fe) as [x'|] eqn:St; [|discriminate]. inversion H; subst z'; clear H.
    destruct (hist_grows c _ _ _ St) as [t Ht].
    constructor; simpl; [eapply fstep_inv; eauto; apply I|].
    intro r. destruct (RI_r c z I r) as [A [B [C [D E]]]]. unfold hist in *. simpl. rewrite Ht.
    repeat split; auto.
    + intros st Hs. specialize (A st Hs). rewrite app_length. lia.
    + intros v Hv. destruct (B v Hv) as [i [st [B1 [B2 [B3 [B4 B5]]]]]]. exists i, st.
      repeat split; auto; try lia.
      * rewrite app_length. lia.
      * rewrite version_at_stable by lia. exact B4.
      * apply (committed_grows _ t v B5).
    + intros e0 He. destruct (E e0 He) as [i [E1 E2]]. exists i. split; auto. rewrite app_length. lia.
  - (* RStart *)
    destruct (r_start (r_readers z r)) eqn:S0; [discriminate|]. inversion H; subst z'; clear H.
    constructor; simpl; [apply I|]. intro q. unfold updr. destruct (Nat.eqb_spec q r) as [->|NE]; [|apply (RI_r c z I q)].
    simpl. unfold hist. simpl. repeat split; auto; try discriminate.
    intros st E. inversion E. lia.
  - (* RPtr *)
    destruct (r_start (r_readers z r)) as [st|] eqn:S0; [|discriminate].
    destruct (r_vid (r_readers z r)) eqn:V0; [discriminate|]. inversion H; subst z'; clear H.
    destruct (RI_r c z I r) as [A [B [C [D E]]]].
    constructor; simpl; [apply I|]. intro q. unfold updr. destruct (Nat.eqb_spec q r) as [->|NE]; [|apply (RI_r c z I q)].
    simpl. unfold hist in *. simpl. repeat split; auto; try discriminate.
    + intros st0 E0. inversion E0; subst st0. apply (A st S0).
    + intros v Hv. inversion Hv; subst v. exists (length (w_hist (fw (rx z)))), st. specialize (A st S0).
      repeat split; auto; try lia.
      * rewrite version_at_full. apply (I_ptr c _ (FI_inv c _ (RI_f c z I))).
      * apply (ptr_committed c _ (FI_inv c _ (RI_f c z I))).
  - (* RFile *)
    destruct (r_vid (r_readers z r)) as [v|] eqn:V0; [|discriminate].
    destruct (r_end (r_readers z r)) eqn:E0; [discriminate|].
    destruct (existsb (Nat.eqb f) (refs (rx z) v)) eqn:InR; [|discriminate]. inversion H; subst z'; clear H.
    pose proof (RI_r c z I r) as R. cbv zeta in R. rewrite V0, E0 in R. destruct R as [A [B [C [D E]]]].
    constructor; simpl; [apply I|]. intro q. cbv zeta. unfold updr. destruct (Nat.eqb_spec q r) as [->|NE]; [|apply (RI_r c z I q)].
    simpl. unfold hist in *. simpl. split; [exact A|]. split; [exact B|]. split; [discriminate|]. split; [|discriminate].
    rewrite D. simpl. apply existsb_eqb_in.
    destruct (B v eq_refl) as [i [st [_ [_ [_ [_ Cv]]]]]].
    apply (finv_present c _ (RI_f c z I) v Cv). apply existsb_eqb_in. exact InR.
  - (* REnd *)
    destruct (r_vid (r_readers z r)) as [v|] eqn:V0; [|discriminate].
    destruct (r_end (r_readers z r)) eqn:E0; [discriminate|]. inversion H; subst z'; clear H.
    pose proof (RI_r c z I r) as R. cbv zeta in R. rewrite V0, E0 in R. destruct R as [A [B [C [D E]]]].
    constructor; simpl; [apply I|]. intro q. cbv zeta. unfold updr. destruct (Nat.eqb_spec q r) as [->|NE]; [|apply (RI_r c z I q)].
    simpl. unfold hist in *. simpl. split; [exact A|]. split; [exact B|]. split; [discriminate|]. split; [exact D|].
    intros e0 He. inversion He; subst e0. destruct (B v eq_refl) as [i [st [B1 [_ [B3 _]]]]]. exists i. split; auto. lia.
Qed.

Lemma rinit_inv c x : FInv c x -> RInv c (rinit x).
Proof.
  intro I. constructor; simpl; auto. intro r. simpl. repeat split; auto; discriminate.
Qed.

Lemma rrun_inv c z evs : sound c -> RInv c z -> RInv c (rrun c z evs).
Proof.
  intro Snd. revert z. induction evs as [|e l IH]; intros z I; [exact I|].
  change (RInv c (rrun c (rstep_skip c z e) l)). apply IH. unfold rstep_skip.
  destruct (rstep c z e) eqn:St; [eapply rstep_inv; eauto | exact I].
Qed.

Theorem reader_snapshot c m0 kind mr r0 next evs :
  sound c -> (forall f, In f r0 -> (f < next)%nat) ->
  let z := rrun c (rinit (finit m0 kind mr r0 next)) evs in
  forall r v, r_vid (r_readers z r) = Some v ->
    exists i st, r_idx (r_readers z r) = Some i /\ r_start (r_readers z r) = Some st
      /\ (st <= i <= length (hist z))%nat /\ v = version_at (hist z) i
      /\ r_ok (r_readers z r) = true
      /\ (forall e, r_end (r_readers z r) = Some e -> (i <= e)%nat)
      /\ (forall f, In f (refs (rx z) v) -> In f (f_present (rx z))).
Proof.
  intros Snd A z r v Hv.
  assert (I : RInv c z) by (apply rrun_inv; [exact Snd | apply rinit_inv; apply finit_inv; exact A]).
  destruct (RI_r c z I r) as [_ [B [_ [D E]]]]. destruct (B v Hv) as [i [st [B1 [B2 [B3 [B4 B5]]]]]].
  exists i, st. repeat split; auto; try lia.
  - intros e He. destruct (E e He) as [i' [E1 E2]]. rewrite B1 in E1. inversion E1; subst. lia.
  - intros f Hf. apply (finv_present c _ (RI_f c z I) v B5 f Hf).
Qed.

Theorem hist_monotone c z evs : exists t, hist (rrun c z evs) = hist z ++ t.
Proof.
  revert z. induction evs as [|e l IH]; intro z; [exists []; rewrite app_nil_r; reflexivity|].
  change (exists t, hist (rrun c (rstep_skip c z e) l) = hist z ++ t).
  destruct (IH (rstep_skip c z e)) as [t Ht]. rewrite Ht. unfold rstep_skip.
  destruct (rstep c z e) as [z'|] eqn:St; [|eexists; reflexivity].
  destruct e as [fe|r|r|r f|r]; simpl in St.
  - destruct (fstep c (rx z) fe) as [x'|] eqn:Sf; [|discriminate]. inversion St; subst z'.
    destruct (hist_grows c _ _ _ Sf) as [t2 Ht2]. unfold hist. simpl. rewrite Ht2, <- app_assoc. eexists. reflexivity.
  - destruct (r_start _); [discriminate|]. inversion St; subst z'. eexists; reflexivity.
  - destruct (r_start _); [|discriminate]. destruct (r_vid _); [discriminate|]. inversion St; subst z'. eexists; reflexivity.
  - destruct (r_vid _); [|discriminate]. destruct (r_end _); [discriminate|]. destruct (existsb _ _); [|discriminate].
    inversion St; subst z'. eexists; reflexivity.
  - destruct (r_vid _); [|discriminate]. destruct (r_end _); [discriminate|]. inversion St; subst z'. eexists; reflexivity.
Qed.
