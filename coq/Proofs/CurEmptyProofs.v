(* Proofs/CurEmptyProofs.v -- "the current snapshot is among the retained snapshots OR THE TABLE IS EMPTY": after any history,
   a table without a current snapshot (null or the -1 sentinel) has no snapshots at all.  (An audit of Props/C15.v pointed out that
   MetaSpec.cur_ok alone allows "no current snapshot" on a non-empty table.) *)
From Coq Require Import ZArith List Bool Sorted Lia.
Require Import DS.Model.MetaBase DS.Gen.GenRepoint DS.Model.Meta DS.Model.MetaSpec.
Require Import DS.Proofs.RepointProofs DS.Proofs.MetaProofs.
Import ListNotations.
Open Scope Z_scope.

(* "the current snapshot is among the retained snapshots (OR THE TABLE IS EMPTY)": no current snapshot => no snapshots *)
Definition cur_nil_empty (m : meta) : Prop := nil_link (cur m) -> snaps m = [].

Lemma cur_expire c m : cur (expire c m) = cur m. Proof. reflexivity. Qed.
Lemma cur_retention m : cur (apply_retention m) = cur m.
Proof. destruct (apply_retention_cases m) as [->|[n [_ [_ ->]]]]; reflexivity. Qed.

Lemma repoint_all_nil all : repoint_all all [] = []. Proof. reflexivity. Qed.

Lemma snaps_expire_nil c m : snaps m = [] -> snaps (expire c m) = [].
Proof. intro H. unfold expire. rewrite H. reflexivity. Qed.

Lemma not_nil_pos x : 0 < x -> ~ nil_link (Some x).
Proof. intros P [H|H]; [discriminate|inversion H; lia]. Qed.

Lemma expire_cne c m : cur_nil_empty m -> cur_nil_empty (expire c m).
Proof. intros E N. rewrite cur_expire in N. apply snaps_expire_nil. apply E. exact N. Qed.

Check apply_retention_cases.
Check delete_snapshot_cases.
Check gstep_inv.

Lemma retention_cne m : cur_nil_empty m -> cur_nil_empty (apply_retention m).
Proof.
  intros E N. rewrite cur_retention in N. pose proof (E N) as S.
  unfold apply_retention. destruct (retention m) as [|n|]; try exact S. rewrite S. simpl length.
  destruct ((n <? 1) || (Z.of_nat 0 <=? n)) eqn:G; [exact S|].
  apply orb_false_iff in G. destruct G as [G1 G2]. apply Z.ltb_ge in G1. apply Z.leb_gt in G2. simpl in G2. lia.
Qed.

Lemma md_commit_cur st new tu f : cur (md (md_commit st new tu f)) = cur new /\ snaps (md (md_commit st new tu f)) = snaps new.
Proof. split; reflexivity. Qed.

Lemma cne_ext m m' : cur m' = cur m -> snaps m' = snaps m -> cur_nil_empty m -> cur_nil_empty m'.
Proof. intros C S E N. rewrite S. apply E. rewrite <- C. exact N. Qed.

Lemma remove_first_incl id l rest : remove_first id l = Some rest -> incl rest l.
Proof.
  revert rest. induction l as [|s l IH]; intros rest H; simpl in H; [discriminate|].
  destruct (sid s =? id); [inversion H; subst; intros x Hx; right; exact Hx|].
  destruct (remove_first id l) as [r|]; [|discriminate]. inversion H; subst.
  intros x [<-|Hx]; [left; reflexivity|right; apply (IH r eq_refl); exact Hx].
Qed.

Lemma most_recent_nil_empty m : (forall x, In x (sids m) -> 0 < x) -> nil_link (most_recent m) -> snaps m = [].
Proof.
  intros P N. destruct (snaps m) as [|s0 rest] eqn:E; [reflexivity|]. exfalso.
  destruct (most_recent_ok m) as [Hn|[x [Hx Hin]]].
  - unfold most_recent in Hn. rewrite E in Hn. destruct (find _ _); discriminate.
  - rewrite Hx in N. apply (not_nil_pos x (P x Hin)). exact N.
Qed.

Lemma step_cne st o :
  cur_nil_empty (md st) -> (forall x, In x (sids (md st)) -> 0 < x) -> (forall i, In i (op_ids o) -> 0 < i) ->
  cur_nil_empty (md (step st o)).
Proof.
  intros E P I. unfold step, step_full. destruct o as [ops id t tu f|id tu f|v tu f|v tu f].
  - destruct ops as [|o0 ops']; [exact E|]. set (OPS := o0 :: ops').
    destruct (tx_adds OPS) as [|a adds] eqn:EA, (tx_dels OPS) as [|d dels] eqn:ED.
    1: { cbn [fst]. destruct (tx_expire OPS); (eapply cne_ext; [apply md_commit_cur|apply md_commit_cur|]); [apply expire_cne|]; exact E. }
    all: destruct (base_manifests (md st)); [|exact E].
    all: match goal with |- context [create_snapshot ?a ?b ?c ?d ?e] => destruct (create_snapshot a b c d e) as [m'|] eqn:CS end; [|exact E].
    all: cbn [fst]; intro N; exfalso; destruct (md_commit_cur st m' tu f) as [C _]; rewrite C in N;
      unfold create_snapshot in CS; destruct (existsb _ _); [|discriminate]; inversion CS; subst m';
      rewrite cur_retention in N; destruct (tx_expire OPS); rewrite ?cur_expire in N; simpl in N;
      (apply (not_nil_pos id); [apply I; left; reflexivity | exact N]).
  - destruct (delete_snapshot_cases (md st) id) as [[Hn _]|[rest [RF Hd]]]; [rewrite Hn; exact E|]. rewrite Hd. cbn [fst].
    eapply cne_ext; [apply md_commit_cur|apply md_commit_cur|].
    assert (PD : forall x, In x (sids (delete_pruned (md st) id rest)) -> 0 < x).
    { intros x Hx. unfold delete_pruned in Hx. rewrite prune_sids in Hx. apply P. unfold sids.
      apply in_map_iff in Hx. destruct Hx as [s [<- Hs]]. apply in_map. apply (remove_first_incl _ _ _ RF). exact Hs. }
    destruct (opt_eqb (cur (md st)) (Some id)) eqn:OE.
    + intro N. cbn [cur snaps with_snaps] in *. apply most_recent_nil_empty; assumption.
    + intro N. unfold delete_pruned, prune_with in N. cbn [cur with_snaps] in N. pose proof (E N) as S. rewrite S in RF. discriminate.
  - cbn [fst]. eapply cne_ext; [apply md_commit_cur|apply md_commit_cur|]. exact E.
  - cbn [fst]. eapply cne_ext; [apply md_commit_cur|apply md_commit_cur|]. exact E.
Qed.

Lemma inv_sids_pos ids st g : Inv ids st g -> Forall (fun i => 0 < i) ids -> forall x, In x (sids (md st)) -> 0 < x.
Proof.
  intros I F x Hx. destruct I as [C _ _ Iu _ _ _]. destruct (c_ret _ _ C) as [_ Hr].
  unfold sids in Hx. apply in_map_iff in Hx. destruct Hx as [s [<- Hs]]. destruct (Hr s Hs) as [h [Hh [Hid _]]].
  rewrite <- Hid. rewrite Forall_forall in F. apply F. apply Iu. apply in_map. exact Hh.
Qed.

Theorem cur_nil_means_empty : forall t0 f0 ops, fresh_ops f0 ops ->
  nil_link (cur (md (replay t0 f0 ops))) -> snaps (md (replay t0 f0 ops)) = [].
Proof.
  intros t0 f0 ops. induction ops as [|o ops IH] using rev_ind; intros Hf.
  - intros _. reflexivity.
  - pose proof Hf as Hf0. apply fresh_ops_snoc in Hf. destruct Hf as [Hf [Hids _]].
    unfold replay. rewrite run_snoc. fold (replay t0 f0 ops).
    apply step_cne.
    + exact (IH Hf).
    + pose proof (grun_inv t0 f0 ops Hf) as I. rewrite <- grun_fst. eapply inv_sids_pos; [exact I|]. apply Hf.
    + intros i Hi. apply (Hids i Hi).
Qed.
