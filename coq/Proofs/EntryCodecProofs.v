(* Proofs/EntryCodecProofs.v -- the manifest entry codec regenerated from file_manager.py (Gen/GenEntryCodec.v) loses
   nothing: for every DataFile, reading back what create_manifest_file stores yields the same DataFile (up to: an
   empty statistics / bounds map reads back as none; partition values come back as the strings they were stored as),
   with the adding snapshot and sequence number of an EXISTING (carried-over) entry unchanged and those of an ADDED
   entry set to the committing snapshot's.  Hypotheses = the inverse laws of the primitive codecs:
     int(str(k)) = k on field ids; _decode_bound(_encode_bound(v)) = v for the values a bound can take (C13_bound_roundtrip);
     _safe_int(n) = n on ints.  Props/C13.v instantiates enc / dec with the regenerated bound codec (Gen/GenBound.v). *)
From Coq Require Import ZArith List Bool.
Require Import DS.Model.ManifestCodec DS.Gen.GenEntryCodec.
Import ListNotations.
Open Scope Z_scope.

Section Roundtrip.
  Variables bval ebound skey : Type.
  Variables (enc : bval -> ebound) (dec : ebound -> bval) (str_of : Z -> skey) (int_of : skey -> Z) (safe_int : Z -> Z) (pstr : Z -> Z).
  Hypothesis int_str : forall k, int_of (str_of k) = k.
  Variable okb : bval -> bool.          (* the values a bound can take (C13: `boundable`) *)
  Hypothesis dec_enc : forall v, okb v = true -> dec (enc v) = v.
  Hypothesis safe_int_id : forall z, safe_int z = z.

  Notation write := (gen_write_entry bval ebound skey enc str_of safe_int pstr).
  Notation read := (gen_read_entry bval ebound skey dec int_of).

  Lemma map_inverse {K V K' V'} (P : K * V -> Prop) (f : K * V -> K' * V') (g : K' * V' -> K * V) l :
    (forall x, P x -> g (f x) = x) -> Forall P l -> map g (map f l) = l.
  Proof. intros H F. induction F as [|x l Px F IH]; simpl; [reflexivity|]. rewrite (H x Px), IH. reflexivity. Qed.

  Definition all_in {K V} (P : K * V -> Prop) (d : option (list (K * V))) : Prop :=
    match d with Some l => Forall P l | None => True end.

  Lemma dict_roundtrip {K V K' V'} (P : K * V -> Prop) (f : K * V -> K' * V') (g : K' * V' -> K * V) d :
    (forall x, P x -> g (f x) = x) -> all_in P d -> py_dictcomp_if_truthy g (py_dictcomp_or_none f d) = norm_map d.
  Proof.
    intros H A. destruct d as [[|x l]|]; try reflexivity.
    unfold py_dictcomp_or_none, py_dictcomp_if_truthy, norm_map. rewrite (map_inverse P f g (x :: l) H A). reflexivity.
  Qed.

  Lemma stat_inv (x : Z * Z) : True -> (fun kv : skey * Z => (int_of (fst kv), snd kv)) ((fun kv : Z * Z => (str_of (fst kv), safe_int (snd kv))) x) = x.
  Proof. intros _. destruct x as [k v]. cbn. rewrite int_str, safe_int_id. reflexivity. Qed.

  Definition okkv (x : Z * bval) : Prop := okb (snd x) = true.
  Lemma bound_inv (x : Z * bval) : okkv x -> (fun kv : skey * ebound => (int_of (fst kv), dec (snd kv))) ((fun kv : Z * bval => (str_of (fst kv), enc (snd kv))) x) = x.
  Proof. intro O. destruct x as [k v]. cbn. rewrite int_str, (dec_enc v O). reflexivity. Qed.

  Lemma all_true {K V} (d : option (list (K * V))) : all_in (fun _ => True) d.
  Proof. destruct d as [l|]; simpl; [induction l; constructor; auto | exact I]. Qed.

  (* every bound of the DataFile is a value a bound can take *)
  Definition bounds_ok (df : datafile bval) : Prop := all_in okkv (df_lower df) /\ all_in okkv (df_upper df).

  (* what a stored-and-read-back DataFile is: the normalised original with stringified partition values and the stamp *)
  Definition stored (df : datafile bval) (added seq : option Z) : datafile bval :=
    let n := normalize df in
    {| df_path := df_path n; df_format := df_format n; df_partition := map (fun kv => (fst kv, pstr (snd kv))) (df_partition n);
       df_count := df_count n; df_size := df_size n; df_column_sizes := df_column_sizes n; df_value_counts := df_value_counts n;
       df_null_counts := df_null_counts n; df_lower := df_lower n; df_upper := df_upper n; df_checksum := df_checksum n;
       df_added := added; df_seq := seq |}.

  Theorem entry_roundtrip status id sq df : bounds_ok df ->
    read (write status id sq df) =
    stored df (fst (gen_entry_stamp bval status id sq df)) (snd (gen_entry_stamp bval status id sq df)).
  Proof.
    intro BOK. revert BOK. unfold gen_read_entry, gen_write_entry, stored, normalize.
    cbn [r_path r_format r_partition r_count r_size r_column_sizes r_value_counts r_null_counts r_lower r_upper r_checksum
         r_snapshot_id r_sequence_number r_file_sequence_number df_path df_format df_partition df_count df_size df_column_sizes
         df_value_counts df_null_counts df_lower df_upper df_checksum df_added df_seq].
    intros [BL BU].
    rewrite !(dict_roundtrip _ _ _ _ stat_inv (all_true _)), (dict_roundtrip _ _ _ _ bound_inv BL), (dict_roundtrip _ _ _ _ bound_inv BU).
    assert (P : forall o : option Z, py_first_some o o = o) by (intros [?|]; reflexivity). rewrite P. reflexivity.
  Qed.

  (* a carried-over entry keeps the snapshot and sequence number the file was ADDED with, and every other field *)
  Corollary existing_entry_roundtrip id sq df : bounds_ok df ->
    read (write gen_status_existing id sq df) = stored df (df_added df) (df_seq df).
  Proof. intro B. rewrite (entry_roundtrip _ _ _ _ B). reflexivity. Qed.

  (* a new entry is stamped with the committing snapshot's id and sequence number *)
  Corollary added_entry_roundtrip id sq df : bounds_ok df ->
    read (write gen_status_added id sq df) = stored df (Some id) sq.
  Proof. intro B. rewrite (entry_roundtrip _ _ _ _ B). reflexivity. Qed.

  Lemma all_in_norm {K V} (P : K * V -> Prop) (d : option (list (K * V))) : all_in P d -> all_in P (norm_map d).
  Proof. destruct d as [[|x l]|]; simpl; auto. Qed.

  Lemma stored_bounds_ok df a q : bounds_ok df -> bounds_ok (stored df a q).
  Proof. intros [L U]. split; unfold stored, normalize; cbn [df_lower df_upper]; apply all_in_norm; assumption. Qed.

  (* in particular: checksum, bounds and statistics survive any number of rewrites (stored is idempotent up to the stamp) *)
  Corollary rewrite_preserves id sq id' sq' df : bounds_ok df ->
    let once := read (write gen_status_added id sq df) in
    let twice := read (write gen_status_existing id' sq' once) in
    df_checksum twice = df_checksum df /\ df_lower twice = norm_map (df_lower df) /\ df_upper twice = norm_map (df_upper df)
    /\ df_path twice = df_path df /\ df_count twice = df_count df /\ df_size twice = df_size df
    /\ df_added twice = Some id /\ df_seq twice = sq.
  Proof.
    intros B once twice. subst once twice. rewrite (added_entry_roundtrip _ _ _ B).
    rewrite (existing_entry_roundtrip _ _ _ (stored_bounds_ok _ _ _ B)). unfold stored, normalize.
    cbn [df_path df_format df_partition df_count df_size df_column_sizes df_value_counts df_null_counts df_lower df_upper df_checksum df_added df_seq].
    repeat split; try reflexivity; [destruct (df_lower df) as [[|? ?]|] | destruct (df_upper df) as [[|? ?]|]]; reflexivity.
  Qed.
End Roundtrip.
