(* Proofs/RetryProofs.v -- the retry loop masks transients within budget, surfaces everything else. *)
From Coq Require Import List Bool Arith QArith Lia.
Require Import DS.Model.Str DS.Gen.GenS3 DS.Model.Retry DS.Proofs.StrProofs.
Import ListNotations.
Open Scope nat_scope.

Section RetryProofs.
  Context {V E : Type}.
  Notation outcome := (outcome V E).
  Notation rres := (rres V E).

  Definition transients (es : list E) : list outcome := map (@Transient V E) es.

  Lemma retry_skip : forall (es : list E) budget (rest : list outcome),
    length es <= budget ->
    retry budget (transients es ++ rest) =
    (fst (retry (budget - length es) rest), length es + snd (retry (budget - length es) rest)).
  Proof.
    induction es as [|e es IH]; intros budget rest H; simpl in *.
    - rewrite Nat.sub_0_r. destruct (retry budget rest). reflexivity.
    - destruct budget as [|b]; [lia|]. cbn [retry]. rewrite (IH b rest) by lia. reflexivity.
  Qed.

  (* transient errors within the budget are masked: the value of the first good attempt is returned *)
  Lemma retry_masks : forall max (es : list E) (v : V) (rest : list outcome),
    length es <= max -> retry max (transients es ++ Good v :: rest) = (Returned v, S (length es)).
  Proof. intros. rewrite retry_skip by assumption. simpl. f_equal. lia. Qed.

  (* a permanent error surfaces at once: no attempt is made after it *)
  Lemma retry_permanent : forall max (es : list E) (e : E) (rest : list outcome),
    length es <= max -> retry max (transients es ++ Permanent e :: rest) = (Raised e, S (length es)).
  Proof. intros. rewrite retry_skip by assumption. simpl. f_equal. lia. Qed.

  Lemma retry_nonretryable : forall max (es : list E) (e : E) (rest : list outcome),
    length es <= max -> retry max (transients es ++ NonRetryable e :: rest) = (Raised e, S (length es)).
  Proof. intros. rewrite retry_skip by assumption. simpl. f_equal. lia. Qed.

  (* max+1 transients: the last one is raised after exactly max+1 attempts *)
  Lemma retry_exhaust : forall max (es : list E) (e : E) (rest : list outcome),
    length es = max -> retry max (transients es ++ Transient e :: rest) = (Raised e, S max).
  Proof. intros max es e rest H. rewrite retry_skip by lia. rewrite H, Nat.sub_diag. simpl. f_equal. lia. Qed.

  Lemma retry_attempts_bound : forall budget (outs : list outcome), snd (retry budget outs) <= S budget.
  Proof.
    induction budget as [|b IH]; intros outs; destruct outs as [|[v|e|e|e] rest]; simpl; try lia.
    specialize (IH rest). destruct (retry b rest). simpl in *. lia.
  Qed.

  (* complete characterisation: whatever retry answers is the outcome of its last attempt, every earlier
     attempt was a transient failure, and the loop never invents or swallows a value *)
  Lemma retry_spec : forall budget (outs : list outcome) r n, retry budget outs = (r, n) ->
    (r = ScriptEnded /\ (exists es, outs = transients es) /\ n = length outs /\ n <= budget)
    \/ exists es last rest, outs = transients es ++ last :: rest /\ n = S (length es) /\ length es <= budget /\
         match last with
         | Good v => r = Returned v
         | Permanent e | NonRetryable e => r = Raised e
         | Transient e => r = Raised e /\ length es = budget
         end.
  Proof.
    induction budget as [|b IH]; intros outs r n H.
    - destruct outs as [|[v|e|e|e] rest]; simpl in H; inversion H; subst.
      + left. split; [reflexivity|]. split; [exists []; reflexivity|]. split; simpl; lia.
      + right. exists [], (Good v), rest. repeat split; simpl; lia.
      + right. exists [], (Transient e), rest. repeat split; simpl; lia.
      + right. exists [], (Permanent e), rest. repeat split; simpl; lia.
      + right. exists [], (NonRetryable e), rest. repeat split; simpl; lia.
    - destruct outs as [|[v|e|e|e] rest]; simpl in H.
      + inversion H; subst. left. split; [reflexivity|]. split; [exists []; reflexivity|]. split; simpl; lia.
      + inversion H; subst. right. exists [], (Good v), rest. repeat split; simpl; lia.
      + destruct (retry b rest) as [r' n'] eqn:Er. inversion H; subst.
        destruct (IH rest r n' Er) as [[Hr [Ho [Hn Hb]]]|[es [last [rest' [Ho [Hn [Hb Hl]]]]]]].
        * left. subst r. split; [reflexivity|]. split; [|split; [simpl; lia|lia]].
          destruct Ho as [es Ho]. exists (e :: es). simpl. f_equal. exact Ho.
        * right. exists (e :: es), last, rest'. split; [simpl; rewrite Ho; reflexivity|]. split; [simpl; lia|]. split; [simpl; lia|].
          destruct last; try exact Hl. destruct Hl as [Hl1 Hl2]. split; [exact Hl1|simpl; lia].
      + inversion H; subst. right. exists [], (Permanent e), rest. repeat split; simpl; lia.
      + inversion H; subst. right. exists [], (NonRetryable e), rest. repeat split; simpl; lia.
  Qed.

  (* never a swallowed or invented value: a returned value is the operation's own, from its last attempt *)
  Lemma retry_returns_own_value : forall budget (outs : list outcome) v n, retry budget outs = (Returned v, n) ->
    exists es rest, outs = transients es ++ Good v :: rest /\ n = S (length es) /\ length es <= budget.
  Proof.
    intros budget outs v n H. destruct (retry_spec budget outs _ _ H) as [[Hr _]|[es [last [rest [Ho [Hn [Hb Hl]]]]]]]; [discriminate|].
    destruct last as [v'|e|e|e]; try discriminate; try (destruct Hl; discriminate).
    inversion Hl; subst. exists es, rest. repeat split; assumption.
  Qed.

  (* an error is raised only if the operation raised that very error on the last attempt *)
  Lemma retry_raises_own_error : forall budget (outs : list outcome) e n, retry budget outs = (Raised e, n) ->
    exists es last rest, outs = transients es ++ last :: rest /\ n = S (length es) /\
      (last = Permanent e \/ last = NonRetryable e \/ (last = Transient e /\ length es = budget)).
  Proof.
    intros budget outs e n H. destruct (retry_spec budget outs _ _ H) as [[Hr _]|[es [last [rest [Ho [Hn [Hb Hl]]]]]]]; [discriminate|].
    exists es, last, rest. split; [exact Ho|]. split; [exact Hn|].
    destruct last as [v'|e'|e'|e']; try discriminate.
    - destruct Hl as [Hl1 Hl2]. injection Hl1 as Heq. rewrite Heq. right. right. split; [reflexivity|exact Hl2].
    - inversion Hl; subst. left. reflexivity.
    - inversion Hl; subst. right. left. reflexivity.
  Qed.
End RetryProofs.

(* ---------------------------------------------------------------- backoff delays *)
Lemma qmin_le_r : forall a b, (qmin a b <= b)%Q.
Proof.
  intros a b. unfold qmin. destruct (Qle_bool a b) eqn:E; [apply Qle_bool_iff; exact E|apply Qle_refl].
Qed.

Lemma backoff_bounded : forall n d mx f, (d <= mx)%Q -> Forall (fun x => (x <= mx)%Q) (backoff d mx f n).
Proof.
  induction n as [|n IH]; intros d mx f H; simpl; constructor; [exact H|]. apply IH. apply qmin_le_r.
Qed.

Lemma backoff_length : forall n d mx f, length (backoff d mx f n) = n.
Proof. induction n as [|n IH]; intros; simpl; [reflexivity|]. rewrite IH. reflexivity. Qed.

(* ---------------------------------------------------------------- classification + with_s3_retry *)
Lemma classify_permanent_code : forall {V} c, member c gen_permanent_codes = true ->
  @classify V (inr (ClientError c)) = Permanent (ClientError c).
Proof. intros V c H. unfold classify, is_permanent. rewrite H. reflexivity. Qed.

Lemma classify_transient_code : forall {V} c, member c gen_permanent_codes = false ->
  @classify V (inr (ClientError c)) = Transient (ClientError c).
Proof. intros V c H. unfold classify, is_permanent. rewrite H. reflexivity. Qed.

Definition transient_exn (e : exn) : Prop :=
  match e with ClientError c => member c gen_permanent_codes = false | BotoCoreErr | OSErr => True | _ => False end.
Definition permanent_exn (e : exn) : Prop :=
  match e with ClientError c => member c gen_permanent_codes = true | _ => False end.

Lemma classify_transients : forall {V} (es : list exn), Forall transient_exn es ->
  map (@classify V) (map inr es) = transients es.
Proof.
  induction es as [|e es IH]; intro H; [reflexivity|]. inversion H as [|? ? He Hes]; subst. cbn [map]. rewrite (IH Hes).
  unfold transients. cbn [map]. f_equal.
  destruct e; cbn [transient_exn] in He; try reflexivity; try contradiction. apply classify_transient_code. exact He.
Qed.

Lemma s3_retry_masks : forall {V} (es : list exn) (v : V) rest,
  Forall transient_exn es -> length es <= gen_max_retries ->
  with_s3_retry (map inr es ++ inl v :: rest) = (Returned v, S (length es)).
Proof.
  intros V es v rest Ht Hl. unfold with_s3_retry. rewrite map_app, (classify_transients es Ht). cbn [map].
  apply retry_masks. exact Hl.
Qed.

Lemma s3_retry_permanent : forall {V} (es : list exn) (e : exn) (rest : list (V + exn)),
  Forall transient_exn es -> length es <= gen_max_retries -> permanent_exn e ->
  with_s3_retry (map inr es ++ inr e :: rest) = (Raised e, S (length es)).
Proof.
  intros V es e rest Ht Hl He. unfold with_s3_retry. rewrite map_app, (classify_transients es Ht). cbn [map].
  destruct e; cbn [permanent_exn] in He; try contradiction. rewrite (classify_permanent_code _ He). apply retry_permanent. exact Hl.
Qed.

Lemma s3_retry_exhaust : forall {V} (es : list exn) (e : exn) (rest : list (V + exn)),
  Forall transient_exn es -> length es = gen_max_retries -> transient_exn e ->
  with_s3_retry (map inr es ++ inr e :: rest) = (Raised e, S gen_max_retries).
Proof.
  intros V es e rest Ht Hl He. unfold with_s3_retry. rewrite map_app, (classify_transients es Ht). cbn [map].
  replace (classify (inr e)) with (@Transient V exn e).
  - apply retry_exhaust. exact Hl.
  - destruct e; cbn [transient_exn] in He; try reflexivity; try contradiction. symmetry. apply classify_transient_code. exact He.
Qed.

(* every answer on the independent list of definitive S3 errors is one the library classifies permanent (checked against
   the REGENERATED table: dropping a code from PERMANENT_S3_ERROR_CODES breaks this proof) ... *)
Lemma definitive_permanent : forall e, definitive e = true -> permanent_exn e.
Proof.
  intros e H. destruct e; cbn [definitive] in H; try discriminate. cbn [permanent_exn].
  unfold definitive_codes in H. cbn [member] in H.
  repeat (apply orb_true_iff in H; destruct H as [H|H]; [apply str_eqb_eq in H; subst; vm_compute; reflexivity|]).
  discriminate H.
Qed.

(* ... so it surfaces with the attempt that met it: no further attempt, nothing swallowed *)
Lemma s3_retry_definitive : forall {V} (es : list exn) (e : exn) (rest : list (V + exn)),
  Forall transient_exn es -> length es <= gen_max_retries -> definitive e = true ->
  with_s3_retry (map inr es ++ inr e :: rest) = (Raised e, S (length es)).
Proof. intros V es e rest Ht Hl He. apply s3_retry_permanent; [exact Ht|exact Hl|apply definitive_permanent; exact He]. Qed.

Lemma s3_retry_sleeps_bounded : forall attempts, Forall (fun x => (x <= gen_max_delay)%Q) (with_s3_retry_sleeps attempts).
Proof. intro n. unfold with_s3_retry_sleeps. apply backoff_bounded. vm_compute. discriminate. Qed.
