(* Proofs/CommitLateProofs.v -- what the "412 => not applied" assumption carries (C01). *)
From Coq Require Import ZArith List Bool Arith Lia.
Require Import DS.Model.CommitBase DS.Gen.GenCommit DS.Model.Commit DS.Proofs.CommitGenProofs DS.Proofs.CommitProofs.
Require Import DS.Model.CommitLate.
Import ListNotations.
Open Scope Z_scope.

Lemma late_run_plain c w evs : no_late evs -> late_run c w evs = run c w (plain evs).
Proof.
  revert w. induction evs as [|[e|a] evs IH]; intros w N; [reflexivity| |inversion N; contradiction].
  inversion N; subst. change (late_run c w (LEv e :: evs)) with (late_run c (step_skip c w e) evs).
  change (plain (LEv e :: evs)) with (e :: plain evs). rewrite IH by assumption. reflexivity.
Qed.

(* with the assumption (no refused write was applied) the statement holds -- on conditional-write storage ... *)
Lemma conflict_not_reflected_partial c m0 kind mr evs :
  sound c -> no_late evs ->
  let w := late_run c (init_world m0 kind mr) evs in
  forall a, a_pc (w_actors w a) = PDone Conflict -> ~ In a (map snd (w_hist w)).
Proof.
  intros S N w a H In. unfold w in *. rewrite late_run_plain in * by assumption.
  apply (reach_acked c m0 kind mr (plain evs) S a) in In. rewrite H in In. discriminate.
Qed.

(* ... and without it the statement is false: one committer (retry budget 1, as delete_snapshot), its conditional
   write applied and answered 412: it reports a conflict and its commit is in the table *)
Definition late_cfg := {| cas := true; lockkind := Lease |}.
Definition late_m0 := {| m_ops := []; m_cur := 1; m_lu := 100 |}.
Definition late_sched : list lateev :=
  [ LEv {| e_actor := 0; e_kind := EBegin 0 |}; LEv {| e_actor := 0; e_kind := ELockTry true |};
    LEv {| e_actor := 0; e_kind := EValidate 0 true |}; LEv {| e_actor := 0; e_kind := EMetaW 101 |};
    LEv {| e_actor := 0; e_kind := EFence true |}; LLate 0; LEv {| e_actor := 0; e_kind := ERelease |} ]%nat.

Lemma late_witness :
  exists w, late_run_strict late_cfg (init_world late_m0 (fun _ => KKeep) (fun _ => 1%nat)) late_sched 0 = inl w
            /\ w = late_run late_cfg (init_world late_m0 (fun _ => KKeep) (fun _ => 1%nat)) late_sched
            /\ a_pc (w_actors w 0%nat) = PDone Conflict /\ map snd (w_hist w) = [0%nat]
            /\ m_ops (file w (w_ptr w)) = [0%nat].
Proof. eexists. split; [vm_compute; reflexivity|]. repeat split; vm_compute; reflexivity. Qed.

Lemma conflict_not_reflected_refuted : ~ conflict_not_reflected_with_resent_writes.
Proof.
  intro H. specialize (H late_cfg late_m0 (fun _ => KKeep) (fun _ => 1%nat) late_sched eq_refl 0%nat).
  apply H; vm_compute; auto.
Qed.
