(* Proofs/DurableProofs.v -- safety of the publish discipline under relational power loss (C16).

   Part A (this file): every trace accepted by Durable.check keeps the invariant Inv between the
   ghost state and the file system, under EVERY schedule of background persistence events; Inv
   implies that whatever the durable pointer's content refers to is durably present, whole, and
   closed under references.
   Part B: DurablePrograms.v shows that trace_of ops is accepted for every well-formed history. *)
From Coq Require Import NArith List Bool Arith Lia.
Require Import DS.Model.Durable.
Import ListNotations.
Open Scope N_scope.

Notation vE s := (entry (vol s)).
Notation vD s := (data (vol s)).
Notation dE s := (entry (dur s)).
Notation dD s := (data (dur s)).

(* ---------------------------------------------------------------- basic facts *)
Lemma path_eqb_spec : forall a b, reflect (a = b) (path_eqb a b).
Proof.
  intros [d n|d n] [d' n'|d' n']; simpl; try (constructor; congruence);
    destruct (N.eqb_spec d d'), (N.eqb_spec n n'); simpl; constructor; congruence.
Qed.

Lemma path_eqb_refl : forall a, path_eqb a a = true.
Proof. intro a. destruct (path_eqb_spec a a); congruence. Qed.

Lemma path_eqb_neq : forall a b, a <> b -> path_eqb a b = false.
Proof. intros a b H. destruct (path_eqb_spec a b); congruence. Qed.

Lemma upd_e_same : forall f p v, upd_e f p v p = v.
Proof. intros. unfold upd_e. now rewrite path_eqb_refl. Qed.
Lemma upd_e_other : forall f p v x, x <> p -> upd_e f p v x = f x.
Proof. intros. unfold upd_e. now rewrite path_eqb_neq. Qed.
Lemma upd_d_same : forall f i c, upd_d f i c i = c.
Proof. intros. unfold upd_d. now rewrite N.eqb_refl. Qed.
Lemma upd_d_other : forall f i c j, j <> i -> upd_d f i c j = f j.
Proof. intros. unfold upd_d. destruct (N.eqb_spec j i); congruence. Qed.
Lemma upd_t_same : forall f p v, upd_t f p v p = v.
Proof. intros. unfold upd_t. now rewrite path_eqb_refl. Qed.
Lemma upd_t_other : forall f p v x, x <> p -> upd_t f p v x = f x.
Proof. intros. unfold upd_t. now rewrite path_eqb_neq. Qed.
Lemma upd_s_same : forall f p v, upd_s f p v p = v.
Proof. intros. unfold upd_s. now rewrite path_eqb_refl. Qed.
Lemma upd_s_other : forall f p v x, x <> p -> upd_s f p v x = f x.
Proof. intros. unfold upd_s. now rewrite path_eqb_neq. Qed.

Lemma mem_In : forall p l, mem p l = true <-> In p l.
Proof.
  intros p l. unfold mem. rewrite existsb_exists. split.
  - intros [x [Hx He]]. destruct (path_eqb_spec p x); congruence.
  - intro H. exists p. split; [assumption|apply path_eqb_refl].
Qed.

Lemma existsb_eqb_In : forall x l, existsb (path_eqb x) l = true <-> In x l.
Proof. intros. apply mem_In. Qed.

(* ---------------------------------------------------------------- the invariant *)
Record Inv (g : ghost) (s : fs) : Prop := {
  i_fresh : forall x i, vE s x = Some i \/ dE s x = Some i -> i < next s;
  i_tnone : forall d n, tmps g (T d n) = None -> vE s (T d n) = None;
  i_tsome : forall d n c b, tmps g (T d n) = Some (c, b) ->
      exists i, vE s (T d n) = Some i /\ vD s i = c /\ (b = true -> dD s i = c)
        /\ (forall d' n', vE s (P d' n') <> Some i /\ dE s (P d' n') <> Some i)
        /\ (forall d' n', T d' n' <> T d n -> vE s (T d' n') <> Some i);
  i_vol : forall d n i, vE s (P d n) = Some i ->
      exists c b, st g (P d n) = Linked c b /\ vD s i = c /\ dD s i = c;
  i_linked : forall d n c b, st g (P d n) = Linked c b ->
      exists i, vE s (P d n) = Some i /\ (b = true -> dE s (P d n) = Some i);
  i_dur : forall d n i c b, dE s (P d n) = Some i -> P d n <> PTR -> st g (P d n) = Linked c b -> dD s i = c;
  i_sealed : forall d n i, dE s (P d n) = Some i -> vD s i = dD s i;
  i_freshname : forall d n, st g (P d n) = Fresh -> vE s (P d n) = None /\ dE s (P d n) = None;
  i_ptr : forall i r, dE s PTR = Some i -> In r (refs (dD s i)) -> refd g r = true;
  i_refs : forall d n c b r, st g (P d n) = Linked c b -> In r (refs c) -> refd g r = true;
  i_refd : forall r, refd g r = true -> is_final r = true /\ r <> PTR /\ exists c, st g r = Linked c true
}.

Lemma Inv_init : Inv g0 fs0.
Proof.
  constructor; simpl; intros; try discriminate; try tauto.
  - destruct H; discriminate.
Qed.

(* ---------------------------------------------------------------- background events *)
Lemma firstn_sealed : forall (c : content) k, (length c <= k)%nat -> firstn k c = c.
Proof. intros. now apply firstn_all2. Qed.

Lemma pdata_sealed : forall s j k i, vD s i = dD s i -> dD (bg_step s (PData j k)) i = dD s i.
Proof.
  intros s j k i H. simpl. destruct (Nat.leb_spec (length (dD s j)) k) as [Hk|Hk]; [|reflexivity].
  simpl. unfold upd_d. destruct (N.eqb_spec i j) as [->|]; [|reflexivity].
  rewrite H. apply firstn_sealed. now rewrite <- H in Hk |- *.
Qed.

Lemma pdata_frame : forall s j k,
  vol (bg_step s (PData j k)) = vol s /\ dE (bg_step s (PData j k)) = dE s /\ next (bg_step s (PData j k)) = next s.
Proof. intros. simpl. destruct (Nat.leb (length (dD s j)) k); simpl; auto. Qed.

Lemma Inv_bg : forall g s b, Inv g s -> Inv g (bg_step s b).
Proof.
  intros g s [j k|p] I.
  - (* PData *)
    destruct (pdata_frame s j k) as [Hv [He Hn]].
    pose proof (pdata_sealed s j k) as Hs.
    destruct I. constructor; rewrite ?Hv, ?He, ?Hn; auto.
    + intros d n c b Ht. destruct (i_tsome0 d n c b Ht) as [i [H1 [H2 [H3 [H4 H5]]]]].
      exists i. repeat split; auto; try apply H4.
      intro Hb. rewrite Hs; auto. rewrite H2, H3; auto.
    + intros d n i Hi. destruct (i_vol0 d n i Hi) as [c [b [H1 [H2 H3]]]].
      exists c, b. repeat split; auto. rewrite Hs; congruence.
    + intros d n i c b H1 H2 H3. rewrite Hs; eauto.
    + intros d n i H1. rewrite Hs; eauto.
    + intros i r H1. rewrite Hs; eauto.
  - (* PEntry *)
    destruct I. constructor; simpl; auto.
    + intros x i [H|H]; [eauto|]. unfold upd_e in H. destruct (path_eqb x p); eauto.
    + intros d n c b Ht. destruct (i_tsome0 d n c b Ht) as [i [H1 [H2 [H3 [H4 H5]]]]].
      exists i. repeat split; auto; try apply H4.
      unfold upd_e. destruct (path_eqb_spec (P d' n') p) as [<-|]; apply H4.
    + intros d n c b Hl. destruct (i_linked0 d n c b Hl) as [i [H1 H2]]. exists i. split; auto.
      intro Hb. unfold upd_e. destruct (path_eqb_spec (P d n) p) as [<-|]; auto.
    + intros d n i c b H1 H2 H3. unfold upd_e in H1. destruct (path_eqb_spec (P d n) p) as [<-|]; eauto.
      destruct (i_vol0 d n i H1) as [c' [b' [E1 [E2 E3]]]]. congruence.
    + intros d n i H1. unfold upd_e in H1. destruct (path_eqb_spec (P d n) p) as [<-|]; eauto.
      destruct (i_vol0 d n i H1) as [c' [b' [E1 [E2 E3]]]]. congruence.
    + intros d n Hf. destruct (i_freshname0 d n Hf) as [H1 H2]. split; auto.
      unfold upd_e. destruct (path_eqb_spec (P d n) p) as [<-|]; auto.
    + intros i r H1 H2. unfold upd_e in H1. destruct (path_eqb_spec PTR p) as [<-|]; eauto.
      destruct (i_vol0 0 0 i H1) as [c' [b' [E1 [E2 E3]]]]. rewrite E3 in H2. eapply i_refs0; eauto.
Qed.

(* ---------------------------------------------------------------- calls *)
Ltac inv_some := match goal with H : Some _ = Some _ |- _ => inversion H; subst; clear H end.

Lemma T_neq : forall d n d' n', T d' n' <> T d n -> path_eqb (T d' n') (T d n) = false.
Proof. intros. now apply path_eqb_neq. Qed.

Lemma Inv_create : forall g s d n g', check g (Create (T d n)) = Some g' -> Inv g s ->
  exists s', step s (Create (T d n)) = Some s' /\ Inv g' s'.
Proof.
  intros g s d n g' Hc I. simpl in Hc. destruct (tmps g (T d n)) eqn:Ht; [discriminate|]. inv_some.
  pose proof (i_tnone _ _ I d n Ht) as Hv. simpl. rewrite Hv. eexists; split; [reflexivity|].
  assert (Hlt : forall x i, vE s x = Some i \/ dE s x = Some i -> i <> next s).
  { intros x i H. apply (i_fresh _ _ I) in H. lia. }
  destruct I. constructor; simpl.
  - intros x i [H|H].
    + unfold upd_e in H. destruct (path_eqb x (T d n)); [inversion H; lia|]. assert (i < next s) by eauto. lia.
    + assert (i < next s) by eauto. lia.
  - intros d0 n0 H. unfold upd_t in H. unfold upd_e. destruct (path_eqb (T d0 n0) (T d n)); [discriminate|auto].
  - intros d0 n0 c b H. unfold upd_t in H. unfold upd_e at 1.
    destruct (path_eqb_spec (T d0 n0) (T d n)) as [E|E].
    + inversion H; subst. exists (next s). rewrite !upd_d_same. repeat split; auto.
      * rewrite upd_e_other by discriminate. intro Hx. eapply Hlt; eauto.
      * intro Hx. eapply Hlt; eauto.
      * intros d' n' Hne. rewrite upd_e_other by congruence. intro Hx. eapply Hlt; eauto.
    + destruct (i_tsome0 d0 n0 c b H) as [i [H1 [H2 [H3 [H4 H5]]]]].
      assert (i <> next s) by (eapply Hlt; eauto).
      exists i. rewrite !upd_d_other by auto. repeat split; auto.
      * rewrite upd_e_other by discriminate. apply H4.
      * apply H4.
      * intros d' n' Hne. unfold upd_e. destruct (path_eqb_spec (T d' n') (T d n)); [congruence|auto].
  - intros d0 n0 i H. rewrite upd_e_other in H by discriminate.
    assert (i <> next s) by (eapply Hlt; eauto). rewrite !upd_d_other by auto. eauto.
  - intros d0 n0 c b H. rewrite upd_e_other by discriminate. eauto.
  - intros d0 n0 i c b H1 H2 H3. assert (i <> next s) by (eapply Hlt; eauto). rewrite upd_d_other by auto. eauto.
  - intros d0 n0 i H1. assert (i <> next s) by (eapply Hlt; eauto). rewrite !upd_d_other by auto. eauto.
  - intros d0 n0 H. rewrite upd_e_other by discriminate. eauto.
  - intros i r H1. assert (i <> next s) by (eapply Hlt; eauto). rewrite upd_d_other by auto. eauto.
  - eauto.
  - eauto.
Qed.

Lemma Inv_write : forall g s d n w g', check g (Write (T d n) w) = Some g' -> Inv g s ->
  exists s', step s (Write (T d n) w) = Some s' /\ Inv g' s'.
Proof.
  intros g s d n w g' Hc I. simpl in Hc. destruct (tmps g (T d n)) as [[c0 b0]|] eqn:Ht; [|discriminate]. inv_some.
  destruct (i_tsome _ _ I d n c0 b0 Ht) as [i [H1 [H2 [H3 [H4 H5]]]]].
  simpl. rewrite H1. eexists; split; [reflexivity|].
  assert (HP : forall d' n' j, vE s (P d' n') = Some j \/ dE s (P d' n') = Some j -> j <> i).
  { intros d' n' j [H|H] E; subst; destruct (H4 d' n'); congruence. }
  destruct I. constructor; simpl; auto.
  - intros d0 n0 H. unfold upd_t in H. destruct (path_eqb (T d0 n0) (T d n)); [discriminate|auto].
  - intros d0 n0 c b H. unfold upd_t in H. destruct (path_eqb_spec (T d0 n0) (T d n)) as [E|E].
    + inversion E; subst. inversion H; subst. exists i. rewrite upd_d_same. repeat split; auto; try apply H4. discriminate.
    + destruct (i_tsome0 d0 n0 c b H) as [j [J1 [J2 [J3 [J4 J5]]]]].
      assert (j <> i) by (intro; subst; eapply H5; eauto).
      exists j. rewrite upd_d_other by auto. repeat split; auto; apply J4.
  - intros d0 n0 j H. rewrite upd_d_other by eauto. eauto.
  - intros d0 n0 j H. rewrite upd_d_other by eauto. eauto.
Qed.

Lemma Inv_fsync : forall g s d n g', check g (Fsync (T d n)) = Some g' -> Inv g s ->
  exists s', step s (Fsync (T d n)) = Some s' /\ Inv g' s'.
Proof.
  intros g s d n g' Hc I. simpl in Hc. destruct (tmps g (T d n)) as [[c0 b0]|] eqn:Ht; [|discriminate]. inv_some.
  destruct (i_tsome _ _ I d n c0 b0 Ht) as [i [H1 [H2 [H3 [H4 H5]]]]].
  simpl. rewrite H1. eexists; split; [reflexivity|].
  assert (HP : forall d' n' j, vE s (P d' n') = Some j \/ dE s (P d' n') = Some j -> j <> i).
  { intros d' n' j [H|H] E; subst; destruct (H4 d' n'); congruence. }
  destruct I. constructor; simpl; auto.
  - intros d0 n0 H. unfold upd_t in H. destruct (path_eqb (T d0 n0) (T d n)); [discriminate|auto].
  - intros d0 n0 c b H. unfold upd_t in H. destruct (path_eqb_spec (T d0 n0) (T d n)) as [E|E].
    + inversion E; subst. inversion H; subst. exists i. rewrite upd_d_same. repeat split; auto; apply H4.
    + destruct (i_tsome0 d0 n0 c b H) as [j [J1 [J2 [J3 [J4 J5]]]]].
      assert (j <> i) by (intro; subst; eapply H5; eauto).
      exists j. rewrite upd_d_other by auto. repeat split; auto; apply J4.
  - intros d0 n0 j H. rewrite upd_d_other by eauto. eauto.
  - intros d0 n0 j c b J1 J2 J3. rewrite upd_d_other by eauto. eauto.
  - intros d0 n0 j H. rewrite upd_d_other by eauto. eauto.
  - intros j r J1. rewrite upd_d_other by (eapply (HP 0 0); eauto). eauto.
Qed.

Lemma ref_ok_spec : forall g r, ref_ok g r = true ->
  is_final r = true /\ r <> PTR /\ exists c, st g r = Linked c true.
Proof.
  intros g r H. unfold ref_ok in H. apply andb_prop in H as [H H3]. apply andb_prop in H as [H1 H2].
  repeat split; auto.
  - intro E. subst. now rewrite path_eqb_refl in H2.
  - destruct (st g r) as [|c [|]|]; try discriminate. eauto.
Qed.

Lemma peq_PT : forall a b c d, path_eqb (P a b) (T c d) = false.
Proof. reflexivity. Qed.
Lemma peq_TP : forall a b c d, path_eqb (T a b) (P c d) = false.
Proof. reflexivity. Qed.

Local Opaque path_eqb.

Lemma Inv_rename : forall g s d n d' n' g', check g (Rename (T d n) (P d' n')) = Some g' -> Inv g s ->
  exists s', step s (Rename (T d n) (P d' n')) = Some s' /\ Inv g' s'.
Proof.
  intros g s d n d' n' g' Hc I. simpl in Hc.
  destruct (tmps g (T d n)) as [[c0 [|]]|] eqn:Ht; try discriminate.
  destruct (forallb (ref_ok g) (refs c0)) eqn:Hr; [|discriminate]. simpl in Hc.
  assert (Hq : st g (P d' n') = Fresh \/ (exists c b, st g (P d' n') = Linked c b) /\ P d' n' = PTR).
  { destruct (st g (P d' n')) as [|c b|]; auto; try discriminate.
    right. split; eauto. destruct (path_eqb_spec (P d' n') PTR); [auto|discriminate]. }
  assert (Hg : g' = mkGhost (upd_t (tmps g) (T d n) None) (upd_s (st g) (P d' n') (Linked c0 false))
                            (fun x => refd g x || existsb (path_eqb x) (refs c0))).
  { destruct (st g (P d' n')); try discriminate; [congruence|].
    destruct (path_eqb (P d' n') PTR); [congruence|discriminate]. }
  clear Hc. subst g'.
  destruct (i_tsome _ _ I d n c0 true Ht) as [i [H1 [H2 [H3 [H4 H5]]]]]. specialize (H3 eq_refl).
  simpl. rewrite H1. eexists; split; [reflexivity|].
  rewrite forallb_forall in Hr.
  assert (Hrefq : forall r, In r (refs c0) -> r <> P d' n').
  { intros r Hin E. subst r. destruct (ref_ok_spec _ _ (Hr _ Hin)) as [_ [A [c B]]].
    destruct Hq as [Hq|[_ Hq]]; congruence. }
  destruct I. constructor; simpl.
  - intros x j [H|H]; [|eauto]. unfold upd_e in H.
    destruct (path_eqb x (P d' n')); [inversion H; subst; eauto|]. destruct (path_eqb x (T d n)); [discriminate|eauto].
  - intros d0 n0 H. rewrite upd_e_other by discriminate. unfold upd_t in H. unfold upd_e.
    destruct (path_eqb (T d0 n0) (T d n)); auto.
  - intros d0 n0 c b H. unfold upd_t in H. destruct (path_eqb_spec (T d0 n0) (T d n)) as [E|E]; [discriminate|].
    destruct (i_tsome0 d0 n0 c b H) as [j [J1 [J2 [J3 [J4 J5]]]]].
    assert (j <> i) by (intro; subst; eapply H5; eauto).
    exists j. rewrite upd_e_other by discriminate. rewrite upd_e_other by auto. repeat split; auto.
    + unfold upd_e. destruct (path_eqb (P d'0 n'0) (P d' n')); [congruence|]. rewrite peq_PT. apply J4.
    + apply J4.
    + intros d1 n1 Hne. rewrite upd_e_other by discriminate. unfold upd_e.
      destruct (path_eqb (T d1 n1) (T d n)); [discriminate|auto].
  - intros d0 n0 j H. unfold upd_e in H. unfold upd_s.
    destruct (path_eqb_spec (P d0 n0) (P d' n')) as [E|E].
    + inversion H; subst. eauto.
    + rewrite peq_PT in H. eauto.
  - intros d0 n0 c b H. unfold upd_s in H. unfold upd_e.
    destruct (path_eqb_spec (P d0 n0) (P d' n')) as [E|E].
    + inversion H; subst. exists i. split; auto. discriminate.
    + rewrite peq_PT. eauto.
  - intros d0 n0 j c b J1 J2 J3. unfold upd_s in J3.
    destruct (path_eqb_spec (P d0 n0) (P d' n')) as [E|E]; [|eauto].
    inversion E; subst. destruct Hq as [Hq|[_ Hq]]; [|congruence].
    destruct (i_freshname0 _ _ Hq). congruence.
  - eauto.
  - intros d0 n0 H. unfold upd_s in H. unfold upd_e.
    destruct (path_eqb_spec (P d0 n0) (P d' n')) as [E|E]; [discriminate|]. rewrite peq_PT. eauto.
  - intros j r J1 J2. rewrite (i_ptr0 j r J1 J2). reflexivity.
  - intros d0 n0 c b r H Hin. unfold upd_s in H.
    destruct (path_eqb_spec (P d0 n0) (P d' n')) as [E|E].
    + inversion H; subst. apply orb_true_iff. right. now apply existsb_eqb_In.
    + rewrite (i_refs0 _ _ _ _ _ H Hin). reflexivity.
  - intros r H. apply orb_true_iff in H.
    assert (Hx : is_final r = true /\ r <> PTR /\ exists c, st g r = Linked c true).
    { destruct H as [H|H]; [eauto|]. apply existsb_eqb_In in H. apply ref_ok_spec. auto. }
    destruct Hx as [A [B [c C]]]. repeat split; auto. exists c.
    rewrite upd_s_other; auto. intro E. subst r. destruct Hq as [Hq|[_ Hq]]; congruence.
Qed.

Lemma Inv_fsyncdir : forall g s dd g', check g (FsyncDir dd) = Some g' -> Inv g s ->
  exists s', step s (FsyncDir dd) = Some s' /\ Inv g' s'.
Proof.
  intros g s dd g' Hc I. simpl in Hc. inv_some. simpl. eexists; split; [reflexivity|].
  destruct I. constructor; simpl; auto.
  - intros x i [H|H]; [eauto|]. destruct (dir_of x =? dd); eauto.
  - intros d n c b Ht. destruct (i_tsome0 d n c b Ht) as [i [H1 [H2 [H3 [H4 H5]]]]].
    exists i. repeat split; auto; try apply H4. destruct (_ =? dd); apply H4.
  - intros d n i H. destruct (i_vol0 d n i H) as [c [b [E1 [E2 E3]]]].
    rewrite E1. destruct (d =? dd); eauto.
  - intros d n c b H.
    destruct (d =? dd) eqn:Ed.
    + destruct (st g (P d n)) as [|c1 b1|] eqn:Es; try discriminate. inversion H; subst.
      destruct (i_linked0 d n c b1 Es) as [i [J1 J2]]. eauto.
    + eauto.
  - intros d n i c b J1 J2 J3. destruct (d =? dd) eqn:Ed; [|eauto].
    destruct (i_vol0 d n i J1) as [c' [b' [E1 [E2 E3]]]]. rewrite E1 in J3. congruence.
  - intros d n i J1. destruct (d =? dd) eqn:Ed; [|eauto].
    destruct (i_vol0 d n i J1) as [c' [b' [E1 [E2 E3]]]]. congruence.
  - intros d n H. assert (Hf : st g (P d n) = Fresh).
    { destruct (d =? dd); auto. destruct (st g (P d n)); auto; discriminate. }
    destruct (i_freshname0 d n Hf). split; auto. destruct (d =? dd); auto.
  - intros i r J1 J2. unfold PTR in J1. simpl in J1. destruct dd as [|pp]; [|eauto].
    destruct (i_vol0 0 0 i J1) as [c' [b' [E1 [E2 E3]]]]. rewrite E3 in J2. eapply i_refs0; eauto.
  - intros d n c b r H Hin.
    destruct (d =? dd); [|eauto]. destruct (st g (P d n)) as [|c1 b1|] eqn:Es; try discriminate.
    inversion H; subst. eauto.
  - intros r H. destruct (i_refd0 r H) as [A [B [c C]]]. repeat split; auto. exists c.
    rewrite C. destruct (dir_of r =? dd); reflexivity.
Qed.

Lemma Inv_unlink_P : forall g s d n g', check g (Unlink (P d n)) = Some g' -> Inv g s ->
  exists s', step s (Unlink (P d n)) = Some s' /\ Inv g' s'.
Proof.
  intros g s d n g' Hc I. simpl in Hc.
  destruct (path_eqb_spec (P d n) PTR) as [|Hp]; [discriminate|].
  destruct (refd g (P d n)) eqn:Hrf; [discriminate|].
  destruct (st g (P d n)) as [|c0 b0|] eqn:Hs; try discriminate. simpl in Hc. inv_some.
  destruct (i_linked _ _ I d n c0 b0 Hs) as [i [H1 H2]].
  simpl. rewrite H1. eexists; split; [reflexivity|].
  destruct I. constructor; simpl; auto.
  - intros x j [H|H]; [|eauto]. unfold upd_e in H. destruct (path_eqb x (P d n)); [discriminate|eauto].
  - intros d0 n0 c b Ht. destruct (i_tsome0 d0 n0 c b Ht) as [j [J1 [J2 [J3 [J4 J5]]]]].
    exists j. unfold upd_e. rewrite peq_TP. repeat split; auto; try apply J4.
    destruct (path_eqb (P d' n') (P d n)); [discriminate|apply J4].
  - intros d0 n0 j H. unfold upd_e in H. unfold upd_s.
    destruct (path_eqb (P d0 n0) (P d n)); [discriminate|eauto].
  - intros d0 n0 c b H. unfold upd_s in H. unfold upd_e.
    destruct (path_eqb (P d0 n0) (P d n)); [discriminate|eauto].
  - intros d0 n0 j c b J1 J2 J3. unfold upd_s in J3.
    destruct (path_eqb (P d0 n0) (P d n)); [discriminate|eauto].
  - intros d0 n0 H. unfold upd_s in H. unfold upd_e.
    destruct (path_eqb (P d0 n0) (P d n)); [discriminate|eauto].
  - intros d0 n0 c b r H Hin. unfold upd_s in H.
    destruct (path_eqb (P d0 n0) (P d n)); [discriminate|eauto].
  - intros r H. destruct (i_refd0 r H) as [A [B [c C]]]. repeat split; auto. exists c.
    rewrite upd_s_other; auto. intro E. subst r. congruence.
Qed.

Lemma Inv_unlink_T : forall g s d n g', check g (Unlink (T d n)) = Some g' -> Inv g s ->
  exists s', step s (Unlink (T d n)) = Some s' /\ Inv g' s'.
Proof.
  intros g s d n g' Hc I. simpl in Hc. destruct (tmps g (T d n)) as [[c0 b0]|] eqn:Ht; [|discriminate]. inv_some.
  destruct (i_tsome _ _ I d n c0 b0 Ht) as [i [H1 _]].
  simpl. rewrite H1. eexists; split; [reflexivity|].
  destruct I. constructor; simpl; auto.
  - intros x j [H|H]; [|eauto]. unfold upd_e in H. destruct (path_eqb x (T d n)); [discriminate|eauto].
  - intros d0 n0 H. unfold upd_t in H. unfold upd_e. destruct (path_eqb (T d0 n0) (T d n)); auto.
  - intros d0 n0 c b H. unfold upd_t in H. unfold upd_e at 1.
    destruct (path_eqb_spec (T d0 n0) (T d n)) as [E|E]; [discriminate|].
    destruct (i_tsome0 d0 n0 c b H) as [j [J1 [J2 [J3 [J4 J5]]]]].
    exists j. repeat split; auto; try apply J4.
    intros d1 n1 Hne. unfold upd_e. destruct (path_eqb (T d1 n1) (T d n)); [discriminate|auto].
Qed.

Theorem Inv_call : forall g s c g', check g c = Some g' -> Inv g s ->
  exists s', step s c = Some s' /\ Inv g' s'.
Proof.
  intros g s c g' Hc I. destruct c as [p|p w|p|p q|dd|p|dd].
  - destruct p; [discriminate|]. eapply Inv_create; eauto.
  - destruct p; [discriminate|]. eapply Inv_write; eauto.
  - destruct p; [discriminate|]. eapply Inv_fsync; eauto.
  - destruct p; [discriminate|]. destruct q; [|discriminate]. eapply Inv_rename; eauto.
  - eapply Inv_fsyncdir; eauto.
  - destruct p; [eapply Inv_unlink_P|eapply Inv_unlink_T]; eauto.
  - simpl in Hc. inv_some. simpl. eauto.
Qed.

Local Transparent path_eqb.

(* ---------------------------------------------------------------- schedules *)
Theorem Inv_run : forall es g s g', checks g (calls_of es) = Some g' -> Inv g s ->
  exists s', run s es = Some s' /\ Inv g' s'.
Proof.
  induction es as [|[c|b] es IH]; intros g s g' Hc I; simpl in *.
  - inv_some. eauto.
  - destruct (check g c) as [g1|] eqn:E; [|discriminate].
    destruct (Inv_call _ _ _ _ E I) as [s1 [H1 I1]]. rewrite H1. eauto.
  - eapply IH; eauto. now apply Inv_bg.
Qed.

Lemma checks_app : forall tr1 tr2 g, checks g (tr1 ++ tr2) =
  match checks g tr1 with Some g1 => checks g1 tr2 | None => None end.
Proof.
  induction tr1 as [|c tr1 IH]; intros tr2 g; simpl; [reflexivity|].
  destruct (check g c); auto.
Qed.

Lemma checks_prefix : forall tr n g g', checks g tr = Some g' -> exists g1, checks g (firstn n tr) = Some g1.
Proof.
  intros tr n g g' H. rewrite <- (firstn_skipn n tr) in H. rewrite checks_app in H.
  destruct (checks g (firstn n tr)); [eauto|discriminate].
Qed.

(* ---------------------------------------------------------------- what Inv says about the durable tree *)
(* closure: everything a referenced name's content refers to is referenced *)
Inductive greach (g : ghost) : path -> path -> Prop :=
| greach_self : forall k, greach g k k
| greach_step : forall k k1 k2 c b, greach g k k1 -> st g k1 = Linked c b -> In k2 (refs c) -> greach g k k2.

Lemma refd_closed : forall g s k k', Inv g s -> greach g k k' -> refd g k = true -> refd g k' = true.
Proof.
  intros g s k k' I H. induction H; intro Hk; auto.
  destruct (i_refd _ _ I _ (IHgreach Hk)) as [Hf _]. destruct k1; [|discriminate].
  eapply (i_refs _ _ I); eauto.
Qed.

(* a referenced name is durably present and whole, and visible with the same content *)
Lemma refd_durable : forall g s k, Inv g s -> refd g k = true ->
  exists c i, st g k = Linked c true /\ k <> PTR /\ dE s k = Some i /\ dD s i = c /\ vE s k = Some i /\ vD s i = c.
Proof.
  intros g s k I H. destruct (i_refd _ _ I _ H) as [Hf [Hp [c Hc]]]. destruct k as [d n|]; [|discriminate].
  destruct (i_linked _ _ I d n c true Hc) as [i [H1 H2]]. specialize (H2 eq_refl).
  exists c, i. repeat split; auto.
  - eapply (i_dur _ _ I); eauto.
  - destruct (i_vol _ _ I d n i H1) as [c' [b' [E1 [E2 E3]]]]. congruence.
Qed.

(* the durable pointer, whatever version of it survived, is whole and refers only to referenced names *)
Theorem Inv_pointer_safe : forall g s i, Inv g s -> dE s PTR = Some i ->
  vD s i = dD s i /\
  forall r, In r (refs (dD s i)) -> forall k, greach g r k ->
    exists c j, st g k = Linked c true /\ k <> PTR /\ dE s k = Some j /\ dD s j = c.
Proof.
  intros g s i I Hi. split; [eapply (i_sealed _ _ I); eauto|].
  intros r Hr k Hk. assert (Hrf : refd g r = true) by (eapply (i_ptr _ _ I); eauto).
  pose proof (refd_closed _ _ _ _ I Hk Hrf) as Hkf.
  destruct (refd_durable _ _ _ I Hkf) as [c [j [A [B [C [D _]]]]]]. exists c, j. auto.
Qed.

(* the ghost-free form *)
Theorem Inv_safe : forall g s, Inv g s -> safe_state s.
Proof.
  intros g s I i Hi. split; [symmetry; eapply (i_sealed _ _ I); eauto|].
  intros r Hr k Hk. assert (Hrf : refd g r = true) by (eapply (i_ptr _ _ I); eauto).
  assert (Hkf : refd g k = true).
  { clear Hr. induction Hk as [k|v k k' c Hk IH Hc Hin]; auto.
    specialize (IH Hrf). destruct (refd_durable _ _ _ I IH) as [c' [j [A [B [C [D _]]]]]].
    unfold content_at, power_loss in Hc. rewrite C in Hc. inversion Hc; subst.
    destruct k as [d n|]; [|destruct (i_refd _ _ I _ IH); discriminate].
    eapply (i_refs _ _ I); eauto. }
  destruct (refd_durable _ _ _ I Hkf) as [c [j [A [B [C [D [E F]]]]]]].
  exists c. unfold content_at, power_loss. rewrite C, E, D, F. auto.
Qed.

(* Theorem A: a disciplined trace is safe at every prefix under every schedule, and never hits an OS error *)
Theorem disciplined_safe : forall tr, disciplined tr = true ->
  forall n es, calls_of es = firstn n tr ->
  exists s', run fs0 es = Some s' /\ safe_state s'.
Proof.
  intros tr Hd n es Hes. unfold disciplined in Hd. destruct (checks g0 tr) as [g'|] eqn:E; [|discriminate].
  destruct (checks_prefix tr n g0 g' E) as [g1 H1]. rewrite <- Hes in H1.
  destruct (Inv_run es g0 fs0 g1 H1 Inv_init) as [s' [Hr I]]. exists s'. split; auto. eapply Inv_safe; eauto.
Qed.
