(* Proofs/RangeGenProofs.v -- the hand-written S3RangeFile model (Model/Range.v rf_step, which carries the C20
   range theorems) is, for all inputs, the composition of the kernels the translator regenerates from the class's
   source on every run (Gen/GenRange.v: seek arithmetic, the one range each read requests, the position update)
   with the object store's answer to that range. *)
From Coq Require Import ZArith List Bool Lia.
Require Import DS.Model.Range DS.Gen.GenRange.
Import ListNotations.
Open Scope Z_scope.

Section G.
  Context {A : Type}.

  (* one ranged GET at [first, last], then `self._pos += len(data)` *)
  Definition gen_read (content : list A) (pos : Z) (req : option (Z * Z)) : Z * robs (A := A) * list (Z * Z) :=
    match req with
    | None => (pos, RData [], [])
    | Some (first, last) =>
        match server_range content first last with
        | Some data => (gen_rf_advance pos (zlen data), RData data, [(first, last)])
        | None => (pos, RErr, [(first, last)])
        end
    end.

  Definition gen_rf_step (content : list A) (pos : Z) (o : rop) : Z * robs (A := A) * list (Z * Z) :=
    let size := zlen content in
    match o with
    | Seek off w => (match gen_rf_seek size pos off w with Some new => (new, RPos new) | None => (pos, RErr) end, [])
    | Tell => (pos, RPos pos, [])
    | ReadInto want => gen_read content pos (gen_rf_readinto_req size pos want)
    | ReadAll => gen_read content pos (gen_rf_readall_req size pos)
    end.

  Lemma gen_rf_seek_agrees size pos off w :
    (match gen_rf_seek size pos off w with Some new => (new, RPos new) | None => (pos, RErr) end) = do_seek (A := A) size pos off w.
  Proof. unfold gen_rf_seek, do_seek, seek_target. destruct w; try reflexivity; match goal with |- context [?x <? 0] => destruct (x <? 0) end; reflexivity. Qed.

  Theorem gen_rf_step_agrees (content : list A) pos o : gen_rf_step content pos o = rf_step content pos o.
  Proof.
    unfold gen_rf_step, rf_step. destruct o as [off w|want| |].
    - rewrite gen_rf_seek_agrees. reflexivity.
    - unfold gen_rf_readinto_req. rewrite Z.geb_leb.
      destruct ((want =? 0) || (zlen content <=? pos)); [reflexivity|]. unfold gen_read, get_range, gen_rf_advance.
      destruct (server_range content pos (Z.min (pos + want) (zlen content) - 1)); reflexivity.
    - unfold gen_rf_readall_req. rewrite Z.geb_leb. destruct (zlen content <=? pos); [reflexivity|].
      unfold gen_read, get_range, gen_rf_advance. destruct (server_range content pos (zlen content - 1)); reflexivity.
    - reflexivity.
  Qed.
End G.
