(* Proofs/HintUnusableProofs.v -- the recovery theorems of Proofs/HintLeftoverProofs.v for EVERY pointer the code cannot
   use (Model/HintStore.v `unusable`): not only a missing / unparseable pointer (read_hint = PRet None) but also one
   that parses and names a file that is not stored.  Both take the same branch of _current_version_info (the scan);
   storage.exists does not depend on the order in which the directory is listed. *)
From Coq Require Import ZArith NArith Lia List Bool Permutation.
Require Import DS.Model.HintPrim DS.Gen.GenHint DS.Model.Hint DS.Model.HintStore.
Require Import DS.Proofs.HintProofs DS.Proofs.HintStoreProofs DS.Proofs.HintLeftoverProofs.
Import ListNotations.
Open Scope N_scope.

Lemma existsb_perm : forall (A : Type) (f : A -> bool) (l l' : list A), Permutation l l' -> existsb f l = existsb f l'.
Proof.
  intros A f l l' HP.
  destruct (existsb f l) eqn:E1; destruct (existsb f l') eqn:E2; try reflexivity.
  - apply existsb_exists in E1. destruct E1 as [x [Hx Hf]].
    assert (E : existsb f l' = true) by (apply existsb_exists; exists x; split; [eapply Permutation_in; eauto|exact Hf]).
    rewrite E in E2. discriminate E2.
  - apply existsb_exists in E2. destruct E2 as [x [Hx Hf]].
    assert (E : existsb f l = true)
      by (apply existsb_exists; exists x; split; [eapply Permutation_in; [apply Permutation_sym; exact HP|exact Hx]|exact Hf]).
    rewrite E in E1. discriminate E1.
Qed.

Lemma exists_meta_perm : forall name (l fs : list mfile),
  Permutation l fs -> exists_meta name (map entry_of l) = exists_meta name (map entry_of fs).
Proof. intros name l fs HP. unfold exists_meta. apply existsb_perm. apply Permutation_map. exact HP. Qed.

(* an unusable pointer is resolved exactly as a missing one: by the scan *)
Lemma resolve_unusable : forall p fs l,
  unusable p fs -> Permutation l fs -> resolve p (map entry_of l) = resolve None (map entry_of l).
Proof.
  intros p fs l [Hp|[v [name [Hp Hex]]]] HP; unfold resolve; rewrite Hp; cbn [read_hint].
  - reflexivity.
  - rewrite (exists_meta_perm name l fs HP), Hex. reflexivity.
Qed.

Lemma unusable_none : forall fs, unusable None fs.
Proof. intros fs. left. reflexivity. Qed.

Lemma unusable_perm : forall p l fs, Permutation l fs -> unusable p fs -> unusable p l.
Proof.
  intros p l fs HP [H|[v [name [H Hex]]]]; [left; exact H|right].
  exists v, name. split; [exact H|]. rewrite (exists_meta_perm name l fs HP). exact Hex.
Qed.

Theorem recovery_safe_iff_unusable : forall fs L p,
  Forall wf_file fs -> names_unique fs -> In L fs -> unusable p fs ->
  ((forall l, Permutation l fs -> resolve p (map entry_of l) = RRet (Some (fver L, fname L)))
   <-> others_below fs L).
Proof.
  intros fs L p Hwf U HL Hp.
  pose proof (recovery_safe_iff fs L None Hwf U HL eq_refl) as [H1 H2].
  split.
  - intros H. apply H1. intros l HP. rewrite <- (resolve_unusable p fs l Hp HP). apply H. exact HP.
  - intros Hb l HP. rewrite (resolve_unusable p fs l Hp HP). apply H2; assumption.
Qed.

Theorem leftover_surfaces_unusable : forall st L U p l,
  reachable_lv st -> glatest st = Some L -> In U (files st) -> above U L -> unusable p (files st) ->
  Permutation l (files st) ->
  exists r, In r (files st) /\ fcom r = false /\ above r L
            /\ resolve p (map entry_of l) = RRet (Some (fver r, fname r)).
Proof.
  intros st L U p l HR EL HU Hab Hp HP.
  rewrite (resolve_unusable p (files st) l Hp HP).
  exact (leftover_surfaces st L U None l HR EL HU Hab eq_refl HP).
Qed.

(* the hypothesis covers what the old one (read_hint p = PRet None) did ... *)
Lemma unusable_of_unparsed : forall p fs, read_hint p = PRet None -> unusable p fs.
Proof. intros p fs H. left. exact H. Qed.

(* ... and it is exactly "the scan runs": for a pointer that does not make the parser raise (none does: parse_total),
   resolution is the scan if and only if the pointer is unusable or names a stored file that the scan returns anyway *)
Lemma usable_trusted : forall p fs v name,
  read_hint p = PRet (Some (v, name)) -> ~ unusable p fs -> resolve p (map entry_of fs) = RRet (Some (v, name)).
Proof.
  intros p fs v name Hp Hn. unfold resolve. rewrite Hp.
  destruct (exists_meta name (map entry_of fs)) eqn:E; [reflexivity|].
  exfalso. apply Hn. right. exists v, name. split; [exact Hp|exact E].
Qed.
