(* Proofs/PruneProofs.v -- pruning by bounds is sound (C13). *)
From Coq Require Import ZArith QArith Lia List Bool.
Require Import DS.Model.Value DS.Gen.GenPrune DS.Model.Prune DS.Proofs.ValueOrder.
Import ListNotations.
Open Scope Z_scope.

Definition vlt (a b : value) : Prop := vcmp a b = Some OLt.
Definition veq (a b : value) : Prop := vcmp a b = Some OEq.
Definition vle (a b : value) : Prop := vlt a b \/ veq a b.

Lemma vle_iff a b : vle a b <-> exists o, vcmp a b = Some o /\ is_le o = true.
Proof.
  unfold vle, vlt, veq; split.
  - intros [H|H]; rewrite H; eexists; split; eauto.
  - intros [o [H L]]. destruct o; try discriminate; auto.
Qed.

Lemma vle_trans a b c : vle a b -> vle b c -> vle a c.
Proof.
  rewrite !vle_iff. intros [o1 [H1 L1]] [o2 [H2 L2]].
  destruct (vcmp_trans _ _ _ _ _ H1 H2 L1 L2) as [o3 [H3 [L3 _]]]. eauto.
Qed.

Lemma vlt_le_trans a b c : vlt a b -> vle b c -> vlt a c.
Proof.
  unfold vlt. rewrite vle_iff. intros H1 [o2 [H2 L2]].
  destruct (vcmp_trans _ _ _ _ _ H1 H2 eq_refl L2) as [o3 [H3 [_ [S _]]]].
  rewrite H3. specialize (S (or_introl eq_refl)). destruct o3; try discriminate; auto.
Qed.

Lemma vle_lt_trans a b c : vle a b -> vlt b c -> vlt a c.
Proof.
  unfold vlt. rewrite vle_iff. intros [o1 [H1 L1]] H2.
  destruct (vcmp_trans _ _ _ _ _ H1 H2 L1 eq_refl) as [o3 [H3 [_ [S _]]]].
  rewrite H3. specialize (S (or_intror eq_refl)). destruct o3; try discriminate; auto.
Qed.

Lemma veq_sym a b : veq a b -> veq b a.
Proof. unfold veq. intro H. rewrite vcmp_flip, H. reflexivity. Qed.

Lemma vlt_irrefl a : ~ vlt a a.
Proof. unfold vlt. intro H. pose proof (vcmp_flip a a) as F. rewrite H in F. discriminate. Qed.

Lemma vlt_flip a b : vcmp a b = Some OGt -> vlt b a.
Proof. unfold vlt. intro H. rewrite vcmp_flip, H. reflexivity. Qed.

Lemma veq_le a b : veq a b -> vle a b.
Proof. right; auto. Qed.

(* ---- reading the boolean primitives ---- *)
Lemma py_lt_true a b : py_lt a b = Some true -> vlt a b.
Proof. unfold py_lt, vlt. destruct (vcmp a b) as [[]|]; simpl; congruence. Qed.
Lemma py_gt_true a b : py_gt a b = Some true -> vlt b a.
Proof. unfold py_gt. intro H. apply vlt_flip. destruct (vcmp a b) as [[]|]; simpl in *; congruence. Qed.
Lemma py_le_true a b : py_le a b = Some true -> vle a b.
Proof. unfold py_le, vle, vlt, veq. destruct (vcmp a b) as [[]|]; simpl; intro; try discriminate; auto. Qed.
Lemma py_ge_true a b : py_ge a b = Some true -> vle b a.
Proof.
  unfold py_ge. intro H. destruct (vcmp a b) as [[]|] eqn:E; simpl in *; try discriminate.
  - right. apply veq_sym. exact E.
  - left. apply vlt_flip. exact E.
Qed.
Lemma vle_py_le a b : vle a b -> py_le a b = Some true.
Proof. unfold vle, vlt, veq, py_le. intros [H|H]; rewrite H; reflexivity. Qed.

Lemma py_eqb_true_nonnull a b : is_null a = false -> py_eqb a b = true -> veq a b.
Proof.
  unfold py_eqb, veq. destruct (vcmp a b) as [o|] eqn:E.
  - destruct o; simpl; try discriminate; auto.
  - destruct a, b; simpl; try discriminate.
Qed.

Lemma veq_py_eqb a b : veq a b -> py_eqb a b = true.
Proof. unfold veq, py_eqb. intros ->. reflexivity. Qed.

(* ---- ordinary values of one kind are totally ordered ---- *)
Lemma ordinary_total k a b :
  ordinary a = true -> ordinary b = true -> has_kind k a = true -> has_kind k b = true ->
  vlt a b \/ veq a b \/ vlt b a.
Proof.
  unfold ordinary, has_kind, vlt, veq, vcmp. intros Oa Ob Ka Kb.
  destruct a as [|ba|za|fa|sa|ta|da|ma], b as [|bb|zb|fb|sb|tb|db|mb]; simpl in *; try discriminate;
    destruct k; simpl in *; try discriminate.
  - (* bool *) destruct ba, bb; simpl; auto.
  - (* int *)
    destruct (Qcompare_spec3 (inject_Z za) (inject_Z zb)) as [[E H]|[[E H]|[E H]]]; rewrite E; simpl; auto.
    right; right. rewrite (Qcompare_lt _ _ H). reflexivity.
  - (* float *)
    destruct fa as [x| | |], fb as [y| | |]; simpl in *; try discriminate; auto.
    destruct (Qcompare_spec3 x y) as [[E H]|[[E H]|[E H]]]; rewrite E; simpl; auto.
    right; right. rewrite (Qcompare_lt _ _ H). reflexivity.
  - (* str *)
    destruct (lex_cmp sa sb) eqn:E; simpl; auto.
    right; right. rewrite lex_cmp_flip, E. reflexivity.
  - destruct (Z.compare_spec ta tb); simpl; auto. right; right. rewrite (proj2 (Z.compare_lt_iff _ _)); auto.
  - destruct (Z.compare_spec da db); simpl; auto. right; right. rewrite (proj2 (Z.compare_lt_iff _ _)); auto.
  - destruct (Z.compare_spec ma mb); simpl; auto. right; right. rewrite (proj2 (Z.compare_lt_iff _ _)); auto.
Qed.

Lemma ordinary_refl k a : ordinary a = true -> has_kind k a = true -> veq a a.
Proof.
  intros O K. destruct (ordinary_total k a a O O K K) as [H|[H|H]]; auto; exfalso; eapply vlt_irrefl; eauto.
Qed.

(* ---- vmin / vmax folds ---- *)
Lemma vmin_cases a b : (vmin a b = b /\ vlt b a) \/ (vmin a b = a /\ py_lt b a <> Some true).
Proof. unfold vmin. destruct (py_lt b a) as [[]|] eqn:E; [left|right|right]; split; auto; try congruence. apply py_lt_true; auto. Qed.
Lemma vmax_cases a b : (vmax a b = b /\ vlt a b) \/ (vmax a b = a /\ py_lt a b <> Some true).
Proof. unfold vmax. destruct (py_lt a b) as [[]|] eqn:E; [left|right|right]; split; auto; try congruence. apply py_lt_true; auto. Qed.

Lemma not_lt_le k a b :
  ordinary a = true -> ordinary b = true -> has_kind k a = true -> has_kind k b = true ->
  py_lt b a <> Some true -> vle a b.
Proof.
  intros Oa Ob Ka Kb N. destruct (ordinary_total k a b Oa Ob Ka Kb) as [H|[H|H]].
  - left; auto. - right; auto.
  - exfalso. apply N. unfold py_lt. unfold vlt in H. rewrite H. reflexivity.
Qed.

Definition good k (v : value) : Prop := ordinary v = true /\ has_kind k v = true.

Lemma fold_vmin_spec k os : forall o, good k o -> (forall v, In v os -> good k v) ->
  let m := fold_left vmin os o in
  good k m /\ vle m o /\ (forall v, In v os -> vle m v) /\ (m = o \/ In m os).
Proof.
  induction os as [|x os IH]; intros o Go Gs; simpl.
  - repeat split; try apply Go; auto. right. eapply ordinary_refl; apply Go. intros v [].
  - assert (Gx : good k x) by (apply Gs; left; auto).
    assert (Gm : good k (vmin o x)) by (destruct (vmin_cases o x) as [[-> _]|[-> _]]; auto).
    destruct (IH (vmin o x) Gm (fun v H => Gs v (or_intror H))) as [G [L1 [L2 L3]]].
    assert (A : vle (vmin o x) o /\ vle (vmin o x) x).
    { destruct (vmin_cases o x) as [[-> H]|[-> H]].
      - split; [left; auto | right; eapply ordinary_refl; apply Gx].
      - split; [right; eapply ordinary_refl; apply Go |].
        destruct Go, Gx. eapply not_lt_le; eauto. }
    destruct A as [A1 A2].
    split; [exact G|]. split; [eapply vle_trans; eauto|]. split.
    + intros v [<-|Hv]; [eapply vle_trans; eauto | auto].
    + destruct L3 as [E|I]; [|right; right; auto].
      rewrite E. destruct (vmin_cases o x) as [[-> _]|[-> _]]; [right; left; auto | left; auto].
Qed.

Lemma fold_vmax_spec k os : forall o, good k o -> (forall v, In v os -> good k v) ->
  let m := fold_left vmax os o in
  good k m /\ vle o m /\ (forall v, In v os -> vle v m) /\ (m = o \/ In m os).
Proof.
  induction os as [|x os IH]; intros o Go Gs; simpl.
  - repeat split; try apply Go; auto. right. eapply ordinary_refl; apply Go. intros v [].
  - assert (Gx : good k x) by (apply Gs; left; auto).
    assert (Gm : good k (vmax o x)) by (destruct (vmax_cases o x) as [[-> _]|[-> _]]; auto).
    destruct (IH (vmax o x) Gm (fun v H => Gs v (or_intror H))) as [G [L1 [L2 L3]]].
    assert (A : vle o (vmax o x) /\ vle x (vmax o x)).
    { destruct (vmax_cases o x) as [[-> H]|[-> H]].
      - split; [left; auto | right; eapply ordinary_refl; apply Gx].
      - split; [right; eapply ordinary_refl; apply Go |].
        destruct Go, Gx. eapply not_lt_le; eauto. }
    destruct A as [A1 A2].
    split; [exact G|]. split; [eapply vle_trans; eauto|]. split.
    + intros v [<-|Hv]; [eapply vle_trans; eauto | auto].
    + destruct L3 as [E|I]; [|right; right; auto].
      rewrite E. destruct (vmax_cases o x) as [[-> _]|[-> _]]; [right; left; auto | left; auto].
Qed.

(* C13_bounds_true: every ordinary value of the column lies within the computed bounds *)
Lemma bounds_true vs lo hi :
  homogeneous vs -> bounds_of vs = Some (lo, hi) ->
  (forall v, In v vs -> ordinary v = true -> vle lo v /\ vle v hi)
  /\ ((In lo vs /\ In hi vs /\ ordinary lo = true /\ ordinary hi = true) \/ (lo = VFlt NaN /\ hi = VFlt NaN /\ forall v, In v vs -> ordinary v = false)).
Proof.
  intros [k Hk] B. unfold bounds_of in B.
  destruct (filter ordinary vs) as [|o os] eqn:F.
  - destruct (existsb is_nan vs); inversion B; subst. split.
    + intros v Hv Ov. assert (In v (filter ordinary vs)) by (apply filter_In; auto). rewrite F in H. destruct H.
    + right. repeat split; auto. intros v Hv. destruct (ordinary v) eqn:O; auto.
      assert (In v (filter ordinary vs)) by (apply filter_In; auto). rewrite F in H. destruct H.
  - inversion B; subst; clear B.
    assert (Gall : forall v, In v (o :: os) -> good k v).
    { intros v Hv. rewrite <- F in Hv. apply filter_In in Hv. destruct Hv. split; auto. }
    assert (Go : good k o) by (apply Gall; left; auto).
    destruct (fold_vmin_spec k os o Go (fun v H => Gall v (or_intror H))) as [Gm [Lo [La Lm]]].
    destruct (fold_vmax_spec k os o Go (fun v H => Gall v (or_intror H))) as [GM [Uo [Ua UM]]].
    split.
    + intros v Hv Ov. assert (I : In v (o :: os)) by (rewrite <- F; apply filter_In; auto).
      destruct I as [<-|I]; split; auto.
    + left.
      assert (Sub : forall v, In v (o :: os) -> In v vs) by (intros v Hv; rewrite <- F in Hv; apply filter_In in Hv; tauto).
      repeat split; try apply Gm; try apply GM.
      * apply Sub. destruct Lm as [->|I]; [left|right]; auto.
      * apply Sub. destruct UM as [->|I]; [left|right]; auto.
Qed.

(* ---- p_any ---- *)
Lemma p_any_false {A} (f : A -> option bool) l : p_any f l = Some false -> forall x, In x l -> f x = Some false.
Proof.
  induction l as [|a l IH]; simpl; intros H x []; subst.
  - destruct (f x) as [[]|]; try discriminate; auto.
  - destruct (f a) as [[]|]; try discriminate; auto.
Qed.

Lemma has_kind_float_nan k vs : (forall v, In v vs -> has_kind k v = true) -> forall v w, In v vs -> In w vs -> is_nan v = true -> is_null w = false -> is_float w = true.
Proof.
  intros Hk v w Hv Hw Nv Nw. pose proof (Hk v Hv) as K1. pose proof (Hk w Hw) as K2.
  destruct v as [| | |[]| | | |]; try discriminate. unfold has_kind in *. simpl in *.
  destruct k; try discriminate. destruct w; simpl in *; try discriminate; auto.
Qed.

Lemma nan_cmp_l s : vcmp (VFlt NaN) s = Some OUn \/ vcmp (VFlt NaN) s = None.
Proof. unfold vcmp. simpl. destruct (num_of s) as [[]|]; simpl; auto. Qed.

Lemma nan_unselected s :
  py_eqb (VFlt NaN) s = false
  /\ match py_lt (VFlt NaN) s with Some b => b | None => false end = false
  /\ match py_le (VFlt NaN) s with Some b => b | None => false end = false
  /\ match py_gt (VFlt NaN) s with Some b => b | None => false end = false
  /\ match py_ge (VFlt NaN) s with Some b => b | None => false end = false.
Proof.
  unfold py_eqb, py_lt, py_le, py_gt, py_ge.
  destruct (nan_cmp_l s) as [->| ->]; simpl; repeat split; auto.
Qed.

Lemma gen_in_false fmin fmax sval lval :
  gen_try_body IN fmin fmax sval lval = Some false ->
  forall w, In w lval ->
    is_float w = false /\ is_float fmin = false /\ xorb (is_bool w) (is_bool fmin) = false
    /\ p_and (py_le fmin w) (fun _ => py_le w fmax) = Some false.
Proof.
  unfold gen_try_body. cbn [fop_eqb].
  destruct lval as [|w0 l0]; cbn [list_is_empty negb p_bind]; [discriminate|].
  intro G. destruct (p_any _ (w0 :: l0)) as [[]|] eqn:PA; cbn [p_bind p_not negb] in G; try discriminate.
  intros w Hw. pose proof (p_any_false _ _ PA w Hw) as F. cbv beta in F.
  destruct (is_float w); [discriminate|]. destruct (is_float fmin); [discriminate|].
  destruct (xorb (is_bool w) (is_bool fmin)); [discriminate|]. cbn [p_or] in F. auto.
Qed.

Lemma same_kind_tests k a b :
  has_kind k a = true -> has_kind k b = true -> is_null a = false -> is_null b = false ->
  is_float a = is_float b /\ is_bool a = is_bool b.
Proof.
  unfold has_kind. destruct a, b; simpl; try discriminate; destruct k; simpl; try discriminate; auto.
Qed.

(* The per-expression pruning decision is sound. *)
Lemma expr_sound X vs fmin fmax op sval lval :
  homogeneous vs -> bounds_of vs = Some (fmin, fmax) ->
  gen_try_body op fmin fmax sval lval = Some false ->
  forall v, In v vs -> selected X op v sval lval = false.
Proof.
  intros Hom B G v Hv. pose proof G as G0.
  destruct (bounds_true vs fmin fmax Hom B) as [BT Shape].
  destruct (is_null v) eqn:Nv.
  { destruct op; simpl; rewrite ?Nv; auto; unfold gen_try_body in G; simpl in G; discriminate. }
  destruct (is_nan v) eqn:NaNv.
  { (* a NaN cell *)
    destruct v as [| | |[]| | | |]; try discriminate. clear Nv NaNv.
    assert (Fl : is_float fmin = true).
    { destruct Shape as [[I [_ [O _]]]|[-> _]]; auto. destruct Hom as [k Hk].
      eapply (has_kind_float_nan k vs Hk (VFlt NaN) fmin); eauto.
      unfold ordinary in O. destruct (is_null fmin); simpl in O; try discriminate; auto. }
    destruct op; unfold gen_try_body in G; simpl in G; simpl; auto; try discriminate.
    - (* EQ *) destruct (nan_unselected sval) as [-> _]. apply andb_false_r.
    - (* NE *) rewrite Fl in G. simpl in G. discriminate.
    - apply (nan_unselected sval).
    - apply (nan_unselected sval).
    - apply (nan_unselected sval).
    - apply (nan_unselected sval).
    - (* IN *)
      apply not_true_iff_false. intro Ex. apply existsb_exists in Ex. destruct Ex as [w [Hw Hw2]].
      destruct (gen_in_false _ _ _ _ G0 w Hw) as [_ [Ff _]]. congruence. }
  (* an ordinary cell *)
  assert (Ov : ordinary v = true) by (unfold ordinary; rewrite Nv, NaNv; reflexivity).
  destruct (BT v Hv Ov) as [Lo Hi].
  destruct op; unfold gen_try_body in G; simpl in G; simpl; rewrite ?Nv; auto; try discriminate.
  - (* EQ *)
    destruct (is_null sval) eqn:Ns; simpl; auto.
    apply not_true_iff_false. intro E. apply py_eqb_true_nonnull in E; auto.
    destruct (py_lt sval fmin) as [[]|] eqn:C1; simpl in G; try discriminate.
    + apply py_lt_true in C1. eapply vlt_irrefl. eapply vlt_le_trans; [exact C1|].
      eapply vle_trans; [exact Lo|]. right; exact E.
    + destruct (py_gt sval fmax) as [[]|] eqn:C2; simpl in G; try discriminate.
      apply py_gt_true in C2. eapply vlt_irrefl. eapply vle_lt_trans; [|exact C2].
      eapply vle_trans; [right; apply veq_sym; exact E|]. exact Hi.
  - (* NE *)
    destruct (is_float fmin) eqn:Fl; simpl in G; try discriminate.
    destruct (py_eqb fmin fmax) eqn:E1; simpl in G; try discriminate.
    destruct (py_eqb fmax sval) eqn:E2; simpl in G; try discriminate.
    destruct Shape as [[_ [_ [Omin Omax]]]|[-> _]]; [|discriminate].
    assert (Nmin : is_null fmin = false) by (unfold ordinary in Omin; destruct (is_null fmin); auto; discriminate).
    assert (Nmax : is_null fmax = false) by (unfold ordinary in Omax; destruct (is_null fmax); auto; discriminate).
    apply py_eqb_true_nonnull in E1; auto. apply py_eqb_true_nonnull in E2; auto.
    assert (Evs : veq v sval).
    { assert (L1 : vle v sval) by (eapply vle_trans; [exact Hi | right; exact E2]).
      assert (L2 : vle sval v).
      { eapply vle_trans; [right; apply veq_sym; exact E2|]. eapply vle_trans; [right; apply veq_sym; exact E1|]. exact Lo. }
      destruct L1 as [L1|L1]; auto. exfalso. eapply vlt_irrefl. eapply vlt_le_trans; eauto. }
    rewrite (veq_py_eqb _ _ Evs). simpl. apply andb_false_r.
  - (* LT: pruned when file_min >= sval *)
    destruct (py_ge fmin sval) as [[]|] eqn:C; simpl in G; try discriminate.
    apply py_ge_true in C. destruct (py_lt v sval) as [[]|] eqn:S; auto.
    apply py_lt_true in S. exfalso. eapply vlt_irrefl. eapply vlt_le_trans; [exact S|]. eapply vle_trans; eauto.
  - (* LE: pruned when file_min > sval *)
    destruct (py_gt fmin sval) as [[]|] eqn:C; simpl in G; try discriminate.
    apply py_gt_true in C. destruct (py_le v sval) as [[]|] eqn:S; auto.
    apply py_le_true in S. exfalso. eapply vlt_irrefl. eapply vlt_le_trans; [exact C|]. eapply vle_trans; eauto.
  - (* GT: pruned when file_max <= sval *)
    destruct (py_le fmax sval) as [[]|] eqn:C; simpl in G; try discriminate.
    apply py_le_true in C. destruct (py_gt v sval) as [[]|] eqn:S; auto.
    apply py_gt_true in S. exfalso. eapply vlt_irrefl. eapply vlt_le_trans; [exact S|]. eapply vle_trans; eauto.
  - (* GE: pruned when file_max < sval *)
    destruct (py_lt fmax sval) as [[]|] eqn:C; simpl in G; try discriminate.
    apply py_lt_true in C. destruct (py_ge v sval) as [[]|] eqn:S; auto.
    apply py_ge_true in S. exfalso. eapply vlt_irrefl. eapply vle_lt_trans; [|exact C]. eapply vle_trans; eauto.
  - (* IN *)
    apply not_true_iff_false. intro Ex. apply existsb_exists in Ex. destruct Ex as [w [Hw Hw2]].
    destruct (gen_in_false _ _ _ _ G0 w Hw) as [Fw [Ff [Fx Fw2]]].
    apply andb_true_iff in Hw2. destruct Hw2 as [Nw IE]. apply negb_true_iff in Nw.
    destruct Shape as [[Imin [_ [Omin _]]]|[-> _]]; [|discriminate].
    assert (Nmin : is_null fmin = false) by (unfold ordinary in Omin; destruct (is_null fmin); auto; discriminate).
    destruct Hom as [k Hk].
    destruct (same_kind_tests k v fmin (Hk v Hv) (Hk fmin Imin) Nv Nmin) as [K1 K2].
    unfold in_eq, cast_lossy in IE. rewrite K1, Ff, Fw, K2 in IE. simpl in IE.
    rewrite xorb_comm in Fx. rewrite Fx in IE.
    apply py_eqb_true_nonnull in IE; auto.
    assert (L1 : vle fmin w) by (eapply vle_trans; [exact Lo | right; exact IE]).
    assert (L2 : vle w fmax) by (eapply vle_trans; [right; apply veq_sym; exact IE | exact Hi]).
    rewrite (vle_py_le _ _ L1) in Fw2. simpl in Fw2. rewrite (vle_py_le _ _ L2) in Fw2. discriminate.
Qed.

(* ---- from one expression to _file_may_match over a whole file ---- *)
Lemma file_bounds_absent schema rows id :
  ~ In id (map snd schema) ->
  lookup id (fst (file_bounds schema rows)) = None /\ lookup id (snd (file_bounds schema rows)) = None.
Proof.
  induction schema as [|[c i] sch IH]; simpl; intro NI; auto.
  destruct (file_bounds sch rows) as [lo hi] eqn:FB. simpl in IH.
  assert (id <> i) by (intro; subst; apply NI; left; auto).
  assert (N2 : ~ In id (map snd sch)) by (intro; apply NI; right; auto).
  destruct (IH N2) as [I1 I2].
  destruct (bounds_of (column rows c)) as [[mn mx]|]; simpl; auto.
  destruct (Z.eqb_spec id i); [contradiction|]. auto.
Qed.

Lemma lookup_file_bounds schema rows c id :
  NoDup (map snd schema) -> lookup c schema = Some id ->
  match bounds_of (column rows c) with
  | Some (mn, mx) => lookup id (fst (file_bounds schema rows)) = Some mn /\ lookup id (snd (file_bounds schema rows)) = Some mx
  | None => lookup id (fst (file_bounds schema rows)) = None /\ lookup id (snd (file_bounds schema rows)) = None
  end.
Proof.
  induction schema as [|[c' i] sch IH]; simpl; intros ND L; [discriminate|].
  inversion ND as [|? ? NI ND']; subst.
  destruct (file_bounds sch rows) as [lo hi] eqn:FB.
  destruct (Z.eqb_spec c c') as [->|NE].
  - inversion L; subst. pose proof (file_bounds_absent sch rows id NI) as A. rewrite FB in A. simpl in A.
    destruct (bounds_of (column rows c')) as [[mn mx]|]; simpl; auto.
    rewrite Z.eqb_refl. auto.
  - specialize (IH ND' L). simpl in IH.
    assert (id <> i).
    { intro; subst. apply NI. clear -L. induction sch as [|[a b] s IHs]; simpl in *; [discriminate|].
      destruct (c =? a); [inversion L; left; auto | right; auto]. }
    destruct (bounds_of (column rows c')) as [[mn' mx']|]; simpl; auto.
    destruct (Z.eqb_spec id i); [contradiction|]. exact IH.
Qed.

Lemma cell_in_column rows r c : In r rows -> In (cell r c) (column rows c).
Proof. intro H. unfold column. apply in_map_iff. exists r; auto. Qed.

(* C13: a file is skipped only when no row in it can satisfy the predicate *)
Theorem prune_sound X schema rows es :
  NoDup (map snd schema) -> (forall c, homogeneous (column rows c)) ->
  file_may_match (fst (file_bounds schema rows)) (snd (file_bounds schema rows)) schema es = false ->
  forall r, In r rows -> row_selected X es r = false.
Proof.
  intros ND Hom. induction es as [|e es IH]; simpl; intros F r Hr; [discriminate|].
  destruct (lookup (fcol e) schema) as [cid|] eqn:L.
  - pose proof (lookup_file_bounds schema rows (fcol e) cid ND L) as LB.
    destruct (bounds_of (column rows (fcol e))) as [[mn mx]|] eqn:B.
    + destruct LB as [E1 E2]; rewrite E1 in F; try rewrite E2 in F; cbn iota in F.
      destruct (gen_try_body (fop_ e) mn mx (fsval e) (flval e)) as [[]|] eqn:G.
      * rewrite (IH F r Hr). apply andb_false_r.
      * rewrite (expr_sound X _ _ _ _ _ _ (Hom (fcol e)) B G _ (cell_in_column rows r (fcol e) Hr)). reflexivity.
      * rewrite (IH F r Hr). apply andb_false_r.
    + destruct LB as [E1 E2]; rewrite E1 in F; try rewrite E2 in F; cbn iota in F. rewrite (IH F r Hr). apply andb_false_r.
  - rewrite (IH F r Hr). apply andb_false_r.
Qed.

(* ---- scans: pruning never changes the answer ---- *)
Definition wf_file (schema : list (Z * Z)) (rows : list row) : Prop := forall c, homogeneous (column rows c).

Definition scan (X : value -> value -> bool) (es : list fexpr) (files : list (list row)) : list row :=
  flat_map (filter (row_selected X es)) files.

Lemma filter_none {A} (f : A -> bool) l : (forall x, In x l -> f x = false) -> filter f l = [].
Proof. induction l as [|a l IH]; simpl; intro H; auto. rewrite (H a (or_introl eq_refl)). apply IH. intros; apply H; right; auto. Qed.

Theorem scan_pruned_equal X schema es files :
  NoDup (map snd schema) -> (forall f, In f files -> wf_file schema f) ->
  scan X es (prune (file_bounds schema) schema es files) = scan X es files.
Proof.
  intros ND WF. unfold prune. destruct es as [|e es']; [reflexivity|]. destruct files as [|f0 fs0]; [reflexivity|].
  remember (e :: es') as es. remember (f0 :: fs0) as files. clear Heqfiles Heqes f0 fs0 e es'.
  unfold scan. induction files as [|f fs IH]; simpl; auto.
  assert (WF' : forall f0, In f0 fs -> wf_file schema f0) by (intros; apply WF; right; auto).
  destruct (file_may_match _ _ schema es) eqn:M; simpl; rewrite (IH WF'); auto.
  rewrite (filter_none (row_selected X es) f); auto.
  intros r Hr. eapply prune_sound; eauto. apply WF. left; auto.
Qed.
