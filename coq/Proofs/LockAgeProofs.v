(* Proofs/LockAgeProofs.v -- the lease-age kernel regenerated from S3LockProvider._try_takeover_expired
   (Gen/GenLockAge.v) over the datetime model (Model/PyTime.v): what it computes, for every process time
   zone and every rendering of LastModified.  (C19, S3 lock.) *)
From Coq Require Import ZArith Lia Bool.
Require Import DS.Model.PyTime DS.Gen.GenLockAge.
Open Scope Z_scope.

(* an aware datetime denotes its instant whatever offset it is written in *)
Lemma dt_instant_aware inst off : dt_instant (dt_aware inst off) = Some inst.
Proof. unfold dt_instant, dt_aware; simpl. f_equal. lia. Qed.

Lemma dt_sub_aware a ka b kb : dt_sub (dt_aware a ka) (dt_aware b kb) = Some (a - b).
Proof. unfold dt_sub, dt_aware; simpl. f_equal. lia. Qed.

Lemma dt_sub_aware_naive a ka w : dt_sub (dt_aware a ka) (dt_naive w) = None.
Proof. reflexivity. Qed.

(* THE characterisation the lock model's proofs use: for an aware LastModified the kernel is the
   difference of the two INSTANTS -- the process zone and both utcoffsets cancel; for a naive one the
   expression raises. *)
(* (proved by computation on the datetime primitives, not by the shape of the generated term: any
   regenerated expression that denotes the same function passes, any other breaks here) *)
Ltac age_unfold :=
  cbv [takeover_age takeover_keeps dt_now dt_utcnow dt_sub dt_timestamp dt_mktime_fields dt_timegm_utcfields
       dt_replace_tz dt_instant dt_render dt_aware dt_naive obind wall uoff].

Theorem takeover_age_aware : forall zone now inst off lease,
  takeover_age zone now (dt_aware inst off) lease = Some (now - inst).
Proof. intros. age_unfold. f_equal. lia. Qed.

Theorem takeover_age_naive : forall zone now w lease,
  takeover_age zone now (dt_naive w) lease = None.
Proof. intros. age_unfold. reflexivity. Qed.

Theorem takeover_age_render : forall zone now l lease r,
  takeover_age zone now (dt_render r l) lease = match r with Some _ => Some (now - l) | None => None end.
Proof. intros. destruct r as [off|]; simpl; [apply takeover_age_aware|apply takeover_age_naive]. Qed.

Theorem takeover_keeps_spec : forall age lease, takeover_keeps age lease = (age <=? lease).
Proof. intros. age_unfold. reflexivity. Qed.

(* zone independence, stated on its own: two processes in different zones, handed the same instant in
   different renderings, compute the same age *)
Theorem takeover_age_zone_independent : forall zone1 zone2 now inst off1 off2 lease,
  takeover_age zone1 now (dt_aware inst off1) lease = takeover_age zone2 now (dt_aware inst off2) lease.
Proof. intros. rewrite !takeover_age_aware. reflexivity. Qed.

(* Why the kernel has to be read off the source: an age computed from the FIELDS of LastModified read as
   local time (time.mktime(lm.timetuple()), naive .timestamp()) is off by exactly the process's UTC offset,
   so east of UTC by more than the lease a lock written this instant already looks lapsed. *)
Definition age_by_local_fields (zone now : Z) (lm : pydt) : Z := now - dt_mktime_fields zone lm.

Theorem age_by_local_fields_shifted : forall zone now inst,
  age_by_local_fields zone now (dt_aware inst 0) = (now - inst) + zone.
Proof. intros. unfold age_by_local_fields, dt_mktime_fields, dt_aware; simpl. lia. Qed.

Theorem age_by_local_fields_premature : forall zone lease now,
  0 <= lease < zone -> takeover_keeps (age_by_local_fields zone now (dt_aware now 0)) lease = false.
Proof.
  intros zone lease now H. rewrite age_by_local_fields_shifted, takeover_keeps_spec. apply Z.leb_gt. lia.
Qed.
