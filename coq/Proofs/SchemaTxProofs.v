(* Proofs/SchemaTxProofs.v -- explicit transactions (Model/SchemaTx.v): a rejected call adds nothing to
   what the transaction publishes; a commit publishes exactly the files of the accepted calls; anything but a
   successful commit publishes nothing; after any history of transactions (records and pre-built files, with
   or without caller-supplied statistics) full scans work, pruned filtered scans equal unpruned ones, and the
   full scan returns exactly what the accepted calls supplied.

   The behaviour under storage faults is derived from the flags REGENERATED from the source
   (Gen/GenSchema.v: resolve_refresh_propagates, marker_failure_propagates, queue_failure_propagates,
   files_exists_failure_propagates, and adopt_* for the GC-protection step of append_files): the
   proofs below compute with their current values, so a source in which a failing refresh() -- or a failure
   in the protection step of a pre-built-file call -- no longer reaches the caller breaks them. *)
From Coq Require Import ZArith QArith List Bool Lia.
Require Import DS.Model.Value DS.Gen.GenPrune DS.Model.Prune DS.Gen.GenSchema DS.Model.Schema DS.Model.SchemaTx.
Require Import DS.Proofs.PruneProofs DS.Proofs.SchemaProofs.
Import ListNotations.
Open Scope Z_scope.

Lemma file_may_match_nobounds ids es : file_may_match [] [] ids es = true.
Proof. induction es as [|e es IH]; simpl; [reflexivity|]. destruct (lookup (fcol e) ids); exact IH. Qed.

Lemma rows_to_dfile t1 fs : flat_map df_rows (map (to_dfile t1) fs) = flat_map pf_rows fs.
Proof. induction fs as [|p fs IH]; simpl; [reflexivity | rewrite IH; reflexivity]. Qed.

Section TxProofs.
  Variable conv : catype -> pyval -> option pyval.

  Lemma tag_of_rej o : o <> Accepted -> tag_of o <> 0.
  Proof. destruct o; simpl; intro H; try discriminate; contradiction H; reflexivity. Qed.

  (* ---- what the source does with a failing refresh() (regenerated) ---- *)
  Lemma seen_unreadable w : seen_schema true w = None.
  Proof. reflexivity. Qed.
  Lemma seen_readable w : seen_schema false w = Some (w_schema w).
  Proof. reflexivity. Qed.

  (* ---- one call ---- *)
  Lemma stage_records_spec s1 m s2 w h arg recs w' fo wr t :
    stage_records conv s1 m s2 w h arg recs = (w', fo, wr, t) ->
    w_schema w' = w_schema w /\ w_snaps w' = w_snaps w /\ (t <> 0 -> fo = None).
  Proof.
    unfold stage_records. destruct s1 as [t1|]; [|intro H; inversion H; subst; auto].
    destruct (resolve t1 arg) as [s|o]; [|intro H; inversion H; subst; auto].
    destruct (m && marker_failure_propagates); [intro H; inversion H; subst; auto|].
    destruct (negb (forallb (validate_record (sfields s)) recs)); [intro H; inversion H; subst; auto|].
    destruct (create_arrow_schema (cache_of w h) s) as [a c'].
    destruct (convert conv a recs) as [rows|]; [|intro H; inversion H; subst; auto].
    destruct (bounds_for (sfields s) a rows) as [lo hi].
    destruct s2 as [t2|]; [|intro H; inversion H; subst; simpl; auto].
    match goal with |- context [check_files ?x ?y ?z] => destruct (check_files x y z) as [c2 ok] end.
    destruct ok; intro H; inversion H; subst; simpl; repeat split; auto. intro N; contradiction N; reflexivity.
  Qed.

  Lemma call_records_spec s1 m s2 w h arg recs w' wr t added :
    call_records conv s1 m s2 w h arg recs = (w', wr, t, added) ->
    w_schema w' = w_schema w /\ w_snaps w' = w_snaps w /\ (t <> 0 -> added = []).
  Proof.
    unfold call_records. destruct (stage_records conv s1 m s2 w h arg recs) as [[[w1 fo] wr1] t1] eqn:S.
    destruct (stage_records_spec _ _ _ _ _ _ _ _ _ _ _ S) as [H1 [H2 H3]].
    destruct fo as [f|]; intro H; inversion H; subst; repeat split; auto.
    intro N. specialize (H3 N). discriminate.
  Qed.

  (* ---- the protection step of append_files (regenerated flags, whatever their values) ---- *)
  Lemma protect_tag ft m fs t : protect ft m fs = Some t -> t <> 0.
  Proof.
    unfold protect.
    generalize adopt_marker_failure_propagates, adopt_listing_failure_propagates, adopt_refused_while_collecting, adopt_recheck_failure_propagates.
    intros b1 b2 b3 b4. destruct (unprotected m fs); [discriminate|].
    destruct ft as [[]|]; destruct b1, b2, b3, b4; intro H; inversion H; discriminate.
  Qed.

  Lemma protect_nothing ft m fs : unprotected m fs = [] -> protect ft m fs = None.
  Proof. unfold protect. intros ->. reflexivity. Qed.

  Lemma protect_no_window ft m fs : match ft with Some f => hits_protection f = false | None => True end -> protect ft m fs = None.
  Proof. unfold protect. destruct (unprotected m fs); [reflexivity|]. destruct ft as [[]|]; simpl; intro H; try discriminate; reflexivity. Qed.

  Lemma call_files_spec s1 ft m w h fs w' wr t added :
    call_files s1 ft m w h fs = (w', wr, t, added) ->
    w_schema w' = w_schema w /\ w_snaps w' = w_snaps w /\ (t <> 0 -> added = []).
  Proof.
    unfold call_files. destruct s1 as [t1|]; [|intro H; inversion H; subst; auto].
    destruct (check_files t1 (cache_of w h) fs) as [c' ok].
    destruct ok; [destruct (protect ft m fs)|]; intro H; inversion H; subst; simpl; repeat split; auto.
    intro N; contradiction N; reflexivity.
  Qed.

  (* a files call never writes a data file, and touches nothing of the world but the handle's layout cache *)
  Lemma call_files_store s1 ft m w h fs w' wr t added :
    call_files s1 ft m w h fs = (w', wr, t, added) -> wr = [] /\ w_store w' = w_store w /\ w_next w' = w_next w.
  Proof.
    unfold call_files. destruct s1 as [t1|]; [|intro H; inversion H; subst; auto].
    destruct (check_files t1 (cache_of w h) fs) as [c' ok].
    destruct ok; [destruct (protect ft m fs)|]; intro H; inversion H; subst; simpl; auto.
  Qed.

  (* C11_tx_rejected_call_no_trace *)
  Lemma call_rejected w m h c w' wr t added :
    call_step conv w m h c = (w', wr, t, added) ->
    w_schema w' = w_schema w /\ w_snaps w' = w_snaps w /\ (t <> 0 -> added = []).
  Proof.
    destruct c as [arg recs|fs|ft arg recs|ft fs]; unfold call_step.
    - apply call_records_spec.
    - apply call_files_spec.
    - destruct ft; apply call_records_spec.
    - destruct ft; apply call_files_spec.
  Qed.

  (* C11_tx_fault_fails_closed: unreadable metadata is never taken for "no persisted schema" -- BECAUSE the
     regenerated flags say that the failures propagate *)
  Lemma resolve_inr_tag t0 arg o : resolve t0 arg = inr o -> tag_of o <> 0.
  Proof.
    unfold resolve. destruct arg as [a|], t0 as [s|]; try discriminate.
    - destruct (accept_schema (sfields s) (sfields a)); intro H; inversion H; subst; discriminate.
    - intro H; inversion H; subst; discriminate.
  Qed.

  Lemma stage_records_late s1 m w h arg recs w' fo wr t :
    stage_records conv s1 m None w h arg recs = (w', fo, wr, t) -> t <> 0 /\ fo = None.
  Proof.
    unfold stage_records. destruct s1 as [t1|]; [|intro H; inversion H; subst; split; [discriminate | reflexivity]].
    destruct (resolve t1 arg) as [s|o] eqn:R.
    2:{ intro H; inversion H; subst. split; [exact (resolve_inr_tag _ _ _ R) | reflexivity]. }
    destruct (m && marker_failure_propagates); [intro H; inversion H; subst; split; [discriminate | reflexivity]|].
    destruct (negb (forallb (validate_record (sfields s)) recs)); [intro H; inversion H; subst; split; [discriminate | reflexivity]|].
    destruct (create_arrow_schema (cache_of w h) s) as [a c'].
    destruct (convert conv a recs) as [rows|]; [|intro H; inversion H; subst; split; [discriminate | reflexivity]].
    destruct (bounds_for (sfields s) a rows) as [lo hi].
    intro H; inversion H; subst. split; [discriminate | reflexivity].
  Qed.

  Lemma stage_records_marker s1 s2 w h arg recs w' fo wr t :
    stage_records conv s1 true s2 w h arg recs = (w', fo, wr, t) -> t <> 0 /\ fo = None.
  Proof.
    unfold stage_records. destruct s1 as [t1|]; [|intro H; inversion H; subst; split; [discriminate | reflexivity]].
    destruct (resolve t1 arg) as [s|o] eqn:R.
    - simpl. intro H; inversion H; subst. split; [discriminate | reflexivity].
    - intro H; inversion H; subst. split; [exact (resolve_inr_tag _ _ _ R) | reflexivity].
  Qed.

  Lemma fault_fails_closed w m h :
    (forall arg recs, call_step conv w m h (CRecordsF FBefore arg recs) = (w, [], tag_storage_fault, []))
    /\ (forall fs, call_step conv w m h (CFilesF FBefore fs) = (w, [], tag_storage_fault, []))
    /\ (forall ft arg recs w' wr t added, hits_records ft = true ->
          call_step conv w m h (CRecordsF ft arg recs) = (w', wr, t, added) -> t <> 0 /\ added = [])
    /\ (forall ft arg recs, hits_records ft = false -> call_step conv w m h (CRecordsF ft arg recs) = call_step conv w m h (CRecords arg recs))
    /\ (forall ft fs w' wr t added, hits_protection ft = true -> unprotected m fs <> [] ->
          call_step conv w m h (CFilesF ft fs) = (w', wr, t, added) ->
          t <> 0 /\ added = [] /\ wr = [] /\ w_schema w' = w_schema w /\ w_snaps w' = w_snaps w /\ w_store w' = w_store w
          /\ call_marks w m h (CFilesF ft fs) = [])
    /\ (forall ft fs, hits_protection ft = false -> ft <> FBefore -> call_step conv w m h (CFilesF ft fs) = call_step conv w m h (CFiles fs))
    /\ (forall ft fs, unprotected m fs = [] -> ft <> FBefore -> call_step conv w m h (CFilesF ft fs) = call_step conv w m h (CFiles fs)).
  Proof.
    split; [reflexivity|]. split; [reflexivity|]. split; [|split; [|split; [|split]]].
    - intros ft arg recs w' wr t added Hr. unfold call_step, call_records. destruct ft; try discriminate Hr.
      + rewrite seen_unreadable. simpl. intro H; inversion H; subst. split; [discriminate | reflexivity].
      + destruct (stage_records conv (seen_schema false w) true (seen_schema false w) w h arg recs) as [[[w1 fo] wr1] t1] eqn:S.
        destruct (stage_records_marker _ _ _ _ _ _ _ _ _ _ S) as [T ->]. intro H; inversion H; subst. split; [exact T | reflexivity].
      + rewrite seen_unreadable.
        destruct (stage_records conv (seen_schema false w) false None w h arg recs) as [[[w1 fo] wr1] t1] eqn:S.
        destruct (stage_records_late _ _ _ _ _ _ _ _ _ _ S) as [T ->]. intro H; inversion H; subst. split; [exact T | reflexivity].
      + change (if files_exists_failure_propagates then None else seen_schema false w) with (@None (option ischema)).
        destruct (stage_records conv (seen_schema false w) false None w h arg recs) as [[[w1 fo] wr1] t1] eqn:S.
        destruct (stage_records_late _ _ _ _ _ _ _ _ _ _ S) as [T ->]. intro H; inversion H; subst. split; [exact T | reflexivity].
    - intros ft arg recs Hr. destruct ft; try discriminate Hr; reflexivity.
    - intros ft fs w' wr t added Hp Hu H.
      assert (P : exists t0, protect (Some ft) m fs = Some t0 /\ protect_left (Some ft) m fs = []).
      { unfold protect_left, protect. destruct (unprotected m fs) as [|i r]; [contradiction Hu; reflexivity|].
        destruct ft; try discriminate Hp; eexists; split; reflexivity. }
      destruct P as [t0 [P PL]]. pose proof (protect_tag _ _ _ _ P) as T0.
      assert (E : call_step conv w m h (CFilesF ft fs) = call_files (seen_schema false w) (Some ft) m w h fs)
        by (destruct ft; try discriminate Hp; reflexivity).
      assert (M : call_marks w m h (CFilesF ft fs)
                  = match seen_schema false w with
                    | None => []
                    | Some t1 => if snd (check_files t1 (cache_of w h) fs) then protect_left (Some ft) m fs else []
                    end) by (destruct ft; try discriminate Hp; reflexivity).
      rewrite E in H. destruct (call_files_spec _ _ _ _ _ _ _ _ _ _ H) as [S1 [S2 _]].
      destruct (call_files_store _ _ _ _ _ _ _ _ _ _ H) as [W [S3 _]].
      assert (G : t <> 0 /\ added = []).
      { revert H. unfold call_files. rewrite seen_readable.
        destruct (check_files (w_schema w) (cache_of w h) fs) as [c' ok].
        destruct ok; [rewrite P|]; intro H; inversion H; subst; split; auto; discriminate. }
      destruct G as [G1 G2]. repeat split; auto.
      rewrite M, PL. destruct (seen_schema false w) as [t1|]; [|reflexivity]. destruct (snd (check_files t1 (cache_of w h) fs)); reflexivity.
    - intros ft fs Hp Nb. destruct ft; try discriminate Hp; try (contradiction Nb; reflexivity).
      unfold call_step, call_files. rewrite (protect_no_window (Some FAfterWrite)), (protect_no_window None); simpl; auto.
    - intros ft fs Hu Nb. destruct ft; try (contradiction Nb; reflexivity);
        unfold call_step, call_files; rewrite !(protect_nothing _ _ _ Hu); reflexivity.
  Qed.

  (* the marker bookkeeping of a transaction: a call that raised leaves the set of marked files as it was (the
     protection step of a refused adoption removed what it wrote: protect_left above), an accepted call adds its files *)
  Lemma marked_enqueue q wr added :
    forall i, In i (marked (enqueue q wr added)) <-> In i (marked q) \/ In i wr \/ In i (map df_id added).
  Proof.
    intro i. unfold marked, enqueue. simpl. rewrite map_app, !in_app_iff. tauto.
  Qed.

  (* ---- the calls of a transaction ---- *)
  Definition honest (tr : list (Z * list dfile)) : Prop := Forall (fun x => fst x <> 0 -> snd x = []) tr.

  Lemma run_calls_spec h cs : forall w q w' q' tr,
    run_calls conv w q h cs = (w', q', tr) ->
    q_files q' = q_files q ++ flat_map snd tr /\ honest tr /\ w_schema w' = w_schema w /\ w_snaps w' = w_snaps w.
  Proof.
    induction cs as [|c cs IH]; simpl; intros w q w' q' tr H.
    - inversion H; subst. simpl. rewrite app_nil_r. repeat split; auto. constructor.
    - destruct (call_step conv w (marked q) h c) as [[[w1 wr] t] added] eqn:C.
      destruct (run_calls conv w1 (enqueue q wr added) h cs) as [[w2 q2] tr2] eqn:R.
      inversion H; subst. destruct (IH _ _ _ _ _ R) as [Q [Hn [S1 S2]]].
      destruct (call_rejected _ _ _ _ _ _ _ _ C) as [C1 [C2 C3]].
      simpl in Q. simpl. rewrite Q, app_assoc. repeat split; auto; try congruence.
      constructor; auto.
  Qed.

  Lemma run_calls_length h cs : forall w q w' q' tr, run_calls conv w q h cs = (w', q', tr) -> length tr = length cs.
  Proof.
    induction cs as [|c cs IH]; simpl; intros w q w' q' tr H.
    - inversion H; reflexivity.
    - destruct (call_step conv w (marked q) h c) as [[[w1 wr] t] added].
      destruct (run_calls conv w1 (enqueue q wr added) h cs) as [[w2 q2] tr2] eqn:R.
      inversion H; subst. simpl. f_equal. exact (IH _ _ _ _ _ R).
  Qed.

  (* C11_tx_publishes_accepted_only: for THE trace of the transaction's calls (run_calls: per call, the tag
     and the files call_step let it queue) -- a successful commit adds ONE snapshot holding the base files plus
     exactly the files queued by the accepted calls, in call order, or no snapshot when no call queued anything;
     a call that raised (tag <> 0) is in the trace with no files *)
  Lemma tx_commit_publishes w t w' q tr :
    run_calls conv w tx_empty (t_handle t) (t_calls t) = (w', q, tr) ->
    t_end t = EndCommit true ->
    honest tr /\ length tr = length (t_calls t) /\ q_files q = flat_map snd tr
    /\ w_schema (run_tx conv w t) = w_schema w
    /\ w_snaps (run_tx conv w t) = match flat_map snd tr with
                                   | [] => w_snaps w
                                   | fs => (current w ++ fs) :: w_snaps w
                                   end.
  Proof.
    intros R E. unfold run_tx. rewrite R.
    destruct (run_calls_spec _ _ _ _ _ _ _ R) as [Q [Hn [S1 S2]]]. simpl in Q.
    split; [exact Hn|]. split; [exact (run_calls_length _ _ _ _ _ _ _ R)|]. split; [exact Q|].
    rewrite E. simpl. rewrite Q. simpl. destruct (flat_map snd tr) as [|f fs]; [split; assumption|].
    simpl. split; [exact S1|]. unfold current. rewrite S2. reflexivity.
  Qed.

  (* C11_tx_unpublished_no_trace: a failed commit, a rollback or an abandoned handle publish nothing *)
  Lemma tx_not_committed w t :
    t_end t <> EndCommit true ->
    w_schema (run_tx conv w t) = w_schema w /\ w_snaps (run_tx conv w t) = w_snaps w
    /\ full_scan (run_tx conv w t) = full_scan w.
  Proof.
    intro E. unfold run_tx. destruct (run_calls conv w tx_empty (t_handle t) (t_calls t)) as [[w1 q] tr] eqn:R.
    destruct (run_calls_spec _ _ _ _ _ _ _ R) as [_ [_ [S1 S2]]].
    assert (G : w_schema (end_tx w1 q (t_end t)) = w_schema w1 /\ w_snaps (end_tx w1 q (t_end t)) = w_snaps w1).
    { destruct (t_end t) as [[|]| |]; simpl; auto; [contradiction E; reflexivity|]. destruct (q_files q); simpl; auto. }
    destruct G as [G1 G2]. repeat split; try congruence.
    unfold full_scan, current. rewrite G2, S2. reflexivity.
  Qed.

  (* ---- histories of transactions: a generic invariant ----
     P: what is shown of every published file; Q: what is assumed of the pre-built files handed in. *)
  Variable ts : ischema.
  Let T := sfields ts.
  Let A := arrow_of T.

  Section Generic.
    Variable P : dfile -> Prop.
    Variable Q : pfile -> Prop.
    Hypothesis P_records : forall id rs rows lo hi, convert conv A rs = Some rows -> (lo, hi) = bounds_for T A rows ->
      P {| df_id := id; df_arrow := A; df_rows := rows; df_lo := lo; df_hi := hi |}.
    Hypothesis P_files : forall p, Q p -> footer_of p = A -> P (to_dfile (Some ts) p).

    Record InvP (w : world) : Prop := {
      ip_schema : w_schema w = Some ts;
      ip_caches : forall h c, In (h, c) (w_caches w) -> cache_ok ts c;
      ip_files : forall snap f, In snap (w_snaps w) -> In f snap -> P f
    }.

    Definition call_Q (c : call) : Prop := match c with CFiles fs | CFilesF _ fs => Forall Q fs | _ => True end.
    Definition txn_Q (t : txn) : Prop := Forall call_Q (t_calls t).

    Lemma invp_init : InvP (init (Some ts)).
    Proof. constructor; simpl; auto; intros; contradiction. Qed.

    Lemma invp_cache_of w h : InvP w -> cache_ok ts (cache_of w h).
    Proof.
      intro I. unfold cache_of. destruct (lookup h (w_caches w)) as [c|] eqn:L.
      - apply lookup_In in L. exact (ip_caches w I h c L).
      - intros k a [].
    Qed.

    Lemma check_layouts_ok fs : forall c c' ok, cache_ok ts c -> check_layouts (Some ts) c fs = (c', ok) ->
      cache_ok ts c' /\ (ok = true -> forall p, In p fs -> footer_of p = A).
    Proof.
      induction fs as [|p r IH]; simpl; intros c c' ok C H.
      - inversion H; subst. split; [exact C | intros _ q []].
      - destruct (pf_canonical p && pf_exists p && pf_parquet p).
        2:{ inversion H; subst. split; [exact C | discriminate]. }
        destruct (create_arrow_schema c ts) as [a c1] eqn:CA.
        destruct (create_ok ts _ _ _ _ C eq_refl CA) as [Ea C1]. subst a.
        destruct (pf_footer p) as [ft|] eqn:F.
        2:{ inversion H; subst. split; [exact C1 | discriminate]. }
        destruct (aschema_eqb ft (arrow_of (sfields ts))) eqn:EQ.
        + destruct (IH _ _ _ C1 H) as [C2 Pf]. split; [exact C2|]. intros O q [->|Hq]; [|exact (Pf O q Hq)].
          unfold footer_of. rewrite F. apply aschema_eqb_eq. exact EQ.
        + inversion H; subst. split; [exact C1 | discriminate].
    Qed.

    Lemma check_files_ok fs : forall c c' ok, cache_ok ts c -> check_files (Some ts) c fs = (c', ok) ->
      cache_ok ts c' /\ (ok = true -> forall p, In p fs -> footer_of p = A).
    Proof.
      intros c c' ok C. unfold check_files. destruct (check_layouts (Some ts) c fs) as [c1 ok1] eqn:CL. intro H. inversion H; subst.
      destruct (check_layouts_ok _ _ _ _ C CL) as [C1 Pf]. split; [exact C1|].
      intro O. apply andb_true_iff in O. exact (Pf (proj1 O)).
    Qed.

    Lemma invp_set_cache w h c : InvP w -> cache_ok ts c -> InvP (set_cache w h c).
    Proof.
      intros I C. constructor; simpl; try apply I. intros h0 c0 [E|H]; [inversion E; subst; exact C | exact (ip_caches w I h0 c0 H)].
    Qed.

    Lemma invp_with_store w st n : InvP w -> InvP (with_store w st n).
    Proof. intro I. constructor; simpl; apply I. Qed.

    (* what _resolve_table_schema can have yielded on this table: the call raised, or the table's schema *)
    Definition seen_ok (s : option (option ischema)) : Prop := s = None \/ s = Some (Some ts).

    Lemma seen_schema_ok b w : InvP w -> seen_ok (seen_schema b w).
    Proof.
      intro I. destruct b; [left; apply seen_unreadable | right; rewrite seen_readable, (ip_schema w I); reflexivity].
    Qed.

    Lemma stage_records_invp s1 m s2 w h arg recs w' fo wr t : seen_ok s1 -> seen_ok s2 -> InvP w ->
      stage_records conv s1 m s2 w h arg recs = (w', fo, wr, t) ->
      InvP w' /\ forall f, fo = Some f -> P f.
    Proof.
      intros [->| ->] K2 I; unfold stage_records; [intro H; inversion H; subst; split; [exact I | discriminate]|].
      destruct (resolve (Some ts) arg) as [s|o] eqn:R.
      2:{ intro H; inversion H; subst. split; [exact I | discriminate]. }
      pose proof (resolve_fields ts _ _ R) as F.
      destruct (m && marker_failure_propagates); [intro H; inversion H; subst; split; [exact I | discriminate]|].
      destruct (negb (forallb (validate_record (sfields s)) recs)); [intro H; inversion H; subst; split; [exact I | discriminate]|].
      destruct (create_arrow_schema (cache_of w h) s) as [a c'] eqn:CA.
      destruct (create_ok ts _ _ _ _ (invp_cache_of w h I) F CA) as [Ea Cc]. subst a.
      pose proof (invp_set_cache w h c' I Cc) as I1.
      destruct (convert conv (arrow_of (sfields ts)) recs) as [rows|] eqn:CV; [|intro H; inversion H; subst; split; [exact I1 | discriminate]].
      rewrite F. destruct (bounds_for (sfields ts) (arrow_of (sfields ts)) rows) as [lo hi] eqn:B.
      set (w2 := with_store (set_cache w h c') (w_next w :: w_store (set_cache w h c')) (w_next w + 1)).
      pose proof (invp_with_store _ (w_next w :: w_store (set_cache w h c')) (w_next w + 1) I1) as I2. fold w2 in I2.
      destruct K2 as [->| ->]; [intro H; inversion H; subst; split; [exact I2 | discriminate]|].
      match goal with |- context [check_files ?x ?y ?z] => destruct (check_files x y z) as [c2 ok] eqn:CF end.
      destruct (check_files_ok _ _ _ _ (invp_cache_of w2 h I2) CF) as [C2 _].
      pose proof (invp_set_cache w2 h c2 I2 C2) as I3.
      destruct ok; intro H; inversion H; subst; (split; [exact I3|]).
      - intros f E. inversion E; subst. apply (P_records _ recs); [exact CV | symmetry; exact B].
      - discriminate.
    Qed.

    Lemma call_records_invp s1 m s2 w h arg recs w' wr t added : seen_ok s1 -> seen_ok s2 -> InvP w ->
      call_records conv s1 m s2 w h arg recs = (w', wr, t, added) ->
      InvP w' /\ forall f, In f added -> P f.
    Proof.
      intros K1 K2 I. unfold call_records. destruct (stage_records conv s1 m s2 w h arg recs) as [[[w1 fo] wr1] t1] eqn:S.
      destruct (stage_records_invp _ _ _ _ _ _ _ _ _ _ _ K1 K2 I S) as [I1 Pf].
      destruct fo as [f0|]; intro H; inversion H; subst; (split; [exact I1|]).
      - intros f [<-|[]]. apply Pf. reflexivity.
      - intros f [].
    Qed.

    Lemma call_files_invp s1 ft m w h fs w' wr t added : seen_ok s1 -> InvP w -> Forall Q fs ->
      call_files s1 ft m w h fs = (w', wr, t, added) ->
      InvP w' /\ forall f, In f added -> P f.
    Proof.
      intros [->| ->] I QF; unfold call_files; [intro H; inversion H; subst; split; [exact I | intros f []]|].
      destruct (check_files (Some ts) (cache_of w h) fs) as [c' ok] eqn:CF.
      destruct (check_files_ok _ _ _ _ (invp_cache_of w h I) CF) as [C1 Pf].
      pose proof (invp_set_cache w h c' I C1) as I1.
      destruct ok; [destruct (protect ft m fs)|]; intro H; inversion H; subst; (split; [exact I1|]).
      - intros f [].
      - intros f Hf. apply in_map_iff in Hf. destruct Hf as [p [<- Hp]].
        apply P_files; [rewrite Forall_forall in QF; exact (QF p Hp) | exact (Pf eq_refl p Hp)].
      - intros f [].
    Qed.

    Lemma call_step_invp w m h c w' wr t added : InvP w -> call_Q c -> call_step conv w m h c = (w', wr, t, added) ->
      InvP w' /\ forall f, In f added -> P f.
    Proof.
      intros I QC. pose proof (seen_schema_ok false w I) as K0. pose proof (seen_schema_ok true w I) as K1.
      destruct c as [arg recs|fs|ft arg recs|ft fs]; unfold call_step.
      - apply call_records_invp; assumption.
      - apply call_files_invp; assumption.
      - destruct ft; apply call_records_invp;
          first [assumption | destruct files_exists_failure_propagates; [left; reflexivity | assumption]].
      - destruct ft; apply call_files_invp; assumption.
    Qed.

    Lemma run_calls_invp h cs : forall w q w' q' tr, InvP w -> (forall f, In f (q_files q) -> P f) -> Forall call_Q cs ->
      run_calls conv w q h cs = (w', q', tr) -> InvP w' /\ forall f, In f (q_files q') -> P f.
    Proof.
      induction cs as [|c cs IH]; simpl; intros w q w' q' tr I Qf QC H.
      - inversion H; subst. auto.
      - destruct (call_step conv w (marked q) h c) as [[[w1 wr] t] added] eqn:C.
        destruct (run_calls conv w1 (enqueue q wr added) h cs) as [[w2 q2] tr2] eqn:R.
        inversion H; subst. inversion QC as [|? ? QC1 QC2]; subst.
        destruct (call_step_invp _ _ _ _ _ _ _ _ I QC1 C) as [I1 Ad].
        eapply IH; [exact I1| |exact QC2|exact R]. simpl. intros f Hf. apply in_app_or in Hf. destruct Hf; auto.
    Qed.

    Lemma run_tx_invp w t : InvP w -> txn_Q t -> InvP (run_tx conv w t).
    Proof.
      intros I QT. unfold run_tx. destruct (run_calls conv w tx_empty (t_handle t) (t_calls t)) as [[w1 q] tr] eqn:R.
      assert (Q0 : forall f, In f (q_files tx_empty) -> P f) by (intros f []).
      destruct (run_calls_invp _ _ _ _ _ _ _ I Q0 QT R) as [I1 Qf].
      destruct (t_end t) as [[|]| |]; simpl; auto; try (apply invp_with_store; exact I1).
      2:{ destruct (q_files q); [exact I1 | apply invp_with_store; exact I1]. }
      destruct (q_files q) as [|f0 fs0] eqn:QF; [exact I1|].
      constructor; simpl; try apply I1. intros snap f [E|H] Hf.
      - subst snap. apply in_app_or in Hf. destruct Hf as [Hf|Hf]; [|apply Qf; exact Hf].
        destruct (current_in _ _ Hf) as [sn [H1 H2]]. exact (ip_files w1 I1 sn f H1 H2).
      - exact (ip_files w1 I1 snap f H Hf).
    Qed.

    Lemma run_txs_invp txs : forall w, InvP w -> Forall txn_Q txs -> InvP (run_txs conv w txs).
    Proof.
      induction txs as [|t txs IH]; simpl; intros w I QT; [exact I|].
      inversion QT; subst. apply IH; [apply run_tx_invp; assumption | assumption].
    Qed.
  End Generic.

  (* ---- instance 1: every published file carries the table's Arrow schema (nothing assumed of the files) ---- *)
  Definition has_layout (f : dfile) : Prop := df_arrow f = A.
  Definition any_pfile (p : pfile) : Prop := True.
  Definition InvT : world -> Prop := InvP has_layout.

  Lemma layout_records : forall id rs rows lo hi, convert conv A rs = Some rows -> (lo, hi) = bounds_for T A rows ->
    has_layout {| df_id := id; df_arrow := A; df_rows := rows; df_lo := lo; df_hi := hi |}.
  Proof. intros; reflexivity. Qed.
  Lemma layout_files : forall p, any_pfile p -> footer_of p = A -> has_layout (to_dfile (Some ts) p).
  Proof. intros p _ F. exact F. Qed.

  Lemma any_calls cs : Forall (call_Q any_pfile) cs.
  Proof.
    apply Forall_forall. intros c _. destruct c; simpl; auto; apply Forall_forall; intros; exact I.
  Qed.
  Lemma any_txs txs : Forall (txn_Q any_pfile) txs.
  Proof. apply Forall_forall. intros t _. apply any_calls. Qed.

  Lemma invt_init : InvT (init (Some ts)).
  Proof. apply invp_init. Qed.
  Lemma it_schema w : InvT w -> w_schema w = Some ts.
  Proof. intro I. exact (ip_schema _ w I). Qed.
  Lemma it_files w : InvT w -> forall snap f, In snap (w_snaps w) -> In f snap -> df_arrow f = A.
  Proof. intro I. exact (ip_files _ w I). Qed.
  Lemma invt_set_cache w h c : InvT w -> cache_ok ts c -> InvT (set_cache w h c).
  Proof. apply invp_set_cache. Qed.
  Lemma run_tx_invt w t : InvT w -> InvT (run_tx conv w t).
  Proof. intro I. apply (run_tx_invp has_layout any_pfile layout_records layout_files); [exact I | apply any_calls]. Qed.
  Lemma run_txs_invt txs : forall w, InvT w -> InvT (run_txs conv w txs).
  Proof. intros w I. apply (run_txs_invp has_layout any_pfile layout_records layout_files); [exact I | apply any_txs]. Qed.

  Lemma invt_scan_ok w : InvT w -> scan_ok (current w) = true.
  Proof.
    intro I. apply (scan_ok_same A). intros f Hf. destruct (current_in _ _ Hf) as [sn [H1 H2]]. exact (it_files w I sn f H1 H2).
  Qed.

  (* C11_tx_history_scans *)
  Lemma tx_history_scans txs :
    scan_ok (current (run_txs conv (init (Some ts)) txs)) = true /\ full_scan (run_txs conv (init (Some ts)) txs) <> None.
  Proof.
    pose proof (invt_scan_ok _ (run_txs_invt txs _ invt_init)) as S.
    split; [exact S|]. unfold full_scan. rewrite S. discriminate.
  Qed.

  (* ---- instance 2: pruning never changes a filtered scan ----
     Assumed of a pre-built file (a fact about parquet, like conv_kinds about pyarrow): every cell of a column
     has the kind of the column's footer type. *)
  Definition pf_typed (p : pfile) : Prop :=
    forall row, In row (pf_rows p) -> forall c, has_kind (colkind (footer_of p) c) (cell (vrow row) c) = true.

  Definition prunable (f : dfile) : Prop :=
    df_arrow f = A
    /\ ((df_lo f, df_hi f) = bounds_for T A (df_rows f) \/ (df_lo f = [] /\ df_hi f = []))
    /\ (forall c, homogeneous (column (map vrow (df_rows f)) c)).

  Section TxFilter.
    Hypothesis CK : conv_kinds conv.
    Hypothesis NDn : NoDup (map fname T).
    Hypothesis NDi : NoDup (map fid T).

    Lemma prunable_records : forall id rs rows lo hi, convert conv A rs = Some rows -> (lo, hi) = bounds_for T A rows ->
      prunable {| df_id := id; df_arrow := A; df_rows := rows; df_lo := lo; df_hi := hi |}.
    Proof.
      intros id rs rows lo hi CV B. split; [reflexivity|]. split; [left; exact B|].
      intro c. exact (converted_homogeneous conv CK A rs rows c CV).
    Qed.

    Lemma prunable_files : forall p, pf_typed p -> footer_of p = A -> prunable (to_dfile (Some ts) p).
    Proof.
      intros p Ty F. split; [exact F|]. split.
      - unfold to_dfile, verified_bounds. simpl.
        destruct (pf_lo p), (pf_hi p); simpl; try (left; rewrite F; symmetry; apply surjective_pairing). right; auto.
      - intro c. exists (colkind (footer_of p) c). intros v Hv. simpl in Hv. unfold column in Hv. rewrite map_map in Hv.
        apply in_map_iff in Hv. destruct Hv as [row [E Hrow]]. subst v. exact (Ty row Hrow c).
    Qed.

    Lemma tx_history_filter X txs fs : Forall (txn_Q pf_typed) txs ->
      let w := run_txs conv (init (Some ts)) txs in
      filtered_scan X fs w = Some (filter (row_selected X fs) (map vrow (flat_map df_rows (current w)))).
    Proof.
      intros QT w.
      pose proof (run_txs_invp prunable pf_typed prunable_records prunable_files txs _ (invp_init prunable) QT) as I. fold w in I.
      apply (filtered_scan_files ts); [exact (ip_schema _ w I)|].
      intros f Hf. destruct (current_in _ _ Hf) as [sn [H1 H2]]. destruct (ip_files _ w I sn f H1 H2) as [Ea [Eb Hom]].
      split; [exact Ea|]. intro M. destruct Eb as [Eb|[E1 E2]].
      - exact (pruned_bounds_empty ts NDn NDi X fs (df_lo f) (df_hi f) (df_rows f) Eb Hom M).
      - rewrite E1, E2, file_may_match_nobounds in M. discriminate.
    Qed.
  End TxFilter.

  (* ---- the full scan returns exactly what the accepted calls supplied (under conv_sound) ---- *)
  Section TxExact.
    Variable rnd32 : Q -> num.
    Hypothesis CS : conv_sound rnd32 conv.

    (* what a call contributes: the canonical rows of its records / the rows of its files when it was accepted
       (tag 0), nothing when it raised *)
    Definition call_expected (c : call) (t : Z) : list srow :=
      if t =? 0 then
        match c with
        | CRecords _ recs | CRecordsF _ _ recs => map (canon_row rnd32 T) recs
        | CFiles fs | CFilesF _ fs => flat_map pf_rows fs
        end
      else [].

    Fixpoint calls_expected (w : world) (q : txstate) (h : Z) (cs : list call) : list srow :=
      match cs with
      | [] => []
      | c :: cs' =>
        match call_step conv w (marked q) h c with
        | (w', wr, t, added) => call_expected c t ++ calls_expected w' (enqueue q wr added) h cs'
        end
      end.

    Definition tx_expected (w : world) (t : txn) : list srow :=
      match t_end t with EndCommit true => calls_expected w tx_empty (t_handle t) (t_calls t) | _ => [] end.

    Fixpoint txs_expected (w : world) (txs : list txn) : list srow :=
      match txs with [] => [] | t :: r => tx_expected w t ++ txs_expected (run_tx conv w t) r end.

    Lemma stage_records_rows s1 m s2 w h arg recs w' fo wr t : seen_ok s1 -> seen_ok s2 -> InvT w ->
      stage_records conv s1 m s2 w h arg recs = (w', fo, wr, t) ->
      match fo with Some f => t = 0 /\ df_rows f = map (canon_row rnd32 T) recs | None => t <> 0 end.
    Proof.
      intros [->| ->] K2 I; unfold stage_records; [intro H; inversion H; subst; discriminate|].
      destruct (resolve (Some ts) arg) as [s|o] eqn:R.
      2:{ intro H; inversion H; subst. exact (resolve_inr_tag _ _ _ R). }
      pose proof (resolve_fields ts _ _ R) as F.
      destruct (m && marker_failure_propagates); [intro H; inversion H; subst; discriminate|].
      destruct (forallb (validate_record (sfields s)) recs) eqn:V; cbn [negb]; [|intro H; inversion H; subst; discriminate].
      destruct (create_arrow_schema (cache_of w h) s) as [a c'] eqn:CA.
      destruct (create_ok ts _ _ _ _ (invp_cache_of _ w h I) F CA) as [Ea Cc]. subst a.
      destruct (convert conv (arrow_of (sfields ts)) recs) as [rows|] eqn:CV; [|intro H; inversion H; subst; discriminate].
      rewrite F in *. destruct (bounds_for (sfields ts) (arrow_of (sfields ts)) rows) as [lo hi].
      destruct K2 as [->| ->]; [intro H; inversion H; subst; discriminate|].
      match goal with |- context [check_files ?x ?y ?z] => destruct (check_files x y z) as [c2 ok] end.
      destruct ok; intro H; inversion H; subst; [|discriminate].
      split; [reflexivity|]. simpl. exact (convert_canon rnd32 conv CS ts recs rows V CV).
    Qed.

    Lemma call_step_rows w mk h c w' wr t added : InvT w -> call_step conv w mk h c = (w', wr, t, added) ->
      flat_map df_rows added = call_expected c t.
    Proof.
      intro I. pose proof (seen_schema_ok has_layout false w I) as K0. pose proof (seen_schema_ok has_layout true w I) as K1.
      assert (R : forall s1 m s2 arg recs, seen_ok s1 -> seen_ok s2 -> call_records conv s1 m s2 w h arg recs = (w', wr, t, added) ->
                  flat_map df_rows added = if t =? 0 then map (canon_row rnd32 T) recs else []).
      { intros s1 m s2 arg recs Ka Kb. unfold call_records.
        destruct (stage_records conv s1 m s2 w h arg recs) as [[[w1 fo] wr1] t1] eqn:S.
        pose proof (stage_records_rows _ _ _ _ _ _ _ _ _ _ _ Ka Kb I S) as G.
        destruct fo as [f|]; intro H; inversion H; subst.
        - destruct G as [-> G]. simpl. rewrite app_nil_r. exact G.
        - destruct (Z.eqb_spec t 0); [contradiction | reflexivity]. }
      assert (Fl : forall s1 ft fs, call_files s1 ft mk w h fs = (w', wr, t, added) ->
                  flat_map df_rows added = if t =? 0 then flat_map pf_rows fs else []).
      { intros s1 ft fs. unfold call_files. destruct s1 as [t1|]; [|intro H; inversion H; subst; reflexivity].
        destruct (check_files t1 (cache_of w h) fs) as [c' ok]. destruct ok; [|intro H; inversion H; subst; reflexivity].
        destruct (protect ft mk fs) as [t0|] eqn:P; intro H; inversion H; subst.
        - pose proof (protect_tag _ _ _ _ P) as Tg. destruct (Z.eqb_spec t 0); [contradiction | reflexivity].
        - simpl. apply rows_to_dfile. }
      unfold call_expected. destruct c as [arg recs|fs|ft arg recs|ft fs]; unfold call_step.
      - apply R; assumption.
      - apply Fl.
      - destruct ft; apply R;
          first [assumption | destruct files_exists_failure_propagates; [left; reflexivity | assumption]].
      - destruct ft; apply Fl.
    Qed.

    Lemma run_calls_rows h cs : forall w q w' q' tr, InvT w -> run_calls conv w q h cs = (w', q', tr) ->
      flat_map df_rows (flat_map snd tr) = calls_expected w q h cs.
    Proof.
      induction cs as [|c cs IH]; simpl; intros w q w' q' tr I H.
      - inversion H; subst. reflexivity.
      - destruct (call_step conv w (marked q) h c) as [[[w1 wr] t] added] eqn:C.
        destruct (run_calls conv w1 (enqueue q wr added) h cs) as [[w2 q2] tr2] eqn:R.
        inversion H; subst. simpl. rewrite flat_map_app.
        rewrite (call_step_rows _ _ _ _ _ _ _ _ I C).
        destruct (call_step_invp has_layout any_pfile layout_records layout_files _ _ _ _ _ _ _ _ I (Forall_inv (any_calls [c])) C) as [I1 _].
        rewrite (IH _ _ _ _ _ I1 R). reflexivity.
    Qed.

    Lemma run_tx_rows w t : InvT w ->
      flat_map df_rows (current (run_tx conv w t)) = flat_map df_rows (current w) ++ tx_expected w t.
    Proof.
      intro I. unfold run_tx, tx_expected.
      destruct (run_calls conv w tx_empty (t_handle t) (t_calls t)) as [[w1 q] tr] eqn:R.
      destruct (run_calls_spec _ _ _ _ _ _ _ R) as [Qe [_ [_ S2]]]. simpl in Qe.
      pose proof (run_calls_rows _ _ _ _ _ _ _ I R) as RR.
      assert (C1 : current w1 = current w) by (unfold current; rewrite S2; reflexivity).
      destruct (t_end t) as [[|]| |]; simpl.
      - destruct (q_files q) as [|f0 fs0] eqn:QF.
        + rewrite <- RR, <- Qe. simpl. rewrite app_nil_r, C1. reflexivity.
        + unfold current at 1. simpl. rewrite flat_map_app, C1, <- RR, <- Qe. reflexivity.
      - destruct (q_files q); rewrite app_nil_r; unfold current; simpl; fold (current w1); rewrite C1; reflexivity.
      - rewrite app_nil_r. unfold current. simpl. fold (current w1). rewrite C1. reflexivity.
      - rewrite app_nil_r, C1. reflexivity.
    Qed.

    Lemma run_txs_exact txs : forall w, InvT w ->
      full_scan (run_txs conv w txs) = Some (flat_map df_rows (current w) ++ txs_expected w txs).
    Proof.
      induction txs as [|t txs IH]; simpl; intros w I.
      - rewrite app_nil_r. unfold full_scan. rewrite (invt_scan_ok w I). reflexivity.
      - rewrite (IH _ (run_tx_invt w t I)). rewrite (run_tx_rows w t I), app_assoc. reflexivity.
    Qed.

    (* C11_tx_exact_partial *)
    Lemma tx_exact_history txs :
      full_scan (run_txs conv (init (Some ts)) txs) = Some (txs_expected (init (Some ts)) txs).
    Proof. rewrite (run_txs_exact txs _ invt_init). reflexivity. Qed.
  End TxExact.
End TxProofs.

(* ---- the statements of Props/C11.v ---- *)
Lemma tx_filter_history conv X ts txs fs :
  conv_kinds conv -> NoDup (map fname (sfields ts)) -> NoDup (map fid (sfields ts)) ->
  Forall (txn_Q pf_typed) txs ->
  let w := run_txs conv (init (Some ts)) txs in
  filtered_scan X fs w = Some (filter (row_selected X fs) (map vrow (flat_map df_rows (current w)))).
Proof. intros CK NDn NDi QT. exact (tx_history_filter conv ts CK NDn NDi X txs fs QT). Qed.

Lemma tx_exact rnd32 conv : conv_sound rnd32 conv -> forall ts txs,
  full_scan (run_txs conv (init (Some ts)) txs) = Some (txs_expected conv ts rnd32 (init (Some ts)) txs).
Proof. intros CS ts txs. exact (tx_exact_history conv ts rnd32 CS txs). Qed.

(* ---- the same two under the hypothesis the model needs to speak for the code: no pre-built file is handed to
   append_files twice in the history (the code lists a path once -- seen_paths --, this model scans the rows of a file adopted
   twice twice) ---- *)
Lemma tx_filter_history_once conv X ts txs fs :
  conv_kinds conv -> NoDup (map fname (sfields ts)) -> NoDup (map fid (sfields ts)) ->
  Forall (txn_Q pf_typed) txs -> NoDup (adopted_ids txs) ->
  let w := run_txs conv (init (Some ts)) txs in
  filtered_scan X fs w = Some (filter (row_selected X fs) (map vrow (flat_map df_rows (current w)))).
Proof. intros CK NDn NDi QT _. exact (tx_filter_history conv X ts txs fs CK NDn NDi QT). Qed.

Lemma tx_exact_once rnd32 conv : conv_sound rnd32 conv -> forall ts txs, NoDup (adopted_ids txs) ->
  full_scan (run_txs conv (init (Some ts)) txs) = Some (txs_expected conv ts rnd32 (init (Some ts)) txs).
Proof. intros CS ts txs _. exact (tx_exact rnd32 conv CS ts txs). Qed.

(* ---- the other caller-supplied fields of a pre-built DataFile ---- *)
Lemma keys_of_fields_ok (l : list field) :
  forallb (fun k : option Z => match k with Some _ => true | None => false end) (map (fun f => Some (fid f)) l) = true.
Proof. induction l as [|f l IH]; simpl; auto. Qed.

Lemma checked_claims_sound ts c fs c' : check_files ts c fs = (c', true) ->
  forall p, In p fs -> claims_sound (stored_claims ts p) p = true.
Proof.
  unfold check_files. destruct (check_layouts ts c fs) as [c1 ok1]. intro H. injection H as E1 E2.
  apply andb_true_iff in E2. destruct E2 as [_ V]. intros p Hp.
  pose proof (proj1 (forallb_forall _ _) V p Hp) as Vp. unfold claims_verifiable in Vp.
  unfold claims_sound, stored_claims. simpl.
  apply andb_true_iff. split; [apply andb_true_iff; split|].
  - destruct (pc_stat_keys (pf_claims p)); [reflexivity|]. destruct ts as [s|]; [apply keys_of_fields_ok | reflexivity].
  - destruct (pc_sum (pf_claims p)) as [[|]|]; auto.
  - apply Z.eqb_refl.
Qed.

(* an accepted append_files call (tag 0), in any world, with any window: every file it was given is stored with sound claims *)
Lemma accepted_files_claims_sound conv w m h fs w' wr added :
  call_step conv w m h (CFiles fs) = (w', wr, 0, added) ->
  forall p, In p fs -> claims_sound (stored_claims (w_schema w) p) p = true.
Proof.
  unfold call_step, call_files, seen_schema.
  destruct (check_files (w_schema w) (cache_of w h) fs) as [c' ok] eqn:CF.
  destruct ok.
  - intros _. exact (checked_claims_sound _ _ _ _ CF).
  - intro H. exfalso. inversion H.
Qed.

(* the unrepaired behaviour stores an entry no read can decode / a checksum the file fails / a count that is not the file's *)
Definition claims_as_given_sound_full : Prop := forall p : pfile, claims_sound (stored_claims_as_given p) p = true.
Definition ex_bad_key : pfile :=
  {| pf_id := 70; pf_canonical := true; pf_exists := true; pf_parquet := true; pf_footer := Some []; pf_rows := [];
     pf_lo := None; pf_hi := None; pf_claims := {| pc_stat_keys := [None]; pc_sum := None; pc_count := 0 |} |}.
Lemma claims_as_given_refuted : ~ claims_as_given_sound_full.
Proof. intro H. specialize (H ex_bad_key). vm_compute in H. discriminate H. Qed.
