(* Proofs/SchemaTxProofs.v -- explicit transactions (Model/SchemaTx.v): a rejected call adds nothing to
   what the transaction publishes; a commit publishes exactly the files of the accepted calls; anything but a
   successful commit publishes nothing; scans keep working after any history of transactions. *)
From Coq Require Import ZArith QArith List Bool Lia.
Require Import DS.Model.Value DS.Gen.GenPrune DS.Model.Prune DS.Gen.GenSchema DS.Model.Schema DS.Model.SchemaTx.
Require Import DS.Proofs.PruneProofs DS.Proofs.SchemaProofs.
Import ListNotations.
Open Scope Z_scope.

Section TxProofs.
  Variable conv : atype -> pyval -> option pyval.

  Lemma tag_of_rej o : o <> Accepted -> tag_of o <> 0.
  Proof. destruct o; simpl; intro H; try discriminate; contradiction H; reflexivity. Qed.

  (* ---- one call ---- *)
  Lemma stage_records_spec late w h arg recs w' fo wr t :
    stage_records conv late w h arg recs = (w', fo, wr, t) ->
    w_schema w' = w_schema w /\ w_snaps w' = w_snaps w /\ (t <> 0 -> fo = None).
  Proof.
    unfold stage_records. destruct (resolve (w_schema w) arg) as [s|o].
    2:{ intro H; inversion H; subst. auto. }
    destruct (negb (forallb (validate_record (sfields s)) recs)); [intro H; inversion H; subst; auto|].
    destruct (create_arrow_schema (cache_of w h) s) as [a c'].
    destruct (convert conv a recs) as [rows|]; [|intro H; inversion H; subst; auto].
    destruct (bounds_for (sfields s) a rows) as [lo hi].
    destruct late; [intro H; inversion H; subst; simpl; auto|].
    match goal with |- context [check_files ?x ?y ?z] => destruct (check_files x y z) as [c2 ok] end.
    destruct ok; intro H; inversion H; subst; simpl; repeat split; auto. intro N; contradiction N; reflexivity.
  Qed.

  (* C11_tx_rejected_call_no_trace *)
  Lemma call_rejected w h c w' wr t added :
    call_step conv w h c = (w', wr, t, added) ->
    w_schema w' = w_schema w /\ w_snaps w' = w_snaps w /\ (t <> 0 -> added = []).
  Proof.
    assert (R : forall late arg recs, call_records conv late w h arg recs = (w', wr, t, added) ->
                w_schema w' = w_schema w /\ w_snaps w' = w_snaps w /\ (t <> 0 -> added = [])).
    { intros late arg recs. unfold call_records. destruct (stage_records conv late w h arg recs) as [[[w1 fo] wr1] t1] eqn:S.
      destruct (stage_records_spec _ _ _ _ _ _ _ _ _ S) as [H1 [H2 H3]].
      destruct fo as [f|]; intro H; inversion H; subst; repeat split; auto.
      intro N. specialize (H3 N). discriminate. }
    assert (F : forall fs, call_files w h fs = (w', wr, t, added) ->
                w_schema w' = w_schema w /\ w_snaps w' = w_snaps w /\ (t <> 0 -> added = [])).
    { intros fs. unfold call_files. destruct (check_files (w_schema w) (cache_of w h) fs) as [c' ok].
      destruct ok; intro H; inversion H; subst; simpl; repeat split; auto. intro N; contradiction N; reflexivity. }
    destruct c as [arg recs|fs|ft arg recs|ft fs]; simpl.
    - apply R.
    - apply F.
    - destruct ft.
      + intro H; inversion H; subst; auto.
      + destruct (resolve (w_schema w) arg); intro H; inversion H; subst; auto.
      + apply R.
    - destruct ft; try apply F. intro H; inversion H; subst; auto.
  Qed.

  (* C11_tx_fault_fails_closed: unreadable metadata is never taken for "no persisted schema" *)
  Lemma resolve_inr_tag t0 arg o : resolve t0 arg = inr o -> tag_of o <> 0.
  Proof.
    unfold resolve. destruct arg as [a|], t0 as [s|]; try discriminate.
    - destruct (accept_schema (sfields s) (sfields a)); intro H; inversion H; subst; discriminate.
    - intro H; inversion H; subst; discriminate.
  Qed.

  Lemma stage_records_late w h arg recs w' fo wr t :
    stage_records conv true w h arg recs = (w', fo, wr, t) -> t <> 0 /\ fo = None.
  Proof.
    unfold stage_records. destruct (resolve (w_schema w) arg) as [s|o] eqn:R.
    2:{ intro H; inversion H; subst. split; [exact (resolve_inr_tag _ _ _ R) | reflexivity]. }
    destruct (negb (forallb (validate_record (sfields s)) recs)); [intro H; inversion H; subst; split; [discriminate | reflexivity]|].
    destruct (create_arrow_schema (cache_of w h) s) as [a c'].
    destruct (convert conv a recs) as [rows|]; [|intro H; inversion H; subst; split; [discriminate | reflexivity]].
    destruct (bounds_for (sfields s) a rows) as [lo hi].
    intro H; inversion H; subst. split; [discriminate | reflexivity].
  Qed.

  Lemma fault_fails_closed w h :
    (forall arg recs, call_step conv w h (CRecordsF FBefore arg recs) = (w, [], tag_storage_fault, []))
    /\ (forall fs, call_step conv w h (CFilesF FBefore fs) = (w, [], tag_storage_fault, []))
    /\ (forall ft arg recs w' wr t added, call_step conv w h (CRecordsF ft arg recs) = (w', wr, t, added) -> t <> 0 /\ added = []).
  Proof.
    split; [reflexivity|]. split; [reflexivity|].
    intros ft arg recs w' wr t added. destruct ft; simpl.
    - intro H; inversion H; subst. split; [discriminate | reflexivity].
    - destruct (resolve (w_schema w) arg) as [s|o] eqn:R; intro H; inversion H; subst.
      + split; [discriminate | reflexivity].
      + split; [exact (resolve_inr_tag _ _ _ R) | reflexivity].
    - unfold call_records. destruct (stage_records conv true w h arg recs) as [[[w1 fo] wr1] t1] eqn:S.
      destruct (stage_records_late _ _ _ _ _ _ _ _ S) as [T ->]. intro H; inversion H; subst. split; [exact T | reflexivity].
  Qed.

  (* ---- the calls of a transaction ---- *)
  Definition honest (tr : list (Z * list dfile)) : Prop := Forall (fun x => fst x <> 0 -> snd x = []) tr.

  Lemma run_calls_spec h cs : forall w q w' q' tr,
    run_calls conv w q h cs = (w', q', tr) ->
    q_files q' = q_files q ++ flat_map snd tr /\ honest tr /\ w_schema w' = w_schema w /\ w_snaps w' = w_snaps w.
  Proof.
    induction cs as [|c cs IH]; simpl; intros w q w' q' tr H.
    - inversion H; subst. simpl. rewrite app_nil_r. repeat split; auto. constructor.
    - destruct (call_step conv w h c) as [[[w1 wr] t] added] eqn:C.
      destruct (run_calls conv w1 (enqueue q wr added) h cs) as [[w2 q2] tr2] eqn:R.
      inversion H; subst. destruct (IH _ _ _ _ _ R) as [Q [Hn [S1 S2]]].
      destruct (call_rejected _ _ _ _ _ _ _ C) as [C1 [C2 C3]].
      simpl in Q. simpl. rewrite Q, app_assoc. repeat split; auto; try congruence.
      constructor; auto.
  Qed.

  Lemma run_calls_length h cs : forall w q w' q' tr, run_calls conv w q h cs = (w', q', tr) -> length tr = length cs.
  Proof.
    induction cs as [|c cs IH]; simpl; intros w q w' q' tr H.
    - inversion H; reflexivity.
    - destruct (call_step conv w h c) as [[[w1 wr] t] added].
      destruct (run_calls conv w1 (enqueue q wr added) h cs) as [[w2 q2] tr2] eqn:R.
      inversion H; subst. simpl. f_equal. exact (IH _ _ _ _ _ R).
  Qed.

  (* C11_tx_publishes_accepted_only: a successful commit adds ONE snapshot holding the base files plus
     exactly the files queued by the accepted calls, in call order -- or no snapshot when no call queued
     anything; the files of a call that raised are not among them *)
  Lemma tx_commit_publishes w t :
    t_end t = EndCommit true ->
    exists tr, honest tr /\ length tr = length (t_calls t)
      /\ w_schema (run_tx conv w t) = w_schema w
      /\ w_snaps (run_tx conv w t) = match flat_map snd tr with
                                     | [] => w_snaps w
                                     | fs => (current w ++ fs) :: w_snaps w
                                     end.
  Proof.
    intro E. unfold run_tx. destruct (run_calls conv w tx_empty (t_handle t) (t_calls t)) as [[w1 q] tr] eqn:R.
    destruct (run_calls_spec _ _ _ _ _ _ _ R) as [Q [Hn [S1 S2]]]. simpl in Q.
    exists tr. split; [exact Hn|]. split.
    { exact (run_calls_length _ _ _ _ _ _ _ R). }
    rewrite E. simpl. rewrite Q. simpl. destruct (flat_map snd tr) as [|f fs]; [split; assumption|].
    simpl. split; [exact S1|]. unfold current. rewrite S2. reflexivity.
  Qed.

  (* C11_tx_unpublished_no_trace: a failed commit, a rollback or an abandoned handle publish nothing *)
  Lemma tx_not_committed w t :
    t_end t <> EndCommit true ->
    w_schema (run_tx conv w t) = w_schema w /\ w_snaps (run_tx conv w t) = w_snaps w
    /\ full_scan (run_tx conv w t) = full_scan w.
  Proof.
    intro E. unfold run_tx. destruct (run_calls conv w tx_empty (t_handle t) (t_calls t)) as [[w1 q] tr] eqn:R.
    destruct (run_calls_spec _ _ _ _ _ _ _ R) as [_ [_ [S1 S2]]].
    assert (G : w_schema (end_tx w1 q (t_end t)) = w_schema w1 /\ w_snaps (end_tx w1 q (t_end t)) = w_snaps w1).
    { destruct (t_end t) as [[|]| |]; simpl; auto; [contradiction E; reflexivity|]. destruct (q_files q); simpl; auto. }
    destruct G as [G1 G2]. repeat split; try congruence.
    unfold full_scan, current. rewrite G2, S2. reflexivity.
  Qed.

  (* ---- scans keep working after any history of transactions ---- *)
  Variable ts : ischema.
  Let A := arrow_of (sfields ts).

  Record InvT (w : world) : Prop := {
    it_schema : w_schema w = Some ts;
    it_caches : forall h c, In (h, c) (w_caches w) -> cache_ok ts c;
    it_files : forall snap f, In snap (w_snaps w) -> In f snap -> df_arrow f = A
  }.

  Lemma invt_init : InvT (init (Some ts)).
  Proof. constructor; simpl; auto; intros; contradiction. Qed.

  Lemma invt_cache_of w h : InvT w -> cache_ok ts (cache_of w h).
  Proof.
    intro I. unfold cache_of. destruct (lookup h (w_caches w)) as [c|] eqn:L.
    - apply lookup_In in L. exact (it_caches w I h c L).
    - intros k a [].
  Qed.

  Lemma check_files_ok fs : forall c c' ok, cache_ok ts c -> check_files (Some ts) c fs = (c', ok) ->
    cache_ok ts c' /\ (ok = true -> forall p, In p fs -> footer_of p = A).
  Proof.
    induction fs as [|p r IH]; simpl; intros c c' ok C H.
    - inversion H; subst. split; [exact C | intros _ q []].
    - destruct (pf_canonical p && pf_exists p && pf_parquet p).
      2:{ inversion H; subst. split; [exact C | discriminate]. }
      destruct (create_arrow_schema c ts) as [a c1] eqn:CA.
      destruct (create_ok ts _ _ _ _ C eq_refl CA) as [Ea C1]. subst a.
      destruct (pf_footer p) as [ft|] eqn:F.
      2:{ inversion H; subst. split; [exact C1 | discriminate]. }
      destruct (aschema_eqb ft (arrow_of (sfields ts))) eqn:EQ.
      + destruct (IH _ _ _ C1 H) as [C2 P]. split; [exact C2|]. intros O q [->|Hq]; [|exact (P O q Hq)].
        unfold footer_of. rewrite F. apply aschema_eqb_eq. exact EQ.
      + inversion H; subst. split; [exact C1 | discriminate].
  Qed.

  Lemma invt_set_cache w h c : InvT w -> cache_ok ts c -> InvT (set_cache w h c).
  Proof.
    intros I C. constructor; simpl; try apply I. intros h0 c0 [E|H]; [inversion E; subst; exact C | exact (it_caches w I h0 c0 H)].
  Qed.

  Lemma invt_with_store w st n : InvT w -> InvT (with_store w st n).
  Proof. intro I. constructor; simpl; apply I. Qed.

  Lemma stage_records_invt late w h arg recs w' fo wr t : InvT w -> stage_records conv late w h arg recs = (w', fo, wr, t) ->
    InvT w' /\ forall f, fo = Some f -> df_arrow f = A.
  Proof.
    intros I. unfold stage_records. rewrite (it_schema w I).
    destruct (resolve (Some ts) arg) as [s|o] eqn:R.
    2:{ intro H; inversion H; subst. split; [exact I | discriminate]. }
    pose proof (resolve_fields ts _ _ R) as F.
    destruct (negb (forallb (validate_record (sfields s)) recs)); [intro H; inversion H; subst; split; [exact I | discriminate]|].
    destruct (create_arrow_schema (cache_of w h) s) as [a c'] eqn:CA.
    destruct (create_ok ts _ _ _ _ (invt_cache_of w h I) F CA) as [Ea Cc]. subst a.
    pose proof (invt_set_cache w h c' I Cc) as I1.
    destruct (convert conv (arrow_of (sfields ts)) recs) as [rows|]; [|intro H; inversion H; subst; split; [exact I1 | discriminate]].
    destruct (bounds_for (sfields s) (arrow_of (sfields ts)) rows) as [lo hi].
    set (w2 := with_store (set_cache w h c') (w_next w :: w_store (set_cache w h c')) (w_next w + 1)).
    pose proof (invt_with_store _ (w_next w :: w_store (set_cache w h c')) (w_next w + 1) I1) as I2. fold w2 in I2.
    destruct late; [intro H; inversion H; subst; split; [exact I2 | discriminate]|].
    match goal with |- context [check_files ?x ?y ?z] => destruct (check_files x y z) as [c2 ok] eqn:CF end.
    assert (E2 : w_schema w2 = Some ts) by (exact (it_schema w2 I2)).
    rewrite E2 in CF. destruct (check_files_ok _ _ _ _ (invt_cache_of w2 h I2) CF) as [C2 _].
    pose proof (invt_set_cache w2 h c2 I2 C2) as I3.
    destruct ok; intro H; inversion H; subst; (split; [exact I3|]).
    - intros f E. inversion E; subst. reflexivity.
    - discriminate.
  Qed.

  Lemma call_records_invt late w h arg recs w' wr t added : InvT w -> call_records conv late w h arg recs = (w', wr, t, added) ->
    InvT w' /\ forall f, In f added -> df_arrow f = A.
  Proof.
    intros I. unfold call_records. destruct (stage_records conv late w h arg recs) as [[[w1 fo] wr1] t1] eqn:S.
    destruct (stage_records_invt _ _ _ _ _ _ _ _ _ I S) as [I1 P].
    destruct fo as [f0|]; intro H; inversion H; subst; (split; [exact I1|]).
    - intros f [<-|[]]. apply P. reflexivity.
    - intros f [].
  Qed.

  Lemma call_files_invt w h fs w' wr t added : InvT w -> call_files w h fs = (w', wr, t, added) ->
    InvT w' /\ forall f, In f added -> df_arrow f = A.
  Proof.
    intros I. unfold call_files. rewrite (it_schema w I).
    destruct (check_files (Some ts) (cache_of w h) fs) as [c' ok] eqn:CF.
    destruct (check_files_ok _ _ _ _ (invt_cache_of w h I) CF) as [C1 P].
    pose proof (invt_set_cache w h c' I C1) as I1.
    destruct ok; intro H; inversion H; subst; (split; [exact I1|]).
    - intros f Hf. apply in_map_iff in Hf. destruct Hf as [p [<- Hp]]. simpl. exact (P eq_refl p Hp).
    - intros f [].
  Qed.

  Lemma call_step_invt w h c w' wr t added : InvT w -> call_step conv w h c = (w', wr, t, added) ->
    InvT w' /\ forall f, In f added -> df_arrow f = A.
  Proof.
    intros I. destruct c as [arg recs|fs|ft arg recs|ft fs]; simpl.
    - apply call_records_invt; exact I.
    - apply call_files_invt; exact I.
    - destruct ft.
      + intro H; inversion H; subst. split; [exact I | intros f []].
      + destruct (resolve (w_schema w) arg); intro H; inversion H; subst; (split; [exact I | intros f []]).
      + apply call_records_invt; exact I.
    - destruct ft; try (apply call_files_invt; exact I). intro H; inversion H; subst. split; [exact I | intros f []].
  Qed.

  Lemma run_calls_invt h cs : forall w q w' q' tr, InvT w -> (forall f, In f (q_files q) -> df_arrow f = A) ->
    run_calls conv w q h cs = (w', q', tr) -> InvT w' /\ forall f, In f (q_files q') -> df_arrow f = A.
  Proof.
    induction cs as [|c cs IH]; simpl; intros w q w' q' tr I Q H.
    - inversion H; subst. auto.
    - destruct (call_step conv w h c) as [[[w1 wr] t] added] eqn:C.
      destruct (run_calls conv w1 (enqueue q wr added) h cs) as [[w2 q2] tr2] eqn:R.
      inversion H; subst. destruct (call_step_invt _ _ _ _ _ _ _ I C) as [I1 Ad].
      eapply IH; [exact I1| |exact R]. simpl. intros f Hf. apply in_app_or in Hf. destruct Hf; auto.
  Qed.

  Lemma run_tx_invt w t : InvT w -> InvT (run_tx conv w t).
  Proof.
    intro I. unfold run_tx. destruct (run_calls conv w tx_empty (t_handle t) (t_calls t)) as [[w1 q] tr] eqn:R.
    assert (Q0 : forall f, In f (q_files tx_empty) -> df_arrow f = A) by (intros f []).
    destruct (run_calls_invt _ _ _ _ _ _ _ I Q0 R) as [I1 Q].
    destruct (t_end t) as [[|]| |]; simpl; auto; try (apply invt_with_store; exact I1).
    2:{ destruct (q_files q); [exact I1 | apply invt_with_store; exact I1]. }
    destruct (q_files q) as [|f0 fs0] eqn:QF; [exact I1|].
    constructor; simpl; try apply I1. intros snap f [E|H] Hf.
    - subst snap. apply in_app_or in Hf. destruct Hf as [Hf|Hf]; [|apply Q; exact Hf].
      destruct (current_in _ _ Hf) as [sn [H1 H2]]. exact (it_files w1 I1 sn f H1 H2).
    - exact (it_files w1 I1 snap f H Hf).
  Qed.

  Lemma run_txs_invt txs : forall w, InvT w -> InvT (run_txs conv w txs).
  Proof. induction txs as [|t txs IH]; simpl; intros w I; [exact I | apply IH, run_tx_invt, I]. Qed.

  (* C11_tx_history_scans *)
  Lemma tx_history_scans txs :
    scan_ok (current (run_txs conv (init (Some ts)) txs)) = true /\ full_scan (run_txs conv (init (Some ts)) txs) <> None.
  Proof.
    pose proof (run_txs_invt txs _ invt_init) as I.
    assert (S : scan_ok (current (run_txs conv (init (Some ts)) txs)) = true).
    { apply (scan_ok_same A). intros f Hf. destruct (current_in _ _ Hf) as [sn [H1 H2]]. exact (it_files _ I sn f H1 H2). }
    split; [exact S|]. unfold full_scan. rewrite S. discriminate.
  Qed.
End TxProofs.
