(* Proofs/GCConfProofs.v -- lemmas about the model of Python's logging tree (Model/LogConf.v: NOT property theorems, they say nothing about
   DataShard) and the counted source facts about the collector and the process-wide configuration (Model/GCConf.v). *)
From Coq Require Import ZArith List String Bool Lia.
Require Import DS.Gen.GenGCLog DS.Model.LogConf DS.Model.GC DS.Model.GCConf DS.Proofs.GCProofs.
Import ListNotations.
Open Scope Z_scope.

(* --- the logging tree --- *)
Lemma enabled_spec : forall c lvl, enabled c lvl = true <-> lc_disable c < lvl /\ effective c <= lvl.
Proof.
  intros c lvl. unfold enabled.
  destruct (lc_disable c >=? lvl) eqn:Hd.
  - split; [discriminate|]. intros [H _]. apply Z.geb_le in Hd. lia.
  - rewrite Z.geb_leb in *. rewrite Z.leb_le. apply Z.leb_gt in Hd. split; [intro; split; lia| intros [_ H]; exact H].
Qed.

Lemma disable_masks_now : forall c lvl, lvl <= lc_disable c -> enabled c lvl = false.
Proof.
  intros c lvl H. unfold enabled. destruct (lc_disable c >=? lvl) eqn:Hd; [reflexivity|].
  rewrite Z.geb_leb in Hd. apply Z.leb_gt in Hd. lia.
Qed.

Lemma disable_preserved : forall evs c, forallb (fun e => negb (is_disable e)) evs = true ->
  lc_disable (conf_run evs c) = lc_disable c.
Proof.
  induction evs as [|e evs IH]; intros c H; [reflexivity|].
  simpl in H. apply andb_true_iff in H. destruct H as [He Hr].
  unfold conf_run in *. simpl. rewrite (IH _ Hr). destruct e; simpl in *; try reflexivity. discriminate.
Qed.

(* once logging.disable(d) is in force, NO later sequence of level changes (set_level, setLevel anywhere in the tree,
   environment) enables a record of level <= d: a check that runs the library under logging.disable(CRITICAL) reaches no
   level-guarded statement, whatever levels it sets. *)
Lemma disable_masks : forall evs c d lvl,
  forallb (fun e => negb (is_disable e)) evs = true -> lvl <= d ->
  enabled (conf_run evs (conf_step c (EDisable d))) lvl = false.
Proof.
  intros evs c d lvl Hn Hl. apply disable_masks_now. rewrite (disable_preserved _ _ Hn). simpl. exact Hl.
Qed.

(* DataShardLogger.set_level(l), l <> NOTSET, with the module logger inheriting (as the library creates it): the records enabled
   afterwards are exactly those of level >= l that logging.disable does not mask -- from EVERY earlier configuration. *)
Lemma set_level_enables : forall c l lvl, l <> NOTSET -> lc_mod c = NOTSET ->
  (enabled (conf_step c (ESetLevel l)) lvl = true <-> lc_disable c < lvl /\ l <= lvl).
Proof.
  intros c l lvl Hl Hm. rewrite enabled_spec. unfold effective. simpl. rewrite Hm. simpl.
  destruct (l =? NOTSET) eqn:E; [apply Z.eqb_eq in E; contradiction|]. simpl. reflexivity.
Qed.

(* the module's own level wins over whatever the library's set_level did before or after *)
Lemma mod_level_wins : forall evs c l lvl, l <> NOTSET ->
  forallb (fun e => match e with EModLevel _ | EDisable _ => false | _ => true end) evs = true ->
  (enabled (conf_run evs (conf_step c (EModLevel l))) lvl = true <-> lc_disable c < lvl /\ l <= lvl).
Proof.
  intros evs c l lvl Hl Hn.
  assert (Hinv : forall evs c0, forallb (fun e => match e with EModLevel _ | EDisable _ => false | _ => true end) evs = true ->
            lc_mod (conf_run evs c0) = lc_mod c0 /\ lc_disable (conf_run evs c0) = lc_disable c0).
  { clear. induction evs as [|e evs IH]; intros c0 H; [split; reflexivity|].
    simpl in H. apply andb_true_iff in H. destruct H as [He Hr]. unfold conf_run in *. simpl.
    destruct (IH (conf_step c0 e) Hr) as [A B]. rewrite A, B. destruct e; simpl in *; try discriminate; split; reflexivity. }
  destruct (Hinv evs (conf_step c (EModLevel l)) Hn) as [A B].
  rewrite enabled_spec. unfold effective. rewrite A, B. simpl.
  destruct (l =? NOTSET) eqn:E; [apply Z.eqb_eq in E; contradiction|]. simpl. reflexivity.
Qed.

(* --- the collector under a configuration --- *)
Lemma may_emit_spec : forall c s, In s (may_emit c) <-> In s GC_LOG_SITES /\ lc_disable c < snd s /\ effective c <= snd s.
Proof. intros c s. unfold may_emit. rewrite filter_In, enabled_spec. reflexivity. Qed.

Lemma may_emit_sites : forall c s, In s (may_emit c) -> In s GC_LOG_SITES /\ enabled c (snd s) = true.
Proof. intros c s H. unfold may_emit in H. apply filter_In in H. exact H. Qed.

(* COUNTED SOURCE FACTS (Gen/GenGCLog.v, regenerated on every run): in garbage_collector.py (lexical check, fail closed) and in every
   function of the scope modules reachable by name from it (counting scan) there is no use of a logger other than logging statements
   with purely observing arguments, no use of the logging module, and no read of the environment.  This is a statement about the
   generated tables, NOT about gc_run: Model/GC.v has no configuration input on the strength of it. *)
Lemma conf_not_consulted : GC_CONF_READS = [] /\ GC_ENV_READS = [] /\ GC_ENV_VARS = [].
Proof. repeat split; reflexivity. Qed.

Lemma gc_env_view_empty : forall c, gc_env_view c = [].
Proof. intro c. unfold gc_env_view. rewrite (proj2 (proj2 conf_not_consulted)). reflexivity. Qed.
