(* Proofs/GCConfProofs.v -- the collector under every process-wide configuration (Model/LogConf.v, Model/GCConf.v). *)
From Coq Require Import ZArith List String Bool Lia.
Require Import DS.Gen.GenGCLog DS.Model.LogConf DS.Model.GC DS.Model.GCConf DS.Proofs.GCProofs.
Import ListNotations.
Open Scope Z_scope.

(* --- the logging tree --- *)
Lemma enabled_spec : forall c lvl, enabled c lvl = true <-> lc_disable c < lvl /\ effective c <= lvl.
Proof.
  intros c lvl. unfold enabled.
  destruct (lc_disable c >=? lvl) eqn:Hd.
  - split; [discriminate|]. intros [H _]. apply Z.geb_le in Hd. lia.
  - rewrite Z.geb_leb in *. rewrite Z.leb_le. apply Z.leb_gt in Hd. split; [intro; split; lia| intros [_ H]; exact H].
Qed.

Lemma disable_masks_now : forall c lvl, lvl <= lc_disable c -> enabled c lvl = false.
Proof.
  intros c lvl H. unfold enabled. destruct (lc_disable c >=? lvl) eqn:Hd; [reflexivity|].
  rewrite Z.geb_leb in Hd. apply Z.leb_gt in Hd. lia.
Qed.

Lemma disable_preserved : forall evs c, forallb (fun e => negb (is_disable e)) evs = true ->
  lc_disable (conf_run evs c) = lc_disable c.
Proof.
  induction evs as [|e evs IH]; intros c H; [reflexivity|].
  simpl in H. apply andb_true_iff in H. destruct H as [He Hr].
  unfold conf_run in *. simpl. rewrite (IH _ Hr). destruct e; simpl in *; try reflexivity. discriminate.
Qed.

(* once logging.disable(d) is in force, NO later sequence of level changes (set_level, setLevel anywhere in the tree,
   environment) enables a record of level <= d: a check that runs the library under logging.disable(CRITICAL) reaches no
   level-guarded statement, whatever levels it sets. *)
Lemma disable_masks : forall evs c d lvl,
  forallb (fun e => negb (is_disable e)) evs = true -> lvl <= d ->
  enabled (conf_run evs (conf_step c (EDisable d))) lvl = false.
Proof.
  intros evs c d lvl Hn Hl. apply disable_masks_now. rewrite (disable_preserved _ _ Hn). simpl. exact Hl.
Qed.

(* DataShardLogger.set_level(l), l <> NOTSET, with the module logger inheriting (as the library creates it): the records enabled
   afterwards are exactly those of level >= l that logging.disable does not mask -- from EVERY earlier configuration. *)
Lemma set_level_enables : forall c l lvl, l <> NOTSET -> lc_mod c = NOTSET ->
  (enabled (conf_step c (ESetLevel l)) lvl = true <-> lc_disable c < lvl /\ l <= lvl).
Proof.
  intros c l lvl Hl Hm. rewrite enabled_spec. unfold effective. simpl. rewrite Hm. simpl.
  destruct (l =? NOTSET) eqn:E; [apply Z.eqb_eq in E; contradiction|]. simpl. reflexivity.
Qed.

(* the module's own level wins over whatever the library's set_level did before or after *)
Lemma mod_level_wins : forall evs c l lvl, l <> NOTSET ->
  forallb (fun e => match e with EModLevel _ | EDisable _ => false | _ => true end) evs = true ->
  (enabled (conf_run evs (conf_step c (EModLevel l))) lvl = true <-> lc_disable c < lvl /\ l <= lvl).
Proof.
  intros evs c l lvl Hl Hn.
  assert (Hinv : forall evs c0, forallb (fun e => match e with EModLevel _ | EDisable _ => false | _ => true end) evs = true ->
            lc_mod (conf_run evs c0) = lc_mod c0 /\ lc_disable (conf_run evs c0) = lc_disable c0).
  { clear. induction evs as [|e evs IH]; intros c0 H; [split; reflexivity|].
    simpl in H. apply andb_true_iff in H. destruct H as [He Hr]. unfold conf_run in *. simpl.
    destruct (IH (conf_step c0 e) Hr) as [A B]. rewrite A, B. destruct e; simpl in *; try discriminate; split; reflexivity. }
  destruct (Hinv evs (conf_step c (EModLevel l)) Hn) as [A B].
  rewrite enabled_spec. unfold effective. rewrite A, B. simpl.
  destruct (l =? NOTSET) eqn:E; [apply Z.eqb_eq in E; contradiction|]. simpl. reflexivity.
Qed.

(* --- the collector under a configuration --- *)
Lemma may_emit_spec : forall c s, In s (may_emit c) <-> In s GC_LOG_SITES /\ lc_disable c < snd s /\ effective c <= snd s.
Proof. intros c s. unfold may_emit. rewrite filter_In, enabled_spec. reflexivity. Qed.

(* what a collection does to the store is the same under EVERY history of configuration events from EVERY starting
   configuration; what it may log comes from the regenerated statement table, at enabled levels only; it reads no environment *)
Lemma gc_conf_independent : forall (evs : list conf_ev) (c0 : logconf) tp grace now timeout o snaps st,
  fst (gc_run_conf (conf_run evs c0) tp grace now timeout o snaps st) = gc_run tp grace now timeout o snaps st
  /\ (forall s, In s (snd (gc_run_conf (conf_run evs c0) tp grace now timeout o snaps st)) ->
        In s GC_LOG_SITES /\ enabled (conf_run evs c0) (snd s) = true)
  /\ gc_env_view (conf_run evs c0) = [].
Proof.
  intros. split; [reflexivity|]. split; [|reflexivity].
  intros s H. simpl in H. unfold may_emit in H. apply filter_In in H. exact H.
Qed.

(* C05_gc_safe under every configuration history *)
Lemma gc_safe_any_conf : forall (evs : list conf_ev) (c0 : logconf) (tp : string) (grace now timeout : Z) (snaps : list string) (st : store),
  wf_store snaps st ->
  forall k, In k (r_deleted (fst (gc_run_conf (conf_run evs c0) tp grace now timeout no_faults snaps st))) ->
    ~ referenced snaps st k /\ ~ live_target now timeout st k /\ exists ob, lookup k st = Some ob /\ mtime ob < now - grace.
Proof. intros evs c0 tp grace now timeout snaps st Hwf k Hk. exact (gc_safe_nofault tp grace now timeout snaps st Hwf k Hk). Qed.
