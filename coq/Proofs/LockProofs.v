(* Proofs/LockProofs.v -- invariants of the S3 conditional-write lock model (C19, S3 lock). *)
From Coq Require Import ZArith NArith Lia List Bool.
Require Import DS.Model.PyTime DS.Gen.GenLockAge DS.Model.Lock DS.Proofs.LockAgeProofs.
Import ListNotations.
Open Scope Z_scope.

Lemma updN_same {A} (f : N -> A) k v : updN f k v k = v.
Proof. unfold updN. rewrite N.eqb_refl. reflexivity. Qed.

Lemma updN_other {A} (f : N -> A) k v x : x <> k -> updN f k v x = f x.
Proof. unfold updN. intro H. destruct (N.eqb_spec x k); [contradiction|reflexivity]. Qed.

Definition etag_pc (p : spc) (l : Z) (e : N) : Prop := (exists r, p = QAge l e r) \/ p = QTake l e.

Section S3.
Variable cd : bool.
Variable lease : Z.
Variable rsleep : Z.

Record sinv (s : sstate) : Prop := {
  E_obj : forall o, obj s = Some o -> (etag o < next_etag s)%N /\ lm o <= snow s;
  E_my : forall c e, my_etag (scl s c) = Some e -> (e < next_etag s)%N;
  E_own : forall c e o, my_etag (scl s c) = Some e -> obj s = Some o -> etag o = e -> owner o = c;
  E_pc : forall c l e, etag_pc (s_pc (scl s c)) l e ->
         (e < next_etag s)%N /\ forall o, obj s = Some o -> etag o = e -> lm o = l;
  E_take : forall c l e, s_pc (scl s c) = QTake l e -> snow s - l > lease;
  E_rel : forall c, in_release (s_pc (scl s c)) = true -> is_locked (scl s c) = true /\ hb (scl s c) = false;
  E_lw : forall c, last_write (scl s c) <= snow s
}.

(* a client that believes it holds the lock and whose lease has not lapsed really owns the object *)
Definition hinv (s : sstate) : Prop :=
  forall c, is_locked (scl s c) = true -> snow s - last_write (scl s c) <= lease ->
            exists o, obj s = Some o /\ owner o = c /\ last_write (scl s c) <= lm o.

Lemma sinv_init : sinv sinit.
Proof. constructor; simpl; intros; try discriminate; try lia. destruct H as [[r H]|H]; discriminate. Qed.

Lemma hinv_init : hinv sinit.
Proof. intros c H. discriminate. Qed.

Ltac eqc c0 c := destruct (N.eq_dec c0 c) as [->|?]; [rewrite ?updN_same in *|rewrite ?updN_other in * by assumption].

(* --- the object is kept or deleted; time may advance; only client c's record changes --- *)
Lemma sinv_keep s c x' o' t ld ob r :
  sinv s -> (o' = obj s \/ o' = None) -> snow s <= t ->
  (my_etag x' = my_etag (scl s c) \/ my_etag x' = None) ->
  (forall l e, etag_pc (s_pc x') l e ->
     etag_pc (s_pc (scl s c)) l e \/ (exists o, obj s = Some o /\ l = lm o /\ e = etag o)) ->
  (forall l e, s_pc x' = QTake l e -> s_pc (scl s c) = QTake l e \/ snow s - l > lease) ->
  (in_release (s_pc x') = true -> is_locked x' = true /\ hb x' = false) ->
  last_write x' = last_write (scl s c) ->
  sinv (s_set s o' (next_etag s) t c x' ld ob r).
Proof.
  intros [I1 I2 I3 I4 I5 I6 I7] Ho Ht Hm Hp Hk Hr Hl.
  assert (Hobj : forall o, o' = Some o -> obj s = Some o).
  { intros o E. destruct Ho as [Ho|Ho]; congruence. }
  constructor; simpl.
  - intros o E. apply Hobj in E. apply I1 in E. lia.
  - intros c0 e E. eqc c0 c; [|eauto]. destruct Hm as [Hm|Hm]; rewrite Hm in E; [eauto|discriminate].
  - intros c0 e o E Eo Ee. apply Hobj in Eo. eqc c0 c; [|eauto].
    destruct Hm as [Hm|Hm]; rewrite Hm in E; [eauto|discriminate].
  - intros c0 l e E. eqc c0 c.
    + destruct (Hp l e E) as [Hold|[o [Eo [El Ee]]]].
      * destruct (I4 c l e Hold) as [A B]. split; [exact A|]. intros o Eo. apply Hobj in Eo. auto.
      * subst. split; [apply I1; auto|]. intros o2 Eo2 _. apply Hobj in Eo2. congruence.
    + destruct (I4 c0 l e E) as [A B]. split; [exact A|]. intros o Eo. apply Hobj in Eo. auto.
  - intros c0 l e E. eqc c0 c.
    + destruct (Hk l e E) as [Hold|Hnew]; [apply I5 in Hold|]; lia.
    + apply I5 in E. lia.
  - intros c0 E. eqc c0 c; auto.
  - intros c0. eqc c0 c; [rewrite Hl; specialize (I7 c)|specialize (I7 c0)]; lia.
Qed.

(* --- client c overwrites / creates the object with a fresh etag at the current time --- *)
Lemma sinv_write s c x' ld ob r :
  sinv s ->
  (my_etag x' = Some (next_etag s) \/ my_etag x' = my_etag (scl s c)) ->
  (forall l e, etag_pc (s_pc x') l e -> etag_pc (s_pc (scl s c)) l e) ->
  (forall l e, s_pc x' = QTake l e -> s_pc (scl s c) = QTake l e) ->
  (in_release (s_pc x') = true -> is_locked x' = true /\ hb x' = false) ->
  (last_write x' = last_write (scl s c) \/ last_write x' = snow s) ->
  sinv (s_set s (Some (fresh_obj s c)) (N.succ (next_etag s)) (snow s) c x' ld ob r).
Proof.
  intros [I1 I2 I3 I4 I5 I6 I7] Hm Hp Hk Hr Hl.
  constructor; simpl.
  - intros o E. inversion E; subst; simpl. split; lia.
  - intros c0 e E. eqc c0 c.
    + destruct Hm as [Hm|Hm]; rewrite Hm in E; [inversion E; lia|apply I2 in E; lia].
    + apply I2 in E. lia.
  - intros c0 e o E Eo Ee. inversion Eo; subst; simpl in *. eqc c0 c; [reflexivity|].
    apply I2 in E. lia.
  - intros c0 l e E.
    assert (Hold : etag_pc (s_pc (scl s c0)) l e) by (eqc c0 c; auto).
    destruct (I4 c0 l e Hold) as [A B]. split; [lia|].
    intros o Eo Ee. inversion Eo; subst; simpl in *. lia.
  - intros c0 l e E. eqc c0 c; [apply Hk in E|]; apply I5 in E; lia.
  - intros c0 E. eqc c0 c; auto.
  - intros c0. eqc c0 c; [destruct Hl as [Hl|Hl]; rewrite Hl; specialize (I7 c)|specialize (I7 c0)]; lia.
Qed.

Lemma sinv_log s ob : sinv s -> sinv (s_log s ob).
Proof. intros [I1 I2 I3 I4 I5 I6 I7]. constructor; simpl; auto. Qed.

Lemma sinv_tick s d ob : sinv s ->
  sinv (s_log {| obj := obj s; next_etag := next_etag s; snow := snow s + Z.max 0 d; zone := zone s;
                 lmrep := lmrep s; scl := scl s; late_delete := late_delete s; strace := strace s |} ob).
Proof.
  intros [I1 I2 I3 I4 I5 I6 I7]. constructor; simpl; auto.
  - intros o E. apply I1 in E. lia.
  - intros c l e E. apply I5 in E. lia.
  - intros c. specialize (I7 c). lia.
Qed.

Lemma sinv_env s z r ob : sinv s ->
  sinv (s_log {| obj := obj s; next_etag := next_etag s; snow := snow s; zone := z; lmrep := r;
                 scl := scl s; late_delete := late_delete s; strace := strace s |} ob).
Proof. intros [I1 I2 I3 I4 I5 I6 I7]. constructor; simpl; auto. Qed.

(* ---- hinv preservation lemmas ---- *)
Lemma hinv_keep s c x' t ld ob r :
  hinv s -> snow s <= t ->
  (is_locked x' = true -> is_locked (scl s c) = true) ->
  last_write x' = last_write (scl s c) ->
  hinv (s_set s (obj s) (next_etag s) t c x' ld ob r).
Proof.
  intros H Ht Hl Hw c0. simpl. eqc c0 c.
  - intros L W. rewrite Hw in *. apply H; auto. lia.
  - intros L W. apply H; auto. lia.
Qed.

Lemma hinv_write s c x' ld ob r :
  hinv s -> sinv s ->
  (forall c0, c0 <> c -> is_locked (scl s c0) = true -> snow s - last_write (scl s c0) <= lease -> False) ->
  (last_write x' = last_write (scl s c) \/ last_write x' = snow s) ->
  hinv (s_set s (Some (fresh_obj s c)) (N.succ (next_etag s)) (snow s) c x' ld ob r).
Proof.
  intros H I Hno Hw c0. simpl. eqc c0 c.
  - intros L W. exists (fresh_obj s c). simpl. repeat split.
    destruct Hw as [Hw|Hw]; rewrite Hw; [apply (E_lw s I)|lia].
  - intros L W. exfalso. eapply Hno; eauto.
Qed.

Lemma hinv_delete s c x' ld ob r :
  hinv s -> sinv s ->
  in_release (s_pc (scl s c)) = true ->
  snow s - last_write (scl s c) <= lease ->
  is_locked x' = false ->
  hinv (s_set s None (next_etag s) (snow s) c x' ld ob r).
Proof.
  intros H I Hr Hw Hl c0. simpl. eqc c0 c.
  - intros L. congruence.
  - intros L W. exfalso.
    destruct (H c (proj1 (E_rel s I c Hr)) Hw) as [o [Eo [Oo _]]].
    destruct (H c0 L W) as [o2 [Eo2 [Oo2 _]]]. congruence.
Qed.

Lemma hinv_delete_cd s c x' e ld ob r :
  hinv s -> sinv s ->
  my_etag (scl s c) = Some e -> etag_matches s e = true ->
  is_locked x' = false ->
  hinv (s_set s None (next_etag s) (snow s) c x' ld ob r).
Proof.
  intros H I M Em Hl c0. simpl. eqc c0 c.
  - intros L. congruence.
  - intros L W. exfalso.
    unfold etag_matches in Em. destruct (obj s) as [o|] eqn:Eo; [|discriminate]. apply N.eqb_eq in Em.
    pose proof (E_own s I c e o M Eo Em) as Ow.
    destruct (H c0 L W) as [o2 [Eo2 [Oo2 _]]]. congruence.
Qed.

Lemma hinv_log s ob : hinv s -> hinv (s_log s ob).
Proof. intros H c. simpl. apply H. Qed.

Lemma etag_matches_spec s e : etag_matches s e = true -> exists o, obj s = Some o /\ etag o = e.
Proof.
  unfold etag_matches. destruct (obj s) as [o|]; [|discriminate]. intro H. apply N.eqb_eq in H. eauto.
Qed.


Ltac side :=
  simpl; try (left; reflexivity); try reflexivity; try lia; auto;
  try (intros ? ? [[? ?H]|?H]; discriminate); try (intros; discriminate).

Ltac keep I := unfold s_cl; apply sinv_keep; [exact I | side ..].
Ltac write I := apply sinv_write; [exact I | side ..].

Ltac break_match :=
  match goal with
  | |- context [match ?x with _ => _ end] => destruct x eqn:?
  | |- context [if ?b then _ else _] => destruct b eqn:?
  end.

Lemma step_sinv s ev : sinv s -> sinv (sstep cd lease rsleep s ev).
Proof.
  intro I. destruct ev as [c k|c f j|c f|d|c|z r]; simpl.
  - (* SCall *)
    repeat break_match; try (apply sinv_log; exact I); try (keep I).
  - (* SStep *)
    destruct (s_alive (scl s c)); [|apply sinv_log; exact I].
    destruct (s_pc (scl s c)) as [| | | |l e r|l e| |u|second|u| |] eqn:P.
    + apply sinv_log; exact I.
    + keep I.
    + (* QCreate *) destruct f; repeat break_match; try (keep I); try (write I).
    + (* QHead *) destruct f; repeat break_match; try (keep I).
      intros l0 e0 [[r0 H]|H]; inversion H; subst. right. eauto.
    + (* QAge *) rewrite takeover_age_render. destruct r as [off|]; [|keep I].
      rewrite takeover_keeps_spec. break_match.
      * keep I.
      * keep I.
        -- intros l0 e0 [[r0 H]|H]; inversion H; subst. left. left. eexists. exact P.
        -- intros l0 e0 H; inversion H; subst. right. apply Z.leb_gt in Heqb. lia.
    + (* QTake *) destruct f; repeat break_match; try (keep I); try (write I).
    + (* QTimeChk *) break_match; keep I.
    + (* QSleep *) apply sinv_keep; [exact I|side ..].
    + (* QHeldGet *) destruct f, second; repeat break_match; try (keep I).
    + (* QHeldSleep *) apply sinv_keep; [exact I|side ..].
    + (* QRelGet *) destruct f; repeat break_match; try (keep I).
      intros _. apply (E_rel s I c). rewrite P. reflexivity.
    + (* QRelDel *) break_match; [apply sinv_keep; [exact I|side ..]|keep I].
  - (* SRenew *)
    repeat break_match; try (apply sinv_log; exact I); try (keep I); try (write I);
      try (apply (E_rel s I c));
      (intro R; destruct (E_rel s I c R) as [_ Hb];
       apply andb_true_iff in Heqb; destruct Heqb as [Heqb _]; apply andb_true_iff in Heqb; destruct Heqb as [_ Heqb];
       congruence).
  - (* STick *) apply sinv_tick. exact I.
  - (* SDie *) keep I. apply (E_rel s I c).
  - (* SEnv *) apply sinv_env. exact I.
Qed.


Lemma hinv_tick s d ob : hinv s ->
  hinv (s_log {| obj := obj s; next_etag := next_etag s; snow := snow s + Z.max 0 d; zone := zone s;
                 lmrep := lmrep s; scl := scl s; late_delete := late_delete s; strace := strace s |} ob).
Proof. intros H c. simpl. intros L W. apply H; auto. lia. Qed.

Lemma hinv_env s z r ob : hinv s ->
  hinv (s_log {| obj := obj s; next_etag := next_etag s; snow := snow s; zone := z; lmrep := r;
                 scl := scl s; late_delete := late_delete s; strace := strace s |} ob).
Proof. intros H c. simpl. apply H. Qed.

Lemma late_sticky s ev : late_delete (sstep cd lease rsleep s ev) = false -> late_delete s = false.
Proof.
  destruct ev as [c k|c f j|c f|d|c|z r]; simpl; repeat break_match; simpl; auto.
  all: intro H; apply orb_false_iff in H; tauto.
Qed.

Ltac hkeep H := unfold s_cl; apply hinv_keep; [exact H | side ..].

Lemma step_hinv s ev : sinv s -> hinv s -> (cd = false -> late_delete (sstep cd lease rsleep s ev) = false) ->
  hinv (sstep cd lease rsleep s ev).
Proof.
  intros I H. destruct ev as [c k|c f j|c f|d|c|z r]; simpl.
  - (* SCall *)
    repeat break_match; intros _; try (apply hinv_log; exact H); try (hkeep H).
  - (* SStep *)
    destruct (s_alive (scl s c)); [|intros _; apply hinv_log; exact H].
    destruct (s_pc (scl s c)) as [| | | |l e r|l e| |u|second|u| |] eqn:P.
    + intros _; apply hinv_log; exact H.
    + intros _; hkeep H.
    + (* QCreate *)
      assert (Hno : obj s = None -> forall c0, c0 <> c -> is_locked (scl s c0) = true ->
                                    snow s - last_write (scl s c0) <= lease -> False).
      { intros Eo c0 _ L W. destruct (H c0 L W) as [o [Eo2 _]]. congruence. }
      destruct f; repeat break_match; intros _; try (hkeep H);
        (apply hinv_write; [exact H|exact I|apply Hno; first [assumption|reflexivity]|side]).
    + (* QHead *) destruct f; repeat break_match; intros _; hkeep H.
    + (* QAge *) rewrite takeover_age_render. destruct r as [off|]; [|intros _; hkeep H].
      break_match; intros _; hkeep H.
    + (* QTake *)
      assert (Hno : etag_matches s e = true -> forall c0, c0 <> c -> is_locked (scl s c0) = true ->
                                    snow s - last_write (scl s c0) <= lease -> False).
      { intros Em c0 _ L W. destruct (etag_matches_spec s e Em) as [o [Eo Ee]].
        destruct (E_pc s I c l e (or_intror P)) as [_ B]. specialize (B o Eo Ee).
        pose proof (E_take s I c l e P) as T.
        destruct (H c0 L W) as [o2 [Eo2 [_ Hlm]]]. rewrite Eo in Eo2. inversion Eo2; subst. lia. }
      destruct f; repeat break_match; intros _; try (hkeep H);
        (apply hinv_write; [exact H|exact I|apply Hno; first [assumption|reflexivity]|side]).
    + (* QTimeChk *) break_match; intros _; hkeep H.
    + (* QSleep *) intros _. apply hinv_keep; [exact H|side ..].
    + (* QHeldGet *) destruct f, second; repeat break_match; intros _; hkeep H.
    + (* QHeldSleep *) intros _. apply hinv_keep; [exact H|side ..].
    + (* QRelGet *) destruct f; repeat break_match; intros _; hkeep H.
    + (* QRelDel *)
      destruct (lands f && (negb cd || match my_etag (scl s c) with Some e => etag_matches s e | None => false end)) eqn:Cnd;
        [|intros _; hkeep H].
      apply andb_true_iff in Cnd. destruct Cnd as [_ Cnd]. simpl. intro Hl.
      destruct cd; simpl in Cnd.
      * destruct (my_etag (scl s c)) as [e|] eqn:M; [|discriminate].
        eapply hinv_delete_cd; eauto.
      * specialize (Hl eq_refl). apply orb_false_iff in Hl. destruct Hl as [_ Hl].
        apply negb_false_iff in Hl. apply Z.leb_le in Hl.
        apply hinv_delete; auto. rewrite P. reflexivity.
  - (* SRenew *)
    destruct (s_alive (scl s c) && hb (scl s c) && is_locked (scl s c)) eqn:G; [|intros _; apply hinv_log; exact H].
    destruct (my_etag (scl s c)) as [e|] eqn:M; [|intros _; apply hinv_log; exact H].
    assert (Hno : etag_matches s e = true -> forall c0, c0 <> c -> is_locked (scl s c0) = true ->
                                  snow s - last_write (scl s c0) <= lease -> False).
    { intros Em c0 Hne L W. destruct (etag_matches_spec s e Em) as [o [Eo Ee]].
      pose proof (E_own s I c e o M Eo Ee) as Ow.
      destruct (H c0 L W) as [o2 [Eo2 [Ow2 _]]]. rewrite Eo in Eo2. inversion Eo2; subst. congruence. }
    destruct f; repeat break_match; intros _; try (hkeep H);
      (apply hinv_write; [exact H|exact I|apply Hno; first [assumption|reflexivity]|side]).
  - (* STick *) intros _. apply hinv_tick. exact H.
  - (* SDie *) intros _. hkeep H.
  - (* SEnv *) intros _. apply hinv_env. exact H.
Qed.

Lemma run_inv evs : forall s, sinv s -> ((cd = false -> late_delete s = false) -> hinv s) ->
  sinv (srun cd lease rsleep s evs)
  /\ ((cd = false -> late_delete (srun cd lease rsleep s evs) = false) -> hinv (srun cd lease rsleep s evs)).
Proof.
  induction evs as [|ev evs IH]; intros s I H; simpl; [auto|].
  apply IH.
  - apply step_sinv. exact I.
  - intro L. apply step_hinv; auto. apply H. intro C. eapply late_sticky. apply L. exact C.
Qed.

(* ---- C19_s3_mutex_partial ---- *)
Theorem s3_mutex_partial : forall evs,
  let s := srun cd lease rsleep sinit evs in
  (cd = false -> late_delete s = false) ->
  s3_mutex_at lease s
  /\ forall c, holder_live lease s c -> exists o, obj s = Some o /\ owner o = c.
Proof.
  intros evs s L.
  destruct (run_inv evs sinit sinv_init (fun _ => hinv_init)) as [I H]. fold s in I, H. specialize (H L).
  assert (Own : forall c, holder_live lease s c -> exists o, obj s = Some o /\ owner o = c).
  { intros c (A & Lk & R & W). destruct (H c Lk W) as [o [Eo [Ow _]]]. eauto. }
  split; [|exact Own].
  intros c1 c2 H1 H2. destruct (Own c1 H1) as [o1 [E1 O1]]. destruct (Own c2 H2) as [o2 [E2 O2]]. congruence.
Qed.

(* ---- what one event can do to the lock object ---- *)
Lemma step_obj s ev : sinv s ->
  obj (sstep cd lease rsleep s ev) = obj s
  \/ obj (sstep cd lease rsleep s ev) = None
  \/ exists c, obj (sstep cd lease rsleep s ev) = Some (fresh_obj s c)
               /\ (obj s = None \/ exists o, obj s = Some o /\ (owner o = c \/ snow s - lm o > lease)).
Proof.
  intro I. destruct ev as [c k|c f j|c f|d|c|z r]; simpl.
  - repeat break_match; simpl; auto.
  - destruct (s_alive (scl s c)); [|simpl; auto].
    destruct (s_pc (scl s c)) as [| | | |l e r|l e| |u|second|u| |] eqn:P; simpl; auto.
    + destruct f; repeat break_match; simpl; auto; right; right; exists c; auto.
    + destruct f; repeat break_match; simpl; auto.
    + repeat break_match; simpl; auto.
    + assert (Hm : etag_matches s e = true -> exists o, obj s = Some o /\ (owner o = c \/ snow s - lm o > lease)).
      { intro Em. destruct (etag_matches_spec s e Em) as [o [Eo Ee]]. exists o. split; auto. right.
        destruct (E_pc s I c l e (or_intror P)) as [_ B]. rewrite (B o Eo Ee). apply (E_take s I c l e P). }
      destruct f; repeat break_match; simpl; auto; right; right; exists c; auto.
    + break_match; simpl; auto.
    + destruct f, second; repeat break_match; simpl; auto.
    + destruct f; repeat break_match; simpl; auto.
    + break_match; simpl; auto.
  - destruct (s_alive (scl s c) && hb (scl s c) && is_locked (scl s c)); [|simpl; auto].
    destruct (my_etag (scl s c)) as [e|] eqn:M; [|simpl; auto].
    assert (Hm : etag_matches s e = true -> exists o, obj s = Some o /\ (owner o = c \/ snow s - lm o > lease)).
    { intro Em. destruct (etag_matches_spec s e Em) as [o [Eo Ee]]. exists o. split; auto. left.
      apply (E_own s I c e o M Eo Ee). }
    destruct f; repeat break_match; simpl; auto; right; right; exists c; auto.
  - auto.
  - auto.
  - auto.
Qed.

(* ---- C19_s3_takeover_after_lease ---- *)
Theorem s3_takeover_after_lease : forall evs ev o o',
  let s := srun cd lease rsleep sinit evs in
  let s' := sstep cd lease rsleep s ev in
  obj s = Some o -> obj s' = Some o' -> owner o' <> owner o ->
  snow s - lm o > lease /\ lm o' = snow s.
Proof.
  intros evs ev o o' s s' Eo Eo' Hne.
  destruct (run_inv evs sinit sinv_init (fun _ => hinv_init)) as [I _]. fold s in I.
  destruct (step_obj s ev I) as [Hs|[Hn|[c [Hc Hprev]]]]; unfold s' in *.
  - congruence.
  - congruence.
  - rewrite Hc in Eo'. inversion Eo'; subst o'; simpl in *.
    destruct Hprev as [Hnone|[o2 [Eo2 [Ow|Hl]]]]; [congruence| |];
      rewrite Eo in Eo2; inversion Eo2; subst o2; [congruence|auto].
Qed.

(* ---- C19_s3_is_held_sound ---- *)
Theorem s3_is_held_sound : forall s ev c,
  s_res (scl s c) <> STrue -> s_res (scl (sstep cd lease rsleep s ev) c) = STrue ->
  exists f j second o, ev = SStep c f j /\ s_pc (scl s c) = QHeldGet second
                       /\ obj s = Some o /\ owner o = c.
Proof.
  intros s ev c Hn Hr.
  assert (Hcl : forall c0 x ob r o ne t ld, c0 <> c -> s_res (scl (s_set s o ne t c0 x ld ob r) c) = STrue -> False).
  { intros. simpl in *. rewrite updN_other in * by auto. contradiction. }
  destruct ev as [c0 k|c0 f j|c0 f|d|c0|z r]; simpl in Hr.
  - destruct (N.eq_dec c0 c) as [->|Hne];
      repeat match type of Hr with
             | context [match ?x with _ => _ end] => destruct x eqn:?
             | context [if ?b then _ else _] => destruct b eqn:?
             end; simpl in Hr; rewrite ?updN_same, ?updN_other in Hr by auto; simpl in Hr; try contradiction; try discriminate.
  - destruct (N.eq_dec c0 c) as [->|Hne].
    + destruct (s_alive (scl s c)); [|simpl in Hr; contradiction].
      destruct (s_pc (scl s c)) as [| | | |l e r|l e| |u|second|u| |] eqn:P;
        try (repeat match type of Hr with
             | context [match ?x with _ => _ end] => destruct x eqn:?
             | context [if ?b then _ else _] => destruct b eqn:?
             end; simpl in Hr; rewrite ?updN_same in Hr; simpl in Hr; try contradiction; discriminate).
      destruct f; try (destruct second; simpl in Hr; rewrite ?updN_same in Hr; simpl in Hr; try contradiction; discriminate).
      destruct (obj s) as [o|] eqn:Eo; [|destruct second; simpl in Hr; rewrite ?updN_same in Hr; simpl in Hr; try contradiction; discriminate].
      destruct (N.eqb_spec (owner o) c); [|simpl in Hr; rewrite ?updN_same in Hr; simpl in Hr; discriminate].
      exists FNone, j, second, o. auto.
    + repeat match type of Hr with
             | context [match ?x with _ => _ end] => destruct x eqn:?
             | context [if ?b then _ else _] => destruct b eqn:?
             end; simpl in Hr; rewrite ?updN_other in Hr by auto; simpl in Hr; try contradiction.
  - destruct (N.eq_dec c0 c) as [->|Hne];
      repeat match type of Hr with
             | context [match ?x with _ => _ end] => destruct x eqn:?
             | context [if ?b then _ else _] => destruct b eqn:?
             end; simpl in Hr; rewrite ?updN_same, ?updN_other in Hr by auto; simpl in Hr; try contradiction; try discriminate.
  - contradiction.
  - destruct (N.eq_dec c0 c) as [->|Hne]; rewrite ?updN_same, ?updN_other in Hr by auto; simpl in Hr; contradiction.
  - contradiction.
Qed.

(* ---- C19_s3_superseded ---- *)
Definition in_acquire (p : spc) : bool :=
  match p with QStart | QCreate | QHead | QAge _ _ _ | QTake _ _ | QTimeChk | QSleep _ => true | _ => false end.

Definition is_acquire_of (a : N) (ev : sevent) : bool :=
  match ev with SCall c (CAcquire _) => N.eqb c a | _ => false end.

(* the lock object is not a's, and a is not inside acquire() *)
Definition foreign (s : sstate) (a : N) : Prop :=
  (forall o, obj s = Some o -> owner o <> a) /\ in_acquire (s_pc (scl s a)) = false.

Ltac break_in H :=
  repeat match type of H with
         | context [match ?x with _ => _ end] => destruct x eqn:?
         | context [if ?b then _ else _] => destruct b eqn:?
         end.
Ltac fin F Hc := simpl in Hc; repeat match goal with E : obj ?s = _ |- _ => tryif constr_eq E Hc then fail else (rewrite E in Hc; clear E) end; first [discriminate Hc | exact (F _ Hc eq_refl) | (inversion Hc; congruence)].

Lemma foreign_step s ev a : sinv s -> foreign s a -> is_acquire_of a ev = false ->
  foreign (sstep cd lease rsleep s ev) a.
Proof.
  intros I [F P] Hev.
  assert (Hpc : in_acquire (s_pc (scl (sstep cd lease rsleep s ev) a)) = false).
  { destruct ev as [c k|c f j|c f|d|c|z r]; simpl in *.
    - destruct (N.eq_dec c a) as [->|Hne];
        repeat break_match; simpl; rewrite ?updN_same, ?updN_other by auto; simpl; auto;
        try (rewrite N.eqb_refl in Hev; discriminate); congruence.
    - destruct (N.eq_dec c a) as [->|Hne].
      + destruct (s_alive (scl s a)); [|simpl; auto].
        destruct (s_pc (scl s a)) eqn:Pa; simpl in P; try discriminate;
          repeat break_match; simpl; rewrite ?updN_same; simpl; rewrite ?Pa; auto.
      + repeat break_match; simpl; rewrite ?updN_other by auto; auto.
    - destruct (N.eq_dec c a) as [->|Hne];
        repeat break_match; simpl; rewrite ?updN_same, ?updN_other by auto; simpl; auto.
    - auto.
    - destruct (N.eq_dec c a) as [->|Hne]; rewrite ?updN_same, ?updN_other by auto; simpl; auto.
    - auto. }
  split; [|exact Hpc].
  intros o' Eo'. destruct (step_obj s ev I) as [Hs|[Hn|[c [Hc Hprev]]]].
  - apply F. congruence.
  - congruence.
  - rewrite Hc in Eo'. inversion Eo'; subst o'; simpl. intro Hca; subst c.
    (* a itself wrote: impossible outside acquire() while the object is foreign *)
    clear Hprev Eo'.
    destruct ev as [c k|c f j|c f|d|c|z r]; simpl in Hc.
    + break_in Hc; fin F Hc.
    + destruct (N.eq_dec c a) as [->|Hne].
      * destruct (s_alive (scl s a)); [|fin F Hc].
        destruct (s_pc (scl s a)) eqn:Pa; simpl in P; try discriminate; break_in Hc; fin F Hc.
      * break_in Hc; fin F Hc.
    + destruct (N.eq_dec c a) as [->|Hne].
      * destruct (s_alive (scl s a) && hb (scl s a) && is_locked (scl s a)); [|fin F Hc].
        destruct (my_etag (scl s a)) as [e|] eqn:M; [|fin F Hc].
        assert (Hm : etag_matches s e = false).
        { destruct (etag_matches s e) eqn:Em; [|reflexivity]. destruct (etag_matches_spec s e Em) as [o [Eo Ee]].
          exfalso. apply (F o Eo). apply (E_own s I a e o M Eo Ee). }
        rewrite Hm in Hc. destruct f; fin F Hc.
      * break_in Hc; fin F Hc.
    + fin F Hc.
    + fin F Hc.
    + fin F Hc.
Qed.

Lemma foreign_run evs : forall s a, sinv s -> foreign s a -> forallb (fun ev => negb (is_acquire_of a ev)) evs = true ->
  sinv (srun cd lease rsleep s evs) /\ foreign (srun cd lease rsleep s evs) a.
Proof.
  induction evs as [|ev evs IH]; intros s a I F H; simpl; [auto|].
  simpl in H. apply andb_true_iff in H. destruct H as [H1 H2]. apply negb_true_iff in H1.
  apply IH; auto. apply step_sinv; auto. apply foreign_step; auto.
Qed.

Theorem s3_superseded : forall evs1 evs2 a,
  let s1 := srun cd lease rsleep sinit evs1 in
  foreign s1 a ->
  forallb (fun ev => negb (is_acquire_of a ev)) evs2 = true ->
  let s2 := srun cd lease rsleep s1 evs2 in
  foreign s2 a
  /\ (forall f j, s_res (scl s2 a) <> STrue -> s_res (scl (sstep cd lease rsleep s2 (SStep a f j)) a) <> STrue)
  /\ (forall f, obj (sstep cd lease rsleep s2 (SRenew a f)) = obj s2)
  /\ (forall e, s_alive (scl s2 a) = true -> hb (scl s2 a) = true -> is_locked (scl s2 a) = true ->
                my_etag (scl s2 a) = Some e ->
                is_locked (scl (sstep cd lease rsleep s2 (SRenew a FNone)) a) = false).
Proof.
  intros evs1 evs2 a s1 F H s2.
  destruct (run_inv evs1 sinit sinv_init (fun _ => hinv_init)) as [I1 _]. fold s1 in I1.
  destruct (foreign_run evs2 s1 a I1 F H) as [I2 F2]. fold s2 in I2, F2.
  assert (Hm : forall e, my_etag (scl s2 a) = Some e -> etag_matches s2 e = false).
  { intros e M. destruct (etag_matches s2 e) eqn:Em; [|reflexivity].
    destruct (etag_matches_spec s2 e Em) as [o [Eo Ee]]. exfalso. apply (proj1 F2 o Eo). apply (E_own s2 I2 a e o M Eo Ee). }
  split; [exact F2|]. split; [|split].
  - intros f j Hn Hr. destruct (s3_is_held_sound s2 _ a Hn Hr) as (f0 & j0 & b & o & _ & _ & Eo & Ow).
    apply (proj1 F2 o Eo Ow).
  - intro f. simpl. destruct (s_alive (scl s2 a) && hb (scl s2 a) && is_locked (scl s2 a)); [|reflexivity].
    destruct (my_etag (scl s2 a)) as [e|] eqn:M; [|reflexivity]. rewrite (Hm e eq_refl).
    destruct f; reflexivity.
  - intros e A Hb L M. simpl. rewrite A, Hb, L, M. simpl. rewrite (Hm e M). simpl. rewrite updN_same. reflexivity.
Qed.

(* ---- C19_s3_timeout ---- *)
Record stinv (s : sstate) (c : N) : Prop := {
  ST_loop : in_acquire (s_pc (scl s c)) = true -> s_pc (scl s c) <> QStart ->
            last_t (scl s c) = s_start (scl s c) \/ last_t (scl s c) - s_start (scl s c) < s_timeout (scl s c);
  ST_ret : s_res (scl s c) = STimeout ->
           s_timeout (scl s c) <= t_ret (scl s c) - s_start (scl s c)
           /\ (t_prev (scl s c) = s_start (scl s c) \/ t_prev (scl s c) - s_start (scl s c) < s_timeout (scl s c))
           /\ t_ret (scl s c) - t_prev (scl s c) <= s_maxgap (scl s c)
}.

Lemma stinv_init c : stinv sinit c.
Proof. constructor; simpl; intros; discriminate. Qed.

Ltac tfin T1 T2 :=
  constructor; unfold s_cl, s_set, s_log; simpl; rewrite ?updN_same, ?updN_other by auto; simpl;
  try match goal with E : s_pc _ = _ |- _ => rewrite !E end; auto;
  try (intros; discriminate); try (intros; congruence);
  try (intros A B; first [discriminate A | (exfalso; apply B; reflexivity) | (apply T1; [reflexivity|discriminate])
                          | (left; reflexivity)]).

Lemma stinv_step s ev c : stinv s c -> stinv (sstep cd lease rsleep s ev) c.
Proof.
  intros [T1 T2].
  destruct ev as [c0 k|c0 f j|c0 f|d|c0|z r]; simpl.
  - destruct (N.eq_dec c0 c) as [->|Hne].
    + destruct (s_alive (scl s c)); [|tfin T1 T2].
      destruct (s_pc (scl s c)) eqn:P;
        [destruct k; [|destruct (is_locked (scl s c))..]; tfin T1 T2 | tfin T1 T2 ..].
    + repeat break_match; tfin T1 T2.
  - destruct (N.eq_dec c0 c) as [->|Hne].
    + destruct (s_alive (scl s c)); [|tfin T1 T2].
      destruct (s_pc (scl s c)) as [| | | |l e r|l e| |u|second|u| |] eqn:P.
      * tfin T1 T2.
      * tfin T1 T2.
      * destruct f; repeat break_match; tfin T1 T2.
      * destruct f; repeat break_match; tfin T1 T2.
      * repeat break_match; tfin T1 T2.
      * destruct f; repeat break_match; tfin T1 T2.
      * (* QTimeChk *)
        assert (T1' := T1 eq_refl ltac:(discriminate)).
        destruct (Z.geb_spec (snow s - s_start (scl s c)) (s_timeout (scl s c))) as [Hge|Hlt];
          constructor; simpl; rewrite ?updN_same; simpl; intros; try discriminate.
        -- split; [lia|]. split; [exact T1'|lia].
        -- right. lia.
      * tfin T1 T2.
      * destruct f, second; repeat break_match; tfin T1 T2.
      * tfin T1 T2.
      * destruct f; repeat break_match; tfin T1 T2.
      * break_match; tfin T1 T2.
    + repeat break_match; tfin T1 T2.
  - destruct (N.eq_dec c0 c) as [->|Hne]; repeat break_match; tfin T1 T2.
  - tfin T1 T2.
  - destruct (N.eq_dec c0 c) as [->|Hne]; tfin T1 T2.
  - tfin T1 T2.
Qed.

Lemma stinv_run evs : forall s c, stinv s c -> stinv (srun cd lease rsleep s evs) c.
Proof. induction evs as [|ev evs IH]; intros; simpl; auto. apply IH. apply stinv_step. assumption. Qed.

Theorem s3_timeout : forall evs c,
  let x := scl (srun cd lease rsleep sinit evs) c in
  s_res x = STimeout ->
  s_start x + s_timeout x <= t_ret x
  /\ t_ret x <= Z.max (s_start x) (s_start x + s_timeout x) + s_maxgap x
  /\ (0 < s_timeout x -> t_ret x < s_start x + s_timeout x + s_maxgap x).
Proof.
  intros evs c x H.
  destruct (stinv_run evs sinit c (stinv_init c)) as [_ T2]. fold x in T2.
  destruct (T2 H) as (A & B & G). repeat split; lia.
Qed.

(* acquire() returns True only when the object was absent or its lease had lapsed *)
Theorem s3_ok_only_when_unowned : forall evs ev c,
  let s := srun cd lease rsleep sinit evs in
  s_res (scl s c) <> SOk -> s_res (scl (sstep cd lease rsleep s ev) c) = SOk ->
  (obj s = None \/ exists o, obj s = Some o /\ snow s - lm o > lease)
  /\ obj (sstep cd lease rsleep s ev) = Some (fresh_obj s c).
Proof.
  intros evs ev c s Hn Hr.
  destruct (run_inv evs sinit sinv_init (fun _ => hinv_init)) as [I _]. fold s in I. clearbody s.
  destruct ev as [c0 k|c0 f j|c0 f|d|c0|z r]; simpl in *.
  - destruct (N.eq_dec c0 c) as [->|Hne];
      repeat match type of Hr with
             | context [match ?x with _ => _ end] => destruct x eqn:?
             | context [if ?b then _ else _] => destruct b eqn:?
             end; simpl in Hr; rewrite ?updN_same, ?updN_other in Hr by auto; simpl in Hr; try contradiction; try discriminate.
  - destruct (N.eq_dec c0 c) as [->|Hne].
    + destruct (s_alive (scl s c)); [|simpl in Hr; contradiction].
      destruct (s_pc (scl s c)) as [| | | |l e r|l e| |u|second|u| |] eqn:P;
        try (repeat match type of Hr with
             | context [match ?x with _ => _ end] => destruct x eqn:?
             | context [if ?b then _ else _] => destruct b eqn:?
             end; simpl in Hr; rewrite ?updN_same in Hr; simpl in Hr; try contradiction; discriminate).
      * (* QCreate *)
        destruct f; destruct (obj s) eqn:Eo; simpl in Hr; rewrite ?updN_same in Hr; simpl in Hr;
          try contradiction; try discriminate. simpl. auto.
      * (* QTake *)
        destruct f; destruct (etag_matches s e) eqn:Em; simpl in Hr; rewrite ?updN_same in Hr; simpl in Hr;
          try contradiction; try discriminate. simpl. split; [|reflexivity]. right.
        destruct (etag_matches_spec s e Em) as [o [Eo Ee]]. exists o. split; auto.
        destruct (E_pc s I c l e (or_intror P)) as [_ B]. rewrite (B o Eo Ee). apply (E_take s I c l e P).
    + repeat match type of Hr with
             | context [match ?x with _ => _ end] => destruct x eqn:?
             | context [if ?b then _ else _] => destruct b eqn:?
             end; simpl in Hr; rewrite ?updN_other in Hr by auto; simpl in Hr; try contradiction.
  - destruct (N.eq_dec c0 c) as [->|Hne];
      repeat match type of Hr with
             | context [match ?x with _ => _ end] => destruct x eqn:?
             | context [if ?b then _ else _] => destruct b eqn:?
             end; simpl in Hr; rewrite ?updN_same, ?updN_other in Hr by auto; simpl in Hr; try contradiction; try discriminate.
  - contradiction.
  - destruct (N.eq_dec c0 c) as [->|Hne]; rewrite ?updN_same, ?updN_other in Hr by auto; simpl in Hr; contradiction.
  - contradiction.
Qed.

(* ---- the age test of _try_takeover_expired in ANY environment: whatever the process zone and whatever
   utcoffset the reply's LastModified is written in, an aware LastModified is judged by the difference
   of the two instants; a naive one makes the call raise, with no request sent and no belief changed ---- *)
Theorem s3_age_test : forall s c f j l e r,
  s_alive (scl s c) = true -> s_pc (scl s c) = QAge l e r ->
  let s' := sstep cd lease rsleep s (SStep c f j) in
  obj s' = obj s /\ snow s' = snow s /\ is_locked (scl s' c) = is_locked (scl s c)
  /\ match r with
     | Some _ => s_pc (scl s' c) = (if snow s - l <=? lease then QTimeChk else QTake l e)
                 /\ s_res (scl s' c) = s_res (scl s c)
     | None => s_pc (scl s' c) = QIdle /\ s_res (scl s' c) = SRaised
     end.
Proof.
  intros s c f j l e r A P. simpl. rewrite A, P, takeover_age_render.
  destruct r as [off|]; simpl.
  - rewrite takeover_keeps_spec. destruct (snow s - l <=? lease); simpl; rewrite updN_same; simpl; auto.
  - rewrite updN_same; simpl; auto.
Qed.

End S3.

(* ---- the two instances of s3_mutex_partial ---- *)
Theorem s3_mutex_partial_unconditional : forall (lease rsleep : Z) (evs : list sevent),
  let s := srun false lease rsleep sinit evs in
  late_delete s = false ->
  s3_mutex_at lease s
  /\ (forall c, holder_live lease s c -> exists o, obj s = Some o /\ owner o = c).
Proof. intros lease rsleep evs s L. apply s3_mutex_partial. intros _. exact L. Qed.

(* with a conditional DELETE (If-Match: the releaser's own ETag) the FULL statement holds *)
Theorem s3_mutex_conditional_delete : forall (lease rsleep : Z), s3_mutex_full true lease rsleep.
Proof. intros lease rsleep evs. apply (s3_mutex_partial true lease rsleep evs). discriminate. Qed.

(* ---- C19_s3_mutex_refuted: the faithful model of the unchanged code violates the full statement ---- *)
Definition fc19_witness : list sevent :=
  [ SCall 0%N (CAcquire 2000); SStep 0%N FNone 300; SStep 0%N FNone 300;      (* A holds since t=0 *)
    SCall 0%N CRelease; SStep 0%N FNone 300;                                  (* A: GET -> body is mine *)
    STick 60001;                                                              (* A paused past its lease *)
    SCall 1%N (CAcquire 2000); SStep 1%N FNone 300; SStep 1%N FNone 300; SStep 1%N FNone 300;
    SStep 1%N FNone 300; SStep 1%N FNone 300;                                 (* B takes over, legitimately *)
    SStep 0%N FNone 300;                                                      (* A: unconditional DELETE *)
    SCall 2%N (CAcquire 2000); SStep 2%N FNone 300; SStep 2%N FNone 300 ].    (* C creates: B and C both live *)

Theorem s3_mutex_refuted : ~ s3_mutex_full false 60000 200.
Proof.
  intro M. specialize (M fc19_witness 1%N 2%N).
  assert (H : forall c, (c = 1%N \/ c = 2%N) -> holder_live 60000 (srun false 60000 200 sinit fc19_witness) c).
  { intros c [->| ->]; vm_compute; repeat split; intro; discriminate. }
  specialize (M (H 1%N (or_introl eq_refl)) (H 2%N (or_intror eq_refl))). discriminate.
Qed.

Lemma fc19_witness_is_late : late_delete (srun false 60000 200 sinit fc19_witness) = true.
Proof. vm_compute. reflexivity. Qed.

(* The weaker-looking hypothesis "no release is delayed by more than the lease BETWEEN ITS GET AND ITS
   DELETE" does not suffice: here A (whose heartbeat did not get to renew) starts releasing 59 s into its
   lease, and its DELETE lands 1002 ms after its GET -- after B's legitimate takeover at 60.001 s. *)
Definition gap_witness : list sevent :=
  [ SCall 0%N (CAcquire 2000); SStep 0%N FNone 300; SStep 0%N FNone 300;
    STick 59000; SCall 0%N CRelease; SStep 0%N FNone 300;                     (* GET at 59.000 s *)
    STick 1001;
    SCall 1%N (CAcquire 2000); SStep 1%N FNone 300; SStep 1%N FNone 300; SStep 1%N FNone 300;
    SStep 1%N FNone 300; SStep 1%N FNone 300;                                 (* takeover at 60.001 s *)
    STick 1; SStep 0%N FNone 300;                                             (* DELETE at 60.002 s *)
    SCall 2%N (CAcquire 2000); SStep 2%N FNone 300; SStep 2%N FNone 300 ].

Lemma release_gap_hypothesis_insufficient :
  let s := srun false 60000 200 sinit gap_witness in
  holder_live 60000 s 1%N /\ holder_live 60000 s 2%N /\ snow s = 60002 /\ late_delete s = true.
Proof. vm_compute. repeat split; intro; discriminate. Qed.
