(* Proofs/StrProofs.v -- lemmas about the string primitives of Model/Str.v. *)
From Coq Require Import List Bool Ascii String Arith Lia.
Require Import DS.Model.Str.
Import ListNotations.
Local Arguments Ascii.eqb : simpl never.

Lemma ascii_eqb_refl : forall c, Ascii.eqb c c = true.
Proof. intro c. apply Ascii.eqb_eq. reflexivity. Qed.

Lemma str_eqb_eq : forall a b, str_eqb a b = true <-> a = b.
Proof.
  induction a as [|x a IH]; destruct b as [|y b]; simpl; split; intro H; try reflexivity; try discriminate.
  - apply andb_true_iff in H. destruct H as [H1 H2]. apply Ascii.eqb_eq in H1. apply IH in H2. subst. reflexivity.
  - inversion H; subst. rewrite ascii_eqb_refl. simpl. apply IH. reflexivity.
Qed.

Lemma str_eqb_refl : forall a, str_eqb a a = true.
Proof. intro a. apply str_eqb_eq. reflexivity. Qed.

Lemma str_eqb_neq : forall a b, str_eqb a b = false <-> a <> b.
Proof.
  intros a b. split; intro H.
  - intro E. apply str_eqb_eq in E. congruence.
  - destruct (str_eqb a b) eqn:E; [apply str_eqb_eq in E; contradiction|reflexivity].
Qed.

Lemma str_eqb_sym : forall a b, str_eqb a b = str_eqb b a.
Proof.
  intros a b. destruct (str_eqb a b) eqn:E.
  - apply str_eqb_eq in E. subst. symmetry. apply str_eqb_refl.
  - symmetry. apply str_eqb_neq. apply str_eqb_neq in E. congruence.
Qed.

(* ---------------------------------------------------------------- starts_with *)
Lemma starts_with_app : forall p x, starts_with (p ++ x) p = true.
Proof. induction p as [|c p IH]; intro x; simpl; [reflexivity|]. rewrite ascii_eqb_refl. simpl. apply IH. Qed.

Lemma starts_with_app_cancel : forall r x p, starts_with (r ++ x) (r ++ p) = starts_with x p.
Proof. induction r as [|c r IH]; intros x p; simpl; [reflexivity|]. rewrite ascii_eqb_refl. simpl. apply IH. Qed.

Lemma starts_with_spec : forall x p, starts_with x p = true <-> exists t, x = p ++ t.
Proof.
  intros x p. revert x. induction p as [|c p IH]; intro x; simpl.
  - split; [intros _; exists x; reflexivity|reflexivity].
  - destruct x as [|d x].
    + split; [discriminate|intros [t H]; discriminate].
    + split.
      * intro H. apply andb_true_iff in H. destruct H as [H1 H2]. apply Ascii.eqb_eq in H1. apply IH in H2.
        destruct H2 as [t ->]. subst. exists t. reflexivity.
      * intros [t H]. inversion H; subst. rewrite ascii_eqb_refl. simpl. apply IH. exists t. reflexivity.
Qed.

(* a string that starts with r ++ y starts with r *)
Lemma starts_with_weaken : forall x r y, starts_with x (r ++ y) = true -> starts_with x r = true.
Proof.
  intros x r y H. apply starts_with_spec in H. destruct H as [t ->]. rewrite <- app_assoc. apply starts_with_app.
Qed.

Lemma starts_with_nil_r : forall x, starts_with x [] = true.
Proof. destruct x; reflexivity. Qed.

(* ---------------------------------------------------------------- lstrip / rstrip *)
Lemma lstrip_noslash : forall c x, c <> slash -> lstrip_slash (c :: x) = c :: x.
Proof. intros c x H. simpl. destruct (Ascii.eqb c slash) eqn:E; [apply Ascii.eqb_eq in E; contradiction|reflexivity]. Qed.

Lemma lstrip_head : forall x, match lstrip_slash x with [] => True | c :: _ => c <> slash end.
Proof.
  induction x as [|c x IH]; simpl; [exact I|].
  destruct (Ascii.eqb c slash) eqn:E; [exact IH|]. intro H. subst. rewrite ascii_eqb_refl in E. discriminate.
Qed.

Lemma lstrip_idem : forall x, lstrip_slash (lstrip_slash x) = lstrip_slash x.
Proof.
  intro x. pose proof (lstrip_head x) as H. destruct (lstrip_slash x) as [|c y]; [reflexivity|]. apply lstrip_noslash. exact H.
Qed.

(* rstrip never leaves a trailing slash *)
Lemma rstrip_last : forall x, ends_with (rstrip_slash x) [slash] = false.
Proof.
  intro x. unfold ends_with, rstrip_slash. rewrite rev_involutive. change (rev [slash]) with [slash].
  pose proof (lstrip_head (rev x)) as H. destruct (lstrip_slash (rev x)) as [|c y]; [reflexivity|].
  cbn [starts_with].
  destruct (Ascii.eqb slash c) eqn:E; [apply Ascii.eqb_eq in E; subst; contradiction|reflexivity].
Qed.

Lemma ends_with_snoc : forall x c, ends_with (x ++ [c]) [slash] = Ascii.eqb slash c.
Proof.
  intros x c. unfold ends_with. rewrite rev_app_distr. change (rev [slash]) with [slash].
  cbn [rev app starts_with]. apply andb_true_r.
Qed.

(* ---------------------------------------------------------------- segments *)
Definition noslash (a : str) : Prop := ~ In slash a.

Lemma noslash_cons : forall c a, noslash (c :: a) -> c <> slash /\ noslash a.
Proof. intros c a H. split; [intro E; apply H; left; congruence|intro E; apply H; right; exact E]. Qed.

(* the core of directory confinement: comparing "b/R" against the prefix "a/T" *)
Lemma starts_with_seg : forall a b R T, noslash a -> noslash b ->
  starts_with (b ++ slash :: R) (a ++ slash :: T) = str_eqb a b && starts_with R T.
Proof.
  induction a as [|c a IH]; intros b R T Ha Hb.
  - destruct b as [|d b]; simpl.
    + reflexivity.
    + apply noslash_cons in Hb. destruct Hb as [Hd _].
      destruct (Ascii.eqb slash d) eqn:E; [apply Ascii.eqb_eq in E; subst; contradiction|reflexivity].
  - apply noslash_cons in Ha. destruct Ha as [Hc Ha]. destruct b as [|d b]; simpl.
    + destruct (Ascii.eqb c slash) eqn:E; [apply Ascii.eqb_eq in E; contradiction|reflexivity].
    + apply noslash_cons in Hb. destruct Hb as [_ Hb]. rewrite (IH b R T Ha Hb). rewrite andb_assoc. reflexivity.
Qed.

(* a slash-free string cannot start with something containing a slash *)
Lemma starts_with_seg_short : forall a b T, noslash b -> starts_with b (a ++ slash :: T) = false.
Proof.
  induction a as [|c a IH]; intros b T Hb; destruct b as [|d b]; simpl; try reflexivity.
  - apply noslash_cons in Hb. destruct Hb as [Hd _].
    destruct (Ascii.eqb slash d) eqn:E; [apply Ascii.eqb_eq in E; subst; contradiction|reflexivity].
  - apply noslash_cons in Hb. destruct Hb as [_ Hb]. rewrite (IH b T Hb). apply andb_false_r.
Qed.

Lemma join_cons2 : forall a b k, join (a :: b :: k) = a ++ slash :: join (b :: k).
Proof. reflexivity. Qed.

(* ---------------------------------------------------------------- components (split) *)
Lemma split_acc_seg : forall a cur x, noslash a ->
  split_acc cur (a ++ slash :: x) =
  match rev cur ++ a with [] => split_acc [] x | s => s :: split_acc [] x end.
Proof.
  induction a as [|c a IH]; intros cur x Ha.
  - cbn [app split_acc]. rewrite ascii_eqb_refl. rewrite app_nil_r. destruct cur as [|d cur]; [reflexivity|].
    simpl. destruct (rev cur ++ [d]) eqn:E; [destruct (rev cur); discriminate|reflexivity].
  - apply noslash_cons in Ha. destruct Ha as [Hc Ha]. cbn [app split_acc].
    destruct (Ascii.eqb c slash) eqn:E; [apply Ascii.eqb_eq in E; contradiction|].
    rewrite (IH (c :: cur) x Ha). simpl. rewrite <- app_assoc. reflexivity.
Qed.

Lemma split_acc_last : forall a cur, noslash a ->
  split_acc cur a = match rev cur ++ a with [] => [] | s => [s] end.
Proof.
  induction a as [|c a IH]; intros cur Ha.
  - cbn [split_acc]. rewrite app_nil_r. destruct cur as [|d cur]; [reflexivity|].
    simpl. destruct (rev cur ++ [d]) eqn:E; [destruct (rev cur); discriminate|reflexivity].
  - apply noslash_cons in Ha. destruct Ha as [Hc Ha]. cbn [app split_acc].
    destruct (Ascii.eqb c slash) eqn:E; [apply Ascii.eqb_eq in E; contradiction|].
    rewrite (IH (c :: cur) Ha). simpl. rewrite <- app_assoc. reflexivity.
Qed.
