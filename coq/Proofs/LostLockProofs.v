(* Proofs/LostLockProofs.v -- "a committer that lost its lock before the commit point reports a retryable conflict, never
   success", as a statement about SCHEDULES of the commit machine with a lease lock (Model/Commit.v, lockkind = Lease).

   `lost c w a`: actor a is inside commit() before its fence (lock taken, validating / writing its metadata file) and the
   lock object does not name it -- its lease lapsed (ESteal), whoever holds the lock now.  From such a state, whatever the
   other actors and the environment do and for as long as they do it, a's attempt adds nothing to the pointer history, and
   the first step that takes a out of the pre-fence states puts it in PConflict (the fence answered False, or validation
   failed: ConcurrentModificationException, released and retried / reported by ERelease) or ends the call without a flip
   (EAbort / ECrash: PDone Aborted).  It never reaches PFenced, the only state from which the pointer can be written.

   A lease that lapses AFTER the fence (between is_held() and the conditional PUT) is not covered by this and cannot be:
   that committer may still be acknowledged -- which is harmless on conditional-write storage, because the PUT lands only
   if the pointer still names the version it validated (reach_repl), whoever holds the lock. *)
From Coq Require Import ZArith List Bool Arith Lia.
Require Import DS.Model.CommitBase DS.Gen.GenCommit DS.Model.Commit DS.Proofs.CommitProofs.
Import ListNotations.

Definition prefence (p : pc) : bool := match p with PLocked | PValidated | PWritten => true | _ => false end.

Definition lost (w : world) (a : aid) : Prop := prefence (a_pc (w_actors w a)) = true /\ w_lock w <> Some a.

Definition by_actor (a : aid) (h : list (vid * aid)) : list (vid * aid) := filter (fun p => Nat.eqb (snd p) a) h.

Definition ended (p : pc) : Prop := p = PConflict \/ p = PDone Aborted.

Lemma by_actor_snoc_other a b v h : b <> a -> by_actor a (h ++ [(v, b)]) = by_actor a h.
Proof.
  intro NE. unfold by_actor. rewrite filter_app. simpl.
  destruct (Nat.eqb_spec b a); [contradiction|]. apply app_nil_r.
Qed.

(* one step from a lost state: still lost, or a's own step ended the attempt; a's part of the history is untouched *)
Lemma lost_step c w e w' a : lockkind c = Lease -> lost w a -> step c w e = Some w' ->
  by_actor a (w_hist w') = by_actor a (w_hist w)
  /\ (lost w' a \/ (e_actor e = a /\ ended (a_pc (w_actors w' a)))).
Proof.
  intros LK [PF NL] H. unfold step in H. rewrite LK in H.
  destruct (Nat.eq_dec (e_actor e) a) as [E|NE].
  - (* a's own step *)
    subst a.
    destruct (e_kind e) as [v|ok| |v ok|now|ok|ok| | | ] eqn:EK; destruct (a_pc (w_actors w (e_actor e))) eqn:PC; try discriminate;
      try (destruct ok);
      repeat match goal with
             | H : (if ?b then _ else _) = Some _ |- _ => destruct b eqn:?; try discriminate
             end;
      inversion H; subst w'; clear H; unfold lost, ended; simpl; rewrite ?upd_same; simpl; rewrite ?PC;
      (split; [reflexivity|]);
      first [ match goal with
              | Hh : Bool.eqb true (holds _ _ _) = true |- _ =>
                exfalso; apply eqb_prop in Hh; symmetry in Hh; unfold holds in Hh; rewrite LK in Hh;
                destruct (w_lock w) as [b0|]; [apply Nat.eqb_eq in Hh; subst; apply NL; reflexivity | discriminate]
              end
            | left; split; [reflexivity | solve [exact NL | discriminate]]
            | right; split; [reflexivity|]; solve [left; reflexivity | right; reflexivity] ].
  - (* another actor's step *)
    assert (SA : forall s, upd (e_actor e) s (w_actors w) a = w_actors w a) by (intro s; apply upd_other; intro; apply NE; congruence).
    destruct (e_kind e) as [v|ok| |v ok|now|ok|ok| | | ] eqn:EK; destruct (a_pc (w_actors w (e_actor e))) eqn:PC; try discriminate;
      try (destruct ok);
      repeat match goal with
             | H : (if ?b then _ else _) = Some _ |- _ => destruct b eqn:?; try discriminate
             end;
      inversion H; subst w'; clear H; unfold lost; simpl; rewrite ?SA;
      (split; [first [reflexivity | apply by_actor_snoc_other; exact NE] | left; split; [exact PF|]]);
      first [ exact NL | discriminate
            | intro Q; inversion Q; apply NE; congruence
            | destruct (w_lock w) as [b0|] eqn:WL; [destruct (Nat.eqb_spec (e_actor e) b0); [discriminate | exact NL] | discriminate] ].
Qed.

Lemma lost_run c w a evs : lockkind c = Lease -> lost w a ->
  (lost (run c w evs) a /\ by_actor a (w_hist (run c w evs)) = by_actor a (w_hist w))
  \/ (exists evs1 e evs2, evs = evs1 ++ e :: evs2 /\ e_actor e = a
        /\ lost (run c w evs1) a
        /\ ended (a_pc (w_actors (run c w (evs1 ++ [e])) a))
        /\ by_actor a (w_hist (run c w (evs1 ++ [e]))) = by_actor a (w_hist w)).
Proof.
  intro LK. revert w. induction evs as [|e evs IH]; intros w L; [left; split; [exact L | reflexivity]|].
  rewrite run_cons. unfold step_skip. destruct (step c w e) as [w1|] eqn:St.
  - destruct (lost_step _ _ _ _ _ LK L St) as [HB [L1|[EA EN]]].
    + destruct (IH w1 L1) as [[L2 H2]|[evs1 [e' [evs2 [E [EA [L2 [EN H2]]]]]]]].
      * left. split; [exact L2 | congruence].
      * right. exists (e :: evs1), e', evs2. rewrite E. split; [reflexivity|]. split; [exact EA|].
        simpl app. rewrite !run_cons. unfold step_skip. rewrite St. split; [exact L2|]. split; [exact EN | congruence].
    + right. exists [], e, evs. split; [reflexivity|]. split; [exact EA|]. split; [exact L|].
      simpl. unfold step_skip. rewrite St. split; [exact EN | exact HB].
  - destruct (IH w L) as [[L2 H2]|[evs1 [e' [evs2 [E [EA [L2 [EN H2]]]]]]]].
    + left. split; assumption.
    + right. exists (e :: evs1), e', evs2. rewrite E. split; [reflexivity|]. split; [exact EA|].
      simpl app. rewrite !run_cons. unfold step_skip. rewrite St. split; [exact L2|]. split; assumption.
Qed.

(* a lease that lapses while a is before its fence makes a `lost` *)
Lemma steal_makes_lost c w b a w' : lockkind c = Lease -> prefence (a_pc (w_actors w a)) = true ->
  step c w {| e_actor := b; e_kind := ESteal |} = Some w' -> lost w' a.
Proof.
  intros LK PF H. unfold step in H. simpl in H. rewrite LK in H.
  assert (HS : Some {| w_ptr := w_ptr w; w_files := w_files w; w_lock := None; w_hist := w_hist w; w_repl := w_repl w; w_actors := w_actors w |} = Some w')
    by (destruct (a_pc (w_actors w b)); exact H).
  inversion HS; subst w'. split; [exact PF | simpl; discriminate].
Qed.

(* ... and so does another committer's acquisition of the lock (a takeover: it can only succeed once the lease has lapsed) *)
Lemma takeover_makes_lost c w b a w' : b <> a -> lockkind c = Lease -> prefence (a_pc (w_actors w a)) = true ->
  step c w {| e_actor := b; e_kind := ELockTry true |} = Some w' -> lost w' a.
Proof.
  intros NE LK PF H. unfold step in H. simpl in H. rewrite LK in H.
  destruct (a_pc (w_actors w b)); try discriminate.
  match type of H with (if ?x then _ else _) = _ => destruct x; [|discriminate] end.
  inversion H; subst w'; simpl. split.
  - cbn [w_actors]. rewrite upd_other by (intro; apply NE; congruence). exact PF.
  - intro Q. inversion Q. contradiction.
Qed.

(* the statement of Props/C08.v *)
Lemma lost_lock_before_fence_conflict c w b a w' evs :
  lockkind c = Lease -> prefence (a_pc (w_actors w a)) = true ->
  step c w {| e_actor := b; e_kind := ESteal |} = Some w' ->
  (lost (run c w' evs) a /\ by_actor a (w_hist (run c w' evs)) = by_actor a (w_hist w))
  \/ (exists evs1 e evs2, evs = evs1 ++ e :: evs2 /\ e_actor e = a
        /\ lost (run c w' evs1) a
        /\ ended (a_pc (w_actors (run c w' (evs1 ++ [e])) a))
        /\ by_actor a (w_hist (run c w' (evs1 ++ [e]))) = by_actor a (w_hist w)).
Proof.
  intros LK PF St. pose proof (steal_makes_lost _ _ _ _ _ LK PF St) as L.
  assert (HH : w_hist w' = w_hist w).
  { unfold step in St. simpl in St. rewrite LK in St.
    assert (HS : Some {| w_ptr := w_ptr w; w_files := w_files w; w_lock := None; w_hist := w_hist w; w_repl := w_repl w; w_actors := w_actors w |} = Some w')
      by (destruct (a_pc (w_actors w b)); exact St).
    inversion HS; reflexivity. }
  rewrite <- HH. apply lost_run; assumption.
Qed.

(* a lost committer is not acknowledged while lost, and when its attempt has ended the lock release yields a retry
   (PIdle) or the conflict report (PDone Conflict): CommitProofs.conflict_release_not_success *)
Lemma lost_not_success w a : lost w a -> a_pc (w_actors w a) <> PDone Success.
Proof. intros [PF _] E. rewrite E in PF. discriminate. Qed.
