(* Proofs/TailProofs.v -- post-flip infallibility (C04): once the pointer has flipped, no failure of any later step of the
   commit call can delete a file a committed version references -- PROVIDED every exception class that can leave the tail
   of the call is handled by Transaction.commit's keep-files arm (tail_safe); and that proviso is necessary.
   The tails (Gen/GenTail.v) and the handler table (Gen/GenCommit.v) are regenerated from the source on every run. *)
From Coq Require Import ZArith List Bool Arith Lia.
Require Import DS.Model.CommitBase DS.Model.TailBase DS.Gen.GenCommit DS.Gen.GenTail DS.Model.Commit DS.Model.Fault DS.Model.Tail
               DS.Proofs.CommitProofs DS.Proofs.FaultProofs.
Import ListNotations.

(* ---- tail_safe, unfolded *)
Lemma tail_safe_keeps txon r e last :
  tail_safe txon r = true -> tail_escapes r e = true -> txon e last = TxRollbackKeep.
Proof.
  unfold tail_safe, all_classes. cbn [forallb]. rewrite !andb_true_iff. intros [H1 [H2 [H3 [H4 _]]]] E.
  assert (K : keeps (txon e true) && keeps (txon e false) = true).
  { destruct e; [set (H := H1) | set (H := H2) | set (H := H3) | set (H := H4)];
      rewrite E in H; simpl in H; exact H. }
  apply andb_true_iff in K. destruct K as [K1 K2].
  destruct last; [destruct (txon e true) | destruct (txon e false)]; try discriminate; reflexivity.
Qed.

Lemma tail_safe_spec txon r :
  tail_safe txon r = true <-> (forall e last, tail_escapes r e = true -> txon e last = TxRollbackKeep).
Proof.
  split; [intros S e last; apply tail_safe_keeps; exact S|].
  intro H. unfold tail_safe, all_classes. cbn [forallb]. rewrite !andb_true_iff.
  assert (G : forall e, negb (tail_escapes r e) || (keeps (txon e true) && keeps (txon e false)) = true).
  { intro e. destruct (tail_escapes r e) eqn:E; [|reflexivity]. simpl.
    rewrite (H e true E), (H e false E). reflexivity. }
  repeat split; apply G.
Qed.

(* with a regenerated handler table whose `except Exception` arm deletes, safety of a tail is: every call guarded *)
Lemma safe_iff_all_guarded txon r :
  (forall last, txon XInterrupt last = TxRollbackKeep) -> (exists last, txon XOther last <> TxRollbackKeep) ->
  (tail_safe txon r = true <-> unguarded r = false).
Proof.
  intros KI [l NO]. rewrite tail_safe_spec. split.
  - intro H. destruct (unguarded r) eqn:U; [|reflexivity]. exfalso. apply NO. apply H. simpl. exact U.
  - intros U e last E. destruct e; simpl in E; try (rewrite U in E; discriminate). apply KI.
Qed.

(* ---- the invariant of Fault.v survives the tail machine whenever the tail is safe *)
Lemma tstep_inv r txon c x ev x' :
  sound c -> tail_safe txon r = true -> FInv c x -> tstep r txon c x ev = Some x' -> FInv c x'.
Proof.
  intros Snd S I H. destruct ev as [e|a e last].
  - change (fstep c x e = Some x') in H. eapply fstep_inv; eauto.
  - unfold tstep in H.
    destruct (in_tail (a_pc (w_actors (fw x) a)) && tail_escapes r e) eqn:En; [|discriminate].
    apply andb_true_iff in En. destruct En as [_ Esc].
    rewrite (tail_safe_keeps txon r e last S Esc) in H.
    destruct (fstep c x (FProto {| e_actor := a; e_kind := EAbort |})) as [x1|] eqn:St;
      inversion H; subst x'; clear H; [eapply fstep_inv; eauto | exact I].
Qed.

Lemma trun_cons r txon c x e evs : trun r txon c x (e :: evs) = trun r txon c (tstep_skip r txon c x e) evs.
Proof. reflexivity. Qed.

Lemma trun_inv r txon c x evs : sound c -> tail_safe txon r = true -> FInv c x -> FInv c (trun r txon c x evs).
Proof.
  intros Snd S. revert x. induction evs as [|e evs IH]; intros x I; [exact I|].
  rewrite trun_cons. apply IH. unfold tstep_skip. destruct (tstep r txon c x e) eqn:St; [eapply tstep_inv; eauto | exact I].
Qed.

(* C04, post-flip infallibility: after ANY sequence of protocol steps, file writes, pre-flip failures and rollbacks, crashes
   AND exceptions of any class leaving the tail of any commit call at any point after its flip -- each handled by whatever
   arm the handler table names, with no test of the protocol state -- every file referenced by a committed version is
   present, provided the tail is safe for that table. *)
Theorem tail_no_damage r txon c m0 kind mr r0 next evs :
  sound c -> (forall f, In f r0 -> (f < next)%nat) -> tail_safe txon r = true ->
  let x := trun r txon c (finit m0 kind mr r0 next) evs in
  forall v, In v (committed (fw x)) -> forall f, In f (refs x v) -> In f (f_present x).
Proof. intros Snd A S x. apply (finv_present c). apply trun_inv; [exact Snd | exact S | apply finit_inv; exact A]. Qed.

Theorem tail_unreachable r txon c m0 kind mr r0 next evs :
  sound c -> (forall f, In f r0 -> (f < next)%nat) -> tail_safe txon r = true ->
  let x := trun r txon c (finit m0 kind mr r0 next) evs in
  forall a, flipped (pcof x a) = false -> forall f, In f (f_written x a) ->
  forall v, In v (committed (fw x)) -> ~ In f (refs x v).
Proof.
  intros Snd A S x a NF f Wf v Hv Hf.
  assert (I : FInv c x) by (apply trun_inv; [exact Snd | exact S | apply finit_inv; exact A]).
  pose proof (FI_k1 c x I v Hv f Hf) as Sf. unfold safe in Sf. rewrite (FI_own c x I a f Wf) in Sf. congruence.
Qed.

Theorem tail_keeps_inv r txon c m0 kind mr r0 next evs :
  sound c -> (forall f, In f r0 -> (f < next)%nat) -> tail_safe txon r = true ->
  Inv c (fw (trun r txon c (finit m0 kind mr r0 next) evs)).
Proof. intros Snd A S. apply FI_inv. apply trun_inv; [exact Snd | exact S | apply finit_inv; exact A]. Qed.

(* ---- what the three theorems above add to Fault.v, said plainly: under tail_safe an enabled TEscape IS Fault.v's EAbort
   (the exception leaves the call, the lock is released on the way out, nothing is deleted).  All of their content beyond
   no_damage / uncommitted_unreachable / faults_keep_inv is the hypothesis tail_safe, decided on the regenerated tails below. *)
Lemma safe_escape_is_abort r txon c x a e last x' :
  tail_safe txon r = true -> tstep r txon c x (TEscape a e last) = Some x' ->
  x' = fstep_skip c x (FProto {| e_actor := a; e_kind := EAbort |}).
Proof.
  intros S H. unfold tstep in H.
  destruct (in_tail (a_pc (w_actors (fw x) a)) && tail_escapes r e) eqn:En; [|discriminate].
  apply andb_true_iff in En. destruct En as [_ Esc].
  rewrite (tail_safe_keeps txon r e last S Esc) in H. unfold fstep_skip.
  destruct (fstep c x (FProto {| e_actor := a; e_kind := EAbort |})); inversion H; reflexivity.
Qed.

(* ---- C04_clean_pre: the deleting rollback -- what Transaction.commit does about an exception it takes for a storage error
   that happened BEFORE the commit point, and reports as such -- has only ever been run by transactions whose operation is
   not part of the table (pre-state), in every run of the tail machine.  f_dead is the ghost "has run _rollback(delete_files=
   True)".  Before the flip this is the guard of Fault.v's FRollback (checked against the code by the strict run of the
   correspondence); after the flip it is tail_safe: no class the deleting arm handles can leave the tail. *)
Theorem clean_raise_pre r txon c m0 kind mr r0 next evs :
  sound c -> (forall f, In f r0 -> (f < next)%nat) -> tail_safe txon r = true ->
  let x := trun r txon c (finit m0 kind mr r0 next) evs in
  forall a, f_dead x a = true -> flipped (pcof x a) = false /\ ~ In a (map snd (w_hist (fw x))).
Proof.
  intros Snd A S x a D.
  assert (I : FInv c x) by (apply trun_inv; [exact Snd | exact S | apply finit_inv; exact A]).
  pose proof (can_rollback_not_flipped _ (FI_dead c x I a D)) as NF. split; [exact NF|].
  intro H. apply (AI_flip _ _ _ _ _ _ (I_actor c (fw x) (FI_inv c x I) a)) in H. unfold pcof in NF. congruence.
Qed.

(* ... and on the regenerated tables: (1) a failing commit-point write is reported as a plain storage error only where a
   write that raises is guaranteed not to have happened (no conditional writes, atomic_write_failures); (2) no Exception
   leaves any regenerated tail (so no storage error is reported by a call whose pointer write has landed). *)
Lemma clean_raise_regenerated :
  (forall casb atomic, gen_flip_exn casb atomic FEError = XOther -> casb = false /\ atomic = true)
  /\ unguarded gen_tail_file_ops = false /\ unguarded gen_tail_meta_only = false /\ unguarded gen_tail_delete_snapshot = false.
Proof.
  split; [|repeat split; reflexivity].
  intros [] []; simpl; intro H; try discriminate H; split; reflexivity.
Qed.

(* ---- C04_ambiguous: where the outcome of the pointer write is unknowable (a conditional-write store, or a store whose
   failed writes may have been applied) every failure of that write other than the store's own refusal is reported as
   AMBIGUOUS; the arm that handles it keeps the transaction's files and the metadata file on every attempt; and in the
   machine an ambiguous error leaving a commit call deletes nothing, whatever the tail. *)
Lemma ambiguous_step_keeps r c x a last x' :
  tstep r gen_tx_on c x (TEscape a XAmbiguous last) = Some x' ->
  f_present x' = f_present x /\ f_written x' = f_written x /\ f_dead x' = f_dead x.
Proof.
  unfold tstep. destruct (in_tail (a_pc (w_actors (fw x) a)) && tail_escapes r XAmbiguous); [|discriminate].
  replace (gen_tx_on XAmbiguous last) with TxRollbackKeep by (destruct last; reflexivity).
  destruct (fstep c x (FProto {| e_actor := a; e_kind := EAbort |})) as [x1|] eqn:St; intro H; inversion H; subst x'; clear H.
  - unfold fstep in St. destruct (step c (fw x) {| e_actor := a; e_kind := EAbort |}); inversion St. repeat split; reflexivity.
  - repeat split; reflexivity.
Qed.

Theorem ambiguous_keeps :
  (forall casb atomic, (casb = true \/ atomic = false) -> gen_flip_exn casb atomic FEError = XAmbiguous)
  /\ (forall last, gen_tx_on XAmbiguous last = TxRollbackKeep) /\ gen_discard_on XAmbiguous = false
  /\ (forall r c x a last x', tstep r gen_tx_on c x (TEscape a XAmbiguous last) = Some x' ->
       f_present x' = f_present x /\ f_written x' = f_written x /\ f_dead x' = f_dead x).
Proof.
  split; [intros [] [] [H|H]; try discriminate H; reflexivity|].
  split; [intros []; reflexivity|]. split; [reflexivity|]. exact ambiguous_step_keeps.
Qed.

(* ---- the regenerated tails are safe for the regenerated handler table *)
Lemma gen_tails_safe :
  tail_safe gen_tx_on gen_tail_file_ops = true /\ tail_safe gen_tx_on gen_tail_meta_only = true
  /\ unguarded gen_tail_delete_snapshot = false.
Proof. repeat split; reflexivity. Qed.

Theorem gen_tail_no_damage c m0 kind mr r0 next evs :
  sound c -> (forall f, In f r0 -> (f < next)%nat) ->
  (let x := trun gen_tail_file_ops gen_tx_on c (finit m0 kind mr r0 next) evs in
   forall v, In v (committed (fw x)) -> forall f, In f (refs x v) -> In f (f_present x))
  /\ (let x := trun gen_tail_meta_only gen_tx_on c (finit m0 kind mr r0 next) evs in
   forall v, In v (committed (fw x)) -> forall f, In f (refs x v) -> In f (f_present x)).
Proof.
  intros Snd A. split; apply tail_no_damage; auto; apply gen_tails_safe.
Qed.

(* ---- necessity: an escaping class handled by a deleting arm damages committed data *)
Lemma trun_TF r txon c x l : trun r txon c x (map TF l) = frun c x l.
Proof. revert x. induction l as [|e l IH]; intro x; [reflexivity|]. simpl. rewrite <- IH. reflexivity. Qed.

Lemma trun_app r txon c x l1 l2 : trun r txon c x (l1 ++ l2) = trun r txon c (trun r txon c x l1) l2.
Proof. unfold trun. apply fold_left_app. Qed.

Definition dm_ev a k := {| e_actor := a; e_kind := k |}.
Definition dm_cfg := {| cas := false; lockkind := Excl |}.
Definition dm_init := finit {| m_ops := []; m_cur := 1; m_lu := 100 |} (fun _ => KFresh) (fun _ => 50%nat) [0; 1]%nat 2%nat.
(* one transaction writes a file and commits it, up to and including the pointer flip *)
Definition dm_prefix : list fevent :=
  [FWrite 0; FProto (dm_ev 0 (EBegin 0)); FProto (dm_ev 0 (ELockTry true)); FProto (dm_ev 0 (EValidate 0 true));
   FProto (dm_ev 0 (EMetaW 100)); FProto (dm_ev 0 (EFence true)); FProto (dm_ev 0 (EFlip true))]%nat.

Theorem unguarded_tail_damages r txon e last :
  tail_escapes r e = true -> (txon e last = TxRollbackDelete \/ txon e last = TxPropagate) ->
  let x := trun r txon dm_cfg dm_init (map TF dm_prefix ++ [TEscape 0%nat e last]) in
  In 1%nat (committed (fw x)) /\ In 2%nat (refs x 1%nat) /\ ~ In 2%nat (f_present x).
Proof.
  intros Esc Act x. subst x. rewrite trun_app, trun_TF.
  set (p := frun dm_cfg dm_init dm_prefix).
  assert (St : tstep r txon dm_cfg p (TEscape 0%nat e last)
               = Some (delete_written (match fstep dm_cfg p (FProto (dm_ev 0%nat EAbort)) with Some x' => x' | None => p end) 0%nat)).
  { unfold tstep. replace (in_tail (a_pc (w_actors (fw p) 0%nat))) with true by (vm_compute; reflexivity).
    rewrite Esc. simpl andb. cbv iota. fold (dm_ev 0%nat EAbort). destruct Act as [-> | ->]; reflexivity. }
  unfold trun. simpl fold_left. unfold tstep_skip. rewrite St. vm_compute. repeat split; auto.
  intros [H|[H|[]]]; discriminate.
Qed.

(* in particular: with the regenerated handler table, ANY tail containing a call that no handler guards has a damaging run *)
Corollary unguarded_call_damages r :
  unguarded r = true ->
  let x := trun r gen_tx_on dm_cfg dm_init (map TF dm_prefix ++ [TEscape 0%nat XOther false]) in
  In 1%nat (committed (fw x)) /\ In 2%nat (refs x 1%nat) /\ ~ In 2%nat (f_present x).
Proof. intro U. apply unguarded_tail_damages; [exact U | left; reflexivity]. Qed.
