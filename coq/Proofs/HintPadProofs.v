(* Proofs/HintPadProofs.v -- whitespace around the pointer's content is invisible to the resolution: what a reopen resolves
   depends on strip(content) only.  (C03: crash points are explored from pointers in every accepted spelling; this is the
   statement that those spellings ARE equivalent for the regenerated parser.) *)
From Coq Require Import ZArith NArith List Bool.
Require Import DS.Model.HintPrim DS.Gen.GenHint DS.Model.Hint.
Import ListNotations.

Definition all_space (l : list cp) : Prop := Forall (fun c => sp c = true) l.

Lemma lstrip_app_space : forall a l, all_space a -> lstrip (a ++ l) = lstrip l.
Proof.
  intros a l H. induction H as [|c a Hc Ha IH]; [reflexivity|].
  cbn [app lstrip]. rewrite Hc. exact IH.
Qed.

Lemma lstrip_all_space : forall a, all_space a -> lstrip a = [].
Proof. intros a H. rewrite <- (app_nil_r a). rewrite lstrip_app_space by exact H. reflexivity. Qed.

Lemma lstrip_app_r : forall l b, all_space b ->
  lstrip (l ++ b) = lstrip l ++ b \/ (lstrip l = [] /\ lstrip (l ++ b) = []).
Proof.
  intros l b Hb. induction l as [|c l IH].
  - right. split; [reflexivity|]. cbn [app]. apply lstrip_all_space; exact Hb.
  - cbn [app lstrip]. destruct (sp c) eqn:Hc; [exact IH|]. left. reflexivity.
Qed.

Lemma all_space_rev : forall b, all_space b -> all_space (rev b).
Proof.
  intros b H. apply Forall_forall. intros c Hc. apply in_rev in Hc.
  unfold all_space in H. rewrite Forall_forall in H. auto.
Qed.

Lemma rstrip_app_space : forall l b, all_space b -> rstrip (l ++ b) = rstrip l.
Proof.
  intros l b Hb. unfold rstrip. rewrite rev_app_distr.
  rewrite lstrip_app_space by (apply all_space_rev; exact Hb). reflexivity.
Qed.

Lemma strip_padding : forall a l b, all_space a -> all_space b -> strip (a ++ l ++ b) = strip l.
Proof.
  intros a l b Ha Hb. unfold strip. rewrite lstrip_app_space by exact Ha.
  destruct (lstrip_app_r l b Hb) as [H | [H1 H2]].
  - rewrite H. apply rstrip_app_space; exact Hb.
  - rewrite H1, H2. reflexivity.
Qed.

Lemma parse_padding : forall a l b, all_space a -> all_space b ->
  parse_hint (Some (a ++ l ++ b)) = parse_hint (Some l).
Proof.
  intros a l b Ha Hb. unfold parse_hint, gen_parse_hint. rewrite (strip_padding a l b Ha Hb). reflexivity.
Qed.

Lemma resolve_padding : forall a l b es, all_space a -> all_space b ->
  resolve (Some (Some (a ++ l ++ b))) es = resolve (Some (Some l)) es.
Proof.
  intros a l b es Ha Hb. unfold resolve, read_hint. rewrite (parse_padding a l b Ha Hb). reflexivity.
Qed.

(* the spellings the crash harness uses: "\n", "\r\n", " ... \n" *)
Lemma harness_spellings_are_space :
  all_space [acp 10] /\ all_space [acp 13; acp 10] /\ all_space [acp 32].
Proof. repeat split; repeat constructor. Qed.
