(* Proofs/HandleState.v -- the state of a long-lived handle, over the tables regenerated from the source (C17).

   Model/Path.v takes a handle (LocalStorageBackend / DataFileManager) to be its base string: run_entry, run_history and
   run_session resolve every string from the string, the base and the tree current at that step, and nothing else.
   The justification is a fact about the source, regenerated on every run (Gen/GenPath.v):
     gen_guard_reads    which attributes of self the path guards load;
     gen_handle_writes  which (method, attribute) pairs store into an attribute of self after construction.
   Here: no attribute a guard reads is ever stored into after construction, by any method -- so between two calls on one
   object the guards see the same handle state, whatever was listed, probed, read or written in between. *)
From Coq Require Import List Bool String.
Require Import DS.Model.Path DS.Gen.GenPath.
Import ListNotations.
Open Scope string_scope.

Definition field_written (w : list (string * string * string)) (c f : string) : bool :=
  existsb (fun x => String.eqb (fst (fst x)) c && String.eqb (snd x) f) w.

Definition field_known (fs : list (string * string)) (c f : string) : bool :=
  existsb (fun x => String.eqb (fst x) c && String.eqb (snd x) f) fs.

(* decidable form of the claim, evaluated on the regenerated tables *)
Definition guards_read_constructor_state_only : bool :=
  forallb (fun r => field_known gen_handle_fields (fst (fst r)) (snd r)
                    && negb (field_written gen_handle_writes (fst (fst r)) (snd r))) gen_guard_reads.

Lemma field_written_complete : forall w c m f, In (c, m, f) w -> field_written w c f = true.
Proof.
  intros w c m f H. unfold field_written. apply existsb_exists. exists (c, m, f). split; [exact H|].
  simpl. rewrite !String.eqb_refl. reflexivity.
Qed.

Lemma field_known_sound : forall fs c f, field_known fs c f = true -> In (c, f) fs.
Proof.
  intros fs c f H. unfold field_known in H. apply existsb_exists in H. destruct H as [[c' f'] [Hin Hb]].
  simpl in Hb. apply andb_prop in Hb. destruct Hb as [A B]. apply String.eqb_eq in A. apply String.eqb_eq in B. subst. exact Hin.
Qed.

(* The statement over ARBITRARY tables; the regenerated ones are an instance (next lemma). *)
Lemma reads_disjoint_from_writes : forall (fs : list (string * string)) (w rs : list (string * string * string)),
  forallb (fun r => field_known fs (fst (fst r)) (snd r) && negb (field_written w (fst (fst r)) (snd r))) rs = true ->
  forall c m f, In (c, m, f) rs -> In (c, f) fs /\ forall m', ~ In (c, m', f) w.
Proof.
  intros fs w rs H c m f Hin. rewrite forallb_forall in H. specialize (H _ Hin). simpl in H.
  apply andb_prop in H. destruct H as [K W]. split; [apply field_known_sound; exact K|].
  intros m' Hw. apply (field_written_complete w c m' f) in Hw. rewrite Hw in W. discriminate.
Qed.

Lemma guard_state_fixed_at_construction : forall c m f, In (c, m, f) gen_guard_reads ->
  In (c, f) gen_handle_fields /\ forall m', ~ In (c, m', f) gen_handle_writes.
Proof.
  apply reads_disjoint_from_writes. vm_compute. reflexivity.
Qed.

(* the local backend in particular: its methods read the base string and nothing else, and no method stores to it *)
Lemma local_backend_state_is_base : forall m f, In ("LocalStorageBackend", m, f) gen_guard_reads -> f = "base_path".
Proof.
  intros m f H. unfold gen_guard_reads in H. simpl in H.
  repeat (destruct H as [H|H]; [inversion H; subst; try reflexivity; try discriminate|]); try contradiction.
Qed.
