(* Proofs/LockEnvProofs.v -- the S3 lock model does not depend on its environment: for every event list,
   erasing the environment events (process zone changes, re-renderings of LastModified at any utcoffset)
   changes nothing that the store, the clients or an observer of the requests can see.  (C19, S3 lock.)
   Only a NAIVE rendering is visible (acquire() raises); it is excluded by `aware_ev`. *)
From Coq Require Import ZArith NArith Lia List Bool.
Require Import DS.Model.PyTime DS.Gen.GenLockAge DS.Model.Lock DS.Proofs.LockAgeProofs DS.Proofs.LockProofs.
Import ListNotations.
Open Scope Z_scope.

Lemma env_sim_init : env_sim sinit sinit.
Proof. constructor; simpl; auto; try discriminate; intros; discriminate. Qed.

Section Sim.
Variable cd : bool.
Variable lease : Z.
Variable rsleep : Z.

(* an environment event with an aware rendering is invisible *)
Lemma sim_env s1 s2 z k : env_sim s1 s2 -> env_sim (sstep cd lease rsleep s1 (SEnv z (Some k))) s2.
Proof. intros [Vo Vn Vt Vl Vc Vr R1 R2 P1 P2]. constructor; simpl; auto. discriminate. Qed.

Ltac bm :=
  match goal with
  | |- context [match ?x with _ => _ end] => destruct x eqn:?
  | |- context [if ?b then _ else _] => destruct b eqn:?
  end.

Ltac upd c :=
  let c0 := fresh "c0" in let l0 := fresh "l0" in let e0 := fresh "e0" in
  intros c0; try intros l0 e0; unfold updN; destruct (N.eqb c0 c).

Ltac fin_sim Vc Vr R1 R2 P1 P2 c :=
  constructor; simpl; auto; try congruence;
  first [ (upd c; [reflexivity|apply Vc])
        | (unfold tr_norm in *; simpl; rewrite ?Vr; reflexivity)
        | (upd c; [simpl; congruence|apply P1])
        | (upd c; [simpl; congruence|apply P2]) ].

Lemma sim_step s1 s2 ev : env_sim s1 s2 -> is_env ev = false ->
  env_sim (sstep cd lease rsleep s1 ev) (sstep cd lease rsleep s2 ev).
Proof.
  intros [Vo Vn Vt Vl Vc Vr R1 R2 P1 P2] E.
  destruct ev as [c k|c f j|c f|d|c|z r]; try discriminate E; clear E.
  - (* SCall *)
    pose proof (Vc c) as Hc. pose proof (P1 c) as Hp1. pose proof (P2 c) as Hp2. simpl.
    destruct (scl s1 c) as [a1 p1 k1 m1 h1 to1 st1 r1 w1 lt1 tp1 tr1 g1] eqn:X1.
    destruct (scl s2 c) as [a2 p2 k2 m2 h2 to2 st2 r2 w2 lt2 tp2 tr2 g2] eqn:X2.
    unfold cl_norm, q_pc in Hc; simpl in *. injection Hc as -> Hp -> -> -> -> -> -> -> -> -> -> ->.
    destruct a2; [|fin_sim Vc Vr R1 R2 P1 P2 c].
    destruct p1; destruct p2; simpl in Hp; try discriminate Hp;
      try (destruct r; discriminate Hp); try (destruct r0; discriminate Hp);
      try (fin_sim Vc Vr R1 R2 P1 P2 c).
    destruct k; [|destruct k2..]; fin_sim Vc Vr R1 R2 P1 P2 c.
  - (* SStep *)
    pose proof (Vc c) as Hc. pose proof (P1 c) as Hp1. pose proof (P2 c) as Hp2. simpl.
    destruct (lmrep s1) as [q1|] eqn:L1; [|contradiction]. destruct (lmrep s2) as [q2|] eqn:L2; [|contradiction].
    destruct (scl s1 c) as [a1 p1 k1 m1 h1 to1 st1 r1 w1 lt1 tp1 tr1 g1] eqn:X1.
    destruct (scl s2 c) as [a2 p2 k2 m2 h2 to2 st2 r2 w2 lt2 tp2 tr2 g2] eqn:X2.
    unfold cl_norm, q_pc in Hc; simpl in *. injection Hc as -> Hp -> -> -> -> -> -> -> -> -> -> ->.
    destruct a2; [|fin_sim Vc Vr R1 R2 P1 P2 c].
    unfold etag_matches, fresh_obj. rewrite ?Vo, ?Vn, ?Vt, ?Vl.
    destruct p1; destruct p2; simpl in Hp; try discriminate Hp;
      try (destruct r; discriminate Hp); try (destruct r0; discriminate Hp).
    + fin_sim Vc Vr R1 R2 P1 P2 c.
    + fin_sim Vc Vr R1 R2 P1 P2 c.
    + destruct f; repeat bm; fin_sim Vc Vr R1 R2 P1 P2 c.
    + destruct f; repeat bm; fin_sim Vc Vr R1 R2 P1 P2 c.
    + (* QAge *)
      destruct r as [o1|]; [|exfalso; eapply Hp1; reflexivity].
      destruct r0 as [o2|]; [|exfalso; eapply Hp2; reflexivity].
      simpl in Hp. injection Hp as -> ->. rewrite !takeover_age_render.
      repeat bm; fin_sim Vc Vr R1 R2 P1 P2 c.
    + injection Hp as -> ->. destruct f; repeat bm; fin_sim Vc Vr R1 R2 P1 P2 c.
    + repeat bm; fin_sim Vc Vr R1 R2 P1 P2 c.
    + injection Hp as ->. fin_sim Vc Vr R1 R2 P1 P2 c.
    + injection Hp as ->. destruct f, second0; repeat bm; fin_sim Vc Vr R1 R2 P1 P2 c.
    + injection Hp as ->. fin_sim Vc Vr R1 R2 P1 P2 c.
    + destruct f; repeat bm; fin_sim Vc Vr R1 R2 P1 P2 c.
    + repeat bm; fin_sim Vc Vr R1 R2 P1 P2 c.
  - (* SRenew *)
    pose proof (Vc c) as Hc. pose proof (P1 c) as Hp1. pose proof (P2 c) as Hp2. simpl.
    destruct (scl s1 c) as [a1 p1 k1 m1 h1 to1 st1 r1 w1 lt1 tp1 tr1 g1] eqn:X1.
    destruct (scl s2 c) as [a2 p2 k2 m2 h2 to2 st2 r2 w2 lt2 tp2 tr2 g2] eqn:X2.
    unfold cl_norm, q_pc in Hc; simpl in *. injection Hc as -> Hp -> -> -> -> -> -> -> -> -> -> ->.
    unfold etag_matches, fresh_obj. rewrite ?Vo, ?Vn, ?Vt, ?Vl.
    destruct (a2 && h2 && k2); [|fin_sim Vc Vr R1 R2 P1 P2 c].
    destruct m2 as [e|]; [|fin_sim Vc Vr R1 R2 P1 P2 c].
    assert (Hq1 : forall l0 e0, p1 <> QAge l0 e0 None) by (intros; apply Hp1).
    assert (Hq2 : forall l0 e0, p2 <> QAge l0 e0 None) by (intros; apply Hp2).
    destruct f; repeat bm; constructor; simpl; auto; try congruence;
      first [ (upd c; [unfold cl_norm, q_pc; simpl; congruence|apply Vc])
            | (unfold tr_norm in *; simpl; rewrite ?Vr; reflexivity)
            | (upd c; [simpl; auto|apply P1])
            | (upd c; [simpl; auto|apply P2]) ].
  - (* STick *) constructor; simpl; auto; congruence.
  - (* SDie *)
    pose proof (Vc c) as Hc. pose proof (P1 c) as Hp1. pose proof (P2 c) as Hp2. simpl.
    destruct (scl s1 c) as [a1 p1 k1 m1 h1 to1 st1 r1 w1 lt1 tp1 tr1 g1] eqn:X1.
    destruct (scl s2 c) as [a2 p2 k2 m2 h2 to2 st2 r2 w2 lt2 tp2 tr2 g2] eqn:X2.
    unfold cl_norm, q_pc in Hc; simpl in *. injection Hc as -> Hp -> -> -> -> -> -> -> -> -> -> ->.
    constructor; simpl; auto; try congruence;
      first [ (upd c; [unfold cl_norm, q_pc; simpl; congruence|apply Vc])
            | (unfold tr_norm in *; simpl; rewrite ?Vr; reflexivity)
            | (upd c; [simpl; auto|apply P1])
            | (upd c; [simpl; auto|apply P2]) ].
Qed.

Lemma sim_run evs : forall s1 s2, env_sim s1 s2 -> forallb aware_ev evs = true ->
  env_sim (srun cd lease rsleep s1 evs) (srun cd lease rsleep s2 (strip_env evs)).
Proof.
  induction evs as [|ev evs IH]; intros s1 s2 V A; simpl; [exact V|].
  simpl in A. apply andb_true_iff in A. destruct A as [A1 A2].
  destruct (is_env ev) eqn:E; simpl.
  - destruct ev as [| | | | |z r]; try discriminate E. destruct r as [k|]; [|discriminate A1].
    apply IH; [apply sim_env; exact V|exact A2].
  - apply IH; [apply sim_step; assumption|exact A2].
Qed.

(* THE theorem: what the store holds, what every client believes and where it stands, the clock, and the
   whole request / result trace are the same with and without the environment events. *)
Theorem s3_environment_irrelevant : forall evs, forallb aware_ev evs = true ->
  env_sim (srun cd lease rsleep sinit evs) (srun cd lease rsleep sinit (strip_env evs)).
Proof. intros evs A. apply sim_run; [exact env_sim_init|exact A]. Qed.

Lemma env_sim_sym s1 s2 : env_sim s1 s2 -> env_sim s2 s1.
Proof. intros [Vo Vn Vt Vl Vc Vr R1 R2 P1 P2]. constructor; auto. Qed.

Lemma env_sim_trans s1 s2 s3 : env_sim s1 s2 -> env_sim s2 s3 -> env_sim s1 s3.
Proof.
  intros [Vo Vn Vt Vl Vc Vr R1 R2 P1 P2] [Wo Wn Wt Wl Wc Wr Q1 Q2 T1 T2].
  constructor; auto; try congruence.
Qed.

(* the same calls, steps, renewals, faults, clock advances and deaths in two processes whose zones and
   LastModified renderings differ in any way (and change at any moments): indistinguishable *)
Theorem s3_same_in_every_environment : forall evs1 evs2,
  forallb aware_ev evs1 = true -> forallb aware_ev evs2 = true -> strip_env evs1 = strip_env evs2 ->
  env_sim (srun cd lease rsleep sinit evs1) (srun cd lease rsleep sinit evs2).
Proof.
  intros evs1 evs2 A1 A2 E.
  eapply env_sim_trans; [apply s3_environment_irrelevant; exact A1|].
  rewrite E. apply env_sim_sym. apply s3_environment_irrelevant. exact A2.
Qed.

End Sim.
