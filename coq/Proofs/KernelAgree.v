(* Proofs/KernelAgree.v -- os.path.realpath (as modelled) agrees with the kernel's own path walk whenever
   the kernel resolves the string (C17): the lexical fallbacks of the non-strict realpath (missing
   components, give-up on a loop) are never taken on a path the kernel can walk. *)
From Coq Require Import ZArith List Bool Lia Arith.
Require Import DS.Model.Path DS.Gen.GenPath DS.Proofs.PathProofs.
Import ListNotations.
Open Scope Z_scope.

(* Successful resolution as a finite derivation, NESTED like _joinrealpath (a link's target is resolved
   completely, then the rest), indexed by its size. *)
Inductive RN (t : tree) : nat -> loc -> pstr -> loc -> Prop :=
| RN_nil : forall cur, RN t 0 cur [] cur
| RN_skip : forall n cur c rest l, is_skip c = true -> RN t n cur rest l -> RN t (S n) cur (c :: rest) l
| RN_up : forall n cur c rest l, is_skip c = false -> is_up c = true ->
    RN t n (removelast cur) rest l -> RN t (S n) cur (c :: rest) l
| RN_name : forall n cur c rest l, is_skip c = false -> is_up c = false -> is_link (lstat t (cur ++ [c])) = false ->
    RN t n (cur ++ [c]) rest l -> RN t (S n) cur (c :: rest) l
| RN_link : forall n1 n2 cur c rest tg m l, is_skip c = false -> is_up c = false -> lstat t (cur ++ [c]) = Some (Link tg) ->
    RN t n1 (link_start cur tg) (link_rest tg) m -> RN t n2 m rest l -> RN t (S (n1 + n2)) cur (c :: rest) l.

Lemma RN_det : forall t n1 cur rest l1, RN t n1 cur rest l1 -> forall n2 l2, RN t n2 cur rest l2 -> n1 = n2 /\ l1 = l2.
Proof.
  intros t n1 cur rest l1 H. induction H as [cur|n cur c rest l Hs H IH|n cur c rest l Hs Hu H IH|n cur c rest l Hs Hu Hl H IH
                                             |na nb cur c rest tg m l Hs Hu Hl H1 IH1 H2 IH2]; intros n2 l2 H'.
  - inversion H'; subst. split; reflexivity.
  - clear H. inversion H'; subst; clear H'; try congruence.
    match goal with [ R : RN _ _ _ _ _ |- _ ] => destruct (IH _ _ R) as [E1 E2]; subst; split; reflexivity end.
  - clear H. inversion H'; subst; clear H'; try congruence.
    match goal with [ R : RN _ _ _ _ _ |- _ ] => destruct (IH _ _ R) as [E1 E2]; subst; split; reflexivity end.
  - clear H. inversion H'; subst; clear H'; try congruence.
    + match goal with [ R : RN _ _ _ _ _ |- _ ] => destruct (IH _ _ R) as [E1 E2]; subst; split; reflexivity end.
    + match goal with [ L : lstat _ _ = Some (Link _) |- _ ] => rewrite L in Hl; discriminate end.
  - clear H1 H2. inversion H'; subst; clear H'; try congruence.
    + match goal with [ L : is_link (lstat _ _) = false |- _ ] => rewrite Hl in L; discriminate end.
    + match goal with [ L : lstat _ _ = Some (Link ?tg0) |- _ ] => rewrite Hl in L; inversion L; subst tg0 end.
      match goal with [ R1 : RN _ _ (link_start _ _) _ _, R2 : RN _ _ _ rest _ |- _ ] =>
        destruct (IH1 _ _ R1) as [E1 E2]; subst; destruct (IH2 _ _ R2) as [E3 E4]; subst; split; reflexivity end.
Qed.

(* ---- the kernel's flat walk yields a nested derivation *)
Lemma kwalk_RN_app : forall t n cur a b l, kwalk n t cur (a ++ b) = Ok l ->
  exists m na nb, RN t na cur a m /\ kwalk nb t m b = Ok l /\ (nb <= n)%nat.
Proof.
  intros t n. induction n as [n IHn] using lt_wf_ind. intros cur a b l H.
  destruct n as [|f]; [simpl in H; discriminate|].
  destruct a as [|c a].
  - exists cur, 0%nat, (S f). split; [constructor|]. split; [exact H|lia].
  - simpl in H. destruct (c =? 0) eqn:E0.
    + destruct (IHn f (Nat.lt_succ_diag_r f) cur a b l H) as [m [na [nb [R [K L]]]]].
      exists m, (S na), nb. split; [apply RN_skip; [unfold is_skip; rewrite E0; reflexivity|exact R]|]. split; [exact K|lia].
    + destruct (lstat t cur) as [[| |tg0]|]; try discriminate.
      destruct (c =? 1) eqn:E1.
      * destruct (IHn f (Nat.lt_succ_diag_r f) cur a b l H) as [m [na [nb [R [K L]]]]].
        exists m, (S na), nb. split; [apply RN_skip; [unfold is_skip; rewrite E0, E1; reflexivity|exact R]|]. split; [exact K|lia].
      * assert (Hs : is_skip c = false) by (unfold is_skip; rewrite E0, E1; reflexivity).
        destruct (is_up c) eqn:Eu.
        -- destruct (IHn f (Nat.lt_succ_diag_r f) _ a b l H) as [m [na [nb [R [K L]]]]].
           exists m, (S na), nb. split; [apply RN_up; assumption|]. split; [exact K|lia].
        -- destruct (lstat t (cur ++ [c])) as [[| |tg]|] eqn:El; try discriminate.
           ++ destruct (IHn f (Nat.lt_succ_diag_r f) _ a b l H) as [m [na [nb [R [K L]]]]].
              exists m, (S na), nb. split; [apply RN_name; try assumption; rewrite El; reflexivity|]. split; [exact K|lia].
           ++ destruct (IHn f (Nat.lt_succ_diag_r f) _ a b l H) as [m [na [nb [R [K L]]]]].
              exists m, (S na), nb. split; [apply RN_name; try assumption; rewrite El; reflexivity|]. split; [exact K|lia].
           ++ destruct (IHn f (Nat.lt_succ_diag_r f) _ (link_rest tg) (a ++ b) l H) as [m1 [n1 [nb1 [R1 [K1 L1]]]]].
              assert (Hlt : (nb1 < S f)%nat) by lia.
              destruct (IHn nb1 Hlt m1 a b l K1) as [m2 [n2 [nb2 [R2 [K2 L2]]]]].
              exists m2, (S (n1 + n2)), nb2. split; [eapply RN_link; eassumption|]. split; [exact K2|lia].
Qed.

Lemma kwalk_RN : forall t n cur s l, kwalk n t cur s = Ok l -> exists k, RN t k cur s l.
Proof.
  intros t n cur s l H. rewrite <- (app_nil_r s) in H.
  destruct (kwalk_RN_app t n cur s [] l H) as [m [na [nb [R [K _]]]]].
  destruct nb; simpl in K; [discriminate|]. inversion K; subst. exists na. exact R.
Qed.

(* ---- realpath follows a nested derivation; an in-progress link cannot recur inside its own (finite) expansion *)
Lemma mem_true_in : forall p l, mem p l = true -> In p l.
Proof.
  intros p l H. unfold mem in H. apply existsb_exists in H. destruct H as [x [Hin He]]. apply leqb_eq in He. subst. exact Hin.
Qed.

Definition in_progress (t : tree) (n : nat) (seen : list loc) : Prop :=
  forall M, In M seen -> exists tgM nM lM, lstat t M = Some (Link tgM)
    /\ RN t nM (link_start (removelast M) tgM) (link_rest tgM) lM /\ (n <= nM)%nat.

Lemma in_progress_le : forall t n n' seen, (n' <= n)%nat -> in_progress t n seen -> in_progress t n' seen.
Proof.
  intros t n n' seen Hle H M HM. destruct (H M HM) as [tg [nM [lM [A [B C0]]]]]. exists tg, nM, lM. repeat split; try assumption. lia.
Qed.

Lemma RN_jrp : forall t n cur rest l, RN t n cur rest l ->
  forall d seen, in_progress t n seen -> jrp d t cur rest seen = RPOk l \/ jrp d t cur rest seen = RPFuel.
Proof.
  intros t n cur rest l H. induction H as [cur|n cur c rest l Hs H IH|n cur c rest l Hs Hu H IH|n cur c rest l Hs Hu Hl H IH
                                           |na nb cur c rest tg m l Hs Hu Hl H1 IH1 H2 IH2]; intros d seen Hp.
  - left. apply jrp_nil.
  - rewrite jrp_cons, Hs. apply IH. eapply in_progress_le; [|exact Hp]. lia.
  - rewrite jrp_cons, Hs, Hu. apply IH. eapply in_progress_le; [|exact Hp]. lia.
  - rewrite jrp_cons, Hs, Hu.
    assert (Hp' : in_progress t n seen) by (eapply in_progress_le; [|exact Hp]; lia).
    destruct (lstat t (cur ++ [c])) as [[| |tg]|]; try (apply IH; exact Hp'). simpl in Hl. discriminate.
  - rewrite jrp_cons, Hs, Hu, Hl.
    destruct (mem (cur ++ [c]) seen) eqn:Em.
    + exfalso. apply mem_true_in in Em. destruct (Hp _ Em) as [tgM [nM [lM [A [B C0]]]]].
      rewrite Hl in A. inversion A; subst tgM. rewrite removelast_app1 in B.
      destruct (RN_det _ _ _ _ _ H1 _ _ B) as [E _]. lia.
    + destruct d as [|d']; [right; reflexivity|].
      assert (Hp1 : in_progress t na ((cur ++ [c]) :: seen)).
      { intros M [<-|HM].
        - exists tg, na, m. rewrite removelast_app1. repeat split; try assumption. lia.
        - destruct (Hp M HM) as [tgM [nM [lM [A [B C0]]]]]. exists tgM, nM, lM. repeat split; try assumption. lia. }
      destruct (IH1 d' _ Hp1) as [E|E]; rewrite E; [|right; reflexivity].
      apply IH2. eapply in_progress_le; [|exact Hp]. lia.
Qed.

(* os.path.realpath (modelled) returns exactly the kernel's location whenever the kernel can walk the string. *)
Theorem realpath_agrees_with_kernel : forall d t cwd s kf l,
  (count_links t <= d)%nat ->
  kwalk kf t [] (tl (absolutize cwd s)) = Ok l -> realpath d t cwd s = Ok l.
Proof.
  intros d t cwd s kf l Hd Hk. destruct (kwalk_RN _ _ _ _ _ Hk) as [k R].
  pose proof (realpath_fuel d t cwd s Hd) as Hf. unfold realpath in *.
  destruct (RN_jrp _ _ _ _ _ R d [] (fun M HM => match HM with end)) as [E|E]; rewrite E in *; [reflexivity|congruence].
Qed.

(* A string the kernel resolves to a location outside the canonical root is rejected. *)
Theorem kernel_outside_rejected : forall d t cwd base p kf l rb,
  (count_links t <= d)%nat ->
  kwalk kf t [] (tl (absolutize cwd (join_for_resolve base p))) = Ok l ->
  realpath d t cwd base = Ok rb -> is_prefix rb l = false ->
  resolve d t cwd base p = Err Security.
Proof.
  intros d t cwd base p kf l rb Hd Hk Hb Hn.
  eapply resolve_reject; [eapply realpath_agrees_with_kernel; eassumption|exact Hb|exact Hn].
Qed.

(* ... and a string the kernel resolves INSIDE is resolved to exactly the kernel's location (never to some
   other file): if the resolver answers at all, it answers the kernel's location. *)
Theorem resolve_is_kernel_location : forall d t cwd base p kf l q,
  (count_links t <= d)%nat ->
  kwalk kf t [] (tl (absolutize cwd (join_for_resolve base p))) = Ok l ->
  resolve d t cwd base p = Ok q -> q = l.
Proof.
  intros d t cwd base p kf l q Hd Hk Hr. apply resolve_ok in Hr. destruct Hr as [rb [_ [Er _]]].
  pose proof (realpath_agrees_with_kernel d t cwd _ kf l Hd Hk) as E. rewrite E in Er. inversion Er. reflexivity.
Qed.
