(* Proofs/CommitRetryProofs.v -- the retry budget of the commit machine (C01_conflict_retried): `step` retries a
   conflict exactly as the regenerated handler table says, and a conflict is REPORTED only when the budget is used up. *)
From Coq Require Import ZArith List Bool Arith Lia.
Require Import DS.Model.CommitBase DS.Gen.GenCommit DS.Model.Commit DS.Proofs.CommitGenProofs DS.Proofs.CommitProofs.
Import ListNotations.

Definition RInv (mr : aid -> nat) (w : world) : Prop :=
  forall a, let s := w_actors w a in
    a_maxr s = mr a
    /\ (a_pc s = PDone Conflict -> (mr a <= S (a_attempt s))%nat)
    /\ (a_attempt s = 0 \/ a_attempt s < mr a)%nat.

Lemma step_rinv c mr w e w' : RInv mr w -> step c w e = Some w' -> RInv mr w'.
Proof.
  intros R H b. specialize (R b) as Rb. specialize (R (e_actor e)) as Ra. cbv zeta in *.
  unfold step in H.
  destruct (e_kind e) as [v|ok| |v ok|now|ok|ok| | | ]; destruct (a_pc (w_actors w (e_actor e))) eqn:PC; try discriminate;
    try (destruct ok);
    repeat match goal with
           | H : (if ?x then _ else _) = Some _ |- _ => destruct x eqn:?; try discriminate
           | H : match lockkind c with _ => _ end = Some _ |- _ => destruct (lockkind c); try discriminate
           end;
    inversion H; subst w'; clear H; simpl; try exact Rb;
    (destruct (Nat.eq_dec b (e_actor e)) as [->|NE];
     [ rewrite ?upd_same; simpl; rewrite ?PC in *;
       destruct Ra as [R1 [R2 R3]];
       try (split; [exact R1|split; [intro X; try discriminate X; try (apply R2; exact X)|exact R3]]; fail)
     | rewrite ?upd_other by exact NE; exact Rb ]).
  all: try (destruct (Nat.ltb_spec (S (a_attempt (w_actors w (e_actor e)))) (a_maxr (w_actors w (e_actor e)))); simpl;
            (split; [exact R1|split; [intro X; try discriminate X; lia|lia]])).
Qed.

Lemma init_rinv m0 kind mr : RInv mr (init_world m0 kind mr).
Proof. intro a. simpl. split; [reflexivity|split; [discriminate|left; reflexivity]]. Qed.

Lemma run_rinv c mr w evs : RInv mr w -> RInv mr (run c w evs).
Proof.
  revert w. induction evs as [|e l IH]; intros w R; [exact R|]. rewrite run_cons. apply IH. unfold step_skip.
  destruct (step c w e) eqn:St; [eapply step_rinv; eauto | exact R].
Qed.

(* a conflict is reported after exactly `mr a` attempts, and no attempt beyond the budget is ever started *)
Lemma conflict_reported_when_exhausted c m0 kind mr evs a :
  (0 < mr a)%nat ->
  let s := w_actors (run c (init_world m0 kind mr) evs) a in
  (a_attempt s < mr a)%nat /\ (a_pc s = PDone Conflict -> S (a_attempt s) = mr a).
Proof.
  intros P s. destruct (run_rinv c mr _ evs (init_rinv m0 kind mr) a) as [R1 [R2 R3]]. fold s in R1, R2, R3.
  split; [lia|]. intro X. specialize (R2 X). lia.
Qed.

(* the retry decision of `step` after a conflict is the regenerated handler table's: Transaction.commit's except-arm
   for ConcurrentModificationException retries while `attempt < max_retries - 1`, i.e. unless this was the last one *)
Lemma release_after_conflict_follows_table c w e w' :
  e_kind e = ERelease -> a_pc (w_actors w (e_actor e)) = PConflict -> step c w e = Some w' ->
  let s := w_actors w (e_actor e) in
  let last := negb (Nat.ltb (S (a_attempt s)) (a_maxr s)) in
  match gen_tx_on XConflict last with
  | TxRetry => a_pc (w_actors w' (e_actor e)) = PIdle /\ a_attempt (w_actors w' (e_actor e)) = S (a_attempt s)
  | TxRollbackDelete => a_pc (w_actors w' (e_actor e)) = PDone Conflict
  | _ => False
  end.
Proof.
  intros EK PC H. cbv zeta. unfold step in H. rewrite EK, PC in H. inversion H; subst w'; clear H. simpl. rewrite upd_same.
  destruct (Nat.ltb (S (a_attempt (w_actors w (e_actor e)))) (a_maxr (w_actors w (e_actor e)))); simpl; auto.
Qed.
