(* Proofs/HintStoreProofs.v -- recovery over rendered listings, and the store machine's invariant (C10). *)
From Coq Require Import ZArith NArith Lia ZifyBool List Bool Permutation.
Require Import DS.Model.HintPrim DS.Gen.GenHint DS.Gen.GenHintPins DS.Model.Hint DS.Model.HintStore DS.Proofs.HintProofs.
Import ListNotations.
Open Scope N_scope.

(* ------------------------------------------------------------------ codes *)
Lemma codes_eqb_refl : forall a, codes_eqb a a = true.
Proof. induction a as [|x a IH]; [reflexivity|]. cbn [codes_eqb]. rewrite N.eqb_refl. exact IH. Qed.

Lemma codes_eqb_eq : forall a b, codes_eqb a b = true <-> a = b.
Proof.
  induction a as [|x a IH]; intros [|y b]; cbn [codes_eqb]; split; intro H; try reflexivity; try discriminate.
  - apply andb_prop in H. destruct H as [H1 H2]. apply N.eqb_eq in H1. apply IH in H2. subst. reflexivity.
  - inversion H; subst. rewrite N.eqb_refl. apply IH. reflexivity.
Qed.

Lemma codes_eqb_app_l : forall p a b, codes_eqb (p ++ a) (p ++ b) = codes_eqb a b.
Proof. induction p as [|x p IH]; intros a b; [reflexivity|]. cbn [app codes_eqb]. rewrite N.eqb_refl. apply IH. Qed.

Lemma codes_lit : forall l, codes (lit l) = l.
Proof. induction l as [|x l IH]; [reflexivity|]. cbn. f_equal. exact IH. Qed.

Lemma codes_app : forall a b, codes (a ++ b) = codes a ++ codes b.
Proof. intros. unfold codes. apply map_app. Qed.

Lemma name_eqb_refl : forall a, name_eqb a a = true.
Proof. intro a. apply codes_eqb_refl. Qed.

Lemma name_eqb_codes : forall a b, name_eqb a b = true <-> codes a = codes b.
Proof. intros. apply codes_eqb_eq. Qed.

(* ------------------------------------------------------------------ rendered paths: no slash, no backslash *)
Definition plain (c : cp) : Prop := code c <> 47 /\ code c <> 92.

Lemma digit_cp_plain : forall d, d < 10 -> plain (digit_cp d).
Proof. intros d H. unfold plain, digit_cp, acp; cbn [code]. lia. Qed.

Lemma hex_cp_plain : forall h, h < 16 -> plain (hex_cp h).
Proof. intros h H. unfold plain, hex_cp, acp; cbn [code]. destruct (N.ltb_spec h 10); lia. Qed.

Lemma render_plain : forall v id, wf_id id = true -> Forall plain (render_name v id).
Proof.
  intros v id Hid. destruct (wf_id_spec id Hid) as [_ Hh]. unfold render_name.
  constructor; [unfold plain; cbn; lia|].
  apply Forall_app; split.
  - eapply Forall_map_lt; [|apply digits_lt10]. intros; apply digit_cp_plain; assumption.
  - constructor; [unfold plain; cbn; lia|]. apply Forall_app; split.
    + eapply Forall_map_lt; [|exact Hh]. intros; apply hex_cp_plain; assumption.
    + unfold plain. vm_compute. repeat constructor; intro H; discriminate H.
Qed.

Lemma unbackslash_plain : forall l, Forall (fun c => code c <> 92) l -> unbackslash l = l.
Proof.
  intros l H. unfold unbackslash. induction H as [|c l Hc Hl IH]; [reflexivity|].
  cbn [map]. destruct (N.eqb_spec (code c) 92); [contradiction|]. f_equal. exact IH.
Qed.

Lemma span_not_slash_app : forall a s r, Forall (fun c => code c <> 47) a -> code s = 47 ->
  span_not_slash (a ++ s :: r) = (a, s :: r).
Proof.
  induction a as [|c a IH]; intros s r H Hs; cbn [app span_not_slash].
  - unfold not_slash. rewrite Hs. reflexivity.
  - inversion H; subst. unfold not_slash at 1. destruct (N.eqb_spec (code c) 47); [contradiction|].
    cbn [negb]. rewrite IH by assumption. reflexivity.
Qed.

Lemma metadata_path_plain : Forall plain (lit gen_metadata_path).
Proof. unfold plain. vm_compute. repeat constructor; intro H; discriminate H. Qed.

Lemma rsplit_render_path : forall v id, wf_id id = true ->
  rsplit_slash (unbackslash (render_path v id)) = (Some (lit gen_metadata_path), render_name v id).
Proof.
  intros v id Hid. pose proof (render_plain v id Hid) as Hp. pose proof metadata_path_plain as Hm.
  unfold render_path. rewrite unbackslash_plain.
  2:{ apply Forall_app; split.
      - eapply Forall_impl; [|exact Hm]. intros c [_ H]; exact H.
      - constructor; [cbn; lia|]. eapply Forall_impl; [|exact Hp]. intros c [_ H]; exact H. }
  unfold rsplit_slash.
  replace (rev (lit gen_metadata_path ++ acp 47 :: render_name v id))
    with (rev (render_name v id) ++ acp 47 :: rev (lit gen_metadata_path)).
  2:{ rewrite rev_app_distr. cbn [rev]. rewrite <- app_assoc. reflexivity. }
  rewrite span_not_slash_app.
  - rewrite !rev_involutive. reflexivity.
  - apply Forall_forall. intros c Hc. rewrite <- in_rev in Hc. rewrite Forall_forall in Hp.
    destruct (Hp c Hc) as [H _]. exact H.
  - reflexivity.
Qed.

Lemma parent_ok_metadata : parent_ok (Some (lit gen_metadata_path)) = true.
Proof. reflexivity. Qed.

(* ------------------------------------------------------------------ recovery on rendered listings *)
Definition wf_file (f : mfile) : Prop := wf_id (fid f) = true /\ printable (fver f) = true.

(* _recover_version_from_files seen on files instead of paths *)
Fixpoint arec (fs : list mfile) (best : option mfile) : option mfile :=
  match fs with
  | [] => best
  | f :: r =>
    match best with
    | None => arec r (Some f)
    | Some b =>
      if fver b <? fver f then arec r (Some f)
      else if fver f =? fver b then (if (fmt b <? fmt f)%Z then arec r (Some f) else arec r best)
      else arec r best
    end
  end.

Definition res_of (b : option mfile) : option (N * list cp) := option_map (fun f => (fver f, fname f)) b.
Definition bm_of (b : option mfile) : Z := match b with Some f => fmt f | None => (-1)%Z end.

Lemma recover_loop_refines : forall fs best, Forall wf_file fs ->
  recover_loop (map entry_of fs) (res_of best) (bm_of best) = RRet (res_of (arec fs best)).
Proof.
  induction fs as [|f fs IH]; intros best Hwf; [reflexivity|].
  inversion Hwf as [|? ? [Hid Hpr] Hrest]; subst.
  cbn [map recover_loop entry_of epath].
  rewrite (rsplit_render_path _ _ Hid), parent_ok_metadata, (re_match_render _ _ Hid), (py_int_digits _ Hpr).
  change (mt (entry_of f)) with (fmt f).
  cbn [arec]. destruct best as [b|]; cbn [res_of option_map bm_of].
  - destruct (fver b <? fver f).
    + apply (IH (Some f) Hrest).
    + destruct (fver f =? fver b).
      * destruct (fmt b <? fmt f)%Z; [apply (IH (Some f) Hrest)|apply (IH (Some b) Hrest)].
      * apply (IH (Some b) Hrest).
  - apply (IH (Some f) Hrest).
Qed.

Lemma recover_refines : forall fs, Forall wf_file fs ->
  recover (map entry_of fs) = RRet (res_of (arec fs None)).
Proof. intros fs H. exact (recover_loop_refines fs None H). Qed.

Lemma arec_in : forall fs best r, arec fs best = Some r -> In r fs \/ best = Some r.
Proof.
  induction fs as [|f fs IH]; intros best r H; cbn [arec] in H; [right; exact H|].
  destruct best as [b|].
  - destruct (fver b <? fver f); [|destruct (fver f =? fver b); [destruct (fmt b <? fmt f)%Z|]];
      apply IH in H; destruct H as [H|H]; try (left; right; exact H); try (right; exact H);
      inversion H; subst; left; left; reflexivity.
  - apply IH in H. destruct H as [H|H]; [left; right; exact H|]. inversion H; subst. left; left; reflexivity.
Qed.

Lemma arec_some : forall fs best, (fs <> [] \/ best <> None) -> arec fs best <> None.
Proof.
  induction fs as [|f fs IH]; intros best H; cbn [arec].
  - destruct H as [H|H]; [contradiction|exact H].
  - destruct best as [b|].
    + destruct (fver b <? fver f); [|destruct (fver f =? fver b); [destruct (fmt b <? fmt f)%Z|]];
        apply IH; right; discriminate.
    + apply IH; right; discriminate.
Qed.

(* the result has the highest version *)
Lemma arec_max : forall fs best r, arec fs best = Some r ->
  (forall f, In f fs -> fver f <= fver r) /\ (forall b, best = Some b -> fver b <= fver r).
Proof.
  induction fs as [|f fs IH]; intros best r H; cbn [arec] in H.
  - split; [intros f []|]. intros b Hb. rewrite Hb in H. inversion H; subst. lia.
  - destruct best as [b|].
    + destruct (N.ltb_spec (fver b) (fver f)) as [L|L].
      * apply IH in H. destruct H as [H1 H2]. specialize (H2 f eq_refl). split.
        -- intros g [<-|Hg]; [exact H2|apply H1; exact Hg].
        -- intros b' Hb'. inversion Hb'; subst. lia.
      * destruct (N.eqb_spec (fver f) (fver b)) as [E|E].
        -- destruct (fmt b <? fmt f)%Z; apply IH in H; destruct H as [H1 H2]; specialize (H2 _ eq_refl); split;
             try (intros g [<-|Hg]; [lia|apply H1; exact Hg]); intros b' Hb'; inversion Hb'; subst; lia.
        -- apply IH in H. destruct H as [H1 H2]. specialize (H2 _ eq_refl). split.
           ++ intros g [<-|Hg]; [lia|apply H1; exact Hg].
           ++ intros b' Hb'. inversion Hb'; subst. lia.
    + apply IH in H. destruct H as [H1 H2]. specialize (H2 f eq_refl). split.
      * intros g [<-|Hg]; [exact H2|apply H1; exact Hg].
      * intros b' Hb'. discriminate Hb'.
Qed.

Lemma mfile_eq_dec : forall a b : mfile, {a = b} + {a <> b}.
Proof.
  decide equality; try apply N.eq_dec; try apply Z.eq_dec; try apply bool_dec;
    apply (list_eq_dec N.eq_dec).
Qed.

(* a file with the strictly highest version is what recovery returns, whatever the listing order and mtimes *)
Lemma arec_unique_max : forall fs L, In L fs -> (forall f, In f fs -> f <> L -> fver f < fver L) ->
  arec fs None = Some L.
Proof.
  intros fs L HL Hmax. destruct (arec fs None) as [r|] eqn:E.
  - destruct (arec_max _ _ _ E) as [H1 _]. apply arec_in in E. destruct E as [E|E]; [|discriminate E].
    destruct (mfile_eq_dec r L) as [->|D]; [reflexivity|].
    specialize (H1 L HL). specialize (Hmax r E D). lia.
  - exfalso. apply (arec_some fs None); [left; intro; subst; contradiction|exact E].
Qed.

(* ------------------------------------------------------------------ names of stored files *)
Lemma path_eq_name : forall v id name,
  codes_eqb (codes (render_path v id)) (meta_path_of name) = name_eqb (render_name v id) name.
Proof.
  intros. unfold render_path, meta_path_of, name_eqb.
  rewrite codes_app, codes_lit. cbn [codes map app code acp].
  rewrite codes_eqb_app_l. cbn [codes_eqb]. rewrite N.eqb_refl. reflexivity.
Qed.

Lemma exists_meta_files : forall name fs,
  exists_meta name (map entry_of fs) = existsb (fun f => name_eqb (fname f) name) fs.
Proof.
  intros name fs. unfold exists_meta. induction fs as [|f fs IH]; [reflexivity|].
  cbn [map existsb entry_of epath]. rewrite path_eq_name, IH. reflexivity.
Qed.

(* every character of a rendered name is `acp code`: equal codes give equal characters *)
Lemma render_acp : forall v id, render_name v id = map acp (codes (render_name v id)).
Proof.
  intros v id. unfold codes, render_name, lit, digit_cp, hex_cp.
  cbn [map]. rewrite !map_app. cbn [map]. rewrite !map_app, !map_map. reflexivity.
Qed.

Lemma render_codes_inj : forall v id v' id', codes (render_name v id) = codes (render_name v' id') ->
  render_name v id = render_name v' id'.
Proof. intros v id v' id' H. rewrite (render_acp v id), (render_acp v' id'), H. reflexivity. Qed.

(* a rendered name determines its version *)
Lemma name_eq_version : forall f g, wf_file f -> wf_file g -> name_eqb (fname f) (fname g) = true -> fver f = fver g.
Proof.
  intros f g [Hf Pf] [Hg Pg] H. apply name_eqb_codes in H.
  assert (E : fname f = fname g) by (apply render_codes_inj; exact H).
  pose proof (re_match_render (fver f) (fid f) Hf) as Mf.
  pose proof (re_match_render (fver g) (fid g) Hg) as Mg.
  unfold fname in E. rewrite E in Mf. rewrite Mf in Mg. inversion Mg as [Hd].
  pose proof (py_int_digits _ Pf) as If. pose proof (py_int_digits _ Pg) as Ig.
  rewrite Hd in If. rewrite If in Ig. inversion Ig. reflexivity.
Qed.

Lemma find_file_some : forall name fs f, find_file name fs = Some f -> In f fs /\ name_eqb (fname f) name = true.
Proof. intros name fs f H. unfold find_file in H. apply find_some in H. exact H. Qed.

Lemma find_file_exists : forall name fs g, In g fs -> name_eqb (fname g) name = true -> exists f, find_file name fs = Some f.
Proof.
  intros name fs g Hg Hn. unfold find_file. destruct (find _ fs) as [f|] eqn:E; [eauto|].
  exfalso. pose proof (find_none _ _ E g Hg) as H. cbv beta in H. rewrite Hn in H. discriminate.
Qed.

Lemma name_eqb_trans_l : forall a b c, codes a = codes b -> name_eqb a c = name_eqb b c.
Proof. intros a b c H. unfold name_eqb. rewrite H. reflexivity. Qed.

(* ------------------------------------------------------------------ resolution *)
Lemma read_hint_total : forall p, exists r, read_hint p = PRet r.
Proof. intros [d|]; [apply parse_total|eexists; reflexivity]. Qed.

(* p, if it names an existing file of fs, names L (and parses to L's version) *)
Definition fresh_for (p : option (option (list cp))) (fs : list mfile) (L : mfile) : Prop :=
  match read_hint p with
  | PRet (Some (v, name)) => forall f, In f fs -> name_eqb (fname f) name = true -> f = L /\ v = fver f
  | _ => True
  end.

Lemma resolve_latest : forall fs L p,
  Forall wf_file fs -> In L fs -> (forall f, In f fs -> f <> L -> fver f < fver L) -> fresh_for p fs L ->
  exists name, resolve p (map entry_of fs) = RRet (Some (fver L, name)) /\ codes name = codes (fname L).
Proof.
  intros fs L p Hwf HL Hmax Hfresh. unfold resolve, fresh_for in *.
  assert (R : recover (map entry_of fs) = RRet (Some (fver L, fname L))).
  { rewrite (recover_refines fs Hwf), (arec_unique_max fs L HL Hmax). reflexivity. }
  destruct (read_hint_total p) as [r Hr]. rewrite Hr in *. destruct r as [[v name]|].
  - rewrite exists_meta_files. destruct (existsb _ fs) eqn:E.
    + apply existsb_exists in E. destruct E as [f [Hf Hn]]. destruct (Hfresh f Hf Hn) as [-> ->].
      exists name. split; [reflexivity|]. symmetry. apply name_eqb_codes. exact Hn.
    + exists (fname L). split; [exact R|reflexivity].
  - exists (fname L). split; [exact R|reflexivity].
Qed.

Lemma refresh_latest : forall fs L p,
  Forall wf_file fs -> In L fs -> (forall f, In f fs -> f <> L -> fver f < fver L) -> fresh_for p fs L ->
  refresh_of p fs = RfMeta (fver L) L.
Proof.
  intros fs L p Hwf HL Hmax Hfresh. unfold refresh_of.
  destruct (resolve_latest fs L p Hwf HL Hmax Hfresh) as [name [-> Hc]].
  assert (HnL : name_eqb (fname L) name = true) by (apply name_eqb_codes; symmetry; exact Hc).
  destruct (find_file_exists name fs L HL HnL) as [f Hf]. rewrite Hf.
  apply find_file_some in Hf. destruct Hf as [Hin Hn].
  destruct (mfile_eq_dec f L) as [->|D]; [reflexivity|]. exfalso.
  rewrite Forall_forall in Hwf.
  assert (E : fver f = fver L).
  { apply name_eq_version; [apply Hwf; exact Hin|apply Hwf; exact HL|].
    unfold name_eqb. apply codes_eqb_eq. apply name_eqb_codes in Hn. rewrite Hn. exact Hc. }
  specialize (Hmax f Hin D). lia.
Qed.

Lemma refresh_empty : forall p, refresh_of p [] = RfNone.
Proof.
  intro p. unfold refresh_of, resolve. destruct (read_hint_total p) as [r ->].
  destruct r as [[v name]|]; reflexivity.
Qed.

(* with any metadata file present, resolution finds a file: never "no table" *)
Lemma refresh_nonempty : forall fs p, Forall wf_file fs -> fs <> [] -> refresh_of p fs <> RfNone.
Proof.
  intros fs p Hwf Hne. unfold refresh_of, resolve.
  destruct (read_hint_total p) as [r ->].
  assert (R : exists b, In b fs /\ recover (map entry_of fs) = RRet (Some (fver b, fname b))).
  { rewrite (recover_refines fs Hwf). destruct (arec fs None) as [b|] eqn:E.
    - exists b. split; [|reflexivity]. apply arec_in in E. destruct E as [E|E]; [exact E|discriminate E].
    - exfalso. apply (arec_some fs None); [left; exact Hne|exact E]. }
  destruct R as [b [Hb R]].
  assert (F : forall v, match find_file (fname b) fs with Some f => RfMeta v f | None => RfRaise end <> RfNone).
  { intro v. destruct (find_file (fname b) fs); discriminate. }
  destruct r as [[v name]|].
  - destruct (exists_meta name (map entry_of fs)).
    + destruct (find_file name fs); discriminate.
    + rewrite R. apply F.
  - rewrite R. apply F.
Qed.

(* ------------------------------------------------------------------ "not stale" without versions *)
Lemma lstrip_in : forall l c, In c (lstrip l) -> In c l.
Proof.
  induction l as [|x l IH]; intros c H; [exact H|]. cbn [lstrip] in H.
  destruct (sp x); [right; apply IH; exact H|exact H].
Qed.

Lemma strip_in : forall l c, In c (strip l) -> In c l.
Proof.
  intros l c H. unfold strip, rstrip in H. rewrite <- in_rev in H. apply lstrip_in in H.
  rewrite <- in_rev in H. apply lstrip_in in H. exact H.
Qed.

Lemma acp_list : forall T, (forall c, In c T -> c = acp (code c)) -> T = map acp (codes T).
Proof.
  induction T as [|x T IH]; intro H; [reflexivity|]. cbn [codes map]. f_equal.
  - apply H. left. reflexivity.
  - apply IH. intros c Hc. apply H. right. exact Hc.
Qed.

Lemma render_ascii : forall v id, wf_id id = true -> Forall (fun n => n < 128) (codes (render_name v id)).
Proof.
  intros v id Hid. destruct (wf_id_spec id Hid) as [_ Hh]. unfold render_name, codes.
  cbn [map]. constructor; [cbn [code acp]; lia|]. rewrite map_app. apply Forall_app; split.
  - rewrite map_map. apply Forall_forall. intros n Hn. apply in_map_iff in Hn. destruct Hn as [d [<- Hd]].
    pose proof (digits_lt10 v) as F. rewrite Forall_forall in F. specialize (F d Hd). unfold digit_cp, acp; cbn [code]. lia.
  - cbn [map]. constructor; [cbn [code acp]; lia|]. rewrite map_app. apply Forall_app; split.
    + rewrite map_map. apply Forall_forall. intros n Hn. apply in_map_iff in Hn. destruct Hn as [h [<- Hd]].
      rewrite Forall_forall in Hh. specialize (Hh h Hd). unfold hex_cp, acp; cbn [code].
      destruct (N.ltb_spec h 10); lia.
    + vm_compute. repeat constructor.
Qed.

Lemma in_codes : forall T n, In n (codes T) -> exists c, In c T /\ code c = n.
Proof. intros T n H. unfold codes in H. apply in_map_iff in H. destruct H as [c [E Hc]]. eauto. Qed.

(* the version parsed from a pointer that names an existing file is that file's version *)
Lemma version_of_hinted : forall text v name f,
  (forall c, In c text -> code c < 128 -> c = acp (code c)) -> wf_file f ->
  parse_hint (Some text) = PRet (Some (v, name)) -> name_eqb (fname f) name = true -> v = fver f.
Proof.
  intros text v name f Hcl [Hid Hpr] Hp Hn. apply name_eqb_codes in Hn.
  unfold parse_hint, gen_parse_hint in Hp. set (T := strip text) in *.
  assert (HT : forall c, In c T -> code c < 128 -> c = acp (code c)).
  { intros c Hc. apply Hcl. apply strip_in. exact Hc. }
  destruct (is_empty T); [discriminate Hp|].
  destruct (py_isdigit T) eqn:D.
  - (* legacy form: v<digits>.metadata.json has no '-': it cannot be the name of f *)
    exfalso. destruct (py_int T); [|discriminate Hp]. inversion Hp; subst v name. clear Hp.
    assert (Hn2 : codes (fname f) = 118 :: codes T ++ suffix_codes).
    { rewrite Hn. unfold codes. cbn [map app]. rewrite map_app. reflexivity. }
    assert (Hn3 : codes (fname f)
                  = 118 :: (codes (map digit_cp (digits_of (fver f))) ++ 45 :: codes (map hex_cp (fid f))) ++ suffix_codes).
    { unfold fname, render_name, codes. cbn [map]. rewrite map_app. cbn [map]. rewrite map_app.
      rewrite <- app_assoc. cbn [app]. reflexivity. }
    rewrite Hn3 in Hn2. inversion Hn2 as [Hn']. apply app_inv_tail in Hn'.
    assert (H45 : In 45 (codes T)) by (rewrite <- Hn'; apply in_app_iff; right; left; reflexivity).
    clear Hn2 Hn3 Hn'.
    apply in_codes in H45. destruct H45 as [c [Hc Ec]].
    assert (Ec' : c = acp 45) by (rewrite <- Ec; apply HT; [exact Hc|lia]).
    unfold py_isdigit in D. apply andb_prop in D. destruct D as [_ D]. rewrite forallb_forall in D.
    specialize (D c Hc). rewrite Ec' in D. discriminate D.
  - (* current form *)
    cbv zeta in Hp. destruct (re_match T) as [g|] eqn:M; [|discriminate Hp].
    destruct (py_int g) as [n|] eqn:I; [|discriminate Hp]. inversion Hp; subst n name. clear Hp.
    assert (E : T = fname f).
    { rewrite (acp_list T).
      - rewrite <- Hn. unfold fname. symmetry. apply render_acp.
      - intros c Hc. apply HT; [exact Hc|].
        pose proof (render_ascii (fver f) (fid f) Hid) as A. rewrite Forall_forall in A. apply A.
        unfold fname in Hn. rewrite Hn. unfold codes. apply in_map. exact Hc. }
    rewrite E in M. unfold fname in M. rewrite (re_match_render _ _ Hid) in M. inversion M; subst g.
    rewrite (py_int_digits _ Hpr) in I. inversion I. reflexivity.
Qed.

Lemma not_stale_of_classified : forall p st,
  Forall wf_file (files st) -> ascii_classified p -> ~ stale p st -> not_stale p st.
Proof.
  intros p st Hwf Hcl Hns. unfold not_stale. destruct (read_hint p) as [|[[v name]|]] eqn:R; auto.
  intros f Hf Hn. split.
  - destruct (glatest st) as [L|] eqn:EL.
    + destruct (mfile_eq_dec L f) as [->|D]; [reflexivity|]. exfalso. apply Hns.
      exists v, name, f. repeat split; auto. rewrite EL. intro H. inversion H. contradiction.
    + exfalso. apply Hns. exists v, name, f. repeat split; auto. rewrite EL. discriminate.
  - destruct p as [[text|]|]; cbn [read_hint] in R; try (unfold parse_hint, gen_parse_hint in R; discriminate R).
    rewrite Forall_forall in Hwf. eapply version_of_hinted; eauto.
Qed.

(* ------------------------------------------------------------------ the machine's invariant *)
Lemma insert_at_in : forall A (x y : A) pos l, In x (insert_at pos y l) <-> x = y \/ In x l.
Proof.
  intros A x y pos l. unfold insert_at. rewrite in_app_iff. cbn [In].
  assert (H : In x l <-> In x (firstn pos l) \/ In x (skipn pos l)).
  { rewrite <- in_app_iff, firstn_skipn. reflexivity. }
  rewrite H. intuition.
Qed.

Lemma insert_at_forall : forall A (P : A -> Prop) y pos l, P y -> Forall P l -> Forall P (insert_at pos y l).
Proof.
  intros A P y pos l Hy Hl. apply Forall_forall. intros x Hx. apply insert_at_in in Hx.
  destruct Hx as [->|Hx]; [exact Hy|]. rewrite Forall_forall in Hl. auto.
Qed.

Record Inv (st : store) : Prop := {
  inv_wf : Forall wf_file (files st);
  inv_com : forall f, In f (files st) -> fcom f = true;
  inv_latest : match glatest st with
               | None => files st = [] /\ gacked st = []
               | Some L => In L (files st)
                           /\ (forall f, In f (files st) -> f <> L -> fver f < fver L)
                           /\ fsnaps L = gacked st
                           /\ (forall f, In f (files st) -> fuuid f = fuuid L)
               end;
  inv_ptr : not_stale (ptr st) st }.

Lemma not_stale_fresh : forall p st L, glatest st = Some L -> not_stale p st -> fresh_for p (files st) L.
Proof.
  intros p st L HL H. unfold not_stale, fresh_for in *. destruct (read_hint p) as [|[[v name]|]]; auto.
  intros f Hf Hn. destruct (H f Hf Hn) as [H1 H2]. rewrite HL in H1. inversion H1. auto.
Qed.

Lemma inv_empty : Inv empty_store.
Proof. constructor; cbn; auto. Qed.

Lemma printable_0 : printable 0 = true.
Proof. reflexivity. Qed.

(* publishing a file whose version exceeds every stored version *)
Lemma publish_inv : forall st f pos o acked,
  Inv st -> wf_file f -> clean_outcome o ->
  (forall g, In g (files st) -> fver g < fver f) ->
  fsnaps f = acked ->
  (forall g, In g (files st) -> fuuid g = fuuid f) ->
  (o <> Ok -> True) ->
  Inv (publish st f pos o acked).
Proof.
  intros st f pos o acked HI [Hid Hpr] Hclean Hmax Hsn Hu _.
  destruct o as [| |[|]]; cbn [publish]; try exact HI; [|exfalso; apply Hclean; reflexivity].
  set (f' := published f).
  assert (Hwf' : wf_file f') by (split; assumption).
  constructor; cbn [files glatest gacked ptr].
  - apply insert_at_forall; [exact Hwf'|apply (inv_wf _ HI)].
  - intros g Hg. apply insert_at_in in Hg. destruct Hg as [->|Hg]; [reflexivity|apply (inv_com _ HI); exact Hg].
  - split; [apply insert_at_in; left; reflexivity|]. split; [|split].
    + intros g Hg D. apply insert_at_in in Hg. destruct Hg as [->|Hg]; [contradiction|apply Hmax; exact Hg].
    + exact Hsn.
    + intros g Hg. apply insert_at_in in Hg. destruct Hg as [->|Hg]; [reflexivity|apply Hu; exact Hg].
  - unfold not_stale. cbn [read_hint files glatest]. unfold fname at 1. rewrite (parse_write _ _ Hpr Hid).
    intros g Hg Hn. apply insert_at_in in Hg. destruct Hg as [->|Hg]; [split; reflexivity|]. exfalso.
    assert (E : fver g = fver f').
    { apply name_eq_version; [|exact Hwf'|exact Hn]. pose proof (inv_wf _ HI) as W. rewrite Forall_forall in W. auto. }
    specialize (Hmax g Hg). cbn in E. lia.
Qed.

Lemma step_inv : forall st e, Inv st -> ok_event st e -> Inv (step st e).
Proof.
  intros st e HI Hok. pose proof (inv_latest _ HI) as HL.
  destruct e as [id t pos uuid o|id t pos sid o|p]; cbn [step ok_event] in *.
  - (* create *)
    destruct Hok as [Hid Hclean]. unfold refresh. destruct (glatest st) as [L|] eqn:EL.
    + destruct HL as [HLin [Hmax _]].
      rewrite (refresh_latest _ L (ptr st) (inv_wf _ HI) HLin Hmax (not_stale_fresh _ _ _ EL (inv_ptr _ HI))).
      exact HI.
    + destruct HL as [Hnil Hack]. rewrite Hnil, refresh_empty.
      apply publish_inv; auto.
      * split; [exact Hid|exact printable_0].
      * rewrite Hnil. intros g [].
      * rewrite Hnil. intros g [].
  - (* commit *)
    destruct Hok as [Hid Hclean]. unfold refresh. destruct (glatest st) as [L|] eqn:EL.
    + destruct HL as [HLin [Hmax [Hsn Hu]]].
      rewrite (refresh_latest _ L (ptr st) (inv_wf _ HI) HLin Hmax (not_stale_fresh _ _ _ EL (inv_ptr _ HI))).
      destruct (printable (fver L + 1)) eqn:Hp; [|exact HI].
      apply publish_inv; auto.
      * split; assumption.
      * cbn [fver]. intros g Hg. destruct (mfile_eq_dec g L) as [->|D]; [lia|]. specialize (Hmax g Hg D). lia.
      * cbn [fsnaps]. rewrite Hsn. reflexivity.
    + destruct HL as [Hnil _]. rewrite Hnil, refresh_empty. exact HI.
  - (* damage *)
    destruct Hok as [Hcl Hns].
    constructor; cbn [files glatest gacked ptr]; try apply HI.
    exact (not_stale_of_classified p st (inv_wf _ HI) Hcl Hns).
Qed.

Lemma run_inv : forall h st, Inv st -> ok_history st h -> Inv (run st h).
Proof.
  induction h as [|e h IH]; intros st HI Hok; [exact HI|].
  destruct Hok as [He Hh]. cbn [run fold_left]. apply IH; [apply step_inv; assumption|exact Hh].
Qed.

(* ------------------------------------------------------------------ the theorems of Props/C10.v *)
Lemma reachable_inv : forall st, reachable_clean st -> Inv st.
Proof. intros st [h [Hok ->]]. apply run_inv; [exact inv_empty|exact Hok]. Qed.

Lemma perm_hyps : forall (l fs : list mfile) L, Permutation l fs ->
  Forall wf_file fs -> In L fs -> (forall f, In f fs -> f <> L -> fver f < fver L) ->
  Forall wf_file l /\ In L l /\ (forall f, In f l -> f <> L -> fver f < fver L).
Proof.
  intros l fs L HP Hwf HL Hmax. split; [|split].
  - apply Forall_forall. intros f Hf. rewrite Forall_forall in Hwf. apply Hwf. eapply Permutation_in; eauto.
  - eapply Permutation_in; [apply Permutation_sym; exact HP|exact HL].
  - intros f Hf D. apply Hmax; [eapply Permutation_in; eauto|exact D].
Qed.

Lemma fresh_for_perm : forall p l fs L, Permutation l fs -> fresh_for p fs L -> fresh_for p l L.
Proof.
  intros p l fs L HP H. unfold fresh_for in *. destruct (read_hint p) as [|[[v name]|]]; auto.
  intros f Hf. apply H. eapply Permutation_in; eauto.
Qed.

Theorem resolve_reachable : forall st L p l,
  reachable_clean st -> glatest st = Some L -> ascii_classified p -> ~ stale p st -> Permutation l (files st) ->
  (exists name, resolve p (map entry_of l) = RRet (Some (fver L, name)) /\ codes name = codes (fname L))
  /\ refresh_of p l = RfMeta (fver L) L
  /\ In L (files st) /\ fcom L = true /\ fsnaps L = gacked st.
Proof.
  intros st L p l HR EL Hcl Hst HP. pose proof (reachable_inv _ HR) as HI.
  pose proof (not_stale_of_classified p st (inv_wf _ HI) Hcl Hst) as Hns.
  pose proof (inv_latest _ HI) as HL. rewrite EL in HL. destruct HL as [HLin [Hmax [Hsn _]]].
  destruct (perm_hyps l (files st) L HP (inv_wf _ HI) HLin Hmax) as [Hwf' [HL' Hmax']].
  pose proof (fresh_for_perm p l _ L HP (not_stale_fresh p st L EL Hns)) as Hf.
  split; [apply resolve_latest; assumption|].
  split; [apply refresh_latest; assumption|].
  split; [exact HLin|]. split; [apply (inv_com _ HI); exact HLin|exact Hsn].
Qed.

(* whatever the pointer says -- stale contents included -- resolution only ever yields a published file *)
Theorem never_uncommitted : forall st p l v name,
  reachable_clean st -> Permutation l (files st) ->
  resolve p (map entry_of l) = RRet (Some (v, name)) ->
  exists f, In f (files st) /\ name_eqb (fname f) name = true /\ fcom f = true.
Proof.
  intros st p l v name HR HP H. pose proof (reachable_inv _ HR) as HI.
  assert (Hwf : Forall wf_file l).
  { apply Forall_forall. intros f Hf. pose proof (inv_wf _ HI) as W. rewrite Forall_forall in W. apply W.
    eapply Permutation_in; eauto. }
  unfold resolve in H. destruct (read_hint_total p) as [r Hr]. rewrite Hr in H.
  assert (R : recover (map entry_of l) = RRet (Some (v, name)) ->
              exists f, In f (files st) /\ name_eqb (fname f) name = true /\ fcom f = true).
  { intro R. rewrite (recover_refines l Hwf) in R. destruct (arec l None) as [b|] eqn:E; [|discriminate R].
    cbn in R. inversion R; subst. apply arec_in in E. destruct E as [E|E]; [|discriminate E].
    exists b. assert (In b (files st)) by (eapply Permutation_in; eauto).
    split; [assumption|]. split; [apply name_eqb_refl|apply (inv_com _ HI); assumption]. }
  destruct r as [[v' name']|]; [|apply R; exact H].
  rewrite exists_meta_files in H. destruct (existsb _ l) eqn:E; [|apply R; exact H].
  inversion H; subst. apply existsb_exists in E. destruct E as [f [Hf Hn]].
  exists f. assert (In f (files st)) by (eapply Permutation_in; eauto).
  split; [assumption|]. split; [exact Hn|apply (inv_com _ HI); assumption].
Qed.

(* creating over any store that holds a metadata file changes nothing, for EVERY pointer content *)
Theorem no_reinit : forall p fs gl ga id t pos uuid o,
  Forall wf_file fs -> fs <> [] ->
  step {| ptr := p; files := fs; glatest := gl; gacked := ga |} (ECreate id t pos uuid o)
  = {| ptr := p; files := fs; glatest := gl; gacked := ga |}.
Proof.
  intros p fs gl ga id t pos uuid o Hwf Hne. cbn [step]. unfold refresh. cbn [ptr files].
  pose proof (refresh_nonempty fs p Hwf Hne) as H. destruct (refresh_of p fs); [reflexivity|contradiction|reflexivity].
Qed.

(* ... in particular over every reachable_clean store with a committed version *)
Theorem no_reinit_reachable : forall st p id t pos uuid o,
  reachable_clean st -> files st <> [] ->
  let st' := step (step st (EDamage p)) (ECreate id t pos uuid o) in
  files st' = files st /\ glatest st' = glatest st /\ gacked st' = gacked st /\ ptr st' = p.
Proof.
  intros st p id t pos uuid o HR Hne. pose proof (reachable_inv _ HR) as HI. cbn [step].
  unfold refresh. cbn [ptr files].
  pose proof (refresh_nonempty (files st) p (inv_wf _ HI) Hne) as H.
  destruct (refresh_of p (files st)); [|contradiction|]; cbn; auto.
Qed.

Lemma ok_history_app : forall h1 h2 s, ok_history s (h1 ++ h2) <-> ok_history s h1 /\ ok_history (run s h1) h2.
Proof.
  induction h1 as [|e h1 IH]; intros h2 s; cbn [app ok_history run fold_left].
  - tauto.
  - rewrite IH. unfold run. tauto.
Qed.

Lemma reachable_extend : forall st h, reachable_clean st -> ok_history st h -> reachable_clean (run st h).
Proof.
  intros st h [h0 [Hok ->]] Hh. exists (h0 ++ h). split.
  - apply ok_history_app. split; assumption.
  - unfold run. rewrite fold_left_app. reflexivity.
Qed.

(* after any non-stale damage the table stays writable and a commit extends exactly the acknowledged history *)
Theorem usable_after_damage : forall st L p id t pos sid,
  reachable_clean st -> glatest st = Some L -> ascii_classified p -> ~ stale p st -> wf_id id = true -> printable (fver L + 1) = true ->
  let st' := run st [EDamage p; ECommit id t pos sid Ok] in
  reachable_clean st'
  /\ exists L', glatest st' = Some L' /\ fver L' = fver L + 1 /\ fsnaps L' = gacked st ++ [sid]
               /\ gacked st' = gacked st ++ [sid] /\ fuuid L' = fuuid L
               /\ ptr st' = Some (Some (fname L')) /\ In L' (files st') /\ fcom L' = true.
Proof.
  intros st L p id t pos sid HR EL Hcl Hst Hid Hp st'.
  pose proof (not_stale_of_classified p st (inv_wf _ (reachable_inv _ HR)) Hcl Hst) as Hns.
  split.
  - apply reachable_extend; [exact HR|]. cbn [ok_history ok_event]. split; [split; assumption|]. split; [|exact I].
    split; [exact Hid|discriminate].
  - pose proof (reachable_inv _ HR) as HI. pose proof (inv_latest _ HI) as HL. rewrite EL in HL.
    destruct HL as [HLin [Hmax [Hsn _]]].
    unfold st'. cbn [run fold_left step]. unfold refresh. cbn [ptr files].
    rewrite (refresh_latest _ L p (inv_wf _ HI) HLin Hmax (not_stale_fresh _ _ _ EL Hns)).
    rewrite Hp. cbn [publish glatest gacked ptr files].
    eexists. split; [reflexivity|]. cbn [published fver fsnaps fuuid fcom fname fid].
    rewrite Hsn. repeat split; try reflexivity. apply insert_at_in. left. reflexivity.
Qed.


(* ------------------------------------------------------------------ what does NOT hold (witnesses) *)
Lemma lit_classified : forall l c, In c (lit l) -> c = acp (code c).
Proof. intros l c H. unfold lit in H. apply in_map_iff in H. destruct H as [n [<- _]]. reflexivity. Qed.

Lemma rendered_pointer_classified : forall v id, ascii_classified (Some (Some (render_name v id))).
Proof.
  intros v id c Hc _. rewrite render_acp in Hc. apply (lit_classified (codes (render_name v id))). exact Hc.
Qed.

Definition wid (n : N) : list N := [n; n; n; n; n; n; n; n].

(* three successful operations, then the pointer is put back to the name of version 1 *)
Definition stale_history : list event :=
  [ECreate (wid 0) 10 0 77 Ok; ECommit (wid 1) 20 0 101 Ok; ECommit (wid 2) 30 0 102 Ok].
Definition stale_pointer : option (option (list cp)) := Some (Some (render_name 1 (wid 1))).

Lemma stale_history_ok : ok_history empty_store stale_history.
Proof. cbn. repeat split; try reflexivity; discriminate. Qed.

Lemma stale_witness :
  let st := run empty_store stale_history in
  exists L, glatest st = Some L /\ fver L = 2 /\ gacked st = [101; 102]
            /\ resolve stale_pointer (listing st) = RRet (Some (1, render_name 1 (wid 1))).
Proof. vm_compute. eexists. repeat split. Qed.

(* a failed commit whose metadata file could not be removed, then the pointer is lost *)
Definition dirty_history : list event :=
  [ECreate (wid 0) 10 0 77 Ok; ECommit (wid 1) 20 0 101 Ok; ECommit (wid 2) 30 0 102 (FailCommitPoint false)].

Lemma dirty_witness :
  let st := run empty_store dirty_history in
  Forall any_event_wf dirty_history
  /\ gacked st = [101]
  /\ exists f, In f (files st) /\ fcom f = false /\ fsnaps f = [101; 102]
               /\ resolve None (listing st) = RRet (Some (fver f, fname f)).
Proof.
  split; [repeat constructor|]. vm_compute. split; [reflexivity|].
  eexists. split; [left; reflexivity|]. repeat split.
Qed.

Definition resolve_full : Prop := forall st L p l,
  reachable_clean st -> glatest st = Some L -> ascii_classified p -> Permutation l (files st) ->
  exists name, resolve p (map entry_of l) = RRet (Some (fver L, name)) /\ codes name = codes (fname L).

Theorem resolve_full_refuted : ~ resolve_full.
Proof.
  intro H. destruct stale_witness as [L [EL [Hv [_ Hr]]]].
  assert (HR : reachable_clean (run empty_store stale_history)).
  { exists stale_history. split; [exact stale_history_ok|reflexivity]. }
  destruct (H _ L stale_pointer _ HR EL (rendered_pointer_classified 1 (wid 1)) (Permutation_refl _)) as [name [Hn _]].
  unfold listing in Hr. rewrite Hr in Hn. inversion Hn as [[Hver Hname]]. rewrite Hv in Hver. discriminate Hver.
Qed.

Theorem unremoved_orphan_surfaces :
  exists h, Forall any_event_wf h /\
    let st := run empty_store h in
    exists f, In f (files st) /\ fcom f = false /\ resolve None (listing st) = RRet (Some (fver f, fname f)).
Proof.
  exists dirty_history. destruct dirty_witness as [Hwf [_ [f [Hin [Hc [_ Hr]]]]]].
  split; [exact Hwf|]. exists f. auto.
Qed.

(* ------------------------------------------------------------------ ties: same version, older mtime never wins *)
Lemma arec_below : forall fs best L,
  (forall f, In f fs -> f = L \/ below f L) ->
  (best = None \/ best = Some L \/ exists b, best = Some b /\ below b L) ->
  (In L fs \/ best = Some L) ->
  arec fs best = Some L.
Proof.
  induction fs as [|f fs IH]; intros best L Hfs Hb HL; cbn [arec].
  - destruct HL as [[]|HL]. exact HL.
  - assert (Hfs' : forall g, In g fs -> g = L \/ below g L) by (intros g Hg; apply Hfs; right; exact Hg).
    destruct (Hfs f (or_introl eq_refl)) as [->|Hf].
    + (* the listed file is L itself *)
      assert (K : arec fs (Some L) = Some L) by (apply IH; [exact Hfs'|right; left; reflexivity|right; reflexivity]).
      destruct Hb as [->|[->|[b [-> Hbl]]]].
      * exact K.
      * rewrite N.ltb_irrefl, N.eqb_refl, Z.ltb_irrefl. exact K.
      * destruct Hbl as [Hlt|[Heq Hmt]].
        -- replace (fver b <? fver L) with true by lia. exact K.
        -- replace (fver b <? fver L) with false by lia. replace (fver L =? fver b) with true by lia.
           replace (fmt b <? fmt L)%Z with true by lia. exact K.
    + (* a file ranking below L *)
      assert (HL' : In L fs \/ best = Some L).
      { destruct HL as [[->|HL]|HL]; auto. exfalso. unfold below in Hf. lia. }
      destruct Hb as [->|[->|[b [-> Hbl]]]].
      * assert (HinL : In L fs) by (destruct HL' as [H|H]; [exact H|discriminate H]).
        apply IH; [exact Hfs'|right; right; exists f; auto|left; exact HinL].
      * assert (K : arec fs (Some L) = Some L) by (apply IH; [exact Hfs'|right; left; reflexivity|right; reflexivity]).
        destruct Hf as [Hlt|[Heq Hmt]].
        -- replace (fver L <? fver f) with false by lia. replace (fver f =? fver L) with false by lia. exact K.
        -- replace (fver L <? fver f) with false by lia. replace (fver f =? fver L) with true by lia.
           replace (fmt L <? fmt f)%Z with false by lia. exact K.
      * assert (HinL : In L fs).
        { destruct HL' as [H|H]; [exact H|]. inversion H; subst. exfalso. unfold below in Hbl. lia. }
        assert (Kf : arec fs (Some f) = Some L) by (apply IH; [exact Hfs'|right; right; exists f; auto|left; exact HinL]).
        assert (Kb : arec fs (Some b) = Some L) by (apply IH; [exact Hfs'|right; right; exists b; auto|left; exact HinL]).
        destruct (fver b <? fver f); [exact Kf|].
        destruct (fver f =? fver b); [destruct (fmt b <? fmt f)%Z; [exact Kf|exact Kb]|exact Kb].
Qed.

(* With the pointer lost or unparseable, recovery picks the published file L whenever every other file has a lower
   version or the same version and a strictly older mtime -- whatever the listing order. *)
Theorem tiebreak : forall fs L p,
  Forall wf_file fs -> In L fs -> (forall f, In f fs -> f <> L -> below f L) -> read_hint p = PRet None ->
  resolve p (map entry_of fs) = RRet (Some (fver L, fname L)).
Proof.
  intros fs L p Hwf HL Hb Hp. unfold resolve. rewrite Hp. rewrite (recover_refines fs Hwf).
  rewrite (arec_below fs None L); auto.
  intros f Hf. destruct (mfile_eq_dec f L) as [->|D]; [left; reflexivity|right; apply Hb; assumption].
Qed.

(* ... and with an equal mtime the first one listed wins, so the guarantee stops there *)
Lemma tiebreak_equal_mtime_first_listed :
  let a := {| fver := 1; fid := wid 1; fmt := 5; fcom := true; fuuid := 7; fsnaps := [1] |} in
  let o := {| fver := 1; fid := wid 2; fmt := 5; fcom := false; fuuid := 7; fsnaps := [1; 2] |} in
  resolve None (map entry_of [o; a]) = RRet (Some (1, fname o)) /\ resolve None (map entry_of [a; o]) = RRet (Some (1, fname a)).
Proof. vm_compute. split; reflexivity. Qed.

(* ------------------------------------------------------------------ recovery orders versions as NUMBERS *)
(* Whatever recovery returns from a listing of rendered names is a listed file of the numerically highest version,
   however many decimal digits the versions have (names are compared through int(), never as strings). *)
Theorem recover_highest : forall fs v name,
  Forall wf_file fs -> recover (map entry_of fs) = RRet (Some (v, name)) ->
  exists r, In r fs /\ v = fver r /\ name = fname r /\ forall f, In f fs -> fver f <= fver r.
Proof.
  intros fs v name Hwf H. rewrite (recover_refines fs Hwf) in H.
  destruct (arec fs None) as [r|] eqn:E; [|discriminate H]. cbn in H. inversion H; subst.
  exists r. destruct (arec_max _ _ _ E) as [Hmax _]. apply arec_in in E. destruct E as [E|E]; [|discriminate E].
  repeat split; auto.
Qed.

(* nine versus ten: as decimal strings "9" sorts after "10"; recovery picks 10 in either listing order, whatever the mtimes *)
Lemma recover_nine_ten :
  let f9 := {| fver := 9; fid := wid 9; fmt := 50; fcom := true; fuuid := 7; fsnaps := [] |} in
  let f10 := {| fver := 10; fid := wid 1; fmt := 5; fcom := true; fuuid := 7; fsnaps := [] |} in
  resolve None (map entry_of [f9; f10]) = RRet (Some (10, fname f10))
  /\ resolve None (map entry_of [f10; f9]) = RRet (Some (10, fname f10)).
Proof. vm_compute. split; reflexivity. Qed.
