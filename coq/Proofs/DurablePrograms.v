(* Proofs/DurablePrograms.v -- Part B of C16: the library's programs follow the publish discipline.

   For every well-formed history `ops` (Durable.wf), trace_of ops is accepted by Durable.checks, and
   the ghost state it ends in knows every published file with its intended content.  Together with
   Part A (DurableProofs.v) this gives the ops-level theorems of Props/C16.v. *)
From Coq Require Import NArith List Bool Arith Lia.
Require Import DS.Model.Durable DS.Proofs.DurableProofs.
Import ListNotations.
Open Scope N_scope.

(* ---------------------------------------------------------------- one publish sequence on the ghost *)
Lemma publish_ok : forall g d n c,
  (forall t, tmps g t = None) ->
  forallb (ref_ok g) (refs c) = true ->
  (st g (P d n) = Fresh \/ (P d n = PTR /\ st g PTR <> Dead)) ->
  (forall q c0 b, st g q = Linked c0 b -> b = true) ->
  exists g', checks g (publish_meta (P d n) c) = Some g'
    /\ (forall t, tmps g' t = None)
    /\ st g' (P d n) = Linked c true
    /\ (forall x, x <> P d n -> st g' x = st g x)
    /\ (forall x, refd g' x = refd g x || existsb (path_eqb x) (refs c)).
Proof.
  intros g d n c Ht Hr Hq Hb.
  unfold publish_meta. cbn [tmp_of dir_of checks].
  cbn [check]. rewrite Ht. cbn [checks check tmps]. rewrite upd_t_same. cbn [checks check tmps app].
  rewrite upd_t_same. cbn [checks check tmps st refd]. rewrite upd_t_same.
  assert (Hr' : forall g1, st g1 = st g -> forallb (ref_ok g1) (refs c) = true).
  { intros g1 E. rewrite <- Hr. clear Hr. induction (refs c) as [|r l IH]; [reflexivity|]. simpl. rewrite IH. unfold ref_ok. now rewrite E. }
  rewrite Hr' by reflexivity. cbn [andb].
  assert (Hq' : match st g (P d n) with Fresh => true | Linked _ _ => path_eqb (P d n) PTR | Dead => false end = true).
  { destruct Hq as [->|[E Hd]]; [reflexivity|]. rewrite E in *. destruct (st g PTR); try reflexivity. congruence. }
  rewrite Hq'. cbn [checks check tmps st refd].
  eexists. split; [reflexivity|]. cbn [tmps st refd]. repeat split.
  - intro t. unfold upd_t. destruct (path_eqb t (T d n)); auto.
  - rewrite N.eqb_refl. now rewrite upd_s_same.
  - intros x Hx. rewrite upd_s_other by auto. destruct (dir_of x =? d); auto.
    destruct (st g x) as [|c0 b|] eqn:E; auto. now rewrite (Hb _ _ _ E).
Qed.

(* ---------------------------------------------------------------- the ghost between publishes *)
Lemma path_eq_dec : forall a b : path, {a = b} + {a <> b}.
Proof. intros a b. destruct (path_eqb_spec a b); auto. Qed.

Lemma name_ok_spec : forall p, name_ok p = true -> is_final p = true /\ p <> PTR.
Proof.
  intros p H. unfold name_ok in H. apply andb_prop in H as [H1 H2]. split; auto.
  intro E. subst. now rewrite path_eqb_refl in H2.
Qed.

(* used: final names taken so far; F: files published (not markers); M: markers currently present *)
Record G (used : list path) (F : list pubfile) (M : list path) (g : ghost) : Prop := {
  g_tmps : forall t, tmps g t = None;
  g_fresh : forall q, q <> PTR -> ~ In q used -> st g q = Fresh;
  g_files : forall f, In f F -> st g (pf_path f) = Linked (pf_content f) true /\ name_ok (pf_path f) = true;
  g_marks : forall m, In m M ->
      (exists c, st g m = Linked c true) /\ name_ok m = true /\ refd g m = false /\ ~ In m (map pf_path F);
  g_refd : forall r, refd g r = true -> In r (map pf_path F);
  g_true : forall q c b, st g q = Linked c b -> b = true;
  g_ptr : st g PTR <> Dead
}.

Lemma G_init : G [] [] [] g0.
Proof. constructor; simpl; intros; try discriminate; try tauto; auto. Qed.

Lemma G_drop_marks : forall used F M g, G used F M g -> G used F [] g.
Proof. intros used F M g H. destruct H. constructor; auto. intros m []. Qed.

Lemma refs_ok_of_G : forall used F M g c, G used F M g ->
  (forall r, In r (refs c) -> In r (map pf_path F)) -> forallb (ref_ok g) (refs c) = true.
Proof.
  intros used F M g c H Hr. apply forallb_forall. intros r Hin. specialize (Hr r Hin).
  apply in_map_iff in Hr as [f [E Hf]]. subst r. destruct (g_files _ _ _ _ H f Hf) as [A B].
  destruct (name_ok_spec _ B) as [B1 B2]. unfold ref_ok. rewrite B1, A, (path_eqb_neq _ _ B2). reflexivity.
Qed.

Lemma pub_file : forall used F M g p c, G used F M g ->
  name_ok p = true -> ~ In p used -> (forall r, In r (refs c) -> In r (map pf_path F)) ->
  exists g', checks g (publish_meta p c) = Some g' /\ G (p :: used) (mkPub p c :: F) M g'.
Proof.
  intros used F M g p c H Hn Hu Hr. destruct (name_ok_spec _ Hn) as [Hf Hp].
  destruct p as [d n|]; [|discriminate].
  assert (Hfr : st g (P d n) = Fresh) by (apply (g_fresh _ _ _ _ H); auto).
  destruct (publish_ok g d n c (g_tmps _ _ _ _ H) (refs_ok_of_G _ _ _ _ _ H Hr) (or_introl Hfr) (g_true _ _ _ _ H))
    as [g' [Hc [T1 [S1 [S2 R1]]]]].
  exists g'. split; auto. constructor; auto.
  - intros q Hq Hnin. rewrite S2; [apply (g_fresh _ _ _ _ H); auto; intro; apply Hnin; now right|].
    intro E. apply Hnin. now left.
  - intros f [<-|Hin]; simpl; [auto|].
    destruct (g_files _ _ _ _ H f Hin) as [A B]. split; auto. rewrite S2; auto. intro E. rewrite E in A. congruence.
  - intros m Hm. destruct (g_marks _ _ _ _ H m Hm) as [[c0 A] [B [C D]]].
    assert (Hne : m <> P d n) by (intro E; rewrite E in A; congruence).
    repeat split; auto.
    + exists c0. rewrite S2; auto.
    + rewrite R1, C. simpl. destruct (existsb (path_eqb m) (refs c)) eqn:E; auto.
      apply existsb_eqb_In in E. elim D. auto.
    + simpl. intros [E|E]; auto.
  - intros r Hrf. rewrite R1 in Hrf. apply orb_true_iff in Hrf as [Hrf|Hrf].
    + right. apply (g_refd _ _ _ _ H); auto.
    + apply existsb_eqb_In in Hrf. right. auto.
  - intros q c0 b Hq. destruct (path_eq_dec q (P d n)) as [->|Hne].
    + rewrite S1 in Hq. congruence.
    + rewrite S2 in Hq by auto. eapply (g_true _ _ _ _ H); eauto.
  - rewrite S2 by auto. apply (g_ptr _ _ _ _ H).
Qed.

Lemma pub_marker : forall used F M g p c, G used F M g ->
  name_ok p = true -> ~ In p used -> refs c = [] ->
  exists g', checks g (publish_meta p c) = Some g' /\ G (p :: used) F (p :: M) g'.
Proof.
  intros used F M g p c H Hn Hu Hr. destruct (name_ok_spec _ Hn) as [Hf Hp].
  destruct p as [d n|]; [|discriminate].
  assert (Hfr : st g (P d n) = Fresh) by (apply (g_fresh _ _ _ _ H); auto).
  assert (Hro : forallb (ref_ok g) (refs c) = true) by (rewrite Hr; reflexivity).
  destruct (publish_ok g d n c (g_tmps _ _ _ _ H) Hro (or_introl Hfr) (g_true _ _ _ _ H))
    as [g' [Hc [T1 [S1 [S2 R1]]]]].
  assert (R2 : forall x, refd g' x = refd g x).
  { intro x. rewrite R1, Hr. simpl. apply orb_false_r. }
  exists g'. split; auto. constructor; auto.
  - intros q Hq Hnin. rewrite S2; [apply (g_fresh _ _ _ _ H); auto; intro; apply Hnin; now right|].
    intro E. apply Hnin. now left.
  - intros f Hin. destruct (g_files _ _ _ _ H f Hin) as [A B]. split; auto. rewrite S2; auto.
    intro E. rewrite E in A. congruence.
  - intros m [<-|Hm].
    + repeat split; eauto.
      * rewrite R2. destruct (refd g (P d n)) eqn:E; auto.
        apply (g_refd _ _ _ _ H) in E. apply in_map_iff in E as [f [E1 E2]].
        destruct (g_files _ _ _ _ H f E2) as [A _]. rewrite E1 in A. congruence.
      * intro E. apply in_map_iff in E as [f [E1 E2]].
        destruct (g_files _ _ _ _ H f E2) as [A _]. rewrite E1 in A. congruence.
    + destruct (g_marks _ _ _ _ H m Hm) as [[c0 A] [B [C D]]].
      assert (Hne : m <> P d n) by (intro E; rewrite E in A; congruence).
      repeat split; auto. * exists c0. rewrite S2; auto. * rewrite R2; auto.
  - intros r Hrf. rewrite R2 in Hrf. apply (g_refd _ _ _ _ H); auto.
  - intros q c0 b Hq. destruct (path_eq_dec q (P d n)) as [->|Hne].
    + rewrite S1 in Hq. congruence.
    + rewrite S2 in Hq by auto. eapply (g_true _ _ _ _ H); eauto.
  - rewrite S2 by auto. apply (g_ptr _ _ _ _ H).
Qed.

Lemma pub_ptr : forall used F M g c, G used F M g ->
  (forall r, In r (refs c) -> In r (map pf_path F)) ->
  exists g', checks g (publish_meta PTR c) = Some g' /\ G used F M g' /\ st g' PTR = Linked c true.
Proof.
  intros used F M g c H Hr.
  destruct (publish_ok g 0 0 c (g_tmps _ _ _ _ H) (refs_ok_of_G _ _ _ _ _ H Hr)
              (or_intror (conj eq_refl (g_ptr _ _ _ _ H))) (g_true _ _ _ _ H))
    as [g' [Hc [T1 [S1 [S2 R1]]]]].
  exists g'. split; auto. split; auto. constructor; auto.
  - intros q Hq Hnin. rewrite S2 by auto. apply (g_fresh _ _ _ _ H); auto.
  - intros f Hin. destruct (g_files _ _ _ _ H f Hin) as [A B]. split; auto. rewrite S2; auto.
    apply (name_ok_spec _ B).
  - intros m Hm. destruct (g_marks _ _ _ _ H m Hm) as [[c0 A] [B [C D]]].
    repeat split; auto.
    + exists c0. rewrite S2; auto. apply (name_ok_spec _ B).
    + rewrite R1, C. simpl. destruct (existsb (path_eqb m) (refs c)) eqn:E; auto.
      apply existsb_eqb_In in E. elim D. auto.
  - intros r Hrf. rewrite R1 in Hrf. apply orb_true_iff in Hrf as [Hrf|Hrf].
    + apply (g_refd _ _ _ _ H); auto.
    + apply existsb_eqb_In in Hrf. auto.
  - intros q c0 b Hq. destruct (path_eq_dec q PTR) as [->|Hne].
    + fold PTR in S1. rewrite S1 in Hq. congruence.
    + rewrite S2 in Hq by auto. eapply (g_true _ _ _ _ H); eauto.
  - fold PTR in S1. rewrite S1. discriminate.
Qed.

Lemma del_marker : forall used F M g m, G used F M g -> In m M ->
  exists g', check g (Unlink m) = Some g' /\ G used F (remove path_eq_dec m M) g'.
Proof.
  intros used F M g m H Hm. destruct (g_marks _ _ _ _ H m Hm) as [[c0 A] [B [C D]]].
  destruct (name_ok_spec _ B) as [Hf Hp]. destruct m as [d n|]; [|discriminate].
  cbn [check]. rewrite (path_eqb_neq _ _ Hp), C, A. cbn [negb andb].
  eexists. split; [reflexivity|]. destruct H. constructor; cbn [tmps st refd]; auto.
  - intros q Hq Hnin. rewrite upd_s_other; auto. intro E. subst q. rewrite g_fresh0 in A; auto. discriminate.
  - intros f Hin. destruct (g_files0 f Hin) as [A1 B1]. split; auto. rewrite upd_s_other; auto.
    intro E. apply D. apply in_map_iff. eauto.
  - intros m' Hm'. apply in_remove in Hm' as [Hm' Hne]. destruct (g_marks0 m' Hm') as [[c1 A1] [B1 [C1 D1]]].
    repeat split; auto. exists c1. rewrite upd_s_other; auto.
  - intros q c1 b Hq. unfold upd_s in Hq. destruct (path_eqb q (P d n)); [discriminate|eauto].
  - rewrite upd_s_other; auto.
Qed.

(* ---------------------------------------------------------------- boolean well-formedness as Props *)
Lemma nodup_b_spec : forall l, nodup_b l = true -> NoDup l.
Proof.
  induction l as [|x l IH]; simpl; intro H; constructor; apply andb_prop in H as [H1 H2]; auto.
  intro Hin. apply mem_In in Hin. rewrite Hin in H1. discriminate.
Qed.

Fixpoint pubs_ok (avail : list path) (l : list pubfile) : Prop :=
  match l with
  | [] => True
  | f :: l' => (forall r, In r (refs (pf_content f)) -> In r avail) /\ pubs_ok (pf_path f :: avail) l'
  end.

Lemma wf_pubs_spec : forall l avail avail', wf_pubs avail l = true -> incl avail avail' -> pubs_ok avail' l.
Proof.
  induction l as [|f l IH]; simpl; intros avail avail' H Hi; auto.
  apply andb_prop in H as [H1 H2]. split.
  - intros r Hr. rewrite forallb_forall in H1. apply Hi. apply mem_In. auto.
  - eapply IH; eauto. intros x [<-|Hx]; [now left|right; auto].
Qed.

Lemma pubs_ok_app : forall l1 l2 avail, pubs_ok avail (l1 ++ l2) ->
  pubs_ok avail l1 /\ pubs_ok (rev (map pf_path l1) ++ avail) l2.
Proof.
  induction l1 as [|f l1 IH]; simpl; intros l2 avail H; auto.
  destruct H as [H1 H2]. destruct (IH _ _ H2) as [A B]. repeat split; auto.
  now rewrite <- app_assoc.
Qed.

Lemma pubs_ok_incl : forall l avail avail', pubs_ok avail l -> incl avail avail' -> pubs_ok avail' l.
Proof.
  induction l as [|f l IH]; simpl; intros avail avail' H Hi; auto.
  destruct H as [H1 H2]. split; auto. eapply IH; eauto. intros x [<-|Hx]; [now left|right; auto].
Qed.

(* ---------------------------------------------------------------- the items of a commit *)
Definition mk_path (it : item) : path := pf_path (it_marker it).
Definition fl_path (it : item) : path := pf_path (it_file it).
Definition inter (l : list item) : list path := flat_map (fun it => [mk_path it; fl_path it]) l.

Lemma pub_file' : forall used F M g f, G used F M g ->
  name_ok (pf_path f) = true -> ~ In (pf_path f) used -> (forall r, In r (refs (pf_content f)) -> In r (map pf_path F)) ->
  exists g', checks g (publish_meta (pf_path f) (pf_content f)) = Some g' /\ G (pf_path f :: used) (f :: F) M g'.
Proof. intros used F M g [p c] H. simpl. apply pub_file; auto. Qed.

Lemma pub_items : forall b l used F M g, G used F M g ->
  (forall it, In it l -> name_ok (mk_path it) = true /\ name_ok (fl_path it) = true /\ refs (pf_content (it_marker it)) = []) ->
  NoDup (inter l) -> (forall x, In x (inter l) -> ~ In x used) ->
  pubs_ok (map pf_path F) (map it_file l) ->
  exists g', checks g (flat_map (pub_item b) l) = Some g'
    /\ G (rev (inter l) ++ used) (rev (map it_file l) ++ F) (rev (map mk_path l) ++ M) g'.
Proof.
  intros b. induction l as [|it l IH]; intros used F M g H Hn Hd Hu Hp.
  - simpl. eauto.
  - destruct (Hn it (or_introl eq_refl)) as [N1 [N2 N3]].
    simpl in Hd. inversion Hd as [|? ? D1 D2]; subst. inversion D2 as [|? ? D3 D4]; subst.
    destruct Hp as [P1 P2].
    destruct (pub_marker used F M g (mk_path it) (pf_content (it_marker it)) H N1) as [g1 [C1 G1]]; auto.
    { apply Hu. simpl. auto. }
    destruct (pub_file' (mk_path it :: used) F (mk_path it :: M) g1 (it_file it) G1 N2) as [g2 [C2 G2]]; auto.
    { intros [E|E]; [apply D1; left; auto|]. eapply Hu; [|exact E]. simpl. auto. }
    assert (Hn' : forall it0, In it0 l -> name_ok (mk_path it0) = true /\ name_ok (fl_path it0) = true /\ refs (pf_content (it_marker it0)) = [])
      by (intros; apply Hn; right; auto).
    assert (Hu' : forall x, In x (inter l) -> ~ In x (fl_path it :: mk_path it :: used)).
    { intros x Hx. intros [E|[E|E]].
      - subst x. apply D3. exact Hx.
      - subst x. apply D1. right. exact Hx.
      - eapply Hu; [|exact E]. simpl. auto. }
    destruct (IH (fl_path it :: mk_path it :: used) (it_file it :: F) (mk_path it :: M) g2 G2 Hn' D4 Hu' P2) as [g3 [C3 G3]].
    exists g3. split.
    + cbn [flat_map]. unfold pub_item at 1. rewrite !checks_app.
      fold (mk_path it). rewrite C1.
      replace ((if b then publish_data else publish_meta) (pf_path (it_file it)) (pf_content (it_file it)))
        with (publish_meta (pf_path (it_file it)) (pf_content (it_file it))) by (destruct b; reflexivity).
      rewrite C2. exact C3.
    + simpl. rewrite <- !app_assoc. simpl. exact G3.
Qed.

Lemma inter_perm_in : forall l x, In x (inter l) <-> In x (map mk_path l) \/ In x (map fl_path l).
Proof.
  induction l as [|it l IH]; simpl; intro x; [tauto|]. rewrite IH. tauto.
Qed.

Lemma NoDup_inter : forall l, NoDup (map mk_path l ++ map fl_path l) -> NoDup (inter l).
Proof.
  induction l as [|it l IH]; simpl; intro H; [constructor|].
  inversion H as [|? ? H1 H2]; subst.
  assert (Hf : ~ In (fl_path it) (map mk_path l ++ map fl_path l) /\ NoDup (map mk_path l ++ map fl_path l)).
  { split; [eapply NoDup_remove_2; eauto|eapply NoDup_remove_1; eauto]. }
  destruct Hf as [Hf Hnd]. constructor; [|constructor].
  - intros [E|E].
    + apply H1. apply in_or_app. right. left. auto.
    + apply H1. apply in_or_app. apply inter_perm_in in E. destruct E; [left; auto|right; right; auto].
  - intro E. apply Hf. apply inter_perm_in in E. apply in_or_app. tauto.
  - auto.
Qed.

(* ---------------------------------------------------------------- one commit *)
Lemma del_markers : forall ms used F M g, G used F M g -> (forall m, In m ms -> In m M) -> NoDup ms ->
  exists g' M', checks g (map Unlink ms) = Some g' /\ G used F M' g' /\ st g' PTR = st g PTR.
Proof.
  induction ms as [|m ms IH]; intros used F M g H Hin Hnd.
  - exists g, M. simpl. auto.
  - cbn [map checks]. inversion Hnd as [|? ? N1 N2]; subst.
    destruct (del_marker used F M g m H (Hin m (or_introl eq_refl))) as [g1 [C1 G1]].
    destruct (IH used F (remove path_eq_dec m M) g1 G1) as [g2 [M2 [C2 [G2 S2]]]]; auto.
    { intros m' Hm'. apply in_in_remove; [intro; subst; auto|apply Hin; now right]. }
    exists g2, M2. rewrite C1. split; [exact C2|]. split; [exact G2|]. rewrite S2.
    destruct (g_marks _ _ _ _ H m (Hin m (or_introl eq_refl))) as [_ [B _]]. destruct (name_ok_spec _ B) as [Hf Hp].
    destruct m as [d n|]; [|discriminate]. cbn [check] in C1.
    destruct (negb (path_eqb (P d n) PTR) && negb (refd g (P d n)) && match st g (P d n) with Linked _ _ => true | _ => false end);
      [|discriminate].
    inversion C1; subst. cbn [st]. apply upd_s_other. auto.
Qed.

Lemma flat_map_pub_item_b : forall l, flat_map (pub_item true) l = flat_map (pub_item false) l.
Proof. induction l as [|it l IH]; simpl; [reflexivity|]. now rewrite IH. Qed.

Lemma commit_body_eq : forall c, commit_body c =
  flat_map (pub_item false) (items c) ++ publish_meta (pf_path (c_meta c)) (pf_content (c_meta c)) ++ publish_meta PTR (c_ptr c).
Proof.
  intro c. unfold commit_body, items. rewrite !flat_map_app, flat_map_pub_item_b, <- !app_assoc. reflexivity.
Qed.

Lemma forallb_In : forall {A} (f : A -> bool) l x, forallb f l = true -> In x l -> f x = true.
Proof. intros A f l x H Hin. rewrite forallb_forall in H. auto. Qed.

Lemma incl_rev_l : forall {A} (l m : list A), incl l m -> incl (rev l) m.
Proof. intros A l m H x Hx. apply H. now apply in_rev. Qed.

Theorem commit_ok : forall c used avail usedG F g,
  wf_commit used avail c = true -> G usedG F [] g -> incl usedG used -> incl avail (map pf_path F) ->
  exists g1 g' usedG' F' M1,
    checks g (commit_body c) = Some g1 /\ checks g1 (commit_cleanup c) = Some g'
    /\ G usedG' F' M1 g1 /\ G usedG' F' [] g'
    /\ st g1 PTR = Linked (c_ptr c) true /\ st g' PTR = Linked (c_ptr c) true
    /\ incl usedG' (names_of_commit c ++ used)
    /\ incl (map pf_path (files_of_commit c) ++ avail) (map pf_path F')
    /\ incl F F' /\ incl (files_of_commit c) F'.
Proof.
  intros c used avail usedG F g Hwf HG Hiu Hia.
  unfold wf_commit in Hwf.
  apply andb_prop in Hwf as [Hwf W6]. apply andb_prop in Hwf as [Hwf W5]. apply andb_prop in Hwf as [Hwf W4].
  apply andb_prop in Hwf as [Hwf W3]. apply andb_prop in Hwf as [W1 W2].
  set (its := items c) in *.
  assert (Hnames : names_of_commit c = map mk_path its ++ map fl_path its ++ [pf_path (c_meta c)]).
  { unfold names_of_commit, files_of_commit. fold its. rewrite map_app, map_map. reflexivity. }
  rewrite Hnames in W1, W2, W3.
  apply nodup_b_spec in W2.
  assert (Hnd : NoDup (map mk_path its ++ map fl_path its) /\ ~ In (pf_path (c_meta c)) (map mk_path its ++ map fl_path its)).
  { rewrite app_assoc in W2. apply NoDup_remove in W2. rewrite app_nil_r in W2. exact W2. }
  destruct Hnd as [Hnd Hmeta].
  assert (Hfresh : forall x, In x (map mk_path its ++ map fl_path its ++ [pf_path (c_meta c)]) -> ~ In x usedG).
  { intros x Hx Hu. apply Hiu in Hu. apply (forallb_In _ _ _ W3) in Hx. apply mem_In in Hu. rewrite Hu in Hx. discriminate. }
  assert (Hpubs : pubs_ok (map pf_path F) (map it_file its ++ [c_meta c])).
  { eapply wf_pubs_spec; eauto. }
  destruct (pubs_ok_app _ _ _ Hpubs) as [Hp1 Hp2].
  (* items *)
  destruct (pub_items false its usedG F [] g HG) as [g2 [C2 G2]]; auto.
  { intros it Hit. repeat split.
    - apply (forallb_In _ _ _ W1). apply in_or_app. left. now apply in_map.
    - apply (forallb_In _ _ _ W1). apply in_or_app. right. apply in_or_app. left. now apply in_map.
    - pose proof (forallb_In _ _ _ W4 Hit) as E. simpl in E. destruct (refs (pf_content (it_marker it))); [reflexivity|discriminate]. }
  { now apply NoDup_inter. }
  { intros x Hx. apply Hfresh. apply inter_perm_in in Hx. rewrite app_assoc. apply in_or_app. left. apply in_or_app. tauto. }
  (* metadata file *)
  destruct (pub_file' _ _ _ g2 (c_meta c) G2) as [g3 [C3 G3]].
  { apply (forallb_In _ _ _ W1). rewrite app_assoc. apply in_or_app. right. now left. }
  { intro Hx. apply in_app_or in Hx as [Hx|Hx].
    - apply in_rev in Hx. apply inter_perm_in in Hx. apply Hmeta. apply in_or_app. tauto.
    - eapply Hfresh; [|exact Hx]. rewrite app_assoc. apply in_or_app. right. now left. }
  { destruct Hp2 as [Hp2 _]. intros r Hr. specialize (Hp2 r Hr). rewrite map_app, map_rev. exact Hp2. }
  (* pointer *)
  assert (Hptr : forall r, In r (refs (c_ptr c)) -> In r (map pf_path (c_meta c :: rev (map it_file its) ++ F))).
  { intros r Hr. destruct (refs (c_ptr c)) as [|v [|? ?]]; try discriminate.
    destruct (path_eqb_spec v (pf_path (c_meta c))); [|discriminate]. destruct Hr as [<-|[]]. subst v. now left. }
  destruct (pub_ptr _ _ _ g3 (c_ptr c) G3 Hptr) as [g4 [C4 [G4 S4]]].
  (* cleanup *)
  destruct (del_markers (map mk_path its) _ _ _ g4 G4) as [g5 [M5 [C5 [G5 S5]]]].
  { intros m Hm. apply in_or_app. left. now apply in_rev in Hm. }
  { clear - Hnd. induction (map mk_path its) as [|a l IH]; [constructor|]. simpl in Hnd. inversion Hnd; subst.
    constructor; auto. intro E. apply H1. apply in_or_app. now left. }
  exists g4, g5, (pf_path (c_meta c) :: rev (inter its) ++ usedG), (c_meta c :: rev (map it_file its) ++ F), (rev (map mk_path its) ++ []).
  split. { rewrite commit_body_eq, checks_app. fold its. rewrite C2, checks_app, C3. exact C4. }
  split. { unfold commit_cleanup. fold its. rewrite <- map_map with (f := mk_path) (g := Unlink). exact C5. }
  split. { exact G4. }
  split. { eapply G_drop_marks; eauto. }
  split. { exact S4. }
  split. { congruence. }
  split.
  { rewrite Hnames. intros x [<-|Hx].
    + apply in_or_app. left. rewrite app_assoc. apply in_or_app. right. now left.
    + apply in_app_or in Hx as [Hx|Hx].
      * apply in_rev in Hx. apply inter_perm_in in Hx. apply in_or_app. left. rewrite app_assoc. apply in_or_app. left. apply in_or_app. tauto.
      * apply in_or_app. right. auto. }
  split.
  { unfold files_of_commit. fold its. intros x Hx. apply in_app_or in Hx as [Hx|Hx].
    + rewrite map_app in Hx. apply in_app_or in Hx as [Hx|Hx].
      * simpl. right. rewrite map_app, map_rev. apply in_or_app. left. now apply in_rev in Hx.
      * destruct Hx as [<-|[]]. now left.
    + simpl. right. rewrite map_app. apply in_or_app. right. auto. }
  split.
  { intros x Hx. right. apply in_or_app. now right. }
  unfold files_of_commit. fold its. intros x Hx. apply in_app_or in Hx as [Hx|[<-|[]]].
  + right. apply in_or_app. left. now apply in_rev in Hx.
  + now left.
Qed.
