(* Proofs/DurablePrograms.v -- Part B of C16: the library's programs follow the publish discipline.

   For every well-formed history `ops` (Durable.wf), trace_of ops is accepted by Durable.checks, and
   the ghost state it ends in knows every published file with its intended content.  Together with
   Part A (DurableProofs.v) this gives the ops-level theorems of Props/C16.v. *)
From Coq Require Import NArith List Bool Arith Lia.
Require Import DS.Model.Durable DS.Proofs.DurableProofs.
Import ListNotations.
Open Scope N_scope.

(* ---------------------------------------------------------------- one publish sequence on the ghost *)
Lemma publish_ok : forall g d n c,
  (forall t, tmps g t = None) ->
  forallb (ref_ok g) (refs c) = true ->
  (st g (P d n) = Fresh \/ (P d n = PTR /\ st g PTR <> Dead)) ->
  exists g', checks g (publish_meta (P d n) c) = Some g'
    /\ (forall t, tmps g' t = None)
    /\ st g' (P d n) = Linked c true
    /\ (forall x, x <> P d n -> (forall c0, st g x <> Linked c0 false) -> st g' x = st g x)
    /\ (forall x, refd g' x = refd g x || existsb (path_eqb x) (refs c)).
Proof.
  intros g d n c Ht Hr Hq.
  unfold publish_meta, gen_write_file. cbn [tmp_of dir_of checks].
  cbn [check]. rewrite Ht. cbn [checks check tmps]. rewrite upd_t_same. cbn [checks check tmps app].
  rewrite upd_t_same. cbn [checks check tmps st refd]. rewrite upd_t_same.
  assert (Hr' : forall g1, st g1 = st g -> forallb (ref_ok g1) (refs c) = true).
  { intros g1 E. rewrite <- Hr. clear Hr. induction (refs c) as [|r l IH]; [reflexivity|]. simpl. rewrite IH. unfold ref_ok. now rewrite E. }
  rewrite Hr' by reflexivity. cbn [andb].
  assert (Hq' : match st g (P d n) with Fresh => true | Linked _ _ => path_eqb (P d n) PTR | Dead => false end = true).
  { destruct Hq as [->|[E Hd]]; [reflexivity|]. rewrite E in *. destruct (st g PTR); try reflexivity. congruence. }
  rewrite Hq'. cbn [checks check tmps st refd].
  eexists. split; [reflexivity|]. cbn [tmps st refd]. repeat split.
  - intro t. unfold upd_t. destruct (path_eqb t (T d n)); auto.
  - rewrite N.eqb_refl. now rewrite upd_s_same.
  - intros x Hx Hnf. rewrite upd_s_other by auto. destruct (dir_of x =? d); auto.
    destruct (st g x) as [|c0 b|] eqn:E; auto. destruct b; auto. elim (Hnf c0). reflexivity.
Qed.

(* ---------------------------------------------------------------- the ghost between publishes *)
Lemma path_eq_dec : forall a b : path, {a = b} + {a <> b}.
Proof. intros a b. destruct (path_eqb_spec a b); auto. Qed.

Lemma name_ok_spec : forall p, name_ok p = true -> is_final p = true /\ p <> PTR.
Proof.
  intros p H. unfold name_ok in H. apply andb_prop in H as [H1 H2]. split; auto.
  intro E. subst. now rewrite path_eqb_refl in H2.
Qed.

(* used: final names taken so far; F: files published (not markers); M: markers currently present *)
Record G (used : list path) (F : list pubfile) (M : list path) (g : ghost) : Prop := {
  g_tmps : forall t, tmps g t = None;
  g_fresh : forall q, q <> PTR -> ~ In q used -> st g q = Fresh;
  g_files : forall f, In f F -> st g (pf_path f) = Linked (pf_content f) true /\ name_ok (pf_path f) = true;
  g_marks : forall m, In m M ->
      (exists c, st g m = Linked c true) /\ name_ok m = true /\ refd g m = false /\ ~ In m (map pf_path F);
  g_refd : forall r, refd g r = true -> In r (map pf_path F);
  g_ptr_true : forall c b, st g PTR = Linked c b -> b = true;
  g_ptr : st g PTR <> Dead
}.
(* Names outside F, M and the pointer are unconstrained once used: a file left behind by a publish whose
   DIRECTORY fsync failed stays linked, its entry not (yet) durable, referenced by nothing. *)

Definition settled (s : pstate) : Prop := s = Fresh \/ (exists c0, s = Linked c0 true) \/ s = Dead.

Lemma settled_keep : forall (g g' : ghost) y,
  (forall x, x <> y -> (forall c0, st g x <> Linked c0 false) -> st g' x = st g x) ->
  forall x, x <> y -> settled (st g x) -> st g' x = st g x.
Proof.
  intros g g' y S2 x Hx Hs. apply S2; auto. intros c0 E.
  destruct Hs as [Hs|[[c1 Hs]|Hs]]; rewrite Hs in E; discriminate.
Qed.

Lemma ptr_settled : forall used F M g, G used F M g -> settled (st g PTR).
Proof.
  intros used F M g H. unfold settled. destruct (st g PTR) as [|c1 b1|] eqn:E; auto.
  right. left. exists c1. now rewrite (g_ptr_true _ _ _ _ H _ _ E).
Qed.

Lemma G_weaken : forall used F M g x, G used F M g -> G (x :: used) F M g.
Proof.
  intros used F M g x H. destruct H. constructor; auto.
  intros q Hq Hn. apply g_fresh0; auto. intro. apply Hn. now right.
Qed.

Lemma G_init : G [] [] [] g0.
Proof. constructor; simpl; intros; try discriminate; try tauto; auto. Qed.

Lemma G_drop_marks : forall used F M g, G used F M g -> G used F [] g.
Proof. intros used F M g H. destruct H. constructor; auto. intros m []. Qed.

Lemma refs_ok_of_G : forall used F M g c, G used F M g ->
  (forall r, In r (refs c) -> In r (map pf_path F)) -> forallb (ref_ok g) (refs c) = true.
Proof.
  intros used F M g c H Hr. apply forallb_forall. intros r Hin. specialize (Hr r Hin).
  apply in_map_iff in Hr as [f [E Hf]]. subst r. destruct (g_files _ _ _ _ H f Hf) as [A B].
  destruct (name_ok_spec _ B) as [B1 B2]. unfold ref_ok. rewrite B1, A, (path_eqb_neq _ _ B2). reflexivity.
Qed.

Lemma pub_file : forall used F M g p c, G used F M g ->
  name_ok p = true -> ~ In p used -> (forall r, In r (refs c) -> In r (map pf_path F)) ->
  exists g', checks g (publish_meta p c) = Some g' /\ G (p :: used) (mkPub p c :: F) M g'.
Proof.
  intros used F M g p c H Hn Hu Hr. destruct (name_ok_spec _ Hn) as [Hf Hp].
  destruct p as [d n|]; [|discriminate].
  assert (Hfr : st g (P d n) = Fresh) by (apply (g_fresh _ _ _ _ H); auto).
  destruct (publish_ok g d n c (g_tmps _ _ _ _ H) (refs_ok_of_G _ _ _ _ _ H Hr) (or_introl Hfr))
    as [g' [Hc [T1 [S1 [S2 R1]]]]].
  pose proof (settled_keep g g' _ S2) as K.
  exists g'. split; auto. constructor; auto.
  - intros q Hq Hnin.
    assert (Hfq : st g q = Fresh) by (apply (g_fresh _ _ _ _ H); auto; intro; apply Hnin; now right).
    rewrite K; auto; [intro E; apply Hnin; now left|left; auto].
  - intros f [<-|Hin]; simpl; [auto|].
    destruct (g_files _ _ _ _ H f Hin) as [A B]. split; auto.
    assert (Hne : pf_path f <> P d n) by (intro E; rewrite E in A; congruence).
    rewrite (K _ Hne); auto. right. left. eauto.
  - intros m Hm. destruct (g_marks _ _ _ _ H m Hm) as [[c0 A] [B [C D]]].
    assert (Hne : m <> P d n) by (intro E; rewrite E in A; congruence).
    repeat split; auto.
    + exists c0. rewrite (K _ Hne); auto. right. left. eauto.
    + rewrite R1, C. simpl. destruct (existsb (path_eqb m) (refs c)) eqn:E; auto.
      apply existsb_eqb_In in E. elim D. auto.
    + simpl. intros [E|E]; auto.
  - intros r Hrf. rewrite R1 in Hrf. apply orb_true_iff in Hrf as [Hrf|Hrf].
    + right. apply (g_refd _ _ _ _ H); auto.
    + apply existsb_eqb_In in Hrf. right. auto.
  - intros c0 b Hq. rewrite (K PTR) in Hq; [eapply (g_ptr_true _ _ _ _ H); eauto|auto|eapply ptr_settled; eauto].
  - rewrite (K PTR); [apply (g_ptr _ _ _ _ H)|auto|eapply ptr_settled; eauto].
Qed.

Lemma pub_marker : forall used F M g p c, G used F M g ->
  name_ok p = true -> ~ In p used -> refs c = [] ->
  exists g', checks g (publish_meta p c) = Some g' /\ G (p :: used) F (p :: M) g' /\ st g' PTR = st g PTR.
Proof.
  intros used F M g p c H Hn Hu Hr. destruct (name_ok_spec _ Hn) as [Hf Hp].
  destruct p as [d n|]; [|discriminate].
  assert (Hfr : st g (P d n) = Fresh) by (apply (g_fresh _ _ _ _ H); auto).
  assert (Hro : forallb (ref_ok g) (refs c) = true) by (rewrite Hr; reflexivity).
  destruct (publish_ok g d n c (g_tmps _ _ _ _ H) Hro (or_introl Hfr))
    as [g' [Hc [T1 [S1 [S2 R1]]]]].
  pose proof (settled_keep g g' _ S2) as K.
  assert (R2 : forall x, refd g' x = refd g x).
  { intro x. rewrite R1, Hr. simpl. apply orb_false_r. }
  assert (KP : st g' PTR = st g PTR) by (apply K; [auto|eapply ptr_settled; eauto]).
  exists g'. split; auto. split; [|exact KP]. constructor; auto.
  - intros q Hq Hnin.
    assert (Hfq : st g q = Fresh) by (apply (g_fresh _ _ _ _ H); auto; intro; apply Hnin; now right).
    rewrite K; auto; [intro E; apply Hnin; now left|left; auto].
  - intros f Hin. destruct (g_files _ _ _ _ H f Hin) as [A B]. split; auto.
    assert (Hne : pf_path f <> P d n) by (intro E; rewrite E in A; congruence).
    rewrite (K _ Hne); auto. right. left. eauto.
  - intros m [<-|Hm].
    + repeat split; eauto.
      * rewrite R2. destruct (refd g (P d n)) eqn:E; auto.
        apply (g_refd _ _ _ _ H) in E. apply in_map_iff in E as [f [E1 E2]].
        destruct (g_files _ _ _ _ H f E2) as [A _]. rewrite E1 in A. congruence.
      * intro E. apply in_map_iff in E as [f [E1 E2]].
        destruct (g_files _ _ _ _ H f E2) as [A _]. rewrite E1 in A. congruence.
    + destruct (g_marks _ _ _ _ H m Hm) as [[c0 A] [B [C D]]].
      assert (Hne : m <> P d n) by (intro E; rewrite E in A; congruence).
      repeat split; auto. * exists c0. rewrite (K _ Hne); auto. right. left. eauto. * rewrite R2; auto.
  - intros r Hrf. rewrite R2 in Hrf. apply (g_refd _ _ _ _ H); auto.
  - intros c0 b Hq. rewrite KP in Hq. eapply (g_ptr_true _ _ _ _ H); eauto.
  - rewrite KP. apply (g_ptr _ _ _ _ H).
Qed.

Lemma pub_ptr : forall used F M g c, G used F M g ->
  (forall r, In r (refs c) -> In r (map pf_path F)) ->
  exists g', checks g (publish_meta PTR c) = Some g' /\ G used F M g' /\ st g' PTR = Linked c true.
Proof.
  intros used F M g c H Hr.
  destruct (publish_ok g 0 0 c (g_tmps _ _ _ _ H) (refs_ok_of_G _ _ _ _ _ H Hr)
              (or_intror (conj eq_refl (g_ptr _ _ _ _ H))))
    as [g' [Hc [T1 [S1 [S2 R1]]]]].
  pose proof (settled_keep g g' _ S2) as K.
  exists g'. split; auto. split; auto. constructor; auto.
  - intros q Hq Hnin. rewrite K; auto; [apply (g_fresh _ _ _ _ H); auto|left; apply (g_fresh _ _ _ _ H); auto].
  - intros f Hin. destruct (g_files _ _ _ _ H f Hin) as [A B]. split; auto.
    rewrite K; auto; [apply (name_ok_spec _ B)|right; left; eauto].
  - intros m Hm. destruct (g_marks _ _ _ _ H m Hm) as [[c0 A] [B [C D]]].
    repeat split; auto.
    + exists c0. rewrite K; auto; [apply (name_ok_spec _ B)|right; left; eauto].
    + rewrite R1, C. simpl. destruct (existsb (path_eqb m) (refs c)) eqn:E; auto.
      apply existsb_eqb_In in E. elim D. auto.
  - intros r Hrf. rewrite R1 in Hrf. apply orb_true_iff in Hrf as [Hrf|Hrf].
    + apply (g_refd _ _ _ _ H); auto.
    + apply existsb_eqb_In in Hrf. auto.
  - intros c0 b Hq. fold PTR in S1. rewrite S1 in Hq. congruence.
  - fold PTR in S1. rewrite S1. discriminate.
Qed.

Lemma del_marker : forall used F M g m, G used F M g -> In m M ->
  exists g', check g (Unlink m) = Some g' /\ G used F (remove path_eq_dec m M) g'.
Proof.
  intros used F M g m H Hm. destruct (g_marks _ _ _ _ H m Hm) as [[c0 A] [B [C D]]].
  destruct (name_ok_spec _ B) as [Hf Hp]. destruct m as [d n|]; [|discriminate].
  cbn [check]. rewrite (path_eqb_neq _ _ Hp), C, A. cbn [negb andb].
  eexists. split; [reflexivity|]. destruct H. constructor; cbn [tmps st refd]; auto.
  - intros q Hq Hnin. rewrite upd_s_other; auto. intro E. subst q. rewrite g_fresh0 in A; auto. discriminate.
  - intros f Hin. destruct (g_files0 f Hin) as [A1 B1]. split; auto. rewrite upd_s_other; auto.
    intro E. apply D. apply in_map_iff. eauto.
  - intros m' Hm'. apply in_remove in Hm' as [Hm' Hne]. destruct (g_marks0 m' Hm') as [[c1 A1] [B1 [C1 D1]]].
    repeat split; auto. exists c1. rewrite upd_s_other; auto.
  - intros c1 b Hq. rewrite upd_s_other in Hq by auto. eauto.
  - rewrite upd_s_other; auto.
Qed.

(* ---------------------------------------------------------------- boolean well-formedness as Props *)
Lemma nodup_b_spec : forall l, nodup_b l = true -> NoDup l.
Proof.
  induction l as [|x l IH]; simpl; intro H; constructor; apply andb_prop in H as [H1 H2]; auto.
  intro Hin. apply mem_In in Hin. rewrite Hin in H1. discriminate.
Qed.

Fixpoint pubs_ok (avail : list path) (l : list pubfile) : Prop :=
  match l with
  | [] => True
  | f :: l' => (forall r, In r (refs (pf_content f)) -> In r avail) /\ pubs_ok (pf_path f :: avail) l'
  end.

Lemma wf_pubs_spec : forall l avail avail', wf_pubs avail l = true -> incl avail avail' -> pubs_ok avail' l.
Proof.
  induction l as [|f l IH]; simpl; intros avail avail' H Hi; auto.
  apply andb_prop in H as [H1 H2]. split.
  - intros r Hr. rewrite forallb_forall in H1. apply Hi. apply mem_In. auto.
  - eapply IH; eauto. intros x [<-|Hx]; [now left|right; auto].
Qed.

Lemma pubs_ok_app : forall l1 l2 avail, pubs_ok avail (l1 ++ l2) ->
  pubs_ok avail l1 /\ pubs_ok (rev (map pf_path l1) ++ avail) l2.
Proof.
  induction l1 as [|f l1 IH]; simpl; intros l2 avail H; auto.
  destruct H as [H1 H2]. destruct (IH _ _ H2) as [A B]. repeat split; auto.
  now rewrite <- app_assoc.
Qed.

Lemma pubs_ok_incl : forall l avail avail', pubs_ok avail l -> incl avail avail' -> pubs_ok avail' l.
Proof.
  induction l as [|f l IH]; simpl; intros avail avail' H Hi; auto.
  destruct H as [H1 H2]. split; auto. eapply IH; eauto. intros x [<-|Hx]; [now left|right; auto].
Qed.

(* ---------------------------------------------------------------- the items of a commit *)
Definition mk_path (it : item) : path := pf_path (it_marker it).
Definition fl_path (it : item) : path := pf_path (it_file it).
Definition inter (l : list item) : list path := flat_map (fun it => [mk_path it; fl_path it]) l.

Lemma pub_file' : forall used F M g f, G used F M g ->
  name_ok (pf_path f) = true -> ~ In (pf_path f) used -> (forall r, In r (refs (pf_content f)) -> In r (map pf_path F)) ->
  exists g', checks g (publish_meta (pf_path f) (pf_content f)) = Some g' /\ G (pf_path f :: used) (f :: F) M g'.
Proof. intros used F M g [p c] H. simpl. apply pub_file; auto. Qed.

Lemma pub_items : forall b l used F M g, G used F M g ->
  (forall it, In it l -> name_ok (mk_path it) = true /\ name_ok (fl_path it) = true /\ refs (pf_content (it_marker it)) = []) ->
  NoDup (inter l) -> (forall x, In x (inter l) -> ~ In x used) ->
  pubs_ok (map pf_path F) (map it_file l) ->
  exists g', checks g (flat_map (pub_item b) l) = Some g'
    /\ G (rev (inter l) ++ used) (rev (map it_file l) ++ F) (rev (map mk_path l) ++ M) g'.
Proof.
  intros b. induction l as [|it l IH]; intros used F M g H Hn Hd Hu Hp.
  - simpl. eauto.
  - destruct (Hn it (or_introl eq_refl)) as [N1 [N2 N3]].
    simpl in Hd. inversion Hd as [|? ? D1 D2]; subst. inversion D2 as [|? ? D3 D4]; subst.
    destruct Hp as [P1 P2].
    destruct (pub_marker used F M g (mk_path it) (pf_content (it_marker it)) H N1) as [g1 [C1 [G1 _]]]; auto.
    { apply Hu. simpl. auto. }
    destruct (pub_file' (mk_path it :: used) F (mk_path it :: M) g1 (it_file it) G1 N2) as [g2 [C2 G2]]; auto.
    { intros [E|E]; [apply D1; left; auto|]. eapply Hu; [|exact E]. simpl. auto. }
    assert (Hn' : forall it0, In it0 l -> name_ok (mk_path it0) = true /\ name_ok (fl_path it0) = true /\ refs (pf_content (it_marker it0)) = [])
      by (intros; apply Hn; right; auto).
    assert (Hu' : forall x, In x (inter l) -> ~ In x (fl_path it :: mk_path it :: used)).
    { intros x Hx. intros [E|[E|E]].
      - subst x. apply D3. exact Hx.
      - subst x. apply D1. right. exact Hx.
      - eapply Hu; [|exact E]. simpl. auto. }
    destruct (IH (fl_path it :: mk_path it :: used) (it_file it :: F) (mk_path it :: M) g2 G2 Hn' D4 Hu' P2) as [g3 [C3 G3]].
    exists g3. split.
    + cbn [flat_map]. unfold pub_item at 1. rewrite !checks_app.
      fold (mk_path it). rewrite C1.
      replace ((if b then publish_data else publish_meta) (pf_path (it_file it)) (pf_content (it_file it)))
        with (publish_meta (pf_path (it_file it)) (pf_content (it_file it))) by (destruct b; reflexivity).
      rewrite C2. exact C3.
    + simpl. rewrite <- !app_assoc. simpl. exact G3.
Qed.

Lemma inter_perm_in : forall l x, In x (inter l) <-> In x (map mk_path l) \/ In x (map fl_path l).
Proof.
  induction l as [|it l IH]; simpl; intro x; [tauto|]. rewrite IH. tauto.
Qed.

Lemma NoDup_inter : forall l, NoDup (map mk_path l ++ map fl_path l) -> NoDup (inter l).
Proof.
  induction l as [|it l IH]; simpl; intro H; [constructor|].
  inversion H as [|? ? H1 H2]; subst.
  assert (Hf : ~ In (fl_path it) (map mk_path l ++ map fl_path l) /\ NoDup (map mk_path l ++ map fl_path l)).
  { split; [eapply NoDup_remove_2; eauto|eapply NoDup_remove_1; eauto]. }
  destruct Hf as [Hf Hnd]. constructor; [|constructor].
  - intros [E|E].
    + apply H1. apply in_or_app. right. left. auto.
    + apply H1. apply in_or_app. apply inter_perm_in in E. destruct E; [left; auto|right; right; auto].
  - intro E. apply Hf. apply inter_perm_in in E. apply in_or_app. tauto.
  - auto.
Qed.

(* ---------------------------------------------------------------- one commit *)
Lemma del_markers : forall ms used F M g, G used F M g -> (forall m, In m ms -> In m M) -> NoDup ms ->
  exists g' M', checks g (map Unlink ms) = Some g' /\ G used F M' g' /\ st g' PTR = st g PTR
    /\ (forall x, In x M -> ~ In x ms -> In x M').
Proof.
  induction ms as [|m ms IH]; intros used F M g H Hin Hnd.
  - exists g, M. simpl. auto.
  - cbn [map checks]. inversion Hnd as [|? ? N1 N2]; subst.
    destruct (del_marker used F M g m H (Hin m (or_introl eq_refl))) as [g1 [C1 G1]].
    destruct (IH used F (remove path_eq_dec m M) g1 G1) as [g2 [M2 [C2 [G2 [S2 K2]]]]]; auto.
    { intros m' Hm'. apply in_in_remove; [intro; subst; auto|apply Hin; now right]. }
    exists g2, M2. rewrite C1. split; [exact C2|]. split; [exact G2|]. split.
    2:{ intros x Hx Hnx. apply K2; [apply in_in_remove; auto; intro; subst; apply Hnx; now left|intro; apply Hnx; now right]. }
    rewrite S2.
    destruct (g_marks _ _ _ _ H m (Hin m (or_introl eq_refl))) as [_ [B _]]. destruct (name_ok_spec _ B) as [Hf Hp].
    destruct m as [d n|]; [|discriminate]. cbn [check] in C1.
    destruct (negb (path_eqb (P d n) PTR) && negb (refd g (P d n)) && match st g (P d n) with Linked _ _ => true | _ => false end);
      [|discriminate].
    inversion C1; subst. cbn [st]. apply upd_s_other. auto.
Qed.

Lemma flat_map_pub_item_b : forall l, flat_map (pub_item true) l = flat_map (pub_item false) l.
Proof. induction l as [|it l IH]; simpl; [reflexivity|]. now rewrite IH. Qed.

Lemma commit_body_eq : forall c, commit_body c =
  flat_map (pub_item false) (items c) ++ publish_meta (pf_path (c_meta c)) (pf_content (c_meta c)) ++ publish_meta PTR (c_ptr c).
Proof.
  intro c. unfold commit_body, items. rewrite !flat_map_app, flat_map_pub_item_b, <- !app_assoc. reflexivity.
Qed.

Lemma forallb_In : forall {A} (f : A -> bool) l x, forallb f l = true -> In x l -> f x = true.
Proof. intros A f l x H Hin. rewrite forallb_forall in H. auto. Qed.

Lemma incl_rev_l : forall {A} (l m : list A), incl l m -> incl (rev l) m.
Proof. intros A l m H x Hx. apply H. now apply in_rev. Qed.

Theorem commit_ok : forall c used avail usedG F g,
  wf_commit used avail c = true -> G usedG F [] g -> incl usedG used -> incl avail (map pf_path F) ->
  exists g1 g' usedG' F' M1,
    checks g (commit_body c) = Some g1 /\ checks g1 (commit_cleanup c) = Some g'
    /\ G usedG' F' M1 g1 /\ G usedG' F' [] g'
    /\ st g1 PTR = Linked (c_ptr c) true /\ st g' PTR = Linked (c_ptr c) true
    /\ incl usedG' (names_of_commit c ++ used)
    /\ incl (map pf_path (files_of_commit c) ++ avail) (map pf_path F')
    /\ incl F F' /\ incl (files_of_commit c) F' /\ incl F' (files_of_commit c ++ F).
Proof.
  intros c used avail usedG F g Hwf HG Hiu Hia.
  unfold wf_commit in Hwf.
  apply andb_prop in Hwf as [Hwf W6]. apply andb_prop in Hwf as [Hwf W5]. apply andb_prop in Hwf as [Hwf W4].
  apply andb_prop in Hwf as [Hwf W3]. apply andb_prop in Hwf as [W1 W2].
  set (its := items c) in *.
  assert (Hnames : names_of_commit c = map mk_path its ++ map fl_path its ++ [pf_path (c_meta c)]).
  { unfold names_of_commit, files_of_commit. fold its. rewrite map_app, map_map. reflexivity. }
  rewrite Hnames in W1, W2, W3.
  apply nodup_b_spec in W2.
  assert (Hnd : NoDup (map mk_path its ++ map fl_path its) /\ ~ In (pf_path (c_meta c)) (map mk_path its ++ map fl_path its)).
  { rewrite app_assoc in W2. apply NoDup_remove in W2. rewrite app_nil_r in W2. exact W2. }
  destruct Hnd as [Hnd Hmeta].
  assert (Hfresh : forall x, In x (map mk_path its ++ map fl_path its ++ [pf_path (c_meta c)]) -> ~ In x usedG).
  { intros x Hx Hu. apply Hiu in Hu. apply (forallb_In _ _ _ W3) in Hx. apply mem_In in Hu. rewrite Hu in Hx. discriminate. }
  assert (Hpubs : pubs_ok (map pf_path F) (map it_file its ++ [c_meta c])).
  { eapply wf_pubs_spec; eauto. }
  destruct (pubs_ok_app _ _ _ Hpubs) as [Hp1 Hp2].
  (* items *)
  destruct (pub_items false its usedG F [] g HG) as [g2 [C2 G2]]; auto.
  { intros it Hit. repeat split.
    - apply (forallb_In _ _ _ W1). apply in_or_app. left. now apply in_map.
    - apply (forallb_In _ _ _ W1). apply in_or_app. right. apply in_or_app. left. now apply in_map.
    - pose proof (forallb_In _ _ _ W4 Hit) as E. simpl in E. destruct (refs (pf_content (it_marker it))); [reflexivity|discriminate]. }
  { now apply NoDup_inter. }
  { intros x Hx. apply Hfresh. apply inter_perm_in in Hx. rewrite app_assoc. apply in_or_app. left. apply in_or_app. tauto. }
  (* metadata file *)
  destruct (pub_file' _ _ _ g2 (c_meta c) G2) as [g3 [C3 G3]].
  { apply (forallb_In _ _ _ W1). rewrite app_assoc. apply in_or_app. right. now left. }
  { intro Hx. apply in_app_or in Hx as [Hx|Hx].
    - apply in_rev in Hx. apply inter_perm_in in Hx. apply Hmeta. apply in_or_app. tauto.
    - eapply Hfresh; [|exact Hx]. rewrite app_assoc. apply in_or_app. right. now left. }
  { destruct Hp2 as [Hp2 _]. intros r Hr. specialize (Hp2 r Hr). rewrite map_app, map_rev. exact Hp2. }
  (* pointer *)
  assert (Hptr : forall r, In r (refs (c_ptr c)) -> In r (map pf_path (c_meta c :: rev (map it_file its) ++ F))).
  { intros r Hr. destruct (refs (c_ptr c)) as [|v [|? ?]]; try discriminate.
    destruct (path_eqb_spec v (pf_path (c_meta c))); [|discriminate]. destruct Hr as [<-|[]]. subst v. now left. }
  destruct (pub_ptr _ _ _ g3 (c_ptr c) G3 Hptr) as [g4 [C4 [G4 S4]]].
  (* cleanup *)
  destruct (del_markers (map mk_path its) _ _ _ g4 G4) as [g5 [M5 [C5 [G5 [S5 _]]]]].
  { intros m Hm. apply in_or_app. left. now apply in_rev in Hm. }
  { clear - Hnd. induction (map mk_path its) as [|a l IH]; [constructor|]. simpl in Hnd. inversion Hnd; subst.
    constructor; auto. intro E. apply H1. apply in_or_app. now left. }
  exists g4, g5, (pf_path (c_meta c) :: rev (inter its) ++ usedG), (c_meta c :: rev (map it_file its) ++ F), (rev (map mk_path its) ++ []).
  split. { rewrite commit_body_eq, checks_app. fold its. rewrite C2, checks_app, C3. exact C4. }
  split. { unfold commit_cleanup. fold its. rewrite <- map_map with (f := mk_path) (g := Unlink). exact C5. }
  split. { exact G4. }
  split. { eapply G_drop_marks; eauto. }
  split. { exact S4. }
  split. { congruence. }
  split.
  { rewrite Hnames. intros x [<-|Hx].
    + apply in_or_app. left. rewrite app_assoc. apply in_or_app. right. now left.
    + apply in_app_or in Hx as [Hx|Hx].
      * apply in_rev in Hx. apply inter_perm_in in Hx. apply in_or_app. left. rewrite app_assoc. apply in_or_app. left. apply in_or_app. tauto.
      * apply in_or_app. right. auto. }
  split.
  { unfold files_of_commit. fold its. intros x Hx. apply in_app_or in Hx as [Hx|Hx].
    + rewrite map_app in Hx. apply in_app_or in Hx as [Hx|Hx].
      * simpl. right. rewrite map_app, map_rev. apply in_or_app. left. now apply in_rev in Hx.
      * destruct Hx as [<-|[]]. now left.
    + simpl. right. rewrite map_app. apply in_or_app. right. auto. }
  split.
  { intros x Hx. right. apply in_or_app. now right. }
  split.
  { unfold files_of_commit. fold its. intros x Hx. apply in_app_or in Hx as [Hx|[<-|[]]].
    + right. apply in_or_app. left. now apply in_rev in Hx.
    + now left. }
  unfold files_of_commit. fold its. intros x [<-|Hx].
  + apply in_or_app. left. apply in_or_app. right. now left.
  + apply in_app_or in Hx as [Hx|Hx].
    * apply in_or_app. left. apply in_or_app. left. now apply in_rev.
    * apply in_or_app. now right.
Qed.

(* ---------------------------------------------------------------- a whole history *)
(* a rolled-back transaction: every file it wrote is unlinked again; the pointer is untouched *)
Lemma pub_pairs : forall l used F M g, G used F M g ->
  (forall it, In it l -> name_ok (mk_path it) = true /\ name_ok (fl_path it) = true
                         /\ refs (pf_content (it_marker it)) = [] /\ refs (pf_content (it_file it)) = []) ->
  NoDup (inter l) -> (forall x, In x (inter l) -> ~ In x used) ->
  exists g', checks g (flat_map (pub_item true) l) = Some g'
    /\ G (rev (inter l) ++ used) F (rev (inter l) ++ M) g' /\ st g' PTR = st g PTR.
Proof.
  induction l as [|it l IH]; intros used F M g H Hn Hd Hu.
  - simpl. eauto.
  - destruct (Hn it (or_introl eq_refl)) as [N1 [N2 [N3 N4]]].
    simpl in Hd. inversion Hd as [|? ? D1 D2]; subst. inversion D2 as [|? ? D3 D4]; subst.
    destruct (pub_marker used F M g (mk_path it) (pf_content (it_marker it)) H N1) as [g1 [C1 [G1 S1]]]; auto.
    { apply Hu. simpl. auto. }
    destruct (pub_marker (mk_path it :: used) F (mk_path it :: M) g1 (fl_path it) (pf_content (it_file it)) G1 N2) as [g2 [C2 [G2 S2]]]; auto.
    { intros [E|E]; [apply D1; left; auto|]. eapply Hu; [|exact E]. simpl. auto. }
    assert (Hn' : forall it0, In it0 l -> name_ok (mk_path it0) = true /\ name_ok (fl_path it0) = true
                   /\ refs (pf_content (it_marker it0)) = [] /\ refs (pf_content (it_file it0)) = [])
      by (intros; apply Hn; right; auto).
    assert (Hu' : forall x, In x (inter l) -> ~ In x (fl_path it :: mk_path it :: used)).
    { intros x Hx. intros [E|[E|E]].
      - subst x. apply D3. exact Hx.
      - subst x. apply D1. right. exact Hx.
      - eapply Hu; [|exact E]. simpl. auto. }
    destruct (IH (fl_path it :: mk_path it :: used) F (fl_path it :: mk_path it :: M) g2 G2 Hn' D4 Hu') as [g3 [C3 [G3 S3]]].
    exists g3. split; [|split].
    + cbn [flat_map]. unfold pub_item at 1. rewrite !checks_app.
      fold (mk_path it). rewrite C1.
      replace ((if true then publish_data else publish_meta) (pf_path (it_file it)) (pf_content (it_file it)))
        with (publish_meta (fl_path it) (pf_content (it_file it))) by reflexivity.
      rewrite C2. exact C3.
    + simpl. rewrite <- !app_assoc. simpl. exact G3.
    + congruence.
Qed.

Lemma NoDup_app_swap : forall (a b : list path), NoDup (a ++ b) -> NoDup (b ++ a).
Proof.
  induction a as [|x a IH]; intros b H; simpl in *; [now rewrite app_nil_r|].
  inversion H; subst. apply NoDup_Add with (a := x) (l := b ++ a).
  - apply Add_app.
  - split; [apply IH; auto|]. intro E. apply H2. apply in_app_or in E. apply in_or_app. tauto.
Qed.

Lemma NoDup_app_remove_r' : forall (a b : list path), NoDup (a ++ b) -> NoDup a.
Proof.
  induction a as [|x a IH]; intros b H; [constructor|]. simpl in H. inversion H; subst.
  constructor; [|eapply IH; eauto]. intro E. apply H2. apply in_or_app. now left.
Qed.

Lemma NoDup_app_disj : forall (a b : list path), NoDup (a ++ b) -> forall x, In x a -> In x b -> False.
Proof.
  induction a as [|y a IH]; intros b H x Ha Hb; [contradiction|]. simpl in H. inversion H; subst.
  destruct Ha as [->|Ha]; [apply H2; apply in_or_app; now right|eapply IH; eauto].
Qed.

Theorem abort_ok : forall its used usedG F g,
  wf_abort used its = true -> G usedG F [] g -> incl usedG used ->
  exists g' usedG', checks g (abort_trace its) = Some g' /\ G usedG' F [] g'
    /\ incl usedG' (names_of_abort its ++ used) /\ st g' PTR = st g PTR.
Proof.
  intros its used usedG F g Hwf HG Hiu. unfold wf_abort in Hwf.
  apply andb_prop in Hwf as [Hwf W4]. apply andb_prop in Hwf as [Hwf W3]. apply andb_prop in Hwf as [W1 W2].
  assert (Hnames : names_of_abort its = map mk_path its ++ map fl_path its) by reflexivity.
  rewrite Hnames in *. apply nodup_b_spec in W2.
  destruct (pub_pairs its usedG F [] g HG) as [g1 [C1 [G1 S1]]].
  { intros it Hit. pose proof (forallb_In _ _ _ W4 Hit) as E. simpl in E. apply andb_prop in E as [E1 E2]. unfold no_refs in E1, E2.
    repeat split.
    - apply (forallb_In _ _ _ W1). apply in_or_app. left. now apply in_map.
    - apply (forallb_In _ _ _ W1). apply in_or_app. right. now apply in_map.
    - destruct (refs (pf_content (it_marker it))); [reflexivity|discriminate].
    - destruct (refs (pf_content (it_file it))); [reflexivity|discriminate]. }
  { now apply NoDup_inter. }
  { intros x Hx Hu. apply Hiu in Hu. apply inter_perm_in in Hx.
    assert (Hx' : In x (map mk_path its ++ map fl_path its)) by (apply in_or_app; tauto).
    apply (forallb_In _ _ _ W3) in Hx'. apply mem_In in Hu. rewrite Hu in Hx'. discriminate. }
  destruct (del_markers (map fl_path its ++ map mk_path its) _ _ _ g1 G1) as [g2 [M2 [C2 [G2 [S2 _]]]]].
  { intros m Hm. apply in_or_app. left. rewrite <- in_rev. apply inter_perm_in. apply in_app_or in Hm. tauto. }
  { now apply NoDup_app_swap. }
  exists g2, (rev (inter its) ++ usedG). split; [|split; [|split]].
  - unfold abort_trace. rewrite checks_app, C1. rewrite map_app, !map_map in C2. exact C2.
  - eapply G_drop_marks; eauto.
  - intros x Hx. apply in_app_or in Hx as [Hx|Hx].
    + apply in_rev in Hx. apply inter_perm_in in Hx. apply in_or_app. left. apply in_or_app. tauto.
    + apply in_or_app. right. auto.
  - congruence.
Qed.

(* ---------------------------------------------------------------- a whole history *)
(* a publish that fails at call k < 4 and cleans up leaves the ghost as it was; one whose directory
   fsync fails (k = 4) leaves the file linked under its name: used, unreferenced, entry not durable *)
Lemma G_ext : forall used F M g g', G used F M g ->
  (forall t, tmps g' t = None) -> st g' = st g -> refd g' = refd g -> G used F M g'.
Proof.
  intros used F M g g' H Ht Hs Hr. destruct H. constructor; rewrite ?Hs, ?Hr; auto.
Qed.

Lemma failed_ok : forall used F M g d n c k, G used F M g -> (k < 5)%nat ->
  name_ok (P d n) = true -> ~ In (P d n) used -> refs c = [] ->
  exists g', checks g (failed_of (publish_meta (P d n) c) (gen_write_file_on_error (T d n)) (T d n) k) = Some g'
    /\ G (P d n :: used) F M g' /\ st g' PTR = st g PTR.
Proof.
  intros used F M g d n c k H Hk Hn Hu Hrc. pose proof (g_tmps _ _ _ _ H) as Ht.
  destruct (name_ok_spec _ Hn) as [_ Hp].
  assert (Hfr : st g (P d n) = Fresh) by (apply (g_fresh _ _ _ _ H); auto).
  unfold failed_of, publish_meta, gen_write_file, gen_write_file_on_error. cbn [tmp_of dir_of].
  destruct k as [|[|[|[|[|k]]]]]; try lia; cbn [firstn tmp_live]; rewrite ?path_eqb_refl; cbn [app checks check]; rewrite ?Ht;
    cbn [checks check tmps st refd];
    rewrite ?upd_t_same; cbn [checks check tmps st refd]; rewrite ?upd_t_same; cbn [checks check tmps st refd];
    rewrite ?upd_t_same; cbn [checks check tmps st refd]; rewrite ?upd_t_same; cbn [checks check tmps st refd].
  5:{ (* the directory fsync failed: Create, Write, Fsync, Rename were issued *)
    cbn [app]. rewrite Hrc, Hfr. cbn [refs forallb andb checks]. eexists. split; [reflexivity|]. cbn [st].
    split; [|apply upd_s_other; auto].
    destruct H. constructor; cbn [tmps st refd].
    - intro t. unfold upd_t. repeat (destruct (path_eqb t (T d n)); auto).
    - intros q Hq Hnin. rewrite upd_s_other; [apply g_fresh0; auto; intro; apply Hnin; now right|intro E; apply Hnin; now left].
    - intros f Hin. destruct (g_files0 f Hin) as [A B]. split; auto. rewrite upd_s_other; auto. intro E. rewrite E in A. congruence.
    - intros m Hm. destruct (g_marks0 m Hm) as [[c0 A] [B [C D]]]. repeat split; auto.
      + exists c0. rewrite upd_s_other; auto. intro E. rewrite E in A. congruence.
      + rewrite C. reflexivity.
    - intros r Hr. cbn [existsb] in Hr. rewrite orb_false_r in Hr. auto.
    - intros c0 b Hq. rewrite upd_s_other in Hq by auto. eauto.
    - rewrite upd_s_other; auto. }
  all: eexists; split; [reflexivity|]; split; [|reflexivity].
  all: apply G_weaken; eapply G_ext; [exact H| |reflexivity|reflexivity].
  all: intro t; cbn [tmps]; unfold upd_t; repeat (destruct (path_eqb t (T d n)); auto).
Qed.

Theorem fail_ok : forall its mk fl k used usedG F g,
  wf_fail used its mk fl k = true -> G usedG F [] g -> incl usedG used ->
  exists g' usedG', checks g (fail_trace its mk fl k) = Some g' /\ G usedG' F [] g'
    /\ incl usedG' (names_of_fail its mk fl ++ used) /\ st g' PTR = st g PTR.
Proof.
  intros its mk fl k used usedG F g Hwf HG Hiu. unfold wf_fail in Hwf.
  apply andb_prop in Hwf as [Hwf W7]. apply andb_prop in Hwf as [Hwf W6]. apply andb_prop in Hwf as [Hwf W5].
  apply andb_prop in Hwf as [Hwf W4]. apply andb_prop in Hwf as [Hwf W3]. apply andb_prop in Hwf as [W1 W2].
  apply Nat.ltb_lt in W7. apply nodup_b_spec in W2.
  set (tail := pf_path mk :: match fl with None => [] | Some f => [pf_path f] end) in *.
  assert (Hnames : names_of_fail its mk fl = (map mk_path its ++ map fl_path its) ++ tail) by reflexivity.
  rewrite Hnames in *.
  assert (Hnd1 : NoDup (map mk_path its ++ map fl_path its)) by (eapply NoDup_app_remove_r'; eauto).
  assert (Hfresh : forall x, In x ((map mk_path its ++ map fl_path its) ++ tail) -> ~ In x usedG).
  { intros x Hx Hu. apply Hiu in Hu. apply (forallb_In _ _ _ W3) in Hx. apply mem_In in Hu. rewrite Hu in Hx. discriminate. }
  destruct (pub_pairs its usedG F [] g HG) as [g1 [C1 [G1 S1]]].
  { intros it Hit. pose proof (forallb_In _ _ _ W4 Hit) as E. simpl in E. apply andb_prop in E as [E1 E2]. unfold no_refs in E1, E2.
    repeat split.
    - apply (forallb_In _ _ _ W1). apply in_or_app. left. apply in_or_app. left. now apply in_map.
    - apply (forallb_In _ _ _ W1). apply in_or_app. left. apply in_or_app. right. now apply in_map.
    - destruct (refs (pf_content (it_marker it))); [reflexivity|discriminate].
    - destruct (refs (pf_content (it_file it))); [reflexivity|discriminate]. }
  { now apply NoDup_inter. }
  { intros x Hx. apply Hfresh. apply in_or_app. left. apply inter_perm_in in Hx. apply in_or_app. tauto. }
  assert (Hmk_ok : name_ok (pf_path mk) = true).
  { apply (forallb_In _ _ _ W1). apply in_or_app. right. now left. }
  assert (Hmk_new : ~ In (pf_path mk) (rev (inter its) ++ usedG)).
  { intro E. apply in_app_or in E as [E|E].
    - apply in_rev in E. apply inter_perm_in in E.
      eapply (NoDup_app_disj _ _ W2 (pf_path mk)); [apply in_or_app; tauto|now left].
    - eapply Hfresh; [|exact E]. apply in_or_app. right. now left. }
  destruct fl as [f|].
  - (* marker published, data file's publish failed *)
    destruct (pub_marker _ F _ g1 (pf_path mk) (pf_content mk) G1 Hmk_ok Hmk_new) as [g2 [C2 [G2 S2]]].
    { unfold no_refs in W5. destruct (refs (pf_content mk)); [reflexivity|discriminate]. }
    assert (Hf_ok : name_ok (pf_path f) = true).
    { apply (forallb_In _ _ _ W1). apply in_or_app. right. right. now left. }
    assert (Hf_new : ~ In (pf_path f) (pf_path mk :: rev (inter its) ++ usedG)).
    { assert (Hnd2 : NoDup tail) by (apply NoDup_app_swap in W2; eapply NoDup_app_remove_r'; eauto).
      intros [E|E].
      - unfold tail in Hnd2. inversion Hnd2 as [|? ? N1 N2]; subst. apply N1. rewrite E. now left.
      - apply in_app_or in E as [E|E].
        + apply in_rev in E. apply inter_perm_in in E.
          eapply (NoDup_app_disj _ _ W2 (pf_path f)); [apply in_or_app; tauto|right; now left].
        + eapply Hfresh; [|exact E]. apply in_or_app. right. right. now left. }
    assert (Hf_refs : refs (pf_content f) = []).
    { unfold no_refs in W6. destruct (refs (pf_content f)); [reflexivity|discriminate]. }
    destruct (name_ok_spec _ Hf_ok) as [Hff _]. destruct (pf_path f) as [d n|] eqn:Ef; [|discriminate].
    change (k < 5)%nat in W7.
    destruct (failed_ok _ F _ g2 d n (pf_content f) k G2 W7 Hf_ok Hf_new Hf_refs) as [g3 [C3 [G3 S3]]].
    destruct (del_markers ((map fl_path its ++ map mk_path its) ++ [pf_path mk]) _ _ _ g3 G3) as [g4 [M4 [C4 [G4 [S4 _]]]]].
    { intros m Hm. apply in_app_or in Hm as [Hm|[<-|[]]]; [|now left].
      right. apply in_or_app. left. rewrite <- in_rev. apply inter_perm_in. apply in_app_or in Hm. tauto. }
    { apply NoDup_app_swap. simpl. constructor.
      - intro E. eapply (NoDup_app_disj _ _ W2 (pf_path mk)); [|now left]. apply in_app_or in E. apply in_or_app. tauto.
      - now apply NoDup_app_swap. }
    exists g4, (P d n :: pf_path mk :: rev (inter its) ++ usedG). split; [|split; [|split]].
    + unfold fail_trace. rewrite checks_app, C1, checks_app, checks_app, C2.
      change (publish_data (pf_path f) (pf_content f)) with (publish_meta (pf_path f) (pf_content f)).
      change (gen_data_writer_on_error (tmp_of (pf_path f))) with (gen_write_file_on_error (tmp_of (pf_path f))).
      rewrite Ef. cbn [tmp_of]. rewrite C3.
      rewrite !map_app, !map_map in C4. simpl in C4. rewrite <- app_assoc in C4. exact C4.
    + eapply G_drop_marks; eauto.
    + intros x [<-|[<-|Hx]].
      * apply in_or_app. left. apply in_or_app. right. right. now left.
      * apply in_or_app. left. apply in_or_app. right. now left.
      * apply in_app_or in Hx as [Hx|Hx].
        -- apply in_rev in Hx. apply inter_perm_in in Hx. apply in_or_app. left. apply in_or_app. left. apply in_or_app. tauto.
        -- apply in_or_app. right. auto.
    + congruence.
  - (* the marker's publish failed *)
    assert (Hmk_refs : refs (pf_content mk) = []).
    { unfold no_refs in W5. destruct (refs (pf_content mk)); [reflexivity|discriminate]. }
    destruct (name_ok_spec _ Hmk_ok) as [Hmf _]. destruct (pf_path mk) as [d n|] eqn:Em; [|discriminate].
    change (k < 5)%nat in W7.
    destruct (failed_ok _ F _ g1 d n (pf_content mk) k G1 W7 Hmk_ok Hmk_new Hmk_refs) as [g3 [C3 [G3 S3]]].
    destruct (del_markers (map fl_path its ++ map mk_path its) _ _ _ g3 G3) as [g4 [M4 [C4 [G4 [S4 _]]]]].
    { intros m Hm. apply in_or_app. left. rewrite <- in_rev. apply inter_perm_in. apply in_app_or in Hm. tauto. }
    { now apply NoDup_app_swap. }
    exists g4, (P d n :: rev (inter its) ++ usedG). split; [|split; [|split]].
    + unfold fail_trace. rewrite checks_app, C1, checks_app, Em. cbn [tmp_of]. rewrite C3.
      rewrite app_nil_r. rewrite map_app, !map_map in C4. exact C4.
    + eapply G_drop_marks; eauto.
    + intros x [<-|Hx]; [apply in_or_app; left; apply in_or_app; right; now left|].
      apply in_app_or in Hx as [Hx|Hx].
      * apply in_rev in Hx. apply inter_perm_in in Hx. apply in_or_app. left. apply in_or_app. left. apply in_or_app. tauto.
      * apply in_or_app. right. auto.
    + congruence.
Qed.

Fixpoint used_after (used : list path) (ops : list op) : list path :=
  match ops with [] => used | o :: ops' => used_after (names_of_op o ++ used) ops' end.
Fixpoint avail_after (avail : list path) (ops : list op) : list path :=
  match ops with [] => avail | o :: ops' => avail_after (map pf_path (files_of_op o) ++ avail) ops' end.

Lemma wf_from_app : forall l1 l2 used avail, wf_from used avail (l1 ++ l2) =
  wf_from used avail l1 && wf_from (used_after used l1) (avail_after avail l1) l2.
Proof.
  induction l1 as [|c l1 IH]; intros l2 used avail; simpl; [reflexivity|].
  rewrite IH. now rewrite andb_assoc.
Qed.

Theorem history_ok : forall ops used avail usedG F g,
  wf_from used avail ops = true -> G usedG F [] g -> incl usedG used -> incl avail (map pf_path F) ->
  exists g' usedG' F',
    checks g (trace_of ops) = Some g' /\ G usedG' F' [] g'
    /\ incl usedG' (used_after used ops) /\ incl (avail_after avail ops) (map pf_path F')
    /\ incl (files_of ops ++ F) F' /\ incl F' (files_of ops ++ F).
Proof.
  induction ops as [|o ops IH]; intros used avail usedG F g Hwf HG Hiu Hia.
  - exists g, usedG, F. simpl. repeat (split; auto); try apply incl_refl.
  - simpl in Hwf. apply andb_prop in Hwf as [W1 W2]. destruct o as [c|its|its mk fl k].
    + destruct (commit_ok c used avail usedG F g W1 HG Hiu Hia)
        as [g1 [g2 [u2 [F2 [M1 [C1 [C2 [G1 [G2 [S1 [S2 [I1 [I2 [I3 [I4 I5]]]]]]]]]]]]]]].
      destruct (IH _ _ u2 F2 g2 W2 G2 I1 I2) as [g3 [u3 [F3 [C3 [G3 [J1 [J2 [J3 J4]]]]]]]].
      exists g3, u3, F3. split.
      { cbn [trace_of flat_map trace_of_op]. unfold trace_of_commit. rewrite !checks_app, C1, C2. exact C3. }
      split; [exact G3|]. split; [exact J1|]. split; [exact J2|]. split.
      { cbn [files_of flat_map files_of_op]. intros x Hx. apply J3. apply in_app_or in Hx as [Hx|Hx].
        - apply in_app_or in Hx as [Hx|Hx]; apply in_or_app; [right; apply I4; auto|left; auto].
        - apply in_or_app. right. apply I3. auto. }
      cbn [files_of flat_map files_of_op]. intros x Hx. apply J4 in Hx. apply in_app_or in Hx as [Hx|Hx].
      * apply in_or_app. left. apply in_or_app. now right.
      * apply I5 in Hx. apply in_app_or in Hx as [Hx|Hx]; apply in_or_app; [left; apply in_or_app; now left|now right].
    + destruct (abort_ok its used usedG F g W1 HG Hiu) as [g2 [u2 [C2 [G2 [I1 S2]]]]].
      simpl in W2. destruct (IH _ _ u2 F g2 W2 G2 I1 Hia) as [g3 [u3 [F3 [C3 [G3 [J1 [J2 [J3 J4]]]]]]]].
      exists g3, u3, F3. split.
      { cbn [trace_of flat_map trace_of_op]. rewrite checks_app, C2. exact C3. }
      split; [exact G3|]. split; [exact J1|]. split; [exact J2|]. split; [exact J3|exact J4].
    + destruct (fail_ok its mk fl k used usedG F g W1 HG Hiu) as [g2 [u2 [C2 [G2 [I1 S2]]]]].
      simpl in W2. destruct (IH _ _ u2 F g2 W2 G2 I1 Hia) as [g3 [u3 [F3 [C3 [G3 [J1 [J2 [J3 J4]]]]]]]].
      exists g3, u3, F3. split.
      { cbn [trace_of flat_map trace_of_op]. rewrite checks_app, C2. exact C3. }
      split; [exact G3|]. split; [exact J1|]. split; [exact J2|]. split; [exact J3|exact J4].
Qed.

(* ---------------------------------------------------------------- the ghost only grows *)
Lemma check_mono : forall g c g', check g c = Some g' ->
  (forall k, refd g k = true -> refd g' k = true)
  /\ (forall k c0 b, st g k = Linked c0 b -> k <> PTR -> (exists b', st g' k = Linked c0 b') \/ st g' k = Dead).
Proof.
  intros g c g' H. destruct c as [p|p w|p|p q|dd|p|dd]; simpl in H.
  - destruct p; [discriminate|]. destruct (tmps g (T d n)); [discriminate|]. inversion H; subst. simpl. eauto.
  - destruct p; [discriminate|]. destruct (tmps g (T d n)) as [[? ?]|]; [|discriminate]. inversion H; subst. simpl. eauto.
  - destruct p; [discriminate|]. destruct (tmps g (T d n)) as [[? ?]|]; [|discriminate]. inversion H; subst. simpl. eauto.
  - destruct p; [discriminate|]. destruct q as [d' n'|]; [|discriminate].
    destruct (tmps g (T d n)) as [[c1 [|]]|]; try discriminate.
    destruct (forallb (ref_ok g) (refs c1) && _) eqn:E; [|discriminate]. inversion H; subst. simpl. split.
    + intros k Hk. now rewrite Hk.
    + intros k c0 b Hk Hp. unfold upd_s. destruct (path_eqb_spec k (P d' n')) as [->|]; [|eauto].
      apply andb_prop in E as [_ E]. rewrite Hk in E. apply andb_prop in E as [E1 E2]. apply N.eqb_eq in E1, E2. subst. elim Hp. reflexivity.
  - inversion H; subst. simpl. split; auto. intros k c0 b Hk Hp. rewrite Hk. destruct (dir_of k =? dd); eauto.
  - destruct p as [d n|d n].
    + match type of H with (if ?x then _ else _) = _ => destruct x; [|discriminate] end. inversion H; subst. simpl.
      split; auto. intros k c0 b Hk Hp. unfold upd_s. destruct (path_eqb k (P d n)); eauto.
    + destruct (tmps g (T d n)); [|discriminate]. inversion H; subst. simpl. eauto.
  - inversion H; subst. eauto.
Qed.

Lemma checks_mono : forall tr g g', checks g tr = Some g' ->
  (forall k, refd g k = true -> refd g' k = true)
  /\ (forall k c0 b, st g k = Linked c0 b -> k <> PTR -> (exists b', st g' k = Linked c0 b') \/ st g' k = Dead).
Proof.
  induction tr as [|c tr IH]; intros g g' H; simpl in H.
  - inversion H; subst. eauto.
  - destruct (check g c) as [g1|] eqn:E; [|discriminate].
    destruct (check_mono _ _ _ E) as [A1 A2]. destruct (IH _ _ H) as [B1 B2]. split; auto.
    intros k c0 b Hk Hp. destruct (A2 k c0 b Hk Hp) as [[b' Hb]|Hd]; eauto.
    (* Dead stays Dead *)
    right. clear - Hd H. revert g1 Hd H. induction tr as [|c' tr IH]; intros g1 Hd H; simpl in H.
    + inversion H; subst; auto.
    + destruct (check g1 c') as [g2|] eqn:E; [|discriminate]. eapply IH; [|exact H].
      destruct c' as [p|p w|p|p q|dd|p|dd]; simpl in E.
      * destruct p; [discriminate|]. destruct (tmps g1 (T d n)); [discriminate|]. inversion E; subst. auto.
      * destruct p; [discriminate|]. destruct (tmps g1 (T d n)) as [[? ?]|]; [|discriminate]. inversion E; subst. auto.
      * destruct p; [discriminate|]. destruct (tmps g1 (T d n)) as [[? ?]|]; [|discriminate]. inversion E; subst. auto.
      * destruct p; [discriminate|]. destruct q as [d' n'|]; [|discriminate].
        destruct (tmps g1 (T d n)) as [[c1 [|]]|]; try discriminate.
        destruct (forallb (ref_ok g1) (refs c1) && _) eqn:E2; [|discriminate]. inversion E; subst. simpl.
        unfold upd_s. destruct (path_eqb_spec k (P d' n')) as [->|]; auto.
        apply andb_prop in E2 as [_ E2]. rewrite Hd in E2. discriminate.
      * inversion E; subst. simpl. rewrite Hd. destruct (dir_of k =? dd); auto.
      * destruct p as [d n|d n].
        -- match type of E with (if ?x then _ else _) = _ => destruct x; [|discriminate] end. inversion E; subst. simpl.
           unfold upd_s. destruct (path_eqb k (P d n)); auto.
        -- destruct (tmps g1 (T d n)); [|discriminate]. inversion E; subst. auto.
      * inversion E; subst. auto.
Qed.

Lemma lookup_pub_some : forall l k c, lookup_pub k l = Some c -> exists f, In f l /\ pf_path f = k /\ pf_content f = c.
Proof.
  induction l as [|f l IH]; simpl; intros k c H; [discriminate|].
  destruct (path_eqb_spec k (pf_path f)).
  - inversion H; subst. eauto.
  - destruct (IH _ _ H) as [f' [A B]]. eauto.
Qed.

Lemma lookup_pub_in : forall l f, In f l -> exists c, lookup_pub (pf_path f) l = Some c.
Proof.
  induction l as [|f0 l IH]; simpl; intros f H; [contradiction|].
  destruct (path_eqb_spec (pf_path f) (pf_path f0)); [eauto|]. destruct H as [->|H]; [congruence|auto].
Qed.

(* ---------------------------------------------------------------- the ops-level theorems *)
Lemma wf_checks : forall ops, wf ops = true ->
  exists g' used' F', checks g0 (trace_of ops) = Some g' /\ G used' F' [] g'
    /\ incl (files_of ops) F' /\ incl F' (files_of ops).
Proof.
  intros ops H. destruct (history_ok ops [] [] [] [] g0 H G_init (incl_refl _) (incl_refl _))
    as [g' [u' [F' [C [HG [_ [_ [I1 I2]]]]]]]].
  rewrite app_nil_r in I1, I2. eauto 8.
Qed.

(* what a prefix's ghost knows about a referenced file is what the history intends *)
Lemma intended_tie : forall ops g1 g' used' F' tr2 k c,
  G used' F' [] g' -> incl (files_of ops) F' -> incl F' (files_of ops) ->
  checks g1 tr2 = Some g' -> refd g1 k = true -> st g1 k = Linked c true -> k <> PTR ->
  intended ops k = Some c.
Proof.
  intros ops g1 g' used' F' tr2 k c HG I1 I2 Hc Hr Hs Hp.
  destruct (checks_mono _ _ _ Hc) as [M1 M2].
  pose proof (g_refd _ _ _ _ HG k (M1 k Hr)) as Hin. apply in_map_iff in Hin as [f [E Hf]].
  destruct (lookup_pub_in (files_of ops) f (I2 f Hf)) as [c' Hl]. rewrite E in Hl.
  unfold intended. rewrite Hl. f_equal.
  destruct (lookup_pub_some _ _ _ Hl) as [f' [A [B C]]].
  destruct (g_files _ _ _ _ HG f' (I1 f' A)) as [S _]. rewrite B, C in S.
  destruct (M2 k c true Hs Hp) as [[b' Hb]|Hd]; congruence.
Qed.

Theorem durable_prefix : forall ops, wf ops = true ->
  forall n es, calls_of es = firstn n (trace_of ops) ->
  exists s', run fs0 es = Some s' /\ safe_state s' /\
    forall v, pointer (power_loss s') = Some v ->
    forall k, reachable_from ops v k ->
      exists c, intended ops k = Some c /\ content_at (power_loss s') k = Some c /\ content_at (vol s') k = Some c.
Proof.
  intros ops Hwf n es Hes.
  destruct (wf_checks ops Hwf) as [g' [u' [F' [Hc [HG [I1 I2]]]]]].
  rewrite <- (firstn_skipn n (trace_of ops)) in Hc. rewrite checks_app in Hc.
  destruct (checks g0 (firstn n (trace_of ops))) as [g1|] eqn:H1; [|discriminate].
  rewrite <- Hes in H1. destruct (Inv_run es g0 fs0 g1 H1 Inv_init) as [s' [Hr I]].
  exists s'. split; auto. split; [eapply Inv_safe; eauto|].
  intros v Hv k Hk. unfold pointer, content_at, power_loss in Hv.
  destruct (dE s' PTR) as [i|] eqn:Hi; [|discriminate].
  destruct (refs (dD s' i)) as [|v0 [|? ?]] eqn:Hrf; try discriminate. inversion Hv; subst v0.
  assert (Hrv : refd g1 v = true). { eapply (i_ptr _ _ I); eauto. rewrite Hrf. now left. }
  assert (Hall : refd g1 k = true /\ exists c, intended ops k = Some c /\ st g1 k = Linked c true).
  { induction Hk as [v|v k k' Hk IH [c [Hic Hin]]].
    - split; auto. destruct (refd_durable _ _ _ I Hrv) as [c [j [A [B _]]]]. exists c. split; auto.
      eapply intended_tie; eauto.
    - destruct (IH Hv Hrf Hrv) as [Rk [c0 [Ic Sk]]]. rewrite Ic in Hic. inversion Hic; subst c0.
      assert (Rk' : refd g1 k' = true).
      { destruct (i_refd _ _ I _ Rk) as [Hf _]. destruct k; [|discriminate]. eapply (i_refs _ _ I); eauto. }
      split; auto. destruct (refd_durable _ _ _ I Rk') as [c' [j [A [B _]]]]. exists c'. split; auto.
      eapply intended_tie; eauto. }
  destruct Hall as [Rk [c [Ic Sk]]]. exists c. split; auto.
  destruct (refd_durable _ _ _ I Rk) as [c' [j [A [B [C [D [E F]]]]]]].
  assert (Ec : c' = c) by congruence. rewrite Ec in *. unfold content_at, power_loss. rewrite C, E, D, F. auto.
Qed.

(* Unlink never touches the pointer's state *)
Lemma unlinks_ptr : forall ms g g', checks g (map Unlink ms) = Some g' -> st g' PTR = st g PTR.
Proof.
  induction ms as [|m ms IH]; intros g g' H; simpl in H.
  - inversion H; auto.
  - destruct m as [d n|d n].
    + match type of H with match (if ?x then _ else _) with _ => _ end = _ => destruct x eqn:E; [|discriminate] end.
      rewrite (IH _ _ H). simpl. apply andb_prop in E as [E _]. apply andb_prop in E as [E _].
      unfold upd_s. destruct (path_eqb PTR (P d n)) eqn:E2; auto.
      destruct (path_eqb_spec PTR (P d n)); [|discriminate]. inversion e; subst. discriminate.
    + destruct (tmps g (T d n)); [|discriminate]. rewrite (IH _ _ H). reflexivity.
Qed.

Lemma trace_of_app : forall l1 l2, trace_of (l1 ++ l2) = trace_of l1 ++ trace_of l2.
Proof. intros. unfold trace_of. apply flat_map_app. Qed.

Theorem acked_durable : forall ops c, wf (ops ++ [OCommit c]) = true ->
  forall n es, (length (trace_of ops ++ commit_body c) <= n)%nat ->
  calls_of es = firstn n (trace_of (ops ++ [OCommit c])) ->
  exists s', run fs0 es = Some s' /\ pointer (power_loss s') = Some (pf_path (c_meta c)) /\ pointer (vol s') = Some (pf_path (c_meta c)).
Proof.
  intros ops c Hwf n es Hn Hes.
  unfold wf in Hwf. rewrite wf_from_app in Hwf. apply andb_prop in Hwf as [W1 W2].
  destruct (history_ok ops [] [] [] [] g0 W1 G_init (incl_refl _) (incl_refl _))
    as [g1 [u1 [F1 [C1 [G1 [J1 [J2 _]]]]]]].
  cbn [wf_from wf_op] in W2. rewrite andb_true_r in W2.
  destruct (commit_ok c _ _ u1 F1 g1 W2 G1 J1 J2) as [g2 [g3 [u3 [F3 [M3 [C2 [C3 [G2 [G3 [S2 _]]]]]]]]]].
  assert (Htr : trace_of (ops ++ [OCommit c]) = (trace_of ops ++ commit_body c) ++ commit_cleanup c).
  { rewrite trace_of_app. cbn [trace_of flat_map trace_of_op]. rewrite app_nil_r. unfold trace_of_commit. now rewrite app_assoc. }
  rewrite Htr in Hes. rewrite firstn_app in Hes. rewrite firstn_all2 in Hes by exact Hn.
  unfold commit_cleanup in Hes, C3. rewrite firstn_map in Hes.
  set (k := (n - length (trace_of ops ++ commit_body c))%nat) in *.
  assert (Hpre : exists gk, checks g2 (map (fun it => Unlink (pf_path (it_marker it))) (firstn k (items c))) = Some gk).
  { rewrite <- (firstn_skipn k (items c)) in C3. rewrite map_app, checks_app in C3.
    destruct (checks g2 (map (fun it => Unlink (pf_path (it_marker it))) (firstn k (items c)))); [eauto|discriminate]. }
  destruct Hpre as [gk Ck].
  assert (Hck : checks g0 (calls_of es) = Some gk).
  { rewrite Hes, checks_app, checks_app, C1, C2. exact Ck. }
  destruct (Inv_run es g0 fs0 gk Hck Inv_init) as [s' [Hr I]]. exists s'. split; auto.
  assert (Sk : st gk PTR = Linked (c_ptr c) true).
  { rewrite <- S2. rewrite <- map_map with (f := fun it => pf_path (it_marker it)) (g := Unlink) in Ck. eapply unlinks_ptr; eauto. }
  destruct (i_linked _ _ I 0 0 _ _ Sk) as [i [V1 V2]]. specialize (V2 eq_refl).
  destruct (i_vol _ _ I 0 0 i V1) as [c' [b' [E1 [E2 E3]]]]. fold PTR in E1. rewrite Sk in E1. inversion E1 as [[Ec Eb]]. rewrite <- Ec in E2, E3.
  unfold wf_commit in W2. apply andb_prop in W2 as [_ W6].
  unfold pointer, content_at, power_loss. fold PTR in V1, V2. rewrite V1, V2, E2, E3.
  destruct (refs (c_ptr c)) as [|v [|? ?]]; try discriminate.
  destruct (path_eqb_spec v (pf_path (c_meta c))); [subst; auto|discriminate].
Qed.

(* ---------------------------------------------------------------- acknowledged commits stay durable
   while later transactions are rolled back *)
Definition no_ptr_rename (c : call) : Prop := forall t, c <> Rename t PTR.

Lemma check_ptr_stable : forall g c g' cp, check g c = Some g' -> no_ptr_rename c ->
  st g PTR = Linked cp true -> st g' PTR = Linked cp true.
Proof.
  intros g c g' cp H Hn Hs. destruct c as [p|p w|p|p q|dd|p|dd]; simpl in H.
  - destruct p; [discriminate|]. destruct (tmps g (T d n)); [discriminate|]. inversion H; subst. auto.
  - destruct p; [discriminate|]. destruct (tmps g (T d n)) as [[? ?]|]; [|discriminate]. inversion H; subst. auto.
  - destruct p; [discriminate|]. destruct (tmps g (T d n)) as [[? ?]|]; [|discriminate]. inversion H; subst. auto.
  - destruct p; [discriminate|]. destruct q as [d' n'|]; [|discriminate].
    destruct (tmps g (T d n)) as [[c1 [|]]|]; try discriminate.
    match type of H with (if ?x then _ else _) = _ => destruct x; [|discriminate] end. inversion H; subst. simpl.
    rewrite upd_s_other; auto. intro E. apply (Hn (T d n)). now rewrite <- E.
  - inversion H; subst. simpl. rewrite Hs. destruct dd; reflexivity.
  - destruct p as [d n|d n].
    + match type of H with (if ?x then _ else _) = _ => destruct x eqn:E; [|discriminate] end. inversion H; subst. simpl.
      apply andb_prop in E as [E _]. apply andb_prop in E as [E _].
      rewrite upd_s_other; auto. intro E2. unfold PTR in E2. inversion E2; subst. simpl in E. discriminate.
    + destruct (tmps g (T d n)); [|discriminate]. inversion H; subst. auto.
  - inversion H; subst. auto.
Qed.

Lemma checks_ptr_stable : forall tr g g' cp, checks g tr = Some g' -> Forall no_ptr_rename tr ->
  st g PTR = Linked cp true -> st g' PTR = Linked cp true.
Proof.
  induction tr as [|c tr IH]; intros g g' cp H Hf Hs; simpl in H.
  - inversion H; subst; auto.
  - destruct (check g c) as [g1|] eqn:E; [|discriminate]. inversion Hf; subst.
    eapply IH; eauto. eapply check_ptr_stable; eauto.
Qed.

Lemma Forall_firstn' : forall {A} (Pr : A -> Prop) (l : list A) k, Forall Pr l -> Forall Pr (firstn k l).
Proof.
  intros A Pr l. induction l as [|x l IH]; intros [|k] H; simpl; try constructor; inversion H; subst; auto.
Qed.

Definition is_abort (o : op) : bool := match o with OCommit _ => false | _ => true end.

Lemma publish_no_ptr : forall p c, p <> PTR -> Forall no_ptr_rename (publish_meta p c).
Proof.
  intros p c Hp. unfold publish_meta, gen_write_file. repeat constructor; intros t E; try discriminate.
  inversion E; subst. auto.
Qed.

Lemma abort_no_ptr : forall its, forallb name_ok (names_of_abort its) = true -> Forall no_ptr_rename (abort_trace its).
Proof.
  intros its H. unfold abort_trace. apply Forall_app. split; [|apply Forall_app; split].
  - apply Forall_forall. intros c Hc. apply in_flat_map in Hc as [it [Hit Hc]].
    assert (Hm : mk_path it <> PTR).
    { apply name_ok_spec. apply (forallb_In _ _ _ H). apply in_or_app. left. now apply (in_map mk_path). }
    assert (Hf : fl_path it <> PTR).
    { apply name_ok_spec. apply (forallb_In _ _ _ H). apply in_or_app. right. now apply (in_map fl_path). }
    unfold pub_item in Hc. apply in_app_or in Hc as [Hc|Hc].
    + eapply Forall_forall in Hc; [exact Hc|]. apply publish_no_ptr. exact Hm.
    + change (publish_data (pf_path (it_file it)) (pf_content (it_file it)))
        with (publish_meta (fl_path it) (pf_content (it_file it))) in Hc.
      eapply Forall_forall in Hc; [exact Hc|]. apply publish_no_ptr. exact Hf.
  - apply Forall_forall. intros c Hc. apply in_map_iff in Hc as [it [<- _]]. intros t E. discriminate.
  - apply Forall_forall. intros c Hc. apply in_map_iff in Hc as [it [<- _]]. intros t E. discriminate.
Qed.

Lemma failed_no_ptr : forall prog oe tmp k, Forall no_ptr_rename prog -> Forall no_ptr_rename oe ->
  Forall no_ptr_rename (failed_of prog oe tmp k).
Proof.
  intros prog oe tmp k H Ho. unfold failed_of. apply Forall_app. split; [now apply Forall_firstn'|].
  destruct (tmp_live (firstn k prog) tmp false); [exact Ho|constructor].
Qed.

Lemma on_error_no_ptr : forall tmp, Forall no_ptr_rename (gen_write_file_on_error tmp).
Proof. intro tmp. unfold gen_write_file_on_error. repeat constructor. intros t E. discriminate. Qed.

Lemma fail_no_ptr : forall its mk fl k, forallb name_ok (names_of_fail its mk fl) = true ->
  Forall no_ptr_rename (fail_trace its mk fl k).
Proof.
  intros its mk fl k H. unfold names_of_fail in H. rewrite forallb_app in H. apply andb_prop in H as [H1 H2].
  pose proof (abort_no_ptr its H1) as Ha. unfold abort_trace in Ha.
  apply Forall_app in Ha as [A1 A2]. apply Forall_app in A2 as [A2 A3].
  simpl in H2. apply andb_prop in H2 as [Hm H2]. apply name_ok_spec in Hm as [_ Hm].
  unfold fail_trace. apply Forall_app. split; [exact A1|]. apply Forall_app. split.
  - destruct fl as [f|].
    + simpl in H2. apply andb_prop in H2 as [Hf _]. apply name_ok_spec in Hf as [_ Hf].
      apply Forall_app. split; [now apply publish_no_ptr|]. apply failed_no_ptr; [|apply on_error_no_ptr].
      change (publish_data (pf_path f) (pf_content f)) with (publish_meta (pf_path f) (pf_content f)). now apply publish_no_ptr.
    + apply failed_no_ptr; [|apply on_error_no_ptr]. now apply publish_no_ptr.
  - apply Forall_app. split; [exact A2|]. apply Forall_app. split; [exact A3|].
    destruct fl; repeat constructor. intros t E. discriminate.
Qed.

Lemma aborts_no_ptr : forall rest used avail, forallb is_abort rest = true -> wf_from used avail rest = true ->
  Forall no_ptr_rename (trace_of rest).
Proof.
  induction rest as [|o rest IH]; intros used avail Ha Hwf; simpl in *; [constructor|].
  apply andb_prop in Ha as [A1 A2]. apply andb_prop in Hwf as [W1 W2]. destruct o as [c|its|its mk fl k]; [discriminate| |].
  - apply Forall_app. split; [|eapply IH; eauto].
    apply abort_no_ptr. simpl in W1. unfold wf_abort in W1.
    apply andb_prop in W1 as [W1 _]. apply andb_prop in W1 as [W1 _]. apply andb_prop in W1 as [W1 _]. exact W1.
  - apply Forall_app. split; [|eapply IH; eauto].
    apply fail_no_ptr. simpl in W1. unfold wf_fail in W1.
    repeat (apply andb_prop in W1 as [W1 _]). exact W1.
Qed.

Theorem acked_durable_aborts : forall ops c rest, forallb is_abort rest = true ->
  wf (ops ++ OCommit c :: rest) = true ->
  forall n es, (length (trace_of ops ++ commit_body c) <= n)%nat ->
  calls_of es = firstn n (trace_of (ops ++ OCommit c :: rest)) ->
  exists s', run fs0 es = Some s' /\ pointer (power_loss s') = Some (pf_path (c_meta c)) /\ pointer (vol s') = Some (pf_path (c_meta c)).
Proof.
  intros ops c rest Hab Hwf n es Hn Hes.
  pose proof Hwf as Hwf0.
  unfold wf in Hwf. rewrite wf_from_app in Hwf. apply andb_prop in Hwf as [W1 W2].
  destruct (history_ok ops [] [] [] [] g0 W1 G_init (incl_refl _) (incl_refl _))
    as [g1 [u1 [F1 [C1 [G1 [J1 [J2 _]]]]]]].
  cbn [wf_from wf_op] in W2. apply andb_prop in W2 as [W2 W3].
  destruct (commit_ok c _ _ u1 F1 g1 W2 G1 J1 J2) as [g2 [g3 [u3 [F3 [M3 [C2 [C3 [G2 [G3 [S2 _]]]]]]]]]].
  set (A := trace_of ops ++ commit_body c) in *.
  set (B := commit_cleanup c ++ trace_of rest).
  assert (Htr : trace_of (ops ++ OCommit c :: rest) = A ++ B).
  { rewrite trace_of_app. cbn [trace_of flat_map trace_of_op]. unfold trace_of_commit, A, B. now rewrite <- !app_assoc. }
  destruct (wf_checks _ Hwf0) as [gF [uF [FF [CF _]]]]. rewrite Htr, checks_app in CF.
  assert (CA : checks g0 A = Some g2) by (unfold A; rewrite checks_app, C1; exact C2).
  rewrite CA in CF.
  rewrite Htr, firstn_app, (firstn_all2 A) in Hes by exact Hn.
  set (k := (n - length A)%nat) in *.
  destruct (checks_prefix B k g2 gF CF) as [gk Ck].
  assert (Hck : checks g0 (calls_of es) = Some gk) by (rewrite Hes, checks_app, CA; exact Ck).
  destruct (Inv_run es g0 fs0 gk Hck Inv_init) as [s' [Hr I]]. exists s'. split; auto.
  assert (Sk : st gk PTR = Linked (c_ptr c) true).
  { eapply checks_ptr_stable; [exact Ck| |exact S2]. apply Forall_firstn'. unfold B. apply Forall_app. split.
    - unfold commit_cleanup. apply Forall_forall. intros x Hx. apply in_map_iff in Hx as [it [<- _]]. intros t E. discriminate.
    - eapply aborts_no_ptr; eauto. }
  destruct (i_linked _ _ I 0 0 _ _ Sk) as [i [V1 V2]]. specialize (V2 eq_refl).
  destruct (i_vol _ _ I 0 0 i V1) as [c' [b' [E1 [E2 E3]]]]. fold PTR in E1. rewrite Sk in E1. inversion E1 as [[Ec Eb]]. rewrite <- Ec in E2, E3.
  unfold wf_commit in W2. apply andb_prop in W2 as [_ W6].
  unfold pointer, content_at, power_loss. fold PTR in V1, V2. rewrite V1, V2, E2, E3.
  destruct (refs (c_ptr c)) as [|v [|? ?]]; try discriminate.
  destruct (path_eqb_spec v (pf_path (c_meta c))); [subst; auto|discriminate].
Qed.
