(* Proofs/SchemaOpenProofs.v -- handle provenance (Model/SchemaOpen.v over the regenerated Gen/GenOpen.v):
   however the handles of a history were obtained -- load_table, create_table with ANY schema argument on the
   existing table, Table(...) --, re-bound or kept alive side by side, the table evolves exactly as if no
   handle had ever been configured, and every theorem about append histories carries over. *)
From Coq Require Import ZArith QArith List Bool Lia.
Require Import DS.Model.Value DS.Gen.GenPrune DS.Model.Prune DS.Gen.GenSchema DS.Model.Schema DS.Model.SchemaTx.
Require Import DS.Model.OpenBase DS.Gen.GenOpen DS.Model.SchemaOpen.
Require Import DS.Proofs.PruneProofs DS.Proofs.SchemaProofs DS.Proofs.SchemaTxProofs.
Import ListNotations.
Open Scope Z_scope.

(* ------------------------------------------------------------------ the regenerated opening skeletons *)
(* An opening action is safe when it derives no Arrow layout from the caller's UNVALIDATED schema argument. *)
Fixpoint safe_action (a : oaction) : bool :=
  match a with
  | OADerive SrcArg => false
  | OADerive SrcPersisted => true
  | OAWhenArg b | OAMaybe b => safe_action b
  | OARefresh | OAInitIfAbsent | OAReadSchema => true
  end.

(* ... and that is what the source does today, for every way of obtaining a handle (a computation over the
   REGENERATED definitions: it fails when create_table / load_table / Table.__init__ start doing otherwise). *)
Lemma gen_open_safe :
  forallb safe_action gen_open_create = true
  /\ forallb safe_action gen_open_load = true
  /\ forallb safe_action gen_open_ctor = true.
Proof. repeat split; reflexivity. Qed.

Lemma open_actions_safe o : forallb safe_action (actions_of o) = true.
Proof. destruct gen_open_safe as [H1 [H2 H3]]. destruct o; simpl; assumption. Qed.

(* ------------------------------------------------------------------ an opening never touches the table *)
Lemma open_with_table acts w h arg : table_of (open_with acts w h arg) = table_of w.
Proof. reflexivity. Qed.

Lemma table_scans w1 w2 : table_of w1 = table_of w2 ->
  full_scan w1 = full_scan w2 /\ (forall X fs, filtered_scan X fs w1 = filtered_scan X fs w2).
Proof.
  unfold table_of. intro T. inversion T as [[Hs Hn Hst Hx]].
  unfold full_scan, filtered_scan, current. rewrite Hs, Hn. split; [reflexivity | intros; reflexivity].
Qed.

(* C11_open_no_trace: ANY opening code (safe or not) leaves schema, snapshot list, stored files and all scans alone *)
Lemma open_no_trace acts w h arg :
  let w' := open_with acts w h arg in
  w_schema w' = w_schema w /\ w_snaps w' = w_snaps w /\ w_store w' = w_store w
  /\ full_scan w' = full_scan w /\ (forall X fs, filtered_scan X fs w' = filtered_scan X fs w).
Proof.
  intro w'. destruct (table_scans w' w (open_with_table acts w h arg)) as [F1 F2].
  repeat split; auto.
Qed.

(* ------------------------------------------------------------------ a safe opening yields a cache that only knows the table's layout *)
Section OpenInv.
  Variable conv : catype -> pyval -> option pyval.
  Variable ts : ischema.

  Lemma act_cache_ok arg a : forall c, safe_action a = true -> cache_ok ts c -> cache_ok ts (act_cache (Some ts) arg a c).
  Proof.
    induction a as [| | |s|b IH|b IH]; simpl; intros c S C; auto.
    - destruct s; [discriminate|].
      destruct (create_arrow_schema c ts) as [x c'] eqn:E. simpl.
      exact (proj2 (create_ok ts _ _ _ _ C eq_refl E)).
    - destruct arg; auto.
  Qed.

  Lemma fold_cache_ok arg acts : forall c, forallb safe_action acts = true -> cache_ok ts c ->
    cache_ok ts (fold_left (fun c a => act_cache (Some ts) arg a c) acts c).
  Proof.
    induction acts as [|a acts IH]; simpl; intros c S C; [exact C|].
    apply andb_true_iff in S. destruct S as [S1 S2]. apply IH; [exact S2|]. apply act_cache_ok; assumption.
  Qed.

  Lemma open_cache_ok arg acts : forallb safe_action acts = true -> cache_ok ts (open_cache (Some ts) arg acts).
  Proof. intro S. unfold open_cache. apply fold_cache_ok; [exact S|]. intros k a []. Qed.

  Lemma open_with_inv acts w h arg : forallb safe_action acts = true -> Inv conv ts w -> Inv conv ts (open_with acts w h arg).
  Proof.
    intros S I. unfold open_with. rewrite (inv_schema conv ts w I).
    constructor; simpl; try apply I.
    intros h0 c0 [E|H]; [inversion E; subst; apply open_cache_ok; exact S | exact (inv_caches conv ts w I h0 c0 H)].
  Qed.

  Lemma open_inv w h o : Inv conv ts w -> Inv conv ts (open_handle w h o).
  Proof. apply open_with_inv. apply open_actions_safe. Qed.

  Lemma open_with_invt acts w h arg : forallb safe_action acts = true -> InvT ts w -> InvT ts (open_with acts w h arg).
  Proof.
    intros S I. unfold open_with. rewrite (it_schema ts w I).
    apply invt_set_cache; [exact I | apply open_cache_ok; exact S].
  Qed.

  Lemma open_invt w h o : InvT ts w -> InvT ts (open_handle w h o).
  Proof. apply open_with_invt. apply open_actions_safe. Qed.

  (* ---- under the invariant an append does not depend on what the handles' caches hold ---- *)
  Lemma step_table w1 w2 e : Inv conv ts w1 -> Inv conv ts w2 -> table_of w1 = table_of w2 ->
    table_of (fst (step conv w1 e)) = table_of (fst (step conv w2 e))
    /\ snd (step conv w1 e) = snd (step conv w2 e).
  Proof.
    intros I1 I2 T. pose proof T as T0. unfold table_of in T. inversion T as [[Hs Hn Hst Hx]].
    unfold step. rewrite (inv_schema conv ts w1 I1), (inv_schema conv ts w2 I2).
    destruct (resolve (Some ts) (e_arg e)) as [s|o] eqn:R; [|split; [exact T0 | reflexivity]].
    pose proof (resolve_fields ts _ _ R) as F.
    destruct (negb (forallb (validate_record (sfields s)) (e_recs e))); [split; [exact T0 | reflexivity]|].
    destruct (create_arrow_schema (cache_of w1 (e_handle e)) s) as [a1 c1] eqn:CA1.
    destruct (create_arrow_schema (cache_of w2 (e_handle e)) s) as [a2 c2] eqn:CA2.
    destruct (create_ok ts _ _ _ _ (cache_of_ok conv ts w1 (e_handle e) I1) F CA1) as [E1 K1].
    destruct (create_ok ts _ _ _ _ (cache_of_ok conv ts w2 (e_handle e) I2) F CA2) as [E2 K2]. subst a1 a2.
    destruct (convert conv (arrow_of (sfields ts)) (e_recs e)) as [rows|]; [|split; [exact T0 | reflexivity]].
    destruct (bounds_for (sfields s) (arrow_of (sfields ts)) rows) as [lo hi].
    destruct (recheck_ok ts c1 K1) as [d1 [R1 _]]. destruct (recheck_ok ts c2 K2) as [d2 [R2 _]]. rewrite R1, R2.
    destruct (true && e_commit_ok e); unfold table_of, current; simpl; rewrite Hs, Hn, Hst, Hx; split; reflexivity.
  Qed.

  Lemma hrun_inv xs : forall w, Inv conv ts w -> Inv conv ts (hrun conv w xs).
  Proof.
    induction xs as [|x xs IH]; simpl; intros w I; [exact I|].
    apply IH. destruct x as [h o|e]; simpl; [apply open_inv; exact I | apply step_inv; exact I].
  Qed.

  (* the history with its openings erased reaches the same table through the same outcomes *)
  Lemma hrun_erase xs : forall w1 w2, Inv conv ts w1 -> Inv conv ts w2 -> table_of w1 = table_of w2 ->
    table_of (hrun conv w1 xs) = table_of (run conv w2 (appends xs))
    /\ houtcomes conv w1 xs = run_outcomes conv w2 (appends xs).
  Proof.
    induction xs as [|x xs IH]; simpl; intros w1 w2 I1 I2 T; [split; [exact T | reflexivity]|].
    destruct x as [h o|e]; simpl.
    - apply IH; [apply open_inv; exact I1 | exact I2 | exact T].
    - destruct (step_table w1 w2 e I1 I2 T) as [T' O].
      destruct (IH _ _ (step_inv conv ts w1 e I1) (step_inv conv ts w2 e I2) T') as [T2 O2].
      split; [exact T2 | rewrite O, O2; reflexivity].
  Qed.

  Lemma thrun_invt xs : forall w, InvT ts w -> InvT ts (thrun conv w xs).
  Proof.
    induction xs as [|x xs IH]; simpl; intros w I; [exact I|].
    apply IH. destruct x as [h o|t]; simpl; [apply open_invt; exact I | apply run_tx_invt; exact I].
  Qed.
End OpenInv.

(* ------------------------------------------------------------------ the statements of Props/C11.v *)
(* C11_handle_provenance_irrelevant *)
Lemma handles_irrelevant conv ts xs :
  let w := hrun conv (init (Some ts)) xs in
  let w0 := run conv (init (Some ts)) (appends xs) in
  houtcomes conv (init (Some ts)) xs = run_outcomes conv (init (Some ts)) (appends xs)
  /\ w_schema w = w_schema w0 /\ w_snaps w = w_snaps w0 /\ w_store w = w_store w0
  /\ full_scan w = full_scan w0
  /\ (forall X fs, filtered_scan X fs w = filtered_scan X fs w0).
Proof.
  intros w w0.
  destruct (hrun_erase conv ts xs _ _ (inv_init conv ts) (inv_init conv ts) eq_refl) as [T O].
  destruct (table_scans _ _ T) as [F1 F2]. fold w in T, F1, F2. fold w0 in T, F1, F2.
  unfold table_of in T. inversion T as [[Hs Hn Hst Hx]].
  repeat split; auto.
Qed.

(* C11_handles_history_scans *)
Lemma handles_history_scans conv ts xs :
  scan_ok (current (hrun conv (init (Some ts)) xs)) = true /\ full_scan (hrun conv (init (Some ts)) xs) <> None.
Proof.
  pose proof (inv_scan_ok conv ts _ (hrun_inv conv ts xs _ (inv_init conv ts))) as H. split; [exact H|].
  unfold full_scan. rewrite H. discriminate.
Qed.

(* C11_handles_exact_partial *)
Lemma handles_exact rnd32 conv (CS : conv_sound rnd32 conv) ts xs :
  full_scan (hrun conv (init (Some ts)) xs) = Some (expected rnd32 conv ts (init (Some ts)) (appends xs)).
Proof.
  destruct (handles_irrelevant conv ts xs) as [_ [_ [_ [_ [F _]]]]]. rewrite F.
  exact (proj1 (exact_history rnd32 conv CS ts (appends xs))).
Qed.

(* C11_handles_filter *)
Lemma handles_filter conv X ts xs fs :
  NoDup (map fname (sfields ts)) -> NoDup (map fid (sfields ts)) -> conv_kinds conv ->
  let w := hrun conv (init (Some ts)) xs in
  filtered_scan X fs w = Some (filter (row_selected X fs) (map vrow (flat_map df_rows (current w)))).
Proof.
  intros NDn NDi CK w. apply (inv_filter conv CK ts NDn NDi). apply hrun_inv. apply inv_init.
Qed.

(* C11_handles_tx_history_scans *)
Lemma handles_tx_history_scans conv ts xs :
  scan_ok (current (thrun conv (init (Some ts)) xs)) = true /\ full_scan (thrun conv (init (Some ts)) xs) <> None.
Proof.
  pose proof (thrun_invt conv ts xs _ (invt_init ts)) as I.
  assert (S : scan_ok (current (thrun conv (init (Some ts)) xs)) = true).
  { apply (scan_ok_same (arrow_of (sfields ts))). intros f Hf. destruct (current_in _ _ Hf) as [sn [H1 H2]].
    exact (it_files ts _ I sn f H1 H2). }
  split; [exact S|]. unfold full_scan. rewrite S. discriminate.
Qed.
