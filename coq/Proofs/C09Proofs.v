(* Proofs/C09Proofs.v -- immutability of committed versions from the initial state (lifts
   FaultProofs.committed_immutable to "any prefix, then any continuation"). *)
From Coq Require Import ZArith List Bool Arith.
Require Import DS.Model.Commit DS.Model.Fault DS.Proofs.CommitProofs DS.Proofs.FaultProofs.
Import ListNotations.

Lemma frun_app c x evs1 evs2 : frun c x (evs1 ++ evs2) = frun c (frun c x evs1) evs2.
Proof. unfold frun. apply fold_left_app. Qed.

Theorem immutable_from_init c m0 kind mr r0 next evs1 evs2 :
  sound c -> (forall f, In f r0 -> (f < next)%nat) ->
  let x := frun c (finit m0 kind mr r0 next) evs1 in
  let y := frun c (finit m0 kind mr r0 next) (evs1 ++ evs2) in
  forall v, In v (committed (fw x)) ->
    refs y v = refs x v /\ (forall f, In f (refs x v) -> In f (f_present y)) /\ In v (committed (fw y)).
Proof.
  intros Snd Hr x y v Hv. subst x y. rewrite frun_app.
  apply committed_immutable; [exact Snd| |exact Hv].
  apply frun_inv; [exact Snd|]. apply finit_inv. exact Hr.
Qed.

(* collections (Model/GCHist.v): the retained-snapshot half of C05's history invariant -- PRESENCE of every file a retained
   snapshot reaches; that the CONTENT is unchanged is Proofs/GCViewProofs.v *)
Require DS.Model.GC DS.Model.GCHist DS.Proofs.GCHistProofs.
Theorem hist_keeps_retained_present : forall ops : list DS.Model.GCHist.hop,
  let h := DS.Model.GCHist.run_hist ops in
  forall l, In l (DS.Model.GCHist.h_lists h) -> DS.Model.GCHist.snapshot_present (DS.Model.GCHist.h_store h) l.
Proof. intros ops h. exact (proj2 (DS.Proofs.GCHistProofs.history_invariant ops)). Qed.
