(* Proofs/ValueOrder.v -- order theory of Python comparisons (Model/Value.v). *)
From Coq Require Import ZArith QArith Lqa Lia List Bool.
Require Import DS.Model.Value.
Import ListNotations.
Open Scope Z_scope.

Definition flip (o : ord) : ord :=
  match o with OLt => OGt | OGt => OLt | OEq => OEq | OUn => OUn end.

Lemma Qcompare_spec3 (x y : Q) :
  ((x ?= y)%Q = Lt /\ (x < y)%Q) \/ ((x ?= y)%Q = Eq /\ (x == y)%Q) \/ ((x ?= y)%Q = Gt /\ (y < x)%Q).
Proof.
  destruct (x ?= y)%Q eqn:E.
  - right; left; split; [reflexivity | apply Qeq_alt; exact E].
  - left; split; [reflexivity | apply Qlt_alt; exact E].
  - right; right; split; [reflexivity | apply Qgt_alt in E; exact E].
Qed.

Lemma Qcompare_lt (x y : Q) : (x < y)%Q -> (x ?= y)%Q = Lt.
Proof. intro H. apply Qlt_alt. exact H. Qed.
Lemma Qcompare_eq (x y : Q) : (x == y)%Q -> (x ?= y)%Q = Eq.
Proof. intro H. apply Qeq_alt. exact H. Qed.
Lemma Qcompare_gt (x y : Q) : (y < x)%Q -> (x ?= y)%Q = Gt.
Proof. intro H. apply Qgt_alt. exact H. Qed.

Lemma num_cmp_flip a b : num_cmp b a = flip (num_cmp a b).
Proof.
  destruct a as [x| | |], b as [y| | |]; simpl; auto.
  destruct (Qcompare_spec3 x y) as [[E H]|[[E H]|[E H]]]; rewrite E; simpl.
  - rewrite (Qcompare_gt y x H). reflexivity.
  - rewrite (Qcompare_eq y x). reflexivity. symmetry; exact H.
  - rewrite (Qcompare_lt y x H). reflexivity.
Qed.

(* transitivity on the number line, in the <= / < / = fragment *)
Lemma num_cmp_trans a b c o1 o2 :
  num_cmp a b = o1 -> num_cmp b c = o2 -> is_le o1 = true -> is_le o2 = true ->
  is_le (num_cmp a c) = true
  /\ (is_lt o1 = true \/ is_lt o2 = true -> is_lt (num_cmp a c) = true)
  /\ (is_eq o1 = true -> is_eq o2 = true -> is_eq (num_cmp a c) = true).
Proof.
  intros H1 H2 L1 L2. subst o1 o2.
  destruct a as [x| | |], b as [y| | |], c as [z| | |]; simpl in *; try discriminate;
    try (repeat split; intros; try reflexivity; try discriminate; try tauto;
         match goal with H : _ \/ _ |- _ => destruct H; discriminate end).
  destruct (Qcompare_spec3 x y) as [[E1 H1]|[[E1 H1]|[E1 H1]]]; rewrite E1 in *; simpl in *; try discriminate;
  destruct (Qcompare_spec3 y z) as [[E2 H2]|[[E2 H2]|[E2 H2]]]; rewrite E2 in *; simpl in *; try discriminate.
  - rewrite (Qcompare_lt x z) by lra. simpl. repeat split; auto.
  - rewrite (Qcompare_lt x z) by lra. simpl. repeat split; auto.
  - rewrite (Qcompare_lt x z) by lra. simpl. repeat split; auto.
  - rewrite (Qcompare_eq x z) by lra. simpl. repeat split; auto. intros [H|H]; discriminate.
Qed.

Lemma lex_cmp_flip s t : lex_cmp t s = CompOpp (lex_cmp s t).
Proof.
  revert t; induction s as [|a s IH]; intros [|b t]; simpl; auto.
  rewrite (Z.compare_antisym a b). destruct (a ?= b); simpl; auto.
Qed.

Lemma lex_cmp_eq s t : lex_cmp s t = Eq -> s = t.
Proof.
  revert t; induction s as [|a s IH]; intros [|b t]; simpl; try discriminate; auto.
  destruct (a ?= b) eqn:E; try discriminate. intro H. apply Z.compare_eq in E. subst. f_equal. auto.
Qed.

Lemma lex_cmp_refl s : lex_cmp s s = Eq.
Proof. induction s as [|a s IH]; simpl; auto. rewrite Z.compare_refl. exact IH. Qed.

Lemma lex_cmp_lt_trans s t u : lex_cmp s t = Lt -> lex_cmp t u = Lt -> lex_cmp s u = Lt.
Proof.
  revert t u; induction s as [|a s IH]; intros [|b t] [|c u]; simpl; try discriminate; auto.
  destruct (a ?= b) eqn:E1; destruct (b ?= c) eqn:E2; try discriminate; intros H1 H2.
  - apply Z.compare_eq in E1; apply Z.compare_eq in E2; subst. rewrite Z.compare_refl. eauto.
  - apply Z.compare_eq in E1; subst. rewrite E2. reflexivity.
  - apply Z.compare_eq in E2; subst. rewrite E1. reflexivity.
  - assert (a ?= c = Lt) as ->; [|reflexivity].
    rewrite Z.compare_lt_iff in *. lia.
Qed.

Lemma ord_of_flip c : ord_of (CompOpp c) = flip (ord_of c).
Proof. destruct c; reflexivity. Qed.

Lemma vcmp_flip a b : vcmp b a = option_map flip (vcmp a b).
Proof.
  unfold vcmp.
  destruct (num_of a) as [x|] eqn:Ea, (num_of b) as [y|] eqn:Eb; simpl.
  - rewrite num_cmp_flip. reflexivity.
  - destruct a, b; simpl in *; try discriminate; reflexivity.
  - destruct a, b; simpl in *; try discriminate; reflexivity.
  - destruct a, b; simpl in *; try discriminate; try reflexivity.
    + rewrite lex_cmp_flip, ord_of_flip. reflexivity.
    + rewrite (Z.compare_antisym us us0), ord_of_flip. reflexivity.
    + rewrite (Z.compare_antisym d d0), ord_of_flip. reflexivity.
    + rewrite (Z.compare_antisym us us0), ord_of_flip. reflexivity.
Qed.

Lemma Zcmp_trans_facts x y z :
  is_le (ord_of (x ?= y)) = true -> is_le (ord_of (y ?= z)) = true ->
  is_le (ord_of (x ?= z)) = true
  /\ (is_lt (ord_of (x ?= y)) = true \/ is_lt (ord_of (y ?= z)) = true -> is_lt (ord_of (x ?= z)) = true)
  /\ (is_eq (ord_of (x ?= y)) = true -> is_eq (ord_of (y ?= z)) = true -> is_eq (ord_of (x ?= z)) = true).
Proof.
  destruct (Z.compare_spec x y), (Z.compare_spec y z); simpl; try discriminate; intros _ _;
  destruct (Z.compare_spec x z); simpl; repeat split; auto; try lia; intros; try discriminate;
    try (match goal with H : _ \/ _ |- _ => destruct H; discriminate end).
Qed.

Lemma lex_trans_facts x y z :
  is_le (ord_of (lex_cmp x y)) = true -> is_le (ord_of (lex_cmp y z)) = true ->
  is_le (ord_of (lex_cmp x z)) = true
  /\ (is_lt (ord_of (lex_cmp x y)) = true \/ is_lt (ord_of (lex_cmp y z)) = true -> is_lt (ord_of (lex_cmp x z)) = true)
  /\ (is_eq (ord_of (lex_cmp x y)) = true -> is_eq (ord_of (lex_cmp y z)) = true -> is_eq (ord_of (lex_cmp x z)) = true).
Proof.
  destruct (lex_cmp x y) eqn:E1, (lex_cmp y z) eqn:E2; simpl; try discriminate; intros _ _.
  - apply lex_cmp_eq in E1; apply lex_cmp_eq in E2; subst. rewrite lex_cmp_refl. simpl.
    repeat split; auto. intros [H|H]; discriminate.
  - apply lex_cmp_eq in E1; subst. rewrite E2. simpl. repeat split; auto.
  - apply lex_cmp_eq in E2; subst. rewrite E1. simpl. repeat split; auto.
  - rewrite (lex_cmp_lt_trans _ _ _ E1 E2). simpl. repeat split; auto.
Qed.

(* transitivity of Python ordering across comparable values *)
Lemma vcmp_trans a b c o1 o2 :
  vcmp a b = Some o1 -> vcmp b c = Some o2 -> is_le o1 = true -> is_le o2 = true ->
  exists o3, vcmp a c = Some o3 /\ is_le o3 = true
    /\ (is_lt o1 = true \/ is_lt o2 = true -> is_lt o3 = true)
    /\ (is_eq o1 = true -> is_eq o2 = true -> is_eq o3 = true).
Proof.
  unfold vcmp. intros H1 H2 L1 L2.
  destruct (num_of a) as [x|] eqn:Ea, (num_of b) as [y|] eqn:Eb, (num_of c) as [z|] eqn:Ec;
    simpl in *.
  - inversion H1; inversion H2; subst.
    eexists; split; [reflexivity|]. eapply num_cmp_trans; eauto.
  - destruct b, c; simpl in *; discriminate.
  - destruct a, b; simpl in *; discriminate.
  - destruct a, b; simpl in *; discriminate.
  - destruct a, b; simpl in *; discriminate.
  - destruct a, b; simpl in *; discriminate.
  - destruct b, c; simpl in *; discriminate.
  - destruct a, b, c; simpl in *; try discriminate;
      inversion H1; inversion H2; subst; eexists; (split; [reflexivity|]);
      first [apply lex_trans_facts; assumption | apply Zcmp_trans_facts; assumption].
Qed.
