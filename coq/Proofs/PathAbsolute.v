(* Proofs/PathAbsolute.v -- what the resolver of Model/Path.v does with a TRUE ABSOLUTE path string (C17).

   LocalStorageBackend._resolve_path strips the leading slashes of an absolute string and joins the rest under the table
   root (join_for_resolve): "/etc/passwd" names <root>/etc/passwd, never the system file.  "Escaping" is therefore judged
   on the JOINED string, not on the string as the caller wrote it. *)
From Coq Require Import ZArith List Bool Lia.
Require Import DS.Model.Path DS.Gen.GenPath DS.Proofs.PathProofs.
Import ListNotations.
Open Scope Z_scope.

Lemma drop_empty_head : forall s : pstr, drop_empty s = [] \/ exists c r, drop_empty s = c :: r /\ (c =? 0) = false.
Proof.
  induction s as [|c s IH]; simpl; [left; reflexivity|].
  destruct (c =? 0) eqn:E; [exact IH|]. right. exists c, s. split; [reflexivity|exact E].
Qed.

Lemma lstrip_not_abs : forall s : pstr, is_abs (lstrip s) = false.
Proof.
  intro s. unfold lstrip. destruct (drop_empty_head s) as [H|[c [r [H E]]]]; rewrite H; [reflexivity|].
  simpl. destruct r; [reflexivity|exact E].
Qed.

Lemma join_for_resolve_lstrip : forall base p : pstr, is_abs p = true ->
  join_for_resolve base p = join_for_resolve base (lstrip p).
Proof.
  intros base p H. unfold join_for_resolve. rewrite H, (lstrip_not_abs p). reflexivity.
Qed.

Lemma os_join_canonical_base : forall (b : loc) (s : pstr), names b -> b <> [] -> is_abs s = false ->
  os_join (abs_str b) s = abs_str b ++ s.
Proof.
  intros b s Hn Hne Hs. unfold os_join. rewrite Hs.
  destruct b as [|x0 b0] using rev_ind; [contradiction|]. clear IHb0.
  assert (Hx : (x0 =? 0) = false).
  { unfold names in Hn. rewrite forallb_app in Hn. apply andb_true_iff in Hn. destruct Hn as [_ Hn]. simpl in Hn.
    rewrite andb_true_r in Hn. unfold is_name, is_skip in Hn. apply andb_true_iff in Hn. destruct Hn as [Hn _].
    apply negb_true_iff in Hn. apply orb_false_iff in Hn. exact (proj1 Hn). }
  assert (Ha : abs_str (b0 ++ [x0]) = 0 :: b0 ++ [x0]) by (destruct b0; reflexivity).
  rewrite Ha. change (0 :: b0 ++ [x0]) with ((0 :: b0) ++ [x0]). rewrite rev_app_distr. simpl rev at 1. simpl app at 1.
  cbv iota beta. rewrite Hx. reflexivity.
Qed.

Lemma absolute_is_rerooted : forall (d : nat) (t : tree) (cwd : loc) (base p : pstr),
  is_abs p = true ->
  is_abs (lstrip p) = false
  /\ join_for_resolve base p = os_join base (lstrip p)
  /\ (forall b : loc, names b -> b <> [] -> base = abs_str b -> join_for_resolve base p = abs_str b ++ lstrip p)
  /\ resolve d t cwd base p = resolve d t cwd base (lstrip p)
  /\ (forall q : loc, resolve d t cwd base p = Ok q ->
        exists rb, realpath d t cwd base = Ok rb /\ realpath d t cwd (os_join base (lstrip p)) = Ok q
                /\ is_prefix rb q = true /\ no_link_prefix t q = true)
  /\ (forall full rb : loc, realpath d t cwd (os_join base (lstrip p)) = Ok full -> realpath d t cwd base = Ok rb ->
        is_prefix rb full = false -> resolve d t cwd base p = Err Security).
Proof.
  intros d t cwd base p H.
  assert (J : join_for_resolve base p = os_join base (lstrip p)) by (unfold join_for_resolve; rewrite H; reflexivity).
  split; [exact (lstrip_not_abs p)|]. split; [exact J|]. split; [|split; [|split]].
  - intros b Hn Hne Hb. rewrite J. subst base. exact (os_join_canonical_base b (lstrip p) Hn Hne (lstrip_not_abs p)).
  - unfold resolve. rewrite (join_for_resolve_lstrip base p H). reflexivity.
  - intros q Hq. destruct (resolve_ok d t cwd base p q Hq) as [rb [H1 [H2 [H3 [H4 _]]]]].
    exists rb. rewrite J in H2. repeat split; assumption.
  - intros full rb H1 H2 H3. rewrite <- J in H1. exact (resolve_reject d t cwd base p full rb H1 H2 H3).
Qed.
